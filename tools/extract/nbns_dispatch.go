package main

// Fact NbnsDispatch (C18): the opcode dispatch of the three NBNS servers and the two "only name queries"
// guards, read off the source of package network/netbios/nbtns.
//
//   switch packet.Header.Flags & <MASK> { case <Op…>: <x>.handle…(&packet, response) … default: … }
//   if <p>.Header.Flags&<MASK> != <Op…> { return … }
//
// MASK and the case constants are constant expressions over the package's own integer constants; they
// are evaluated here (hex/decimal literals, identifiers, | & ^ << >> + parentheses).  Anything else is
// an error.
//
// Normalisation "decision on the flags word" (DESIGN.md §7).  A dispatch site and a guard are FUNCTIONS OF
// THE 16-BIT HEADER FLAGS WORD: which handler runs, whether the packet passes.  The canonical forms above are
// one way of writing such a function; the reader now accepts every way it can evaluate, and regenerates the
// canonical form from the function itself:
//
//   - a PURE FLAGS EXPRESSION is built from `<p>.Header.Flags` (or, inside a helper, its uint16 parameter; or a
//     variable bound to a pure flags expression by the `switch` init), integer constants of the package,
//     parentheses, the conversions uint16/uint32/int, the operators & | ^ &^ << >> + - == != < <= > >= && || !,
//     and calls of package-level helper functions `func h(x uint16) T { return <pure flags expression over x> }`.
//     It is evaluated here with Go's uint16 semantics (results of << + - ^ truncated to the operand's width) on
//     ALL 65 536 words;
//   - GUARD: `if D1 || … || Dn { … return … }` where some disjunct Di is a pure flags expression that (with
//     helpers inlined) mentions an Op… constant.  `if A || B { return }` is `if A { return }; if B { return }`
//     for pure A, so the disjuncts that do not mention the flags word (`len(request.Questions) == 0`) are other
//     early returns, not part of the opcode guard; EVERY disjunct that does mention it is (also one that names no
//     Op… constant, e.g. `Flags&FlagResponse != 0`).  The packets that pass are P = {f | no flags disjunct holds};
//     P must be {f | f&m == c} for some m, c — then (m, c) is unique and is what is emitted.  A disjunct that
//     mixes the flags word with anything else is refused;
//   - DISPATCH: `switch [v := T;] T|v { case K…: <x>.handleX(…) … default: response.Header.Flags |= RcodeNotImpl }`
//     with T a pure flags expression and K constants, or a tagless `switch { case <pure flags condition>: … }`.
//     Case i takes S_i = {f | first case whose constant equals T(f) is i}; every S_i must be {f | f&m == c_i}
//     with ONE m for all cases; emitted (m, [(c_i, handler)]) — e.g. a dispatch on the shifted opcode
//     `(f>>11) & 0xF` with cases `OpRelease>>11` gives back m = 0x7800, c = 0x3000.  The regenerated table is
//     then run against the source's switch on all 65 536 words and must pick the same arm everywhere;
//   - DISPATCH THROUGH A SELECTOR: `func (h *T) sel(flags uint16) func(…) { switch … { case K: return h.handleX … }
//     return nil }` used only as `if f := <x>.sel(<p>.Header.Flags); f != nil { f(…) } else { <default> }` is
//     the same switch with the call moved behind a function value; the site is the function containing that
//     `if`, the selector itself is not a site.  Any other use of the selector is refused.
//
// A `switch`/`if … return` that mentions `.Header.Flags` together with an Op… constant and is none of these is an
// error (it used to be skipped silently, so a rewritten guard simply vanished from the facts).

import (
	"fmt"
	"go/ast"
	"go/parser"
	"go/printer"
	"go/token"
	"os"
	"path/filepath"
	"sort"
	"strconv"
	"strings"
)

func init() { facts["NbnsDispatch"] = nbnsDispatch }

type constEnv map[string]ast.Expr

func evalConst(env constEnv, e ast.Expr, depth int) (uint64, error) {
	if depth > 20 {
		return 0, fmt.Errorf("constant expression too deep")
	}
	switch x := e.(type) {
	case *ast.BasicLit:
		if x.Kind != token.INT {
			return 0, fmt.Errorf("non-integer literal %s", x.Value)
		}
		return strconv.ParseUint(strings.ReplaceAll(x.Value, "_", ""), 0, 64)
	case *ast.ParenExpr:
		return evalConst(env, x.X, depth+1)
	case *ast.Ident:
		d, ok := env[x.Name]
		if !ok {
			return 0, fmt.Errorf("unknown constant %s", x.Name)
		}
		return evalConst(env, d, depth+1)
	case *ast.CallExpr: // uint16(x)
		if id, ok := x.Fun.(*ast.Ident); ok && len(x.Args) == 1 && (id.Name == "uint16" || id.Name == "uint32" || id.Name == "int") {
			return evalConst(env, x.Args[0], depth+1)
		}
	case *ast.BinaryExpr:
		a, err := evalConst(env, x.X, depth+1)
		if err != nil {
			return 0, err
		}
		b, err := evalConst(env, x.Y, depth+1)
		if err != nil {
			return 0, err
		}
		switch x.Op {
		case token.OR:
			return a | b, nil
		case token.AND:
			return a & b, nil
		case token.XOR:
			return a ^ b, nil
		case token.SHL:
			return a << b, nil
		case token.SHR:
			return a >> b, nil
		case token.ADD:
			return a + b, nil
		}
	}
	return 0, fmt.Errorf("unsupported constant expression")
}

// <anything>.Header.Flags
func isHeaderFlags(e ast.Expr) bool {
	s, ok := e.(*ast.SelectorExpr)
	if !ok || s.Sel.Name != "Flags" {
		return false
	}
	h, ok := s.X.(*ast.SelectorExpr)
	return ok && h.Sel.Name == "Header"
}

func funcDisplayName(fd *ast.FuncDecl) string {
	if fd.Recv != nil && len(fd.Recv.List) == 1 {
		t := fd.Recv.List[0].Type
		if st, ok := t.(*ast.StarExpr); ok {
			t = st.X
		}
		if id, ok := t.(*ast.Ident); ok {
			return id.Name + "." + fd.Name.Name
		}
	}
	return fd.Name.Name
}

type dispatchCase struct {
	Value   uint64 `json:"value"`
	Const   string `json:"const"`
	Handler string `json:"handler"`
}
type dispatchSite struct {
	via     string         // name of the selector function the site dispatches through ("" = a switch of its own)
	Name    string         `json:"name"`
	File    string         `json:"file"`
	Mask    uint64         `json:"mask"`
	Cases   []dispatchCase `json:"cases"`
	Default string         `json:"default"`
}
type guardSite struct {
	Name  string `json:"name"`
	File  string `json:"file"`
	Mask  uint64 `json:"mask"`
	Const uint64 `json:"const"`
}

// OpNameQuery, OpRegistration, … (but not OpcodeMask)
func isOpConst(n string) bool {
	return strings.HasPrefix(n, "Op") && len(n) > 2 && n[2] >= 'A' && n[2] <= 'Z'
}

var handlerLean = map[string]string{
	"handleNameQuery":    ".query",
	"handleRegistration": ".registration",
	"handleRelease":      ".release",
	"handleRefresh":      ".refresh",
}

func nbnsDispatch(repo string) (string, any, error) {
	dir := filepath.Join(repo, "network/netbios/nbtns")
	fset := token.NewFileSet()
	entries, err := os.ReadDir(dir)
	if err != nil {
		return "", nil, err
	}
	var files []*ast.File
	var names []string
	env := constEnv{}
	for _, ent := range entries {
		fn := ent.Name()
		if !strings.HasSuffix(fn, ".go") || strings.HasSuffix(fn, "_test.go") {
			continue
		}
		f, err := parser.ParseFile(fset, filepath.Join(dir, fn), nil, 0)
		if err != nil {
			return "", nil, err
		}
		files = append(files, f)
		names = append(names, fn)
		for _, d := range f.Decls {
			gd, ok := d.(*ast.GenDecl)
			if !ok || gd.Tok != token.CONST {
				continue
			}
			for _, sp := range gd.Specs {
				vs := sp.(*ast.ValueSpec)
				if len(vs.Values) == len(vs.Names) {
					for i, n := range vs.Names {
						env[n.Name] = vs.Values[i]
					}
				}
			}
		}
	}
	var sites []dispatchSite
	var guards []guardSite
	nd := &nbnsReader{env: env, fset: fset, funcs: map[string]*ast.FuncDecl{}}
	for _, f := range files {
		for _, d := range f.Decls {
			if fd, ok := d.(*ast.FuncDecl); ok && fd.Body != nil && fd.Recv == nil {
				nd.funcs[fd.Name.Name] = fd
			}
		}
	}
	// selector functions (dispatch through a function value)
	selectors := map[string]*dispatchSite{}
	selUses := map[string]int{}
	for fi, f := range files {
		for _, d := range f.Decls {
			fd, ok := d.(*ast.FuncDecl)
			if !ok || fd.Body == nil {
				continue
			}
			site, err := nd.selectorFunc(fd, names[fi])
			if err != nil {
				return "", nil, err
			}
			if site != nil {
				if _, dup := selectors[fd.Name.Name]; dup {
					return "", nil, fmt.Errorf("%s: two selector functions named %s", names[fi], fd.Name.Name)
				}
				selectors[fd.Name.Name] = site
			}
		}
	}
	for fi, f := range files {
		for _, d := range f.Decls {
			fd, ok := d.(*ast.FuncDecl)
			if !ok || fd.Body == nil {
				continue
			}
			if _, isSel := selectors[fd.Name.Name]; isSel && fd.Recv != nil {
				continue
			}
			var ferr error
			ast.Inspect(fd.Body, func(n ast.Node) bool {
				if ferr != nil {
					return false
				}
				switch x := n.(type) {
				case *ast.SelectorExpr:
					if _, ok := selectors[x.Sel.Name]; ok {
						selUses[x.Sel.Name]++
					}
				case *ast.SwitchStmt:
					site, err := nd.dispatchSwitch(x, nil, false)
					if err != nil {
						ferr = err
						return false
					}
					if site != nil {
						site.Name, site.File = funcDisplayName(fd), names[fi]
						sites = append(sites, *site)
					}
				case *ast.IfStmt:
					// dispatch through a selector
					if site, err := nd.selectorCall(x, selectors); err != nil {
						ferr = err
						return false
					} else if site != nil {
						site.Name, site.File = funcDisplayName(fd), names[fi]
						sites = append(sites, *site)
						selUses[site.via]--
						return true
					}
					g, err := nd.guard(x)
					if err != nil {
						ferr = err
						return false
					}
					if g != nil {
						g.Name, g.File = funcDisplayName(fd), names[fi]
						guards = append(guards, *g)
					}
				}
				return true
			})
			if ferr != nil {
				return "", nil, ferr
			}
		}
	}
	for name, n := range selUses {
		if n != 0 {
			return "", nil, fmt.Errorf("selector function %s is used other than as `if f := x.%s(p.Header.Flags); f != nil { f(…) } else { … }` (%d uses not understood)", name, name, n)
		}
	}
	if len(sites) == 0 {
		return "", nil, fmt.Errorf("no `switch ….Header.Flags & MASK` dispatch found in %s", dir)
	}
	sort.Slice(sites, func(i, j int) bool { return sites[i].Name < sites[j].Name })
	sort.Slice(guards, func(i, j int) bool { return guards[i].Name < guards[j].Name })
	opNames := []string{}
	for n := range env {
		if isOpConst(n) {
			opNames = append(opNames, n)
		}
	}
	sort.Strings(opNames)
	var b strings.Builder
	b.WriteString("-- Fact NbnsDispatch: opcode dispatch of the NBNS servers (network/netbios/nbtns/*.go)\n")
	b.WriteString("namespace Manticore.Gen.NbnsDispatch\n\n")
	b.WriteString("inductive Handler | query | registration | release | refresh | notImpl\n  deriving DecidableEq, Repr\n\n")
	b.WriteString("/-- one `switch packet.Header.Flags & mask`: the mask and, in source order, (case constant, handler) -/\n")
	b.WriteString("structure Site where\n  name : String\n  mask : Nat\n  cases : List (Nat × Handler)\n  deriving Repr\n\n")
	b.WriteString("/-- one `if p.Header.Flags&mask != const { return }` -/\n")
	b.WriteString("structure Guard where\n  name : String\n  mask : Nat\n  const : Nat\n  deriving Repr\n\n")
	b.WriteString("def sites : List Site := [\n")
	for i, s := range sites {
		var cs []string
		for _, c := range s.Cases {
			cs = append(cs, fmt.Sprintf("(0x%04X, %s)", c.Value, handlerLean[c.Handler]))
		}
		sep := ","
		if i == len(sites)-1 {
			sep = ""
		}
		fmt.Fprintf(&b, "  ⟨%q, 0x%04X, [%s]⟩%s\n", s.Name, s.Mask, strings.Join(cs, ", "), sep)
	}
	b.WriteString("]\n\ndef guards : List Guard := [\n")
	for i, g := range guards {
		sep := ","
		if i == len(guards)-1 {
			sep = ""
		}
		fmt.Fprintf(&b, "  ⟨%q, 0x%04X, 0x%04X⟩%s\n", g.Name, g.Mask, g.Const, sep)
	}
	b.WriteString("]\n\n/-- the package's `Op*` constants -/\ndef opConsts : List (String × Nat) := [\n")
	for i, n := range opNames {
		v, err := evalConst(env, env[n], 0)
		if err != nil {
			return "", nil, fmt.Errorf("constant %s: %v", n, err)
		}
		sep := ","
		if i == len(opNames)-1 {
			sep = ""
		}
		fmt.Fprintf(&b, "  (%q, 0x%04X)%s\n", n, v, sep)
	}
	b.WriteString("]\n\nend Manticore.Gen.NbnsDispatch\n")
	return b.String(), map[string]any{"sites": sites, "guards": guards}, nil
}

// ---- decisions on the flags word ---------------------------------------------------------------------------

type nbnsReader struct {
	env   constEnv
	fset  *token.FileSet
	funcs map[string]*ast.FuncDecl // package-level functions (helpers)
}

func (r *nbnsReader) pos(p token.Pos) string { return r.fset.Position(p).String() }

// fval: a value of a pure flags expression at one word
type fval struct {
	v    uint64
	w    int // width in bits of a typed integer, 0 for an untyped constant
	bool bool
}

type notPure struct{ why string }

func (e notPure) Error() string { return e.why }

// mentionsFlags: the expression contains `<p>.Header.Flags` or the identifier `param`
func mentionsFlags(e ast.Node, param string) bool {
	found := false
	ast.Inspect(e, func(n ast.Node) bool {
		if x, ok := n.(ast.Expr); ok && isHeaderFlags(x) {
			found = true
		}
		if id, ok := n.(*ast.Ident); ok && param != "" && id.Name == param {
			found = true
		}
		return !found
	})
	return found
}

// mentionsOp: with helpers inlined, the expression names an Op… constant or OpcodeMask
func (r *nbnsReader) mentionsOp(e ast.Node, depth int) bool {
	found := false
	ast.Inspect(e, func(n ast.Node) bool {
		switch x := n.(type) {
		case *ast.Ident:
			if isOpConst(x.Name) || x.Name == "OpcodeMask" {
				found = true
			}
		case *ast.CallExpr:
			if id, ok := x.Fun.(*ast.Ident); ok && depth < 4 {
				if fd := r.funcs[id.Name]; fd != nil && r.mentionsOp(fd.Body, depth+1) {
					found = true
				}
			}
		}
		return !found
	})
	return found
}

// eval: the value of a pure flags expression at word f; bound: variables standing for the flags word or for values
func (r *nbnsReader) eval(e ast.Expr, f uint16, bound map[string]fval, depth int) (fval, error) {
	if depth > 30 {
		return fval{}, notPure{"expression too deep"}
	}
	if isHeaderFlags(e) {
		return fval{v: uint64(f), w: 16}, nil
	}
	trunc := func(x fval) fval {
		if x.w > 0 && x.w < 64 {
			x.v &= 1<<uint(x.w) - 1
		}
		return x
	}
	switch x := e.(type) {
	case *ast.ParenExpr:
		return r.eval(x.X, f, bound, depth+1)
	case *ast.BasicLit:
		v, err := evalConst(r.env, x, 0)
		if err != nil {
			return fval{}, notPure{err.Error()}
		}
		return fval{v: v}, nil
	case *ast.Ident:
		if b, ok := bound[x.Name]; ok {
			return b, nil
		}
		if x.Name == "true" || x.Name == "false" {
			return fval{v: map[bool]uint64{true: 1}[x.Name == "true"], bool: true}, nil
		}
		if _, ok := r.env[x.Name]; ok {
			v, err := evalConst(r.env, x, 0)
			if err != nil {
				return fval{}, notPure{err.Error()}
			}
			return fval{v: v}, nil
		}
		return fval{}, notPure{"`" + x.Name + "` is neither the flags word nor a constant of the package"}
	case *ast.UnaryExpr:
		a, err := r.eval(x.X, f, bound, depth+1)
		if err != nil {
			return fval{}, err
		}
		switch {
		case x.Op == token.NOT && a.bool:
			return fval{v: 1 - a.v, bool: true}, nil
		case x.Op == token.XOR && !a.bool && a.w > 0:
			a.v = ^a.v
			return trunc(a), nil
		}
		return fval{}, notPure{"unary operator " + x.Op.String()}
	case *ast.CallExpr:
		if id, ok := x.Fun.(*ast.Ident); ok && len(x.Args) == 1 {
			if w := map[string]int{"uint16": 16, "uint32": 32, "uint64": 64, "int": 64, "uint": 64, "uint8": 8, "byte": 8}[id.Name]; w != 0 {
				a, err := r.eval(x.Args[0], f, bound, depth+1)
				if err != nil || a.bool {
					return fval{}, notPure{"conversion of a non-integer"}
				}
				a.w = w
				return trunc(a), nil
			}
			if fd := r.funcs[id.Name]; fd != nil && depth < 8 {
				// helper: func h(x uint16) T { return <pure expression over x> }
				if fd.Type.Params.NumFields() != 1 || len(fd.Type.Params.List[0].Names) != 1 || len(fd.Body.List) != 1 {
					return fval{}, notPure{"helper " + id.Name + " is not `func(x uint16) T { return <expression> }`"}
				}
				pt, _ := fd.Type.Params.List[0].Type.(*ast.Ident)
				rs, ok := fd.Body.List[0].(*ast.ReturnStmt)
				if pt == nil || pt.Name != "uint16" || !ok || len(rs.Results) != 1 {
					return fval{}, notPure{"helper " + id.Name + " is not `func(x uint16) T { return <expression> }`"}
				}
				a, err := r.eval(x.Args[0], f, bound, depth+1)
				if err != nil {
					return fval{}, err
				}
				if a.bool {
					return fval{}, notPure{"helper " + id.Name + " applied to a condition"}
				}
				a.w = 16
				a = trunc(a)
				return r.eval(rs.Results[0], f, map[string]fval{fd.Type.Params.List[0].Names[0].Name: a}, depth+1)
			}
		}
		return fval{}, notPure{"call `" + exprText(x) + "`"}
	case *ast.BinaryExpr:
		a, err := r.eval(x.X, f, bound, depth+1)
		if err != nil {
			return fval{}, err
		}
		b, err := r.eval(x.Y, f, bound, depth+1)
		if err != nil {
			return fval{}, err
		}
		tb := func(c bool) fval { return fval{v: map[bool]uint64{true: 1}[c], bool: true} }
		if x.Op == token.LAND || x.Op == token.LOR {
			if !a.bool || !b.bool {
				return fval{}, notPure{"&& / || of non-conditions"}
			}
			if x.Op == token.LAND {
				return tb(a.v == 1 && b.v == 1), nil
			}
			return tb(a.v == 1 || b.v == 1), nil
		}
		if a.bool != b.bool {
			return fval{}, notPure{"operands of different kinds"}
		}
		if a.bool {
			switch x.Op {
			case token.EQL:
				return tb(a.v == b.v), nil
			case token.NEQ:
				return tb(a.v != b.v), nil
			}
			return fval{}, notPure{"operator " + x.Op.String() + " on conditions"}
		}
		w := a.w
		if x.Op != token.SHL && x.Op != token.SHR {
			if a.w != 0 && b.w != 0 && a.w != b.w {
				return fval{}, notPure{"operands of different integer types"}
			}
			if w == 0 {
				w = b.w
			}
			// an untyped constant must fit the other operand's type (the compiler checks the same)
			for _, c := range []fval{a, b} {
				if c.w == 0 && w > 0 && w < 64 && c.v>>uint(w) != 0 {
					return fval{}, notPure{"constant does not fit the operand's type"}
				}
			}
		}
		res := fval{w: w}
		switch x.Op {
		case token.AND:
			res.v = a.v & b.v
		case token.OR:
			res.v = a.v | b.v
		case token.XOR:
			res.v = a.v ^ b.v
		case token.AND_NOT:
			res.v = a.v &^ b.v
		case token.ADD:
			res.v = a.v + b.v
		case token.SUB:
			res.v = a.v - b.v
		case token.SHL:
			if b.v >= 64 {
				res.v = 0
			} else {
				res.v = a.v << b.v
			}
		case token.SHR:
			if b.v >= 64 {
				res.v = 0
			} else {
				res.v = a.v >> b.v
			}
		case token.EQL:
			return tb(a.v == b.v), nil
		case token.NEQ:
			return tb(a.v != b.v), nil
		case token.LSS:
			return tb(a.v < b.v), nil
		case token.LEQ:
			return tb(a.v <= b.v), nil
		case token.GTR:
			return tb(a.v > b.v), nil
		case token.GEQ:
			return tb(a.v >= b.v), nil
		default:
			return fval{}, notPure{"operator " + x.Op.String()}
		}
		if w == 0 && (x.Op == token.SUB && a.v < b.v) {
			return fval{}, notPure{"negative constant"}
		}
		return trunc(res), nil
	}
	return fval{}, notPure{"`" + exprText(e) + "` is not a pure flags expression"}
}

func exprText(e ast.Node) string {
	var b strings.Builder
	_ = printerFprint(&b, e)
	return b.String()
}

// maskConst: the unique (m, c) with set == {f | f&m == c}, if there is one
func maskConst(in *[65536]bool) (m, c uint64, ok bool) {
	first, n := -1, 0
	var diff uint64
	for f := 0; f < 65536; f++ {
		if in[f] {
			if first < 0 {
				first = f
			}
			diff |= uint64(f ^ first)
			n++
		}
	}
	if first < 0 {
		return 0, 0, false
	}
	m = ^diff & 0xFFFF
	c = uint64(first) & m
	free := 0
	for b := 0; b < 16; b++ {
		if diff>>uint(b)&1 == 1 {
			free++
		}
	}
	if n != 1<<uint(free) {
		return 0, 0, false
	}
	for f := 0; f < 65536; f++ {
		if in[f] != (uint64(f)&m == c) {
			return 0, 0, false
		}
	}
	return m, c, true
}

func splitOr(e ast.Expr) []ast.Expr {
	if p, ok := e.(*ast.ParenExpr); ok {
		return splitOr(p.X)
	}
	if b, ok := e.(*ast.BinaryExpr); ok && b.Op == token.LOR {
		return append(splitOr(b.X), splitOr(b.Y)...)
	}
	return []ast.Expr{e}
}

// guard: see the file comment
func (r *nbnsReader) guard(x *ast.IfStmt) (*guardSite, error) {
	returns := false
	for _, st := range x.Body.List {
		if _, ok := st.(*ast.ReturnStmt); ok {
			returns = true
		}
	}
	if !returns || x.Init != nil {
		// a flag test such as `Flags&0x0080 != 0 { nameType = Group }`: not a dispatch decision
		return nil, nil
	}
	// every disjunct that looks at the flags word belongs to the guard (`Flags&FlagResponse != 0 || Flags&OpcodeMask !=
	// OpNameQuery` is ONE guard); it is an OPCODE guard if one of them names an Op… constant
	var flagsD []ast.Expr
	aboutOpcode := false
	for _, d := range splitOr(x.Cond) {
		if mentionsFlags(d, "") {
			flagsD = append(flagsD, d)
			aboutOpcode = aboutOpcode || r.mentionsOp(d, 0)
		}
	}
	if !aboutOpcode {
		return nil, nil // tests of rcode / flag bits / other data are not opcode guards
	}
	var pass [65536]bool
	for f := 0; f < 65536; f++ {
		pass[f] = true
		for _, d := range flagsD {
			v, err := r.eval(d, uint16(f), nil, 0)
			if err != nil {
				return nil, fmt.Errorf("%s: opcode guard `%s`: %v", r.pos(d.Pos()), exprText(d), err)
			}
			if !v.bool {
				return nil, fmt.Errorf("%s: opcode guard `%s` is not a condition", r.pos(d.Pos()), exprText(d))
			}
			if v.v == 1 {
				pass[f] = false
			}
		}
	}
	m, c, ok := maskConst(&pass)
	if !ok {
		return nil, fmt.Errorf("%s: the flags words that pass the guard `%s` are not of the form flags&MASK == CONST", r.pos(x.Pos()), exprText(x.Cond))
	}
	return &guardSite{Mask: m, Const: c}, nil
}

// defaultIsNotImpl: the statements are `response.Header.Flags |= RcodeNotImpl`
func defaultIsNotImpl(body []ast.Stmt) bool {
	if len(body) != 1 {
		return false
	}
	as, ok := body[0].(*ast.AssignStmt)
	if !ok || as.Tok != token.OR_ASSIGN || len(as.Lhs) != 1 || !isHeaderFlags(as.Lhs[0]) {
		return false
	}
	id, ok := as.Rhs[0].(*ast.Ident)
	return ok && id.Name == "RcodeNotImpl"
}

// dispatchSwitch: see the file comment.  param != "": the switch stands in a selector function whose uint16
// parameter is the flags word and whose arms `return <x>.handleX` (selector = true).
func (r *nbnsReader) dispatchSwitch(x *ast.SwitchStmt, bound map[string]fval, selector bool) (*dispatchSite, error) {
	param := ""
	for k := range bound {
		param = k
	}
	// is this a decision on the flags word at all?
	tagNode := ast.Node(x.Body)
	if x.Tag != nil {
		tagNode = x.Tag
	}
	var initVar string
	var initExpr ast.Expr
	if x.Init != nil {
		if as, ok := x.Init.(*ast.AssignStmt); ok && as.Tok == token.DEFINE && len(as.Lhs) == 1 && len(as.Rhs) == 1 {
			if id, ok := as.Lhs[0].(*ast.Ident); ok && mentionsFlags(as.Rhs[0], param) {
				initVar, initExpr = id.Name, as.Rhs[0]
			}
		}
	}
	about := initVar != "" || mentionsFlags(tagNode, param)
	if x.Tag == nil && about {
		// a tagless switch is a dispatch only if its conditions are about the opcode
		about = false
		for _, st := range x.Body.List {
			for _, ce := range st.(*ast.CaseClause).List {
				if (mentionsFlags(ce, param) || initVar != "" && mentionsFlags(ce, initVar)) && (r.mentionsOp(ce, 0) || initExpr != nil && r.mentionsOp(initExpr, 0)) {
					about = true
				}
			}
		}
	} else if about && !selector {
		// `switch <flags expression>` whose arms call handlers, or whose tag/cases name the opcode
		named := r.mentionsOp(x.Tag, 0) || initExpr != nil && r.mentionsOp(initExpr, 0)
		for _, st := range x.Body.List {
			for _, ce := range st.(*ast.CaseClause).List {
				if r.mentionsOp(ce, 0) {
					named = true
				}
			}
		}
		about = named
	}
	if !about {
		return nil, nil
	}
	if x.Init != nil && initVar == "" {
		return nil, fmt.Errorf("%s: switch init `%s` is not `v := <flags expression>`", r.pos(x.Pos()), exprText(x.Init))
	}
	site := &dispatchSite{}
	type arm struct {
		conds   []ast.Expr
		handler string
	}
	var arms []arm
	for _, st := range x.Body.List {
		cc := st.(*ast.CaseClause)
		if cc.List == nil { // default
			if selector {
				if len(cc.Body) == 1 {
					if rs, ok := cc.Body[0].(*ast.ReturnStmt); ok && len(rs.Results) == 1 && exprText(rs.Results[0]) == "nil" {
						site.Default = "nil"
						continue
					}
				}
				return nil, fmt.Errorf("%s: default clause of a selector is not `return nil`", r.pos(cc.Pos()))
			}
			if !defaultIsNotImpl(cc.Body) {
				return nil, fmt.Errorf("%s: default clause is not `response.Header.Flags |= RcodeNotImpl`", r.pos(cc.Pos()))
			}
			site.Default = "notImpl"
			continue
		}
		if len(cc.Body) != 1 {
			return nil, fmt.Errorf("%s: case body is not a single handler call", r.pos(cc.Pos()))
		}
		var hname string
		if selector {
			if rs, ok := cc.Body[0].(*ast.ReturnStmt); ok && len(rs.Results) == 1 {
				if sel, ok := rs.Results[0].(*ast.SelectorExpr); ok {
					hname = sel.Sel.Name
				}
			}
		} else if es, ok := cc.Body[0].(*ast.ExprStmt); ok {
			if call, ok := es.X.(*ast.CallExpr); ok {
				if sel, ok := call.Fun.(*ast.SelectorExpr); ok {
					hname = sel.Sel.Name
				}
			}
		}
		if _, known := handlerLean[hname]; !known {
			return nil, fmt.Errorf("%s: unknown handler %q", r.pos(cc.Pos()), hname)
		}
		for _, ce := range cc.List { // `case A, B:` is two entries of the table with one handler
			arms = append(arms, arm{[]ast.Expr{ce}, hname})
		}
	}
	if site.Default == "" && !selector {
		return nil, fmt.Errorf("%s: dispatch switch without default clause", r.pos(x.Pos()))
	}
	// which arm does each word take?
	taken := make([]int, 65536) // index of the arm, -1 = default
	for f := 0; f < 65536; f++ {
		b := map[string]fval{}
		for k, v := range bound {
			v.v = uint64(f)
			b[k] = v
		}
		if initVar != "" {
			v, err := r.eval(initExpr, uint16(f), b, 0)
			if err != nil {
				return nil, fmt.Errorf("%s: dispatch `%s`: %v", r.pos(x.Pos()), exprText(initExpr), err)
			}
			b[initVar] = v
		}
		var tag fval
		if x.Tag != nil {
			var err error
			if tag, err = r.eval(x.Tag, uint16(f), b, 0); err != nil {
				return nil, fmt.Errorf("%s: dispatch tag `%s`: %v", r.pos(x.Tag.Pos()), exprText(x.Tag), err)
			}
			if tag.bool {
				return nil, fmt.Errorf("%s: dispatch tag `%s` is a condition", r.pos(x.Tag.Pos()), exprText(x.Tag))
			}
		}
		taken[f] = -1
	arms:
		for i, a := range arms {
			for _, ce := range a.conds {
				v, err := r.eval(ce, uint16(f), b, 0)
				if err != nil {
					return nil, fmt.Errorf("%s: case `%s`: %v", r.pos(ce.Pos()), exprText(ce), err)
				}
				hit := false
				if x.Tag == nil {
					if !v.bool {
						return nil, fmt.Errorf("%s: case `%s` of a tagless switch is not a condition", r.pos(ce.Pos()), exprText(ce))
					}
					hit = v.v == 1
				} else {
					if v.bool {
						return nil, fmt.Errorf("%s: case `%s` is a condition", r.pos(ce.Pos()), exprText(ce))
					}
					if v.w == 0 && tag.w > 0 && tag.w < 64 && v.v>>uint(tag.w) != 0 {
						return nil, fmt.Errorf("%s: case constant `%s` does not fit the tag's type", r.pos(ce.Pos()), exprText(ce))
					}
					hit = v.v == tag.v
				}
				if hit {
					taken[f] = i
					break arms
				}
			}
		}
	}
	// canonical form: one mask, one constant per (arm, case expression) in source order
	var mask uint64
	have := false
	for i, a := range arms {
		var in [65536]bool
		any := false
		for f := 0; f < 65536; f++ {
			in[f] = taken[f] == i
			any = any || in[f]
		}
		if !any {
			return nil, fmt.Errorf("%s: no flags word reaches the arm %s", r.pos(x.Pos()), a.handler)
		}
		m, c, ok := maskConst(&in)
		if !ok || have && m != mask {
			return nil, fmt.Errorf("%s: the flags words that take the arm %s are not of the form flags&MASK == CONST with one MASK for the whole switch", r.pos(x.Pos()), a.handler)
		}
		mask, have = m, true
		cname := "?"
		if id, ok := a.conds[0].(*ast.Ident); ok {
			cname = id.Name
		}
		site.Cases = append(site.Cases, dispatchCase{Value: c, Const: cname, Handler: a.handler})
	}
	if !have {
		return nil, fmt.Errorf("%s: dispatch switch without cases", r.pos(x.Pos()))
	}
	site.Mask = mask
	// the regenerated table must pick the source's arm on every word
	for f := 0; f < 65536; f++ {
		want := -1
		for i, c := range site.Cases {
			if uint64(f)&mask == c.Value {
				want = i
				break
			}
		}
		if want != taken[f] {
			return nil, fmt.Errorf("%s: the dispatch is not a first-match table on flags&%#x (word %#x)", r.pos(x.Pos()), mask, f)
		}
	}
	return site, nil
}

// selectorFunc: `func (h *T) sel(flags uint16) func(…) { switch … { case K: return h.handleX … } return nil }`
func (r *nbnsReader) selectorFunc(fd *ast.FuncDecl, file string) (*dispatchSite, error) {
	if fd.Type.Params.NumFields() != 1 || len(fd.Type.Params.List[0].Names) != 1 || fd.Type.Results.NumFields() != 1 {
		return nil, nil
	}
	if pt, ok := fd.Type.Params.List[0].Type.(*ast.Ident); !ok || pt.Name != "uint16" {
		return nil, nil
	}
	if _, ok := fd.Type.Results.List[0].Type.(*ast.FuncType); !ok {
		return nil, nil
	}
	if len(fd.Body.List) < 1 || len(fd.Body.List) > 2 {
		return nil, nil
	}
	sw, ok := fd.Body.List[0].(*ast.SwitchStmt)
	if !ok {
		return nil, nil
	}
	param := fd.Type.Params.List[0].Names[0].Name
	site, err := r.dispatchSwitch(sw, map[string]fval{param: {w: 16}}, true)
	if err != nil || site == nil {
		return nil, err
	}
	if len(fd.Body.List) == 2 {
		rs, ok := fd.Body.List[1].(*ast.ReturnStmt)
		if !ok || len(rs.Results) != 1 || exprText(rs.Results[0]) != "nil" || site.Default != "" {
			return nil, fmt.Errorf("%s: selector %s does not end in `return nil`", r.pos(fd.Pos()), fd.Name.Name)
		}
	} else if site.Default != "nil" {
		return nil, fmt.Errorf("%s: selector %s has no `return nil` for the other opcodes", r.pos(fd.Pos()), fd.Name.Name)
	}
	site.via = fd.Name.Name
	return site, nil
}

// selectorCall: `if f := <x>.sel(<p>.Header.Flags); f != nil { f(…) } else { response.Header.Flags |= RcodeNotImpl }`
func (r *nbnsReader) selectorCall(x *ast.IfStmt, selectors map[string]*dispatchSite) (*dispatchSite, error) {
	as, ok := x.Init.(*ast.AssignStmt)
	if !ok || as.Tok != token.DEFINE || len(as.Lhs) != 1 || len(as.Rhs) != 1 {
		return nil, nil
	}
	call, ok := as.Rhs[0].(*ast.CallExpr)
	if !ok {
		return nil, nil
	}
	sel, ok := call.Fun.(*ast.SelectorExpr)
	if !ok || selectors[sel.Sel.Name] == nil {
		return nil, nil
	}
	v := exprText(as.Lhs[0])
	bad := func(why string) (*dispatchSite, error) {
		return nil, fmt.Errorf("%s: dispatch through %s: %s", r.pos(x.Pos()), sel.Sel.Name, why)
	}
	if len(call.Args) != 1 || !isHeaderFlags(call.Args[0]) {
		return bad("the argument is not `<p>.Header.Flags`")
	}
	if exprText(x.Cond) != v+" != nil" {
		return bad("the condition is not `" + v + " != nil`")
	}
	if len(x.Body.List) != 1 {
		return bad("the body is not the single call of the selected handler")
	}
	es, ok := x.Body.List[0].(*ast.ExprStmt)
	if !ok {
		return bad("the body is not the single call of the selected handler")
	}
	hc, ok := es.X.(*ast.CallExpr)
	if !ok || exprText(hc.Fun) != v {
		return bad("the body is not the single call of the selected handler")
	}
	eb, ok := x.Else.(*ast.BlockStmt)
	if !ok || !defaultIsNotImpl(eb.List) {
		return bad("the else branch is not `response.Header.Flags |= RcodeNotImpl`")
	}
	site := *selectors[sel.Sel.Name]
	site.Cases = append([]dispatchCase(nil), site.Cases...)
	site.Default = "notImpl"
	return &site, nil
}

func printerFprint(b *strings.Builder, n ast.Node) error {
	return printer.Fprint(b, token.NewFileSet(), n)
}
