package main

// Fact ConstsC10: first-level encoding constants, label limits and the NBNS packet layout (C10).

import (
	"fmt"
	"go/ast"
	"strings"
)

func init() {
	facts["ConstsC10"] = constsFact("ConstsC10", "first-level name encoding constants, label limits and NBNS packet layout (C10)", func(c *cx) {
		p := c.pkg("network/netbios/nbtns")
		c.constNat("nameLength", p, "NetBIOSNameLength")
		c.constNat("encodedNameLength", p, "EncodedNameLength")
		c.constNat("asciiA", p, "ASCII_A")
		c.constNat("maxEncodedNameLength", p, "maxEncodedNameLength")

		v := p.fn("NetBIOSName.Validate")
		c.int1Of("validate_nameMax", v.cmp("len(n.Name)", tokGTR, -1))

		e := p.fn("NetBIOSName.FirstLevelEncode")
		c.int1Of("encode_nameBuf", e.assign("name", -1))
		c.int1Of("encode_padUntil", e.cmp("i", tokLSS, 0))
		c.int1Of("encode_padByte", e.assign("name[i]", -1))
		c.int1Of("encode_outBuf", e.assign("encoded", -1))
		c.int1Of("encode_loopUntil", e.cmp("i", tokLSS, 1))
		hi := e.assign("encoded[i * 2]", -1)
		c.named("encode_hi", hi, "shift", "mask", "add")
		c.shapeOf("encode_hi_shape", hi)
		lo := e.assign("encoded[i * 2 + 1]", -1)
		c.named("encode_lo", lo, "mask", "add")
		c.shapeOf("encode_lo_shape", lo)
		c.str("encode_scopeJoin", e.assign("result", 1), e.assign("result", 1).strs()[0])

		d := p.fn("FirstLevelDecode")
		c.named("decode_split", d.assign("parts", -1), "n")
		c.str("decode_splitAt", d.assign("parts", -1), d.assign("parts", -1).strs()[0])
		c.int1Of("decode_encodedLen", d.cmp("len(encodedName)", tokNEQ, -1))
		c.int1Of("decode_outBuf", d.assign("decoded", -1))
		c.int1Of("decode_loopUntil", d.cmp("i", tokLSS, -1))
		c.named("decode_high", d.assign("high", -1), "mul", "sub")
		c.named("decode_low", d.assign("low", -1), "mul", "plus", "sub")
		c.int1Of("decode_highMax", d.cmp("high", tokGTR, -1))
		c.int1Of("decode_lowMax", d.cmp("low", tokGTR, -1))
		c.named("decode_combine", d.assign("decoded[i]", -1), "shift")
		c.shapeOf("decode_combine_shape", d.assign("decoded[i]", -1))
		c.str("decode_trim", d.call("bytes.TrimRight", -1).arg(1), d.call("bytes.TrimRight", -1).arg(1).str())

		dn := p.fn("isValidDomainName")
		c.named("domain_part", dn.cond("len(part)", 0), "min", "max")
		c.shapeOf("domain_part_shape", dn.cond("len(part)", 0))
		c.intsOf("domain_charRanges", dn.cond("c >=", 0))
		c.shapeOf("domain_char_shape", dn.cond("c >=", 0))
		c.texts("domain_edge", dn.cond("strings.HasPrefix", 0), dn.cond("strings.HasPrefix", 0).strs())

		a := p.fn("appendEncodedName")
		c.named("append_total", a.cond("len(encoded)", 0), "plus", "max")
		c.shapeOf("append_total_shape", a.cond("len(encoded)", 0))
		c.named("append_label", a.cond("len(label)", 0), "min", "max")
		c.shapeOf("append_label_shape", a.cond("len(label)", 0))
		c.named("append_terminator", a.ret(2, 0), "zero")

		r := p.fn("readEncodedName")
		c.int1Of("read_end", r.cmp("labelLen", tokEQL, -1))
		c.int1Of("read_labelMax", r.cmp("labelLen", tokGTR, -1))
		c.shapeOf("read_fits_shape", r.cond("offset + labelLen", 0))

		u := p.fn("NBTNSPacket.Unmarshal")
		c.int1Of("packet_minLen", u.cmp("len(data)", tokLSS, -1))
		anyLE := false
		for i, f := range []string{"TransactionID", "Flags", "Questions", "Answers", "Authority", "Additional"} {
			x := u.assign("p.Header."+f, -1)
			c.named(fmt.Sprintf("packet_h%d", i), x, "lo", "hi")
			anyLE = anyLE || x.little()
			if x.width() != 16 {
				c.failf("NBTNSPacket.Unmarshal: header field %s is not read with Uint16", f)
			}
		}
		c.int1Of("packet_firstOffset", u.assign("offset", 0))
		c.int1Of("question_needs", u.cond("> len(data)", 0))
		c.named("question_type", u.assign("Type", 0), "hi")
		c.named("question_class", u.assign("Class", 0), "lo", "hi")
		c.int1Of("question_advance", u.assign("offset", 2))
		rr := u.assign("unmarshalRRs", -1)
		c.int1Of("rr_needs", rr.cond("> len(data)", 0))
		c.named("rr_type", rr.assign("Type", -1), "hi")
		c.named("rr_class", rr.assign("Class", -1), "lo", "hi")
		c.named("rr_ttl", rr.assign("TTL", -1), "lo", "hi")
		c.named("rr_rdlength", rr.assign("RDLength", -1), "lo", "hi")
		c.int1Of("rr_advance", rr.assign("offset", 1))
		for _, f := range []string{"Type", "Class", "TTL", "RDLength"} {
			anyLE = anyLE || rr.assign(f, -1).little()
		}
		anyLE = anyLE || u.assign("Type", 0).little() || u.assign("Class", 0).little()
		c.nats("rr_widths", rr, ints(rr.assign("Type", -1).width(), rr.assign("Class", -1).width(), rr.assign("TTL", -1).width(), rr.assign("RDLength", -1).width()))
		c.boolean("packet_anyLittle", u, anyLE)
		c.shapeOf("rr_rdataFits_shape", rr.cond("> len(data)", 1))
		c10WriteOrderReadable(c, p, p.fn("NBTNSPacket.Marshal"))
		c10PutOrder(c, "packet_encode", p.fn("NBTNSPacket.Marshal"))
	})
}

// c10WriteOrderReadable: "refuse what putOrder cannot name" (DESIGN.md §7).  `putOrder` describes the encoder by the
// TEXT of each `binary.*.PutUintN / AppendUintN` call of ONE function, in source order.  That text is the write order of
// the encoder only if (i) every written value names its field — a selector path such as `p.Header.Flags` or `rr.TTL`,
// possibly inside a conversion — and (ii) no part of the encoding is written somewhere else.  A header written by
// `for _, w := range [...]uint16{h.TransactionID, …} { buf = AppendUint16(buf, w) }` is ONE call whose value is the loop
// variable `w`; records written by a helper `appendResourceRecords(buf, section)` are not in the function at all.  Both
// used to be read as "a different write order" and failed `consts_match_model_marshal_order` although nothing had
// changed.  This reader does not unroll loops or follow calls; it now REFUSES such a function, so that the run loses
// the auxiliary tie (§1.1) instead of reporting a changed order.  A changed order written in the known shape
// (two Put calls exchanged, a width or byte order changed) is still read and still fails the theorem.
func c10WriteOrderReadable(c *cx, p *cpkg, n cnode) {
	isPut := func(s string) bool {
		return strings.HasPrefix(s, "binary.") && (strings.Contains(s, ".PutUint") || strings.Contains(s, ".AppendUint"))
	}
	for _, k := range n.callsWith(isPut) {
		v := k.arg(1).n
		for {
			if pe, ok := v.(*ast.ParenExpr); ok {
				v = pe.X
			} else if ce, ok := v.(*ast.CallExpr); ok && len(ce.Args) == 1 && cxConversions[render(ce.Fun)] {
				v = ce.Args[0]
			} else {
				break
			}
		}
		if _, ok := v.(*ast.SelectorExpr); !ok {
			c.failf("package %s: %s: `%s` writes `%s`, which does not name a field (a loop variable or a computed value): the write order cannot be read off this shape",
				p.dir, n.where, render(k.n), render(k.arg(1).n))
		}
	}
	// functions of the package reachable from n that write integers themselves
	var writes func(fd *ast.FuncDecl, seen map[*ast.FuncDecl]bool) bool
	callees := func(fd *ast.FuncDecl) []*ast.FuncDecl {
		var out []*ast.FuncDecl
		ast.Inspect(fd.Body, func(m ast.Node) bool {
			ce, ok := m.(*ast.CallExpr)
			if !ok {
				return true
			}
			name := ""
			switch f := ce.Fun.(type) {
			case *ast.Ident:
				name = f.Name
			case *ast.SelectorExpr:
				name = f.Sel.Name
			}
			for dn, g := range p.funcs {
				if dn == name || strings.HasSuffix(dn, "."+name) {
					out = append(out, g)
				}
			}
			return true
		})
		return out
	}
	writes = func(fd *ast.FuncDecl, seen map[*ast.FuncDecl]bool) bool {
		if seen[fd] {
			return false
		}
		seen[fd] = true
		if len((cnode{p, fd, ""}).callsWith(isPut)) > 0 {
			return true
		}
		for _, g := range callees(fd) {
			if writes(g, seen) {
				return true
			}
		}
		return false
	}
	root := n.n.(*ast.FuncDecl)
	for _, g := range callees(root) {
		if g != root && writes(g, map[*ast.FuncDecl]bool{root: true}) {
			c.failf("package %s: %s calls %s, which writes integers of the encoding itself: the write order is spread over several functions and cannot be read off this shape",
				p.dir, n.where, funcDisplayName(g))
		}
	}
}

// c10PutOrder is putOrder with one normalisation, "position of an append" (DESIGN.md §7).  Canonical form of a
// write at a fixed position: `PutUintN(buf[lo:hi], v)` -> "<N><order>:<v>@buf[lo:hi]".  The same bytes are written by
// `buf = AppendUintN(buf, v)` when the length of buf at that statement is known: buf was created by
// `buf := make([]byte, 0[, cap])` and every statement since is such an append, at the top level of the function (no
// loop, no branch, no other mention of buf in between).  Then the append lands at [lo:lo+N/8] with lo the sum of the
// widths so far, and is rendered with that destination.  From the first other statement on, appends have no known
// position and are rendered without one, as before.
func c10PutOrder(c *cx, name string, n cnode) {
	isPut := func(s string) bool {
		return strings.HasPrefix(s, "binary.") && (strings.Contains(s, ".PutUint") || strings.Contains(s, ".AppendUint"))
	}
	static := map[ast.Node]string{}
	fd := n.n.(*ast.FuncDecl)
	buf, off := "", 0
	for _, st := range fd.Body.List {
		as, ok := st.(*ast.AssignStmt)
		if ok && len(as.Lhs) == 1 && len(as.Rhs) == 1 {
			lhs := render(as.Lhs[0])
			if call, ok := as.Rhs[0].(*ast.CallExpr); ok {
				if buf == "" && render(call.Fun) == "make" && len(call.Args) >= 2 && render(call.Args[0]) == "[]byte" && render(call.Args[1]) == "0" {
					buf, off = lhs, 0
					continue
				}
				if buf != "" && lhs == buf && isPut(render(call.Fun)) && strings.Contains(render(call.Fun), ".AppendUint") && len(call.Args) == 2 && render(call.Args[0]) == buf {
					w := (cnode{n.p, call, n.where}).width()
					static[call] = fmt.Sprintf("@%s[%d:%d]", buf, off, off+w/8)
					off += w / 8
					continue
				}
			}
		}
		if buf != "" {
			break // anything else: the length of buf is no longer known here
		}
	}
	var out []string
	for _, k := range n.callsWith(isPut) {
		e := "b"
		if k.little() {
			e = "l"
		}
		dst := static[k.n]
		if _, ok := k.arg(0).n.(*ast.SliceExpr); ok {
			dst = "@" + k.arg(0).text() // written in place at a fixed position
		}
		out = append(out, fmt.Sprintf("%d%s:%s%s", k.width(), e, k.arg(1).text(), dst))
	}
	if len(out) == 0 {
		c.failf("package %s: %s: no binary.*.PutUintN calls", n.p.dir, n.where)
	}
	c.texts(name, n, out)
}
