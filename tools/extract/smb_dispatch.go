// Fact SmbDispatch (property C03): the SMB1 command dispatch as the repository writes it.
//
// Read with go/ast, never guessed:
//   - commands/codes/codes.go        every `NAME CommandCode = <int literal>` of the const blocks
//   - commands/*.go                  every constructor `func NewT() *T` with exactly one statement
//     `c.Command.SetCommandCode(codes.NAME)` (the code the concrete type gives itself), whether T embeds
//     command_interface.Command, and T's own `func (c *T) IsAndX() bool { return true|false }` if any
//   - command_interface.go           `func (c *Command) IsAndX() bool { return false }` (the inherited default)
//   - commands/0.command_casting.go  the two factories: one `switch <param> { case codes.NAME: return NewT(), nil
//     … default: return nil, <call> }` each, or the same finite map code -> constructor kept in an unexported
//     package-level table that the factory looks up (smb_dispatch_table.go, D1–D5: map or [256]array literal, map
//     filled in init(), lookup in the factory or in a helper, entries `func() … { return NewT() }`)
//
// The (code, type) pairs of a factory are emitted sorted by code: the keys are distinct constants in every accepted
// shape, so the order in which the source lists them has no meaning.  Any other shape is an error naming file and line.
package main

import (
	"fmt"
	"go/ast"
	"go/parser"
	"go/token"
	"os"
	"path/filepath"
	"sort"
	"strconv"
	"strings"
)

func init() { facts["SmbDispatch"] = smbDispatch }

type sdKind struct {
	Name   string `json:"name"`
	Ctor   string `json:"ctor"`
	Const  string `json:"code_const"`
	Code   int    `json:"code"`
	IsAndX bool   `json:"is_andx"`
	File   string `json:"file"`
}

type sdCase struct {
	Const string `json:"code_const"`
	Code  int    `json:"code"`
	Ctor  string `json:"ctor"`
	Kind  string `json:"kind"`
}

type sdConst struct {
	Name  string `json:"name"`
	Value int    `json:"value"`
}

func smbDispatch(repo string) (string, any, error) {
	base := filepath.Join(repo, "network/smb/smb_v10/message/commands")
	fset := token.NewFileSet()
	pos := func(n ast.Node) string { return fset.Position(n.Pos()).String() }

	// ---- codes.go ------------------------------------------------------------------------------
	codesFile := filepath.Join(base, "codes/codes.go")
	cf, err := parser.ParseFile(fset, codesFile, nil, 0)
	if err != nil {
		return "", nil, err
	}
	var consts []sdConst
	constVal := map[string]int{}
	for _, d := range cf.Decls {
		gd, ok := d.(*ast.GenDecl)
		if !ok || gd.Tok != token.CONST {
			continue
		}
		for _, s := range gd.Specs {
			vs := s.(*ast.ValueSpec)
			ty, ok := vs.Type.(*ast.Ident)
			if !ok || ty.Name != "CommandCode" {
				return "", nil, fmt.Errorf("%s: constant without explicit type CommandCode (iota or untyped constants are not understood)", pos(vs))
			}
			if len(vs.Names) != 1 || len(vs.Values) != 1 {
				return "", nil, fmt.Errorf("%s: expected one name and one value per constant", pos(vs))
			}
			lit, ok := vs.Values[0].(*ast.BasicLit)
			if !ok || lit.Kind != token.INT {
				return "", nil, fmt.Errorf("%s: constant value is not an integer literal", pos(vs))
			}
			v, err := strconv.ParseInt(lit.Value, 0, 64)
			if err != nil || v < 0 || v > 255 {
				return "", nil, fmt.Errorf("%s: constant value %s outside uint8", pos(vs), lit.Value)
			}
			name := vs.Names[0].Name
			if _, dup := constVal[name]; dup {
				return "", nil, fmt.Errorf("%s: constant %s declared twice", pos(vs), name)
			}
			constVal[name] = int(v)
			consts = append(consts, sdConst{name, int(v)})
		}
	}
	if len(consts) == 0 {
		return "", nil, fmt.Errorf("%s: no CommandCode constants found", codesFile)
	}
	// the underlying type must be uint8 (the model uses UInt8)
	okType := false
	for _, d := range cf.Decls {
		if gd, ok := d.(*ast.GenDecl); ok && gd.Tok == token.TYPE {
			for _, s := range gd.Specs {
				ts := s.(*ast.TypeSpec)
				if id, ok := ts.Type.(*ast.Ident); ok && ts.Name.Name == "CommandCode" && id.Name == "uint8" {
					okType = true
				}
			}
		}
	}
	if !okType {
		return "", nil, fmt.Errorf("%s: `type CommandCode uint8` not found", codesFile)
	}

	// ---- inherited IsAndX ----------------------------------------------------------------------
	ciFile := filepath.Join(base, "command_interface/command_interface.go")
	ci, err := parser.ParseFile(fset, ciFile, nil, 0)
	if err != nil {
		return "", nil, err
	}
	inherited, found := false, false
	for _, d := range ci.Decls {
		fd, ok := d.(*ast.FuncDecl)
		if ok && fd.Name.Name == "IsAndX" && recvName(fd) == "Command" {
			v, err := constBoolBody(fd)
			if err != nil {
				return "", nil, fmt.Errorf("%s: %v", pos(fd), err)
			}
			inherited, found = v, true
		}
	}
	if !found {
		return "", nil, fmt.Errorf("%s: (*Command).IsAndX not found", ciFile)
	}

	// ---- concrete command types ----------------------------------------------------------------
	entries, err := os.ReadDir(base)
	if err != nil {
		return "", nil, err
	}
	kinds := map[string]*sdKind{}  // by type name
	byCtor := map[string]*sdKind{} // by constructor name
	ownAndX := map[string]bool{}
	embeds := map[string]bool{}
	var casting *ast.File
	var pkgFiles []*ast.File
	for _, e := range entries {
		n := e.Name()
		if e.IsDir() || !strings.HasSuffix(n, ".go") || strings.HasSuffix(n, "_test.go") {
			continue
		}
		f, err := parser.ParseFile(fset, filepath.Join(base, n), nil, 0)
		if err != nil {
			return "", nil, err
		}
		pkgFiles = append(pkgFiles, f)
		if n == "0.command_casting.go" {
			casting = f
			continue
		}
		for _, d := range f.Decls {
			switch d := d.(type) {
			case *ast.GenDecl:
				if d.Tok != token.TYPE {
					continue
				}
				for _, s := range d.Specs {
					ts := s.(*ast.TypeSpec)
					st, ok := ts.Type.(*ast.StructType)
					if !ok {
						continue
					}
					for _, fl := range st.Fields.List {
						if len(fl.Names) == 0 {
							if se, ok := fl.Type.(*ast.SelectorExpr); ok {
								if x, ok := se.X.(*ast.Ident); ok && x.Name == "command_interface" && se.Sel.Name == "Command" {
									embeds[ts.Name.Name] = true
								}
							}
						}
					}
				}
			case *ast.FuncDecl:
				if d.Recv != nil {
					if d.Name.Name == "IsAndX" {
						v, err := constBoolBody(d)
						if err != nil {
							return "", nil, fmt.Errorf("%s: %v", pos(d), err)
						}
						ownAndX[recvName(d)] = v
					}
					continue
				}
				if !strings.HasPrefix(d.Name.Name, "New") {
					continue
				}
				// func NewT() *T
				if d.Type.Params != nil && len(d.Type.Params.List) != 0 {
					return "", nil, fmt.Errorf("%s: constructor %s takes parameters", pos(d), d.Name.Name)
				}
				if d.Type.Results == nil || len(d.Type.Results.List) != 1 {
					return "", nil, fmt.Errorf("%s: constructor %s does not return exactly one value", pos(d), d.Name.Name)
				}
				star, ok := d.Type.Results.List[0].Type.(*ast.StarExpr)
				if !ok {
					return "", nil, fmt.Errorf("%s: constructor %s does not return a pointer", pos(d), d.Name.Name)
				}
				tid, ok := star.X.(*ast.Ident)
				if !ok {
					return "", nil, fmt.Errorf("%s: constructor %s returns a foreign type", pos(d), d.Name.Name)
				}
				var codeConst []string
				ast.Inspect(d.Body, func(nd ast.Node) bool {
					call, ok := nd.(*ast.CallExpr)
					if !ok {
						return true
					}
					sel, ok := call.Fun.(*ast.SelectorExpr)
					if !ok || sel.Sel.Name != "SetCommandCode" {
						return true
					}
					if len(call.Args) == 1 {
						if a, ok := call.Args[0].(*ast.SelectorExpr); ok {
							if x, ok := a.X.(*ast.Ident); ok && x.Name == "codes" {
								codeConst = append(codeConst, a.Sel.Name)
								return true
							}
						}
					}
					codeConst = append(codeConst, "?")
					return true
				})
				if len(codeConst) != 1 || codeConst[0] == "?" {
					return "", nil, fmt.Errorf("%s: constructor %s: expected exactly one SetCommandCode(codes.NAME), found %v", pos(d), d.Name.Name, codeConst)
				}
				v, ok := constVal[codeConst[0]]
				if !ok {
					return "", nil, fmt.Errorf("%s: constructor %s uses unknown constant codes.%s", pos(d), d.Name.Name, codeConst[0])
				}
				if _, dup := kinds[tid.Name]; dup {
					return "", nil, fmt.Errorf("%s: two constructors for type %s", pos(d), tid.Name)
				}
				k := &sdKind{Name: tid.Name, Ctor: d.Name.Name, Const: codeConst[0], Code: v, File: n}
				kinds[tid.Name] = k
				byCtor[d.Name.Name] = k
			}
		}
	}
	if casting == nil {
		return "", nil, fmt.Errorf("%s/0.command_casting.go not found", base)
	}
	var names []string
	for name, k := range kinds {
		if !embeds[name] {
			return "", nil, fmt.Errorf("%s: type %s does not embed command_interface.Command", k.File, name)
		}
		if v, ok := ownAndX[name]; ok {
			k.IsAndX = v
		} else {
			k.IsAndX = inherited
		}
		names = append(names, name)
	}
	sort.Strings(names)

	// ---- the two factories ---------------------------------------------------------------------
	tables := &sdPkg{fset: fset, files: pkgFiles, constVal: constVal, byCtor: byCtor, claimed: map[*ast.Ident]bool{}, tables: map[string]bool{}}
	factory := func(fn string) ([]sdCase, error) {
		for _, d := range casting.Decls {
			fd, ok := d.(*ast.FuncDecl)
			if !ok || fd.Name.Name != fn || fd.Recv != nil {
				continue
			}
			if len(fd.Type.Params.List) != 1 || len(fd.Type.Params.List[0].Names) != 1 {
				return nil, fmt.Errorf("%s: %s: expected one parameter", pos(fd), fn)
			}
			param := fd.Type.Params.List[0].Names[0].Name
			var sw *ast.SwitchStmt
			if len(fd.Body.List) == 1 {
				sw, _ = fd.Body.List[0].(*ast.SwitchStmt)
			}
			if sw == nil { // not the switch shape: a table of constructors (smb_dispatch_table.go) or an error
				cs, err := tables.tableFactory(fd, param, fn)
				if err != nil {
					return nil, err
				}
				sort.SliceStable(cs, func(i, j int) bool { return cs[i].Code < cs[j].Code })
				return cs, nil
			}
			if sw.Init != nil {
				return nil, fmt.Errorf("%s: %s: body is not a plain switch statement", pos(fd), fn)
			}
			if tag, ok := sw.Tag.(*ast.Ident); !ok || tag.Name != param {
				return nil, fmt.Errorf("%s: %s: switch tag is not the parameter", pos(sw), fn)
			}
			var out []sdCase
			seen := map[int]bool{}
			hasDefault := false
			for _, st := range sw.Body.List {
				cc := st.(*ast.CaseClause)
				if len(cc.Body) != 1 {
					return nil, fmt.Errorf("%s: %s: case body is not a single return", pos(cc), fn)
				}
				ret, ok := cc.Body[0].(*ast.ReturnStmt)
				if !ok || len(ret.Results) != 2 {
					return nil, fmt.Errorf("%s: %s: case body is not `return x, y`", pos(cc), fn)
				}
				if cc.List == nil { // default: return nil, <error value>
					if id, ok := ret.Results[0].(*ast.Ident); !ok || id.Name != "nil" {
						return nil, fmt.Errorf("%s: %s: default does not return a nil command", pos(cc), fn)
					}
					if _, ok := ret.Results[1].(*ast.CallExpr); !ok {
						return nil, fmt.Errorf("%s: %s: default does not return a constructed error", pos(cc), fn)
					}
					hasDefault = true
					continue
				}
				call, ok := ret.Results[0].(*ast.CallExpr)
				if !ok || len(call.Args) != 0 {
					return nil, fmt.Errorf("%s: %s: case does not return a constructor call", pos(cc), fn)
				}
				ctor, ok := call.Fun.(*ast.Ident)
				if !ok {
					return nil, fmt.Errorf("%s: %s: case does not call a local constructor", pos(cc), fn)
				}
				if id, ok := ret.Results[1].(*ast.Ident); !ok || id.Name != "nil" {
					return nil, fmt.Errorf("%s: %s: case returns a non-nil error", pos(cc), fn)
				}
				k, ok := byCtor[ctor.Name]
				if !ok {
					return nil, fmt.Errorf("%s: %s: unknown constructor %s", pos(cc), fn, ctor.Name)
				}
				for _, e := range cc.List {
					se, ok := e.(*ast.SelectorExpr)
					if !ok {
						return nil, fmt.Errorf("%s: %s: case expression is not codes.NAME", pos(e), fn)
					}
					if x, ok := se.X.(*ast.Ident); !ok || x.Name != "codes" {
						return nil, fmt.Errorf("%s: %s: case expression is not codes.NAME", pos(e), fn)
					}
					v, ok := constVal[se.Sel.Name]
					if !ok {
						return nil, fmt.Errorf("%s: %s: unknown constant codes.%s", pos(e), fn, se.Sel.Name)
					}
					if seen[v] {
						return nil, fmt.Errorf("%s: %s: duplicate case value %d", pos(e), fn, v)
					}
					seen[v] = true
					out = append(out, sdCase{Const: se.Sel.Name, Code: v, Ctor: ctor.Name, Kind: k.Name})
				}
			}
			if !hasDefault {
				return nil, fmt.Errorf("%s: %s: switch has no default clause", pos(sw), fn)
			}
			sort.SliceStable(out, func(i, j int) bool { return out[i].Code < out[j].Code })
			return out, nil
		}
		return nil, fmt.Errorf("function %s not found in 0.command_casting.go", fn)
	}
	req, err := factory("CreateRequestCommand")
	if err != nil {
		return "", nil, err
	}
	resp, err := factory("CreateResponseCommand")
	if err != nil {
		return "", nil, err
	}
	if err := tables.unclaimed(); err != nil {
		return "", nil, err
	}

	// ---- Lean ----------------------------------------------------------------------------------
	var b strings.Builder
	w := func(f string, a ...any) { fmt.Fprintf(&b, f, a...) }
	bytesLit := func(s string) string {
		parts := make([]string, len(s))
		for i := 0; i < len(s); i++ {
			parts[i] = strconv.Itoa(int(s[i]))
		}
		return "[" + strings.Join(parts, ", ") + "]"
	}
	w("-- Source: network/smb/smb_v10/message/commands/{0.command_casting.go, *.go, codes/codes.go, command_interface/command_interface.go}\n")
	w("namespace Manticore.Gen.SmbDispatch\n\n")
	w("/-- the concrete command types of package `commands`: one per constructor `func NewT() *T` -/\n")
	w("inductive Kind where\n")
	for _, n := range names {
		w("  | %s\n", n)
	}
	w("  deriving DecidableEq, Repr, Inhabited\n\n")
	w("def Kind.all : List Kind := [%s]\n\n", strings.Join(mapS(names, func(n string) string { return "." + n }), ", "))
	w("/-- the Go type name, as ASCII bytes -/\ndef Kind.goName : Kind → List UInt8\n")
	for _, n := range names {
		w("  | .%s => %s\n", n, bytesLit(n))
	}
	w("\n/-- the code the constructor gives the command: `c.Command.SetCommandCode(codes.NAME)`, NAME resolved in codes.go -/\n")
	w("def Kind.ownCode : Kind → UInt8\n")
	for _, n := range names {
		w("  | .%s => %d  -- %s (%s)\n", n, kinds[n].Code, kinds[n].Const, kinds[n].File)
	}
	w("\n/-- `IsAndX()` of the concrete type (its own method, else the one inherited from command_interface.Command) -/\n")
	w("def Kind.isAndX : Kind → Bool\n")
	for _, n := range names {
		w("  | .%s => %v\n", n, kinds[n].IsAndX)
	}
	w("\n/-- the const blocks of codes/codes.go in source order: (name, value) -/\n")
	w("def codeConsts : List (List UInt8 × UInt8) := [\n")
	for i, c := range consts {
		sep := ","
		if i == len(consts)-1 {
			sep = ""
		}
		w("  (%s, %d)%s  -- %s\n", bytesLit(c.Name), c.Value, sep, c.Name)
	}
	w("]\n\n")
	emitCases := func(name, fn string, cs []sdCase) {
		w("/-- the dispatch of `%s` (its `switch`, or its table of constructors), sorted by code: (code, type of the constructor returned) -/\n", fn)
		w("def %s : List (UInt8 × Kind) := [\n", name)
		for i, c := range cs {
			sep := ","
			if i == len(cs)-1 {
				sep = ""
			}
			w("  (%d, .%s)%s  -- codes.%s: %s()\n", c.Code, c.Kind, sep, c.Const, c.Ctor)
		}
		w("]\n\n")
	}
	emitCases("requestCases", "CreateRequestCommand", req)
	emitCases("responseCases", "CreateResponseCommand", resp)
	w("end Manticore.Gen.SmbDispatch\n")

	var ks []sdKind
	for _, n := range names {
		ks = append(ks, *kinds[n])
	}
	js := map[string]any{"kinds": ks, "consts": consts, "request": req, "response": resp}
	return b.String(), js, nil
}

func mapS(xs []string, f func(string) string) []string {
	out := make([]string, len(xs))
	for i, x := range xs {
		out[i] = f(x)
	}
	return out
}

func recvName(fd *ast.FuncDecl) string {
	if fd.Recv == nil || len(fd.Recv.List) != 1 {
		return ""
	}
	t := fd.Recv.List[0].Type
	if s, ok := t.(*ast.StarExpr); ok {
		t = s.X
	}
	if id, ok := t.(*ast.Ident); ok {
		return id.Name
	}
	return ""
}

// body must be exactly `return true` or `return false`
func constBoolBody(fd *ast.FuncDecl) (bool, error) {
	if fd.Body == nil || len(fd.Body.List) != 1 {
		return false, fmt.Errorf("%s: body is not a single return", fd.Name.Name)
	}
	ret, ok := fd.Body.List[0].(*ast.ReturnStmt)
	if !ok || len(ret.Results) != 1 {
		return false, fmt.Errorf("%s: body is not a single return", fd.Name.Name)
	}
	id, ok := ret.Results[0].(*ast.Ident)
	if !ok || (id.Name != "true" && id.Name != "false") {
		return false, fmt.Errorf("%s: does not return a boolean literal", fd.Name.Name)
	}
	return id.Name == "true", nil
}
