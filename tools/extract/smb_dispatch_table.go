// Fact SmbDispatch: the factories written as a TABLE of constructors instead of a `switch` (normalisations D1–D4).
//
// What a factory means to the model (Model/C03.lean `factory`): a finite partial map code -> concrete type; a code in
// the map gives `NewT(), nil`, any other code `nil, <error>`.  The `switch` spells the map as `case codes.NAME: return
// NewT(), nil` clauses with a `default`.  The shapes below spell the same map and are read into the same list of
// (code, type) pairs; the list is emitted SORTED BY CODE in every shape (the keys are distinct constants — checked —, so
// neither a switch nor a table gives the order of its entries a meaning), which makes the module a function of the map.
//
// D1 — lookup.  The body of the factory (or of the helper it returns, D2) is one of
//
//	v, ok := T[code]; if !ok { return nil, <call> }; return v(), nil
//	v, ok := T[code]; if ok { return v(), nil }; return nil, <call>
//	if v, ok := T[code]; ok { return v(), nil }; return nil, <call>
//	v := T[code]; if v == nil { return nil, <call> }; return v(), nil        (and `!= nil` the other way round)
//
// with T a table of D3 and `code` the factory's parameter.  A missing key of a map yields (nil, false), a missing
// index of a [256]array yields nil; every entry of T is a function literal or a named function, which is never nil:
// "present" and "non-nil" coincide, and the result is `entry(), nil` for a key of T, `nil, <error>` otherwise.  The
// comma-ok forms are accepted on maps only (Go has no comma-ok on arrays); an array must be declared with the literal
// length 256, so that indexing by a uint8 code cannot panic (a slice, `[...]T` or a shorter array is refused: the model
// has no panic for it).
//
// D2 — lookup helper.  `return h(T, code)` (arguments in the order of h's parameters, each either the factory's
// parameter or the name of a table) where h is a function of the package whose body is a D1 lookup over ITS
// parameters: substitution of the arguments.  h has no other statement, so no other effect.
//
// D3 — table.  An UNEXPORTED package-level `var T = map[codes.CommandCode]F{ codes.NAME: <entry>, … }` or
// `var T = [256]F{ codes.NAME: <entry>, … }` (every element keyed by `codes.NAME`; duplicate values refused), or an empty
// map (`map[…]F{}` / `make(map[…]F)`) filled by top-level statements `T[codes.NAME] = <entry>` of `func init()`s of the
// package (D4).  No other function, initialiser or statement of the package's non-test files may mention T: every
// identifier named T outside the declaration, the factories' lookups and the recognised init statements is an error
// (same rule as the MD4 tables: a table somebody else can write is not a constant).  <entry> is
// `func() <any result type> { return NewT() }` or the name of a package-level function with exactly that body
// (D5): called with no argument it returns exactly one constructor call, which is what the `case` returned.
//
// D4 — init.  Package initialisation runs every `init()` before any exported function can be called from outside, so a
// map filled there is the literal with those entries, provided no package-level variable initialiser calls a factory
// (checked: such a call would see the empty map).  Each key may be assigned once (twice: refused, the order of init
// functions across files would matter).
//
// Not read (refused): tables behind a pointer or inside a struct, entries built by a generic wrapper or taken from
// another table, a lookup followed by further statements, slices, conditional fills.
package main

import (
	"fmt"
	"go/ast"
	"go/token"
)

type sdPkg struct {
	fset     *token.FileSet
	files    []*ast.File // every non-test file of package commands
	constVal map[string]int
	byCtor   map[string]*sdKind
	claimed  map[*ast.Ident]bool // occurrences of table names that the recognised shapes account for
	tables   map[string]bool     // names of tables read
}

func (p *sdPkg) pos(n ast.Node) string { return p.fset.Position(n.Pos()).String() }

func (p *sdPkg) funcDecl(name string) *ast.FuncDecl {
	for _, f := range p.files {
		for _, d := range f.Decls {
			if fd, ok := d.(*ast.FuncDecl); ok && fd.Recv == nil && fd.Name.Name == name {
				return fd
			}
		}
	}
	return nil
}

// codeOf: `codes.NAME` -> (NAME, value)
func (p *sdPkg) codeOf(e ast.Expr, fn string) (string, int, error) {
	se, ok := e.(*ast.SelectorExpr)
	if !ok {
		return "", 0, fmt.Errorf("%s: %s: key is not codes.NAME", p.pos(e), fn)
	}
	if x, ok := se.X.(*ast.Ident); !ok || x.Name != "codes" {
		return "", 0, fmt.Errorf("%s: %s: key is not codes.NAME", p.pos(e), fn)
	}
	v, ok := p.constVal[se.Sel.Name]
	if !ok {
		return "", 0, fmt.Errorf("%s: %s: unknown constant codes.%s", p.pos(e), fn, se.Sel.Name)
	}
	return se.Sel.Name, v, nil
}

// ctorOfBody: a body that is exactly `return NewT()`.
func (p *sdPkg) ctorOfBody(ft *ast.FuncType, body *ast.BlockStmt, at ast.Node, fn string) (string, error) {
	if ft.Params != nil && len(ft.Params.List) != 0 {
		return "", fmt.Errorf("%s: %s: table entry takes parameters", p.pos(at), fn)
	}
	if ft.Results == nil || len(ft.Results.List) != 1 || len(ft.Results.List[0].Names) != 0 {
		return "", fmt.Errorf("%s: %s: table entry does not return exactly one unnamed value", p.pos(at), fn)
	}
	if body == nil || len(body.List) != 1 {
		return "", fmt.Errorf("%s: %s: table entry is not a single return", p.pos(at), fn)
	}
	ret, ok := body.List[0].(*ast.ReturnStmt)
	if !ok || len(ret.Results) != 1 {
		return "", fmt.Errorf("%s: %s: table entry is not `return NewT()`", p.pos(at), fn)
	}
	call, ok := ret.Results[0].(*ast.CallExpr)
	if !ok || len(call.Args) != 0 {
		return "", fmt.Errorf("%s: %s: table entry does not return a constructor call", p.pos(at), fn)
	}
	ctor, ok := call.Fun.(*ast.Ident)
	if !ok {
		return "", fmt.Errorf("%s: %s: table entry does not call a local constructor", p.pos(at), fn)
	}
	if _, ok := p.byCtor[ctor.Name]; !ok {
		return "", fmt.Errorf("%s: %s: unknown constructor %s", p.pos(at), fn, ctor.Name)
	}
	return ctor.Name, nil
}

// entryCtor: D3/D5 — a function literal `func() R { return NewT() }` or the name of a package-level function with that body.
func (p *sdPkg) entryCtor(e ast.Expr, fn string) (string, error) {
	switch v := e.(type) {
	case *ast.ParenExpr:
		return p.entryCtor(v.X, fn)
	case *ast.FuncLit:
		return p.ctorOfBody(v.Type, v.Body, v, fn)
	case *ast.Ident:
		fd := p.funcDecl(v.Name)
		if fd == nil || fd.Type.TypeParams != nil {
			return "", fmt.Errorf("%s: %s: table entry %s is not a plain function of the package", p.pos(e), fn, v.Name)
		}
		if _, isCtor := p.byCtor[v.Name]; isCtor {
			return "", fmt.Errorf("%s: %s: table entry is a constructor itself (another result type)", p.pos(e), fn)
		}
		return p.ctorOfBody(fd.Type, fd.Body, v, fn)
	}
	return "", fmt.Errorf("%s: %s: table entry shape %T not understood", p.pos(e), fn, e)
}

func isCodesCommandCode(e ast.Expr) bool {
	se, ok := e.(*ast.SelectorExpr)
	if !ok || se.Sel.Name != "CommandCode" {
		return false
	}
	x, ok := se.X.(*ast.Ident)
	return ok && x.Name == "codes"
}

// table reads table T (D3, D4).  isMap tells the lookup which forms are allowed.
func (p *sdPkg) table(name string, fn string) (cases []sdCase, isMap bool, err error) {
	if ast.IsExported(name) {
		return nil, false, fmt.Errorf("%s: table %s is exported: another package may write it", fn, name)
	}
	var spec *ast.ValueSpec
	for _, f := range p.files {
		for _, d := range f.Decls {
			gd, ok := d.(*ast.GenDecl)
			if !ok || (gd.Tok != token.VAR && gd.Tok != token.CONST) {
				continue
			}
			for _, s := range gd.Specs {
				vs := s.(*ast.ValueSpec)
				for _, n := range vs.Names {
					if n.Name == name {
						if spec != nil || gd.Tok != token.VAR || len(vs.Names) != 1 || len(vs.Values) != 1 {
							return nil, false, fmt.Errorf("%s: %s: table %s is not declared as `var %s = <literal>`", p.pos(vs), fn, name, name)
						}
						spec = vs
						p.claimed[n] = true
					}
				}
			}
		}
	}
	if spec == nil {
		return nil, false, fmt.Errorf("%s: no package-level variable %s", fn, name)
	}
	seen := map[int]bool{}
	add := func(key, val ast.Expr) error {
		cname, code, err := p.codeOf(key, fn)
		if err != nil {
			return err
		}
		if seen[code] {
			return fmt.Errorf("%s: %s: table %s: code %d twice", p.pos(key), fn, name, code)
		}
		seen[code] = true
		ctor, err := p.entryCtor(val, fn)
		if err != nil {
			return err
		}
		cases = append(cases, sdCase{Const: cname, Code: code, Ctor: ctor, Kind: p.byCtor[ctor].Name})
		return nil
	}
	mapType := func(t ast.Expr) bool {
		mt, ok := t.(*ast.MapType)
		return ok && isCodesCommandCode(mt.Key)
	}
	fillable := false
	switch v := spec.Values[0].(type) {
	case *ast.CompositeLit:
		switch t := v.Type.(type) {
		case *ast.MapType:
			if !isCodesCommandCode(t.Key) {
				return nil, false, fmt.Errorf("%s: %s: table %s is not keyed by codes.CommandCode", p.pos(v), fn, name)
			}
			isMap = true
			fillable = len(v.Elts) == 0
		case *ast.ArrayType:
			n, ok := t.Len.(*ast.BasicLit)
			if !ok || n.Kind != token.INT || n.Value != "256" {
				return nil, false, fmt.Errorf("%s: %s: table %s: only an array of the literal length 256 can be indexed by every code without a panic", p.pos(v), fn, name)
			}
		default:
			return nil, false, fmt.Errorf("%s: %s: table %s: literal type %T not understood (a named map/array type hides the key type)", p.pos(v), fn, name, v.Type)
		}
		if spec.Type != nil {
			return nil, false, fmt.Errorf("%s: %s: table %s: declaration with a separate type not understood", p.pos(spec), fn, name)
		}
		for _, el := range v.Elts {
			kv, ok := el.(*ast.KeyValueExpr)
			if !ok {
				return nil, false, fmt.Errorf("%s: %s: table %s: element without a codes.NAME key", p.pos(el), fn, name)
			}
			if err := add(kv.Key, kv.Value); err != nil {
				return nil, false, err
			}
		}
	case *ast.CallExpr: // make(map[codes.CommandCode]F) / make(map[…]F, n)
		id, ok := v.Fun.(*ast.Ident)
		if !ok || id.Name != "make" || len(v.Args) < 1 || len(v.Args) > 2 || !mapType(v.Args[0]) || spec.Type != nil {
			return nil, false, fmt.Errorf("%s: %s: table %s: initialiser not understood", p.pos(v), fn, name)
		}
		isMap, fillable = true, true
	default:
		return nil, false, fmt.Errorf("%s: %s: table %s: initialiser is not a composite literal", p.pos(spec), fn, name)
	}
	// D4: top-level statements `T[codes.NAME] = <entry>` of init functions
	for _, f := range p.files {
		for _, d := range f.Decls {
			fd, ok := d.(*ast.FuncDecl)
			if !ok || fd.Recv != nil || fd.Name.Name != "init" || fd.Body == nil {
				continue
			}
			for _, st := range fd.Body.List {
				as, ok := st.(*ast.AssignStmt)
				if !ok || as.Tok != token.ASSIGN || len(as.Lhs) != 1 || len(as.Rhs) != 1 {
					continue
				}
				ix, ok := as.Lhs[0].(*ast.IndexExpr)
				if !ok {
					continue
				}
				base, ok := ix.X.(*ast.Ident)
				if !ok || base.Name != name {
					continue
				}
				if !fillable {
					return nil, false, fmt.Errorf("%s: %s: table %s has a literal with entries and is written in init as well", p.pos(as), fn, name)
				}
				if err := add(ix.Index, as.Rhs[0]); err != nil {
					return nil, false, err
				}
				p.claimed[base] = true
			}
		}
	}
	if fillable && len(cases) > 0 {
		// a package-level initialiser that calls into the package may run a factory before init() has filled the map
		for _, f := range p.files {
			for _, d := range f.Decls {
				gd, ok := d.(*ast.GenDecl)
				if !ok || gd.Tok != token.VAR {
					continue
				}
				for _, s := range gd.Specs {
					for _, val := range s.(*ast.ValueSpec).Values {
						var bad ast.Node
						ast.Inspect(val, func(n ast.Node) bool {
							if _, isLit := n.(*ast.FuncLit); isLit {
								return false // a function value is not run by the initialiser
							}
							if c, ok := n.(*ast.CallExpr); ok {
								if id, ok := c.Fun.(*ast.Ident); ok && p.funcDecl(id.Name) != nil && p.byCtor[id.Name] == nil {
									bad = c
								}
							}
							return true
						})
						if bad != nil {
							return nil, false, fmt.Errorf("%s: %s: a package-level initialiser calls a function of the package: it may run before init() fills table %s", p.pos(bad), fn, name)
						}
					}
				}
			}
		}
	}
	p.tables[name] = true
	return cases, isMap, nil
}

// lookup reads a D1 body.  `tab` / `code`: what the identifiers of the body stand for (name -> table name, name of the
// code parameter); returns the table name.
func (p *sdPkg) lookup(body *ast.BlockStmt, tabOf map[string]string, codeName string, fn string) (string, *ast.Ident, bool, error) {
	bad := func(n ast.Node, what string) (string, *ast.Ident, bool, error) {
		return "", nil, false, fmt.Errorf("%s: %s: %s", p.pos(n), fn, what)
	}
	stmts := body.List
	// `if v, ok := T[code]; ok {…}` = the assignment followed by the `if`
	if len(stmts) == 2 {
		if ifs, ok := stmts[0].(*ast.IfStmt); ok && ifs.Init != nil {
			cp := *ifs
			cp.Init = nil
			stmts = []ast.Stmt{ifs.Init, &cp, stmts[1]}
		}
	}
	if len(stmts) != 3 {
		return bad(body, "body is neither a switch nor a table lookup (assignment, test, return)")
	}
	as, ok := stmts[0].(*ast.AssignStmt)
	if !ok || as.Tok != token.DEFINE || len(as.Rhs) != 1 || len(as.Lhs) < 1 || len(as.Lhs) > 2 {
		return bad(stmts[0], "lookup does not start with `v, ok := T[code]`")
	}
	ix, ok := as.Rhs[0].(*ast.IndexExpr)
	if !ok {
		return bad(as, "lookup does not index a table")
	}
	base, ok := ix.X.(*ast.Ident)
	if !ok || tabOf[base.Name] == "" {
		return bad(as, "lookup does not index a package-level table (or the helper's table parameter)")
	}
	if id, ok := ix.Index.(*ast.Ident); !ok || id.Name != codeName {
		return bad(as, "table is not indexed by the command code parameter itself")
	}
	v, ok := as.Lhs[0].(*ast.Ident)
	if !ok || v.Name == "_" {
		return bad(as, "lookup result is not kept in a variable")
	}
	commaOK := len(as.Lhs) == 2
	okName := ""
	if commaOK {
		o, ok := as.Lhs[1].(*ast.Ident)
		if !ok || o.Name == "_" || o.Name == v.Name {
			return bad(as, "comma-ok variable not understood")
		}
		okName = o.Name
	}
	ifs, ok := stmts[1].(*ast.IfStmt)
	if !ok || ifs.Init != nil || ifs.Else != nil || len(ifs.Body.List) != 1 {
		return bad(stmts[1], "lookup is not followed by a plain `if` with one return")
	}
	// condition: true when the entry is present (`ok`, `v != nil`) or when it is absent (`!ok`, `v == nil`)
	present := false
	switch c := ifs.Cond.(type) {
	case *ast.Ident:
		if !commaOK || c.Name != okName {
			return bad(c, "test is not the comma-ok variable")
		}
		present = true
	case *ast.UnaryExpr:
		id, ok := c.X.(*ast.Ident)
		if c.Op != token.NOT || !ok || !commaOK || id.Name != okName {
			return bad(c, "test is not the negated comma-ok variable")
		}
	case *ast.BinaryExpr:
		x, ok1 := c.X.(*ast.Ident)
		y, ok2 := c.Y.(*ast.Ident)
		if commaOK || !ok1 || !ok2 || x.Name != v.Name || y.Name != "nil" || (c.Op != token.EQL && c.Op != token.NEQ) {
			return bad(c, "test is not `v == nil` / `v != nil` on the looked-up entry")
		}
		present = c.Op == token.NEQ
	default:
		return bad(ifs.Cond, "test of the lookup not understood")
	}
	isHit := func(st ast.Stmt) bool { // return v(), nil
		ret, ok := st.(*ast.ReturnStmt)
		if !ok || len(ret.Results) != 2 {
			return false
		}
		call, ok := ret.Results[0].(*ast.CallExpr)
		if !ok || len(call.Args) != 0 {
			return false
		}
		f, ok := call.Fun.(*ast.Ident)
		n, ok2 := ret.Results[1].(*ast.Ident)
		return ok && ok2 && f.Name == v.Name && n.Name == "nil"
	}
	isMiss := func(st ast.Stmt) bool { // return nil, <call>
		ret, ok := st.(*ast.ReturnStmt)
		if !ok || len(ret.Results) != 2 {
			return false
		}
		n, ok := ret.Results[0].(*ast.Ident)
		_, ok2 := ret.Results[1].(*ast.CallExpr)
		return ok && ok2 && n.Name == "nil"
	}
	inIf, after := ifs.Body.List[0], stmts[2]
	if present && !(isHit(inIf) && isMiss(after)) || !present && !(isMiss(inIf) && isHit(after)) {
		return bad(ifs, "lookup does not return `v(), nil` for a present entry and `nil, <error>` otherwise")
	}
	if v.Name == "nil" || okName == "nil" {
		return bad(as, "lookup shadows nil")
	}
	return tabOf[base.Name], base, commaOK, nil
}

// tableFactory: the factory `fd` in one of the table shapes (D1–D4); error if it is none.
func (p *sdPkg) tableFactory(fd *ast.FuncDecl, param string, fn string) ([]sdCase, error) {
	body, tabOf, codeName := fd.Body, map[string]string{}, param
	var viaArg *ast.Ident
	if len(fd.Body.List) == 1 { // D2: return h(T, code)
		if ret, ok := fd.Body.List[0].(*ast.ReturnStmt); ok && len(ret.Results) == 1 {
			call, ok := ret.Results[0].(*ast.CallExpr)
			if !ok {
				return nil, fmt.Errorf("%s: %s: body is not a switch, a table lookup or the call of a lookup helper", p.pos(fd), fn)
			}
			hid, ok := call.Fun.(*ast.Ident)
			var h *ast.FuncDecl
			if ok {
				h = p.funcDecl(hid.Name)
			}
			if h == nil || h.Body == nil || h.Type.TypeParams != nil {
				return nil, fmt.Errorf("%s: %s: returns the call of something that is not a plain function of the package", p.pos(call), fn)
			}
			var hps []string
			for _, f := range h.Type.Params.List {
				if len(f.Names) == 0 {
					return nil, fmt.Errorf("%s: %s: helper %s has an unnamed parameter", p.pos(h), fn, hid.Name)
				}
				for _, n := range f.Names {
					hps = append(hps, n.Name)
				}
			}
			if len(hps) != len(call.Args) || call.Ellipsis != token.NoPos {
				return nil, fmt.Errorf("%s: %s: helper %s called with another number of arguments", p.pos(call), fn, hid.Name)
			}
			codeName = ""
			for i, a := range call.Args {
				id, ok := a.(*ast.Ident)
				if !ok {
					return nil, fmt.Errorf("%s: %s: argument of helper %s is neither the code parameter nor a table name", p.pos(a), fn, hid.Name)
				}
				if id.Name == param {
					if codeName != "" {
						return nil, fmt.Errorf("%s: %s: code passed twice to helper %s", p.pos(a), fn, hid.Name)
					}
					codeName = hps[i]
				} else {
					tabOf[hps[i]] = id.Name
					viaArg = id
				}
			}
			if codeName == "" || len(tabOf) != 1 {
				return nil, fmt.Errorf("%s: %s: helper %s is not called with one table and the code parameter", p.pos(call), fn, hid.Name)
			}
			body = h.Body
		}
	}
	direct := viaArg == nil
	if direct {
		// every package-level identifier may be the table; the lookup says which one is indexed
		for _, f := range p.files {
			for _, d := range f.Decls {
				if gd, ok := d.(*ast.GenDecl); ok && gd.Tok == token.VAR {
					for _, s := range gd.Specs {
						for _, n := range s.(*ast.ValueSpec).Names {
							tabOf[n.Name] = n.Name
						}
					}
				}
			}
		}
		delete(tabOf, param)
	}
	tname, base, commaOK, err := p.lookup(body, tabOf, codeName, fn)
	if err != nil {
		return nil, err
	}
	if direct {
		// a local of the factory with the table's name would shadow it: the body is the three lookup statements, whose
		// only definitions are v and ok — refuse if they carry the table's name
		for _, st := range body.List {
			if as, ok := st.(*ast.AssignStmt); ok && as.Tok == token.DEFINE {
				for _, l := range as.Lhs {
					if id, ok := l.(*ast.Ident); ok && id.Name == tname {
						return nil, fmt.Errorf("%s: %s: the lookup redefines %s", p.pos(as), fn, tname)
					}
				}
			}
		}
		p.claimed[base] = true
	} else {
		p.claimed[viaArg] = true
	}
	cases, isMap, err := p.table(tname, fn)
	if err != nil {
		return nil, err
	}
	if commaOK && !isMap {
		return nil, fmt.Errorf("%s: %s: comma-ok lookup on something that is not a map", p.pos(fd), fn)
	}
	return cases, nil
}

// unclaimed: D3 — no other mention of a table anywhere in the package.
func (p *sdPkg) unclaimed() error {
	for _, f := range p.files {
		var err error
		ast.Inspect(f, func(n ast.Node) bool {
			if id, ok := n.(*ast.Ident); ok && err == nil && p.tables[id.Name] && !p.claimed[id] {
				err = fmt.Errorf("%s: dispatch table %s is mentioned outside its declaration, the factories' lookups and init: it is not a constant of the package", p.pos(id), id.Name)
			}
			return err == nil
		})
		if err != nil {
			return err
		}
	}
	return nil
}
