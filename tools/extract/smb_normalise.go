package main

// Source normalisation in front of the SmbCommands recogniser (smb_commands.go).  Further groups of rules, under the same
// contract: smb_normalise2.go, smb_normalise3.go, smb_normalise4.go.
//
// The recogniser reads ONE dialect of Go: the statement shapes the 115 Marshal/Unmarshal bodies were written in.
// This file rewrites other shapes THAT MEAN THE SAME into that dialect, statement list to statement list, before the
// recogniser runs.  Every rule below is a general program equivalence with its side conditions checked syntactically;
// whenever a side condition cannot be decided the statement is left as it is, and the recogniser refuses it (a refusal
// is reported honestly, a wrong translation is not).  A body already written in the dialect passes through untouched
// (nothing here fires), so the model regenerated from an unchanged tree is byte for byte what it was.  The rules do not
// weaken what is read off the code: constants, widths, byte orders, offsets, bounds and the order of emissions are
// carried over into the canonical text and read there by the recogniser as before; L2 then runs the regenerated model
// against the real code (a mis-translation would show as a tie mismatch).
//
// Marshal side (normMarshal):
//
//	M1 result-slice placement.  `marshalledCommand` is a fresh local slice: where it is declared (`:= []byte{}`,
//	   `var … []byte`, `make([]byte, 0[, cap])`) and where `append(marshalledCommand, marshalledParameters...)` stands
//	   relative to statements that do not mention it cannot be observed; only the order of the side-effecting calls
//	   (AddWordsFromBytesStream, Parameters.Marshal, Data.Add, Data.Marshal, each error check) is, and that order must be
//	   the canonical one.  `Data.Add(nil)` appends nothing, exactly like `Data.Add` of a never-written `[]byte{}`.
//	M2 `x = binary.<Order>.AppendUintN(x, v)` is by definition `b := make([]byte, N/8); binary.<Order>.PutUintN(b, v);
//	   x = append(x, b...)`; `le := binary.LittleEndian` (assigned once) is an alias and is substituted.
//	M3 `x = append(x, a, b, …)` appends a, b, … in this order: one append per element (left-to-right evaluation).
//	M4 a `range` loop over an array/slice LITERAL whose elements are side-effect-free (fields, locals, conversions) and
//	   whose body only emits (make / PutUintN / append / AppendUintN on locals, no method call, no field assignment) is
//	   its unrolling: body[v := e1]; …; body[v := en].  A literal bound once to a local (`t := [][]byte{…}`) and only
//	   ranged over is treated the same, provided no statement that can change a field stands between the literal and the
//	   loop (mutation epochs: sub-structure Marshal calls, SetBufferFormat, `c.F = …`, any statement not known pure).
//	   A changed element, order or width changes the unrolled text and hence the regenerated program.
//	M5 capacity-only arithmetic.  A local integer that is only ever assigned sums/products of literals, `len(…)` and
//	   other such locals, and only ever used in the capacity argument of `make([]byte, 0, cap)`, has no effect on the
//	   bytes (it cannot be negative, so `make` cannot panic): its statements (including `range` loops that only add to
//	   it) are dropped and `make([]byte, 0, cap)` is the empty slice `[]byte{}`.  Anything else in a capacity (a
//	   subtraction, a call) is not touched and is refused.
//	M6 fixed buffers.  `var b [N]byte`, `b := [N]byte{}` or `b := make([]byte, N)` (N a constant expression over
//	   literals and package-level constants) filled by `binary.<Order>.PutUintK(b[lo:hi], v)` (hi-lo = K/8),
//	   `PutUintK(b[lo:], v)`, `PutUintK(b, v)` and `b[i] = byte(c.F)` at CONSTANT offsets, then appended or handed
//	   over whole (`b...`, `b[:]...`, `AddWordsFromBytesStream(b[:])`), is the sequence of appends in offset order —
//	   if and only if the writes tile [0,N) exactly (no gap, no overlap; a write over exactly the same window replaces
//	   the earlier one) and every write and the use lie in one mutation epoch (so reading the fields earlier or later
//	   is the same).  `copy(b[lo:hi], c.F[:])` of a field declared `[hi-lo]types.UCHAR` is a tile too (the array itself,
//	   as `append(…, c.F[:]...)`).  Any other use of the buffer is refused.
//
// Unmarshal side (normUnmarshal):
//
//	U1 `if x = e; cond { … }` (assignment, no else) is `x = e; if cond { … }`.
//	U2 inlining of a local closure `f := func(…) (…, error) {…}` or an unexported package-level helper, at call sites of
//	   the shape `lhs…, err (:=|=) f(args); if err != nil { return R…, err }`.  The callee must be in guard form: every
//	   `return` either ends in an error that is certainly non-nil (`fmt.Errorf(…)`, `errors.New(…)`, or `err` directly
//	   inside `if err != nil`) or is the one final `return …, nil`.  Parameters the callee never assigns are replaced by
//	   their (side-effect-free) arguments; a parameter the callee assigns is accepted only by reference: the argument is
//	   a variable, every return hands the parameter back in a position whose receiver is that same variable.  A result
//	   position in which every return (or the final return, when the receiver is a local that is dead on the caller's
//	   error path) yields one callee local is eliminated by naming that local after the receiver (`ranges` becomes
//	   `c.Unlocks`; the receiver is then written a little earlier than the call would have, which only a panic in
//	   between could show, and a panic has no receiver state in the model).  An error return becomes the caller's own
//	   `return R…` with `err` replaced by the callee's error.  Everything else is refused.
//	U3 guard forms over the integers: `len(b)-off < n`, `off+n > len(b)` are `len(b) < off+n`.
//	U4 a slice temporary `t := b[lo:hi]` used once, in a later statement that does not mention the cursor, with only
//	   cursor increments in between, is that statement with the slice expression in place of `t`, standing in front of
//	   the increments (the two do not read what the other writes).
//	U5 cursor: the variable every `return` hands back (or 0) is the cursor; its name carries no meaning (renamed to
//	   `offset`), a later declaration `v := 0` is `offset := 0` at the top plus `offset = 0` there (nothing in between
//	   can mention it), and a final `return 0, nil` is `offset = 0; return offset, nil`.  The pure getters
//	   `_ = c.GetParameters().GetBytes()` / `_ = c.GetData().GetBytes()` may be absent.
//	U7 `if C { return … } else { A }` is `if C { return … }; A`, and `if a < b { A } else { return … }` is
//	   `if a >= b { return … }; A` (comparison negated over the integers), when A declares nothing (its scope widens).
//	U6 hoisted element bound.  `avail := 0; if len(b) > off { avail = (len(b)-off)/K }; n := COUNT; if avail < n
//	   { n = avail }; for r := n; r > 0; r-- { BODY }; if n < COUNT { return off, E }` is `for i := 0; i < COUNT; i++
//	   { if len(b) < off+K { return off, E }; BODY }` PROVIDED each pass of BODY advances `off` by exactly K: BODY ends
//	   in `off += bytesRead` of a `T.Unmarshal(b[off:off+K])` whose every successful return is the literal K (read off
//	   types/T.go), or in `off += K`.  Then pass i is reached iff len(b) >= off0+K·(i+1), i.e. i < (len(b)-off0)/K, which
//	   is what the clamp computes.  K, COUNT and the window are read from the text; if the clamp divides by another
//	   number than the window the rule does not fire.

import (
	"bytes"
	"fmt"
	"go/ast"
	"go/parser"
	"go/printer"
	"go/token"
	"os"
	"path/filepath"
	"reflect"
	"regexp"
	"sort"
	"strconv"
	"strings"
)

// originPos: where a synthesised statement came from (for messages and the JSON line numbers)
var originPos = map[ast.Node]token.Pos{}

func posOf(n ast.Node) token.Pos {
	if p, ok := originPos[n]; ok {
		return p
	}
	return n.Pos()
}

type normaliser struct {
	fset    *token.FileSet
	repo    string
	consts  map[string]int64           // package-level integer constants of package commands
	helpers map[string]*ast.FuncDecl   // package-level plain functions of package commands
	cur     *jCmd                      // the structure whose method is being normalised
	fixed   map[string]int             // types.T -> K when every successful return of T.Unmarshal is the literal K (0: not so)
	structs map[string]*ast.StructType // package-level record types of package commands (U12)
	nfresh  int
}

func newNormaliser(fset *token.FileSet, repo string, files []*ast.File) *normaliser {
	nz := &normaliser{fset: fset, repo: repo, consts: map[string]int64{}, helpers: map[string]*ast.FuncDecl{}, fixed: map[string]int{}, structs: map[string]*ast.StructType{}}
	for pass := 0; pass < 64; pass++ { // constants may refer to each other (a chain of named offsets)
		for _, af := range files {
			for _, d := range af.Decls {
				gd, ok := d.(*ast.GenDecl)
				if !ok || gd.Tok != token.CONST {
					continue
				}
				for _, sp := range gd.Specs {
					vs := sp.(*ast.ValueSpec)
					for i, n := range vs.Names {
						if i < len(vs.Values) {
							if v, ok := nz.constInt(vs.Values[i], nil); ok {
								nz.consts[n.Name] = v
							}
						}
					}
				}
			}
		}
	}
	for _, af := range files {
		for _, d := range af.Decls {
			if fd, ok := d.(*ast.FuncDecl); ok && fd.Recv == nil && fd.Body != nil {
				nz.helpers[fd.Name.Name] = fd
			}
			if gd, ok := d.(*ast.GenDecl); ok && gd.Tok == token.TYPE {
				for _, sp := range gd.Specs {
					if ts, ok := sp.(*ast.TypeSpec); ok && ts.Assign == token.NoPos {
						if st, ok := ts.Type.(*ast.StructType); ok {
							nz.structs[ts.Name.Name] = st
						}
					}
				}
			}
		}
	}
	return nz
}

func (nz *normaliser) printNode(n ast.Node) string {
	var b bytes.Buffer
	printer.Fprint(&b, nz.fset, n)
	return b.String()
}

func (nz *normaliser) s(n ast.Node) string { return src(nz.fset, n) }

func (nz *normaliser) parseStmts(code string, at token.Pos) []ast.Stmt {
	f, err := parser.ParseFile(nz.fset, "", "package p\nfunc _() {\n"+code+"\n}", parser.SkipObjectResolution)
	if err != nil {
		panic(xerr{"internal: the normaliser produced code that does not parse: " + code + ": " + err.Error()})
	}
	list := f.Decls[0].(*ast.FuncDecl).Body.List
	for _, st := range list {
		ast.Inspect(st, func(n ast.Node) bool {
			if n != nil {
				originPos[n] = at
			}
			return true
		})
	}
	return list
}

func (nz *normaliser) parseExprText(code string) ast.Expr {
	e, err := parser.ParseExprFrom(nz.fset, "", code, parser.SkipObjectResolution)
	if err != nil {
		panic(xerr{"internal: the normaliser produced an expression that does not parse: " + code})
	}
	return e
}

// clone: a fresh copy of a statement (print and parse again), remembering where it came from
func (nz *normaliser) clone(st ast.Stmt) ast.Stmt {
	return nz.parseStmts(nz.printNode(st), posOf(st))[0]
}

func (nz *normaliser) fresh(prefix string, used map[string]bool) string {
	for {
		nz.nfresh++
		n := fmt.Sprintf("%s_n%d", prefix, nz.nfresh)
		if !used[n] {
			return n
		}
	}
}

var exprIface = reflect.TypeOf((*ast.Expr)(nil)).Elem()

// rewriteExprs replaces expressions top-down: f returns (replacement, true) to replace a node (not descended into).
func rewriteExprs(n ast.Node, f func(ast.Expr) (ast.Expr, bool)) {
	var walk func(v reflect.Value)
	walk = func(v reflect.Value) {
		switch v.Kind() {
		case reflect.Ptr:
			if v.IsNil() {
				return
			}
			switch v.Interface().(type) {
			case *ast.Object, *ast.Scope, *ast.CommentGroup:
				return
			}
			walk(v.Elem())
		case reflect.Interface:
			if v.IsNil() {
				return
			}
			if v.Type() == exprIface && v.CanSet() {
				if r, ok := f(v.Interface().(ast.Expr)); ok {
					v.Set(reflect.ValueOf(r))
					return
				}
			}
			walk(v.Elem())
		case reflect.Struct:
			for i := 0; i < v.NumField(); i++ {
				walk(v.Field(i))
			}
		case reflect.Slice:
			for i := 0; i < v.Len(); i++ {
				walk(v.Index(i))
			}
		}
	}
	walk(reflect.ValueOf(n))
}

var posType = reflect.TypeOf(token.NoPos)

// flatten gives every valid position inside n the same value, so that the printer lays the node out on one line whatever
// mixture of files its parts were parsed from (validity is kept: `f(x...)`, `const ( … )` are told by it)
func flatten(n ast.Node, p token.Pos) {
	if !p.IsValid() {
		p = 1
	}
	var walk func(v reflect.Value)
	walk = func(v reflect.Value) {
		switch v.Kind() {
		case reflect.Ptr:
			if v.IsNil() {
				return
			}
			switch v.Interface().(type) {
			case *ast.Object, *ast.Scope, *ast.CommentGroup:
				return
			}
			walk(v.Elem())
		case reflect.Interface:
			if !v.IsNil() {
				walk(v.Elem())
			}
		case reflect.Struct:
			for i := 0; i < v.NumField(); i++ {
				walk(v.Field(i))
			}
		case reflect.Slice:
			for i := 0; i < v.Len(); i++ {
				walk(v.Index(i))
			}
		default:
			if v.Type() == posType && v.CanSet() && v.Int() != 0 {
				v.SetInt(int64(p))
			}
		}
	}
	walk(reflect.ValueOf(n))
}

// substIdents replaces free occurrences of identifiers (expression positions only, never `x.Sel`) by expression text.
func (nz *normaliser) substIdents(n ast.Node, m map[string]string) {
	if len(m) == 0 {
		return
	}
	rewriteExprs(n, func(e ast.Expr) (ast.Expr, bool) {
		id, ok := e.(*ast.Ident)
		if !ok {
			return nil, false
		}
		r, ok := m[id.Name]
		if !ok {
			return nil, false
		}
		ne := nz.parseExprText(r)
		if _, bin := ne.(*ast.BinaryExpr); bin {
			ne = &ast.ParenExpr{X: ne}
		}
		return ne, true
	})
	flatten(n, posOf(n))
	// a definition whose left side is no longer a plain identifier is an assignment
	ast.Inspect(n, func(x ast.Node) bool {
		if as, ok := x.(*ast.AssignStmt); ok && as.Tok == token.DEFINE {
			for _, l := range as.Lhs {
				if _, ok := l.(*ast.Ident); !ok {
					as.Tok = token.ASSIGN
				}
			}
		}
		return true
	})
}

func identsOf(n ast.Node) map[string]int {
	out := map[string]int{}
	ast.Inspect(n, func(x ast.Node) bool {
		switch t := x.(type) {
		case *ast.SelectorExpr:
			ast.Inspect(t.X, func(y ast.Node) bool {
				if id, ok := y.(*ast.Ident); ok {
					out[id.Name]++
				}
				return true
			})
			return false
		case *ast.Ident:
			out[t.Name]++
		}
		return true
	})
	return out
}

// identsOf counts selector bases properly only when the walk above does not double count: redo it simply.
func countIdent(n ast.Node, name string) int {
	k := 0
	var walk func(x ast.Node) bool
	walk = func(x ast.Node) bool {
		switch t := x.(type) {
		case *ast.SelectorExpr:
			ast.Inspect(t.X, walk)
			return false
		case *ast.Ident:
			if t.Name == name {
				k++
			}
		}
		return true
	}
	ast.Inspect(n, walk)
	return k
}

func (nz *normaliser) constInt(e ast.Expr, local map[string]int64) (int64, bool) {
	switch t := e.(type) {
	case *ast.CallExpr:
		// len of a field declared as a fixed array
		if nz.cur != nil && nz.s(t.Fun) == "len" && len(t.Args) == 1 {
			if m := regexp.MustCompile(`^c\.(\w+)$`).FindStringSubmatch(nz.s(t.Args[0])); m != nil {
				if n, _ := fixedArrayLen(nz.cur, m[1]); n > 0 {
					return int64(n), true
				}
			}
		}
		return 0, false
	case *ast.BasicLit:
		if t.Kind != token.INT {
			return 0, false
		}
		v, err := strconv.ParseInt(t.Value, 0, 64)
		return v, err == nil
	case *ast.ParenExpr:
		return nz.constInt(t.X, local)
	case *ast.Ident:
		if v, ok := local[t.Name]; ok {
			return v, true
		}
		v, ok := nz.consts[t.Name]
		return v, ok
	case *ast.BinaryExpr:
		a, ok1 := nz.constInt(t.X, local)
		b, ok2 := nz.constInt(t.Y, local)
		if !ok1 || !ok2 {
			return 0, false
		}
		switch t.Op {
		case token.ADD:
			return a + b, true
		case token.SUB:
			return a - b, true
		case token.MUL:
			return a * b, true
		}
	}
	return 0, false
}

// pureOperand: an expression whose evaluation has no effect and cannot panic: identifiers, field selections, `x[:]`,
// conversions of those.
func (nz *normaliser) pureOperand(e ast.Expr) bool {
	switch t := e.(type) {
	case *ast.Ident:
		return true
	case *ast.BasicLit:
		return true
	case *ast.ParenExpr:
		return nz.pureOperand(t.X)
	case *ast.SelectorExpr:
		return nz.pureOperand(t.X)
	case *ast.SliceExpr:
		return t.Low == nil && t.High == nil && t.Max == nil && nz.pureOperand(t.X)
	case *ast.CallExpr:
		if len(t.Args) != 1 || t.Ellipsis != token.NoPos {
			return false
		}
		if !reConvName.MatchString(nz.s(t.Fun)) {
			return false
		}
		return nz.pureOperand(t.Args[0])
	}
	return false
}

var reConvName = regexp.MustCompile(`^(byte|uint8|uint16|uint32|uint64|int|types\.[A-Z_0-9]+)$`)
var rePureCallee = regexp.MustCompile(`^(append|make|len|byte|uint8|uint16|uint32|uint64|int|types\.[A-Z_0-9]+|binary\.(Little|Big)Endian\.(PutUint|AppendUint)(16|32|64))$`)

// emissionOnly: the statement only computes on locals (make / PutUintN / append / AppendUintN), calls nothing else and
// assigns no field.
func (nz *normaliser) emissionOnly(st ast.Stmt) bool {
	ok := true
	switch t := st.(type) {
	case *ast.AssignStmt:
		for _, l := range t.Lhs {
			if _, isId := l.(*ast.Ident); !isId {
				ok = false
			}
		}
	case *ast.ExprStmt:
		if _, isCall := t.X.(*ast.CallExpr); !isCall {
			ok = false
		}
	default:
		return false
	}
	ast.Inspect(st, func(x ast.Node) bool {
		switch t := x.(type) {
		case *ast.CallExpr:
			if !rePureCallee.MatchString(nz.s(t.Fun)) {
				ok = false
			}
		case *ast.FuncLit, *ast.UnaryExpr:
			ok = false
		}
		return true
	})
	return ok
}

// ---------------------------------------------------------------------------------------------
// Marshal

type tile struct {
	lo, hi int
	text   []string // canonical statements emitting this tile into stream %s (use fmt with the stream name)
	epoch  int
	seq    int      // number of mutation records when the tile was written
	fields []string // the fields its value reads
	byteOf string   // M12: the tile is byte `shift`/8 of this field expression
	shift  int
}

// mutation: a statement that may change field `field` ("*": any field)
type mutation struct{ field string }

func (st *mstate) mutate(field string) {
	st.epoch++
	st.muts = append(st.muts, mutation{field})
}

var reFieldRead = regexp.MustCompile(`\bc\.(\w+)`)

func (st *mstate) stale(t tile) bool {
	for _, m := range st.muts[t.seq:] {
		if m.field == "*" {
			return true
		}
		for _, f := range t.fields {
			if f == m.field {
				return true
			}
		}
	}
	return false
}

type fixedBuf struct {
	slice bool // declared by make([]byte, N): may go on growing by append (M10)
	n     int
	tiles []tile
}

type mstate struct {
	muts    []mutation
	epoch   int
	tables  map[string]*mtable
	bufs    map[string]*fixedBuf
	managed map[string]bool
	capVars map[string]bool
	alias   map[string]string
	used    map[string]bool
	body    *ast.BlockStmt
	cmd     *jCmd
}

type mtable struct {
	elems []string
	epoch int
}

var (
	reAppendUint  = regexp.MustCompile(`^(\w+) = binary\.(Little|Big)Endian\.AppendUint(16|32|64)\((\w+), (.+)\)$`)
	reMake0       = regexp.MustCompile(`^(\w+) := make\(\[\]byte, 0(?:, (.+))?\)$`)
	reVarSlice    = regexp.MustCompile(`^var (\w+) \[\]byte$`)
	reMakeN       = regexp.MustCompile(`^(\w+) :?= make\(\[\]byte, (.+)\)$`)
	reArrDecl     = regexp.MustCompile(`^(?:var (\w+) \[(.+)\]byte|(\w+) := \[(.+)\]byte\{\})$`)
	rePutAny      = regexp.MustCompile(`^binary\.(Little|Big)Endian\.PutUint(16|32|64)\((.+?), (uint(?:16|32|64)\(.+\))\)$`)
	reZeroLits    = regexp.MustCompile(`^(?:0x0+|0)$`)
	reMutation    = regexp.MustCompile(`^(?:\w+, err :?= c\.\w+\.Marshal\(\)|c\.\w+\.SetBufferFormat\(.*\)|c\.[\w.]+ = .*)$`)
	rePFlush      = regexp.MustCompile(`^c\.GetParameters\(\)\.AddWordsFromBytesStream\((.+)\)$`)
	reDFlush      = regexp.MustCompile(`^c\.GetData\(\)\.Add\((.+)\)$`)
	reAppendWhole = regexp.MustCompile(`^(\w+) = append\((\w+), (\w+)(\[:\])?\.\.\.\)$`)
)

func (nz *normaliser) normMarshal(fd *ast.FuncDecl, c *jCmd) []ast.Stmt {
	nz.cur = c
	list := fd.Body.List
	st := &mstate{tables: map[string]*mtable{}, bufs: map[string]*fixedBuf{}, managed: map[string]bool{}, alias: map[string]string{}, used: map[string]bool{}}
	for n := range identsOf(fd.Body) {
		st.used[n] = true
	}
	st.body = fd.Body
	st.cmd = c
	// M2 aliases of a byte order: assigned exactly once in the function
	for _, s := range list {
		if as, ok := s.(*ast.AssignStmt); ok && as.Tok == token.DEFINE && len(as.Lhs) == 1 && len(as.Rhs) == 1 {
			r := nz.s(as.Rhs[0])
			if id, isId := as.Lhs[0].(*ast.Ident); isId && (r == "binary.LittleEndian" || r == "binary.BigEndian") && nz.assignCount(fd.Body, id.Name) == 1 {
				st.alias[id.Name] = r
			}
		}
	}
	list = nz.marshalPrelude(fd, list, c, st)
	// M13 emission helpers are inlined first; the table bookkeeping of M4/M5 below looks at the body as it then stands
	mbody := fd.Body
	if in := nz.emissionHelpers(list, st.used); !sameStmts(in, list) {
		list = in
		mbody = &ast.BlockStmt{List: list}
		st.body = mbody
	}
	// M6 buffers that are indexed or sliced somewhere, or declared as arrays, are handled here, the others (buf2 := make;
	// PutUint16(buf2, …); append(…, buf2...)) are the recogniser's own dialect
	ast.Inspect(mbody, func(x ast.Node) bool {
		switch t := x.(type) {
		case *ast.SliceExpr:
			if id, ok := t.X.(*ast.Ident); ok {
				st.managed[id.Name] = true
			}
		case *ast.IndexExpr:
			if id, ok := t.X.(*ast.Ident); ok {
				st.managed[id.Name] = true
			}
		}
		return true
	})
	st.capVars = nz.capacityVars(mbody)
	out := nz.normMarshalList(list, st, true)
	return nz.tidy(nz.canonEpilogue(out, st))
}

func (nz *normaliser) assignCount(body ast.Node, name string) int {
	k := 0
	ast.Inspect(body, func(x ast.Node) bool {
		switch t := x.(type) {
		case *ast.AssignStmt:
			for _, l := range t.Lhs {
				if id, ok := l.(*ast.Ident); ok && id.Name == name {
					k++
				}
			}
		case *ast.IncDecStmt:
			if id, ok := t.X.(*ast.Ident); ok && id.Name == name {
				k++
			}
		case *ast.UnaryExpr:
			if id, ok := t.X.(*ast.Ident); ok && id.Name == name && t.Op == token.AND {
				k += 2
			}
		case *ast.RangeStmt:
			for _, e := range []ast.Expr{t.Key, t.Value} {
				if id, ok := e.(*ast.Ident); ok && id.Name == name {
					k++
				}
			}
		}
		return true
	})
	return k
}

// nonNeg: literals, len(pure), capacity-only locals, sums and products of those
func (nz *normaliser) nonNeg(e ast.Expr, caps map[string]bool) bool {
	switch t := e.(type) {
	case *ast.BasicLit:
		return t.Kind == token.INT && !strings.HasPrefix(t.Value, "-")
	case *ast.ParenExpr:
		return nz.nonNeg(t.X, caps)
	case *ast.Ident:
		if caps[t.Name] {
			return true
		}
		v, ok := nz.consts[t.Name]
		return ok && v >= 0
	case *ast.CallExpr:
		return nz.s(t.Fun) == "len" && len(t.Args) == 1 && nz.pureOperand(t.Args[0])
	case *ast.BinaryExpr:
		return (t.Op == token.ADD || t.Op == token.MUL) && nz.nonNeg(t.X, caps) && nz.nonNeg(t.Y, caps)
	}
	return false
}

// capStmt: is st a statement that only computes capacity-only locals (given the candidate set)?  Returns the locals it assigns.
func (nz *normaliser) capStmt(s ast.Stmt, caps map[string]bool) ([]string, bool) {
	switch t := s.(type) {
	case *ast.AssignStmt:
		if len(t.Lhs) != 1 || len(t.Rhs) != 1 {
			return nil, false
		}
		id, ok := t.Lhs[0].(*ast.Ident)
		if !ok || !caps[id.Name] {
			return nil, false
		}
		switch t.Tok {
		case token.DEFINE, token.ADD_ASSIGN, token.ASSIGN:
			if nz.nonNeg(t.Rhs[0], caps) {
				return []string{id.Name}, true
			}
		}
	case *ast.RangeStmt:
		if !nz.pureOperand(t.X) && !nz.isTableLit(t.X) {
			return nil, false
		}
		if len(t.Body.List) == 0 {
			return nil, false
		}
		var names []string
		for _, b := range t.Body.List {
			n, ok := nz.capStmt(b, caps)
			if !ok {
				return nil, false
			}
			names = append(names, n...)
		}
		return names, true
	}
	return nil, false
}

// onlyRanged: apart from its one definition the identifier occurs only as the operand of `range`
func (nz *normaliser) onlyRanged(body *ast.BlockStmt, name string) bool {
	ranged := 0
	ast.Inspect(body, func(x ast.Node) bool {
		if rs, ok := x.(*ast.RangeStmt); ok {
			if id, ok := rs.X.(*ast.Ident); ok && id.Name == name {
				ranged++
			}
		}
		// M4': `len(t)` of the literal is a constant; the occurrence is not a use of its elements
		if ce, ok := x.(*ast.CallExpr); ok && nz.s(ce.Fun) == "len" && len(ce.Args) == 1 {
			if id, ok := ce.Args[0].(*ast.Ident); ok && id.Name == name {
				ranged++
			}
		}
		return true
	})
	return ranged > 0 && countIdent(body, name) == ranged+1 && nz.assignCount(body, name) == 1
}

func (nz *normaliser) isTableLit(e ast.Expr) bool {
	cl, ok := e.(*ast.CompositeLit)
	if !ok {
		return false
	}
	if _, ok := cl.Type.(*ast.ArrayType); !ok || len(cl.Elts) == 0 {
		return false
	}
	for _, el := range cl.Elts {
		if !nz.pureOperand(el) {
			return false
		}
	}
	return true
}

// capacityVars (M5): the greatest set of locals defined at the top level of the body such that every occurrence of a
// member is inside a capacity statement of the set or inside the capacity argument of `make([]byte, 0, cap)`.
func (nz *normaliser) capacityVars(body *ast.BlockStmt) map[string]bool {
	caps := map[string]bool{}
	for _, s := range body.List {
		if as, ok := s.(*ast.AssignStmt); ok && as.Tok == token.DEFINE && len(as.Lhs) == 1 && len(as.Rhs) == 1 {
			if id, ok := as.Lhs[0].(*ast.Ident); ok {
				caps[id.Name] = true
			}
		}
	}
	for changed := true; changed; {
		changed = false
		bad := map[string]bool{}
		var scan func(list []ast.Stmt)
		scan = func(list []ast.Stmt) {
			for _, s := range list {
				if _, ok := nz.capStmt(s, caps); ok {
					continue
				}
				// occurrences outside capacity arguments
				ast.Inspect(s, func(x ast.Node) bool {
					if ce, ok := x.(*ast.CallExpr); ok && nz.s(ce.Fun) == "make" && len(ce.Args) == 3 && nz.s(ce.Args[0]) == "[]byte" && nz.s(ce.Args[1]) == "0" && nz.nonNeg(ce.Args[2], caps) {
						return false
					}
					if id, ok := x.(*ast.Ident); ok && caps[id.Name] {
						bad[id.Name] = true
					}
					return true
				})
			}
		}
		scan(body.List)
		for n := range bad {
			if caps[n] {
				delete(caps, n)
				changed = true
			}
		}
	}
	return caps
}

func (nz *normaliser) normMarshalList(list []ast.Stmt, st *mstate, top bool) []ast.Stmt {
	var out []ast.Stmt
	emit := func(code string, at ast.Stmt) {
		out = append(out, nz.parseStmts(code, posOf(at))...)
	}
	for _, orig := range list {
		s0 := orig
		// M2 alias substitution
		if len(st.alias) > 0 {
			if as, ok := s0.(*ast.AssignStmt); ok && as.Tok == token.DEFINE && len(as.Lhs) == 1 {
				if id, ok := as.Lhs[0].(*ast.Ident); ok && st.alias[id.Name] != "" {
					continue // the alias declaration itself
				}
			}
			uses := false
			for a := range st.alias {
				if countIdent(s0, a) > 0 {
					uses = true
				}
			}
			if uses {
				s0 = nz.clone(s0)
				nz.substIdents(s0, st.alias)
			}
		}
		s := nz.s(s0)
		// M5
		if _, ok := nz.capStmt(s0, st.capVars); ok && len(st.capVars) > 0 {
			continue
		}
		if m := reMake0.FindStringSubmatch(s); m != nil {
			if m[2] == "" || nz.nonNeg(nz.parseExprText(m[2]), st.capVars) {
				emit(m[1]+" := []byte{}", s0)
				continue
			}
		}
		if m := reVarSlice.FindStringSubmatch(s); m != nil {
			emit(m[1]+" := []byte{}", s0)
			continue
		}
		// M4 tables
		if as, ok := s0.(*ast.AssignStmt); ok && top && as.Tok == token.DEFINE && len(as.Lhs) == 1 && len(as.Rhs) == 1 && nz.isTableLit(as.Rhs[0]) {
			if id, ok := as.Lhs[0].(*ast.Ident); ok && nz.onlyRanged(st.body, id.Name) {
				cl := as.Rhs[0].(*ast.CompositeLit)
				t := &mtable{epoch: st.epoch}
				for _, el := range cl.Elts {
					t.elems = append(t.elems, nz.printNode(el))
				}
				st.tables[id.Name] = t
				continue
			}
		}
		if rs, ok := s0.(*ast.RangeStmt); ok {
			var elems []string
			isTable := false
			if id, ok := rs.X.(*ast.Ident); ok && st.tables[id.Name] != nil {
				t := st.tables[id.Name]
				if t.epoch != st.epoch {
					fail(nz.fset, orig, "Marshal: the table %s is ranged over after a statement that may change a field it was built from", id.Name)
				}
				elems, isTable = t.elems, true
			} else if nz.isTableLit(rs.X) {
				for _, el := range rs.X.(*ast.CompositeLit).Elts {
					elems = append(elems, nz.printNode(el))
				}
				isTable = true
			}
			if isTable {
				v, okV := rs.Value.(*ast.Ident)
				keyOK := rs.Key == nil || nz.s(rs.Key) == "_"
				if !okV || !keyOK || rs.Tok != token.DEFINE {
					fail(nz.fset, orig, "Marshal: range over a literal table with an index variable")
				}
				for _, b := range rs.Body.List {
					if !nz.emissionOnly(b) || nz.assignCount(b, v.Name) > 0 {
						fail(nz.fset, b, "Marshal: the body of a loop over a literal table does more than emit: %s", nz.s(b))
					}
				}
				var unrolled []ast.Stmt
				for _, e := range elems {
					for _, b := range rs.Body.List {
						nb := nz.clone(b)
						originPos[nb] = posOf(orig)
						nz.substIdents(nb, map[string]string{v.Name: e})
						unrolled = append(unrolled, nb)
					}
				}
				out = append(out, nz.normMarshalList(unrolled, st, false)...)
				continue
			}
		}
		// M2
		if m := reAppendUint.FindStringSubmatch(s); m != nil && m[1] == m[4] {
			bits, _ := strconv.Atoi(m[3])
			nb := nz.fresh("buf", st.used)
			emit(fmt.Sprintf("%s := make([]byte, %d)\nbinary.%sEndian.PutUint%d(%s, %s)\n%s = append(%s, %s...)", nb, bits/8, m[2], bits, nb, m[5], m[1], m[1], nb), s0)
			continue
		}
		// M3
		if as, ok := s0.(*ast.AssignStmt); ok && as.Tok == token.ASSIGN && len(as.Lhs) == 1 && len(as.Rhs) == 1 {
			if ce, ok := as.Rhs[0].(*ast.CallExpr); ok && nz.s(ce.Fun) == "append" && ce.Ellipsis == token.NoPos && len(ce.Args) >= 3 && nz.s(ce.Args[0]) == nz.s(as.Lhs[0]) {
				allZero := true
				for _, a := range ce.Args[1:] {
					if !reZeroLits.MatchString(nz.s(a)) {
						allZero = false
					}
				}
				if !allZero {
					x := nz.s(as.Lhs[0])
					for _, a := range ce.Args[1:] {
						emit(fmt.Sprintf("%s = append(%s, %s)", x, x, nz.printNode(a)), s0)
					}
					continue
				}
			}
		}
		// M6
		if true {
			if m := regexp.MustCompile(`^(\w+) := make\(\[\]byte, ([^,]+), (.+)\)$`).FindStringSubmatch(s); m != nil && st.managed[m[1]] {
				if n, ok := nz.constInt(nz.parseExprText(m[2]), nil); ok && n > 0 && nz.nonNeg(nz.parseExprText(m[3]), st.capVars) {
					st.bufs[m[1]] = &fixedBuf{n: int(n), slice: true}
					continue
				}
			}
			if m := reArrDecl.FindStringSubmatch(s); m != nil {
				name, sz := m[1], m[2]
				if name == "" {
					name, sz = m[3], m[4]
				}
				if n, ok := nz.constInt(nz.parseExprText(sz), nil); ok && n > 0 {
					st.bufs[name] = &fixedBuf{n: int(n)}
					st.managed[name] = true
					continue
				}
			}
			if m := reMakeN.FindStringSubmatch(s); m != nil && st.managed[m[1]] {
				if n, ok := nz.constInt(nz.parseExprText(m[2]), nil); ok && n > 0 {
					st.bufs[m[1]] = &fixedBuf{n: int(n), slice: true}
					continue
				}
			}
		}
		if nz.bufWrite(s0, s, st) {
			continue
		}
		// M11: a loop over a fixed array field that writes into a buffer handled here is its unrolling
		if rs, ok := s0.(*ast.RangeStmt); ok && strings.HasPrefix(nz.s(rs.X), "c.") && rs.Tok == token.DEFINE {
			f := nz.s(rs.X)[2:]
			n, _ := fixedArrayLen(st.cmd, f)
			touches := false
			for b := range st.bufs {
				if countIdent(rs.Body, b) > 0 {
					touches = true
				}
			}
			if n > 0 && touches {
				for _, b := range rs.Body.List {
					if !nz.emissionOnly(b) {
						fail(nz.fset, b, "Marshal: the body of a loop over %s writing into a buffer does more than emit: %s", f, nz.s(b))
					}
				}
				var unrolled []ast.Stmt
				for k := 0; k < n; k++ {
					m := map[string]string{}
					if id, ok := rs.Key.(*ast.Ident); ok && id.Name != "_" {
						m[id.Name] = strconv.Itoa(k)
					}
					if id, ok := rs.Value.(*ast.Ident); ok && id.Name != "_" {
						m[id.Name] = fmt.Sprintf("c.%s[%d]", f, k)
					}
					for _, b := range rs.Body.List {
						for name := range m {
							if nz.assignCount(b, name) > 0 {
								fail(nz.fset, b, "Marshal: a loop variable is assigned")
							}
						}
						nb := nz.clone(b)
						originPos[nb] = posOf(orig)
						nz.substIdents(nb, m)
						unrolled = append(unrolled, nb)
					}
				}
				out = append(out, nz.normMarshalList(unrolled, st, false)...)
				continue
			}
		}
		// M10: a make([]byte, N) head that is grown by append becomes the appends of its tiles, here
		if as, ok := s0.(*ast.AssignStmt); ok && as.Tok == token.ASSIGN && len(as.Lhs) == 1 && len(as.Rhs) == 1 {
			if id, ok := as.Lhs[0].(*ast.Ident); ok && st.bufs[id.Name] != nil && st.bufs[id.Name].slice {
				if ce, ok := as.Rhs[0].(*ast.CallExpr); ok && nz.s(ce.Fun) == "append" && len(ce.Args) >= 2 && nz.s(ce.Args[0]) == id.Name && countIdent(as.Rhs[0], id.Name) == 1 {
					emit(id.Name+" := []byte{}", s0)
					for _, code := range nz.bufEmit(orig, id.Name, id.Name, st) {
						emit(code, s0)
					}
					delete(st.bufs, id.Name)
					out = append(out, nz.normMarshalList([]ast.Stmt{s0}, st, false)...)
					continue
				}
			}
		}
		if m := reAppendWhole.FindStringSubmatch(s); m != nil && m[1] == m[2] && st.bufs[m[3]] != nil {
			for _, code := range nz.bufEmit(orig, m[3], m[1], st) {
				emit(code, s0)
			}
			continue
		}
		if m := rePFlush.FindStringSubmatch(s); m != nil {
			if code, ok := nz.flushArg(orig, m[1], "rawParametersContent", st); ok {
				for _, cc := range code {
					emit(cc, s0)
				}
				emit("c.GetParameters().AddWordsFromBytesStream(rawParametersContent)", s0)
				continue
			}
		}
		if m := reDFlush.FindStringSubmatch(s); m != nil {
			if (m[1] == "nil" || m[1] == "[]byte{}") && !st.used["rawDataContent"] {
				emit("c.GetData().Add(rawDataContent)", s0)
				continue
			}
			if code, ok := nz.flushArg(orig, m[1], "rawDataContent", st); ok {
				for _, cc := range code {
					emit(cc, s0)
				}
				emit("c.GetData().Add(rawDataContent)", s0)
				continue
			}
		}
		// pass through; nested bodies are normalised too
		switch t := s0.(type) {
		case *ast.IfStmt:
			if s == errCheckM {
				// `if err != nil { return nil, err }` changes nothing
				out = append(out, s0)
				continue
			}
			if nc, ok := nz.orOfAllElements(t.Cond, st.cmd); ok && t.Init == nil {
				cp := nz.clone(s0).(*ast.IfStmt)
				cp.Cond = nz.parseExprText(nc)
				flatten(cp, posOf(s0))
				s0, t = cp, cp
			}
			st.mutate("*")
			if t.Else == nil && t.Init == nil {
				nb := nz.normMarshalList(t.Body.List, st, false)
				if !sameStmts(nb, t.Body.List) {
					cp := nz.clone(s0).(*ast.IfStmt)
					cp.Body.List = nb
					s0 = cp
				}
			}
			st.mutate("*")
		case *ast.RangeStmt:
			st.mutate("*")
			nb := nz.normMarshalList(t.Body.List, st, false)
			if !sameStmts(nb, t.Body.List) {
				cp := nz.clone(s0).(*ast.RangeStmt)
				cp.Body.List = nb
				s0 = cp
			}
			st.mutate("*")
		default:
			if m := regexp.MustCompile(`^(?:\w+, err :?= c\.(\w+)\.Marshal\(\)|c\.(\w+)\.SetBufferFormat\(.*\)|c\.(\w+)[\w.\[\]]* = .*)$`).FindStringSubmatch(s); m != nil {
				st.mutate(m[1] + m[2] + m[3])
			} else if !nz.emissionOnly(s0) {
				st.mutate("*")
			}
		}
		out = append(out, s0)
	}
	return nz.byteRuns(out, st)
}

func sameStmts(a, b []ast.Stmt) bool {
	if len(a) != len(b) {
		return false
	}
	for i := range a {
		if a[i] != b[i] {
			return false
		}
	}
	return true
}

// bufWrite: a write at a constant offset into a buffer handled by M6
func (nz *normaliser) bufWrite(s0 ast.Stmt, s string, st *mstate) bool {
	add := func(name string, t tile) {
		b := st.bufs[name]
		t.seq = len(st.muts)
		for _, line := range t.text {
			for _, m := range reFieldRead.FindAllStringSubmatch(line, -1) {
				t.fields = append(t.fields, m[1])
			}
		}
		if t.lo < 0 || t.hi > b.n {
			fail(nz.fset, s0, "Marshal: write [%d,%d) outside the %d-byte buffer %s", t.lo, t.hi, b.n, name)
		}
		for i, o := range b.tiles {
			if o.lo == t.lo && o.hi == t.hi {
				b.tiles[i] = t
				return
			}
			if t.lo < o.hi && o.lo < t.hi {
				fail(nz.fset, s0, "Marshal: write [%d,%d) into %s overlaps the earlier write [%d,%d)", t.lo, t.hi, name, o.lo, o.hi)
			}
		}
		b.tiles = append(b.tiles, t)
	}
	if es, ok := s0.(*ast.ExprStmt); ok {
		ce, ok := es.X.(*ast.CallExpr)
		if !ok || len(ce.Args) != 2 {
			return false
		}
		if nz.s(ce.Fun) == "copy" {
			// copy(b[lo:hi], c.F[:]) of a field declared [hi-lo]types.UCHAR: exactly that array, like append(…, c.F[:]...)
			se, ok := ce.Args[0].(*ast.SliceExpr)
			if !ok || se.Low == nil || se.High == nil || se.Max != nil {
				return false
			}
			id, ok := se.X.(*ast.Ident)
			if !ok || st.bufs[id.Name] == nil {
				return false
			}
			lo, ok1 := nz.constInt(se.Low, nil)
			hi, ok2 := nz.constInt(se.High, nil)
			m := regexp.MustCompile(`^c\.(\w+)\[:\]$`).FindStringSubmatch(nz.s(ce.Args[1]))
			if !ok1 || !ok2 || m == nil || st.cmd == nil || fieldType(st.cmd, m[1]) != fmt.Sprintf("[%d]types.UCHAR", hi-lo) {
				fail(nz.fset, s0, "Marshal: copy into %s is not a whole fixed byte array into a window of its size: %s", id.Name, s)
			}
			add(id.Name, tile{lo: int(lo), hi: int(hi), epoch: st.epoch, text: []string{fmt.Sprintf("$S = append($S, c.%s[:]...)", m[1])}})
			return true
		}
		m := regexp.MustCompile(`^binary\.(Little|Big)Endian\.PutUint(16|32|64)$`).FindStringSubmatch(nz.s(ce.Fun))
		if m == nil {
			return false
		}
		bits, _ := strconv.Atoi(m[2])
		w := bits / 8
		name, lo, hi := "", 0, 0
		switch t := ce.Args[0].(type) {
		case *ast.Ident:
			name, lo, hi = t.Name, 0, w
		case *ast.SliceExpr:
			id, ok := t.X.(*ast.Ident)
			if !ok || t.Max != nil {
				return false
			}
			name = id.Name
			if st.bufs[name] == nil {
				return false
			}
			if t.Low != nil {
				v, ok := nz.constInt(t.Low, nil)
				if !ok {
					fail(nz.fset, s0, "Marshal: write into %s at an offset that is not a constant", name)
				}
				lo = int(v)
			}
			hi = lo + w
			if t.High != nil {
				v, ok := nz.constInt(t.High, nil)
				if !ok || int(v) != hi {
					fail(nz.fset, s0, "Marshal: PutUint%d into a window of %s that is not %d bytes wide", bits, name, w)
				}
			}
		default:
			return false
		}
		if st.bufs[name] == nil {
			return false
		}
		if name == nz.s(ce.Args[0]) && st.bufs[name].n != w {
			fail(nz.fset, s0, "Marshal: PutUint%d into the whole %d-byte buffer %s", bits, st.bufs[name].n, name)
		}
		arg := nz.printNode(ce.Args[1])
		add(name, tile{lo: lo, hi: hi, epoch: st.epoch, text: []string{
			fmt.Sprintf("$B := make([]byte, %d)", w),
			fmt.Sprintf("binary.%sEndian.PutUint%d($B, %s)", m[1], bits, arg),
			"$S = append($S, $B...)"}})
		return true
	}
	if as, ok := s0.(*ast.AssignStmt); ok && as.Tok == token.ASSIGN && len(as.Lhs) == 1 && len(as.Rhs) == 1 {
		ix, ok := as.Lhs[0].(*ast.IndexExpr)
		if !ok {
			return false
		}
		id, ok := ix.X.(*ast.Ident)
		if !ok || st.bufs[id.Name] == nil {
			return false
		}
		i, ok := nz.constInt(ix.Index, nil)
		if !ok {
			fail(nz.fset, s0, "Marshal: write into %s at an index that is not a constant", id.Name)
		}
		m := regexp.MustCompile(`^(?:byte|uint8|types\.UCHAR)\((c\.\w+)\)$`).FindStringSubmatch(nz.s(as.Rhs[0]))
		if m == nil {
			fail(nz.fset, s0, "Marshal: byte written into %s is not a converted field: %s", id.Name, s)
		}
		add(id.Name, tile{lo: int(i), hi: int(i) + 1, epoch: st.epoch, text: []string{fmt.Sprintf("$S = append($S, types.UCHAR(%s))", m[1])}})
		return true
	}
	return false
}

// bufEmit: the canonical appends for a whole fixed buffer, in offset order; the writes must tile it exactly
func (nz *normaliser) bufEmit(at ast.Stmt, name, stream string, st *mstate) []string {
	b := st.bufs[name]
	tiles := append([]tile{}, b.tiles...)
	sort.Slice(tiles, func(i, j int) bool { return tiles[i].lo < tiles[j].lo })
	pos := 0
	var out []string
	rePutElem := regexp.MustCompile(`^binary\.(Little|Big)Endian\.PutUint(16|32|64)\(\$B, uint(16|32|64)\(c\.(\w+)\[(\d+)\]\)\)$`)
	for ti := 0; ti < len(tiles); ti++ {
		t := tiles[ti]
		// M11: the run uintW(c.F[0]) … uintW(c.F[n-1]) is the dialect's loop over c.F
		if len(t.text) == 3 {
			if m := rePutElem.FindStringSubmatch(t.text[1]); m != nil && m[5] == "0" && m[2] == m[3] {
				n, _ := fixedArrayLen(st.cmd, m[4])
				run := n > 0 && ti+n <= len(tiles)
				for k := 0; run && k < n; k++ {
					tk := tiles[ti+k]
					mk := rePutElem.FindStringSubmatch(strings.Join(tk.text[1:2], ""))
					if len(tk.text) != 3 || mk == nil || mk[1] != m[1] || mk[2] != m[2] || mk[3] != m[3] || mk[4] != m[4] || mk[5] != strconv.Itoa(k) ||
						tk.lo != t.lo+k*(t.hi-t.lo) || tk.hi-tk.lo != t.hi-t.lo || st.stale(tk) {
						run = false
					}
				}
				if run && t.lo == pos {
					nb, v := nz.fresh("buf", st.used), nz.fresh("elem", st.used)
					out = append(out, fmt.Sprintf("for _, %s := range c.%s {\n%s := make([]byte, %d)\nbinary.%sEndian.PutUint%s(%s, uint%s(%s))\n%s = append(%s, %s...)\n}",
						v, m[4], nb, t.hi-t.lo, m[1], m[2], nb, m[3], v, stream, stream, nb))
					pos = tiles[ti+n-1].hi
					ti += n - 1
					continue
				}
			}
		}
		if t.lo != pos {
			fail(nz.fset, at, "Marshal: bytes [%d,%d) of the buffer %s are never written (the writes must tile it exactly)", pos, t.lo, name)
		}
		if st.stale(t) {
			fail(nz.fset, at, "Marshal: a statement that may change a field it reads stands between a write into %s and its use", name)
		}
		nb := nz.fresh("buf", st.used)
		for _, line := range t.text {
			out = append(out, strings.NewReplacer("$B", nb, "$S", stream).Replace(line))
		}
		pos = t.hi
	}
	if pos != b.n {
		fail(nz.fset, at, "Marshal: bytes [%d,%d) of the buffer %s are never written (the writes must tile it exactly)", pos, b.n, name)
	}
	return out
}

func (nz *normaliser) flushArg(at ast.Stmt, arg, stream string, st *mstate) ([]string, bool) {
	name := strings.TrimSuffix(arg, "[:]")
	if st.bufs[name] == nil {
		return nil, false
	}
	return nz.bufEmit(at, name, stream, st), true
}

// canonEpilogue (M1): the tail from AddWordsFromBytesStream on, with the declaration of marshalledCommand and its two
// appends put where the dialect has them.  The side-effecting statements must already stand in the canonical order.
func (nz *normaliser) canonEpilogue(list []ast.Stmt, st *mstate) []ast.Stmt {
	const decl = `marshalledCommand := []byte{}`
	const ap = `marshalledCommand = append(marshalledCommand, marshalledParameters...)`
	const ad = `marshalledCommand = append(marshalledCommand, marshalledData...)`
	p := -1
	for i, s := range list {
		if rePFlush.MatchString(nz.s(s)) {
			p = i
			break
		}
	}
	if p < 0 {
		return list
	}
	head, tail := list[:p], list[p:]
	var effects []ast.Stmt
	var sDecl, sAp, sAd ast.Stmt
	for _, s := range tail {
		switch nz.s(s) {
		case decl:
			if sDecl != nil {
				return list
			}
			sDecl = s
		case ap:
			if sAp != nil || sAd != nil {
				return list
			}
			sAp = s
		case ad:
			if sAd != nil || sAp == nil {
				return list
			}
			sAd = s
		default:
			effects = append(effects, s)
		}
	}
	if sAp == nil || sAd == nil || len(effects) != 7 {
		return list
	}
	// effects: PFlush, P.Marshal, check, DFlush, D.Marshal, check, return — verified verbatim by the recogniser
	var out []ast.Stmt
	if sDecl != nil {
		out = append(out, sDecl)
		out = append(out, head...)
	} else {
		// the declaration may stand anywhere in the head: the dialect has it first
		idx := -1
		for i, s := range head {
			if nz.s(s) == decl {
				idx = i
				break
			}
		}
		if idx > 0 {
			out = append(out, head[idx])
			out = append(out, head[:idx]...)
			out = append(out, head[idx+1:]...)
		} else {
			out = append(out, head...)
		}
	}
	out = append(out, effects[0], effects[1], effects[2], sAp, effects[3], effects[4], effects[5], sAd, effects[6])
	return out
}

// ---------------------------------------------------------------------------------------------
// Unmarshal

func (nz *normaliser) normUnmarshal(fd *ast.FuncDecl, c *jCmd) []ast.Stmt {
	nz.cur = c
	list := fd.Body.List
	orig := list
	list = nz.unmarshalAccessors(fd, list)
	list = nz.splitIfInit(list)
	list = nz.mapBlocks(list, nz.elseReturn)
	list = nz.exprClosures(fd, list)
	list = nz.inlineCalls(fd, list)
	list = nz.cursor(fd, list)
	list = nz.tableLoops(fd, list)
	list = nz.constCursor(list)
	list = nz.shrinkingSlice(list)
	list = nz.mapBlocks(list, nz.intTemps)
	list = nz.mapBlocks(list, nz.cursorForms)
	list = nz.mapBlocks(list, nz.guardForms)
	list = nz.mapBlocks(list, nz.indexedTemps)
	list = nz.mapBlocks(list, nz.sliceTemps)
	list = nz.mapBlocks(list, nz.byteAssembly)
	list = nz.mapBlocks(list, nz.hoistedBound)
	list = nz.deadAdvance(list)
	list = nz.header(list)
	if sameStmts(list, orig) {
		return orig
	}
	return nz.tidy(list)
}

// tidy: synthesised statements are printed and parsed once more, so that the printer lays them out as it lays out source
// text (its spacing depends on node positions, which substituted nodes do not have)
func (nz *normaliser) tidy(list []ast.Stmt) []ast.Stmt {
	out := make([]ast.Stmt, len(list))
	for i, s := range list {
		if _, synth := originPos[s]; synth {
			flatten(s, posOf(s))
			out[i] = nz.parseStmts(nz.printNode(s), posOf(s))[0]
		} else {
			out[i] = s
		}
	}
	return out
}

// mapBlocks applies f to the list and to every nested block (if / for / range bodies)
func (nz *normaliser) mapBlocks(list []ast.Stmt, f func([]ast.Stmt) []ast.Stmt) []ast.Stmt {
	out := make([]ast.Stmt, 0, len(list))
	for _, s := range list {
		var body *ast.BlockStmt
		switch t := s.(type) {
		case *ast.IfStmt:
			if t.Else == nil {
				body = t.Body
			}
		case *ast.ForStmt:
			body = t.Body
		case *ast.RangeStmt:
			body = t.Body
		}
		if body != nil {
			nb := nz.mapBlocks(body.List, f)
			if !sameStmts(nb, body.List) {
				cp := nz.clone(s)
				switch t := cp.(type) {
				case *ast.IfStmt:
					t.Body.List = nb
				case *ast.ForStmt:
					t.Body.List = nb
				case *ast.RangeStmt:
					t.Body.List = nb
				}
				s = cp
			}
		}
		out = append(out, s)
	}
	return f(out)
}

// U1
func (nz *normaliser) splitIfInit(list []ast.Stmt) []ast.Stmt {
	return nz.mapBlocks(list, func(l []ast.Stmt) []ast.Stmt {
		var out []ast.Stmt
		changed := false
		for _, s := range l {
			if is, ok := s.(*ast.IfStmt); ok && is.Init != nil && is.Else == nil {
				if as, ok := is.Init.(*ast.AssignStmt); ok && (as.Tok == token.ASSIGN || onlyErrDefined(as)) {
					cp := nz.clone(s).(*ast.IfStmt)
					init := cp.Init
					cp.Init = nil
					out = append(out, init, cp)
					changed = true
					continue
				}
			}
			out = append(out, s)
		}
		if !changed {
			return l
		}
		return out
	})
}

// U7
func (nz *normaliser) elseReturn(l []ast.Stmt) []ast.Stmt {
	neg := map[token.Token]token.Token{token.LSS: token.GEQ, token.GEQ: token.LSS, token.GTR: token.LEQ, token.LEQ: token.GTR, token.EQL: token.NEQ, token.NEQ: token.EQL}
	endsInReturn := func(b *ast.BlockStmt) bool {
		if len(b.List) != 1 {
			return false
		}
		_, ok := b.List[0].(*ast.ReturnStmt)
		return ok
	}
	defines := func(b *ast.BlockStmt) bool {
		d := false
		for _, s := range b.List {
			switch t := s.(type) {
			case *ast.AssignStmt:
				d = d || t.Tok == token.DEFINE
			case *ast.DeclStmt:
				d = true
			}
		}
		return d
	}
	var out []ast.Stmt
	changed := false
	for _, s := range l {
		is, ok := s.(*ast.IfStmt)
		if ok && is.Init == nil && is.Else != nil {
			if eb, ok := is.Else.(*ast.BlockStmt); ok {
				be, isCmp := is.Cond.(*ast.BinaryExpr)
				switch {
				case endsInReturn(is.Body) && !defines(eb):
					// if C { return … } else { A }  =  if C { return … }; A
					cp := nz.clone(s).(*ast.IfStmt)
					rest := cp.Else.(*ast.BlockStmt).List
					cp.Else = nil
					out = append(out, cp)
					out = append(out, rest...)
					changed = true
					continue
				case endsInReturn(eb) && !defines(is.Body) && isCmp && neg[be.Op] != 0:
					// if a < b { A } else { return … }  =  if a >= b { return … }; A
					cp := nz.clone(s).(*ast.IfStmt)
					cp.Cond.(*ast.BinaryExpr).Op = neg[be.Op]
					rest := cp.Body.List
					cp.Body = cp.Else.(*ast.BlockStmt)
					cp.Else = nil
					out = append(out, cp)
					out = append(out, rest...)
					changed = true
					continue
				}
			}
		}
		out = append(out, s)
	}
	if !changed {
		return l
	}
	return out
}

// U3
func (nz *normaliser) guardForms(l []ast.Stmt) []ast.Stmt {
	var out []ast.Stmt
	changed := false
	for _, s := range l {
		if is, ok := s.(*ast.IfStmt); ok && is.Init == nil && is.Else == nil {
			if be, ok := is.Cond.(*ast.BinaryExpr); ok {
				nc := ""
				switch be.Op {
				case token.LSS: // len(b)-off < n
					if sub, ok := be.X.(*ast.BinaryExpr); ok && sub.Op == token.SUB && regexp.MustCompile(`^len\(\w+\)$`).MatchString(nz.s(sub.X)) {
						if _, isId := sub.Y.(*ast.Ident); isId {
							nc = fmt.Sprintf("%s < %s+%s", nz.s(sub.X), nz.s(sub.Y), nz.operand(be.Y))
						}
					}
				case token.GEQ: // off+n >= len(b)+1 is not written; len(b) >= off+n is the negated guard and has no early return
				case token.GTR: // off+n > len(b)
					if add, ok := be.X.(*ast.BinaryExpr); ok && add.Op == token.ADD && regexp.MustCompile(`^len\(\w+\)$`).MatchString(nz.s(be.Y)) {
						if _, isId := add.X.(*ast.Ident); isId {
							nc = fmt.Sprintf("%s < %s+%s", nz.s(be.Y), nz.s(add.X), nz.operand(add.Y))
						}
					}
				}
				if nc != "" {
					cp := nz.clone(s).(*ast.IfStmt)
					cp.Cond = nz.parseExprText(nc)
					out = append(out, cp)
					changed = true
					continue
				}
			}
		}
		out = append(out, s)
	}
	if !changed {
		return l
	}
	return out
}

func (nz *normaliser) operand(e ast.Expr) string {
	switch t := e.(type) {
	case *ast.BinaryExpr:
		if t.Op != token.MUL {
			return "(" + nz.s(e) + ")"
		}
	}
	return nz.s(e)
}

var reCursorStep = regexp.MustCompile(`^(\w+)(?: \+= \d+|\+\+)$`)

// U4
func (nz *normaliser) sliceTemps(l []ast.Stmt) []ast.Stmt {
	out := append([]ast.Stmt{}, l...)
	changed := false
	for i := 0; i < len(out); i++ {
		as, ok := out[i].(*ast.AssignStmt)
		if !ok || len(as.Lhs) != 1 || len(as.Rhs) != 1 || (as.Tok != token.DEFINE && as.Tok != token.ASSIGN) {
			continue
		}
		t, ok := as.Lhs[0].(*ast.Ident)
		if !ok {
			continue
		}
		se, ok := as.Rhs[0].(*ast.SliceExpr)
		if !ok || se.Max != nil {
			continue
		}
		if _, ok := se.X.(*ast.Ident); !ok {
			continue
		}
		// the cursor: the identifiers of the bounds
		cur := map[string]bool{}
		for _, b := range []ast.Expr{se.Low, se.High} {
			if b != nil {
				for n := range identsOf(b) {
					cur[n] = true
				}
			}
		}
		j := i + 1
		for j < len(out) {
			m := reCursorStep.FindStringSubmatch(nz.s(out[j]))
			if m == nil || !cur[m[1]] {
				break
			}
			j++
		}
		if j >= len(out) || countIdent(out[j], t.Name) != 1 {
			continue
		}
		use := out[j]
		if _, isAssign := use.(*ast.AssignStmt); !isAssign {
			continue
		}
		mentionsCursor := false
		for n := range cur {
			if countIdent(use, n) > 0 {
				mentionsCursor = true
			}
		}
		if mentionsCursor || nz.assignCount(use, t.Name) > 0 {
			continue
		}
		// t must be dead afterwards: not read again before it is assigned again
		dead := true
		for k := j + 1; k < len(out); k++ {
			if as2, ok := out[k].(*ast.AssignStmt); ok && len(as2.Lhs) >= 1 {
				if id, ok := as2.Lhs[0].(*ast.Ident); ok && id.Name == t.Name {
					n := 0
					for _, r := range as2.Rhs {
						n += countIdent(r, t.Name)
					}
					if n == 0 {
						break
					}
				}
			}
			if countIdent(out[k], t.Name) > 0 {
				dead = false
				break
			}
		}
		if !dead {
			continue
		}
		nu := nz.clone(use)
		nz.substIdents(nu, map[string]string{t.Name: nz.printNode(se)})
		res := append([]ast.Stmt{}, out[:i]...)
		res = append(res, nu)
		res = append(res, out[i+1:j]...)
		res = append(res, out[j+1:]...)
		out = res
		changed = true
	}
	if !changed {
		return l
	}
	return out
}

// U5 cursor
func (nz *normaliser) cursor(fd *ast.FuncDecl, list []ast.Stmt) []ast.Stmt {
	if len(list) == 0 {
		return list
	}
	names := map[string]bool{}
	okShape := true
	for _, s := range list {
		ast.Inspect(s, func(x ast.Node) bool {
			switch t := x.(type) {
			case *ast.FuncLit:
				return false
			case *ast.ReturnStmt:
				if len(t.Results) != 2 {
					okShape = false
					return true
				}
				switch r := t.Results[0].(type) {
				case *ast.Ident:
					names[r.Name] = true
				case *ast.BasicLit:
					if r.Value != "0" {
						okShape = false
					}
				default:
					okShape = false
				}
			}
			return true
		})
	}
	if !okShape || len(names) > 1 {
		return list
	}
	cur := "offset"
	for n := range names {
		cur = n
	}
	changed := false
	if cur != "offset" {
		for _, s := range list {
			if countIdent(s, "offset") > 0 {
				return list
			}
		}
		nl := make([]ast.Stmt, len(list))
		for i, s := range list {
			if countIdent(s, cur) > 0 {
				cp := nz.clone(s)
				nz.substIdents(cp, map[string]string{cur: "offset"})
				nl[i] = cp
			} else {
				nl[i] = s
			}
		}
		list, changed = nl, true
	}
	if nz.s(list[0]) != `offset := 0` {
		// a later declaration at the top level: nothing before it can mention the cursor
		for i, s := range list {
			if nz.s(s) == `offset := 0` {
				nl := nz.parseStmts("offset := 0", posOf(list[0]))
				nl = append(nl, list[:i]...)
				nl = append(nl, nz.parseStmts("offset = 0", posOf(s))...)
				nl = append(nl, list[i+1:]...)
				list, changed = nl, true
				break
			}
		}
		if !changed || nz.s(list[0]) != `offset := 0` {
			// no cursor at all (every return hands back 0): declare one
			if len(names) == 0 {
				nl := nz.parseStmts("offset := 0", posOf(list[0]))
				list, changed = append(nl, list...), true
			}
		}
	}
	last := list[len(list)-1]
	if nz.s(last) == `return 0, nil` {
		nl := append([]ast.Stmt{}, list[:len(list)-1]...)
		nl = append(nl, nz.parseStmts("offset = 0\nreturn offset, nil", posOf(last))...)
		list, changed = nl, true
	}
	_ = changed
	return list
}

// U5 header: the two pure getters may be absent
func (nz *normaliser) header(list []ast.Stmt) []ast.Stmt {
	var out []ast.Stmt
	reUn := regexp.MustCompile(`^(?:bytesRead, err :=|_, err =) c\.Get(Parameters|Data)\(\)\.Unmarshal\(`)
	reGet := regexp.MustCompile(`^\w+ :?= c\.Get(Parameters|Data)\(\)\.GetBytes\(\)$`)
	for i := 0; i < len(list); i++ {
		out = append(out, list[i])
		if m := reUn.FindStringSubmatch(nz.s(list[i])); m != nil && i+1 < len(list) && nz.s(list[i+1]) == `if err != nil { return 0, err }` {
			out = append(out, list[i+1])
			i++
			if i+1 >= len(list) || !reGet.MatchString(nz.s(list[i+1])) {
				out = append(out, nz.parseStmts(fmt.Sprintf("_ = c.Get%s().GetBytes()", m[1]), posOf(list[i]))...)
			}
		}
	}
	if len(out) == len(list) {
		return list
	}
	return out
}

// ---- U2 inlining

type callee struct {
	name    string
	params  []string
	nres    int
	body    *ast.BlockStmt
	closure bool
}

func (nz *normaliser) calleeOf(name string, ft *ast.FuncType, body *ast.BlockStmt, closure bool) *callee {
	c := &callee{name: name, body: body, closure: closure}
	for _, f := range ft.Params.List {
		if len(f.Names) == 0 {
			return nil
		}
		if _, variadic := f.Type.(*ast.Ellipsis); variadic {
			return nil
		}
		for _, n := range f.Names {
			c.params = append(c.params, n.Name)
		}
	}
	if ft.Results == nil {
		return nil
	}
	for _, f := range ft.Results.List {
		if len(f.Names) != 0 {
			return nil // named results: not handled
		}
		c.nres++
	}
	if c.nres < 1 || nz.s(ft.Results.List[len(ft.Results.List)-1].Type) != "error" {
		return nil
	}
	return c
}

func (nz *normaliser) inlineCalls(fd *ast.FuncDecl, list []ast.Stmt) []ast.Stmt {
	callees := map[string]*callee{}
	// local closures declared at the top level, assigned once, only ever called
	var rest []ast.Stmt
	for _, s := range list {
		if as, ok := s.(*ast.AssignStmt); ok && as.Tok == token.DEFINE && len(as.Lhs) == 1 && len(as.Rhs) == 1 {
			if fl, ok := as.Rhs[0].(*ast.FuncLit); ok {
				id := as.Lhs[0].(*ast.Ident)
				if cl := nz.calleeOf(id.Name, fl.Type, fl.Body, true); cl != nil && nz.assignCount(fd.Body, id.Name) == 1 {
					callees[id.Name] = cl
					continue
				}
			}
		}
		rest = append(rest, s)
	}
	// helpers of the package that the body calls
	ast.Inspect(fd.Body, func(x ast.Node) bool {
		if ce, ok := x.(*ast.CallExpr); ok {
			if id, ok := ce.Fun.(*ast.Ident); ok && callees[id.Name] == nil {
				if h, ok := nz.helpers[id.Name]; ok && !ast.IsExported(id.Name) {
					if cl := nz.calleeOf(id.Name, h.Type, h.Body, false); cl != nil {
						callees[id.Name] = cl
					}
				}
			}
		}
		return true
	})
	if len(callees) == 0 {
		return list
	}
	used := map[string]bool{}
	for n := range identsOf(fd.Body) {
		used[n] = true
	}
	changed := false
	var inl func(l []ast.Stmt) []ast.Stmt
	inl = func(l []ast.Stmt) []ast.Stmt {
		var out []ast.Stmt
		for i := 0; i < len(l); i++ {
			as, ok := l[i].(*ast.AssignStmt)
			if ok && len(as.Rhs) == 1 && i+1 < len(l) {
				if ce, ok := as.Rhs[0].(*ast.CallExpr); ok {
					if id, ok := ce.Fun.(*ast.Ident); ok && callees[id.Name] != nil {
						if res, ok := nz.inlineOne(callees[id.Name], as, ce, l[i+1], used, fd); ok {
							out = append(out, res...)
							i++
							changed = true
							continue
						}
						fail(nz.fset, l[i], "call of %s cannot be inlined (see U2 in smb_normalise.go): %s", id.Name, nz.s(l[i]))
					}
				}
			}
			out = append(out, l[i])
		}
		return out
	}
	res := nz.mapBlocks(rest, inl)
	if !changed && len(rest) == len(list) {
		return list
	}
	// any remaining mention of a closure is not understood
	for _, s := range res {
		for n, cl := range callees {
			if cl.closure && countIdent(s, n) > 0 {
				fail(nz.fset, s, "closure %s is used other than in `…, err = %s(…); if err != nil { return …, err }`", n, n)
			}
		}
	}
	return res
}

func (nz *normaliser) nonNilError(e ast.Expr, underErrCheck bool) bool {
	if ce, ok := e.(*ast.CallExpr); ok {
		f := nz.s(ce.Fun)
		return f == "fmt.Errorf" || f == "errors.New"
	}
	if id, ok := e.(*ast.Ident); ok && id.Name == "err" {
		return underErrCheck
	}
	return false
}

func (nz *normaliser) inlineOne(cl *callee, call *ast.AssignStmt, ce *ast.CallExpr, check ast.Stmt, used map[string]bool, fd *ast.FuncDecl) ([]ast.Stmt, bool) {
	// caller shape
	if len(call.Lhs) != cl.nres || len(ce.Args) != len(cl.params) || ce.Ellipsis != token.NoPos {
		return nil, false
	}
	if nz.s(call.Lhs[cl.nres-1]) != "err" {
		return nil, false
	}
	is, ok := check.(*ast.IfStmt)
	if !ok || is.Init != nil || is.Else != nil || nz.s(is.Cond) != "err != nil" || len(is.Body.List) != 1 {
		return nil, false
	}
	cret, ok := is.Body.List[0].(*ast.ReturnStmt)
	if !ok || len(cret.Results) == 0 || nz.s(cret.Results[len(cret.Results)-1]) != "err" {
		return nil, false
	}
	for _, r := range cret.Results[:len(cret.Results)-1] {
		if countIdent(r, "err") > 0 {
			return nil, false
		}
	}
	// fresh copy of the body; local constants evaluated
	body := nz.parseStmts(strings.TrimSuffix(strings.TrimPrefix(strings.TrimSpace(nz.printNode(cl.body)), "{"), "}"), posOf(call))
	localConst := map[string]string{}
	var stmts []ast.Stmt
	for _, s := range body {
		if ds, ok := s.(*ast.DeclStmt); ok {
			if gd := ds.Decl.(*ast.GenDecl); gd.Tok == token.CONST {
				for _, sp := range gd.Specs {
					vs := sp.(*ast.ValueSpec)
					for i, n := range vs.Names {
						if i >= len(vs.Values) {
							return nil, false
						}
						v, ok := nz.constInt(vs.Values[i], nil)
						if !ok {
							return nil, false
						}
						localConst[n.Name] = strconv.FormatInt(v, 10)
					}
				}
				continue
			}
		}
		stmts = append(stmts, s)
	}
	blk := &ast.BlockStmt{List: stmts}
	nz.substIdents(blk, localConst)
	if len(blk.List) == 0 {
		return nil, false
	}
	// returns: classify
	type retInfo struct {
		st      *ast.ReturnStmt
		success bool
	}
	var rets []retInfo
	okShape := true
	var walk func(l []ast.Stmt, underErr bool, top bool)
	walk = func(l []ast.Stmt, underErr bool, top bool) {
		for i, s := range l {
			switch t := s.(type) {
			case *ast.ReturnStmt:
				if len(t.Results) != cl.nres {
					okShape = false
					return
				}
				last := t.Results[cl.nres-1]
				if nz.s(last) == "nil" {
					if !top || i != len(l)-1 {
						okShape = false
					}
					rets = append(rets, retInfo{t, true})
				} else if nz.nonNilError(last, underErr) {
					rets = append(rets, retInfo{t, false})
				} else {
					okShape = false
				}
			case *ast.IfStmt:
				if t.Else != nil {
					okShape = false
					return
				}
				walk(t.Body.List, t.Init == nil && nz.s(t.Cond) == "err != nil", false)
			case *ast.ForStmt:
				walk(t.Body.List, false, false)
			case *ast.RangeStmt:
				walk(t.Body.List, false, false)
			case *ast.BlockStmt, *ast.SwitchStmt, *ast.TypeSwitchStmt, *ast.SelectStmt, *ast.LabeledStmt, *ast.GoStmt, *ast.DeferStmt, *ast.BranchStmt:
				okShape = false
			default:
				ast.Inspect(s, func(x ast.Node) bool {
					if _, ok := x.(*ast.FuncLit); ok {
						okShape = false
					}
					return true
				})
			}
		}
	}
	walk(blk.List, false, true)
	if !okShape || len(rets) == 0 || !rets[len(rets)-1].success {
		return nil, false
	}
	nsucc := 0
	for _, r := range rets {
		if r.success {
			nsucc++
		}
	}
	if nsucc != 1 {
		return nil, false
	}
	final := rets[len(rets)-1].st
	// callee locals
	locals := map[string]bool{}
	ast.Inspect(blk, func(x ast.Node) bool {
		switch t := x.(type) {
		case *ast.AssignStmt:
			if t.Tok == token.DEFINE {
				for _, l := range t.Lhs {
					if id, ok := l.(*ast.Ident); ok && id.Name != "_" {
						locals[id.Name] = true
					}
				}
			}
		case *ast.RangeStmt:
			if t.Tok == token.DEFINE {
				for _, e := range []ast.Expr{t.Key, t.Value} {
					if id, ok := e.(*ast.Ident); ok && id.Name != "_" {
						locals[id.Name] = true
					}
				}
			}
		case *ast.DeclStmt:
			if gd, ok := t.Decl.(*ast.GenDecl); ok {
				for _, sp := range gd.Specs {
					if vs, ok := sp.(*ast.ValueSpec); ok {
						for _, n := range vs.Names {
							locals[n.Name] = true
						}
					}
				}
			}
		}
		return true
	})
	isParam := map[string]int{}
	for i, p := range cl.params {
		isParam[p] = i
		if locals[p] {
			return nil, false // a parameter redeclared inside: keep it simple
		}
	}
	subst := map[string]string{}
	// result positions
	callerRet := cret.Results[:len(cret.Results)-1]
	for j := 0; j < cl.nres-1; j++ {
		L := nz.s(call.Lhs[j])
		if L == "_" {
			continue
		}
		sv, ok := final.Results[j].(*ast.Ident)
		if !ok {
			return nil, false
		}
		allSame := true
		for _, r := range rets {
			if nz.s(r.st.Results[j]) != sv.Name {
				allSame = false
			}
		}
		if pi, isP := isParam[sv.Name]; isP {
			// by reference: the argument is the receiving variable itself
			if !allSame || nz.s(ce.Args[pi]) != L {
				return nil, false
			}
			if _, isId := ce.Args[pi].(*ast.Ident); !isId {
				return nil, false
			}
			continue // handled with the parameters below
		}
		if !locals[sv.Name] {
			return nil, false
		}
		if !allSame {
			// the receiver must be a local of the caller that is dead on its error path
			id, isId := call.Lhs[j].(*ast.Ident)
			if !isId {
				return nil, false
			}
			for _, r := range callerRet {
				if countIdent(r, id.Name) > 0 {
					return nil, false
				}
			}
			for _, p := range fd.Type.Params.List {
				for _, n := range p.Names {
					if n.Name == id.Name {
						return nil, false
					}
				}
			}
		}
		if prev, dup := subst[sv.Name]; dup && prev != L {
			return nil, false
		}
		// a closure must not see the receiver under its own name as well
		if cl.closure && countIdent(blk, strings.SplitN(L, ".", 2)[0]) > 0 && strings.Contains(L, ".") {
			base := L
			if strings.Contains(nz.s(blk), base) {
				return nil, false
			}
		}
		subst[sv.Name] = L
	}
	// parameters
	for i, p := range cl.params {
		arg := ce.Args[i]
		assigned := nz.assignCount(blk, p) > 0
		if assigned {
			id, isId := arg.(*ast.Ident)
			if !isId {
				return nil, false
			}
			// every return must hand p back into the same variable
			okRef := false
			for j := 0; j < cl.nres-1; j++ {
				if nz.s(call.Lhs[j]) == id.Name {
					all := true
					for _, r := range rets {
						if nz.s(r.st.Results[j]) != p {
							all = false
						}
					}
					okRef = all
				}
			}
			// `x, off, err := f(b, off)` assigns the existing `off` only in the scope that declares it: the function's top level
			topLevel := false
			for _, s := range fd.Body.List {
				if s == ast.Stmt(call) {
					topLevel = true
				}
			}
			if !okRef || (call.Tok != token.ASSIGN && !topLevel) {
				return nil, false
			}
			subst[p] = id.Name
			continue
		}
		if ue, isAddr := arg.(*ast.UnaryExpr); isAddr && ue.Op == token.AND && nz.pureOperand(ue.X) {
			// a pointer to a field, only ever dereferenced by the callee: `*p` is the field itself
			if !nz.onlyDereferenced(blk, p) {
				return nil, false
			}
			target := nz.printNode(ue.X)
			rewriteExprs(blk, func(e ast.Expr) (ast.Expr, bool) {
				if st, ok := e.(*ast.StarExpr); ok {
					if id, ok := st.X.(*ast.Ident); ok && id.Name == p {
						return nz.parseExprText(target), true
					}
				}
				return nil, false
			})
			continue
		}
		if _, isLit := arg.(*ast.BasicLit); !isLit && !nz.pureOperand(arg) {
			return nil, false
		}
		// the argument's value must not change while the callee runs: none of its variables is assigned by the callee
		for n := range identsOf(arg) {
			if nz.assignCount(blk, n) > 0 && subst[n] == "" {
				if !locals[n] { // a closure assigning a captured variable the argument reads
					return nil, false
				}
			}
		}
		// … and none of the fields it reads
		bad := false
		ast.Inspect(blk, func(x ast.Node) bool {
			switch t := x.(type) {
			case *ast.AssignStmt:
				for _, l := range t.Lhs {
					if _, isId := l.(*ast.Ident); !isId && strings.Contains(nz.s(arg), strings.SplitN(nz.s(l), "[", 2)[0]) {
						bad = true
					}
				}
			case *ast.IncDecStmt:
				if _, isId := t.X.(*ast.Ident); !isId && strings.Contains(nz.s(arg), nz.s(t.X)) {
					bad = true
				}
			}
			return true
		})
		if bad {
			return nil, false
		}
		subst[p] = nz.printNode(arg)
	}
	// argument expressions must not read what a renamed result writes (`c.Unlocks` vs `c.NumberOfRequestedUnlocks` is fine)
	for _, L := range subst {
		if strings.Contains(L, ".") {
			for i, a := range ce.Args {
				if nz.assignCount(blk, cl.params[i]) == 0 && regexp.MustCompile(regexp.QuoteMeta(L)+`\b`).MatchString(nz.s(a)) {
					return nil, false
				}
			}
		}
	}
	// other locals declared at the callee's top level that clash with names of the caller get fresh names
	for _, s := range blk.List {
		if as, ok := s.(*ast.AssignStmt); ok && as.Tok == token.DEFINE {
			for _, l := range as.Lhs {
				if id, ok := l.(*ast.Ident); ok && id.Name != "_" && id.Name != "err" && subst[id.Name] == "" && used[id.Name] && !cl.closure {
					subst[id.Name] = nz.fresh(id.Name, used)
				} else if ok && cl.closure && id.Name != "_" && id.Name != "err" && subst[id.Name] == "" && countIdent(fd.Body, id.Name) > countIdent(cl.body, id.Name) {
					subst[id.Name] = nz.fresh(id.Name, used)
				}
			}
		}
	}
	// error returns become the caller's return
	var rewriteRets func(l []ast.Stmt)
	rewriteRets = func(l []ast.Stmt) {
		for i, s := range l {
			switch t := s.(type) {
			case *ast.ReturnStmt:
				if t == final {
					continue
				}
				l[i] = nz.makeCallerReturn(callerRet, t.Results[cl.nres-1], subst)
				originPos[l[i]] = posOf(call)
			case *ast.IfStmt:
				rewriteRets(t.Body.List)
			case *ast.ForStmt:
				rewriteRets(t.Body.List)
			case *ast.RangeStmt:
				rewriteRets(t.Body.List)
			}
		}
	}
	// substitute first (callee names), then plant the caller's returns (caller names, untouched)
	nz.substIdents(blk, subst)
	rewriteRets(blk.List)
	out := blk.List[:len(blk.List)-1] // drop the final `return …, nil`
	// self-assignments left by the renaming are dropped
	return out, true
}

// makeCallerReturn: `return R…, E` with the caller's R and the callee's (already substituted) error expression
func (nz *normaliser) makeCallerReturn(callerRet []ast.Expr, e ast.Expr, subst map[string]string) ast.Stmt {
	var parts []string
	for _, r := range callerRet {
		parts = append(parts, nz.printNode(r))
	}
	parts = append(parts, nz.printNode(e))
	return nz.parseStmts("return "+strings.Join(parts, ", "), token.NoPos)[0]
}

// ---- U6 hoisted element bound

// fixedDecodeSize: K when every `return` of (*types.T).Unmarshal is either `return K, nil` with one literal K or an
// error return; 0 otherwise.
func (nz *normaliser) fixedDecodeSize(typ string) int {
	if v, ok := nz.fixed[typ]; ok {
		return v
	}
	nz.fixed[typ] = 0
	files, _ := filepath.Glob(filepath.Join(nz.repo, "network/smb/smb_v10/types", "*.go"))
	for _, f := range files {
		if strings.HasSuffix(f, "_test.go") {
			continue
		}
		data, err := os.ReadFile(f)
		if err != nil || !bytes.Contains(data, []byte(typ+") Unmarshal(")) {
			continue
		}
		af, err := parser.ParseFile(token.NewFileSet(), f, data, parser.SkipObjectResolution)
		if err != nil {
			continue
		}
		for _, d := range af.Decls {
			fd, ok := d.(*ast.FuncDecl)
			if !ok || fd.Recv == nil || fd.Name.Name != "Unmarshal" || fd.Body == nil {
				continue
			}
			var b bytes.Buffer
			printer.Fprint(&b, token.NewFileSet(), fd.Recv.List[0].Type)
			if strings.TrimPrefix(b.String(), "*") != typ {
				continue
			}
			k, ok := 0, true
			ast.Inspect(fd.Body, func(x ast.Node) bool {
				switch t := x.(type) {
				case *ast.FuncLit:
					ok = false
				case *ast.ReturnStmt:
					if len(t.Results) != 2 {
						ok = false
						return true
					}
					if id, isId := t.Results[1].(*ast.Ident); isId && id.Name == "nil" {
						lit, isLit := t.Results[0].(*ast.BasicLit)
						if !isLit || lit.Kind != token.INT {
							ok = false
							return true
						}
						v, _ := strconv.Atoi(lit.Value)
						if k != 0 && k != v {
							ok = false
						}
						k = v
					} else if ce, isCall := t.Results[1].(*ast.CallExpr); !isCall || (nz.s(ce.Fun) != "fmt.Errorf" && nz.s(ce.Fun) != "errors.New") {
						if id, isId := t.Results[1].(*ast.Ident); !isId || id.Name != "err" {
							ok = false
						}
					}
				}
				return true
			})
			if ok && k > 0 {
				nz.fixed[typ] = k
			}
		}
	}
	return nz.fixed[typ]
}

func (nz *normaliser) hoistedBound(l []ast.Stmt) []ast.Stmt {
	out := l
	for i := 0; i+5 < len(out); i++ {
		// avail := 0
		m0 := regexp.MustCompile(`^(\w+) := 0$`).FindStringSubmatch(nz.s(out[i]))
		if m0 == nil {
			continue
		}
		av := m0[1]
		m1 := regexp.MustCompile(`^if len\((\w+)\) > (\w+) \{ ` + av + ` = \(len\((\w+)\) - (\w+)\) / (\d+) \}$`).FindStringSubmatch(nz.s(out[i+1]))
		if m1 == nil || m1[1] != m1[3] || m1[2] != m1[4] {
			continue
		}
		blk, off := m1[1], m1[2]
		K, _ := strconv.Atoi(m1[5])
		m2 := regexp.MustCompile(`^(\w+) := (.+)$`).FindStringSubmatch(nz.s(out[i+2]))
		if m2 == nil {
			continue
		}
		n, count := m2[1], m2[2]
		if !regexp.MustCompile(`^int\(c\.\w+\)$`).MatchString(count) {
			continue
		}
		if nz.s(out[i+3]) != fmt.Sprintf("if %s < %s { %s = %s }", av, n, n, av) {
			continue
		}
		fs, ok := out[i+4].(*ast.ForStmt)
		if !ok || fs.Init == nil || fs.Cond == nil || fs.Post == nil {
			continue
		}
		mi := regexp.MustCompile(`^(\w+) := ` + n + `$`).FindStringSubmatch(nz.s(fs.Init))
		if mi == nil || nz.s(fs.Cond) != mi[1]+" > 0" || nz.s(fs.Post) != mi[1]+"--" {
			continue
		}
		r := mi[1]
		m5 := regexp.MustCompile(`^if ` + n + ` < ` + regexp.QuoteMeta(count) + ` \{ (return ` + off + `, fmt\.Errorf\(.*\)) \}$`).FindStringSubmatch(nz.s(out[i+5]))
		if m5 == nil {
			continue
		}
		// BODY: mentions none of the clamp's variables, assigns neither the block nor the count, advances by exactly K
		body := fs.Body.List
		okBody := len(body) > 0
		for _, b := range body {
			for _, v := range []string{av, n, r} {
				if countIdent(b, v) > 0 {
					okBody = false
				}
			}
			if nz.assignCount(b, blk) > 0 || strings.Contains(nz.s(b), strings.TrimSuffix(strings.TrimPrefix(count, "int("), ")")+" =") {
				okBody = false
			}
		}
		if !okBody {
			continue
		}
		adv := 0
		steps := 0
		for _, b := range body {
			if nz.assignCount(b, off) > 0 {
				steps++
			}
		}
		lastS := nz.s(body[len(body)-1])
		if lastS == fmt.Sprintf("%s += %d", off, K) {
			adv = K
		} else if lastS == off+" += bytesRead" {
			// bytesRead comes from T.Unmarshal(blk[off:off+K]) of a fixed-size T, in this body, assigned once
			for _, b := range body {
				if mm := regexp.MustCompile(`^bytesRead, err := (\w+)\.Unmarshal\(` + blk + `\[` + off + ` : ` + off + `\+(\d+)\]\)$`).FindStringSubmatch(nz.s(b)); mm != nil {
					win, _ := strconv.Atoi(mm[2])
					for _, d := range body {
						if md := regexp.MustCompile(`^` + mm[1] + ` := types\.(\w+)\{\}$`).FindStringSubmatch(nz.s(d)); md != nil && win == K && nz.fixedDecodeSize(md[1]) == K {
							adv = K
						}
					}
				}
			}
			cnt := 0
			for _, b := range body {
				cnt += nz.assignCount(b, "bytesRead")
			}
			if cnt != 1 {
				adv = 0
			}
		}
		if adv != K || steps != 1 {
			continue
		}
		// no break / continue / goto inside
		bad := false
		ast.Inspect(fs.Body, func(x ast.Node) bool {
			if _, ok := x.(*ast.BranchStmt); ok {
				bad = true
			}
			return true
		})
		if bad {
			continue
		}
		var sb strings.Builder
		fmt.Fprintf(&sb, "for i := 0; i < %s; i++ {\nif len(%s) < %s+%d { %s }\n", count, blk, off, K, m5[1])
		for _, b := range body {
			sb.WriteString(nz.printNode(b))
			sb.WriteString("\n")
		}
		sb.WriteString("}")
		if countIdent(fs.Body, "i") > 0 {
			continue
		}
		res := append([]ast.Stmt{}, out[:i]...)
		res = append(res, nz.parseStmts(sb.String(), posOf(out[i+4]))...)
		res = append(res, out[i+6:]...)
		out = res
	}
	return out
}
