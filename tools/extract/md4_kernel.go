// Fact Md4Kernel: the straight-line uint32 code of crypto/md4/md4.go — the constants, New()'s initial
// state, the helpers rol/ff/gg/hh and the body of processChunk — translated statement by statement into
// Lean `UInt32` definitions (lean/Manticore/Gen/Md4Kernel.lean).
//
// Constants, New() and the helpers are recognised by shape (listed below; anything else aborts with
// file:line).  The body of processChunk is not matched against one spelling: it is RUN by a partial
// evaluator (md4_peval.go — constant folding, loop unrolling, package-level and local tables, registers in
// named locals or in an array, function values resolved to the helpers, the spellings of the word load and of
// the feed-forward), and the straight-line step sequence it performs is written out in one canonical form.
// The 48 unrolled assignments, three loops over tables and one double loop over a table of rounds therefore
// regenerate the same text; a changed shift, word index, bound, argument order, register rotation or helper
// body regenerates a different one (or is refused).
//
//	const name [T] = <int literal | expression over literals and earlier constants>   (chunkSize, init0..init3, …)
//	func New: md4.state[k] = <const name>   for k = 0..3        (nothing else may touch the state)
//	func f(p1, …, pn uint32) uint32 { return <expr> }           expr over + - ^ & | &^ << >>, unary ^, ( ), params,
//	                                                            int literals, constants of the file, calls of such
//	                                                            helpers; its bitwise parts are named by their truth
//	                                                            table and one-line bitwise helpers inlined
//	                                                            (md4_bitfn.go, N9–N11)
//	func (md4 *MD4) processChunk(chunk []byte):                 whatever md4_peval.go can reduce to
//	    v = helper(<register | md4.state[k] on entry | message word | constant>…)   any number of these steps,
//	    md4.state[k] = md4.state[j] on entry + v  (or v)        as final values of the four state words
//	  emitted over the canonical register names a, b, c, d (= md4.state[0..3] on entry) whatever the source
//	  calls them.
//
// Go and Lean agree on `x << s` / `x >> s` for uint32 only when 0 <= s < 32 (Go gives 0 for s >= 32,
// Lean reduces s mod 32), so every shift amount reaching a shift operator is checked to be a literal
// with 0 < s < 32 (and 0 < 32-s < 32 for `32 - s`): the extractor evaluates the shift parameter flow
// symbolically (parameter -> literal at each call site).
package main

import (
	"fmt"
	"go/ast"
	"go/parser"
	"go/token"
	"path/filepath"
	"strconv"
	"strings"
)

func init() { facts["Md4Kernel"] = md4Kernel }

type md4x struct {
	fset    *token.FileSet
	consts  map[string]uint64
	helpers map[string]*ast.FuncDecl // pure uint32 helpers by name
	order   []string

	// translation of one helper body (md4_bitfn.go)
	bctx         *bitCtx           // the helper being emitted: its parameters as truth-table vectors
	deps         []string          // helpers the emitted text calls (emitted first)
	inlined      map[string]bool   // helpers substituted into a caller's boolean part (N10): used, no definition
	bitfns       map[string]string // name of a truth table -> its Lean definition
	bitfnPending []string          // tables named since the last helper was written
}

func (m *md4x) errf(n ast.Node, format string, a ...any) error {
	return fmt.Errorf("%s: %s", m.fset.Position(n.Pos()), fmt.Sprintf(format, a...))
}

func intLit(e ast.Expr) (uint64, bool) {
	bl, ok := e.(*ast.BasicLit)
	if !ok || bl.Kind != token.INT {
		return 0, false
	}
	v, err := strconv.ParseUint(strings.ReplaceAll(bl.Value, "_", ""), 0, 64)
	return v, err == nil
}

// constExpr evaluates the value of a package-level constant: an integer literal, an earlier constant of the file,
// or + - * / % << >> & | over such, with every intermediate result in [0, 2^32) (no negative numbers, no wrap-
// around: inside that range untyped and typed Go constant arithmetic agree).  `const chunkSize = 64` and
// `const chunkSize = 16 * 4` therefore give the same model; iota and anything else are refused.
func (m *md4x) constExpr(e ast.Expr) (uint64, error) {
	switch v := e.(type) {
	case *ast.ParenExpr:
		return m.constExpr(v.X)
	case *ast.BasicLit:
		n, ok := intLit(v)
		if !ok || n > 0xFFFFFFFF {
			return 0, m.errf(e, "not an integer literal below 2^32")
		}
		return n, nil
	case *ast.Ident:
		if n, ok := m.consts[v.Name]; ok {
			return n, nil
		}
		return 0, m.errf(e, "%s is not an earlier constant of the file", v.Name)
	case *ast.BinaryExpr:
		a, err := m.constExpr(v.X)
		if err != nil {
			return 0, err
		}
		b, err := m.constExpr(v.Y)
		if err != nil {
			return 0, err
		}
		var r uint64
		switch v.Op {
		case token.ADD:
			r = a + b
		case token.SUB:
			if b > a {
				return 0, m.errf(e, "negative constant")
			}
			r = a - b
		case token.MUL:
			r = a * b
		case token.QUO, token.REM:
			if b == 0 {
				return 0, m.errf(e, "division by zero")
			}
			if v.Op == token.QUO {
				r = a / b
			} else {
				r = a % b
			}
		case token.SHL, token.SHR:
			if b > 31 {
				return 0, m.errf(e, "shift amount above 31")
			}
			if v.Op == token.SHL {
				r = a << b
			} else {
				r = a >> b
			}
		case token.AND:
			r = a & b
		case token.OR:
			r = a | b
		default:
			return 0, m.errf(e, "operator %s in a constant not understood", v.Op)
		}
		if r > 0xFFFFFFFF {
			return 0, m.errf(e, "constant result does not fit 32 bits")
		}
		return r, nil
	}
	return 0, m.errf(e, "constant expression shape %T not understood", e)
}

// expr translates a pure uint32 expression; `params` are the identifiers in scope.
func (m *md4x) expr(e ast.Expr, params map[string]bool) (string, error) {
	// N9/N10 (md4_bitfn.go): the maximal sub-expressions that are bitwise functions of the parameters are replaced by
	// the name of their truth table; a parameter, literal or constant on its own is written as it is.
	switch u := unparen(e).(type) {
	case *ast.Ident, *ast.BasicLit:
	default:
		_ = u
		if m.bctx != nil {
			used := map[string]bool{}
			if vec, ok := m.pureBits(e, m.bctx, m.bctx.env, 0, used); ok {
				for h := range used {
					m.inlined[h] = true
				}
				return m.canonBits(vec, m.bctx, e)
			}
		}
	}
	switch v := e.(type) {
	case *ast.ParenExpr:
		return m.expr(v.X, params) // every binary expression is emitted fully parenthesised
	case *ast.Ident:
		if params[v.Name] {
			return v.Name, nil
		}
		if n, ok := m.consts[v.Name]; ok { // N11: a named constant of the file stands for its value
			if n > 0xFFFFFFFF {
				return "", m.errf(e, "constant %s is not a uint32 constant", v.Name)
			}
			return fmt.Sprintf("0x%x", n), nil
		}
		return "", m.errf(e, "identifier %q is neither a parameter of the helper nor a constant of the file", v.Name)
	case *ast.UnaryExpr:
		if v.Op != token.XOR {
			return "", m.errf(e, "unary operator %s is not in the translated fragment", v.Op)
		}
		if m.isPure(v.X) {
			return "", m.errf(e, "complement of a bitwise function that has no truth table over at most six parameters")
		}
		x, err := m.expr(v.X, params)
		if err != nil {
			return "", err
		}
		return "(~~~ " + x + ")", nil
	case *ast.BasicLit:
		n, ok := intLit(v)
		if !ok || n > 0xFFFFFFFF {
			return "", m.errf(e, "literal %s is not a uint32 constant", v.Value)
		}
		return fmt.Sprintf("0x%x", n), nil
	case *ast.BinaryExpr:
		ops := map[token.Token]string{token.ADD: "+", token.SUB: "-", token.XOR: "^^^", token.AND: "&&&",
			token.OR: "|||", token.SHL: "<<<", token.SHR: ">>>"}
		if isBitwiseOp(v.Op) && m.bctx != nil && m.isPure(v.X) != m.isPure(v.Y) {
			// N9 "mixed": one operand is a function of one bit position of the parameters, the other is not
			return "", m.errf(e, "bitwise operator %s joins a bitwise function of the parameters and an expression that is none (shift, sum, other literal, call): no truth table, refused", v.Op)
		}
		if v.Op == token.AND_NOT { // x &^ y  =  x & ^y
			l, err := m.expr(v.X, params)
			if err != nil {
				return "", err
			}
			r, err := m.expr(v.Y, params)
			if err != nil {
				return "", err
			}
			return "(" + l + " &&& (~~~ " + r + "))", nil
		}
		op, ok := ops[v.Op]
		if !ok {
			return "", m.errf(e, "operator %s is not in the translated fragment", v.Op)
		}
		l, err := m.expr(v.X, params)
		if err != nil {
			return "", err
		}
		r, err := m.expr(v.Y, params)
		if err != nil {
			return "", err
		}
		return "(" + l + " " + op + " " + r + ")", nil
	case *ast.CallExpr:
		id, ok := v.Fun.(*ast.Ident)
		if !ok || m.helpers[id.Name] == nil {
			return "", m.errf(e, "call of something that is not a translated uint32 helper")
		}
		m.deps = append(m.deps, id.Name)
		parts := []string{id.Name}
		for _, a := range v.Args {
			s, err := m.expr(a, params)
			if err != nil {
				return "", err
			}
			parts = append(parts, s)
		}
		return "(" + strings.Join(parts, " ") + ")", nil
	}
	return "", m.errf(e, "expression shape %T is not in the translated fragment", e)
}

// isPure: e is a bitwise function of the parameters of the helper being emitted (N9), a lone parameter included.
func (m *md4x) isPure(e ast.Expr) bool {
	if m.bctx == nil {
		return false
	}
	_, ok := m.pureBits(e, m.bctx, m.bctx.env, 0, nil)
	return ok
}

// helperParams returns the parameter names of `func f(p… uint32) uint32` or an error.
func (m *md4x) helperParams(fd *ast.FuncDecl) ([]string, error) {
	if fd.Recv != nil || fd.Type.Results == nil || len(fd.Type.Results.List) != 1 {
		return nil, m.errf(fd, "helper %s: expected a plain function with one result", fd.Name.Name)
	}
	if id, ok := fd.Type.Results.List[0].Type.(*ast.Ident); !ok || id.Name != "uint32" {
		return nil, m.errf(fd, "helper %s: result type is not uint32", fd.Name.Name)
	}
	var ps []string
	for _, f := range fd.Type.Params.List {
		if id, ok := f.Type.(*ast.Ident); !ok || id.Name != "uint32" {
			return nil, m.errf(f, "helper %s: parameter type is not uint32", fd.Name.Name)
		}
		for _, n := range f.Names {
			ps = append(ps, n.Name)
		}
	}
	return ps, nil
}

// shiftCheck: every shift amount inside helper `name`, with its parameters bound to `bind`
// (parameter -> literal, for the parameters that are literals at the call site), is a literal in 1..31.
func (m *md4x) shiftCheck(name string, bind map[string]uint64, at ast.Node) error {
	fd := m.helpers[name]
	ps, _ := m.helperParams(fd)
	_ = ps
	ret := fd.Body.List[0].(*ast.ReturnStmt).Results[0]
	var evalAmount func(e ast.Expr) (uint64, bool)
	evalAmount = func(e ast.Expr) (uint64, bool) {
		switch v := e.(type) {
		case *ast.ParenExpr:
			return evalAmount(v.X)
		case *ast.BasicLit:
			return intLit(v)
		case *ast.Ident:
			n, ok := bind[v.Name]
			return n, ok
		case *ast.BinaryExpr:
			if v.Op == token.SUB {
				a, ok1 := evalAmount(v.X)
				b, ok2 := evalAmount(v.Y)
				if ok1 && ok2 && a >= b {
					return a - b, true
				}
			}
		}
		return 0, false
	}
	var err error
	var walk func(e ast.Expr)
	walk = func(e ast.Expr) {
		if err != nil {
			return
		}
		switch v := e.(type) {
		case *ast.ParenExpr:
			walk(v.X)
		case *ast.UnaryExpr:
			walk(v.X)
		case *ast.BinaryExpr:
			if v.Op == token.SHL || v.Op == token.SHR {
				n, ok := evalAmount(v.Y)
				if !ok || n == 0 || n >= 32 {
					err = fmt.Errorf("%s: in %s (called at %s): shift amount is not a literal in 1..31 — Go and Lean shifts would differ",
						m.fset.Position(v.Pos()), name, m.fset.Position(at.Pos()))
					return
				}
			}
			walk(v.X)
			walk(v.Y)
		case *ast.CallExpr:
			callee := v.Fun.(*ast.Ident).Name
			cps, _ := m.helperParams(m.helpers[callee])
			nb := map[string]uint64{}
			for i, a := range v.Args {
				if n, ok := evalAmount(a); ok && i < len(cps) {
					nb[cps[i]] = n
				}
				walk(a)
			}
			if e2 := m.shiftCheck(callee, nb, at); e2 != nil && err == nil {
				err = e2
			}
		}
	}
	walk(ret)
	return err
}

func parseGoFile(fset *token.FileSet, path string) (*ast.File, error) {
	return parser.ParseFile(fset, path, nil, 0)
}

func selIs(e ast.Expr, recv, field string) bool {
	s, ok := e.(*ast.SelectorExpr)
	if !ok || s.Sel.Name != field {
		return false
	}
	id, ok := s.X.(*ast.Ident)
	return ok && id.Name == recv
}

// stateIndex matches `md4.state[k]`.
func stateIndex(e ast.Expr, recv string) (int, bool) {
	ix, ok := e.(*ast.IndexExpr)
	if !ok || !selIs(ix.X, recv, "state") {
		return 0, false
	}
	n, ok := intLit(ix.Index)
	return int(n), ok && n < 4
}

func md4Kernel(repo string) (string, any, error) {
	path := filepath.Join(repo, "crypto/md4/md4.go")
	m := &md4x{fset: token.NewFileSet(), consts: map[string]uint64{}, helpers: map[string]*ast.FuncDecl{},
		inlined: map[string]bool{}, bitfns: map[string]string{}}
	file, err := parseGoFile(m.fset, path)
	if err != nil {
		return "", nil, err
	}
	var newFn, pcFn *ast.FuncDecl
	for _, d := range file.Decls {
		switch v := d.(type) {
		case *ast.GenDecl:
			if v.Tok != token.CONST {
				continue
			}
			for _, sp := range v.Specs {
				vs := sp.(*ast.ValueSpec)
				if len(vs.Names) != len(vs.Values) {
					return "", nil, m.errf(vs, "const shape not understood (iota / implicit repetition)")
				}
				if vs.Type != nil {
					if id, ok := vs.Type.(*ast.Ident); !ok || !(id.Name == "int" || id.Name == "uint32" || id.Name == "uint64" || id.Name == "uint" || id.Name == "int64") {
						return "", nil, m.errf(vs, "const shape not understood (type is not a 32/64-bit integer type)")
					}
				}
				for i, n := range vs.Names {
					val, err := m.constExpr(vs.Values[i])
					if err != nil {
						return "", nil, fmt.Errorf("const %s: %w", n.Name, err)
					}
					m.consts[n.Name] = val
				}
			}
		case *ast.FuncDecl:
			switch {
			case v.Name.Name == "New" && v.Recv == nil:
				newFn = v
			case v.Name.Name == "processChunk" && v.Recv != nil:
				pcFn = v
			case v.Recv == nil && v.Type.Results != nil && len(v.Type.Results.List) == 1 && v.Body != nil:
				// a uint32 HELPER: all parameters uint32, one unnamed uint32 result, the body one return statement.
				// Any other function is not translated; processChunk may still call it — the evaluator then runs
				// its body (md4_peval.go, N8).
				if id, ok := v.Type.Results.List[0].Type.(*ast.Ident); ok && id.Name == "uint32" && len(v.Type.Results.List[0].Names) == 0 {
					if _, err := m.helperParams(v); err != nil || len(v.Body.List) != 1 {
						continue
					}
					if _, ok := v.Body.List[0].(*ast.ReturnStmt); !ok {
						continue
					}
					m.helpers[v.Name.Name] = v
					m.order = append(m.order, v.Name.Name)
				}
			}
		}
	}
	if newFn == nil || pcFn == nil {
		return "", nil, fmt.Errorf("%s: func New or method processChunk not found", path)
	}
	for _, c := range []string{"chunkSize", "init0", "init1", "init2", "init3"} {
		if _, ok := m.consts[c]; !ok {
			return "", nil, fmt.Errorf("%s: constant %s not found", path, c)
		}
	}
	if m.consts["chunkSize"] != 64 {
		return "", nil, fmt.Errorf("%s: chunkSize = %d; the hand model of Write/Sum and processChunk's word loop assume 64", path, m.consts["chunkSize"])
	}

	var b strings.Builder
	b.WriteString("import Manticore.Basic\n/-! Translated from crypto/md4/md4.go: constants, New(), rol/ff/gg/hh, processChunk. -/\nnamespace Manticore.Gen.Md4Kernel\n\n")
	b.WriteString(fmt.Sprintf("def chunkSize : Nat := %d\n", m.consts["chunkSize"]))
	for _, c := range []string{"init0", "init1", "init2", "init3"} {
		if m.consts[c] > 0xFFFFFFFF {
			return "", nil, fmt.Errorf("%s: %s does not fit uint32", path, c)
		}
		b.WriteString(fmt.Sprintf("def %s : UInt32 := 0x%08x\n", c, m.consts[c]))
	}

	// ---- New(): md4.state[k] = initK, every k exactly once; nothing else writes a field
	recvNew := ""
	initOf := map[int]string{}
	for _, st := range newFn.Body.List {
		switch s := st.(type) {
		case *ast.AssignStmt:
			if s.Tok == token.DEFINE && len(s.Lhs) == 1 { // md4 := &MD4{}
				if id, ok := s.Lhs[0].(*ast.Ident); ok {
					if u, ok := s.Rhs[0].(*ast.UnaryExpr); ok && u.Op == token.AND {
						if cl, ok := u.X.(*ast.CompositeLit); ok && len(cl.Elts) == 0 {
							recvNew = id.Name
							continue
						}
					}
				}
				return "", nil, m.errf(s, "New: statement shape not understood")
			}
			if s.Tok != token.ASSIGN || len(s.Lhs) != 1 {
				return "", nil, m.errf(s, "New: statement shape not understood")
			}
			k, ok := stateIndex(s.Lhs[0], recvNew)
			id, ok2 := s.Rhs[0].(*ast.Ident)
			if !ok || !ok2 {
				return "", nil, m.errf(s, "New: expected %s.state[k] = <const>", recvNew)
			}
			if _, isC := m.consts[id.Name]; !isC {
				return "", nil, m.errf(s, "New: %s is not a constant of the file", id.Name)
			}
			if _, dup := initOf[k]; dup {
				return "", nil, m.errf(s, "New: state[%d] assigned twice", k)
			}
			initOf[k] = id.Name
		case *ast.ReturnStmt:
			if len(s.Results) != 1 {
				return "", nil, m.errf(s, "New: return shape not understood")
			}
			if id, ok := s.Results[0].(*ast.Ident); !ok || id.Name != recvNew {
				return "", nil, m.errf(s, "New: does not return the value it initialised")
			}
		default:
			return "", nil, m.errf(st, "New: statement shape %T not understood", st)
		}
	}
	if len(initOf) != 4 {
		return "", nil, m.errf(newFn, "New: not all four state words are initialised (count and buffer are zero values)")
	}
	b.WriteString(fmt.Sprintf("/-- `New()`: the four chaining words (count = 0 and buffer = 64 zero bytes are Go zero values) -/\ndef initState : UInt32 × UInt32 × UInt32 × UInt32 := (%s, %s, %s, %s)\n\n",
		initOf[0], initOf[1], initOf[2], initOf[3]))

	// ---- helpers (callees first)
	emitted, emitting := map[string]bool{}, map[string]bool{}
	var emit func(name string, at ast.Node) error
	emit = func(name string, at ast.Node) error {
		if emitted[name] {
			return nil
		}
		fd := m.helpers[name]
		ps, err := m.helperParams(fd)
		if err != nil {
			return err
		}
		if len(fd.Body.List) != 1 {
			return m.errf(fd, "helper %s: body is not a single return statement", name)
		}
		rs, ok := fd.Body.List[0].(*ast.ReturnStmt)
		if !ok || len(rs.Results) != 1 {
			return m.errf(fd, "helper %s: body is not a single return statement", name)
		}
		if emitting[name] {
			return m.errf(fd, "helper %s: recursive", name)
		}
		if strings.HasPrefix(name, "bitfn") {
			return m.errf(fd, "helper %s: the name is reserved for the truth tables of the generated module", name)
		}
		emitting[name] = true
		defer delete(emitting, name)
		params := map[string]bool{}
		for _, p := range ps {
			if params[p] {
				return m.errf(fd, "helper %s: parameter %s twice", name, p)
			}
			params[p] = true
		}
		// translate the body; the helpers its text calls are written first, then the truth tables it names, then itself
		m.bctx, m.deps, m.bitfnPending = m.newBitCtx(ps), nil, nil
		body, err := m.expr(rs.Results[0], params)
		deps, tables := m.deps, m.bitfnPending
		m.bctx, m.deps, m.bitfnPending = nil, nil, nil
		if err != nil {
			return err
		}
		for _, d := range deps {
			if err := emit(d, fd); err != nil {
				return err
			}
		}
		for _, t := range tables {
			b.WriteString(m.bitfns[t])
		}
		b.WriteString(fmt.Sprintf("def %s (%s : UInt32) : UInt32 := %s\n", name, strings.Join(ps, " "), body))
		emitted[name] = true
		return nil
	}

	// ---- processChunk: run the body symbolically (md4_peval.go) and read the steps off the result
	kr, err := m.evalProcessChunk(filepath.Dir(path), file, pcFn)
	if err != nil {
		return "", nil, err
	}
	var steps []string
	var stepJSON []map[string]any
	for _, st := range kr.steps {
		if err := emit(st.fn, st.call.at); err != nil {
			return "", nil, err
		}
		ps, _ := m.helperParams(m.helpers[st.fn])
		bind := map[string]uint64{}
		for i, a := range st.call.args {
			if c, ok := a.(cInt); ok {
				bind[ps[i]] = uint64(c.v)
			}
		}
		if err := m.shiftCheck(st.fn, bind, st.call.at); err != nil {
			return "", nil, err
		}
		js := map[string]any{"assign": regNames[st.reg], "fn": st.fn}
		if st.word >= 0 {
			js["word"] = uint64(st.word)
		}
		if st.lit >= 0 {
			js["lit"] = uint64(st.lit)
		}
		steps = append(steps, fmt.Sprintf("  let %s := %s", regNames[st.reg], strings.Join(append([]string{st.fn}, st.args...), " ")))
		stepJSON = append(stepJSON, js)
	}
	varNames := regNames[:]
	finals := kr.finals
	// helpers never called from processChunk are still emitted if they are well-formed (none expected)
	for _, h := range m.order {
		if !emitted[h] && !m.inlined[h] {
			return "", nil, m.errf(m.helpers[h], "uint32 helper %s is not used by processChunk: code shape changed", h)
		}
	}
	b.WriteString(fmt.Sprintf("\n/-- `processChunk`, %d steps in the order in which the source performs them; `x k` is the k-th little-endian\n    32-bit word of the chunk (every word load of the source was evaluated to such a word or refused; a cell of the\n    word array that is never loaded appears as the constant 0 it is in Go). -/\n", len(steps)))
	b.WriteString("def processChunk (st : UInt32 × UInt32 × UInt32 × UInt32) (x : Nat → UInt32) : UInt32 × UInt32 × UInt32 × UInt32 :=\n")
	for i, v := range varNames {
		b.WriteString(fmt.Sprintf("  let %s := st.%s\n", v, []string{"1", "2.1", "2.2.1", "2.2.2"}[i]))
	}
	b.WriteString(strings.Join(steps, "\n") + "\n")
	b.WriteString(fmt.Sprintf("  (%s, %s, %s, %s)\n\n", finals[0], finals[1], finals[2], finals[3]))
	b.WriteString(fmt.Sprintf("def stepCount : Nat := %d\n\nend Manticore.Gen.Md4Kernel\n", len(steps)))
	return b.String(), map[string]any{"steps": stepJSON, "init": []string{initOf[0], initOf[1], initOf[2], initOf[3]}}, nil
}
