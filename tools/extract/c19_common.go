// C19 extractor, shared part: loading a repository package with go/ast + go/types, resolving
// constants, reading map literals and const blocks, bookkeeping of what has been recognised
// ("claimed") so that anything left over is an error, and the Lean/JSON renderers.
package main

import (
	"bytes"
	"fmt"
	"go/ast"
	"go/constant"
	"go/parser"
	"go/printer"
	"go/token"
	"go/types"
	"os"
	"path/filepath"
	"sort"
	"strconv"
	"strings"
)

// ---- JSON twin (read by tools/harness/c19.go) ---------------------------------------------

type C19Const struct {
	Ident string `json:"ident"`
	Type  string `json:"type"`
	Value uint64 `json:"value"`
	Pos   string `json:"pos"`
}

type C19Test struct {
	Mask uint64 `json:"mask"`
	Rhs  uint64 `json:"rhs"`
	Neg  bool   `json:"neg"`
	Src  string `json:"src"`
}

type C19Row struct {
	Test C19Test `json:"test"`
	Name string  `json:"name"`
	Pos  string  `json:"pos"`
}

type C19Pred struct {
	Func string  `json:"func"`
	Test C19Test `json:"test"`
	Pos  string  `json:"pos"`
}

type C19Family struct {
	ID        string     `json:"id"`
	File      string     `json:"file"`
	GoType    string     `json:"go_type"`
	Bits      int        `json:"bits"`
	Consts    []C19Const `json:"consts"`
	Rows      []C19Row   `json:"rows"`
	Sorted    bool       `json:"sorted"`
	EmptyMode string     `json:"empty_mode"` // "", "return", "append"
	EmptyLit  string     `json:"empty_lit"`
	Sep       string     `json:"sep"`
	Preds     []C19Pred  `json:"preds"`
	Decomp    string     `json:"decomp"`    // name of the decomposition function ("" = none)
	GetFlags  bool       `json:"get_flags"` // a GetFlags() method of the same map exists
}

type C19CodeRow struct {
	Key   string `json:"key"`
	Value uint64 `json:"value"`
	Name  string `json:"name"`
	Pos   string `json:"pos"`
}

type C19Fallback struct {
	Kind string `json:"kind"` // "lit" | "fmt"
	Lit  string `json:"lit,omitempty"`
	Pre  string `json:"pre,omitempty"`
	Post string `json:"post,omitempty"`
}

type C19CodeTable struct {
	ID       string       `json:"id"`
	File     string       `json:"file"`
	GoType   string       `json:"go_type"`
	Func     string       `json:"func"`
	Shape    string       `json:"shape"` // "map" | "switch"
	Bits     int          `json:"bits"`
	Consts   []C19Const   `json:"consts"`
	Rows     []C19CodeRow `json:"rows"`
	Fallback C19Fallback  `json:"fallback"`
	WrapPre  string       `json:"wrap_pre"`
	WrapPost string       `json:"wrap_post"`
}

type C19Seg struct {
	Kind  string `json:"kind"` // "lit" | "hex" | "dec" | "text"
	Lit   string `json:"lit,omitempty"`
	Width int    `json:"width,omitempty"`
	Upper bool   `json:"upper,omitempty"`
}

type C19ErrRow struct {
	Key    string `json:"key"`
	Value  uint64 `json:"value"`
	ErrVar string `json:"err_var"`
	Text   string `json:"text"`
	Pos    string `json:"pos"`
}

// ---- package loading ------------------------------------------------------------------------

type c19pkg struct {
	repo, dir string
	fset      *token.FileSet
	files     map[string]*ast.File // base name -> file
	names     []string
	pkg       *types.Package
	info      *types.Info
	claimed   map[ast.Node]string // top-level decl (or spec) -> what recognised it
	evaluated bool                // some naming function of this package was translated by evaluation (c19_eval.go)
}

type fakeImporter struct{}

func (fakeImporter) Import(path string) (*types.Package, error) {
	p := types.NewPackage(path, filepath.Base(path))
	p.MarkComplete()
	return p, nil
}

// c19load parses every non-test .go file of a repository directory and type-checks it with imports
// replaced by empty packages: only constants, types and the syntax of the package itself are used,
// and every value consumed later is checked to be a known constant.
func c19load(repo, dir string) (*c19pkg, error) {
	p := &c19pkg{repo: repo, dir: dir, fset: token.NewFileSet(), files: map[string]*ast.File{}, claimed: map[ast.Node]string{}}
	ents, err := os.ReadDir(filepath.Join(repo, dir))
	if err != nil {
		return nil, err
	}
	var list []*ast.File
	for _, e := range ents {
		n := e.Name()
		if e.IsDir() || !strings.HasSuffix(n, ".go") || strings.HasSuffix(n, "_test.go") {
			continue
		}
		f, err := parser.ParseFile(p.fset, filepath.Join(repo, dir, n), nil, parser.SkipObjectResolution)
		if err != nil {
			return nil, fmt.Errorf("%s/%s: %v", dir, n, err)
		}
		p.files[n] = f
		p.names = append(p.names, n)
		list = append(list, f)
	}
	sort.Strings(p.names)
	if len(list) == 0 {
		return nil, fmt.Errorf("%s: no Go files", dir)
	}
	p.info = &types.Info{Types: map[ast.Expr]types.TypeAndValue{}, Defs: map[*ast.Ident]types.Object{}, Uses: map[*ast.Ident]types.Object{}}
	conf := types.Config{Importer: fakeImporter{}, Error: func(error) {}, DisableUnusedImportCheck: true}
	p.pkg, _ = conf.Check(dir, p.fset, list, p.info)
	if p.pkg == nil {
		return nil, fmt.Errorf("%s: type checking produced no package", dir)
	}
	return p, nil
}

func (p *c19pkg) file(name string) (*ast.File, error) {
	f, ok := p.files[name]
	if !ok {
		return nil, fmt.Errorf("%s/%s: file not found", p.dir, name)
	}
	return f, nil
}

func (p *c19pkg) pos(n ast.Node) string {
	ps := p.fset.Position(n.Pos())
	rel, err := filepath.Rel(p.repo, ps.Filename)
	if err != nil {
		rel = ps.Filename
	}
	return fmt.Sprintf("%s:%d", rel, ps.Line)
}

func (p *c19pkg) errf(n ast.Node, format string, a ...any) error {
	return fmt.Errorf("%s: %s", p.pos(n), fmt.Sprintf(format, a...))
}

// src prints a node in gofmt form (comments are not part of the AST here)
func (p *c19pkg) src(n ast.Node) string {
	var b bytes.Buffer
	if err := printer.Fprint(&b, p.fset, n); err != nil {
		return "<unprintable>"
	}
	return b.String()
}

// constExpr evaluates a constant expression to an unsigned integer
func (p *c19pkg) constExpr(e ast.Expr) (uint64, error) {
	tv, ok := p.info.Types[e]
	if !ok || tv.Value == nil {
		if id, ok := e.(*ast.Ident); ok {
			if c, ok := p.info.Uses[id].(*types.Const); ok {
				return constU64(c.Val())
			}
		}
		return 0, p.errf(e, "`%s` is not a constant expression known to the type checker", p.src(e))
	}
	return constU64(tv.Value)
}

func constU64(v constant.Value) (uint64, error) {
	if v == nil || v.Kind() == constant.Unknown {
		return 0, fmt.Errorf("constant of unknown value")
	}
	iv := constant.ToInt(v)
	if iv.Kind() != constant.Int {
		return 0, fmt.Errorf("constant %s is not an integer", v)
	}
	u, exact := constant.Uint64Val(iv)
	if !exact {
		return 0, fmt.Errorf("constant %s is not an unsigned 64-bit integer", v)
	}
	return u, nil
}

func typeName(t types.Type) string {
	switch x := t.(type) {
	case *types.Named:
		return x.Obj().Name()
	case *types.Basic:
		return x.Name()
	}
	return t.String()
}

// constBlocks returns the `const (...)` declarations of a file in source order
func constBlocks(f *ast.File) []*ast.GenDecl {
	var out []*ast.GenDecl
	for _, d := range f.Decls {
		if g, ok := d.(*ast.GenDecl); ok && g.Tok == token.CONST {
			out = append(out, g)
		}
	}
	return out
}

// readConstBlock lists the integer constants of one block; all must have the wanted type
// (wantType "" = accept whatever single type the block has) and a known value.
func (p *c19pkg) readConstBlock(g *ast.GenDecl, wantType string, why string) ([]C19Const, error) {
	var out []C19Const
	for _, s := range g.Specs {
		vs := s.(*ast.ValueSpec)
		for _, id := range vs.Names {
			if id.Name == "_" {
				return nil, p.errf(id, "blank constant in a %s block is not understood", why)
			}
			c, ok := p.info.Defs[id].(*types.Const)
			if !ok {
				return nil, p.errf(id, "constant %s has no type information", id.Name)
			}
			v, err := constU64(c.Val())
			if err != nil {
				return nil, p.errf(id, "constant %s: %v", id.Name, err)
			}
			tn := typeName(c.Type())
			if wantType != "" && tn != wantType {
				return nil, p.errf(id, "constant %s has type %s, the %s block was expected to hold %s constants", id.Name, tn, why, wantType)
			}
			out = append(out, C19Const{Ident: id.Name, Type: tn, Value: v, Pos: p.pos(id)})
		}
	}
	if len(out) == 0 {
		return nil, p.errf(g, "empty const block (%s)", why)
	}
	p.claimed[g] = why
	return out, nil
}

// tableConsts reads the constants a table or flag family is about: ALL constants of the file whose
// type is wantType (a named type of the package, or "untyped int" / "uint8" / … where the table's
// constants are declared that way), in source order.
//
// Normalisation (DESIGN.md §7, "constants wherever the file declares them").  The reader used to demand
// that the file has exactly the const blocks it had when the extractor was written and read them by
// index.  What the theorems consume is the LIST of declared constants of the table's type, and the value
// of each comes from the type checker (iota, implicit repetition and typed/untyped rules included), so
// that list does not depend on how the file groups its declarations:
//
//   - a const declaration in which NO constant has type wantType (the untyped string "UNKNOWN" of a
//     default, a size, a constant of another type) does not declare constants of this table: it is skipped
//     here and NOT claimed — whoever uses it (the default of a lookup helper, c19_codes.go) claims it, and
//     if nobody does the leftovers check still reports it ("const declaration was not consumed");
//   - a declaration in which EVERY constant has type wantType is a block of the table; several such blocks
//     are merged in source order.  Splitting one block in two, or moving a block behind another
//     declaration, therefore regenerates the same list (SecurityMode has had two blocks all along); a
//     constant added, removed, retyped or given another value changes the list, hence the module;
//   - a declaration that MIXES constants of type wantType with others is refused: it is no longer clear
//     which of them the table means (for "untyped int" tables every untyped integer constant of the file
//     counts — an unrelated one makes the decided side conditions fail, a false alarm, never a miss).
//
// Constants of the table's type declared in another file of the package are not looked for (as before).
func (p *c19pkg) tableConsts(f *ast.File, wantType string, why string) ([]C19Const, error) {
	var out []C19Const
	for _, g := range constBlocks(f) {
		own, foreign := 0, 0
		for _, s := range g.Specs {
			for _, id := range s.(*ast.ValueSpec).Names {
				c, ok := p.info.Defs[id].(*types.Const)
				if !ok {
					return nil, p.errf(id, "constant %s has no type information", id.Name)
				}
				if typeName(c.Type()) == wantType {
					own++
				} else {
					foreign++
				}
			}
		}
		switch {
		case own > 0 && foreign > 0:
			return nil, p.errf(g, "const declaration mixes %d constants of type %s with %d others (%s)", own, wantType, foreign, why)
		case own > 0:
			cs, err := p.readConstBlock(g, wantType, why)
			if err != nil {
				return nil, err
			}
			out = append(out, cs...)
		}
	}
	if len(out) == 0 {
		return nil, fmt.Errorf("%s: no const declaration of type %s (%s)", p.pos(f), wantType, why)
	}
	return out, nil
}

// findVar returns the value spec of package-level `var name = ...`
func (p *c19pkg) findVar(f *ast.File, name string) (*ast.GenDecl, *ast.ValueSpec, error) {
	for _, d := range f.Decls {
		g, ok := d.(*ast.GenDecl)
		if !ok || g.Tok != token.VAR {
			continue
		}
		for _, s := range g.Specs {
			vs := s.(*ast.ValueSpec)
			for _, id := range vs.Names {
				if id.Name == name {
					if len(vs.Names) != 1 || len(vs.Values) != 1 {
						return nil, nil, p.errf(vs, "var %s: expected a single name with a single initialiser", name)
					}
					return g, vs, nil
				}
			}
		}
	}
	return nil, nil, fmt.Errorf("%s: package-level var %s not found", p.dir, name)
}

type mapEntry struct {
	keySrc string
	key    uint64
	val    ast.Expr
	node   ast.Node
}

// readMapLiteral reads `var name = map[K]V{ k: v, ... }` with constant keys, in source order
func (p *c19pkg) readMapLiteral(f *ast.File, name, wantKey, wantVal, why string) ([]mapEntry, error) {
	g, vs, err := p.findVar(f, name)
	if err != nil {
		return nil, err
	}
	cl, ok := vs.Values[0].(*ast.CompositeLit)
	if !ok {
		return nil, p.errf(vs, "var %s is not initialised by a composite literal", name)
	}
	mt, ok := cl.Type.(*ast.MapType)
	if !ok {
		return nil, p.errf(cl, "var %s is not a map literal", name)
	}
	if k, v := p.src(mt.Key), p.src(mt.Value); k != wantKey || v != wantVal {
		return nil, p.errf(cl, "var %s has type map[%s]%s, expected map[%s]%s", name, k, v, wantKey, wantVal)
	}
	var out []mapEntry
	for _, e := range cl.Elts {
		kv, ok := e.(*ast.KeyValueExpr)
		if !ok {
			return nil, p.errf(e, "map element without key")
		}
		k, err := p.constExpr(kv.Key)
		if err != nil {
			return nil, err
		}
		out = append(out, mapEntry{keySrc: p.src(kv.Key), key: k, val: kv.Value, node: kv})
	}
	if len(g.Specs) == 1 {
		p.claimed[g] = why
	} else {
		p.claimed[vs] = why
	}
	return out, nil
}

func (p *c19pkg) stringLit(e ast.Expr) (string, error) {
	bl, ok := e.(*ast.BasicLit)
	if !ok || bl.Kind != token.STRING {
		return "", p.errf(e, "`%s` is not a string literal", p.src(e))
	}
	s, err := strconv.Unquote(bl.Value)
	if err != nil {
		return "", p.errf(e, "bad string literal: %v", err)
	}
	return s, nil
}

// method finds `func (recv T) name(...)` or `func (recv *T) name(...)` in a file
func (p *c19pkg) method(f *ast.File, recvType, name string) (*ast.FuncDecl, string, error) {
	for _, d := range f.Decls {
		fd, ok := d.(*ast.FuncDecl)
		if !ok || fd.Name.Name != name || fd.Recv == nil || len(fd.Recv.List) != 1 {
			continue
		}
		rt := strings.TrimPrefix(p.src(fd.Recv.List[0].Type), "*")
		if rt != recvType {
			continue
		}
		if len(fd.Recv.List[0].Names) != 1 {
			return nil, "", p.errf(fd, "method %s.%s has no receiver name", recvType, name)
		}
		return fd, fd.Recv.List[0].Names[0].Name, nil
	}
	return nil, "", fmt.Errorf("%s: method %s.%s not found", p.dir, recvType, name)
}

func funcKey(p *c19pkg, fd *ast.FuncDecl) string {
	if fd.Recv != nil && len(fd.Recv.List) == 1 {
		return strings.TrimPrefix(p.src(fd.Recv.List[0].Type), "*") + "." + fd.Name.Name
	}
	return fd.Name.Name
}

// parseTest recognises `subject&M == R`, `subject&M != R`, with optional parentheses
func (p *c19pkg) parseTest(e ast.Expr, subject string) (C19Test, error) {
	be, ok := unparen(e).(*ast.BinaryExpr)
	if !ok || (be.Op != token.EQL && be.Op != token.NEQ) {
		return C19Test{}, p.errf(e, "`%s` is not of the form x&M == R or x&M != R", p.src(e))
	}
	and, ok := unparen(be.X).(*ast.BinaryExpr)
	if !ok || and.Op != token.AND {
		return C19Test{}, p.errf(e, "`%s`: left side is not x&M", p.src(e))
	}
	if s := p.src(and.X); s != subject {
		return C19Test{}, p.errf(e, "`%s`: tests `%s`, expected the flag word `%s`", p.src(e), s, subject)
	}
	m, err := p.constExpr(and.Y)
	if err != nil {
		return C19Test{}, err
	}
	r, err := p.constExpr(be.Y)
	if err != nil {
		return C19Test{}, err
	}
	return C19Test{Mask: m, Rhs: r, Neg: be.Op == token.NEQ, Src: p.src(e)}, nil
}

func unparen(e ast.Expr) ast.Expr {
	for {
		pe, ok := e.(*ast.ParenExpr)
		if !ok {
			return e
		}
		e = pe.X
	}
}

// leftovers: every top-level declaration of the given files must have been claimed or be
// explicitly allowed; returns an error listing what was not understood
func (p *c19pkg) leftovers(files []string, allowFuncs map[string]string, allowTypes bool) error {
	var bad []string
	for _, fn := range files {
		f := p.files[fn]
		for _, d := range f.Decls {
			switch x := d.(type) {
			case *ast.FuncDecl:
				if _, ok := p.claimed[x]; ok {
					continue
				}
				if _, ok := allowFuncs[fn+":"+funcKey(p, x)]; ok {
					continue
				}
				bad = append(bad, fmt.Sprintf("%s: function %s is not a shape this extractor understands", p.pos(x), funcKey(p, x)))
			case *ast.GenDecl:
				switch x.Tok {
				case token.IMPORT:
				case token.TYPE:
					if !allowTypes {
						bad = append(bad, fmt.Sprintf("%s: unexpected type declaration", p.pos(x)))
					}
				case token.CONST, token.VAR:
					if _, ok := p.claimed[x]; ok {
						continue
					}
					all := true
					for _, s := range x.Specs {
						if _, ok := p.claimed[s]; !ok {
							all = false
						}
					}
					if !all {
						bad = append(bad, fmt.Sprintf("%s: %s declaration was not consumed by any recogniser", p.pos(x), x.Tok))
					}
				}
			}
		}
	}
	if len(bad) > 0 {
		return fmt.Errorf("unrecognised code:\n  %s", strings.Join(bad, "\n  "))
	}
	return nil
}

// bitsOf: width of a named integer type, or of the field `Value` of a named struct type
func (p *c19pkg) bitsOf(tname string) (int, error) {
	obj := p.pkg.Scope().Lookup(tname)
	if obj == nil {
		return 0, fmt.Errorf("%s: type %s not found", p.dir, tname)
	}
	t := obj.Type().Underlying()
	if st, ok := t.(*types.Struct); ok {
		for i := 0; i < st.NumFields(); i++ {
			if st.Field(i).Name() == "Value" {
				t = st.Field(i).Type().Underlying()
			}
		}
	}
	b, ok := t.(*types.Basic)
	if !ok {
		return 0, fmt.Errorf("%s: type %s is not an integer type", p.dir, tname)
	}
	switch b.Kind() {
	case types.Uint8, types.Int8:
		return 8, nil
	case types.Uint16, types.Int16:
		return 16, nil
	case types.Uint32, types.Int32:
		return 32, nil
	case types.Int, types.Uint, types.Uint64, types.Int64:
		return 64, nil
	}
	return 0, fmt.Errorf("%s: type %s has unsupported underlying type %s", p.dir, tname, b.Name())
}

// ---- Lean rendering ---------------------------------------------------------------------------

// ./check greps every Lean file (generated ones included) for these words; a table text that happens
// to contain one (an NT status description saying "unsafe") must not look like Lean code using it:
// the first letter is written as an escape.
var c19Forbidden = []string{"sorry", "admit", "native_decide", "bv_decide", "implemented_by", "unsafe", "axiom", "maxHeartbeats"}

func leanDefuse(lit string) string {
	for _, w := range c19Forbidden {
		lit = strings.ReplaceAll(lit, w, fmt.Sprintf(`\x%02x`, w[0])+w[1:])
	}
	return lit
}

// leanName renders the bytes of a Go string as a `Name` (List Nat) term
func leanName(s string) string {
	plain := true
	for i := 0; i < len(s); i++ {
		if s[i] < 0x20 || s[i] > 0x7e {
			plain = false
		}
	}
	if plain {
		return `n!"` + leanDefuse(strings.NewReplacer(`\`, `\\`, `"`, `\"`).Replace(s)) + `"`
	}
	parts := make([]string, len(s))
	for i := 0; i < len(s); i++ {
		parts[i] = fmt.Sprintf("nat_lit %d", s[i])
	}
	return "[" + strings.Join(parts, ", ") + "]"
}

// leanString renders a Go string as a Lean String literal (used for texts that no theorem inspects)
func leanString(s string) (string, error) {
	var b strings.Builder
	b.WriteByte('"')
	for _, r := range s {
		switch {
		case r == 0xFFFD:
			return "", fmt.Errorf("text %q is not valid UTF-8", s)
		case r == '"':
			b.WriteString(`\"`)
		case r == '\\':
			b.WriteString(`\\`)
		case r == '\n':
			b.WriteString(`\n`)
		case r == '\t':
			b.WriteString(`\t`)
		case r < 0x20 || r == 0x7f:
			fmt.Fprintf(&b, `\x%02x`, r)
		default:
			b.WriteRune(r)
		}
	}
	b.WriteByte('"')
	return leanDefuse(b.String()), nil
}

func leanBool(b bool) string {
	if b {
		return "true"
	}
	return "false"
}

func leanTest(t C19Test) string {
	return fmt.Sprintf("⟨0x%X, 0x%X, %s⟩", t.Mask, t.Rhs, leanBool(t.Neg))
}

// leanChunked renders `def name : List ty := ...` in chunks of 64 elements (one literal of 1 800
// elements exceeds the elaborator's recursion depth)
func leanChunked(b *strings.Builder, name, ty string, items []string) {
	const n = 64
	var parts []string
	for k := 0; k < len(items); k += n {
		hi := k + n
		if hi > len(items) {
			hi = len(items)
		}
		part := fmt.Sprintf("%s_%d", name, k/n)
		parts = append(parts, part)
		fmt.Fprintf(b, "def %s : List (%s) := [\n  %s]\n", part, ty, strings.Join(items[k:hi], ",\n  "))
	}
	fmt.Fprintf(b, "def %s : List (%s) := List.flatten [%s]\n\n", name, ty, strings.Join(parts, ", "))
}
