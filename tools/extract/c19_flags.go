// Fact C19Flags: the flag-word families.  For each family: the declared `const` block(s), the
// (test, name) sequence of its decomposition function in source order, what it does on an empty
// result, the separator, and every `func (f T) IsX() bool { return f&M ... }` predicate.
//
// Recognised shapes (anything else is an error naming file and line):
//
//	seq      func (f T) String() string {                    (Flags, Flags2, Capabilities)
//	           [var result string] ; var list []string
//	           if f&M == R { list = append(list, "NAME") }   ... in source order
//	           if len(list) == 0 { return "NONE" }
//	           [result = strings.Join(list, SEP); return result | return strings.Join(list, SEP)]
//	         }
//	fields   func (k *T) FromBytes(value byte) {             (CustomKeyInformationFlags)
//	           k.Value = value ; k.Name = []string{}
//	           if k.Value&M == R { k.Name = append(k.Name, "NAME") } ...
//	           if len(k.Name) == 0 { k.Name = append(k.Name, "None") }
//	         }
//	mapsort  func (u T) String() string {                    (UserAccountControl)
//	           list := []string{}
//	           for flag, val := range MAP { if u&flag != 0 { list = append(list, val) } }
//	           sort.Strings(list) ; return strings.Join(list, SEP)
//	         }
//	         func (u T) GetFlags() []T {
//	           flags := []T{}
//	           for k := range MAP { if u&k != 0 { flags = append(flags, k) } }
//	           sort.Slice(flags, func(i, j int) bool { return flags[i] < flags[j] }) ; return flags
//	         }
//	pred     func (f T) Name() bool { return f&M ==/!= R }
package main

import (
	"fmt"
	"go/ast"
	"go/token"
	"strconv"
	"strings"
)

func init() { facts["C19Flags"] = c19FlagsFact }

type famCfg struct {
	id, dir, file, goType string
	constType             string // declared type of the constants ("untyped int" for untyped blocks)
	shape                 string // "seq" | "fields" | "mapsort" | "none"
	decomp                string // method name
	mapVar                string
	preds                 bool              // every other `() bool` method of the type must be a bit predicate
	ignore                map[string]string // file:Func -> reason
}

var c19Families = []famCfg{
	{id: "Flags", dir: "network/smb/smb_v10/message/header/flags", file: "flags.go", goType: "Flags", constType: "untyped int", shape: "seq", decomp: "String", preds: true},
	{id: "Flags2", dir: "network/smb/smb_v10/message/header/flags2", file: "flags2.go", goType: "Flags2", constType: "untyped int", shape: "seq", decomp: "String", preds: true},
	{id: "Capabilities", dir: "network/smb/smb_v10/capabilities", file: "capabilities.go", goType: "Capabilities", constType: "Capabilities", shape: "seq", decomp: "String", preds: true},
	{id: "SecurityMode", dir: "network/smb/smb_v10/securitymode", file: "securitymode.go", goType: "SecurityMode", constType: "SecurityMode", shape: "none", preds: true},
	{id: "UserAccountControl", dir: "network/ldap/ldap_attributes", file: "UserAccountControl.go", goType: "UserAccountControl", constType: "UserAccountControl", shape: "mapsort", decomp: "String", mapVar: "UserAccountControlMap", preds: true},
	{id: "KeyCredFlags", dir: "windows/keycredential/key", file: "CustomKeyInformationFlags.go", goType: "CustomKeyInformationFlags", constType: "uint8", shape: "fields", decomp: "FromBytes", preds: true},
}

func c19FlagsFact(repo string) (string, any, error) {
	var fams []C19Family
	for _, cfg := range c19Families {
		fam, err := c19Family(repo, cfg)
		if err != nil {
			return "", nil, fmt.Errorf("family %s: %w", cfg.id, err)
		}
		fams = append(fams, *fam)
	}
	var b strings.Builder
	b.WriteString("import Manticore.Model.C19\nnamespace Manticore.C19.Gen\nopen Manticore.C19\n\n")
	var ids []string
	for _, f := range fams {
		lid := "fam" + f.ID
		ids = append(ids, lid)
		fmt.Fprintf(&b, "/-- %s (%s), decomposition `%s`, %d constants, %d rows, %d predicates -/\n", f.GoType, f.File, f.Decomp, len(f.Consts), len(f.Rows), len(f.Preds))
		fmt.Fprintf(&b, "def %s : Family where\n  id := %s\n  bits := %d\n", lid, leanName(f.ID), f.Bits)
		b.WriteString("  consts := [")
		for i, c := range f.Consts {
			if i > 0 {
				b.WriteString(",")
			}
			fmt.Fprintf(&b, "\n    ⟨%s, 0x%X⟩", leanName(c.Ident), c.Value)
		}
		fmt.Fprintf(&b, "]\n  hasDecomp := %s\n  rows := [", leanBool(f.Decomp != ""))
		for i, r := range f.Rows {
			if i > 0 {
				b.WriteString(",")
			}
			fmt.Fprintf(&b, "\n    ⟨%s, %s⟩", leanTest(r.Test), leanName(r.Name))
		}
		fmt.Fprintf(&b, "]\n  sorted := %s\n", leanBool(f.Sorted))
		switch f.EmptyMode {
		case "return":
			fmt.Fprintf(&b, "  onEmpty := .returnLit %s\n", leanName(f.EmptyLit))
		case "append":
			fmt.Fprintf(&b, "  onEmpty := .appendLit %s\n", leanName(f.EmptyLit))
		default:
			b.WriteString("  onEmpty := .nothing\n")
		}
		fmt.Fprintf(&b, "  sep := %s\n  preds := [", leanName(f.Sep))
		for i, p := range f.Preds {
			if i > 0 {
				b.WriteString(",")
			}
			fmt.Fprintf(&b, "\n    ⟨%s, %s⟩", leanName(p.Func), leanTest(p.Test))
		}
		b.WriteString("]\n\n")
	}
	fmt.Fprintf(&b, "def families : List Family := [%s]\n\nend Manticore.C19.Gen\n", strings.Join(ids, ", "))
	return b.String(), map[string]any{"families": fams}, nil
}

func c19Family(repo string, cfg famCfg) (*C19Family, error) {
	p, err := c19load(repo, cfg.dir)
	if err != nil {
		return nil, err
	}
	f, err := p.file(cfg.file)
	if err != nil {
		return nil, err
	}
	fam := &C19Family{ID: cfg.id, File: cfg.dir + "/" + cfg.file, GoType: cfg.goType, Decomp: cfg.decomp}
	if fam.Bits, err = p.bitsOf(cfg.goType); err != nil {
		return nil, err
	}
	// the constants of the family's type, wherever the file declares them (tableConsts, c19_common.go)
	if fam.Consts, err = p.tableConsts(f, cfg.constType, "flag constants of "+cfg.id); err != nil {
		return nil, err
	}
	seen := map[string]bool{}
	for _, c := range fam.Consts {
		if seen[c.Ident] {
			return nil, fmt.Errorf("%s: constant %s declared twice", fam.File, c.Ident)
		}
		seen[c.Ident] = true
		if fam.Bits < 64 && c.Value>>uint(fam.Bits) != 0 {
			return nil, fmt.Errorf("%s: constant %s = %#x does not fit the %d-bit type %s", c.Pos, c.Ident, c.Value, fam.Bits, cfg.goType)
		}
	}
	// functions the syntactic readers refuse and that are translated by evaluation instead (c19_eval.go)
	var evalReqs []evalReq
	var synErrs []string
	switch cfg.shape {
	case "seq", "fields":
		err := c19SeqDecomp(p, f, cfg, fam)
		if err != nil && cfg.shape == "seq" {
			// the same decomposition written as a loop over a package-level {mask, name} table (any width)
			fam.Rows, fam.EmptyMode, fam.EmptyLit, fam.Sep = nil, "", "", ""
			if terr := c19TableLoopDecomp(p, f, cfg, fam); terr == nil {
				err = nil
			} else {
				err = fmt.Errorf("%w\n    as a loop over a table: %v", err, terr)
			}
		}
		if err != nil {
			fd, _, merr := p.method(f, cfg.goType, cfg.decomp)
			if merr != nil || fam.Bits > 16 || c19DecompSignature(p, fd, cfg) != nil {
				return nil, err
			}
			fam.Rows, fam.EmptyMode, fam.EmptyLit, fam.Sep = nil, "", "", ""
			kind := "string"
			if cfg.shape == "fields" {
				kind = "names"
			}
			evalReqs = append(evalReqs, evalReq{ID: "decomp", Kind: kind, Type: cfg.goType, Method: cfg.decomp})
			synErrs = append(synErrs, err.Error())
			p.claimed[fd] = "decomposition (evaluated)"
		}
	case "mapsort":
		if err := c19MapSortDecomp(p, f, cfg, fam); err != nil {
			return nil, err
		}
	case "none":
	default:
		return nil, fmt.Errorf("unknown shape %s", cfg.shape)
	}
	// predicates: every remaining method of the type with signature `() bool`
	for _, d := range f.Decls {
		fd, ok := d.(*ast.FuncDecl)
		if !ok {
			continue
		}
		if _, done := p.claimed[fd]; done {
			continue
		}
		if fd.Recv == nil || strings.TrimPrefix(p.src(fd.Recv.List[0].Type), "*") != cfg.goType {
			continue
		}
		if fd.Type.Params.NumFields() != 0 || fd.Type.Results.NumFields() != 1 || p.src(fd.Type.Results.List[0].Type) != "bool" {
			continue
		}
		t, err := c19PredSyntactic(p, fd)
		if err != nil {
			// an exported predicate of an 8/16-bit word, value receiver: translated by evaluation
			_, ptr := fd.Recv.List[0].Type.(*ast.StarExpr)
			if fam.Bits > 16 || ptr || !fd.Name.IsExported() {
				return nil, err
			}
			evalReqs = append(evalReqs, evalReq{ID: "pred:" + fd.Name.Name, Kind: "bool", Type: cfg.goType, Method: fd.Name.Name})
			synErrs = append(synErrs, err.Error())
			p.claimed[fd] = "predicate (evaluated)"
		} else {
			p.claimed[fd] = "predicate"
		}
		fam.Preds = append(fam.Preds, C19Pred{Func: fd.Name.Name, Test: t, Pos: p.pos(fd)})
	}
	if len(evalReqs) > 0 {
		if err := c19FamilyByEvaluation(p, f, repo, cfg, fam, evalReqs); err != nil {
			return nil, fmt.Errorf("%s\n  no shape the syntactic reader knows:\n    %s", err, strings.Join(synErrs, "\n    "))
		}
	}
	if err := p.leftovers([]string{cfg.file}, cfg.ignore, true); err != nil {
		return nil, err
	}
	return fam, nil
}

// Normalisation "rows in a table" (DESIGN.md §7).  Canonical form: the chain
//
//	if f&M1 == M1 { list = append(list, "N1") } … ; if len(list) == 0 { return "NONE" } ; return strings.Join(list, SEP)
//
// Accepted as the same function: the rows kept in a package-level table and visited in order,
//
//	var T = [...]struct{ mask X; name string }{ {M1, "N1"}, … }          (array or slice; positional or keyed elements)
//	func (f X) String() string {
//	    LIST                                                              var l []string | l := []string{} | l := make([]string, 0[, n])
//	    for _, e := range T { if f&e.mask TEST { l = append(l, e.name) } }    TEST: == e.mask | != 0
//	                        | { if f&e.mask == 0 { continue } ; l = append(l, e.name) }
//	    if len(l) == 0 { return "NONE" } ; return strings.Join(l, SEP)
//	}
//
// or written straight into a strings.Builder (`if sb.Len() > 0 { sb.WriteByte('|') | sb.WriteString("|") };
// sb.WriteString(e.name)` in the loop, `if sb.Len() == 0 { return "NONE" }; return sb.String()` after it), which
// is strings.Join as long as no name is empty (checked).  A range over an array or slice visits the elements in
// index order, so the rows are the table's elements in source order.  `f&M != 0` and `f&M == 0 → skip` are
// the canonical test `f&M == M` exactly when M is a single bit; for a mask of several bits they are a different
// function and are emitted as what they are (⟨M, 0, true⟩), which the theorems about single bits then reject.
func c19TableLoopDecomp(p *c19pkg, f *ast.File, cfg famCfg, fam *C19Family) error {
	fd, recv, err := p.method(f, cfg.goType, cfg.decomp)
	if err != nil {
		return err
	}
	if err := c19DecompSignature(p, fd, cfg); err != nil {
		return err
	}
	b := fd.Body.List
	if len(b) != 4 {
		return p.errf(fd, "%s: expected 4 statements (list or builder; range over the table; empty-result clause; return), found %d", cfg.decomp, len(b))
	}
	// accumulator
	list, builder := "", ""
	switch x := b[0].(type) {
	case *ast.DeclStmt:
		if g, ok := x.Decl.(*ast.GenDecl); ok && g.Tok == token.VAR && len(g.Specs) == 1 {
			vs := g.Specs[0].(*ast.ValueSpec)
			if len(vs.Names) == 1 && len(vs.Values) == 0 {
				switch p.src(vs.Type) {
				case "[]string":
					list = vs.Names[0].Name
				case "strings.Builder":
					builder = vs.Names[0].Name
				}
			}
		}
	case *ast.AssignStmt:
		if x.Tok == token.DEFINE && len(x.Lhs) == 1 && len(x.Rhs) == 1 {
			if p.src(x.Rhs[0]) == "[]string{}" {
				list = p.src(x.Lhs[0])
			} else if call, ok := x.Rhs[0].(*ast.CallExpr); ok && p.src(call.Fun) == "make" && (len(call.Args) == 2 || len(call.Args) == 3) && p.src(call.Args[0]) == "[]string" && p.src(call.Args[1]) == "0" {
				list = p.src(x.Lhs[0])
			}
		}
	}
	if list == "" && builder == "" {
		return p.errf(b[0], "%s: `%s` declares neither an empty []string nor a strings.Builder", cfg.decomp, firstLine(p.src(b[0])))
	}
	// the loop
	rs, ok := b[1].(*ast.RangeStmt)
	if !ok || rs.Tok != token.DEFINE || rs.Key == nil || p.src(rs.Key) != "_" || rs.Value == nil {
		return p.errf(b[1], "%s: second statement is not `for _, e := range TABLE`", cfg.decomp)
	}
	tid, ok := rs.X.(*ast.Ident)
	if !ok {
		return p.errf(b[1], "%s: the loop does not range over a package-level table", cfg.decomp)
	}
	e := p.src(rs.Value)
	g, vs, err := p.findVar(f, tid.Name)
	if err != nil {
		return err
	}
	cl, ok := vs.Values[0].(*ast.CompositeLit)
	if !ok {
		return p.errf(vs, "var %s is not a composite literal", tid.Name)
	}
	at, ok := cl.Type.(*ast.ArrayType)
	if !ok {
		return p.errf(vs, "var %s is not an array or slice", tid.Name)
	}
	if at.Len != nil {
		if el, ok := at.Len.(*ast.Ellipsis); !ok || el.Elt != nil {
			if _, err := p.constExpr(at.Len); err != nil {
				return p.errf(vs, "var %s: array length not understood", tid.Name)
			}
		}
	}
	st, ok := at.Elt.(*ast.StructType)
	if !ok || st.Fields.NumFields() != 2 {
		return p.errf(vs, "var %s: element type is not struct{ mask T; name string }", tid.Name)
	}
	var fieldNames []string
	for _, fl := range st.Fields.List {
		for _, nm := range fl.Names {
			fieldNames = append(fieldNames, nm.Name)
		}
	}
	if len(fieldNames) != 2 || p.src(st.Fields.List[len(st.Fields.List)-1].Type) != "string" || len(st.Fields.List) != 2 {
		return p.errf(vs, "var %s: element type is not struct{ mask T; name string }", tid.Name)
	}
	maskF, nameF := fieldNames[0], fieldNames[1]
	type trow struct {
		mask uint64
		name string
		node ast.Node
	}
	var trows []trow
	for i, el := range cl.Elts {
		if kv, ok := el.(*ast.KeyValueExpr); ok { // [i]: {…} would reorder
			return p.errf(kv, "var %s: indexed element", tid.Name)
		}
		ecl, ok := el.(*ast.CompositeLit)
		if !ok || len(ecl.Elts) != 2 {
			return p.errf(el, "var %s: element %d is not {mask, name}", tid.Name, i)
		}
		var me, ne ast.Expr
		for k, x := range ecl.Elts {
			if kv, ok := x.(*ast.KeyValueExpr); ok {
				switch p.src(kv.Key) {
				case maskF:
					me = kv.Value
				case nameF:
					ne = kv.Value
				}
			} else if k == 0 {
				me = x
			} else {
				ne = x
			}
		}
		if me == nil || ne == nil {
			return p.errf(el, "var %s: element %d is not {mask, name}", tid.Name, i)
		}
		m, err := p.constExpr(me)
		if err != nil {
			return err
		}
		nm, err := p.stringLit(ne)
		if err != nil {
			return err
		}
		if fam.Bits < 64 && m>>uint(fam.Bits) != 0 {
			return p.errf(el, "var %s: mask %#x does not fit the %d-bit type", tid.Name, m, fam.Bits)
		}
		trows = append(trows, trow{m, nm, el})
	}
	if len(trows) == 0 {
		return p.errf(vs, "var %s: empty table", tid.Name)
	}
	// the loop body: which test, and the emission
	body := rs.Body.List
	maskE, nameE := e+"."+maskF, e+"."+nameF
	test := "" // "eqmask" | "nonzero"
	if len(body) >= 1 {
		if ifs, ok := body[0].(*ast.IfStmt); ok && ifs.Init == nil && ifs.Else == nil {
			switch p.src(ifs.Cond) {
			case recv + "&" + maskE + " == " + maskE:
				test = "eqmask"
			case recv + "&" + maskE + " != 0":
				test = "nonzero"
			case recv + "&" + maskE + " == 0":
				if len(ifs.Body.List) == 1 && p.src(ifs.Body.List[0]) == "continue" && len(body) > 1 {
					test, body = "nonzero", body[1:]
				}
			}
			if test != "" && len(body) == 1 && body[0] == ast.Stmt(ifs) {
				body = ifs.Body.List
			} else if test != "" && body[0] == ast.Stmt(ifs) {
				test = ""
			}
		}
	}
	if test == "" {
		return p.errf(rs, "%s: the loop body does not test `%s&%s` (== %s, != 0, or == 0 → continue)", cfg.decomp, recv, maskE, maskE)
	}
	sep := ""
	if list != "" {
		l, x, ok := p.appendStmt(body[0])
		if len(body) != 1 || !ok || l != list || p.src(x) != nameE {
			return p.errf(rs, "%s: the loop does not `%s = append(%s, %s)`", cfg.decomp, list, list, nameE)
		}
	} else {
		// if sb.Len() > 0 { sb.WriteByte('|') }; sb.WriteString(e.name)
		if len(body) != 2 || p.src(body[1]) != builder+".WriteString("+nameE+")" {
			return p.errf(rs, "%s: the loop does not end in %s.WriteString(%s)", cfg.decomp, builder, nameE)
		}
		ifs, ok := body[0].(*ast.IfStmt)
		if !ok || ifs.Init != nil || ifs.Else != nil || len(ifs.Body.List) != 1 || (p.src(ifs.Cond) != builder+".Len() > 0" && p.src(ifs.Cond) != builder+".Len() != 0") {
			return p.errf(rs, "%s: no `if %s.Len() > 0 { write the separator }` before the name", cfg.decomp, builder)
		}
		es, ok := ifs.Body.List[0].(*ast.ExprStmt)
		call, ok2 := ast.Expr(nil), false
		if ok {
			call, ok2 = es.X, true
		}
		c, ok3 := call.(*ast.CallExpr)
		if !ok2 || !ok3 || len(c.Args) != 1 {
			return p.errf(ifs, "%s: separator write not understood", cfg.decomp)
		}
		switch p.src(c.Fun) {
		case builder + ".WriteString":
			if sep, err = p.stringLit(c.Args[0]); err != nil {
				return err
			}
		case builder + ".WriteByte", builder + ".WriteRune":
			bl, ok := c.Args[0].(*ast.BasicLit)
			if !ok || bl.Kind != token.CHAR {
				return p.errf(ifs, "%s: separator write not understood", cfg.decomp)
			}
			r, _, _, err := strconv.UnquoteChar(bl.Value[1:len(bl.Value)-1], '\'')
			if err != nil || (p.src(c.Fun) == builder+".WriteByte" && r > 0x7f) {
				return p.errf(ifs, "%s: separator write not understood", cfg.decomp)
			}
			sep = string(r)
		default:
			return p.errf(ifs, "%s: separator write not understood", cfg.decomp)
		}
		for _, r := range trows {
			if r.name == "" {
				return p.errf(r.node, "an empty name: with a strings.Builder `Len() == 0` no longer means that no row fired")
			}
		}
	}
	// empty-result clause and return
	ifs, ok := b[2].(*ast.IfStmt)
	wantCond := "len(" + list + ") == 0"
	if builder != "" {
		wantCond = builder + ".Len() == 0"
	}
	if !ok || ifs.Init != nil || ifs.Else != nil || len(ifs.Body.List) != 1 || p.src(ifs.Cond) != wantCond {
		return p.errf(b[2], "%s: third statement is not `if %s { return \"…\" }`", cfg.decomp, wantCond)
	}
	ret, ok := ifs.Body.List[0].(*ast.ReturnStmt)
	if !ok || len(ret.Results) != 1 {
		return p.errf(b[2], "%s: empty-result clause is not a return", cfg.decomp)
	}
	lit, err := p.stringLit(ret.Results[0])
	if err != nil {
		return err
	}
	last, ok := b[3].(*ast.ReturnStmt)
	if !ok || len(last.Results) != 1 {
		return p.errf(b[3], "%s: last statement is not a return", cfg.decomp)
	}
	if builder != "" {
		if p.src(last.Results[0]) != builder+".String()" {
			return p.errf(b[3], "%s: does not return %s.String()", cfg.decomp, builder)
		}
	} else if sep, ok = p.joinCall(last.Results[0], list); !ok {
		return p.errf(b[3], "%s: `%s` is not return strings.Join(%s, SEP)", cfg.decomp, p.src(b[3]), list)
	}
	for _, r := range trows {
		t := C19Test{Mask: r.mask, Rhs: r.mask, Neg: false, Src: recv + "&" + maskE + " == " + maskE}
		if test == "nonzero" && (r.mask == 0 || r.mask&(r.mask-1) != 0) {
			t = C19Test{Mask: r.mask, Rhs: 0, Neg: true, Src: recv + "&" + maskE + " != 0"}
		}
		fam.Rows = append(fam.Rows, C19Row{Test: t, Name: r.name, Pos: p.pos(r.node)})
	}
	fam.EmptyMode, fam.EmptyLit, fam.Sep = "return", lit, sep
	p.claimed[fd] = "decomposition"
	if len(g.Specs) == 1 {
		p.claimed[g] = "decomposition table"
	} else {
		p.claimed[vs] = "decomposition table"
	}
	return nil
}

// c19PredSyntactic reads `func (f T) Name() bool { return f&M ==/!= R }`
func c19PredSyntactic(p *c19pkg, fd *ast.FuncDecl) (C19Test, error) {
	if len(fd.Recv.List[0].Names) != 1 {
		return C19Test{}, p.errf(fd, "predicate %s has no receiver name", fd.Name.Name)
	}
	recv := fd.Recv.List[0].Names[0].Name
	if len(fd.Body.List) != 1 {
		return C19Test{}, p.errf(fd, "predicate %s: body is not a single return statement", fd.Name.Name)
	}
	rs, ok := fd.Body.List[0].(*ast.ReturnStmt)
	if !ok || len(rs.Results) != 1 {
		return C19Test{}, p.errf(fd, "predicate %s: body is not `return <test>`", fd.Name.Name)
	}
	t, err := p.parseTest(rs.Results[0], recv)
	if err != nil {
		return C19Test{}, fmt.Errorf("predicate %s: %w", fd.Name.Name, err)
	}
	return t, nil
}

// c19DecompSignature: String() string for a `seq` family, FromBytes(value byte) for a `fields` family
func c19DecompSignature(p *c19pkg, fd *ast.FuncDecl, cfg famCfg) error {
	if cfg.shape == "fields" {
		if fd.Type.Params.NumFields() != 1 || fd.Type.Results.NumFields() != 0 || p.src(fd.Type.Params.List[0].Type) != "byte" {
			return p.errf(fd, "%s: expected one byte parameter and no result", cfg.decomp)
		}
		return nil
	}
	if fd.Type.Params.NumFields() != 0 || fd.Type.Results.NumFields() != 1 || p.src(fd.Type.Results.List[0].Type) != "string" {
		return p.errf(fd, "%s: expected signature () string", cfg.decomp)
	}
	if _, ptr := fd.Recv.List[0].Type.(*ast.StarExpr); ptr {
		return p.errf(fd, "%s: pointer receiver", cfg.decomp)
	}
	return nil
}

// c19FamilyByEvaluation translates the functions of a small-word family that the syntactic readers
// refused by running them on the whole domain (c19_eval.go).  Unexported functions and variables of the
// file are then helpers of the evaluated methods: they have no behaviour of their own for this property
// beyond what the exported methods that reach them answered on every word, and are accepted; an
// EXPORTED function no recogniser reads is still an error (a new naming function must not go unnoticed).
func c19FamilyByEvaluation(p *c19pkg, f *ast.File, repo string, cfg famCfg, fam *C19Family, reqs []evalReq) error {
	ans, err := c19Evaluate(repo, cfg.dir, fam.Bits, reqs)
	if err != nil {
		return err
	}
	for _, r := range reqs {
		a := ans[r.ID]
		what := fmt.Sprintf("%s.%s (%s)", cfg.goType, r.Method, fam.File)
		switch {
		case r.ID == "decomp":
			rows, mode, lit, sep, err := c19SynthDecomp(fam.Bits, a.Strings, a.Names, r.Kind == "names", what)
			if err != nil {
				return err
			}
			fam.Rows, fam.EmptyMode, fam.EmptyLit, fam.Sep = rows, mode, lit, sep
		default:
			t, err := c19SynthPred(fam.Bits, a.Bools, what)
			if err != nil {
				return err
			}
			for i := range fam.Preds {
				if fam.Preds[i].Func == r.Method {
					fam.Preds[i].Test = t
				}
			}
		}
	}
	for _, d := range f.Decls {
		switch x := d.(type) {
		case *ast.FuncDecl:
			if _, done := p.claimed[x]; !done && !x.Name.IsExported() {
				p.claimed[x] = "helper of an evaluated method"
			}
		case *ast.GenDecl:
			if x.Tok != token.VAR && x.Tok != token.CONST {
				continue
			}
			for _, s := range x.Specs {
				unexported := true
				for _, id := range s.(*ast.ValueSpec).Names {
					if id.IsExported() {
						unexported = false
					}
				}
				if _, done := p.claimed[s]; !done && unexported {
					p.claimed[s] = "helper of an evaluated method"
				}
			}
		}
	}
	return nil
}

// appendStmt recognises `L = append(L, X)` and returns (L, X)
func (p *c19pkg) appendStmt(s ast.Stmt) (string, ast.Expr, bool) {
	as, ok := s.(*ast.AssignStmt)
	if !ok || as.Tok != token.ASSIGN || len(as.Lhs) != 1 || len(as.Rhs) != 1 {
		return "", nil, false
	}
	call, ok := as.Rhs[0].(*ast.CallExpr)
	if !ok || p.src(call.Fun) != "append" || len(call.Args) != 2 || call.Ellipsis.IsValid() {
		return "", nil, false
	}
	l := p.src(as.Lhs[0])
	if p.src(call.Args[0]) != l {
		return "", nil, false
	}
	return l, call.Args[1], true
}

// joinCall recognises `strings.Join(L, "SEP")`
func (p *c19pkg) joinCall(e ast.Expr, list string) (string, bool) {
	call, ok := e.(*ast.CallExpr)
	if !ok || p.src(call.Fun) != "strings.Join" || len(call.Args) != 2 || p.src(call.Args[0]) != list {
		return "", false
	}
	sep, err := p.stringLit(call.Args[1])
	if err != nil {
		return "", false
	}
	return sep, true
}

func c19SeqDecomp(p *c19pkg, f *ast.File, cfg famCfg, fam *C19Family) error {
	fd, recv, err := p.method(f, cfg.goType, cfg.decomp)
	if err != nil {
		return err
	}
	subject, list := recv, ""
	fields := cfg.shape == "fields"
	if fields {
		subject, list = recv+".Value", recv+".Name"
		if fd.Type.Params.NumFields() != 1 || fd.Type.Results.NumFields() != 0 {
			return p.errf(fd, "%s: expected one parameter and no result", cfg.decomp)
		}
	} else if fd.Type.Params.NumFields() != 0 || fd.Type.Results.NumFields() != 1 || p.src(fd.Type.Results.List[0].Type) != "string" {
		return p.errf(fd, "%s: expected signature () string", cfg.decomp)
	}
	const (
		stHead = iota
		stRows
		stTail
		stDone
	)
	state := stHead
	resultVar := ""
	joined := false
	for _, st := range fd.Body.List {
		src := p.src(st)
		switch state {
		case stHead:
			if fields {
				param := fd.Type.Params.List[0].Names[0].Name
				if src == subject+" = "+param || src == list+" = []string{}" {
					continue
				}
			} else {
				if ds, ok := st.(*ast.DeclStmt); ok {
					g := ds.Decl.(*ast.GenDecl)
					if g.Tok == token.VAR && len(g.Specs) == 1 {
						vs := g.Specs[0].(*ast.ValueSpec)
						if len(vs.Names) == 1 && len(vs.Values) == 0 {
							switch p.src(vs.Type) {
							case "string":
								resultVar = vs.Names[0].Name
								continue
							case "[]string":
								list = vs.Names[0].Name
								continue
							}
						}
					}
				}
			}
			state = stRows
			fallthrough
		case stRows:
			ifs, ok := st.(*ast.IfStmt)
			if !ok || ifs.Init != nil || ifs.Else != nil || len(ifs.Body.List) != 1 {
				return p.errf(st, "%s: statement `%s` is not `if x&M == M { list = append(list, \"NAME\") }`", cfg.decomp, firstLine(src))
			}
			if list == "" {
				return p.errf(st, "%s: no `var list []string` before the first test", cfg.decomp)
			}
			// the empty-result clause ends the rows
			if p.src(ifs.Cond) == "len("+list+") == 0" {
				body := ifs.Body.List[0]
				if rs, ok := body.(*ast.ReturnStmt); ok && !fields && len(rs.Results) == 1 {
					lit, err := p.stringLit(rs.Results[0])
					if err != nil {
						return err
					}
					fam.EmptyMode, fam.EmptyLit = "return", lit
				} else if l, x, ok := p.appendStmt(body); ok && fields && l == list {
					lit, err := p.stringLit(x)
					if err != nil {
						return err
					}
					fam.EmptyMode, fam.EmptyLit = "append", lit
				} else {
					return p.errf(st, "%s: empty-result clause `%s` not understood", cfg.decomp, firstLine(src))
				}
				state = stTail
				continue
			}
			t, err := p.parseTest(ifs.Cond, subject)
			if err != nil {
				return err
			}
			l, x, ok := p.appendStmt(ifs.Body.List[0])
			if !ok || l != list {
				return p.errf(st, "%s: body of `%s` is not `%s = append(%s, \"NAME\")`", cfg.decomp, firstLine(src), list, list)
			}
			name, err := p.stringLit(x)
			if err != nil {
				return err
			}
			fam.Rows = append(fam.Rows, C19Row{Test: t, Name: name, Pos: p.pos(st)})
		case stTail:
			if fields {
				return p.errf(st, "%s: statement after the empty-result clause", cfg.decomp)
			}
			if as, ok := st.(*ast.AssignStmt); ok && as.Tok == token.ASSIGN && len(as.Lhs) == 1 && len(as.Rhs) == 1 && resultVar != "" && p.src(as.Lhs[0]) == resultVar {
				sep, ok := p.joinCall(as.Rhs[0], list)
				if !ok {
					return p.errf(st, "%s: `%s` is not %s = strings.Join(%s, SEP)", cfg.decomp, src, resultVar, list)
				}
				fam.Sep, joined = sep, true
				continue
			}
			rs, ok := st.(*ast.ReturnStmt)
			if !ok || len(rs.Results) != 1 {
				return p.errf(st, "%s: `%s` not understood after the empty-result clause", cfg.decomp, firstLine(src))
			}
			if joined && p.src(rs.Results[0]) == resultVar {
				state = stDone
				continue
			}
			sep, ok := p.joinCall(rs.Results[0], list)
			if !ok || joined {
				return p.errf(st, "%s: `%s` is not return strings.Join(%s, SEP)", cfg.decomp, src, list)
			}
			fam.Sep = sep
			state = stDone
		case stDone:
			return p.errf(st, "%s: statement after the final return", cfg.decomp)
		}
	}
	if fields && state != stTail || !fields && state != stDone {
		return p.errf(fd, "%s: function ended before its empty-result clause / final return", cfg.decomp)
	}
	if len(fam.Rows) == 0 {
		return p.errf(fd, "%s: no rows", cfg.decomp)
	}
	p.claimed[fd] = "decomposition"
	return nil
}

func firstLine(s string) string {
	if i := strings.IndexByte(s, '\n'); i >= 0 {
		return s[:i] + " …"
	}
	return s
}

// rangeOverMap recognises
//
//	for K[, V] := range MAP { if subject&K != 0 { L = append(L, V|K) } }
func (p *c19pkg) rangeOverMap(st ast.Stmt, mapVar, subject, list string, wantValue bool) error {
	rs, ok := st.(*ast.RangeStmt)
	if !ok || rs.Tok != token.DEFINE || p.src(rs.X) != mapVar || rs.Key == nil {
		return p.errf(st, "`%s` is not a range over %s", firstLine(p.src(st)), mapVar)
	}
	key := p.src(rs.Key)
	val := ""
	if rs.Value != nil {
		val = p.src(rs.Value)
	}
	if wantValue && (val == "" || val == "_") || !wantValue && val != "" {
		return p.errf(st, "range over %s binds the wrong variables", mapVar)
	}
	if len(rs.Body.List) != 1 {
		return p.errf(st, "range body is not a single if statement")
	}
	ifs, ok := rs.Body.List[0].(*ast.IfStmt)
	if !ok || ifs.Init != nil || ifs.Else != nil || len(ifs.Body.List) != 1 {
		return p.errf(st, "range body is not a single if statement")
	}
	want := subject + "&" + key + " != 0"
	if p.src(ifs.Cond) != want {
		return p.errf(ifs, "condition `%s`, expected `%s`", p.src(ifs.Cond), want)
	}
	l, x, ok := p.appendStmt(ifs.Body.List[0])
	item := key
	if wantValue {
		item = val
	}
	if !ok || l != list || p.src(x) != item {
		return p.errf(ifs, "body is not `%s = append(%s, %s)`", list, list, item)
	}
	return nil
}

// rangeOverGetFlags recognises, for X the slice GetFlags() returned,
//
//	for I, K := range X { L[I] = MAP[K] }      (L made with len(X): sized == X)
//	for _, K := range X { L = append(L, MAP[K]) }
func (p *c19pkg) rangeOverGetFlags(rs *ast.RangeStmt, mapVar, list, sized string) error {
	if rs.Tok != token.DEFINE || rs.Key == nil || rs.Value == nil || len(rs.Body.List) != 1 {
		return p.errf(rs, "range over the GetFlags() result: expected `for i, k := range … { one statement }`")
	}
	idx, key := p.src(rs.Key), p.src(rs.Value)
	item := mapVar + "[" + key + "]"
	if sized != "" {
		if sized != p.src(rs.X) || idx == "_" {
			return p.errf(rs, "the list is sized by len(%s) but filled from `%s`", sized, p.src(rs.X))
		}
		if got, want := p.src(rs.Body.List[0]), list+"["+idx+"] = "+item; got != want {
			return p.errf(rs, "range body `%s` is not `%s`", got, want)
		}
		return nil
	}
	l, x, ok := p.appendStmt(rs.Body.List[0])
	if !ok || l != list || p.src(x) != item {
		return p.errf(rs, "range body is not `%s = append(%s, %s)`", list, list, item)
	}
	return nil
}

func c19MapSortDecomp(p *c19pkg, f *ast.File, cfg famCfg, fam *C19Family) error {
	ents, err := p.readMapLiteral(f, cfg.mapVar, cfg.goType, "string", "flag name map of "+cfg.id)
	if err != nil {
		return err
	}
	for _, e := range ents {
		name, err := p.stringLit(e.val)
		if err != nil {
			return err
		}
		// the row of a map entry is the test the range loop applies to its key: uac&key != 0
		fam.Rows = append(fam.Rows, C19Row{Test: C19Test{Mask: e.key, Rhs: 0, Neg: true, Src: "uac&" + e.keySrc + " != 0"}, Name: name, Pos: p.pos(e.node)})
	}
	fam.Sorted = true
	// String()
	fd, recv, err := p.method(f, cfg.goType, "String")
	if err != nil {
		return err
	}
	if fd.Type.Params.NumFields() != 0 || fd.Type.Results.NumFields() != 1 || p.src(fd.Type.Results.List[0].Type) != "string" {
		return p.errf(fd, "String: expected signature () string")
	}
	b := fd.Body.List
	// Normalisation "names through GetFlags" (DESIGN.md §7).  Canonical form: the names of the map entries
	// whose key has a bit in common with the word, sorted, joined.  Accepted sources of that list:
	//   (a) for K, V := range MAP { if u&K != 0 { L = append(L, V) } }
	//   (b) [X := u.GetFlags()]  for I|_, K := range X|u.GetFlags() { L[I] = MAP[K]  |  L = append(L, MAP[K]) }
	// (b) means the same as (a): GetFlags — which must itself have the canonical shape read below —
	// returns exactly the keys K of MAP with u&K != 0, each once (map keys are distinct), so MAP[K] over
	// them is the multiset of names (a) collects, and sort.Strings makes the order immaterial.  L may
	// start as `[]string{}`, `var L []string`, `make([]string, 0[, n])` (append form) or, for the indexed
	// form only, `make([]string, len(X))` with X the ranged slice: then every element is assigned exactly
	// once.  Anything else between these statements is refused.
	viaGetFlags := ""
	if len(b) > 0 {
		if as, ok := b[0].(*ast.AssignStmt); ok && as.Tok == token.DEFINE && len(as.Lhs) == 1 && len(as.Rhs) == 1 && p.src(as.Rhs[0]) == recv+".GetFlags()" {
			viaGetFlags = p.src(as.Lhs[0])
			b = b[1:]
		}
	}
	if len(b) != 4 {
		return p.errf(fd, "String: expected 4 statements (list := []string{}; for range map; sort.Strings; return strings.Join), found %d", len(fd.Body.List))
	}
	list, sized := "", ""
	switch x := b[0].(type) {
	case *ast.AssignStmt:
		if x.Tok == token.DEFINE && len(x.Lhs) == 1 && len(x.Rhs) == 1 {
			rhs := p.src(x.Rhs[0])
			if rhs == "[]string{}" {
				list = p.src(x.Lhs[0])
			} else if call, ok := x.Rhs[0].(*ast.CallExpr); ok && p.src(call.Fun) == "make" && len(call.Args) >= 2 && len(call.Args) <= 3 && p.src(call.Args[0]) == "[]string" {
				if p.src(call.Args[1]) == "0" {
					list = p.src(x.Lhs[0])
				} else if len(call.Args) == 2 && strings.HasPrefix(p.src(call.Args[1]), "len(") {
					list, sized = p.src(x.Lhs[0]), strings.TrimSuffix(strings.TrimPrefix(p.src(call.Args[1]), "len("), ")")
				}
			}
		}
	case *ast.DeclStmt:
		if g, ok := x.Decl.(*ast.GenDecl); ok && g.Tok == token.VAR && len(g.Specs) == 1 {
			vs := g.Specs[0].(*ast.ValueSpec)
			if len(vs.Names) == 1 && len(vs.Values) == 0 && p.src(vs.Type) == "[]string" {
				list = vs.Names[0].Name
			}
		}
	}
	if list == "" {
		return p.errf(b[0], "String: `%s` does not start an empty []string (or one sized by the slice it is filled from)", p.src(b[0]))
	}
	if rs, ok := b[1].(*ast.RangeStmt); ok && (p.src(rs.X) == recv+".GetFlags()" || viaGetFlags != "" && p.src(rs.X) == viaGetFlags) {
		if err := p.rangeOverGetFlags(rs, cfg.mapVar, list, sized); err != nil {
			return err
		}
	} else {
		if viaGetFlags != "" || sized != "" {
			return p.errf(b[1], "String: `%s` is not a range over the GetFlags() result", firstLine(p.src(b[1])))
		}
		if err := p.rangeOverMap(b[1], cfg.mapVar, recv, list, true); err != nil {
			return err
		}
	}
	if p.src(b[2]) != "sort.Strings("+list+")" {
		return p.errf(b[2], "String: `%s` is not sort.Strings(%s)", p.src(b[2]), list)
	}
	rs, ok := b[3].(*ast.ReturnStmt)
	if !ok || len(rs.Results) != 1 {
		return p.errf(b[3], "String: last statement is not a return")
	}
	sep, ok := p.joinCall(rs.Results[0], list)
	if !ok {
		return p.errf(b[3], "String: `%s` is not return strings.Join(%s, SEP)", p.src(b[3]), list)
	}
	fam.Sep = sep
	p.claimed[fd] = "decomposition"
	// GetFlags()
	gd, recv2, err := p.method(f, cfg.goType, "GetFlags")
	if err != nil {
		return err
	}
	g := gd.Body.List
	if len(g) != 4 {
		return p.errf(gd, "GetFlags: expected 4 statements, found %d", len(g))
	}
	as, ok := g[0].(*ast.AssignStmt)
	if !ok || as.Tok != token.DEFINE || len(as.Lhs) != 1 || p.src(as.Rhs[0]) != "[]"+cfg.goType+"{}" {
		return p.errf(g[0], "GetFlags: first statement is not `flags := []%s{}`", cfg.goType)
	}
	fl := p.src(as.Lhs[0])
	if err := p.rangeOverMap(g[1], cfg.mapVar, recv2, fl, false); err != nil {
		return err
	}
	wantSort := "sort.Slice(" + fl + ", func(i, j int) bool {\n\treturn " + fl + "[i] < " + fl + "[j]\n})"
	if p.src(g[2]) != wantSort {
		return p.errf(g[2], "GetFlags: `%s` is not an ascending sort.Slice of %s", firstLine(p.src(g[2])), fl)
	}
	if p.src(g[3]) != "return "+fl {
		return p.errf(g[3], "GetFlags: does not return %s", fl)
	}
	fam.GetFlags = true
	p.claimed[gd] = "getflags"
	return nil
}
