// Fact C19Codes: code -> name tables (command codes, the three sub-command families, session
// message types, the enumerations of ldap_attributes and of keycredential/key).
//
// Recognised shapes:
//
//	map     var M = map[T]string{ CONST: "NAME", ... }
//	        func (x T) F() string {
//	          if v, ok := M[x]; ok { return v }            |  if _, ok := M[x]; ok { return M[x] }
//	          return FALLBACK                               |  ... else { return FALLBACK }
//	        }                                     (found branch may be fmt.Sprintf("PRE%sPOST", v))
//	switch  func (x *T) F() string { switch x.Value { case CONST: return "NAME" ... default: return FALLBACK } [return FALLBACK] }
//	assign  func (x *T) FromBytes(...) { <known prologue> ; switch x.Value { case CONST: x.Name = "NAME" ... } }
//	FALLBACK ::= "LIT" | fmt.Sprintf("PRE%dPOST", x | int(x) | x.Value | int(x.Value))
//
// The fact also checks that every non-test file of the three anchor directories is either handled
// by a C19 fact, or declares constants only, or is explicitly listed as not being a C19 subject.
package main

import (
	"fmt"
	"go/ast"
	"go/token"
	"sort"
	"strings"
)

func init() { facts["C19Codes"] = c19CodesFact }

type codeCfg struct {
	id, dir, file, goType string
	constType             string
	constBlock            int
	shape                 string // "map" | "switch" | "assign"
	fn                    string
	mapVar                string
	subject               string // switch subject relative to the receiver: "" (the receiver) or ".Value"
	prologue              []string
	// optGuard: a length guard that may precede the prologue (fixes/C07-keycredential-fixed-width-readers.diff:
	// a short buffer is not read; the naming switch that follows is unchanged).  Both shapes are accepted.
	optGuard string
}

var c19CodeTables = []codeCfg{
	{id: "CommandCode", dir: "network/smb/smb_v10/message/commands/codes", file: "codes.go", goType: "CommandCode", constType: "CommandCode", shape: "map", fn: "String", mapVar: "CommandCodeNames"},
	{id: "NtTransactSubcommand", dir: "network/smb/smb_v10/subcommands", file: "nt_transact_subcommands.go", goType: "NtTransactSubcommand", constType: "NtTransactSubcommand", shape: "map", fn: "String", mapVar: "NtTransactSubcommandsToString"},
	{id: "Transaction2Subcommand", dir: "network/smb/smb_v10/subcommands", file: "transaction2_subcommands.go", goType: "Transaction2Subcommand", constType: "Transaction2Subcommand", shape: "map", fn: "String", mapVar: "Transaction2SubcommandsToString"},
	{id: "TransactionSubcommand", dir: "network/smb/smb_v10/subcommands", file: "transaction_subcommands.go", goType: "TransactionSubcommand", constType: "TransactionSubcommand", shape: "map", fn: "String", mapVar: "TransactionSubcommandsToString"},
	{id: "SessionMessageType", dir: "network/netbios", file: "session.go", goType: "SESSION_MESSAGE_TYPE", constType: "SESSION_MESSAGE_TYPE", shape: "map", fn: "String", mapVar: "SessionMessageTypeToString"},
	{id: "DomainFunctionalityLevel", dir: "network/ldap/ldap_attributes", file: "domain_functionnality_level.go", goType: "DomainFunctionalityLevel", constType: "DomainFunctionalityLevel", shape: "map", fn: "String", mapVar: "DomainFunctionalityLevelToWindowsVersion"},
	{id: "MSPKIEnrollmentFlag", dir: "network/ldap/ldap_attributes", file: "msPKI-Enrollment-Flag.go", goType: "MSPKIEnrollmentFlag", constType: "untyped int", shape: "map", fn: "String", mapVar: "MSPKIEnrollmentFlagMap"},
	{id: "PasswordProperties", dir: "network/ldap/ldap_attributes", file: "pwdProperties.go", goType: "PasswordProperties", constType: "PasswordProperties", shape: "map", fn: "String", mapVar: "PasswordPropertiesMap"},
	{id: "PasswordPropertiesDescription", dir: "network/ldap/ldap_attributes", file: "pwdProperties.go", goType: "PasswordProperties", constType: "PasswordProperties", shape: "map", fn: "Description", mapVar: "PasswordPropertiesDescriptions"},
	{id: "SAMAccountType", dir: "network/ldap/ldap_attributes", file: "sAMAccountType.go", goType: "SAMAccountType", constType: "untyped int", shape: "map", fn: "String", mapVar: "SAMAccountTypeMap"},
	{id: "KeyCredVolumeType", dir: "windows/keycredential/key", file: "CustomKeyInformationVolumeType.go", goType: "CustomKeyInformationVolumeType", constType: "uint8", shape: "switch", fn: "String", subject: ".Value"},
	{id: "KeyCredEntryType", dir: "windows/keycredential/key", file: "KeyCredentialEntryType.go", goType: "KeyCredentialEntryType", constType: "uint8", shape: "switch", fn: "String", subject: ".Value"},
	{id: "KeyCredVersion", dir: "windows/keycredential/key", file: "KeyCredentialVersion.go", goType: "KeyCredentialVersion", constType: "uint32", shape: "switch", fn: "String", subject: ".Value"},
	{id: "KeySource", dir: "windows/keycredential/key", file: "KeySource.go", goType: "KeySource", constType: "KeySource", shape: "switch", fn: "String", subject: ""},
	{id: "KeyStrength", dir: "windows/keycredential/key", file: "KeyStrength.go", goType: "KeyStrength", constType: "uint32", shape: "assign", fn: "FromBytes", subject: ".Value",
		prologue: []string{"$r.RawBytes = value[:4]", "$r.RawBytesSize = 4", "$r.Value = binary.LittleEndian.Uint32(value[:4])"},
		optGuard: "if len(value) < 4 {\n\t*$r = KeyStrength{}\n\treturn\n}"},
	{id: "KeyUsage", dir: "windows/keycredential/key", file: "KeyUsage.go", goType: "KeyUsage", constType: "uint8", shape: "switch", fn: "String", subject: ".Value"},
}

// functions of the handled files that are not naming functions (byte codecs, printers); listed so
// that a *new* function in one of these files is noticed
var c19CodesIgnoredFuncs = map[string]string{
	"domain_functionnality_level.go:DomainFunctionalityLevel.IsSupported":        "membership test on an enumeration, not a flag word",
	"CustomKeyInformationVolumeType.go:CustomKeyInformationVolumeType.FromBytes": "byte codec (C14)",
	"CustomKeyInformationVolumeType.go:CustomKeyInformationVolumeType.Describe":  "printer",
	"KeyCredentialEntryType.go:KeyCredentialEntryType.FromBytes":                 "byte codec (C14)",
	"KeyCredentialEntryType.go:KeyCredentialEntryType.ToBytes":                   "byte codec (C14)",
	"KeyCredentialVersion.go:KeyCredentialVersion.FromBytes":                     "byte codec (C14)",
	"KeyCredentialVersion.go:KeyCredentialVersion.ToBytes":                       "byte codec (C14)",
	"KeySource.go:KeySource.FromBytes":                                           "byte codec (C14)",
	"KeyUsage.go:KeyUsage.FromBytes":                                             "byte codec (C14)",
}

// per anchor directory: files handled by another C19 fact, and files that are not C19 subjects
var c19DirCoverage = map[string]map[string]string{
	"network/ldap/ldap_attributes":    {"UserAccountControl.go": "fact C19Flags"},
	"network/smb/smb_v10/subcommands": {},
	"windows/keycredential/key": {
		"CustomKeyInformationFlags.go": "fact C19Flags",
		"CustomKeyInformation.go":      "structure codec of the key-credential blob (C14); declares no constants and no naming function",
	},
}

func c19CodesFact(repo string) (string, any, error) {
	pkgs := map[string]*c19pkg{}
	load := func(dir string) (*c19pkg, error) {
		if p, ok := pkgs[dir]; ok {
			return p, nil
		}
		p, err := c19load(repo, dir)
		if err == nil {
			pkgs[dir] = p
		}
		return p, err
	}
	var tables []C19CodeTable
	handled := map[string]map[string]bool{}
	for _, cfg := range c19CodeTables {
		p, err := load(cfg.dir)
		if err != nil {
			return "", nil, err
		}
		t, err := c19CodeTable(p, cfg)
		if err != nil {
			return "", nil, fmt.Errorf("table %s: %w", cfg.id, err)
		}
		tables = append(tables, *t)
		if handled[cfg.dir] == nil {
			handled[cfg.dir] = map[string]bool{}
		}
		handled[cfg.dir][cfg.file] = true
	}
	// leftovers of handled files; coverage of the anchor directories
	for dir, files := range handled {
		var fl []string
		for f := range files {
			fl = append(fl, f)
		}
		sort.Strings(fl)
		allow := map[string]string{}
		for k, v := range c19CodesIgnoredFuncs {
			allow[k] = v
		}
		if pkgs[dir].evaluated {
			// unexported functions of the handled files are helpers of an evaluated naming function (see
			// c19FamilyByEvaluation): covered by its answers on the whole domain
			for _, fn := range fl {
				for _, d := range pkgs[dir].files[fn].Decls {
					if fd, ok := d.(*ast.FuncDecl); ok && !fd.Name.IsExported() {
						allow[fn+":"+funcKey(pkgs[dir], fd)] = "helper of an evaluated naming function"
					}
					if g, ok := d.(*ast.GenDecl); ok && g.Tok == token.VAR {
						for _, sp := range g.Specs {
							unexported := true
							for _, id := range sp.(*ast.ValueSpec).Names {
								unexported = unexported && !id.IsExported()
							}
							if _, done := pkgs[dir].claimed[sp]; !done && unexported {
								pkgs[dir].claimed[sp] = "helper of an evaluated naming function"
							}
						}
					}
				}
			}
		}
		if err := pkgs[dir].leftovers(fl, allow, true); err != nil {
			return "", nil, err
		}
	}
	var constOnly []string
	for dir, other := range c19DirCoverage {
		p, err := load(dir)
		if err != nil {
			return "", nil, err
		}
		for _, fn := range p.names {
			if handled[dir][fn] {
				continue
			}
			if _, ok := other[fn]; ok {
				if fn == "CustomKeyInformation.go" {
					if n := len(constBlocks(p.files[fn])); n != 0 {
						return "", nil, fmt.Errorf("%s/%s now declares constants; it was listed as not being a C19 subject", dir, fn)
					}
				}
				continue
			}
			// must declare constants/variables only
			for _, d := range p.files[fn].Decls {
				if fd, ok := d.(*ast.FuncDecl); ok {
					return "", nil, fmt.Errorf("%s: file %s/%s is not covered by any C19 recogniser and declares function %s", p.pos(fd), dir, fn, funcKey(p, fd))
				}
				if g, ok := d.(*ast.GenDecl); ok && g.Tok == token.VAR {
					for _, s := range g.Specs {
						for _, v := range s.(*ast.ValueSpec).Values {
							if cl, ok := v.(*ast.CompositeLit); ok {
								if _, isMap := cl.Type.(*ast.MapType); isMap {
									return "", nil, fmt.Errorf("%s: file %s/%s declares a map that no C19 recogniser reads", p.pos(g), dir, fn)
								}
							}
						}
					}
				}
			}
			constOnly = append(constOnly, dir+"/"+fn)
		}
	}
	sort.Strings(constOnly)

	var b strings.Builder
	b.WriteString("import Manticore.Model.C19\nnamespace Manticore.C19.Gen\nopen Manticore.C19\n\n")
	var ids []string
	for _, t := range tables {
		lid := "tbl" + t.ID
		ids = append(ids, lid)
		fmt.Fprintf(&b, "/-- %s.%s (%s, %s shape): %d constants, %d rows -/\n", t.GoType, t.Func, t.File, t.Shape, len(t.Consts), len(t.Rows))
		fmt.Fprintf(&b, "def %s : CodeTable where\n  id := %s\n  bits := %d\n  consts := [", lid, leanName(t.ID), t.Bits)
		for i, c := range t.Consts {
			if i > 0 {
				b.WriteString(", ")
			}
			fmt.Fprintf(&b, "0x%X", c.Value)
		}
		b.WriteString("]\n  rows := [")
		for i, r := range t.Rows {
			if i > 0 {
				b.WriteString(",")
			}
			fmt.Fprintf(&b, "\n    (0x%X, %s)", r.Value, leanName(r.Name))
		}
		b.WriteString("]\n")
		fmt.Fprintf(&b, "  fallback := %s\n  wrapPre := %s\n  wrapPost := %s\n\n", leanFallback(t.Fallback), leanName(t.WrapPre), leanName(t.WrapPost))
	}
	fmt.Fprintf(&b, "def codeTables : List CodeTable := [%s]\n\n", strings.Join(ids, ", "))
	b.WriteString("/- files of the anchor directories that declare constants only (no naming function to check):\n")
	for _, f := range constOnly {
		b.WriteString("   " + f + "\n")
	}
	b.WriteString("-/\nend Manticore.C19.Gen\n")
	return b.String(), map[string]any{"tables": tables, "const_only_files": constOnly}, nil
}

func leanFallback(f C19Fallback) string {
	if f.Kind == "lit" {
		return ".lit " + leanName(f.Lit)
	}
	return fmt.Sprintf(".fmtDec %s %s", leanName(f.Pre), leanName(f.Post))
}

func c19CodeTable(p *c19pkg, cfg codeCfg) (*C19CodeTable, error) {
	f, err := p.file(cfg.file)
	if err != nil {
		return nil, err
	}
	t := &C19CodeTable{ID: cfg.id, File: cfg.dir + "/" + cfg.file, GoType: cfg.goType, Func: cfg.fn, Shape: cfg.shape}
	if t.Bits, err = p.bitsOf(cfg.goType); err != nil {
		return nil, err
	}
	blocks := constBlocks(f)
	if len(blocks) != 1 {
		return nil, fmt.Errorf("%s: %d const blocks, expected 1", t.File, len(blocks))
	}
	if prev, ok := p.claimed[blocks[0]]; ok && prev != "" {
		// second table over the same constants (PasswordProperties String/Description)
		delete(p.claimed, blocks[0])
	}
	if t.Consts, err = p.readConstBlock(blocks[cfg.constBlock], cfg.constType, "constants of "+cfg.goType); err != nil {
		return nil, err
	}
	for _, c := range t.Consts {
		if t.Bits < 64 && c.Value>>uint(t.Bits) != 0 {
			return nil, fmt.Errorf("%s: constant %s = %#x does not fit the %d-bit type %s", c.Pos, c.Ident, c.Value, t.Bits, cfg.goType)
		}
	}
	fd, recv, err := p.method(f, cfg.goType, cfg.fn)
	if err != nil {
		return nil, err
	}
	switch cfg.shape {
	case "map":
		ents, err := p.readMapLiteral(f, cfg.mapVar, cfg.goType, "string", "name map of "+cfg.goType)
		if err != nil {
			return nil, err
		}
		for _, e := range ents {
			name, err := p.stringLit(e.val)
			if err != nil {
				return nil, err
			}
			t.Rows = append(t.Rows, C19CodeRow{Key: e.keySrc, Value: e.key, Name: name, Pos: p.pos(e.node)})
		}
		if err := c19LookupFunc(p, fd, recv, cfg, t); err != nil {
			// Translation by evaluation (c19_eval.go): the rows stay the entries of the name map read above;
			// what the function does with them (wrapping of a found name, fall-back text) is read off its
			// answers on the WHOLE 8/16-bit domain and the finished table is verified on every value.
			_, ptr := fd.Recv.List[0].Type.(*ast.StarExpr)
			sig := fd.Type.Params.NumFields() == 0 && fd.Type.Results.NumFields() == 1 && p.src(fd.Type.Results.List[0].Type) == "string"
			if t.Bits > 16 || ptr || !sig || !fd.Name.IsExported() {
				return nil, err
			}
			what := fmt.Sprintf("%s.%s (%s)", cfg.goType, cfg.fn, t.File)
			ans, eerr := c19Evaluate(p.repo, cfg.dir, t.Bits, []evalReq{{ID: "f", Kind: "string", Type: cfg.goType, Method: cfg.fn}})
			if eerr == nil {
				eerr = c19SynthLookup(t, ans["f"].Strings, what)
			}
			if eerr != nil {
				return nil, fmt.Errorf("%s\n  no shape the syntactic reader knows:\n    %s", eerr, err)
			}
			p.evaluated = true
		}
	case "switch", "assign":
		if err := c19SwitchFunc(p, fd, recv, cfg, t); err != nil {
			// Translation by evaluation (c19_eval.go) of a `String() string` over an 8/16-bit code kept in the field
			// `Value` of a struct: there is no name map to take the rows from, so the rows ARE the answers — every value
			// whose answer is not the fall-back rendering is a row (ascending), which reproduces the method on the
			// whole domain by construction.
			sig := fd.Type.Params.NumFields() == 0 && fd.Type.Results.NumFields() == 1 && p.src(fd.Type.Results.List[0].Type) == "string"
			if cfg.shape != "switch" || t.Bits > 16 || !sig || !fd.Name.IsExported() || (cfg.subject != ".Value" && cfg.subject != "") {
				return nil, err
			}
			t.Rows, t.Fallback, t.WrapPre, t.WrapPost = nil, C19Fallback{}, "", ""
			what := fmt.Sprintf("%s.%s (%s)", cfg.goType, cfg.fn, t.File)
			ans, eerr := c19Evaluate(p.repo, cfg.dir, t.Bits, []evalReq{{ID: "f", Kind: "string", Type: cfg.goType, Method: cfg.fn, Struct: cfg.subject == ".Value"}})
			if eerr == nil {
				eerr = c19SynthRows(t, ans["f"].Strings, what)
			}
			if eerr != nil {
				return nil, fmt.Errorf("%s\n  no shape the syntactic reader knows:\n    %s", eerr, err)
			}
			p.evaluated = true
		}
	default:
		return nil, fmt.Errorf("unknown shape %s", cfg.shape)
	}
	if len(t.Rows) == 0 {
		return nil, p.errf(fd, "%s: no rows", cfg.fn)
	}
	p.claimed[fd] = "naming function"
	return t, nil
}

// fallbackExpr recognises "LIT" or fmt.Sprintf("PRE%dPOST", subject)
func (p *c19pkg) fallbackExpr(e ast.Expr, subjects []string) (C19Fallback, error) {
	if lit, err := p.stringLit(e); err == nil {
		return C19Fallback{Kind: "lit", Lit: lit}, nil
	}
	call, ok := e.(*ast.CallExpr)
	if !ok || p.src(call.Fun) != "fmt.Sprintf" || len(call.Args) != 2 {
		return C19Fallback{}, p.errf(e, "fallback `%s` is neither a string literal nor fmt.Sprintf(\"…%%d…\", value)", p.src(e))
	}
	format, err := p.stringLit(call.Args[0])
	if err != nil {
		return C19Fallback{}, err
	}
	arg := p.src(call.Args[1])
	okArg := false
	for _, s := range subjects {
		if arg == s || arg == "int("+s+")" {
			okArg = true
		}
	}
	if !okArg {
		return C19Fallback{}, p.errf(e, "fallback formats `%s`, expected the value itself (%v)", arg, subjects)
	}
	i := strings.Index(format, "%")
	if i < 0 || i+1 >= len(format) || format[i+1] != 'd' || strings.Contains(format[i+2:], "%") {
		return C19Fallback{}, p.errf(e, "fallback format %q is not of the form PRE%%dPOST", format)
	}
	return C19Fallback{Kind: "fmt", Pre: format[:i], Post: format[i+2:]}, nil
}

// foundExpr recognises what the found branch returns: V, M[x], or fmt.Sprintf("PRE%sPOST", V)
func (p *c19pkg) foundExpr(e ast.Expr, alts []string) (pre, post string, err error) {
	s := p.src(e)
	for _, a := range alts {
		if s == a {
			return "", "", nil
		}
	}
	call, ok := e.(*ast.CallExpr)
	if ok && p.src(call.Fun) == "fmt.Sprintf" && len(call.Args) == 2 {
		format, err := p.stringLit(call.Args[0])
		if err != nil {
			return "", "", err
		}
		arg := p.src(call.Args[1])
		for _, a := range alts {
			if arg == a {
				i := strings.Index(format, "%")
				if i < 0 || i+1 >= len(format) || format[i+1] != 's' || strings.Contains(format[i+2:], "%") {
					return "", "", p.errf(e, "format %q is not of the form PRE%%sPOST", format)
				}
				return format[:i], format[i+2:], nil
			}
		}
	}
	return "", "", p.errf(e, "found branch returns `%s`, expected the looked-up name (%v)", s, alts)
}

func c19LookupFunc(p *c19pkg, fd *ast.FuncDecl, recv string, cfg codeCfg, t *C19CodeTable) error {
	if fd.Type.Params.NumFields() != 0 || fd.Type.Results.NumFields() != 1 || p.src(fd.Type.Results.List[0].Type) != "string" {
		return p.errf(fd, "%s: expected signature () string", cfg.fn)
	}
	b := fd.Body.List
	if len(b) < 1 || len(b) > 2 {
		return p.errf(fd, "%s: expected `if v, ok := MAP[x]; ok { return v }` followed by the fallback return", cfg.fn)
	}
	ifs, ok := b[0].(*ast.IfStmt)
	if !ok || ifs.Init == nil || len(ifs.Body.List) != 1 {
		return p.errf(b[0], "%s: first statement is not a comma-ok map lookup", cfg.fn)
	}
	as, ok := ifs.Init.(*ast.AssignStmt)
	index := cfg.mapVar + "[" + recv + "]"
	if !ok || as.Tok != token.DEFINE || len(as.Lhs) != 2 || len(as.Rhs) != 1 || p.src(as.Rhs[0]) != index {
		return p.errf(b[0], "%s: `%s` is not `v, ok := %s`", cfg.fn, p.src(ifs.Init), index)
	}
	v, okVar := p.src(as.Lhs[0]), p.src(as.Lhs[1])
	if p.src(ifs.Cond) != okVar {
		return p.errf(b[0], "%s: condition `%s` is not the ok variable", cfg.fn, p.src(ifs.Cond))
	}
	rs, ok := ifs.Body.List[0].(*ast.ReturnStmt)
	if !ok || len(rs.Results) != 1 {
		return p.errf(b[0], "%s: found branch is not a return", cfg.fn)
	}
	alts := []string{index}
	if v != "_" {
		alts = append(alts, v)
	}
	var err error
	if t.WrapPre, t.WrapPost, err = p.foundExpr(rs.Results[0], alts); err != nil {
		return err
	}
	var fb ast.Expr
	if ifs.Else != nil {
		eb, ok := ifs.Else.(*ast.BlockStmt)
		if !ok || len(eb.List) != 1 || len(b) != 1 {
			return p.errf(b[0], "%s: else branch not understood", cfg.fn)
		}
		rs, ok := eb.List[0].(*ast.ReturnStmt)
		if !ok || len(rs.Results) != 1 {
			return p.errf(eb, "%s: else branch is not a return", cfg.fn)
		}
		fb = rs.Results[0]
	} else {
		if len(b) != 2 {
			return p.errf(fd, "%s: no fallback return", cfg.fn)
		}
		rs, ok := b[1].(*ast.ReturnStmt)
		if !ok || len(rs.Results) != 1 {
			return p.errf(b[1], "%s: last statement is not a return", cfg.fn)
		}
		fb = rs.Results[0]
	}
	t.Fallback, err = p.fallbackExpr(fb, []string{recv})
	return err
}

func c19SwitchFunc(p *c19pkg, fd *ast.FuncDecl, recv string, cfg codeCfg, t *C19CodeTable) error {
	subject := recv + cfg.subject
	assign := cfg.shape == "assign"
	b := fd.Body.List
	// prologue (assign shape only), possibly behind the known length guard
	if cfg.optGuard != "" && len(b) > 0 {
		if _, isIf := b[0].(*ast.IfStmt); isIf {
			squash := func(s string) string { return strings.Join(strings.Fields(s), " ") } // comments inside leave blank lines
			if got := p.src(b[0]); squash(got) != squash(strings.ReplaceAll(cfg.optGuard, "$r", recv)) {
				return p.errf(b[0], "%s: leading guard not understood: %q", cfg.fn, got)
			}
			b = b[1:]
		}
	}
	for _, want := range cfg.prologue {
		want = strings.ReplaceAll(want, "$r", recv)
		if len(b) == 0 || p.src(b[0]) != want {
			return p.errf(fd, "%s: expected prologue statement `%s`", cfg.fn, want)
		}
		b = b[1:]
	}
	if len(b) < 1 {
		return p.errf(fd, "%s: no switch statement", cfg.fn)
	}
	sw, ok := b[0].(*ast.SwitchStmt)
	if !ok || sw.Init != nil || sw.Tag == nil || p.src(sw.Tag) != subject {
		return p.errf(b[0], "%s: first statement is not `switch %s`", cfg.fn, subject)
	}
	var fallback ast.Expr
	for _, c := range sw.Body.List {
		cc := c.(*ast.CaseClause)
		if len(cc.Body) != 1 {
			return p.errf(cc, "%s: case body is not a single statement", cfg.fn)
		}
		var val ast.Expr
		if assign {
			as, ok := cc.Body[0].(*ast.AssignStmt)
			if !ok || as.Tok != token.ASSIGN || len(as.Lhs) != 1 || p.src(as.Lhs[0]) != recv+".Name" {
				return p.errf(cc, "%s: case body is not `%s.Name = \"NAME\"`", cfg.fn, recv)
			}
			val = as.Rhs[0]
		} else {
			rs, ok := cc.Body[0].(*ast.ReturnStmt)
			if !ok || len(rs.Results) != 1 {
				return p.errf(cc, "%s: case body is not `return \"NAME\"`", cfg.fn)
			}
			val = rs.Results[0]
		}
		if cc.List == nil { // default
			if assign {
				return p.errf(cc, "%s: default clause in an assigning switch is not understood", cfg.fn)
			}
			fallback = val
			continue
		}
		name, err := p.stringLit(val)
		if err != nil {
			return err
		}
		for _, k := range cc.List {
			v, err := p.constExpr(k)
			if err != nil {
				return err
			}
			t.Rows = append(t.Rows, C19CodeRow{Key: p.src(k), Value: v, Name: name, Pos: p.pos(cc)})
		}
	}
	b = b[1:]
	if assign {
		if len(b) != 0 {
			return p.errf(b[0], "%s: statement after the switch", cfg.fn)
		}
		// no case fires: Name keeps its previous value, "" on a fresh struct
		t.Fallback = C19Fallback{Kind: "lit", Lit: ""}
		return nil
	}
	if fallback == nil {
		if len(b) != 1 {
			return p.errf(fd, "%s: switch without default must be followed by exactly one return", cfg.fn)
		}
		rs, ok := b[0].(*ast.ReturnStmt)
		if !ok || len(rs.Results) != 1 {
			return p.errf(b[0], "%s: last statement is not a return", cfg.fn)
		}
		fallback = rs.Results[0]
	} else if len(b) != 0 {
		return p.errf(b[0], "%s: statement after a switch with default", cfg.fn)
	}
	var err error
	t.Fallback, err = p.fallbackExpr(fallback, []string{subject})
	return err
}
