// Fact C19Codes: code -> name tables (command codes, the three sub-command families, session
// message types, the enumerations of ldap_attributes and of keycredential/key).
//
// Recognised shapes:
//
//	map     var M = map[T]string{ CONST: "NAME", ... }
//	        func (x T) F() string {
//	          if v, ok := M[x]; ok { return v }            |  if _, ok := M[x]; ok { return M[x] }
//	          return FALLBACK                               |  ... else { return FALLBACK }
//	        }                                     (found branch may be fmt.Sprintf("PRE%sPOST", v))
//	        and every other arrangement of the comma-ok lookup, `ok`-conditions, local strings and helpers that
//	        returns the same two texts (see "lookup with a default" below: the body is run symbolically)
//	switch  func (x *T) F() string { switch x.Value { case CONST: return "NAME" ... default: return FALLBACK } [return FALLBACK] }
//	assign  func (x *T) FromBytes(...) { <known prologue> ; switch x.Value { case CONST: x.Name = "NAME" ... } }
//	FALLBACK ::= "LIT" | fmt.Sprintf("PRE%dPOST", x | int(x) | x.Value | int(x.Value))
//
// The fact also checks that every non-test file of the three anchor directories is either handled
// by a C19 fact, or declares constants only, or is explicitly listed as not being a C19 subject.
package main

import (
	"fmt"
	"go/ast"
	"go/constant"
	"go/token"
	"go/types"
	"sort"
	"strings"
)

func init() { facts["C19Codes"] = c19CodesFact }

type codeCfg struct {
	id, dir, file, goType string
	constType             string
	shape                 string // "map" | "switch" | "assign"
	fn                    string
	mapVar                string
	subject               string // switch subject relative to the receiver: "" (the receiver) or ".Value"
	prologue              []string
	// optGuard: a length guard that may precede the prologue (fixes/C07-keycredential-fixed-width-readers.diff:
	// a short buffer is not read; the naming switch that follows is unchanged).  Both shapes are accepted.
	optGuard string
}

var c19CodeTables = []codeCfg{
	{id: "CommandCode", dir: "network/smb/smb_v10/message/commands/codes", file: "codes.go", goType: "CommandCode", constType: "CommandCode", shape: "map", fn: "String", mapVar: "CommandCodeNames"},
	{id: "NtTransactSubcommand", dir: "network/smb/smb_v10/subcommands", file: "nt_transact_subcommands.go", goType: "NtTransactSubcommand", constType: "NtTransactSubcommand", shape: "map", fn: "String", mapVar: "NtTransactSubcommandsToString"},
	{id: "Transaction2Subcommand", dir: "network/smb/smb_v10/subcommands", file: "transaction2_subcommands.go", goType: "Transaction2Subcommand", constType: "Transaction2Subcommand", shape: "map", fn: "String", mapVar: "Transaction2SubcommandsToString"},
	{id: "TransactionSubcommand", dir: "network/smb/smb_v10/subcommands", file: "transaction_subcommands.go", goType: "TransactionSubcommand", constType: "TransactionSubcommand", shape: "map", fn: "String", mapVar: "TransactionSubcommandsToString"},
	{id: "SessionMessageType", dir: "network/netbios", file: "session.go", goType: "SESSION_MESSAGE_TYPE", constType: "SESSION_MESSAGE_TYPE", shape: "map", fn: "String", mapVar: "SessionMessageTypeToString"},
	{id: "DomainFunctionalityLevel", dir: "network/ldap/ldap_attributes", file: "domain_functionnality_level.go", goType: "DomainFunctionalityLevel", constType: "DomainFunctionalityLevel", shape: "map", fn: "String", mapVar: "DomainFunctionalityLevelToWindowsVersion"},
	{id: "MSPKIEnrollmentFlag", dir: "network/ldap/ldap_attributes", file: "msPKI-Enrollment-Flag.go", goType: "MSPKIEnrollmentFlag", constType: "untyped int", shape: "map", fn: "String", mapVar: "MSPKIEnrollmentFlagMap"},
	{id: "PasswordProperties", dir: "network/ldap/ldap_attributes", file: "pwdProperties.go", goType: "PasswordProperties", constType: "PasswordProperties", shape: "map", fn: "String", mapVar: "PasswordPropertiesMap"},
	{id: "PasswordPropertiesDescription", dir: "network/ldap/ldap_attributes", file: "pwdProperties.go", goType: "PasswordProperties", constType: "PasswordProperties", shape: "map", fn: "Description", mapVar: "PasswordPropertiesDescriptions"},
	{id: "SAMAccountType", dir: "network/ldap/ldap_attributes", file: "sAMAccountType.go", goType: "SAMAccountType", constType: "untyped int", shape: "map", fn: "String", mapVar: "SAMAccountTypeMap"},
	{id: "KeyCredVolumeType", dir: "windows/keycredential/key", file: "CustomKeyInformationVolumeType.go", goType: "CustomKeyInformationVolumeType", constType: "uint8", shape: "switch", fn: "String", subject: ".Value"},
	{id: "KeyCredEntryType", dir: "windows/keycredential/key", file: "KeyCredentialEntryType.go", goType: "KeyCredentialEntryType", constType: "uint8", shape: "switch", fn: "String", subject: ".Value"},
	{id: "KeyCredVersion", dir: "windows/keycredential/key", file: "KeyCredentialVersion.go", goType: "KeyCredentialVersion", constType: "uint32", shape: "switch", fn: "String", subject: ".Value"},
	{id: "KeySource", dir: "windows/keycredential/key", file: "KeySource.go", goType: "KeySource", constType: "KeySource", shape: "switch", fn: "String", subject: ""},
	{id: "KeyStrength", dir: "windows/keycredential/key", file: "KeyStrength.go", goType: "KeyStrength", constType: "uint32", shape: "assign", fn: "FromBytes", subject: ".Value",
		prologue: []string{"$r.RawBytes = value[:4]", "$r.RawBytesSize = 4", "$r.Value = binary.LittleEndian.Uint32(value[:4])"},
		optGuard: "if len(value) < 4 {\n\t*$r = KeyStrength{}\n\treturn\n}"},
	{id: "KeyUsage", dir: "windows/keycredential/key", file: "KeyUsage.go", goType: "KeyUsage", constType: "uint8", shape: "switch", fn: "String", subject: ".Value"},
}

// functions of the handled files that are not naming functions (byte codecs, printers); listed so
// that a *new* function in one of these files is noticed
var c19CodesIgnoredFuncs = map[string]string{
	"domain_functionnality_level.go:DomainFunctionalityLevel.IsSupported":        "membership test on an enumeration, not a flag word",
	"CustomKeyInformationVolumeType.go:CustomKeyInformationVolumeType.FromBytes": "byte codec (C14)",
	"CustomKeyInformationVolumeType.go:CustomKeyInformationVolumeType.Describe":  "printer",
	"KeyCredentialEntryType.go:KeyCredentialEntryType.FromBytes":                 "byte codec (C14)",
	"KeyCredentialEntryType.go:KeyCredentialEntryType.ToBytes":                   "byte codec (C14)",
	"KeyCredentialVersion.go:KeyCredentialVersion.FromBytes":                     "byte codec (C14)",
	"KeyCredentialVersion.go:KeyCredentialVersion.ToBytes":                       "byte codec (C14)",
	"KeySource.go:KeySource.FromBytes":                                           "byte codec (C14)",
	"KeyUsage.go:KeyUsage.FromBytes":                                             "byte codec (C14)",
}

// per anchor directory: files handled by another C19 fact, and files that are not C19 subjects
var c19DirCoverage = map[string]map[string]string{
	"network/ldap/ldap_attributes":    {"UserAccountControl.go": "fact C19Flags"},
	"network/smb/smb_v10/subcommands": {},
	"windows/keycredential/key": {
		"CustomKeyInformationFlags.go": "fact C19Flags",
		"CustomKeyInformation.go":      "structure codec of the key-credential blob (C14); declares no constants and no naming function",
	},
}

func c19CodesFact(repo string) (string, any, error) {
	pkgs := map[string]*c19pkg{}
	load := func(dir string) (*c19pkg, error) {
		if p, ok := pkgs[dir]; ok {
			return p, nil
		}
		p, err := c19load(repo, dir)
		if err == nil {
			pkgs[dir] = p
		}
		return p, err
	}
	var tables []C19CodeTable
	handled := map[string]map[string]bool{}
	for _, cfg := range c19CodeTables {
		p, err := load(cfg.dir)
		if err != nil {
			return "", nil, err
		}
		t, err := c19CodeTable(p, cfg)
		if err != nil {
			return "", nil, fmt.Errorf("table %s: %w", cfg.id, err)
		}
		tables = append(tables, *t)
		if handled[cfg.dir] == nil {
			handled[cfg.dir] = map[string]bool{}
		}
		handled[cfg.dir][cfg.file] = true
	}
	// leftovers of handled files; coverage of the anchor directories
	for dir, files := range handled {
		var fl []string
		for f := range files {
			fl = append(fl, f)
		}
		sort.Strings(fl)
		allow := map[string]string{}
		for k, v := range c19CodesIgnoredFuncs {
			allow[k] = v
		}
		if pkgs[dir].evaluated {
			// unexported functions of the handled files are helpers of an evaluated naming function (see
			// c19FamilyByEvaluation): covered by its answers on the whole domain
			for _, fn := range fl {
				for _, d := range pkgs[dir].files[fn].Decls {
					if fd, ok := d.(*ast.FuncDecl); ok && !fd.Name.IsExported() {
						allow[fn+":"+funcKey(pkgs[dir], fd)] = "helper of an evaluated naming function"
					}
					if g, ok := d.(*ast.GenDecl); ok && (g.Tok == token.VAR || g.Tok == token.CONST) {
						// (constants of a table's own type were read and claimed by tableConsts; what is left here is
						// e.g. the unexported text of a default, whose effect is in the answers)
						for _, sp := range g.Specs {
							unexported := true
							for _, id := range sp.(*ast.ValueSpec).Names {
								unexported = unexported && !id.IsExported()
							}
							if _, done := pkgs[dir].claimed[sp]; !done && unexported {
								pkgs[dir].claimed[sp] = "helper of an evaluated naming function"
							}
						}
					}
				}
			}
		}
		if err := pkgs[dir].leftovers(fl, allow, true); err != nil {
			return "", nil, err
		}
	}
	var constOnly []string
	for dir, other := range c19DirCoverage {
		p, err := load(dir)
		if err != nil {
			return "", nil, err
		}
		for _, fn := range p.names {
			if handled[dir][fn] {
				continue
			}
			if _, ok := other[fn]; ok {
				if fn == "CustomKeyInformation.go" {
					if n := len(constBlocks(p.files[fn])); n != 0 {
						return "", nil, fmt.Errorf("%s/%s now declares constants; it was listed as not being a C19 subject", dir, fn)
					}
				}
				continue
			}
			// a file that holds nothing but what the recognisers above consumed (the helper of a lookup and its
			// default text, moved into a file of their own) is covered by them: not listed, nothing left to check
			if p.allClaimed(fn) {
				continue
			}
			// must declare constants/variables only
			for _, d := range p.files[fn].Decls {
				if fd, ok := d.(*ast.FuncDecl); ok {
					if _, done := p.claimed[fd]; done {
						continue
					}
					return "", nil, fmt.Errorf("%s: file %s/%s is not covered by any C19 recogniser and declares function %s", p.pos(fd), dir, fn, funcKey(p, fd))
				}
				if g, ok := d.(*ast.GenDecl); ok && g.Tok == token.VAR {
					for _, s := range g.Specs {
						for _, v := range s.(*ast.ValueSpec).Values {
							if cl, ok := v.(*ast.CompositeLit); ok {
								if _, isMap := cl.Type.(*ast.MapType); isMap {
									return "", nil, fmt.Errorf("%s: file %s/%s declares a map that no C19 recogniser reads", p.pos(g), dir, fn)
								}
							}
						}
					}
				}
			}
			constOnly = append(constOnly, dir+"/"+fn)
		}
	}
	sort.Strings(constOnly)

	var b strings.Builder
	b.WriteString("import Manticore.Model.C19\nnamespace Manticore.C19.Gen\nopen Manticore.C19\n\n")
	var ids []string
	for _, t := range tables {
		lid := "tbl" + t.ID
		ids = append(ids, lid)
		fmt.Fprintf(&b, "/-- %s.%s (%s, %s shape): %d constants, %d rows -/\n", t.GoType, t.Func, t.File, t.Shape, len(t.Consts), len(t.Rows))
		fmt.Fprintf(&b, "def %s : CodeTable where\n  id := %s\n  bits := %d\n  consts := [", lid, leanName(t.ID), t.Bits)
		for i, c := range t.Consts {
			if i > 0 {
				b.WriteString(", ")
			}
			fmt.Fprintf(&b, "0x%X", c.Value)
		}
		b.WriteString("]\n  rows := [")
		for i, r := range t.Rows {
			if i > 0 {
				b.WriteString(",")
			}
			fmt.Fprintf(&b, "\n    (0x%X, %s)", r.Value, leanName(r.Name))
		}
		b.WriteString("]\n")
		fmt.Fprintf(&b, "  fallback := %s\n  wrapPre := %s\n  wrapPost := %s\n\n", leanFallback(t.Fallback), leanName(t.WrapPre), leanName(t.WrapPost))
	}
	fmt.Fprintf(&b, "def codeTables : List CodeTable := [%s]\n\n", strings.Join(ids, ", "))
	b.WriteString("/- files of the anchor directories that declare constants only (no naming function to check):\n")
	for _, f := range constOnly {
		b.WriteString("   " + f + "\n")
	}
	b.WriteString("-/\nend Manticore.C19.Gen\n")
	return b.String(), map[string]any{"tables": tables, "const_only_files": constOnly}, nil
}

func leanFallback(f C19Fallback) string {
	if f.Kind == "lit" {
		return ".lit " + leanName(f.Lit)
	}
	return fmt.Sprintf(".fmtDec %s %s", leanName(f.Pre), leanName(f.Post))
}

func c19CodeTable(p *c19pkg, cfg codeCfg) (*C19CodeTable, error) {
	f, err := p.file(cfg.file)
	if err != nil {
		return nil, err
	}
	t := &C19CodeTable{ID: cfg.id, File: cfg.dir + "/" + cfg.file, GoType: cfg.goType, Func: cfg.fn, Shape: cfg.shape}
	if t.Bits, err = p.bitsOf(cfg.goType); err != nil {
		return nil, err
	}
	// the constants of the table's type, wherever the file declares them (tableConsts, c19_common.go); a second
	// table over the same constants (PasswordProperties String/Description) reads them again
	if t.Consts, err = p.tableConsts(f, cfg.constType, "constants of "+cfg.goType); err != nil {
		return nil, err
	}
	for _, c := range t.Consts {
		if t.Bits < 64 && c.Value>>uint(t.Bits) != 0 {
			return nil, fmt.Errorf("%s: constant %s = %#x does not fit the %d-bit type %s", c.Pos, c.Ident, c.Value, t.Bits, cfg.goType)
		}
	}
	fd, recv, err := p.method(f, cfg.goType, cfg.fn)
	if err != nil {
		return nil, err
	}
	switch cfg.shape {
	case "map":
		ents, err := p.readMapLiteral(f, cfg.mapVar, cfg.goType, "string", "name map of "+cfg.goType)
		if err != nil {
			return nil, err
		}
		for _, e := range ents {
			name, err := p.stringLit(e.val)
			if err != nil {
				return nil, err
			}
			t.Rows = append(t.Rows, C19CodeRow{Key: e.keySrc, Value: e.key, Name: name, Pos: p.pos(e.node)})
		}
		if err := c19LookupFunc(p, fd, recv, cfg, t); err != nil {
			// Translation by evaluation (c19_eval.go): the rows stay the entries of the name map read above;
			// what the function does with them (wrapping of a found name, fall-back text) is read off its
			// answers on the WHOLE 8/16-bit domain and the finished table is verified on every value.
			_, ptr := fd.Recv.List[0].Type.(*ast.StarExpr)
			sig := fd.Type.Params.NumFields() == 0 && fd.Type.Results.NumFields() == 1 && p.src(fd.Type.Results.List[0].Type) == "string"
			if t.Bits > 16 || ptr || !sig || !fd.Name.IsExported() {
				return nil, err
			}
			what := fmt.Sprintf("%s.%s (%s)", cfg.goType, cfg.fn, t.File)
			ans, eerr := c19Evaluate(p.repo, cfg.dir, t.Bits, []evalReq{{ID: "f", Kind: "string", Type: cfg.goType, Method: cfg.fn}})
			if eerr == nil {
				eerr = c19SynthLookup(t, ans["f"].Strings, what)
			}
			if eerr != nil {
				return nil, fmt.Errorf("%s\n  no shape the syntactic reader knows:\n    %s", eerr, err)
			}
			p.evaluated = true
		}
	case "switch", "assign":
		if err := c19SwitchFunc(p, fd, recv, cfg, t); err != nil {
			// Translation by evaluation (c19_eval.go) of a `String() string` over an 8/16-bit code kept in the field
			// `Value` of a struct: there is no name map to take the rows from, so the rows ARE the answers — every value
			// whose answer is not the fall-back rendering is a row (ascending), which reproduces the method on the
			// whole domain by construction.
			sig := fd.Type.Params.NumFields() == 0 && fd.Type.Results.NumFields() == 1 && p.src(fd.Type.Results.List[0].Type) == "string"
			if cfg.shape != "switch" || t.Bits > 16 || !sig || !fd.Name.IsExported() || (cfg.subject != ".Value" && cfg.subject != "") {
				return nil, err
			}
			t.Rows, t.Fallback, t.WrapPre, t.WrapPost = nil, C19Fallback{}, "", ""
			what := fmt.Sprintf("%s.%s (%s)", cfg.goType, cfg.fn, t.File)
			ans, eerr := c19Evaluate(p.repo, cfg.dir, t.Bits, []evalReq{{ID: "f", Kind: "string", Type: cfg.goType, Method: cfg.fn, Struct: cfg.subject == ".Value"}})
			if eerr == nil {
				eerr = c19SynthRows(t, ans["f"].Strings, what)
			}
			if eerr != nil {
				return nil, fmt.Errorf("%s\n  no shape the syntactic reader knows:\n    %s", eerr, err)
			}
			p.evaluated = true
		}
	default:
		return nil, fmt.Errorf("unknown shape %s", cfg.shape)
	}
	if len(t.Rows) == 0 {
		return nil, p.errf(fd, "%s: no rows", cfg.fn)
	}
	p.claimed[fd] = "naming function"
	return t, nil
}

// fallbackExpr recognises "LIT" or fmt.Sprintf("PRE%dPOST", subject)
func (p *c19pkg) fallbackExpr(e ast.Expr, subjects []string) (C19Fallback, error) {
	if lit, err := p.stringLit(e); err == nil {
		return C19Fallback{Kind: "lit", Lit: lit}, nil
	}
	call, ok := e.(*ast.CallExpr)
	if !ok || p.src(call.Fun) != "fmt.Sprintf" || len(call.Args) != 2 {
		return C19Fallback{}, p.errf(e, "fallback `%s` is neither a string literal nor fmt.Sprintf(\"…%%d…\", value)", p.src(e))
	}
	format, err := p.stringLit(call.Args[0])
	if err != nil {
		return C19Fallback{}, err
	}
	arg := p.src(call.Args[1])
	okArg := false
	for _, s := range subjects {
		if arg == s || arg == "int("+s+")" {
			okArg = true
		}
	}
	if !okArg {
		return C19Fallback{}, p.errf(e, "fallback formats `%s`, expected the value itself (%v)", arg, subjects)
	}
	i := strings.Index(format, "%")
	if i < 0 || i+1 >= len(format) || format[i+1] != 'd' || strings.Contains(format[i+2:], "%") {
		return C19Fallback{}, p.errf(e, "fallback format %q is not of the form PRE%%dPOST", format)
	}
	return C19Fallback{Kind: "fmt", Pre: format[:i], Post: format[i+2:]}, nil
}

// ---- lookup with a default: the naming function is RUN SYMBOLICALLY, once per answer of the lookup ----
//
// Normalisation (DESIGN.md §7, "lookup with a default, in any arrangement and through helpers").  What a
// `map`-shaped naming function means for the table is two things: what it returns when the name map HAS the
// code (the stored name, possibly wrapped: WrapPre/WrapPost) and what it returns when it has NOT (the
// fall-back: a literal or PRE<decimal code>POST).  The reader used to know one spelling,
//
//	if v, ok := M[x]; ok { return FOUND } ; return FALLBACK        (or with else)
//
// It now executes the body in a small, effect-free statement language twice — under the assumption that
// the comma-ok lookup `M[x]` succeeds and under the assumption that it fails — and reads the two returned
// TERMS.  Every spelling whose two runs return the same two terms regenerates the same table fields:
//
//	statements   v, ok := M[x] | v := M[x] | s := TERM | s = TERM | var s string | var s = TERM | b := COND |
//	             if [init;] COND {…} [else …] | switch [init;] [COND] { case COND,…: … default: … } (no
//	             fallthrough/break) | { … } | return TERM
//	TERM         "lit" | package-level string constant | local string variable | M[x] | TERM + TERM |
//	             fmt.Sprintf("PRE%sPOST", TERM) | fmt.Sprintf("PRE%dPOST", x | int(x)) | helper(args…)
//	COND         ok | local bool | true | false | !COND | COND && COND | COND || COND | COND == COND | COND != COND
//
// Why this preserves meaning.  Go's semantics of each construct is followed literally: block scoping of
// `:=` (a shadowing definition inside a branch does not touch the outer variable), the zero values
// (`v` is "" and `ok` false after a failed lookup, `var s string` is ""), first matching `case` in source
// order, `default` wherever it stands.  Every condition the language admits is a function of `ok` alone,
// so the two runs together cover every path the real function can take, and the statements admitted have
// no effect outside the function's locals.  A condition on anything else — `v == ""`, `len(v) > 0`, the
// code itself — is NOT in the language: the function is refused here (and, for 8/16-bit codes, handed to
// the translation by evaluation, which decides such a function on its whole domain).
//
// Helpers.  A call `helper(a1,…,an)` of a package-level function (generic or not, any file of the package)
// with a single unnamed `string` result is executed the same way in a fresh scope: a parameter whose
// argument is the IDENTIFIER of the name map stands for the map, one whose argument is the identifier of
// the code stands for the code, any other argument must be a TERM or COND and is bound by value.  Since
// the arguments are effect-free this is exactly Go's call semantics; that `names[code]` inside the helper
// type-checks against the map passed is the compiler's business (a table of another family cannot be
// passed with this code, and passing it with a CONVERTED code is not the identifier of the code: refused).
// Nesting is followed two levels deep.  A string constant used as a TERM and every helper executed are
// claimed, so the leftovers check accepts them; a constant or helper the runs never reach stays unclaimed
// and is reported.
//
// Still refused: named results, variadic helpers, loops, conditions outside COND, a found branch that
// does not contain the stored name, a fall-back that depends on the stored name.

type lkTerm struct {
	kind           string // "found": pre + M[x] + post | "lit": lit | "dec": pre + decimal(x) + post
	pre, post, lit string
}

type lkVal struct {
	isBool bool
	b      bool
	t      lkTerm
}

type lkFrame struct {
	mapName, keyName string // the identifiers that denote the name map and the code in this function ("" = not passed)
	scopes           []map[string]lkVal
	depth            int
}

type lkRun struct {
	p      *c19pkg
	fn     string
	mapVar string // the package-level name map
	found  bool
	claims map[ast.Node]string
}

const lkMaxDepth = 2

func (fr *lkFrame) get(name string) (lkVal, bool) {
	for i := len(fr.scopes) - 1; i >= 0; i-- {
		if v, ok := fr.scopes[i][name]; ok {
			return v, true
		}
	}
	return lkVal{}, false
}

func (fr *lkFrame) push() { fr.scopes = append(fr.scopes, map[string]lkVal{}) }
func (fr *lkFrame) pop()  { fr.scopes = fr.scopes[:len(fr.scopes)-1] }

func (r *lkRun) define(fr *lkFrame, id ast.Expr, v lkVal) error {
	x, ok := id.(*ast.Ident)
	if !ok {
		return r.p.errf(id, "%s: `%s` is not a local variable", r.fn, r.p.src(id))
	}
	if x.Name == "_" {
		return nil
	}
	if x.Name == fr.mapName || x.Name == fr.keyName {
		return r.p.errf(id, "%s: `%s` is redefined", r.fn, x.Name)
	}
	fr.scopes[len(fr.scopes)-1][x.Name] = v
	return nil
}

func (r *lkRun) assign(fr *lkFrame, id ast.Expr, v lkVal) error {
	x, ok := id.(*ast.Ident)
	if !ok {
		return r.p.errf(id, "%s: `%s` is not a local variable", r.fn, r.p.src(id))
	}
	if x.Name == "_" {
		return nil
	}
	for i := len(fr.scopes) - 1; i >= 0; i-- {
		if old, ok := fr.scopes[i][x.Name]; ok {
			if old.isBool != v.isBool {
				return r.p.errf(id, "%s: `%s` changes its type", r.fn, x.Name)
			}
			fr.scopes[i][x.Name] = v
			return nil
		}
	}
	return r.p.errf(id, "%s: assignment to `%s`, which is not a local string or bool variable of the function", r.fn, x.Name)
}

// isLookup: e is `M[x]` in the names of this frame (neither name can be shadowed: define refuses it)
func (r *lkRun) isLookup(fr *lkFrame, e ast.Expr) bool {
	ix, ok := unparen(e).(*ast.IndexExpr)
	if !ok || fr.mapName == "" || fr.keyName == "" {
		return false
	}
	m, ok1 := unparen(ix.X).(*ast.Ident)
	k, ok2 := unparen(ix.Index).(*ast.Ident)
	return ok1 && ok2 && m.Name == fr.mapName && k.Name == fr.keyName
}

func lkConcat(a, b lkTerm) (lkTerm, bool) {
	switch {
	case a.kind == "lit" && b.kind == "lit":
		return lkTerm{kind: "lit", lit: a.lit + b.lit}, true
	case a.kind == "lit":
		return lkTerm{kind: b.kind, pre: a.lit + b.pre, post: b.post}, true
	case b.kind == "lit":
		return lkTerm{kind: a.kind, pre: a.pre, post: a.post + b.lit}, true
	}
	return lkTerm{}, false
}

func (r *lkRun) term(fr *lkFrame, e ast.Expr) (lkTerm, error) {
	e = unparen(e)
	if s, err := r.p.stringLit(e); err == nil {
		return lkTerm{kind: "lit", lit: s}, nil
	}
	switch x := e.(type) {
	case *ast.Ident:
		if v, ok := fr.get(x.Name); ok {
			if v.isBool {
				return lkTerm{}, r.p.errf(e, "%s: `%s` is a bool, a string was expected", r.fn, x.Name)
			}
			return v.t, nil
		}
		if c, ok := r.p.info.Uses[x].(*types.Const); ok && c.Parent() == r.p.pkg.Scope() && c.Val().Kind() == constant.String {
			spec := r.p.constSpec(c)
			if spec == nil {
				return lkTerm{}, r.p.errf(e, "%s: declaration of constant %s not found", r.fn, x.Name)
			}
			r.claims[spec] = "text used by " + r.fn
			return lkTerm{kind: "lit", lit: constant.StringVal(c.Val())}, nil
		}
	case *ast.IndexExpr:
		if r.isLookup(fr, x) {
			if r.found {
				return lkTerm{kind: "found"}, nil
			}
			return lkTerm{kind: "lit", lit: ""}, nil // zero value of the map's string
		}
	case *ast.BinaryExpr:
		if x.Op == token.ADD {
			a, err := r.term(fr, x.X)
			if err != nil {
				return lkTerm{}, err
			}
			b, err := r.term(fr, x.Y)
			if err != nil {
				return lkTerm{}, err
			}
			if c, ok := lkConcat(a, b); ok {
				return c, nil
			}
			return lkTerm{}, r.p.errf(e, "%s: `%s` joins two texts that both depend on the code", r.fn, r.p.src(e))
		}
	case *ast.CallExpr:
		if r.p.src(x.Fun) == "fmt.Sprintf" {
			if len(x.Args) != 2 {
				return lkTerm{}, r.p.errf(e, "%s: fmt.Sprintf with %d arguments", r.fn, len(x.Args))
			}
			ft, err := r.term(fr, x.Args[0])
			if err != nil || ft.kind != "lit" {
				return lkTerm{}, r.p.errf(e, "%s: format of `%s` is not a constant string", r.fn, r.p.src(e))
			}
			format := ft.lit
			i := strings.Index(format, "%")
			if i < 0 || i+1 >= len(format) || strings.Contains(format[i+2:], "%") {
				return lkTerm{}, r.p.errf(e, "%s: format %q is not of the form PRE%%sPOST / PRE%%dPOST", r.fn, format)
			}
			pre, post := lkTerm{kind: "lit", lit: format[:i]}, lkTerm{kind: "lit", lit: format[i+2:]}
			var mid lkTerm
			switch format[i+1] {
			case 's':
				if mid, err = r.term(fr, x.Args[1]); err != nil {
					return lkTerm{}, err
				}
			case 'd':
				arg := unparen(x.Args[1])
				if c, ok := arg.(*ast.CallExpr); ok && r.p.src(c.Fun) == "int" && len(c.Args) == 1 {
					arg = unparen(c.Args[0])
				}
				if id, ok := arg.(*ast.Ident); !ok || fr.keyName == "" || id.Name != fr.keyName {
					return lkTerm{}, r.p.errf(e, "%s: `%s` formats `%s`, expected the code itself", r.fn, r.p.src(e), r.p.src(x.Args[1]))
				}
				mid = lkTerm{kind: "dec"}
			default:
				return lkTerm{}, r.p.errf(e, "%s: format %q is not of the form PRE%%sPOST / PRE%%dPOST", r.fn, format)
			}
			t, ok := lkConcat(pre, mid)
			if ok {
				t, ok = lkConcat(t, post)
			}
			if !ok {
				return lkTerm{}, r.p.errf(e, "%s: `%s` not understood", r.fn, r.p.src(e))
			}
			return t, nil
		}
		if id, ok := unparen(x.Fun).(*ast.Ident); ok {
			if fobj, ok := r.p.info.Uses[id].(*types.Func); ok && fobj.Parent() == r.p.pkg.Scope() {
				return r.call(fr, x, fobj)
			}
		}
	}
	return lkTerm{}, r.p.errf(e, "%s: `%s` is not a text this reader can follow (literal, string constant, local, the looked-up name, fmt.Sprintf of one of them, helper call)", r.fn, firstLine(r.p.src(e)))
}

func (r *lkRun) cond(fr *lkFrame, e ast.Expr) (bool, error) {
	e = unparen(e)
	switch x := e.(type) {
	case *ast.Ident:
		if v, ok := fr.get(x.Name); ok {
			if !v.isBool {
				return false, r.p.errf(e, "%s: `%s` is a string, a condition was expected", r.fn, x.Name)
			}
			return v.b, nil
		}
		if obj := r.p.info.Uses[x]; obj != nil && obj == types.Universe.Lookup("true") {
			return true, nil
		} else if obj != nil && obj == types.Universe.Lookup("false") {
			return false, nil
		}
	case *ast.UnaryExpr:
		if x.Op == token.NOT {
			b, err := r.cond(fr, x.X)
			return !b, err
		}
	case *ast.BinaryExpr:
		switch x.Op {
		case token.LAND, token.LOR, token.EQL, token.NEQ:
			a, err := r.cond(fr, x.X)
			b, err2 := r.cond(fr, x.Y) // operands are effect-free: evaluating both is the short-circuit value
			if err != nil || err2 != nil {
				break // e.g. a comparison of strings: reported below as a condition outside the language
			}
			switch x.Op {
			case token.LAND:
				return a && b, nil
			case token.LOR:
				return a || b, nil
			case token.EQL:
				return a == b, nil
			}
			return a != b, nil
		}
	}
	return false, r.p.errf(e, "%s: condition `%s` is not a function of the lookup's ok alone", r.fn, r.p.src(e))
}

// value: a TERM or a COND, whichever the expression is
func (r *lkRun) value(fr *lkFrame, e ast.Expr) (lkVal, error) {
	if t, err := r.term(fr, e); err == nil {
		return lkVal{t: t}, nil
	} else if b, cerr := r.cond(fr, e); cerr == nil {
		return lkVal{isBool: true, b: b}, nil
	} else {
		return lkVal{}, err
	}
}

func (r *lkRun) call(fr *lkFrame, call *ast.CallExpr, fobj *types.Func) (lkTerm, error) {
	if fr.depth+1 > lkMaxDepth {
		return lkTerm{}, r.p.errf(call, "%s: helpers nested more than %d deep", r.fn, lkMaxDepth)
	}
	var hd *ast.FuncDecl
	for _, fn := range r.p.names {
		for _, d := range r.p.files[fn].Decls {
			if fd, ok := d.(*ast.FuncDecl); ok && fd.Recv == nil && r.p.info.Defs[fd.Name] == fobj {
				hd = fd
			}
		}
	}
	if hd == nil || hd.Body == nil {
		return lkTerm{}, r.p.errf(call, "%s: body of helper %s not found", r.fn, fobj.Name())
	}
	res := hd.Type.Results
	if res.NumFields() != 1 || len(res.List[0].Names) != 0 || r.p.src(res.List[0].Type) != "string" {
		return lkTerm{}, r.p.errf(hd, "%s: helper %s does not return a single unnamed string", r.fn, fobj.Name())
	}
	var params []*ast.Ident
	for _, f := range hd.Type.Params.List {
		if _, variadic := f.Type.(*ast.Ellipsis); variadic || len(f.Names) == 0 {
			return lkTerm{}, r.p.errf(hd, "%s: helper %s has a variadic or unnamed parameter", r.fn, fobj.Name())
		}
		params = append(params, f.Names...)
	}
	if len(params) != len(call.Args) {
		return lkTerm{}, r.p.errf(call, "%s: helper %s called with %d arguments for %d parameters", r.fn, fobj.Name(), len(call.Args), len(params))
	}
	nf := &lkFrame{depth: fr.depth + 1}
	nf.push()
	for i, a := range call.Args {
		pn := params[i].Name
		if id, ok := unparen(a).(*ast.Ident); ok {
			if _, local := fr.get(id.Name); !local && id.Name == fr.mapName && fr.mapName != "" {
				if nf.mapName != "" || pn == "_" {
					return lkTerm{}, r.p.errf(call, "%s: the name map is passed twice or dropped", r.fn)
				}
				nf.mapName = pn
				continue
			}
			if _, local := fr.get(id.Name); !local && id.Name == fr.keyName && fr.keyName != "" {
				if nf.keyName != "" || pn == "_" {
					return lkTerm{}, r.p.errf(call, "%s: the code is passed twice or dropped", r.fn)
				}
				nf.keyName = pn
				continue
			}
		}
		v, err := r.value(fr, a)
		if err != nil {
			return lkTerm{}, err
		}
		if pn == nf.mapName || pn == nf.keyName {
			return lkTerm{}, r.p.errf(hd, "%s: helper %s: duplicate parameter name", r.fn, fobj.Name())
		}
		if pn != "_" {
			nf.scopes[0][pn] = v
		}
	}
	if nf.mapName == "" {
		// the helper does not take the map: inside it the map's identifier is the package-level variable itself,
		// unless a parameter hides it (locals cannot: define refuses the name)
		hidden := false
		for _, pr := range params {
			hidden = hidden || pr.Name == r.mapVar
		}
		if !hidden {
			nf.mapName = r.mapVar
		}
	}
	if nf.mapName != "" && nf.mapName == nf.keyName {
		return lkTerm{}, r.p.errf(hd, "%s: helper %s: duplicate parameter name", r.fn, fobj.Name())
	}
	ret, err := r.block(nf, hd.Body.List)
	if err != nil {
		return lkTerm{}, err
	}
	if ret == nil {
		return lkTerm{}, r.p.errf(hd, "%s: helper %s: end of the body reached without a return", r.fn, fobj.Name())
	}
	r.claims[hd] = "lookup helper of " + r.fn
	return *ret, nil
}

// block runs a statement list in a scope of its own; ret != nil: the function returned
func (r *lkRun) block(fr *lkFrame, list []ast.Stmt) (*lkTerm, error) {
	fr.push()
	defer fr.pop()
	for _, s := range list {
		ret, err := r.stmt(fr, s)
		if err != nil || ret != nil {
			return ret, err
		}
	}
	return nil, nil
}

func (r *lkRun) stmt(fr *lkFrame, s ast.Stmt) (*lkTerm, error) {
	switch x := s.(type) {
	case *ast.ReturnStmt:
		if len(x.Results) != 1 {
			return nil, r.p.errf(s, "%s: return without a single value", r.fn)
		}
		t, err := r.term(fr, x.Results[0])
		if err != nil {
			return nil, err
		}
		return &t, nil
	case *ast.BlockStmt:
		return r.block(fr, x.List)
	case *ast.AssignStmt:
		if x.Tok != token.DEFINE && x.Tok != token.ASSIGN {
			return nil, r.p.errf(s, "%s: `%s` is not a plain assignment", r.fn, r.p.src(s))
		}
		set := r.assign
		if x.Tok == token.DEFINE {
			set = r.define
		}
		if len(x.Lhs) == 2 && len(x.Rhs) == 1 && r.isLookup(fr, x.Rhs[0]) {
			v := lkVal{t: lkTerm{kind: "lit", lit: ""}}
			if r.found {
				v = lkVal{t: lkTerm{kind: "found"}}
			}
			if err := set(fr, x.Lhs[0], v); err != nil {
				return nil, err
			}
			return nil, set(fr, x.Lhs[1], lkVal{isBool: true, b: r.found})
		}
		if len(x.Lhs) != 1 || len(x.Rhs) != 1 {
			return nil, r.p.errf(s, "%s: `%s` is neither `v, ok := MAP[code]` nor a single assignment", r.fn, r.p.src(s))
		}
		v, err := r.value(fr, x.Rhs[0])
		if err != nil {
			return nil, err
		}
		return nil, set(fr, x.Lhs[0], v)
	case *ast.DeclStmt:
		g, ok := x.Decl.(*ast.GenDecl)
		if !ok || g.Tok != token.VAR {
			return nil, r.p.errf(s, "%s: local declaration `%s` not understood", r.fn, firstLine(r.p.src(s)))
		}
		for _, sp := range g.Specs {
			vs := sp.(*ast.ValueSpec)
			if len(vs.Names) != 1 || len(vs.Values) > 1 {
				return nil, r.p.errf(vs, "%s: local declaration `%s` not understood", r.fn, r.p.src(vs))
			}
			var v lkVal
			if len(vs.Values) == 1 {
				var err error
				if v, err = r.value(fr, vs.Values[0]); err != nil {
					return nil, err
				}
			} else {
				switch r.p.src(vs.Type) {
				case "string":
					v = lkVal{t: lkTerm{kind: "lit", lit: ""}}
				case "bool":
					v = lkVal{isBool: true}
				default:
					return nil, r.p.errf(vs, "%s: local variable of type %s", r.fn, r.p.src(vs.Type))
				}
			}
			if err := r.define(fr, vs.Names[0], v); err != nil {
				return nil, err
			}
		}
		return nil, nil
	case *ast.IfStmt:
		fr.push() // scope of the init statement
		defer fr.pop()
		if x.Init != nil {
			if ret, err := r.stmt(fr, x.Init); err != nil || ret != nil {
				return ret, err
			}
		}
		c, err := r.cond(fr, x.Cond)
		if err != nil {
			return nil, err
		}
		if c {
			return r.block(fr, x.Body.List)
		}
		if x.Else != nil {
			return r.stmt(fr, x.Else)
		}
		return nil, nil
	case *ast.SwitchStmt:
		fr.push()
		defer fr.pop()
		if x.Init != nil {
			if ret, err := r.stmt(fr, x.Init); err != nil || ret != nil {
				return ret, err
			}
		}
		tag := true
		if x.Tag != nil {
			var err error
			if tag, err = r.cond(fr, x.Tag); err != nil {
				return nil, err
			}
		}
		var chosen, deflt *ast.CaseClause
		for _, c := range x.Body.List {
			cc := c.(*ast.CaseClause)
			if cc.List == nil {
				deflt = cc
				continue
			}
			for _, ce := range cc.List {
				b, err := r.cond(fr, ce)
				if err != nil {
					return nil, err
				}
				if b == tag && chosen == nil {
					chosen = cc
				}
			}
		}
		if chosen == nil {
			chosen = deflt
		}
		if chosen == nil {
			return nil, nil
		}
		return r.block(fr, chosen.Body) // `fallthrough` and `break` are not statements of the language: refused
	}
	return nil, r.p.errf(s, "%s: statement `%s` is not in the fragment of the lookup reader", r.fn, firstLine(r.p.src(s)))
}

// allClaimed: the file declares at least one function, constant or variable, and every one of them was consumed
// by a recogniser
func (p *c19pkg) allClaimed(fn string) bool {
	n := 0
	for _, d := range p.files[fn].Decls {
		switch x := d.(type) {
		case *ast.FuncDecl:
			if _, ok := p.claimed[x]; !ok {
				return false
			}
			n++
		case *ast.GenDecl:
			if x.Tok != token.CONST && x.Tok != token.VAR {
				continue
			}
			if _, ok := p.claimed[x]; !ok {
				for _, s := range x.Specs {
					if _, ok := p.claimed[s]; !ok {
						return false
					}
				}
			}
			n++
		}
	}
	return n > 0
}

// constSpec finds the ValueSpec that declares a package-level constant
func (p *c19pkg) constSpec(c *types.Const) *ast.ValueSpec {
	for _, fn := range p.names {
		for _, g := range constBlocks(p.files[fn]) {
			for _, s := range g.Specs {
				for _, id := range s.(*ast.ValueSpec).Names {
					if p.info.Defs[id] == c {
						return s.(*ast.ValueSpec)
					}
				}
			}
		}
	}
	return nil
}

func c19LookupFunc(p *c19pkg, fd *ast.FuncDecl, recv string, cfg codeCfg, t *C19CodeTable) error {
	if fd.Type.Params.NumFields() != 0 || fd.Type.Results.NumFields() != 1 || len(fd.Type.Results.List[0].Names) != 0 || p.src(fd.Type.Results.List[0].Type) != "string" {
		return p.errf(fd, "%s: expected signature () string", cfg.fn)
	}
	if recv == cfg.mapVar || recv == "_" {
		return p.errf(fd, "%s: receiver `%s` hides the name map or is blank", cfg.fn, recv)
	}
	if v, ok := p.pkg.Scope().Lookup(cfg.mapVar).(*types.Var); !ok || v == nil {
		return p.errf(fd, "%s: %s is not a package-level variable", cfg.fn, cfg.mapVar)
	}
	claims := map[ast.Node]string{}
	run := func(found bool) (lkTerm, error) {
		r := &lkRun{p: p, fn: cfg.fn, mapVar: cfg.mapVar, found: found, claims: claims}
		fr := &lkFrame{mapName: cfg.mapVar, keyName: recv}
		ret, err := r.block(fr, fd.Body.List)
		if err != nil {
			return lkTerm{}, err
		}
		if ret == nil {
			return lkTerm{}, p.errf(fd, "%s: end of the body reached without a return", cfg.fn)
		}
		return *ret, nil
	}
	hit, err := run(true)
	if err != nil {
		return err
	}
	if hit.kind != "found" {
		return p.errf(fd, "%s: for a code the name map has, the function does not return the looked-up name (%s[%s]) but %+v", cfg.fn, cfg.mapVar, recv, hit)
	}
	miss, err := run(false)
	if err != nil {
		return err
	}
	switch miss.kind {
	case "lit":
		t.Fallback = C19Fallback{Kind: "lit", Lit: miss.lit}
	case "dec":
		t.Fallback = C19Fallback{Kind: "fmt", Pre: miss.pre, Post: miss.post}
	default:
		return p.errf(fd, "%s: fall-back not understood: %+v", cfg.fn, miss)
	}
	t.WrapPre, t.WrapPost = hit.pre, hit.post
	for n, why := range claims {
		p.claimed[n] = why
	}
	return nil
}

func c19SwitchFunc(p *c19pkg, fd *ast.FuncDecl, recv string, cfg codeCfg, t *C19CodeTable) error {
	subject := recv + cfg.subject
	assign := cfg.shape == "assign"
	b := fd.Body.List
	// prologue (assign shape only), possibly behind the known length guard
	if cfg.optGuard != "" && len(b) > 0 {
		if _, isIf := b[0].(*ast.IfStmt); isIf {
			squash := func(s string) string { return strings.Join(strings.Fields(s), " ") } // comments inside leave blank lines
			if got := p.src(b[0]); squash(got) != squash(strings.ReplaceAll(cfg.optGuard, "$r", recv)) {
				return p.errf(b[0], "%s: leading guard not understood: %q", cfg.fn, got)
			}
			b = b[1:]
		}
	}
	for _, want := range cfg.prologue {
		want = strings.ReplaceAll(want, "$r", recv)
		if len(b) == 0 || p.src(b[0]) != want {
			return p.errf(fd, "%s: expected prologue statement `%s`", cfg.fn, want)
		}
		b = b[1:]
	}
	if len(b) < 1 {
		return p.errf(fd, "%s: no switch statement", cfg.fn)
	}
	sw, ok := b[0].(*ast.SwitchStmt)
	if !ok || sw.Init != nil || sw.Tag == nil || p.src(sw.Tag) != subject {
		return p.errf(b[0], "%s: first statement is not `switch %s`", cfg.fn, subject)
	}
	var fallback ast.Expr
	for _, c := range sw.Body.List {
		cc := c.(*ast.CaseClause)
		if len(cc.Body) != 1 {
			return p.errf(cc, "%s: case body is not a single statement", cfg.fn)
		}
		var val ast.Expr
		if assign {
			as, ok := cc.Body[0].(*ast.AssignStmt)
			if !ok || as.Tok != token.ASSIGN || len(as.Lhs) != 1 || p.src(as.Lhs[0]) != recv+".Name" {
				return p.errf(cc, "%s: case body is not `%s.Name = \"NAME\"`", cfg.fn, recv)
			}
			val = as.Rhs[0]
		} else {
			rs, ok := cc.Body[0].(*ast.ReturnStmt)
			if !ok || len(rs.Results) != 1 {
				return p.errf(cc, "%s: case body is not `return \"NAME\"`", cfg.fn)
			}
			val = rs.Results[0]
		}
		if cc.List == nil { // default
			if assign {
				return p.errf(cc, "%s: default clause in an assigning switch is not understood", cfg.fn)
			}
			fallback = val
			continue
		}
		name, err := p.stringLit(val)
		if err != nil {
			return err
		}
		for _, k := range cc.List {
			v, err := p.constExpr(k)
			if err != nil {
				return err
			}
			t.Rows = append(t.Rows, C19CodeRow{Key: p.src(k), Value: v, Name: name, Pos: p.pos(cc)})
		}
	}
	b = b[1:]
	if assign {
		if len(b) != 0 {
			return p.errf(b[0], "%s: statement after the switch", cfg.fn)
		}
		// no case fires: Name keeps its previous value, "" on a fresh struct
		t.Fallback = C19Fallback{Kind: "lit", Lit: ""}
		return nil
	}
	if fallback == nil {
		if len(b) != 1 {
			return p.errf(fd, "%s: switch without default must be followed by exactly one return", cfg.fn)
		}
		rs, ok := b[0].(*ast.ReturnStmt)
		if !ok || len(rs.Results) != 1 {
			return p.errf(b[0], "%s: last statement is not a return", cfg.fn)
		}
		fallback = rs.Results[0]
	} else if len(b) != 0 {
		return p.errf(b[0], "%s: statement after a switch with default", cfg.fn)
	}
	var err error
	t.Fallback, err = p.fallbackExpr(fallback, []string{subject})
	return err
}
