package main

// Third group of normalisations in front of the SmbCommands recogniser (see smb_normalise.go for the contract: general
// program equivalences, side conditions checked syntactically, untouched when undecidable — the recogniser then refuses).
// All rules of this group are on the Unmarshal side.
//
//	U12 loop over a literal TABLE OF RECORDS holding POINTERS TO RECEIVER FIELDS = its unrolling with `*entry.p` replaced by
//	    the field.  Source shapes: `t := [...]struct{…}{ {…}, … }` / `[]struct{…}{…}` / `[n]struct{…}{…}` (n = number of
//	    rows; the record type anonymous, declared by a local `type` statement, or at package level; rows positional or keyed,
//	    every column given) followed by `for _, e := range t`, `for i, e := range t`, `for i := range t` or
//	    `for i := 0; i < len(t); i++` (with `t[i].col` or a first statement `e := t[i]`), or the literal standing in the
//	    `range` clause itself.  Canonical form: BODY[row 0]; …; BODY[row n-1], where in BODY[row k] the index is the literal
//	    k, `*e.p` (p a pointer column whose cell is `&c.F`) is `c.F`, `e.v` (v a value column) is the cell's expression, and
//	    every name the body declares is given a fresh name per copy (the copies now share one scope).  Why this preserves
//	    meaning: a `range`/counted loop over a table nobody writes runs the body once per row in order; `*(&c.F)` is `c.F`
//	    (`c` is the receiver and is never reassigned, so `&c.F` is the same address at construction and at use); a value
//	    cell is evaluated when the table is built and read when the row runs, which is the same value PROVIDED nothing it
//	    reads changes in between.  Side conditions, all checked on the text: (a) the table is a local composite literal
//	    bound once, never assigned, indexed on a left side or address-taken: every occurrence of its name in the function is
//	    the definition, the loop header, or a read `t[i].col` / `e := t[i]` inside this loop; (b) every pointer cell is
//	    `&c.F` with F a declared field of the structure, the cells of one pointer column name pairwise distinct fields (a
//	    pointer into another object, a nested field, an element, `nil`, a missing cell: not touched); (c) a value cell is
//	    built from literals, package constants, conversions, `len` and reads `c.G`/`c.G.H` only (no local variable — it
//	    could change before the row runs —, no call); (d) between literal and loop stand only assignments of call-free
//	    expressions to local names, further tables, and local type declarations; (e) the body uses the entry only as
//	    `e.col` — pointer columns only under `*` —, never assigns the entry, the index or the table, takes no address,
//	    contains no `break`/`continue`/`goto`/label/`defer`/`go`/function literal, calls nothing but `len`, conversions,
//	    `binary.<Order>.UintN`, `fmt.Errorf`/`fmt.Sprintf`/`errors.New` (so that a field can change only through an
//	    assignment that is visible in the body); (f) no field read by a value cell is stored to by the body, through a
//	    pointer column or directly (`R ∩ (T ∪ D) = ∅`); (g) a name the body declares is not declared in an enclosing scope.
//	    A wrong field, exchanged rows, another width or bound in the body all survive into the unrolled text and are read
//	    there by the later rules and the recogniser as from hand-unrolled code.
//	U13 indexed slice temporary.  `w := b[offset+a : offset+b']` directly behind a guard `if len(b) < offset+n { return … }`
//	    with n >= b', used only in the next statement and there only as `w[k]`, k a constant with 0 <= k < b'-a, is that
//	    statement with `b[offset+a+k]` for `w[k]`: the guard has excluded the only panic of the slice expression
//	    (b' > cap), `w[k]` cannot panic inside the window, and `b[offset+a+k]` is the same byte.  An index outside the window
//	    (a panic in the source) or a window beyond the guard is not touched.
//	U9' (in byteAssembly) `T(uintW(b[offset]) | uintW(b[offset+1])<<8 | …)`: the assembly is `uintW(binary.<Order>.UintW(…))`
//	    by U9; UintW already yields uintW, so the inner conversion is the identity and the whole is
//	    `T(binary.<Order>.UintW(…))`.  Only for the builtin uintW of exactly the assembled width.
//	U11' (in intTemps) the last use of an integer temporary may be a plain or `+=` assignment to a variable its expression
//	    reads (`end := offset+2; …; offset = end`): Go evaluates the right side before it stores.
//	U14 `offset = offset + e` is `offset += e`.

import (
	"fmt"
	"go/ast"
	"go/token"
	"regexp"
	"strconv"
)

// receiverVar: the name of the method's receiver ("" when it has none)
func receiverVar(fd *ast.FuncDecl) string {
	if fd.Recv == nil || len(fd.Recv.List) != 1 || len(fd.Recv.List[0].Names) != 1 {
		return ""
	}
	return fd.Recv.List[0].Names[0].Name
}

// declaredIn: the names declared by the statements standing directly in the list (not inside nested blocks), including the
// headers of its if / for / range statements
func declaredIn(list []ast.Stmt, into map[string]bool) {
	def := func(s ast.Stmt) {
		switch t := s.(type) {
		case *ast.AssignStmt:
			if t.Tok == token.DEFINE {
				for _, l := range t.Lhs {
					if id, ok := l.(*ast.Ident); ok {
						into[id.Name] = true
					}
				}
			}
		case *ast.DeclStmt:
			if gd, ok := t.Decl.(*ast.GenDecl); ok {
				for _, sp := range gd.Specs {
					switch v := sp.(type) {
					case *ast.ValueSpec:
						for _, n := range v.Names {
							into[n.Name] = true
						}
					case *ast.TypeSpec:
						into[v.Name.Name] = true
					}
				}
			}
		}
	}
	for _, s := range list {
		def(s)
		switch t := s.(type) {
		case *ast.IfStmt:
			if t.Init != nil {
				def(t.Init)
			}
		case *ast.ForStmt:
			if t.Init != nil {
				def(t.Init)
			}
		case *ast.RangeStmt:
			if t.Tok == token.DEFINE {
				for _, e := range []ast.Expr{t.Key, t.Value} {
					if id, ok := e.(*ast.Ident); ok {
						into[id.Name] = true
					}
				}
			}
		}
	}
}

// declaredAnywhere: every name declared anywhere inside the node (any depth)
func declaredAnywhere(n ast.Node, into map[string]bool) {
	ast.Inspect(n, func(x ast.Node) bool {
		switch t := x.(type) {
		case *ast.BlockStmt:
			declaredIn(t.List, into)
		case *ast.CaseClause:
			declaredIn(t.Body, into)
		}
		return true
	})
}

type tableCol struct {
	name string
	ptr  bool
}

type ptrTable struct {
	cols  []tableCol
	rows  [][]string // per row and column: for a pointer column the field F of `&c.F`, for a value column the cell's text
	reads map[string]bool
}

// tableLoops (U12) over the whole body; outer = names declared in the enclosing scopes
func (nz *normaliser) tableLoops(fd *ast.FuncDecl, list []ast.Stmt) []ast.Stmt {
	recv := receiverVar(fd)
	if recv == "" || recv != "c" || nz.assignCount(fd.Body, recv) > 0 {
		return list
	}
	outer := map[string]bool{recv: true}
	for _, fl := range []*ast.FieldList{fd.Type.Params, fd.Type.Results} {
		if fl != nil {
			for _, f := range fl.List {
				for _, n := range f.Names {
					outer[n.Name] = true
				}
			}
		}
	}
	used := map[string]bool{}
	for _, s := range list {
		for n := range identsOf(s) {
			used[n] = true
		}
	}
	whole := &ast.BlockStmt{List: list}
	out := nz.tableLoopsIn(list, whole, outer, used)
	if sameStmts(out, list) {
		return list
	}
	// local type declarations nobody mentions any more
	var res []ast.Stmt
	for i, s := range out {
		if ds, ok := s.(*ast.DeclStmt); ok {
			if gd, ok := ds.Decl.(*ast.GenDecl); ok && gd.Tok == token.TYPE {
				dead := true
				for _, sp := range gd.Specs {
					name := sp.(*ast.TypeSpec).Name.Name
					for k, o := range out {
						if k != i && countIdent(o, name) > 0 {
							dead = false
						}
					}
				}
				if dead {
					continue
				}
			}
		}
		res = append(res, s)
	}
	return res
}

func (nz *normaliser) tableLoopsIn(list []ast.Stmt, whole ast.Node, outer map[string]bool, used map[string]bool) []ast.Stmt {
	scope := map[string]bool{}
	for n := range outer {
		scope[n] = true
	}
	declaredIn(list, scope)
	// nested blocks first
	cur := make([]ast.Stmt, len(list))
	for i, s := range list {
		cur[i] = s
		var body *ast.BlockStmt
		switch t := s.(type) {
		case *ast.IfStmt:
			if t.Else == nil {
				body = t.Body
			}
		case *ast.ForStmt:
			body = t.Body
		case *ast.RangeStmt:
			body = t.Body
		}
		if body == nil {
			continue
		}
		nb := nz.tableLoopsIn(body.List, whole, scope, used)
		if !sameStmts(nb, body.List) {
			cp := nz.clone(s)
			switch t := cp.(type) {
			case *ast.IfStmt:
				t.Body.List = nb
			case *ast.ForStmt:
				t.Body.List = nb
			case *ast.RangeStmt:
				t.Body.List = nb
			}
			cur[i] = cp
		}
	}
	for j := 0; j < len(cur); j++ {
		unrolled, d, ok := nz.unrollTableLoop(cur, j, whole, scope, used)
		if !ok {
			continue
		}
		var nl []ast.Stmt
		for k, s := range cur {
			switch {
			case k == j:
				nl = append(nl, unrolled...)
			case k == d && d != j:
			default:
				nl = append(nl, s)
			}
		}
		cur = nl
		j = -1
	}
	return cur
}

var reTableCallee = regexp.MustCompile(`^(len|fmt\.Errorf|fmt\.Sprintf|errors\.New|binary\.(Little|Big)Endian\.Uint(16|32|64))$`)

// structTypeOf: the record type of a table's element type expression
func (nz *normaliser) structTypeOf(e ast.Expr, whole ast.Node) *ast.StructType {
	switch t := e.(type) {
	case *ast.StructType:
		return t
	case *ast.Ident:
		var found *ast.StructType
		n := 0
		ast.Inspect(whole, func(x ast.Node) bool {
			if ts, ok := x.(*ast.TypeSpec); ok && ts.Name.Name == t.Name {
				n++
				if st, ok := ts.Type.(*ast.StructType); ok && ts.Assign == token.NoPos {
					found = st
				}
			}
			return true
		})
		if n == 1 {
			return found
		}
		if n == 0 {
			return nz.structs[t.Name]
		}
	}
	return nil
}

// tableValueCell: literals, package constants, conversions, len and reads of receiver fields; the fields read are recorded
func (nz *normaliser) tableValueCell(e ast.Expr, reads map[string]bool) bool {
	switch t := e.(type) {
	case *ast.BasicLit:
		return true
	case *ast.ParenExpr:
		return nz.tableValueCell(t.X, reads)
	case *ast.Ident:
		_, isConst := nz.consts[t.Name]
		return isConst || t.Name == "true" || t.Name == "false"
	case *ast.SelectorExpr:
		// c.G, c.G.H
		x := ast.Expr(t)
		for {
			se, ok := x.(*ast.SelectorExpr)
			if !ok {
				return false
			}
			if id, ok := se.X.(*ast.Ident); ok {
				if id.Name != "c" || fieldType(nz.cur, se.Sel.Name) == "" {
					return false
				}
				reads[se.Sel.Name] = true
				return true
			}
			x = se.X
		}
	case *ast.BinaryExpr:
		switch t.Op {
		case token.ADD, token.SUB, token.MUL, token.OR, token.AND:
			return nz.tableValueCell(t.X, reads) && nz.tableValueCell(t.Y, reads)
		}
		return false
	case *ast.CallExpr:
		f := nz.s(t.Fun)
		if len(t.Args) != 1 || t.Ellipsis != token.NoPos || (f != "len" && !reConvName.MatchString(f)) {
			return false
		}
		return nz.tableValueCell(t.Args[0], reads)
	}
	return false
}

// readTable: the literal as columns and rows, or nil when it is not a table of this family
func (nz *normaliser) readTable(cl *ast.CompositeLit, whole ast.Node) *ptrTable {
	at, ok := cl.Type.(*ast.ArrayType)
	if !ok {
		return nil
	}
	st := nz.structTypeOf(at.Elt, whole)
	if st == nil || st.Fields == nil {
		return nil
	}
	tb := &ptrTable{reads: map[string]bool{}}
	hasPtr := false
	for _, f := range st.Fields.List {
		if len(f.Names) == 0 {
			return nil // embedded
		}
		_, isPtr := f.Type.(*ast.StarExpr)
		switch f.Type.(type) {
		case *ast.FuncType, *ast.InterfaceType, *ast.ChanType, *ast.MapType:
			return nil
		}
		for _, n := range f.Names {
			tb.cols = append(tb.cols, tableCol{n.Name, isPtr})
		}
		hasPtr = hasPtr || isPtr
	}
	if !hasPtr {
		return nil // a table of plain values is not this family (M4 on the Marshal side reads those)
	}
	if at.Len != nil {
		if _, dots := at.Len.(*ast.Ellipsis); !dots {
			n, ok := nz.constInt(at.Len, nil)
			if !ok || int(n) != len(cl.Elts) {
				return nil // rows not written out are zero records with nil pointers
			}
		}
	}
	target := make([]map[string]bool, len(tb.cols))
	for i := range target {
		target[i] = map[string]bool{}
	}
	for _, el := range cl.Elts {
		row, ok := el.(*ast.CompositeLit)
		if !ok || (row.Type != nil && nz.s(row.Type) != nz.s(at.Elt)) {
			return nil
		}
		cells := make([]ast.Expr, len(tb.cols))
		keyed := 0
		for k, ce := range row.Elts {
			if kv, ok := ce.(*ast.KeyValueExpr); ok {
				keyed++
				id, ok := kv.Key.(*ast.Ident)
				if !ok {
					return nil
				}
				found := false
				for ci, col := range tb.cols {
					if col.name == id.Name && cells[ci] == nil {
						cells[ci], found = kv.Value, true
					}
				}
				if !found {
					return nil
				}
			} else if k < len(cells) {
				cells[k] = ce
			} else {
				return nil
			}
		}
		if keyed != 0 && keyed != len(row.Elts) {
			return nil
		}
		var texts []string
		for ci, cell := range cells {
			if cell == nil {
				return nil // a missing cell is a zero value (a nil pointer)
			}
			if tb.cols[ci].ptr {
				u, ok := cell.(*ast.UnaryExpr)
				if !ok || u.Op != token.AND {
					return nil
				}
				se, ok := u.X.(*ast.SelectorExpr)
				if !ok {
					return nil
				}
				id, ok := se.X.(*ast.Ident)
				if !ok || id.Name != "c" || fieldType(nz.cur, se.Sel.Name) == "" || target[ci][se.Sel.Name] {
					return nil
				}
				target[ci][se.Sel.Name] = true
				texts = append(texts, se.Sel.Name)
			} else {
				if !nz.tableValueCell(cell, tb.reads) {
					return nil
				}
				texts = append(texts, nz.printNode(cell))
			}
		}
		tb.rows = append(tb.rows, texts)
	}
	return tb
}

// unrollTableLoop: cur[j] is a loop over a table of this family (defined at cur[d], d < j, or in the range clause, d == j)
func (nz *normaliser) unrollTableLoop(cur []ast.Stmt, j int, whole ast.Node, scope map[string]bool, used map[string]bool) ([]ast.Stmt, int, bool) {
	var body *ast.BlockStmt
	var tabExpr ast.Expr
	idx, val := "", ""
	headerUses := 1
	switch t := cur[j].(type) {
	case *ast.RangeStmt:
		if t.Tok != token.DEFINE && (t.Key != nil || t.Value != nil) {
			return nil, 0, false
		}
		name := func(e ast.Expr) (string, bool) {
			if e == nil {
				return "", true
			}
			id, ok := e.(*ast.Ident)
			if !ok {
				return "", false
			}
			if id.Name == "_" {
				return "", true
			}
			return id.Name, true
		}
		var ok1, ok2 bool
		idx, ok1 = name(t.Key)
		val, ok2 = name(t.Value)
		if !ok1 || !ok2 {
			return nil, 0, false
		}
		body, tabExpr = t.Body, t.X
	case *ast.ForStmt:
		// for i := 0; i < len(t); i++
		if t.Init == nil || t.Cond == nil || t.Post == nil {
			return nil, 0, false
		}
		m := regexp.MustCompile(`^(\w+) := 0$`).FindStringSubmatch(nz.s(t.Init))
		if m == nil {
			return nil, 0, false
		}
		idx = m[1]
		c := regexp.MustCompile(`^` + idx + ` < len\((\w+)\)$`).FindStringSubmatch(nz.s(t.Cond))
		if c == nil || nz.s(t.Post) != idx+"++" {
			return nil, 0, false
		}
		body, tabExpr = t.Body, &ast.Ident{Name: c[1]}
	default:
		return nil, 0, false
	}
	// the table
	var lit *ast.CompositeLit
	tname := ""
	d := j
	switch t := tabExpr.(type) {
	case *ast.CompositeLit:
		lit = t
	case *ast.Ident:
		tname = t.Name
		d = -1
		for k := 0; k < j; k++ {
			if as, ok := cur[k].(*ast.AssignStmt); ok && as.Tok == token.DEFINE && len(as.Lhs) == 1 && len(as.Rhs) == 1 {
				if id, ok := as.Lhs[0].(*ast.Ident); ok && id.Name == tname {
					if cl, ok := as.Rhs[0].(*ast.CompositeLit); ok {
						lit, d = cl, k
					}
				}
			}
		}
		if d < 0 {
			return nil, 0, false
		}
	default:
		return nil, 0, false
	}
	tb := nz.readTable(lit, whole)
	if tb == nil {
		return nil, 0, false
	}
	col := map[string]int{}
	for i, c := range tb.cols {
		col[c.name] = i
	}
	stmts := body.List
	// `e := t[i]` as the first statement of the body
	if val == "" && idx != "" && tname != "" && len(stmts) > 0 {
		if m := regexp.MustCompile(`^(\w+) := ` + tname + `\[` + idx + `\]$`).FindStringSubmatch(nz.s(stmts[0])); m != nil {
			val = m[1]
			stmts = stmts[1:]
			headerUses++
		}
	}
	inner := &ast.BlockStmt{List: stmts}
	// (a) the table's name: definition, header, reads t[i].col inside this loop
	if tname != "" {
		reads := 0
		if idx != "" {
			ast.Inspect(inner, func(x ast.Node) bool {
				if se, ok := x.(*ast.SelectorExpr); ok {
					if _, isCol := col[se.Sel.Name]; isCol && nz.s(se.X) == tname+"["+idx+"]" {
						reads++
					}
				}
				return true
			})
		}
		if countIdent(whole, tname) != 1+headerUses+reads || nz.assignCount(whole, tname) != 1 {
			return nil, 0, false
		}
	}
	// (d) between literal and loop
	for k := d + 1; k < j; k++ {
		switch t := cur[k].(type) {
		case *ast.DeclStmt:
			if gd, ok := t.Decl.(*ast.GenDecl); !ok || gd.Tok != token.TYPE {
				return nil, 0, false
			}
		case *ast.AssignStmt:
			for _, l := range t.Lhs {
				if _, ok := l.(*ast.Ident); !ok {
					return nil, 0, false
				}
			}
			calls := false
			ast.Inspect(t, func(x ast.Node) bool {
				if ce, ok := x.(*ast.CallExpr); ok {
					if f := nz.s(ce.Fun); f != "len" && !reConvName.MatchString(f) {
						calls = true
					}
				}
				return true
			})
			if calls {
				return nil, 0, false
			}
		default:
			return nil, 0, false
		}
	}
	// (e) the body
	okBody := true
	direct := map[string]bool{} // D: fields of the receiver the body assigns directly
	lhs := func(e ast.Expr) {
		for {
			if p, ok := e.(*ast.ParenExpr); ok {
				e = p.X
				continue
			}
			break
		}
		switch t := e.(type) {
		case *ast.Ident:
			if t.Name == val || t.Name == idx || t.Name == tname {
				okBody = false
			}
			return
		case *ast.StarExpr:
			if se, ok := t.X.(*ast.SelectorExpr); ok && val != "" && nz.s(se.X) == val {
				if ci, ok := col[se.Sel.Name]; ok && tb.cols[ci].ptr {
					return
				}
			}
			if se, ok := t.X.(*ast.SelectorExpr); ok && tname != "" && idx != "" && nz.s(se.X) == tname+"["+idx+"]" {
				if ci, ok := col[se.Sel.Name]; ok && tb.cols[ci].ptr {
					return
				}
			}
			okBody = false
			return
		}
		// rooted at the receiver: c.X, c.X[i], c.X.Y
		x := e
		for {
			switch t := x.(type) {
			case *ast.SelectorExpr:
				if id, ok := t.X.(*ast.Ident); ok {
					if id.Name == "c" {
						direct[t.Sel.Name] = true
						return
					}
					okBody = false
					return
				}
				x = t.X
				continue
			case *ast.IndexExpr:
				x = t.X
				continue
			}
			okBody = false
			return
		}
	}
	ast.Inspect(inner, func(x ast.Node) bool {
		switch t := x.(type) {
		case *ast.BranchStmt, *ast.LabeledStmt, *ast.DeferStmt, *ast.GoStmt, *ast.FuncLit, *ast.SelectStmt, *ast.SendStmt:
			okBody = false
		case *ast.UnaryExpr:
			if t.Op == token.AND || t.Op == token.ARROW {
				okBody = false
			}
		case *ast.CallExpr:
			if f := nz.s(t.Fun); !reTableCallee.MatchString(f) && !reConvName.MatchString(f) {
				okBody = false
			}
		case *ast.AssignStmt:
			if t.Tok != token.DEFINE {
				for _, l := range t.Lhs {
					lhs(l)
				}
			}
		case *ast.IncDecStmt:
			lhs(t.X)
		}
		return true
	})
	if !okBody {
		return nil, 0, false
	}
	if idx != "" && nz.assignCount(inner, idx) > 0 {
		return nil, 0, false
	}
	if val != "" && nz.assignCount(inner, val) > 0 {
		return nil, 0, false
	}
	// (f) R ∩ (T ∪ D) = ∅
	for ci, c := range tb.cols {
		if c.ptr {
			for _, r := range tb.rows {
				if tb.reads[r[ci]] {
					return nil, 0, false
				}
			}
		}
	}
	for f := range direct {
		if tb.reads[f] {
			return nil, 0, false
		}
	}
	// (g) names the body declares
	locals := map[string]bool{}
	declaredAnywhere(inner, locals)
	for n := range locals {
		if scope[n] || n == val || n == idx || n == tname {
			return nil, 0, false
		}
	}
	// unroll
	var out []ast.Stmt
	for k, row := range tb.rows {
		ren := map[string]string{}
		for n := range locals {
			if n == "_" {
				continue
			}
			f := nz.fresh(n, used)
			used[f] = true
			ren[n] = f
		}
		if idx != "" {
			ren[idx] = strconv.Itoa(k)
		}
		for _, s := range stmts {
			cp := nz.clone(s)
			bad := false
			entry := func(x ast.Expr) bool {
				if val != "" && nz.s(x) == val {
					return true
				}
				return tname != "" && idx != "" && nz.s(x) == tname+"["+idx+"]"
			}
			rewriteExprs(cp, func(e ast.Expr) (ast.Expr, bool) {
				switch t := e.(type) {
				case *ast.StarExpr:
					x := t.X
					for {
						if p, ok := x.(*ast.ParenExpr); ok {
							x = p.X
							continue
						}
						break
					}
					if se, ok := x.(*ast.SelectorExpr); ok && entry(se.X) {
						ci, ok := col[se.Sel.Name]
						if !ok || !tb.cols[ci].ptr {
							bad = true
							return nil, false
						}
						return nz.parseExprText("c." + row[ci]), true
					}
				case *ast.SelectorExpr:
					if entry(t.X) {
						ci, ok := col[t.Sel.Name]
						if !ok || tb.cols[ci].ptr {
							bad = true // a pointer column outside `*`: the pointer itself is used
							return nil, false
						}
						ne := nz.parseExprText(row[ci])
						switch ne.(type) {
						case *ast.BinaryExpr:
							ne = &ast.ParenExpr{X: ne}
						}
						return ne, true
					}
				}
				return nil, false
			})
			if bad || (val != "" && countIdent(cp, val) > 0) || (tname != "" && countIdent(cp, tname) > 0) {
				return nil, 0, false
			}
			nz.substIdents(cp, ren)
			// substIdents replaces expression positions; names on the left of `:=`, in `var` and in range clauses are
			// identifiers in expression position too, except ValueSpec names
			ast.Inspect(cp, func(x ast.Node) bool {
				if vs, ok := x.(*ast.ValueSpec); ok {
					for _, n := range vs.Names {
						if r, ok := ren[n.Name]; ok {
							n.Name = r
						}
					}
				}
				return true
			})
			flatten(cp, posOf(s))
			stripParens(cp)
			out = append(out, cp)
		}
	}
	if len(out) == 0 && len(tb.rows) > 0 && len(stmts) > 0 {
		return nil, 0, false
	}
	return out, d, true
}

// U13
func (nz *normaliser) indexedTemps(l []ast.Stmt) []ast.Stmt {
	reG := regexp.MustCompile(`^if len\((\w+)\) < offset\+(\d+) \{ return .* \}$`)
	rel := func(e ast.Expr) (int, bool) { // offset+k
		if e == nil {
			return 0, false
		}
		if id, ok := e.(*ast.Ident); ok && id.Name == "offset" {
			return 0, true
		}
		if be, ok := e.(*ast.BinaryExpr); ok && be.Op == token.ADD {
			if id, ok := be.X.(*ast.Ident); ok && id.Name == "offset" {
				if v, ok := nz.constInt(be.Y, nil); ok && v >= 0 {
					return int(v), true
				}
			}
		}
		return 0, false
	}
	out := append([]ast.Stmt{}, l...)
	changed := false
	for i := 1; i+1 < len(out); i++ {
		g := reG.FindStringSubmatch(nz.s(out[i-1]))
		as, ok := out[i].(*ast.AssignStmt)
		if g == nil || !ok || as.Tok != token.DEFINE || len(as.Lhs) != 1 || len(as.Rhs) != 1 {
			continue
		}
		w, ok := as.Lhs[0].(*ast.Ident)
		se, ok2 := as.Rhs[0].(*ast.SliceExpr)
		if !ok || !ok2 || se.Max != nil || nz.s(se.X) != g[1] {
			continue
		}
		lo, ok1 := rel(se.Low)
		hi, ok2 := rel(se.High)
		bound, _ := strconv.Atoi(g[2])
		if !ok1 || !ok2 || lo > hi || hi > bound {
			continue
		}
		use, isAssign := out[i+1].(*ast.AssignStmt)
		if !isAssign || nz.assignCount(use, w.Name) > 0 || nz.assignCount(use, "offset") > 0 {
			continue
		}
		later := 0
		for _, s := range out[i+2:] {
			later += countIdent(s, w.Name)
		}
		if later > 0 || countIdent(use, w.Name) == 0 {
			continue
		}
		cp := nz.clone(use)
		bad := false
		rewriteExprs(cp, func(e ast.Expr) (ast.Expr, bool) {
			ie, ok := e.(*ast.IndexExpr)
			if !ok || nz.s(ie.X) != w.Name {
				return nil, false
			}
			k, ok := nz.constInt(ie.Index, nil)
			if !ok || k < 0 || int(k) >= hi-lo {
				bad = true
				return nil, false
			}
			if lo+int(k) == 0 {
				return nz.parseExprText(g[1] + "[offset]"), true
			}
			return nz.parseExprText(fmt.Sprintf("%s[offset+%d]", g[1], lo+int(k))), true
		})
		if bad || countIdent(cp, w.Name) > 0 {
			continue
		}
		flatten(cp, posOf(use))
		res := append([]ast.Stmt{}, out[:i]...)
		res = append(res, cp)
		res = append(res, out[i+2:]...)
		out = res
		changed = true
	}
	if !changed {
		return l
	}
	return out
}

// U14
func (nz *normaliser) cursorForms(l []ast.Stmt) []ast.Stmt {
	var out []ast.Stmt
	changed := false
	for _, s := range l {
		if as, ok := s.(*ast.AssignStmt); ok && as.Tok == token.ASSIGN && len(as.Lhs) == 1 && len(as.Rhs) == 1 && nz.s(as.Lhs[0]) == "offset" {
			if be, ok := as.Rhs[0].(*ast.BinaryExpr); ok && be.Op == token.ADD {
				if id, ok := be.X.(*ast.Ident); ok && id.Name == "offset" && countIdent(be.Y, "offset") == 0 {
					out = append(out, nz.parseStmts("offset += "+nz.operand(be.Y), posOf(s))...)
					changed = true
					continue
				}
			}
		}
		out = append(out, s)
	}
	if !changed {
		return l
	}
	return out
}
