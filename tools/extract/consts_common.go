package main

// Shared machinery of the `Consts<Pid>` facts: the numeric constants, masks, shift amounts, offsets, length limits
// and literal tables that a hand-written Lean model hard-codes, read off the CURRENT Go source so that theorems
// `consts_match_model_*` (lean/Manticore/Props/Cxx/Consts.lean) can state that the model uses the same values.
//
// A fact is a list of queries.  A query names a package directory, a function (or package-level declaration) and an
// expression inside it by its *shape* (assignment target, callee, compared operand, …) — never by line number — and
// yields the integer literals of that expression in source order (package constants are evaluated), a constant value,
// a byte/string literal or the byte order of a `binary.*Endian` call.  A query that does not find exactly what it asks
// for is an error naming the package, function and selector: nothing is skipped silently.
//
// These facts are not models: control flow stays in the hand model and stays tied by L2.  They pin the places where a
// slip is a changed number.

import (
	"fmt"
	"go/ast"
	"go/constant"
	"go/parser"
	"go/token"
	"go/types"
	"math/big"
	"os"
	"path/filepath"
	"sort"
	"strings"
)

type cxFailure struct{ msg string }

type cdef struct {
	name, typ, val, doc string
	js            any
}

type cx struct {
	fact  string
	repo  string
	fset  *token.FileSet
	pkgs  map[string]*cpkg
	defs  []cdef
	names map[string]bool
}

type cconst struct {
	expr ast.Expr
	iota int64
}

type cpkg struct {
	c      *cx
	dir    string
	consts map[string]cconst
	funcs  map[string]*ast.FuncDecl
	vars   map[string]ast.Expr
	types  map[string]*ast.TypeSpec
}

// cnode: a node of the source together with where it was found (for messages and the Lean doc comment)
type cnode struct {
	p     *cpkg
	n     ast.Node
	where string
}

func (c *cx) failf(f string, a ...any) { panic(cxFailure{fmt.Sprintf(f, a...)}) }

func (c *cx) rel(pos token.Pos) string {
	p := c.fset.Position(pos)
	r, err := filepath.Rel(c.repo, p.Filename)
	if err != nil {
		r = p.Filename
	}
	return fmt.Sprintf("%s:%d", r, p.Line)
}

// constsFact wraps a query list into a Fact.
func constsFact(name, doc string, body func(c *cx)) Fact {
	return func(repo string) (lean string, js any, err error) {
		c := &cx{fact: name, repo: repo, fset: token.NewFileSet(), pkgs: map[string]*cpkg{}, names: map[string]bool{}}
		defer func() {
			if r := recover(); r != nil {
				if f, ok := r.(cxFailure); ok {
					err = fmt.Errorf("%s: %s", name, f.msg)
					return
				}
				panic(r)
			}
		}()
		body(c)
		if len(c.defs) == 0 {
			c.failf("no definitions")
		}
		var b strings.Builder
		fmt.Fprintf(&b, "-- Fact %s: %s\n", name, doc)
		fmt.Fprintf(&b, "namespace Manticore.Gen.%s\n\n", name)
		j := map[string]any{}
		for _, d := range c.defs {
			kw := "def"
			if d.typ == "Nat" || d.typ == "Int" || d.typ == "Bool" {
				kw = "abbrev" // unfolds at reducible transparency: `exact rfl` against a literal of the model then elaborates
			}
			fmt.Fprintf(&b, "/-- %s -/\n%s %s : %s := %s\n\n", d.doc, kw, d.name, d.typ, d.val)
			j[d.name] = d.js
		}
		fmt.Fprintf(&b, "end Manticore.Gen.%s\n", name)
		return b.String(), j, nil
	}
}

// ------------------------------------------------------------------------------------------------
// packages

func (c *cx) pkg(dir string) *cpkg {
	if p, ok := c.pkgs[dir]; ok {
		return p
	}
	full := filepath.Join(c.repo, dir)
	ents, err := os.ReadDir(full)
	if err != nil {
		c.failf("package directory %s: %v", dir, err)
	}
	p := &cpkg{c: c, dir: dir, consts: map[string]cconst{}, funcs: map[string]*ast.FuncDecl{}, vars: map[string]ast.Expr{}, types: map[string]*ast.TypeSpec{}}
	n := 0
	for _, e := range ents {
		fn := e.Name()
		if e.IsDir() || !strings.HasSuffix(fn, ".go") || strings.HasSuffix(fn, "_test.go") {
			continue
		}
		f, err := parser.ParseFile(c.fset, filepath.Join(full, fn), nil, 0)
		if err != nil {
			c.failf("%v", err)
		}
		n++
		for _, d := range f.Decls {
			switch x := d.(type) {
			case *ast.FuncDecl:
				if x.Body != nil {
					p.funcs[funcDisplayName(x)] = x
				}
			case *ast.GenDecl:
				var prev []ast.Expr
				for i, sp := range x.Specs {
					switch s := sp.(type) {
					case *ast.ValueSpec:
						vals := s.Values
						if x.Tok == token.CONST {
							if len(vals) == 0 {
								vals = prev // implicit repetition inside a const block
							}
							prev = vals
							if len(vals) == len(s.Names) {
								for k, nm := range s.Names {
									p.consts[nm.Name] = cconst{vals[k], int64(i)}
								}
							}
						} else if len(vals) == len(s.Names) {
							for k, nm := range s.Names {
								p.vars[nm.Name] = vals[k]
							}
						}
					case *ast.TypeSpec:
						p.types[s.Name.Name] = s
					}
				}
			}
		}
	}
	if n == 0 {
		c.failf("package directory %s has no Go files", dir)
	}
	c.pkgs[dir] = p
	return p
}

var cxConversions = map[string]bool{"int": true, "int8": true, "int16": true, "int32": true, "int64": true, "uint": true, "uint8": true,
	"uint16": true, "uint32": true, "uint64": true, "byte": true, "rune": true, "uintptr": true, "float64": true, "float32": true}

// eval: a constant expression over literals and the package's own constants (go/constant arithmetic; conversions to
// the basic numeric types and to the package's own named types are the identity on the value).
func (p *cpkg) eval(e ast.Expr, iota int64, depth int) (constant.Value, error) {
	if depth > 40 {
		return nil, fmt.Errorf("constant expression too deep")
	}
	switch x := e.(type) {
	case *ast.BasicLit:
		v := constant.MakeFromLiteral(x.Value, x.Kind, 0)
		if v.Kind() == constant.Unknown {
			return nil, fmt.Errorf("bad literal %s", x.Value)
		}
		return v, nil
	case *ast.ParenExpr:
		return p.eval(x.X, iota, depth+1)
	case *ast.Ident:
		if x.Name == "iota" {
			return constant.MakeInt64(iota), nil
		}
		if d, ok := p.consts[x.Name]; ok {
			return p.eval(d.expr, d.iota, depth+1)
		}
		return nil, fmt.Errorf("%s is not a constant of package %s", x.Name, p.dir)
	case *ast.CallExpr:
		if id, ok := x.Fun.(*ast.Ident); ok && len(x.Args) == 1 {
			_, named := p.types[id.Name]
			if cxConversions[id.Name] || named {
				v, err := p.eval(x.Args[0], iota, depth+1)
				if err != nil {
					return nil, err
				}
				if !strings.HasPrefix(id.Name, "float") && v.Kind() == constant.Float {
					iv := constant.ToInt(v)
					if iv.Kind() != constant.Int {
						return nil, fmt.Errorf("conversion of a non-integral constant to %s", id.Name)
					}
					v = iv
				}
				return v, nil
			}
		}
	case *ast.UnaryExpr:
		if x.Op == token.SUB || x.Op == token.ADD {
			v, err := p.eval(x.X, iota, depth+1)
			if err != nil {
				return nil, err
			}
			return constant.UnaryOp(x.Op, v, 0), nil
		}
	case *ast.BinaryExpr:
		a, err := p.eval(x.X, iota, depth+1)
		if err != nil {
			return nil, err
		}
		b, err := p.eval(x.Y, iota, depth+1)
		if err != nil {
			return nil, err
		}
		switch x.Op {
		case token.SHL, token.SHR:
			a = constant.ToInt(a)
			s, ok := constant.Uint64Val(constant.ToInt(b))
			if !ok || a.Kind() != constant.Int || s > 4096 {
				return nil, fmt.Errorf("bad constant shift")
			}
			return constant.Shift(a, x.Op, uint(s)), nil
		case token.ADD, token.SUB, token.MUL, token.AND, token.OR, token.XOR, token.AND_NOT, token.REM:
			return constant.BinaryOp(a, x.Op, b), nil
		case token.QUO:
			if a.Kind() == constant.Int && b.Kind() == constant.Int {
				if constant.Sign(b) == 0 {
					return nil, fmt.Errorf("division by zero")
				}
				return constant.BinaryOp(a, token.QUO_ASSIGN, b), nil
			}
			return constant.BinaryOp(a, token.QUO, b), nil
		}
	}
	return nil, fmt.Errorf("unsupported constant expression %s", types.ExprString(e))
}

func (p *cpkg) evalInt(e ast.Expr) (*big.Int, error) {
	v, err := p.eval(e, 0, 0)
	if err != nil {
		return nil, err
	}
	v = constant.ToInt(v)
	if v.Kind() != constant.Int {
		return nil, fmt.Errorf("%s is not an integer constant", types.ExprString(e))
	}
	switch r := constant.Val(v).(type) {
	case int64:
		return big.NewInt(r), nil
	case *big.Int:
		return new(big.Int).Set(r), nil
	}
	return nil, fmt.Errorf("unexpected constant representation")
}

// konst: the package constant `name` as a node (its defining expression)
func (p *cpkg) konst(name string) cnode {
	d, ok := p.consts[name]
	if !ok {
		p.c.failf("package %s: constant %s not found", p.dir, name)
	}
	return cnode{p, &ast.Ident{Name: name, NamePos: d.expr.Pos()}, "const " + name}
}

// pvar: the initialiser of the package-level variable `name`
func (p *cpkg) pvar(name string) cnode {
	e, ok := p.vars[name]
	if !ok {
		p.c.failf("package %s: package-level variable %s (with initialiser) not found", p.dir, name)
	}
	return cnode{p, e, "var " + name}
}

// fn: the function `Name` or method `Type.Name`
func (p *cpkg) fn(name string) cnode {
	f, ok := p.funcs[name]
	if !ok {
		p.c.failf("package %s: function %s not found", p.dir, name)
	}
	return cnode{p, f, name}
}

// fields: the field names of the struct type `name`, in declaration order
func (p *cpkg) fields(name string) (cnode, []string) {
	ts, ok := p.types[name]
	if !ok {
		p.c.failf("package %s: type %s not found", p.dir, name)
	}
	st, ok := ts.Type.(*ast.StructType)
	if !ok {
		p.c.failf("package %s: type %s is not a struct", p.dir, name)
	}
	var out []string
	for _, f := range st.Fields.List {
		if len(f.Names) == 0 {
			out = append(out, types.ExprString(f.Type))
		}
		for _, n := range f.Names {
			out = append(out, n.Name)
		}
	}
	return cnode{p, ts, "type " + name}, out
}

// ------------------------------------------------------------------------------------------------
// finding an expression inside a node by its shape

func render(e ast.Node) string {
	if x, ok := e.(ast.Expr); ok {
		return types.ExprString(x)
	}
	return fmt.Sprintf("%T", e)
}

func (n cnode) sub(x ast.Node, sel string) cnode { return cnode{n.p, x, n.where + " / " + sel} }

func (n cnode) pick(sel string, nth int, found []ast.Node) cnode {
	if nth < 0 {
		if len(found) != 1 {
			n.p.c.failf("package %s: %s: expected exactly one %s, found %d", n.p.dir, n.where, sel, len(found))
		}
		nth = 0
	}
	if nth >= len(found) {
		n.p.c.failf("package %s: %s: %s #%d not found (%d present)", n.p.dir, n.where, sel, nth, len(found))
	}
	return n.sub(found[nth], fmt.Sprintf("%s #%d", sel, nth))
}

// assign: the right-hand side of the nth statement `lhs = …`, `lhs := …`, `lhs op= …`, `var lhs = …`, or of the
// composite-literal element `lhs: …` (nth < 0: there must be exactly one)
func (n cnode) assign(lhs string, nth int) cnode {
	var found []ast.Node
	ast.Inspect(n.n, func(m ast.Node) bool {
		switch x := m.(type) {
		case *ast.AssignStmt:
			for i, l := range x.Lhs {
				if render(l) == lhs {
					if len(x.Rhs) == len(x.Lhs) {
						found = append(found, x.Rhs[i])
					} else {
						found = append(found, x.Rhs[0])
					}
				}
			}
		case *ast.ValueSpec:
			for i, l := range x.Names {
				if l.Name == lhs && len(x.Values) == len(x.Names) {
					found = append(found, x.Values[i])
				}
			}
		case *ast.KeyValueExpr:
			if render(x.Key) == lhs {
				found = append(found, x.Value)
			}
		}
		return true
	})
	return n.pick("assignment to "+lhs, nth, found)
}

// call: the nth call whose callee renders as `callee` (e.g. "binary.LittleEndian.Uint32", "make", "x.Write")
func (n cnode) call(callee string, nth int) cnode {
	var found []ast.Node
	ast.Inspect(n.n, func(m ast.Node) bool {
		if x, ok := m.(*ast.CallExpr); ok && render(x.Fun) == callee {
			found = append(found, x)
		}
		return true
	})
	return n.pick("call of "+callee, nth, found)
}

func (n cnode) arg(i int) cnode {
	x, ok := n.n.(*ast.CallExpr)
	if !ok || i >= len(x.Args) {
		n.p.c.failf("package %s: %s: no argument %d", n.p.dir, n.where, i)
	}
	return n.sub(x.Args[i], fmt.Sprintf("arg %d", i))
}

// cmp: the right operand of the nth comparison / binary expression `lhs op …`
func (n cnode) cmp(lhs string, op token.Token, nth int) cnode {
	var found []ast.Node
	ast.Inspect(n.n, func(m ast.Node) bool {
		if x, ok := m.(*ast.BinaryExpr); ok && x.Op == op && render(x.X) == lhs {
			found = append(found, x.Y)
		}
		return true
	})
	return n.pick(fmt.Sprintf("`%s %s …`", lhs, op), nth, found)
}

// cmpL: the left operand of the nth binary expression `… op rhs`
func (n cnode) cmpL(op token.Token, rhs string, nth int) cnode {
	var found []ast.Node
	ast.Inspect(n.n, func(m ast.Node) bool {
		if x, ok := m.(*ast.BinaryExpr); ok && x.Op == op && render(x.Y) == rhs {
			found = append(found, x.X)
		}
		return true
	})
	return n.pick(fmt.Sprintf("`… %s %s`", op, rhs), nth, found)
}

// bin: the nth binary expression with operator op (pre-order, source order)
func (n cnode) bin(op token.Token, nth int) cnode {
	var found []ast.Node
	ast.Inspect(n.n, func(m ast.Node) bool {
		if x, ok := m.(*ast.BinaryExpr); ok && x.Op == op {
			found = append(found, x)
		}
		return true
	})
	return n.pick(fmt.Sprintf("binary %s", op), nth, found)
}

// cond: the condition of the nth `if` (or `for`) whose rendered condition contains `part`
func (n cnode) cond(part string, nth int) cnode {
	var found []ast.Node
	ast.Inspect(n.n, func(m ast.Node) bool {
		switch x := m.(type) {
		case *ast.IfStmt:
			if strings.Contains(render(x.Cond), part) {
				found = append(found, x.Cond)
			}
		case *ast.ForStmt:
			if x.Cond != nil && strings.Contains(render(x.Cond), part) {
				found = append(found, x.Cond)
			}
		}
		return true
	})
	return n.pick("condition containing `"+part+"`", nth, found)
}

// rangeOver: the expression ranged over by the only `for …, val := range X` whose value variable is `val`
func (n cnode) rangeOver(val string) cnode {
	var found []ast.Node
	ast.Inspect(n.n, func(m ast.Node) bool {
		if x, ok := m.(*ast.RangeStmt); ok && x.Value != nil && render(x.Value) == val {
			found = append(found, x.X)
		}
		return true
	})
	return n.pick("range loop with value "+val, -1, found)
}

// then: the body of the nth `if` whose rendered condition contains `part`
func (n cnode) then(part string, nth int) cnode {
	var found []ast.Node
	ast.Inspect(n.n, func(m ast.Node) bool {
		if x, ok := m.(*ast.IfStmt); ok && strings.Contains(render(x.Cond), part) {
			found = append(found, x.Body)
		}
		return true
	})
	return n.pick("body of if containing `"+part+"`", nth, found)
}

// index / slice: the nth `base[…]` / `base[…:…]`
func (n cnode) index(base string, nth int) cnode {
	var found []ast.Node
	ast.Inspect(n.n, func(m ast.Node) bool {
		if x, ok := m.(*ast.IndexExpr); ok && render(x.X) == base {
			found = append(found, x.Index)
		}
		return true
	})
	return n.pick("index of "+base, nth, found)
}

func (n cnode) slice(base string, nth int) cnode {
	var found []ast.Node
	ast.Inspect(n.n, func(m ast.Node) bool {
		if x, ok := m.(*ast.SliceExpr); ok && render(x.X) == base {
			found = append(found, x)
		}
		return true
	})
	return n.pick("slice of "+base, nth, found)
}

// ret: result i of the nth return statement
func (n cnode) ret(nth, i int) cnode {
	var found []ast.Node
	ast.Inspect(n.n, func(m ast.Node) bool {
		if x, ok := m.(*ast.ReturnStmt); ok && i < len(x.Results) {
			found = append(found, x.Results[i])
		}
		return true
	})
	return n.pick("return", nth, found)
}

// cases: the case expressions (flattened, source order) of the switch whose tag renders as `tag`
func (n cnode) cases(tag string, nth int) []cnode {
	var found []ast.Node
	ast.Inspect(n.n, func(m ast.Node) bool {
		if x, ok := m.(*ast.SwitchStmt); ok && x.Tag != nil && render(x.Tag) == tag {
			found = append(found, x)
		}
		return true
	})
	sw := n.pick("switch "+tag, nth, found)
	var out []cnode
	for _, st := range sw.n.(*ast.SwitchStmt).Body.List {
		for _, e := range st.(*ast.CaseClause).List {
			out = append(out, sw.sub(e, "case"))
		}
	}
	return out
}

// caseBody: the body of the clause `case label:` of the switch on `tag`
func (n cnode) caseBody(tag, label string) cnode {
	var found []ast.Node
	ast.Inspect(n.n, func(m ast.Node) bool {
		if x, ok := m.(*ast.SwitchStmt); ok && x.Tag != nil && render(x.Tag) == tag {
			for _, st := range x.Body.List {
				cc := st.(*ast.CaseClause)
				for _, e := range cc.List {
					if render(e) == label {
						found = append(found, &ast.BlockStmt{Lbrace: cc.Pos(), List: cc.Body, Rbrace: cc.End()})
					}
				}
			}
		}
		return true
	})
	return n.pick("case "+label+" of switch "+tag, -1, found)
}

// ------------------------------------------------------------------------------------------------
// what a found expression yields

// ints: the integer literals (and package constants) of the expression, in source order.  Type conversions and
// callee names are not constants; `1e7`-style float literals with an integral value count.
func (n cnode) ints() []*big.Int {
	var out []*big.Int
	var walk func(m ast.Node) bool
	walk = func(m ast.Node) bool {
		switch x := m.(type) {
		case *ast.BasicLit:
			if x.Kind == token.INT || x.Kind == token.FLOAT || x.Kind == token.CHAR {
				v, err := n.p.evalInt(x)
				if err != nil {
					n.p.c.failf("%s: %s: %v", n.p.c.rel(x.Pos()), n.where, err)
				}
				out = append(out, v)
			}
		case *ast.SelectorExpr:
			ast.Inspect(x.X, walk) // not the selected name
			return false
		case *ast.CallExpr:
			if _, ok := x.Fun.(*ast.Ident); !ok {
				ast.Inspect(x.Fun, walk)
			}
			for _, a := range x.Args {
				ast.Inspect(a, walk)
			}
			return false
		case *ast.KeyValueExpr:
			ast.Inspect(x.Value, walk)
			return false
		case *ast.Ident:
			if _, ok := n.p.consts[x.Name]; ok {
				v, err := n.p.evalInt(x)
				if err == nil {
					out = append(out, v)
				}
			}
		}
		return true
	}
	ast.Inspect(n.n, walk)
	return out
}

func (n cnode) int1() *big.Int {
	v := n.ints()
	if len(v) != 1 {
		n.p.c.failf("%s: %s: expected one integer constant in `%s`, found %d", n.p.c.rel(n.n.Pos()), n.where, render(n.n), len(v))
	}
	return v[0]
}

// val: the whole expression as an integer constant
func (n cnode) val() *big.Int {
	e, ok := n.n.(ast.Expr)
	if !ok {
		n.p.c.failf("%s: not an expression", n.where)
	}
	v, err := n.p.evalInt(e)
	if err != nil {
		n.p.c.failf("%s: %s: %v", n.p.c.rel(n.n.Pos()), n.where, err)
	}
	return v
}

// str: the whole expression as a string constant
func (n cnode) str() string {
	e, ok := n.n.(ast.Expr)
	if !ok {
		n.p.c.failf("%s: not an expression", n.where)
	}
	v, err := n.p.eval(e, 0, 0)
	if err != nil || v.Kind() != constant.String {
		n.p.c.failf("%s: %s: `%s` is not a string constant", n.p.c.rel(n.n.Pos()), n.where, render(n.n))
	}
	return constant.StringVal(v)
}

// strs: every string literal of the expression in source order
func (n cnode) strs() []string {
	var out []string
	ast.Inspect(n.n, func(m ast.Node) bool {
		if x, ok := m.(*ast.BasicLit); ok && x.Kind == token.STRING {
			out = append(out, constant.StringVal(constant.MakeFromLiteral(x.Value, x.Kind, 0)))
		}
		return true
	})
	return out
}

// byteLit: `[]byte{…}` / `[N]byte{…}` / `[]byte("…")` with constant elements
func (n cnode) byteLit() []byte {
	switch x := n.n.(type) {
	case *ast.CompositeLit:
		var out []byte
		for _, e := range x.Elts {
			v, err := n.p.evalInt(e)
			if err != nil || !v.IsUint64() || v.Uint64() > 255 {
				n.p.c.failf("%s: %s: element `%s` is not a byte constant", n.p.c.rel(e.Pos()), n.where, render(e))
			}
			out = append(out, byte(v.Uint64()))
		}
		return out
	case *ast.CallExpr:
		if len(x.Args) == 1 && render(x.Fun) == "[]byte" {
			return []byte(n.sub(x.Args[0], "[]byte(…)").str())
		}
	}
	n.p.c.failf("%s: %s: `%s` is not a byte-slice literal", n.p.c.rel(n.n.Pos()), n.where, render(n.n))
	return nil
}

// little: the byte order named in the expression: exactly one of binary.LittleEndian / binary.BigEndian
func (n cnode) little() bool {
	le, be := 0, 0
	ast.Inspect(n.n, func(m ast.Node) bool {
		if x, ok := m.(*ast.SelectorExpr); ok {
			if x.Sel.Name == "LittleEndian" {
				le++
			}
			if x.Sel.Name == "BigEndian" {
				be++
			}
		}
		return true
	})
	if (le == 0) == (be == 0) {
		n.p.c.failf("%s: %s: `%s` names %d little-endian and %d big-endian accessors", n.p.c.rel(n.n.Pos()), n.where, render(n.n), le, be)
	}
	return le > 0
}

// width: the N of the `UintN` / `PutUintN` accessor in the expression
func (n cnode) width() int {
	w := 0
	ast.Inspect(n.n, func(m ast.Node) bool {
		if x, ok := m.(*ast.SelectorExpr); ok {
			for _, k := range []int{16, 32, 64} {
				if x.Sel.Name == fmt.Sprintf("Uint%d", k) || x.Sel.Name == fmt.Sprintf("PutUint%d", k) || x.Sel.Name == fmt.Sprintf("AppendUint%d", k) {
					if w != 0 && w != k {
						n.p.c.failf("%s: %s: several accessor widths", n.p.c.rel(n.n.Pos()), n.where)
					}
					w = k
				}
			}
		}
		return true
	})
	if w == 0 {
		n.p.c.failf("%s: %s: no UintN accessor in `%s`", n.p.c.rel(n.n.Pos()), n.where, render(n.n))
	}
	return w
}

func (n cnode) text() string { return render(n.n) }

// ------------------------------------------------------------------------------------------------
// emitting Lean definitions

func leanDocSafe(s string) string {
	s = strings.ReplaceAll(s, "-/", "- /")
	s = strings.ReplaceAll(s, "/-", "/ -")
	s = strings.ReplaceAll(s, "\n", " ")
	if len(s) > 200 {
		s = s[:200] + "…"
	}
	return s
}

func (c *cx) emit(name, typ, val string, js any, at cnode) {
	if c.names[name] {
		c.failf("duplicate definition %s", name)
	}
	c.names[name] = true
	src := ""
	if _, ok := at.n.(ast.Expr); ok {
		src = "  `" + render(at.n) + "`"
	}
	// The Lean comment names file, function, selector and expression but not the line: a Gen module must not change (and
	// make lake rebuild the property's theorems) because unrelated lines were added above the function.  The line is in
	// the JSON twin.
	pos := c.rel(at.n.Pos())
	file := pos[:strings.LastIndex(pos, ":")]
	c.defs = append(c.defs, cdef{name, typ, val, leanDocSafe(fmt.Sprintf("%s  %s%s", file, at.where, src)), map[string]any{"value": js, "at": pos}})
}

func natLit(v *big.Int) string {
	if v.Sign() < 0 {
		return "(" + v.String() + ")"
	}
	return v.String()
}

func (c *cx) nat(name string, at cnode, v *big.Int) {
	if v.Sign() < 0 {
		c.failf("%s: negative value %s for a Nat", name, v)
	}
	c.emit(name, "Nat", v.String(), v, at)
}

func (c *cx) int(name string, at cnode, v *big.Int) { c.emit(name, "Int", natLit(v), v, at) }

func (c *cx) nats(name string, at cnode, vs []*big.Int) {
	var s []string
	for _, v := range vs {
		if v.Sign() < 0 {
			c.failf("%s: negative value %s in a List Nat", name, v)
		}
		s = append(s, v.String())
	}
	c.emit(name, "List Nat", "["+strings.Join(s, ", ")+"]", vs, at)
}

func (c *cx) bytes(name string, at cnode, bs []byte) {
	var s []string
	for _, b := range bs {
		s = append(s, fmt.Sprintf("0x%02X", b))
	}
	c.emit(name, "List UInt8", "["+strings.Join(s, ", ")+"]", append([]byte{}, bs...), at)
}

func (c *cx) boolean(name string, at cnode, v bool) { c.emit(name, "Bool", fmt.Sprint(v), v, at) }

// string constants are emitted as their UTF-8 bytes (`decide` on `String` is slow; the models use `List UInt8`)
func (c *cx) str(name string, at cnode, s string) { c.bytes(name, at, []byte(s)) }

// the common compound queries
func (c *cx) constNat(name string, p *cpkg, goName string) {
	k := p.konst(goName)
	v, err := p.evalInt(&ast.Ident{Name: goName})
	if err != nil {
		c.failf("package %s: constant %s: %v", p.dir, goName, err)
	}
	c.nat(name, k, v)
}

func (c *cx) intsOf(name string, n cnode) { c.nats(name, n, n.ints()) }
func (c *cx) int1Of(name string, n cnode) { c.nat(name, n, n.int1()) }

// constTable: the constants of a package whose names have the given prefix, sorted by name: (name bytes are not
// emitted) values only, with the names in the doc comment
func (c *cx) constTable(name string, p *cpkg, goNames []string) {
	var vs []*big.Int
	for _, g := range goNames {
		v, err := p.evalInt(&ast.Ident{Name: g})
		if err != nil {
			c.failf("package %s: constant %s: %v", p.dir, g, err)
		}
		vs = append(vs, v)
	}
	at := p.konst(goNames[0])
	at.where = "consts " + strings.Join(goNames, ", ")
	c.nats(name, at, vs)
}

// named: the integer constants of the expression, one definition `<prefix>_<name>` each; the number of constants
// found must be exactly the number of names given (a changed expression shape is an error)
func (c *cx) named(prefix string, n cnode, names ...string) {
	vs := n.ints()
	if len(vs) != len(names) {
		c.failf("%s: %s: `%s` has %d integer constants, expected %d (%s)", c.rel(n.n.Pos()), n.where, render(n.n), len(vs), len(names), strings.Join(names, ", "))
	}
	for i, nm := range names {
		if nm == "_" {
			continue
		}
		c.nat(prefix+"_"+nm, n, vs[i])
	}
}

// text: a Lean `String` (compared with `rfl` against a literal: the kernel compares string literals directly)
func (c *cx) text(name string, at cnode, s string) {
	c.emit(name, "String", fmt.Sprintf("%q", s), s, at)
}

// shape: the operator tree of an expression as an S-expression, literals as decimal numbers, package constants by
// value, parentheses dropped, conversions kept: a canonical text of "which operators in which nesting"
func (n cnode) shape() string {
	var f func(e ast.Expr) string
	f = func(e ast.Expr) string {
		switch x := e.(type) {
		case *ast.ParenExpr:
			return f(x.X)
		case *ast.BasicLit:
			if x.Kind == token.INT || x.Kind == token.FLOAT || x.Kind == token.CHAR {
				if v, err := n.p.evalInt(x); err == nil {
					return v.String()
				}
			}
			return x.Value
		case *ast.Ident:
			if _, ok := n.p.consts[x.Name]; ok {
				if v, err := n.p.evalInt(x); err == nil {
					return v.String()
				}
			}
			return x.Name
		case *ast.BinaryExpr:
			return "(" + x.Op.String() + " " + f(x.X) + " " + f(x.Y) + ")"
		case *ast.UnaryExpr:
			return "(" + x.Op.String() + " " + f(x.X) + ")"
		case *ast.CallExpr:
			s := "(" + render(x.Fun)
			for _, a := range x.Args {
				s += " " + f(a)
			}
			return s + ")"
		case *ast.IndexExpr:
			return "(index " + f(x.X) + " " + f(x.Index) + ")"
		case *ast.SliceExpr:
			lo, hi := "_", "_"
			if x.Low != nil {
				lo = f(x.Low)
			}
			if x.High != nil {
				hi = f(x.High)
			}
			return "(slice " + f(x.X) + " " + lo + " " + hi + ")"
		case *ast.SelectorExpr, *ast.StarExpr, *ast.ArrayType, *ast.FuncLit, *ast.CompositeLit, *ast.TypeAssertExpr:
			return render(x)
		}
		n.p.c.failf("%s: %s: expression form %T not supported by shape()", n.p.c.rel(e.Pos()), n.where, e)
		return ""
	}
	e, ok := n.n.(ast.Expr)
	if !ok {
		n.p.c.failf("%s: not an expression", n.where)
	}
	return f(e)
}

func (c *cx) shapeOf(name string, n cnode) { c.text(name, n, n.shape()) }

var _ = sort.Strings

const (
	tokLSS = token.LSS
	tokGTR = token.GTR
	tokLEQ = token.LEQ
	tokGEQ = token.GEQ
	tokEQL = token.EQL
	tokNEQ = token.NEQ
	tokAND = token.AND
	tokOR  = token.OR
	tokSHL = token.SHL
	tokSHR = token.SHR
	tokADD = token.ADD
	tokSUB = token.SUB
	tokMUL = token.MUL
	tokREM = token.REM
	tokQUO = token.QUO
	tokXOR = token.XOR
)

func bigInt(i int) *big.Int { return big.NewInt(int64(i)) }

// callsWith: every call whose rendered callee satisfies `match`, in source order
func (n cnode) callsWith(match func(string) bool) []cnode {
	var out []cnode
	ast.Inspect(n.n, func(m ast.Node) bool {
		if x, ok := m.(*ast.CallExpr); ok && match(render(x.Fun)) {
			out = append(out, n.sub(x, "call of "+render(x.Fun)))
		}
		return true
	})
	return out
}

// texts: a Lean `List String`
func (c *cx) texts(name string, at cnode, ss []string) {
	var q []string
	for _, s := range ss {
		q = append(q, fmt.Sprintf("%q", s))
	}
	c.emit(name, "List String", "["+strings.Join(q, ", ")+"]", ss, at)
}

// putOrder: the second arguments of the `binary.<order>.PutUintN(buf, x)` calls of a function in source order,
// (and of the AppendUintN calls) as "<N><l|b>:<x>[@<dst slice>]" (width, byte order, what is written, where)
func (c *cx) putOrder(name string, n cnode) {
	var out []string
	for _, k := range n.callsWith(func(s string) bool { return strings.HasPrefix(s, "binary.") && (strings.Contains(s, ".PutUint") || strings.Contains(s, ".AppendUint")) }) {
		e := "b"
		if k.little() {
			e = "l"
		}
		dst := ""
		if _, ok := k.arg(0).n.(*ast.SliceExpr); ok {
			dst = "@" + k.arg(0).text() // written in place at a fixed position
		}
		out = append(out, fmt.Sprintf("%d%s:%s%s", k.width(), e, k.arg(1).text(), dst))
	}
	if len(out) == 0 {
		c.failf("package %s: %s: no binary.*.PutUintN calls", n.p.dir, n.where)
	}
	c.texts(name, n, out)
}

type bigT = big.Int

func ints(v ...int) []*big.Int {
	var out []*big.Int
	for _, x := range v {
		out = append(out, big.NewInt(int64(x)))
	}
	return out
}

// assignLike / lhsLike: the right-hand side / the left-hand side of the nth assignment whose target starts with `prefix`
// (e.g. "data[": the indexed stores into data, in source order)
func (n cnode) assignPairs(prefix string) (lhs, rhs []ast.Node) {
	ast.Inspect(n.n, func(m ast.Node) bool {
		if x, ok := m.(*ast.AssignStmt); ok && len(x.Lhs) == len(x.Rhs) {
			for i, l := range x.Lhs {
				if strings.HasPrefix(render(l), prefix) {
					lhs = append(lhs, l)
					rhs = append(rhs, x.Rhs[i])
				}
			}
		}
		return true
	})
	return
}

func (n cnode) assignLike(prefix string, nth int) cnode {
	_, r := n.assignPairs(prefix)
	return n.pick("assignment to "+prefix+"…", nth, r)
}

func (n cnode) lhsLike(prefix string, nth int) cnode {
	l, _ := n.assignPairs(prefix)
	return n.pick("target "+prefix+"…", nth, l)
}
