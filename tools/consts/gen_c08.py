import os, sys
sys.path.insert(0, os.path.dirname(os.path.abspath(__file__)))
from restate import *
G='ConstsC08.'
U32=lambda s:'UInt32.ofNat '+G+s
out='''/-
  C08 — the NTLMSSP signature, message types, negotiate flags, message layouts, target-info framing and SPNEGO object
  identifiers of the hand model are those of the current source.  `Gen/ConstsC08.lean` is regenerated on every run from
  network/smb/smb_v10/spnego (tools/extract/consts_c08.go).
-/
import Manticore.Model.C08
import Manticore.Gen.ConstsC08
namespace Manticore.C08
open Manticore
open Manticore.Gen

/-- `NTLM_SIGNATURE` and the twelve negotiate flags the model names -/
theorem consts_match_model_signature_and_flags :
    signature = ConstsC08.signature
      ∧ [F_UNICODE, F_OEM, F_REQUEST_TARGET, F_NTLM, F_DOMAIN_SUPPLIED, F_WORKSTATION_SUPPLIED, F_ALWAYS_SIGN, F_ESS, F_TARGET_INFO, F_VERSION,
         F_128, F_56]
        = [UInt32.ofNat ConstsC08.flagUnicode, UInt32.ofNat ConstsC08.flagOem, UInt32.ofNat ConstsC08.flagRequestTarget, UInt32.ofNat ConstsC08.flagNtlm,
           UInt32.ofNat ConstsC08.flagDomainSupplied, UInt32.ofNat ConstsC08.flagWorkstationSupplied, UInt32.ofNat ConstsC08.flagAlwaysSign,
           UInt32.ofNat ConstsC08.flagEss, UInt32.ofNat ConstsC08.flagTargetInfo, UInt32.ofNat ConstsC08.flagVersion, UInt32.ofNat ConstsC08.flag128,
           UInt32.ofNat ConstsC08.flag56] := by decide

/-- the flag word of `CreateNegotiateMessage`: the eight flags always set, then one flag per condition -/
theorem consts_match_model_negotiateFlags (domain workstation : Bytes) (unicode : Bool) :
    negotiateFlags domain workstation unicode =
      (let f0 := ConstsC08.neg_baseFlags.foldl (fun (a : UInt32) x => a ||| UInt32.ofNat x) 0
       let f1 := if unicode then f0 ||| UInt32.ofNat ConstsC08.neg_unicode_flag else f0 ||| UInt32.ofNat ConstsC08.neg_oem_flag
       let f2 := if domain ≠ [] then f1 ||| UInt32.ofNat ConstsC08.neg_domain_flag else f1
       if workstation ≠ [] then f2 ||| UInt32.ofNat ConstsC08.neg_workstation_flag else f2) := by
  cases unicode <;> by_cases hd : domain = [] <;> by_cases hw : workstation = [] <;> simp [negotiateFlags, hd, hw] <;> decide

'''
out+=restate('C08','createNegotiate','(upper utf16 : Bytes → Bytes) (domain workstation : Bytes) (unicode : Bool)','upper utf16 domain workstation unicode',[('putLe32 1','putLe32 ('+U32('msgNegotiate')+')'),('d.length 40','d.length '+G+'neg_headerSize'),('(40 +','('+G+'neg_headerSize +')],doc='`CreateNegotiateMessage`: message type 1 and the 40-byte header after which the payload starts')+'\n'
out+=restate('C08','createAuthenticate','(upper utf16 : Bytes → Bytes) (flags : UInt32) (lm nt : Bytes) (user domain workstation : Bytes)','upper utf16 flags lm nt user domain workstation',[('lmOff := 88','lmOff := '+G+'auth_headerSize'),('putLe32 3','putLe32 ('+U32('msgAuthenticate')+')'),('zeros 8','zeros '+G+'auth_zeroVersion'),('zeros 16','zeros '+G+'auth_mic')],doc='`CreateAuthenticateMessage`: message type 3, the 88-byte header, 8 zero bytes for an absent version, the 16-byte MIC')+'\n'
out+=restate('C08','createNegotiateMessage','(upper utf16 : Bytes → Bytes) (domain workstation : Bytes) (unicode : Bool)','upper utf16 domain workstation unicode',[('> 65535','> '+G+'neg_maxDomain'),('> 65535','> '+G+'neg_maxWorkstation')],doc='`CreateNegotiateMessage`: the length guard in front of the writes (a descriptor length is a 16-bit number)')+'\n'
out+=restate('C08','createAuthenticateMessage','(upper utf16 : Bytes → Bytes) (flags : UInt32) (lm nt : Bytes) (user domain workstation : Bytes)','upper utf16 flags lm nt user domain workstation',[('> 65535','> '+G+'auth_maxField')],doc='`CreateAuthenticateMessage`: the length guard over the five payload fields')+'\n'
out+='''/-- the shape of the two length guards: which lengths are compared, and that the AUTHENTICATE guard ranges over exactly
    the five fields the model lists, in the model's order -/
theorem consts_match_model_length_guards :
    ConstsC08.neg_lengthGuard_shape = "(|| (> (len domainBytes) 65535) (> (len workstationBytes) 65535))"
      ∧ ConstsC08.auth_guardedFields = ["lmResponse", "ntResponse", "domainBytes", "usernameBytes", "workstationBytes"] := ⟨rfl, rfl⟩

'''
out+='''/-- the order and widths of everything the two builders write, and how the payload offsets follow one another -/
theorem consts_match_model_message_orders :
    ConstsC08.neg_puts
        = ["32l:uint32(NTLM_NEGOTIATE)", "32l:flags", "16l:uint16(len(domainBytes))", "16l:uint16(len(domainBytes))", "32l:uint32(domainOffset)",
           "16l:uint16(len(workstationBytes))", "16l:uint16(len(workstationBytes))", "32l:uint32(workstationOffset)"]
      ∧ ConstsC08.auth_puts
        = ["32l:uint32(NTLM_AUTHENTICATE)", "16l:uint16(len(lmResponse))", "16l:uint16(len(lmResponse))", "32l:uint32(lmResponseOffset)",
           "16l:uint16(len(ntResponse))", "16l:uint16(len(ntResponse))", "32l:uint32(ntResponseOffset)", "16l:uint16(len(domainBytes))",
           "16l:uint16(len(domainBytes))", "32l:uint32(domainOffset)", "16l:uint16(len(usernameBytes))", "16l:uint16(len(usernameBytes))",
           "32l:uint32(usernameOffset)", "16l:uint16(len(workstationBytes))", "16l:uint16(len(workstationBytes))",
           "32l:uint32(workstationOffset)", "16l:uint16(len(sessionKey))", "16l:uint16(len(sessionKey))", "32l:uint32(sessionKeyOffset)", "32l:flags"]
      ∧ ConstsC08.auth_offset_shapes
        = ["headerSize", "(+ lmResponseOffset (len lmResponse))", "(+ ntResponseOffset (len ntResponse))", "(+ domainOffset (len domainBytes))",
           "(+ usernameOffset (len usernameBytes))", "(+ workstationOffset (len workstationBytes))"]
      ∧ [ConstsC08.neg_domainOffset_shape, ConstsC08.neg_workstationOffset_shape] = ["headerSize", "(+ domainOffset (len domainBytes))"]
      ∧ ConstsC08.auth_version_shape = "(!= (& flags 33554432) 0)" := ⟨rfl, rfl, rfl, rfl, rfl⟩

'''
out+=restate('C08','parseChallenge','(d : Bytes)','d',[('< 56','< '+G+'ch_minLen'),('take 8','take '+G+'ch_signature_hi'),('d 8 ≠ 2','d '+G+'ch_type_lo ≠ '+U32('ch_typeWant')),('d 12','d '+G+'ch_tnLen_lo'),('d 16','d '+G+'ch_tnOff_lo'),('d 20','d '+G+'ch_flags_lo'),('d 40','d '+G+'ch_tiLen_lo'),('d 44','d '+G+'ch_tiOff_lo'),('≥ 56','≥ '+G+'ch_versionGuard_minLen'),('drop 48).take 8','drop '+G+'ch_version_lo).take '+G+'ch_versionLen'),('drop 24).take 8','drop '+G+'ch_serverChallenge_lo).take ('+G+'ch_serverChallenge_hi - '+G+'ch_serverChallenge_lo)'),('drop 32).take 8','drop '+G+'ch_reserved_lo).take ('+G+'ch_reserved_hi - '+G+'ch_reserved_lo)')],doc='`ParseChallengeMessage`: minimum length 56, message type 2, and the offset of every field')+'\n'
out+='''/-- `ParseChallengeMessage`: field widths (2-byte lengths, 4-byte offsets and words, 8-byte blocks), little-endian reads, the
    version flag tested, the two payload guards -/
theorem consts_match_model_challenge_layout :
    [ConstsC08.ch_signature_lo, ConstsC08.ch_type_hi - ConstsC08.ch_type_lo, ConstsC08.ch_tnLen_hi - ConstsC08.ch_tnLen_lo,
     ConstsC08.ch_tnOff_hi - ConstsC08.ch_tnOff_lo, ConstsC08.ch_flags_hi - ConstsC08.ch_flags_lo, ConstsC08.ch_tiLen_hi - ConstsC08.ch_tiLen_lo,
     ConstsC08.ch_tiOff_hi - ConstsC08.ch_tiOff_lo, ConstsC08.ch_version_hi - ConstsC08.ch_version_lo] = [0, 4, 2, 4, 4, 2, 4, 8]
      ∧ ConstsC08.ch_anyBig = false ∧ ConstsC08.msgChallenge = ConstsC08.ch_typeWant
      ∧ F_VERSION = UInt32.ofNat ConstsC08.ch_versionGuard_flag ∧ ConstsC08.ch_versionGuard_zero = 0
      ∧ ConstsC08.ch_tnGuard_shape
          = "(&& (> targetNameLen 0) (<= (+ (uint64 targetNameOffset) (uint64 targetNameLen)) (uint64 (len data))))"
      ∧ ConstsC08.ch_tiGuard_shape
          = "(&& (> targetInfoLen 0) (<= (+ (uint64 targetInfoOffset) (uint64 targetInfoLen)) (uint64 (len data))))" :=
  ⟨by decide, rfl, rfl, by decide, rfl, rfl, rfl⟩

/-- `ParseTargetInfo`: a 4-byte AV header (id at [0:2], length at [2:4], little-endian: the model's pattern
    `i0 :: i1 :: l0 :: l1 :: body`), `MsvAvEOL` = 0 ends the list and is not stored; the AV ids -/
theorem consts_match_model_targetInfo :
    [ConstsC08.ti_need, ConstsC08.ti_id_hi, ConstsC08.ti_len_lo, ConstsC08.ti_len_hi, ConstsC08.ti_advance, ConstsC08.avEOL] = [4, 2, 2, 4, 4, 0]
      ∧ ConstsC08.ti_anyBig = false ∧ ConstsC08.avIds = List.range 11
      ∧ ConstsC08.ti_store_shape = "(!= avId 0)" ∧ ConstsC08.ti_stop_shape = "(== avId 0)"
      ∧ parseTargetInfo [1, 0, 1, 0, 0x41, 0, 0, 0, 0] = .ok [(1, [0x41])] := ⟨by decide, rfl, by decide, rfl, rfl, by decide⟩

/-- the SPNEGO and NTLMSSP object identifiers -/
theorem consts_match_model_oids :
    spnegoOid = ConstsC08.spnegoOid ∧ ntlmOid = ConstsC08.ntlmOid := by decide

end Manticore.C08
'''
emit('C08', out)
