import os, sys
sys.path.insert(0, os.path.dirname(os.path.abspath(__file__)))
from restate import *
G='ConstsC06.'
U8=lambda s:'UInt8.ofNat '+G+s
U16=lambda s:'UInt16.ofNat '+G+s
out='''/-
  C06 — the bit layout of SMB_DATE, the format codes and offsets of SMB_STRING and the sizes and offsets of the fixed SMB
  types in the hand model are those of the current source.  `Gen/ConstsC06.lean` is regenerated on every run from
  network/smb/smb_v10/types and the FILETIME passthrough (tools/extract/consts_c06.go).
-/
import Manticore.Model.C06
import Manticore.Gen.ConstsC06
namespace Manticore.C06
open Manticore
open Manticore.Gen

'''
out+='open SmbDate in\n'+restate('C06','pack','(d : SmbDate.V)','d',[('1980',U16('date_year_base')),('<<< 9','<<< '+U16('date_year_shift')),('<<< 5','<<< '+U16('date_month_shift'))],qual='SmbDate.',tname='date_pack',doc='`SMB_DATE.Marshal`: `(Year-1980)<<9 | Month<<5 | Day`')+'\n'
out+='open SmbDate in\n'+restate('C06','unpack','(w : UInt16)','w',[('0xFE00',U16('date_uyear_mask')),('>>> 9','>>> '+U16('date_uyear_shift')),('1980',U16('date_ubase_base')),('0x01E0',U16('date_umonth_mask')),('>>> 5','>>> '+U16('date_umonth_shift')),('0x001F',U16('date_uday_mask'))],qual='SmbDate.',tname='date_unpack',doc='`SMB_DATE.Unmarshal`: the three masks, the two shifts, the base year')+'\n'
out+='open SmbDate in\n'+restate('C06','decode','(b : Bytes)','b',[('< 2','< '+G+'date_minLen'),(', 2)',', '+G+'date_consumed)')],qual='SmbDate.',tname='date_decode',nth=2,doc='`SMB_DATE.Unmarshal`: minimum length and bytes consumed')+'\n'
out+='''theorem consts_match_model_date_layout :
    ConstsC06.date_put_le = true ∧ ConstsC06.date_read_le = true ∧ ConstsC06.date_read_hi = 2
      ∧ ConstsC06.date_value_shape = "(| (| valueYear valueMonth) valueDay)" := ⟨rfl, rfl, rfl, rfl⟩

'''
out+='open SmbString in\n'+restate('C06','marshal','(s : SmbString.V)','s',[('= 1','= '+U8('str_fmt1')),('= 5','= '+U8('str_fmt5')),('= 2','= '+U8('str_fmt2')),('= 4','= '+U8('str_fmt4')),('= 3','= '+U8('str_fmt3'))],qual='SmbString.',tname='string_marshal',doc='`SMB_STRING.Marshal`: which format code takes which layout')+'\n'
out+='''/-- `SMB_STRING.Marshal`: what each case appends, in order (format, 16-bit length, bytes, terminator) and the length limit -/
theorem consts_match_model_string_marshal_order :
    [ConstsC06.str_m1_appends, ConstsC06.str_m2_appends, ConstsC06.str_m3_appends, ConstsC06.str_m4_appends, ConstsC06.str_m5_appends]
      = [["s.BufferFormat", "buf2", "s.Buffer"], ["s.BufferFormat", "s.Buffer", "0x00"], ["s.BufferFormat", "buf2", "s.Buffer", "0x00"],
         ["s.BufferFormat", "s.Buffer", "0x00"], ["s.BufferFormat", "buf2", "s.Buffer"]]
      ∧ ConstsC06.str_tooLong_shape = "(> (len s.Buffer) math.MaxUint16)" := ⟨rfl, rfl⟩

'''
out+='open SmbString in\n'+restate('C06','decodeCounted','(f : UInt8) (b : Bytes) (extra : Nat)','f b extra',[('< 3','< '+G+'str_f1_minLen'),('b 1','b '+G+'str_f1_len_lo'),('+ 3 +','+ '+G+'str_f1_need_base +'),('b 3 (3 +','b '+G+'str_f1_copy_lo ('+G+'str_f1_copy_base +'),('+ 3 +','+ '+G+'str_f1_consumed_base +')],qual='SmbString.',tname='string_decodeCounted',doc='the length-prefixed formats of `SMB_STRING.Unmarshal`: minimum length 3, the length at [1:3], the body from 3')+'\n'
out+='''/-- the three length-prefixed cases use the same numbers; format 3 additionally counts its terminator (`extra = 1`) -/
theorem consts_match_model_string_counted_alike :
    [ConstsC06.str_f3_minLen, ConstsC06.str_f3_len_lo, ConstsC06.str_f3_len_hi, ConstsC06.str_f3_need_base, ConstsC06.str_f3_copy_lo,
     ConstsC06.str_f3_copy_base, ConstsC06.str_f3_consumed_base]
      = [ConstsC06.str_f1_minLen, ConstsC06.str_f1_len_lo, ConstsC06.str_f1_len_hi, ConstsC06.str_f1_need_base, ConstsC06.str_f1_copy_lo,
         ConstsC06.str_f1_copy_base, ConstsC06.str_f1_consumed_base]
      ∧ [ConstsC06.str_f5_minLen, ConstsC06.str_f5_len_lo, ConstsC06.str_f5_len_hi, ConstsC06.str_f5_need_base, ConstsC06.str_f5_copy_lo,
         ConstsC06.str_f5_copy_base, ConstsC06.str_f5_consumed_base]
      = [ConstsC06.str_f1_minLen, ConstsC06.str_f1_len_lo, ConstsC06.str_f1_len_hi, ConstsC06.str_f1_need_base, ConstsC06.str_f1_copy_lo,
         ConstsC06.str_f1_copy_base, ConstsC06.str_f1_consumed_base]
      ∧ [ConstsC06.str_f3_need_extra, ConstsC06.str_f3_consumed_extra] = [1, 1]
      ∧ ConstsC06.str_f1_len_hi = ConstsC06.str_f1_len_lo + 2
      ∧ [ConstsC06.str_f1_len_le, ConstsC06.str_f3_len_le, ConstsC06.str_f5_len_le] = [true, true, true] := by decide

'''
out+='open SmbString in\n'+restate('C06','decodeTerminated','(f : UInt8) (b : Bytes)','f b',[('b.drop 1','b.drop '+G+'str_f2_scanFrom'),('i + 1','i + '+G+'str_f2_scanFrom'),('b 1 nullPos','b '+G+'str_f2_copy_lo nullPos'),('nullPos + 1','nullPos + '+G+'str_f2_consumed_plus')],qual='SmbString.',tname='string_decodeTerminated',doc='the NUL-terminated formats: the scan starts at 1, the body is `[1:nullPos]`, `nullPos+1` bytes are consumed')+'\n'
out+='''theorem consts_match_model_string_terminated_alike :
    [ConstsC06.str_f4_scanFrom, ConstsC06.str_f4_terminator, ConstsC06.str_f4_copy_lo, ConstsC06.str_f4_consumed_plus, ConstsC06.str_f4_make_minus]
      = [ConstsC06.str_f2_scanFrom, ConstsC06.str_f2_terminator, ConstsC06.str_f2_copy_lo, ConstsC06.str_f2_consumed_plus, ConstsC06.str_f2_make_minus]
      ∧ ConstsC06.str_f2_terminator = 0 ∧ ConstsC06.str_f2_make_minus = ConstsC06.str_f2_copy_lo := by decide

'''
out+='open SmbString in\n'+restate('C06','decode','(b : Bytes)','b',[('< 1','< '+G+'str_minLen'),('index b 0','index b '+G+'str_formatIdx'),('f = 1','f = '+U8('str_fmt1')),('f = 2','f = '+U8('str_fmt2')),('f = 3','f = '+U8('str_fmt3')),('b 1','b '+G+'str_f3_need_extra'),('f = 4','f = '+U8('str_fmt4')),('f = 5','f = '+U8('str_fmt5'))],qual='SmbString.',tname='string_decode',nth=0,doc='`SMB_STRING.Unmarshal`: the dispatch on the format byte')+'\n'
out+='''theorem consts_match_model_string_formats :
    ConstsC06.str_formats = [1, 2, 3, 4, 5]
      ∧ ConstsC06.str_caseOrder
        = ["SMB_STRING_BUFFER_FORMAT_VARIABLE_BLOCK_16BIT", "SMB_STRING_BUFFER_FORMAT_NULL_TERMINATED_OEM_STRING",
           "SMB_STRING_BUFFER_FORMAT_NULL_TERMINATED_OEM_STRING_16BIT", "SMB_STRING_BUFFER_FORMAT_NULL_TERMINATED_ASCII_STRING",
           "SMB_STRING_BUFFER_FORMAT_VARIABLE_BLOCK"] := ⟨by decide, rfl⟩

'''
out+='open ResumeKey in\n'+restate('C06','decode','(b : Bytes)','b',[('< 21','< '+G+'rk_minBuffer'),('buffer 0','buffer '+G+'rk_reservedIdx'),('buffer 1 17','buffer '+G+'rk_server_lo '+G+'rk_server_hi'),('buffer 17 21','buffer '+G+'rk_client_lo '+G+'rk_client_hi')],qual='ResumeKey.',tname='resumeKey_decode',nth=7,doc='`SMB_RESUME_KEY.Unmarshal`: 21 bytes = reserved [0], server state [1:17], client state [17:21]')+'\n'
out+='open DirInfo in\n'+restate('C06','padName','(n : Bytes)','n',[('12',G+'dir_namePad_to'),('32','(UInt8.ofNat 32)')],qual='DirInfo.',tname='dirInfo_padName',doc='`SMB_DIRECTORY_INFORMATION.Marshal`: names are padded to 12 bytes')+'\n'
out+='''theorem consts_match_model_dirInfo_name :
    ConstsC06.dir_namePadWith = [32] ∧ ConstsC06.dir_namePadBelow = ConstsC06.dir_namePad_to ∧ ConstsC06.dir_nameMax = ConstsC06.dir_namePad_to
      ∧ ConstsC06.dir_nameSlice_len = ConstsC06.dir_namePad_to + 2 := by decide

'''
out+='open DirInfo in\n'+restate('C06','decode','(data : Bytes)','data',[('offset + 2 >','offset + '+G+'dir_timeNeeds >'),('offset + 2 >','offset + '+G+'dir_dateNeeds >'),('(offset + 2)','(offset + '+G+'dir_dateSlice_len)'),('offset + 4 >','offset + '+G+'dir_sizeNeeds >'),('offset + 4','offset + '+G+'dir_size_len'),('offset + 14 >','offset + '+G+'dir_nameNeeds >'),('(offset + 14)','(offset + '+G+'dir_nameSlice_len)')],qual='DirInfo.',tname='dirInfo_decode',nth=9,doc='`SMB_DIRECTORY_INFORMATION.Unmarshal`: the length checks and windows of date (2), size (4) and name (14)')+'\n'
out+='open Range32 in\n'+restate('C06','decode','(b : Bytes)','b',[('< 10','< '+G+'r32_minLen'),('b 0','b '+G+'r32_pid_lo'),('b 2','b '+G+'r32_offset_lo'),('b 6','b '+G+'r32_length_lo'),(', 10)',', '+G+'r32_length_hi)')],qual='Range32.',tname='range32_decode',nth=4,doc='`LOCKING_ANDX_RANGE32.Unmarshal`: 10 bytes = PID [0:2], offset [2:6], length [6:10]')+'\n'
out+='open FileTime in\n'+restate('C06','decode','(b : Bytes)','b',[('< 8','< '+G+'ft_minLen'),('b 0','b '+G+'ft_lo_from'),('b 4','b '+G+'ft_hi_from'),(', 8)',', '+G+'ft_consumed)')],qual='FileTime.',tname='fileTime_decode',nth=3,doc='`FILETIME.Unmarshal`: 8 bytes = low [0:4], high [4:8]')+'\n'
out+='open FileAttributes in\n'+restate('C06','decode','(b : Bytes)','b',[('< 2','< '+G+'fa_minLen')],qual='FileAttributes.',tname='fileAttributes_decode',nth=8,doc='`SMB_FILE_ATTRIBUTES.Unmarshal`: minimum length')+'\n'
out+='''/-- widths and byte orders of the fixed types: little-endian everywhere except SMB_FILE_ATTRIBUTES, which the code reads
    and writes big-endian -/
theorem consts_match_model_byte_orders :
    ConstsC06.r32_anyBig = false ∧ ConstsC06.ft_anyBig = false ∧ ConstsC06.fa_le = false ∧ ConstsC06.dir_size_le = true
      ∧ [ConstsC06.r32_pid_hi - ConstsC06.r32_pid_lo, ConstsC06.r32_offset_hi - ConstsC06.r32_offset_lo,
         ConstsC06.r32_length_hi - ConstsC06.r32_length_lo, ConstsC06.ft_lo_to - ConstsC06.ft_lo_from, ConstsC06.ft_hi_to - ConstsC06.ft_hi_from]
        = [2, 4, 4, 4, 4]
      ∧ rdLe16 [0x12, 0x34] 0 = .ok 0x3412 ∧ rdBe16 [0x12, 0x34] 0 = .ok 0x1234 ∧ rdLe32 [0x12, 0x34, 0x56, 0x78] 0 = .ok 0x78563412 := by
  decide

theorem consts_match_model_encode_orders :
    ConstsC06.r32_encode = ["16l:uint16(l.PID)@result[0:2]", "32l:uint32(l.ByteOffset)@result[2:6]", "32l:uint32(l.LengthInBytes)@result[6:10]"]
      ∧ ConstsC06.fa_encode = ["16b:s.Attributes"] ∧ ConstsC06.ft_encode = ["32l:ft.DwLowDateTime", "32l:ft.DwHighDateTime"] :=
  ⟨rfl, rfl, rfl⟩

end Manticore.C06
'''
emit('C06', out)
