import os, sys
sys.path.insert(0, os.path.dirname(os.path.abspath(__file__)))
from restate import *
G='ConstsC20.'
U8=lambda s:'UInt8.ofNat '+G+s
U32=lambda s:'UInt32.ofNat '+G+s
U64=lambda s:'UInt64.ofNat '+G+s
out='''/-
  C20 — the separators, part counts, `ParseUint` bases and widths, shifts, masks, port bounds, format strings and the
  two regular expressions of the hand model are those of the current source.  `Gen/ConstsC20.lean` is regenerated on
  every run from network/ip/{ipv4,ipv6,tcp_port}.go and windows/credentials/credentials.go
  (tools/extract/consts_c20.go).
-/
import Manticore.Model.C20
import Manticore.Gen.ConstsC20
namespace Manticore.C20
open Manticore
open Manticore.Gen

/-- the one-byte separators -/
theorem consts_match_model_separators :
    [slashB] = ConstsC20.v4_sepMask ∧ [dotB] = ConstsC20.v4_sepOctets ∧ [colonB] = ConstsC20.v6_sep ∧ [dashB] = ConstsC20.port_sep
      ∧ [colonB] = ConstsC20.lmnt_sep ∧ [colonB] = ConstsC20.lmnt_contains ∧ [colonB] = ConstsC20.lmnt_prepend := by decide

/-- the regular expression literals the model transliterates -/
theorem consts_match_model_regexps :
    ConstsC20.port_regexp = portRangeRegexp ∧ ConstsC20.lmnt_regexp = lmntRegexp := ⟨rfl, rfl⟩

/-- the format strings of `String`, `CIDRAddress`, `CIDRMask` and `TCPPortRange.String` -/
theorem consts_match_model_formats :
    ConstsC20.v4_format = asciiBytes "%d.%d.%d.%d/%d" ∧ ConstsC20.v4_formatAddress = ConstsC20.v4_format
      ∧ ConstsC20.v4_formatMask = ConstsC20.v4_format ∧ ConstsC20.port_format = asciiBytes "%d-%d" := by decide

'''
out+=restate('C20','octet','(x : Bytes)','x',[('10 8',G+'v4_o0_base '+G+'v4_o0_bits')], doc='`strconv.ParseUint(octets[i], 10, 8)`')+'\n'
out+='''/-- the four octets are parsed alike, from `octets[0]`…`octets[3]` of `parts[0]` -/
theorem consts_match_model_octets_alike :
    [ConstsC20.v4_o1_base, ConstsC20.v4_o2_base, ConstsC20.v4_o3_base] = [ConstsC20.v4_o0_base, ConstsC20.v4_o0_base, ConstsC20.v4_o0_base]
      ∧ [ConstsC20.v4_o1_bits, ConstsC20.v4_o2_bits, ConstsC20.v4_o3_bits] = [ConstsC20.v4_o0_bits, ConstsC20.v4_o0_bits, ConstsC20.v4_o0_bits] := by
  decide

'''
out+=restate('C20','parseIPv4','(s : Bytes)','s',[('= 2','= '+G+'v4_parts'),('parts 1','parts '+G+'v4_mask_idx'),('10 8',G+'v4_mask_base '+G+'v4_mask_bits'),('> 32','> '+G+'v4_maskMax'),
  ('parts 0','parts '+G+'v4_octetsFrom_idx'),('≠ 4','≠ '+G+'v4_octets'),('octets 0','octets '+G+'v4_o0_idx'),('octets 1','octets '+G+'v4_o1_idx'),('octets 2','octets '+G+'v4_o2_idx'),('octets 3','octets '+G+'v4_o3_idx')],
  doc='`NewIPv4FromString`: part counts, which part is what, base and width of the mask, the mask bound')+'\n'
out+=restate('C20','toUInt32','(i : IPv4)','i',[('<<< 24','<<< '+U32('v4_toU32_sa')),('<<< 16','<<< '+U32('v4_toU32_sb')),('<<< 8','<<< '+U32('v4_toU32_sc'))], doc='`ToUInt32`')+'\n'
out+=restate('C20','maskOf','(m : UInt8)','m',[('0xFFFFFFFF','('+U32('v4_cm_mask_ones')+')'),('(32 - m)','('+U8('v4_cm_mask_width')+' - m)')], doc='`uint32(0xFFFFFFFF) << (32 - MaskBits)` in `ComputeMask`')+'\n'
out+=restate('C20','computeMask','(i : IPv4)','i',[('>>> 24','>>> '+U32('v4_cm_a_shift')),('0xFF',U32('v4_cm_a_mask')),('>>> 16','>>> '+U32('v4_cm_b_shift')),('0xFF',U32('v4_cm_b_mask')),('>>> 8','>>> '+U32('v4_cm_c_shift')),('0xFF',U32('v4_cm_c_mask')),('0xFF',U32('v4_cm_d_mask'))], doc='`ComputeMask`')+'\n'
out+='''/-- `IsInSubnet` builds the same mask as `ComputeMask`; operator nesting of the IPv4 expressions -/
theorem consts_match_model_v4_shapes :
    [ConstsC20.v4_sub_mask_ones, ConstsC20.v4_sub_mask_width] = [ConstsC20.v4_cm_mask_ones, ConstsC20.v4_cm_mask_width]
      ∧ [ConstsC20.v4_toU32_shape, ConstsC20.v4_cm_mask_shape, ConstsC20.v4_cm_masked_shape, ConstsC20.v4_sub_mask_shape,
         ConstsC20.v4_sub_shape, ConstsC20.v4_range_shape]
        = ["(| (| (| (<< (uint32 i.A) 24) (<< (uint32 i.B) 16)) (<< (uint32 i.C) 8)) (uint32 i.D))",
           "(<< (uint32 4294967295) (- 32 i.MaskBits))", "(& n mask)", "(<< (uint32 4294967295) (- 32 subnet.MaskBits))",
           "(== (& (i.ToUInt32) mask) (& (subnet.ToUInt32) mask))",
           "(&& (>= (i.ToUInt32) (start.ToUInt32)) (<= (i.ToUInt32) (end.ToUInt32)))"] := ⟨by decide, rfl⟩

'''
out+=restate('C20','group','(x : Bytes)','x',[('16 16',G+'v6_g0_base '+G+'v6_g0_bits')], doc='`strconv.ParseUint(parts[i], 16, 16)`')+'\n'
out+='''theorem consts_match_model_groups_alike :
    [ConstsC20.v6_g1_base, ConstsC20.v6_g2_base, ConstsC20.v6_g3_base, ConstsC20.v6_g4_base, ConstsC20.v6_g5_base, ConstsC20.v6_g6_base,
     ConstsC20.v6_g7_base] = List.replicate 7 ConstsC20.v6_g0_base
      ∧ [ConstsC20.v6_g1_bits, ConstsC20.v6_g2_bits, ConstsC20.v6_g3_bits, ConstsC20.v6_g4_bits, ConstsC20.v6_g5_bits, ConstsC20.v6_g6_bits,
         ConstsC20.v6_g7_bits] = List.replicate 7 ConstsC20.v6_g0_bits := by decide

'''
out+=restate('C20','parseIPv6','(s : Bytes)','s',[('= 8','= '+G+'v6_parts')]+[('parts %d'%k,'parts '+G+'v6_g%d_idx'%k) for k in range(8)], doc='`NewIPv6FromString`: the number of groups and which part is which')+'\n'
out+=restate('C20','toUInt128','(i : IPv6)','i',[('<<< 48','<<< '+U64('v6_high_sa')),('<<< 32','<<< '+U64('v6_high_sb')),('<<< 16','<<< '+U64('v6_high_sc')),('<<< 48','<<< '+U64('v6_low_sa')),('<<< 32','<<< '+U64('v6_low_sb')),('<<< 16','<<< '+U64('v6_low_sc'))], doc='`ToUInt128`')+'\n'
out+='''theorem consts_match_model_v6_shapes :
    [ConstsC20.v6_high_shape, ConstsC20.v6_low_shape, ConstsC20.v6_range_shape]
      = ["(| (| (| (<< (uint64 i.A) 48) (<< (uint64 i.B) 32)) (<< (uint64 i.C) 16)) (uint64 i.D))",
         "(| (| (| (<< (uint64 i.E) 48) (<< (uint64 i.F) 32)) (<< (uint64 i.G) 16)) (uint64 i.H))",
         "(&& (|| (> (index ip 0) (index startIP 0)) (&& (== (index ip 0) (index startIP 0)) (>= (index ip 1) (index startIP 1)))) (|| (< (index ip 0) (index endIP 0)) (&& (== (index ip 0) (index endIP 0)) (<= (index ip 1) (index endIP 1)))))"] := rfl

'''
out+=restate('C20','parsePortRange','(s : Bytes)','s',[('= 2','= '+G+'port_parts'),('parts 0','parts '+G+'port_start_idx'),('parts 1','parts '+G+'port_end_idx'),
  ('10 16',G+'port_start_base '+G+'port_start_bits'),('> 65535','> '+G+'port_startMax'),('pure 0','pure '+G+'port_startDefault'),
  ('10 16',G+'port_end_base '+G+'port_end_bits'),('> 65535','> '+G+'port_endMax'),('pure 65535','pure '+G+'port_endDefault')],
  doc='`NewTCPPortRangeFromString`: part count, base 10 and width 16, the bounds 65535 and the defaults 0 and 65535')+'\n'
out+='''theorem consts_match_model_port_trim : [ConstsC20.port_trim0, ConstsC20.port_trim1] = [ConstsC20.port_start_idx, ConstsC20.port_end_idx] := by
  decide

'''
out+=restate('C20','lmntCore','(t : Bytes)','t',[('parts 0','parts '+G+'lmnt_parts_lm'),('parts 1','parts '+G+'lmnt_parts_nt'),('≠ 32','≠ '+G+'lmnt_lmLen'),('≠ 32','≠ '+G+'lmnt_ntLen')], doc='`ParseLMNTHashes`: which part is which hash and the hash length')+'\n'
out+='end Manticore.C20\n'
emit('C20', out)
