import os, sys
sys.path.insert(0, os.path.dirname(os.path.abspath(__file__)))
from restate import *
G='ConstsC10.'
N=lambda s:'UInt8.ofNat '+G+s
out='''/-
  C10 — the first-level encoding constants, the label limits and the packet layout of the hand model are those of the
  current source.  `Gen/ConstsC10.lean` is regenerated on every run from network/netbios/nbtns/name.go and packet.go
  (tools/extract/consts_c10.go).  Each theorem restates a model function with the regenerated numbers in place of its
  literals.
-/
import Manticore.Model.C10
import Manticore.Gen.ConstsC10
namespace Manticore.C10
open Manticore
open Manticore.Gen

/-- the package constants and their uses agree; 32 = 2·16 -/
theorem consts_match_model_package_constants :
    ConstsC10.validate_nameMax = ConstsC10.nameLength ∧ ConstsC10.encode_nameBuf = ConstsC10.nameLength
      ∧ ConstsC10.encode_padUntil = ConstsC10.nameLength ∧ ConstsC10.encode_loopUntil = ConstsC10.nameLength
      ∧ ConstsC10.decode_outBuf = ConstsC10.nameLength ∧ ConstsC10.decode_loopUntil = ConstsC10.nameLength
      ∧ ConstsC10.encode_outBuf = ConstsC10.encodedNameLength ∧ ConstsC10.decode_encodedLen = ConstsC10.encodedNameLength
      ∧ ConstsC10.encodedNameLength = 2 * ConstsC10.nameLength
      ∧ ConstsC10.encode_hi_add = ConstsC10.asciiA ∧ ConstsC10.encode_lo_add = ConstsC10.asciiA
      ∧ ConstsC10.decode_high_sub = ConstsC10.asciiA ∧ ConstsC10.decode_low_sub = ConstsC10.asciiA
      ∧ ConstsC10.append_total_max = ConstsC10.maxEncodedNameLength
      ∧ space = UInt8.ofNat ConstsC10.encode_padByte ∧ [space] = ConstsC10.decode_trim
      ∧ [dot] = ConstsC10.encode_scopeJoin ∧ [dot] = ConstsC10.decode_splitAt ∧ ConstsC10.decode_split_n = 2
      ∧ [ConstsC10.decode_high_mul, ConstsC10.decode_low_mul, ConstsC10.decode_low_plus] = [2, 2, 1] := by decide

'''
out+=restate('C10','validate','(n : NBName)','n',[('16',G+'validate_nameMax')], doc='`Validate`: the name limit')+'\n'
out+=restate('C10','encByte','(b : UInt8)','b',[('4',N('encode_hi_shift')),('0x0F',N('encode_hi_mask')),('0x41',N('encode_hi_add')),('0x0F',N('encode_lo_mask')),('0x41',N('encode_lo_add'))], doc='`FirstLevelEncode`: nibble shift, masks and the letter offset')+'\n'
out+=restate('C10','pad16','(name : Bytes)','name',[('16',G+'encode_padUntil')], doc='`FirstLevelEncode`: padding length')+'\n'
out+='''theorem consts_match_model_encode_shape :
    ConstsC10.encode_hi_shape = "(+ (& (>> (index name i) 4) 15) 65)" ∧ ConstsC10.encode_lo_shape = "(+ (& (index name i) 15) 65)"
      ∧ ConstsC10.decode_combine_shape = "(| (<< high 4) low)" := ⟨rfl, rfl, rfl⟩

/-- `FirstLevelDecode`, one pair: letter offset, the nibble bound, the shift -/
theorem consts_match_model_decPairs (hi lo : UInt8) (rest : Bytes) :
    decPairs (hi :: lo :: rest) =
      if hi - UInt8.ofNat ConstsC10.decode_high_sub > UInt8.ofNat ConstsC10.decode_highMax
          || lo - UInt8.ofNat ConstsC10.decode_low_sub > UInt8.ofNat ConstsC10.decode_lowMax then .err
      else
        match decPairs rest with
        | .ok d => .ok ((((hi - UInt8.ofNat ConstsC10.decode_high_sub) <<< UInt8.ofNat ConstsC10.decode_combine_shift)
                          ||| (lo - UInt8.ofNat ConstsC10.decode_low_sub)) :: d)
        | .err => .err
        | .panic => .panic := by exact rfl

'''
out+=restate('C10','firstLevelDecode','(encoded : Bytes)','encoded',[('32',G+'decode_encodedLen')], doc='`FirstLevelDecode`: the encoded length')+'\n'
out+='''/-- `isValidDomainName`: label length limits, the character ranges, the hyphen at the edges -/
theorem consts_match_model_partOk (p : Bytes) :
    partOk p =
      (!(p.length == ConstsC10.domain_part_min || p.length > ConstsC10.domain_part_max) && p.all ldh
        && !(p.head? == some hyphen) && !(p.getLast? == some hyphen)) := by exact rfl

theorem consts_match_model_ldh (c : UInt8) :
    ConstsC10.domain_charRanges = [97, 122, 65, 90, 48, 57, 45] ∧ ConstsC10.domain_edge = ["-", "-"]
      ∧ ldh c = ((97 ≤ c && c ≤ 122) || (65 ≤ c && c ≤ 90) || (48 ≤ c && c ≤ 57) || c == 45)
      ∧ ConstsC10.domain_char_shape
          = "(! (|| (|| (|| (&& (>= c 97) (<= c 122)) (&& (>= c 65) (<= c 90))) (&& (>= c 48) (<= c 57))) (== c 45)))"
      ∧ ConstsC10.domain_part_shape = "(|| (== (len part) 0) (> (len part) 63))" := ⟨rfl, rfl, rfl, rfl, rfl⟩

/-- `appendEncodedName`, one label -/
theorem consts_match_model_appendLabels (l : Bytes) (ls : List Bytes) (buf : Bytes) :
    appendLabels (l :: ls) buf =
      if l.length = ConstsC10.append_label_min ∨ l.length > ConstsC10.append_label_max then .err
      else appendLabels ls (buf ++ UInt8.ofNat l.length :: l) := by exact rfl

'''
out+=restate('C10','appendEncodedName','(buf encoded : Bytes)','buf encoded',[('2',G+'append_total_plus'),('255',G+'append_total_max'),('[0]','[UInt8.ofNat '+G+'append_terminator_zero]')], doc='`appendEncodedName`: the wire-length check and the terminator')+'\n'
out+=restate('C10','readEncodedName','(data : Bytes) (offset : Nat) (labels : List Bytes)','data offset labels',[('= 0','= UInt8.ofNat '+G+'read_end'),('> 63','> '+G+'read_labelMax')], wf=True, doc='`readEncodedName`, one turn of the loop: the end byte and the label limit')+'\n'
out+='''theorem consts_match_model_name_shapes :
    [ConstsC10.append_total_shape, ConstsC10.append_label_shape, ConstsC10.read_fits_shape, ConstsC10.rr_rdataFits_shape]
      = ["(> (+ (len encoded) 2) 255)", "(|| (== (len label) 0) (> (len label) 63))", "(> (+ offset labelLen) (len data))",
         "(> (+ offset (int rr.RDLength)) (len data))"] := rfl

/-- `data[off:off+2]` / `data[off:off+4]` read big-endian -/
theorem consts_match_model_byte_order :
    ConstsC10.packet_anyLittle = false ∧ ConstsC10.rr_widths = [16, 16, 32, 16]
      ∧ rd16 [0x12, 0x34, 0x56] 0 = .ok 0x1234 ∧ rd32 [0x12, 0x34, 0x56, 0x78, 0x9A] 0 = .ok 0x12345678 := by decide

'''
out+=restate('C10','unmarshalQ','(data : Bytes) (offset : Nat)','data offset',[('4',G+'question_needs'),('next + 2','next + '+G+'question_class_lo'),('next + 4','next + '+G+'question_advance')], doc='one question of `Unmarshal`: fixed size and offsets')+'\n'
out+=restate('C10','unmarshalRR','(data : Bytes) (offset : Nat)','data offset',[('10',G+'rr_needs'),('next + 2','next + '+G+'rr_class_lo'),('next + 4','next + '+G+'rr_ttl_lo'),('next + 8','next + '+G+'rr_rdlength_lo'),
  ('next + 10','next + '+G+'rr_advance'),('next + 10','next + '+G+'rr_advance'),('next + 10','next + '+G+'rr_advance'),('next + 10','next + '+G+'rr_advance')], doc='one resource record of `unmarshalRRs`: fixed size and offsets')+'\n'
out+='''/-- the slice ends of the fixed fields are start + width -/
theorem consts_match_model_field_ends :
    [ConstsC10.question_type_hi, ConstsC10.question_class_hi - ConstsC10.question_class_lo] = [2, 2]
      ∧ [ConstsC10.rr_type_hi, ConstsC10.rr_class_hi - ConstsC10.rr_class_lo, ConstsC10.rr_ttl_hi - ConstsC10.rr_ttl_lo,
         ConstsC10.rr_rdlength_hi - ConstsC10.rr_rdlength_lo] = [2, 2, 4, 2]
      ∧ [ConstsC10.packet_h0_hi - ConstsC10.packet_h0_lo, ConstsC10.packet_h1_hi - ConstsC10.packet_h1_lo,
         ConstsC10.packet_h2_hi - ConstsC10.packet_h2_lo, ConstsC10.packet_h3_hi - ConstsC10.packet_h3_lo,
         ConstsC10.packet_h4_hi - ConstsC10.packet_h4_lo, ConstsC10.packet_h5_hi - ConstsC10.packet_h5_lo] = [2, 2, 2, 2, 2, 2] := by decide

'''
out+=restate('C10','unmarshal','(data : Bytes)','data',[('12',G+'packet_minLen'),('data 0','data '+G+'packet_h0_lo'),('data 2','data '+G+'packet_h1_lo'),('data 4','data '+G+'packet_h2_lo'),('data 6','data '+G+'packet_h3_lo'),('data 8','data '+G+'packet_h4_lo'),('data 10','data '+G+'packet_h5_lo'),('12',G+'packet_firstOffset')], doc='`Unmarshal`: minimum length, the six header offsets, where the sections start')+'\n'
out+='''theorem consts_match_model_marshal_order :
    ConstsC10.packet_encode
      = ["16b:p.Header.TransactionID@buf[0:2]", "16b:p.Header.Flags@buf[2:4]", "16b:p.Header.Questions@buf[4:6]",
         "16b:p.Header.Answers@buf[6:8]", "16b:p.Header.Authority@buf[8:10]", "16b:p.Header.Additional@buf[10:12]", "16b:q.Type", "16b:q.Class",
         "16b:rr.Type", "16b:rr.Class", "32b:rr.TTL", "16b:rr.RDLength"] := rfl

end Manticore.C10
'''
emit('C10', out)
