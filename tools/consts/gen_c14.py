import os, sys
sys.path.insert(0, os.path.dirname(os.path.abspath(__file__)))
from restate import *
G='ConstsC14.'
U8=lambda s:'UInt8.ofNat '+G+s
U32=lambda s:'UInt32.ofNat '+G+s
out='''/-
  C14 — the entry type codes, the version constants, the RSA blob header, the CustomKeyInformation ladder and the entry
  framing of the hand model are those of the current source.  `Gen/ConstsC14.lean` is regenerated on every run from
  windows/keycredential (tools/extract/consts_c14.go).
-/
import Manticore.Model.C14
import Manticore.Gen.ConstsC14
namespace Manticore.C14
open Manticore
open Manticore.Gen

/-- the entry identifiers of the specification are the package's `KeyCredentialEntryType_*`; `FromBytes` switches on them in
    this order -/
theorem consts_match_model_entry_types :
    [Spec.idKeyID, Spec.idKeyHash, Spec.idKeyMaterial, Spec.idKeyUsage, Spec.idKeySource, Spec.idDeviceId, Spec.idCustomKeyInformation]
      = [UInt8.ofNat ConstsC14.entry1, UInt8.ofNat ConstsC14.entry2, UInt8.ofNat ConstsC14.entry3, UInt8.ofNat ConstsC14.entry4,
         UInt8.ofNat ConstsC14.entry5, UInt8.ofNat ConstsC14.entry6, UInt8.ofNat ConstsC14.entry7]
      ∧ ConstsC14.kc_caseOrder
        = ["key.KeyCredentialEntryType_KeyID", "key.KeyCredentialEntryType_KeyHash", "key.KeyCredentialEntryType_KeyMaterial",
           "key.KeyCredentialEntryType_KeyUsage", "key.KeyCredentialEntryType_KeySource", "key.KeyCredentialEntryType_DeviceId",
           "key.KeyCredentialEntryType_CustomKeyInformation", "key.KeyCredentialEntryType_KeyApproximateLastLogonTimeStamp",
           "key.KeyCredentialEntryType_KeyCreationTime"] := ⟨by decide, rfl⟩

/-- identifiers are hex for `KeyCredentialVersion_0` and `_1`, base64 otherwise -/
theorem consts_match_model_isHexVersion (v : UInt32) :
    isHexVersion v = (v == UInt32.ofNat ConstsC14.version0 || v == UInt32.ofNat ConstsC14.version1)
      ∧ ConstsC14.id_fromCases = ["key.KeyCredentialVersion_0", "key.KeyCredentialVersion_1", "key.KeyCredentialVersion_2"]
      ∧ ConstsC14.id_hexCase = ["hex.EncodeToString(keyIdentifier)"] ∧ ConstsC14.version2 = 0x200 := ⟨rfl, rfl, rfl, rfl⟩

/-- the blob magic "RSA1", read and written -/
theorem consts_match_model_rsa_magic : magicRSA1 = ConstsC14.rsa_magic ∧ magicRSA1 = ConstsC14.rsa_magicOut := by decide

'''
out+=restate('C14','RSAKeyMaterial.fromBytes','(rk : RSAKeyMaterial) (value _extra : Bytes)','rk value _extra',[('< 24','< '+G+'rsa_minLen'),('take 4','take '+G+'rsa_blobType_hi'),('value 4','value '+G+'rsa_keySize_lo'),('value 8','value '+G+'rsa_eSize_lo'),('value 12','value '+G+'rsa_mSize_lo'),('value 16','value '+G+'rsa_p1Size_lo'),('value 20','value '+G+'rsa_p2Size_lo'),('- 24','- '+G+'rsa_fits_header'),('drop 24','drop '+G+'rsa_bodyOffset'),('<<< 8','<<< '+U32('rsa_exponent_shift')),('24 + eSize',G+'rsa_bodyOffset + eSize')],tname='rsa_fromBytes',doc='`RSAKeyMaterial.FromBytes`: the 24-byte header, the offsets of its five fields, where the body starts, the exponent shift')+'\n'
out+=restate('C14','RSAKeyMaterial.toBytes','(rk : RSAKeyMaterial)','rk',[('putLe32 4','putLe32 ('+U32('rsa_exponentBytes')+')')],tname='rsa_toBytes',doc='`RSAKeyMaterial.ToBytes`: the exponent is written in four bytes')+'\n'
out+='''/-- `RSAKeyMaterial`: every header field is a little-endian 32-bit word of width 4, the exponent is written big-endian; the
    order in which `ToBytes` appends -/
theorem consts_match_model_rsa_layout :
    [ConstsC14.rsa_keySize_hi - ConstsC14.rsa_keySize_lo, ConstsC14.rsa_eSize_hi - ConstsC14.rsa_eSize_lo, ConstsC14.rsa_mSize_hi - ConstsC14.rsa_mSize_lo,
     ConstsC14.rsa_p1Size_hi - ConstsC14.rsa_p1Size_lo, ConstsC14.rsa_p2Size_hi - ConstsC14.rsa_p2Size_lo] = [4, 4, 4, 4, 4]
      ∧ ConstsC14.rsa_p2Size_hi = ConstsC14.rsa_minLen
      ∧ ConstsC14.rsa_encode = ["32l:rk.KeySize", "32b:rk.Exponent", "32l:uint32(len(b_exponent))", "32l:uint32(len(rk.Modulus))", "32l:0",
                                "32l:uint32(len(b_prime1))", "32l:0", "32l:uint32(len(b_prime2))"]
      ∧ ConstsC14.rsa_appends = ["b_blobType+b_keySize", "data+b_exponentSize", "data+b_modulusSize", "data+b_prime1Size", "data+b_prime2Size",
                                 "data+b_exponent", "data+rk.Modulus", "data+b_prime1", "data+b_prime2"]
      ∧ ConstsC14.rsa_fits_shape
          = "(> (+ (+ (+ (uint64 exponentSize) (uint64 modulusSize)) (uint64 prime1Size)) (uint64 prime2Size)) (uint64 (- (len value) 24)))"
      ∧ ConstsC14.rsa_exponent_shape = "(| (<< rk.Exponent 8) (uint32 (index value (+ offset i))))" := ⟨by decide, rfl, rfl, rfl, rfl, rfl⟩

'''
out+=restate('C14','CKI.fromBytes','(c : CKI) (blob : Bytes)','c blob',[('v != 1','v != '+U8('cki_version')),('n < 3','n < '+G+'cki_volume_atLeast'),('getD 2','getD '+G+'cki_volumeIdx'),('n < 4','n < '+G+'cki_notify_atLeast'),('getD 3','getD '+G+'cki_notifyIdx_idx'),('n < 5','n < '+G+'cki_fek_atLeast'),('getD 4','getD '+G+'cki_fekIdx'),('n < 9','n < '+G+'cki_strength_atLeast'),('blob 5','blob '+G+'cki_strengthAt_lo'),('n < 19','n < '+G+'cki_reserved_atLeast'),('drop 9).take 10','drop '+G+'cki_reservedAt_lo).take '+G+'cki_reservedLen'),('n ≤ 19','n ≤ '+G+'cki_extended_above'),('drop 17','drop ('+G+'cki_extendedAt_lo - '+G+'cki_minLen)')],tname='cki_fromBytes',doc='`CustomKeyInformation.FromBytes`: the version, the length ladder 3, 4, 5, 9, 19, >19 and where each field is read')+'\n'
out+='''/-- the ladder of `CustomKeyInformation.FromBytes` is consistent: each step starts where the previous one ended; the first two
    bytes are version and flags (the model's pattern `v :: f :: rest`) -/
theorem consts_match_model_cki_ladder :
    [ConstsC14.cki_volume_above, ConstsC14.cki_notify_above, ConstsC14.cki_fek_above, ConstsC14.cki_strength_above, ConstsC14.cki_reserved_above,
     ConstsC14.cki_extended_above]
      = [ConstsC14.cki_minLen, ConstsC14.cki_volume_atLeast, ConstsC14.cki_notify_atLeast, ConstsC14.cki_fek_atLeast, ConstsC14.cki_strength_atLeast,
         ConstsC14.cki_reserved_atLeast]
      ∧ [ConstsC14.cki_minLen, ConstsC14.cki_versionIdx, ConstsC14.cki_flagsIdx, ConstsC14.cki_notifyIdx_zero] = [2, 0, 1, 0]
      ∧ ConstsC14.cki_strengthAt_hi = ConstsC14.cki_strengthAt_lo + 4 ∧ ConstsC14.cki_reservedAt_hi = ConstsC14.cki_reservedAt_lo + ConstsC14.cki_reservedLen
      ∧ ConstsC14.cki_extendedLen_minus = ConstsC14.cki_extendedAt_lo := by decide

'''
out+=restate('C14','applyEntry','(k : KeyCredential) (t : UInt8) (data extra : Bytes)','k t data extra',[('t = %d'%i,'t = '+U8('entry%d'%i)) for i in range(1,7)]+[('< 16','< '+G+'kc_deviceMin'),('t = 7','t = '+U8('entry7')),('t = 8','t = '+U8('entry8')),('< 8','< '+G+'kc_lastLogonMin'),('t = 9','t = '+U8('entry9')),('< 8','< '+G+'kc_creationMin')],tname='applyEntry',doc='the `switch entryType.Value` of `KeyCredential.FromBytes`: the nine type codes and the minimum lengths 16, 8, 8')+'\n'
out+='''/-- the entry framing: a 4-byte version, then while more than 3 bytes remain a little-endian 16-bit length at [0:2], the type at
    [2], 3 header bytes (the model's patterns `v0 :: v1 :: v2 :: v3 :: rest` and `l0 :: l1 :: t :: x :: rest'`); a one-byte usage, a source of
    at least one byte -/
theorem consts_match_model_entry_framing :
    [ConstsC14.kc_minLen, ConstsC14.kc_loopAbove, ConstsC14.kc_length_hi, ConstsC14.kc_typeIdx, ConstsC14.kc_header_size, ConstsC14.kc_usageLen,
     ConstsC14.kc_sourceMin] = [4, 3, 2, 2, 3, 1, 1]
      ∧ ConstsC14.kc_length_le = true
      ∧ ConstsC14.kc_write_shape = "(binary.Write buffer binary.LittleEndian (uint16 (len data)))"
      ∧ (versionFromBytes [1, 2, 3, 4, 5]).2 = ConstsC14.kc_minLen := ⟨by decide, rfl, rfl, by decide⟩

end Manticore.C14
'''
emit('C14', out)
