import os, sys
sys.path.insert(0, os.path.dirname(os.path.abspath(__file__)))
from restate import *
G='ConstsC02.'
U8=lambda s:'UInt8.ofNat '+G+s
rows=''
for i in range(1,7):
    rows+='          ((byteAt b %sdk_r%d_a &&& %s) <<< %s) ||| (byteAt b %sdk_r%d_b >>> %s),\n'%(G,i,U8('dk_r%d_mask'%i),U8('dk_r%d_shl'%i),G,i,U8('dk_r%d_shr'%i))
short='\n'.join('  | [%s], _ => rfl'%(', '.join(['_']*k)) for k in range(7))
out='''/-
  C02 — the DES key expansion, the slicing of the 16-byte hashes, the NTLMv2 blob layouts with their epoch constants and
  the parity adjustment of the hand model are those of the current source.  `Gen/ConstsC02.lean` is regenerated on every
  run from network/smb/smb_v10/spnego/ntlm/ntlm.go, crypto/ntlmv1 and crypto/ntlmv2 (tools/extract/consts_c02.go).
-/
import Manticore.Model.C02
import Manticore.Lemmas.Consts
import Manticore.Gen.ConstsC02
namespace Manticore.C02
open Manticore RExpr
open Manticore.Gen
open Manticore.Consts (byteAt)

/-- `createDesKey` on seven bytes: which input bytes feed which key byte, with which mask and shifts -/
theorem consts_match_model_createDesKey (b0 b1 b2 b3 b4 b5 b6 : UInt8) :
    let b := [b0, b1, b2, b3, b4, b5, b6]
    createDesKey b =
      .ok ([byteAt b ConstsC02.dk_r0_src >>> UInt8.ofNat ConstsC02.dk_r0_shr,
%s          byteAt b ConstsC02.dk_r7_src &&& UInt8.ofNat ConstsC02.dk_r7_mask].map setParity) := by exact rfl

/-- the eight stores go to `key[0]`…`key[7]` of an 8-byte key; any other input length than 7 is an error -/
theorem consts_match_model_createDesKey_layout :
    [ConstsC02.dk_r0_dst, ConstsC02.dk_r1_dst, ConstsC02.dk_r2_dst, ConstsC02.dk_r3_dst, ConstsC02.dk_r4_dst, ConstsC02.dk_r5_dst,
     ConstsC02.dk_r6_dst, ConstsC02.dk_r7_dst] = List.range ConstsC02.dk_outLen ∧ ConstsC02.dk_parity_bytes = ConstsC02.dk_outLen := by decide

theorem consts_match_model_createDesKey_length (b : Bytes) (h : b.length ≠ ConstsC02.dk_inLen) : createDesKey b = .err := by
  match b, h with
%s
  | [_, _, _, _, _, _, _], h => exact absurd rfl h
  | _ :: _ :: _ :: _ :: _ :: _ :: _ :: _ :: _, _ => rfl

theorem consts_match_model_createDesKey_shape :
    [ConstsC02.dk_r1_shape, ConstsC02.dk_r2_shape, ConstsC02.dk_r3_shape, ConstsC02.dk_r4_shape, ConstsC02.dk_r5_shape, ConstsC02.dk_r6_shape,
     ConstsC02.dk_parity_test_shape]
      = ["(| (<< (& (index bytes 0) 1) 6) (>> (index bytes 1) 2))", "(| (<< (& (index bytes 1) 3) 5) (>> (index bytes 2) 3))",
         "(| (<< (& (index bytes 2) 7) 4) (>> (index bytes 3) 4))", "(| (<< (& (index bytes 3) 15) 3) (>> (index bytes 4) 5))",
         "(| (<< (& (index bytes 4) 31) 2) (>> (index bytes 5) 6))", "(| (<< (& (index bytes 5) 63) 1) (>> (index bytes 6) 7))",
         "(!= (& (index key i) (<< 1 j)) 0)"] := rfl

/-- the parity loop of `createDesKey`: eight bit positions tested with `1 << j` -/
theorem consts_match_model_bitCount8 (y : UInt8) :
    bitCount8 y =
      ((List.range ConstsC02.dk_parity_bits).map UInt8.ofNat).foldl
        (fun (n : Nat) (j : UInt8) => if y &&& (UInt8.ofNat ConstsC02.dk_parity_test_one <<< j) ≠ UInt8.ofNat ConstsC02.dk_parity_test_zero then n + 1 else n) 0 := by
  exact rfl

''' % (rows, short)
out+=restate('C02','setParity','(x : UInt8)','x',[('<<< 1','<<< '+U8('dk_parity_shift_by')),('% 2 = 0','% '+G+'dk_parity_even_mod = '+G+'dk_parity_even_rem'),('||| 1','||| '+U8('dk_parity_set_bit'))],doc='`key[i] = key[i] << 1; if bitCount%2 == 0 { key[i] |= 1 }`')+'\n'
out+=restate('C02','desEncrypt','(hash chal : Bytes)','hash chal',[('≠ 16','≠ '+G+'de_guard_hashLen'),('≠ 8','≠ '+G+'de_guard_challengeLen'),('take 7','take '+G+'de_k1_hi'),('drop 7).take 7','drop '+G+'de_k2_lo).take ('+G+'de_k2_hi - '+G+'de_k2_lo)'),('drop 14','drop '+G+'de_k3_lo'),('zeros 5','zeros '+G+'de_k3_pad')],doc='`desEncrypt`: the guard lengths and the three key slices')+'\n'
out+='''theorem consts_match_model_desEncrypt_shape :
    ConstsC02.de_k3_hi = ConstsC02.de_guard_hashLen
      ∧ [ConstsC02.de_guard_shape, ConstsC02.de_k3_shape, ConstsC02.de_result_shape]
        = ["(|| (!= (len hash) 16) (!= (len challenge) 8))", "(append (slice hash 14 16) (make []byte 5))",
           "(append (append result1 result2) result3)"] := ⟨rfl, rfl⟩

/-- the blob header `01 01 00 00 00 00 00 00` of both NTLMv2 implementations -/
theorem consts_match_model_blobHeader :
    blobHeader = ConstsC02.v2_header
      ∧ blobHeader = [UInt8.ofNat ConstsC02.cb_resp_v, UInt8.ofNat ConstsC02.cb_hiResp_v] ++ ConstsC02.cb_reserved := by decide

'''
out+=restate('C02','createBlob','(unixSecs : Nat) (cc ti : Bytes)','unixSecs cc ti',[('11644473600',G+'cb_secs_sec1601'),('10000000',G+'cb_ticks_perSec'),('zeros 4','zeros '+G+'cb_zeroA.length'),('zeros 4','zeros '+G+'cb_zeroB.length')],doc='`createNTLMv2Blob`: the epoch offset in seconds, ticks per second, the two reserved fields')+'\n'
out+='''theorem consts_match_model_createBlob_layout :
    ConstsC02.cb_tsLen = 8 ∧ ConstsC02.cb_zeroA = zeros 4 ∧ ConstsC02.cb_zeroB = zeros 4
      ∧ ConstsC02.cb_put_shape = "(binary.LittleEndian.PutUint64 buf (uint64 windowsTime))"
      ∧ ConstsC02.cb_order = ["buf", "clientChallenge", "targetInfo"] := ⟨rfl, by decide, by decide, rfl, rfl⟩

'''
out+=restate('C02','v2Blob','(ticks : Nat) (cc domain16 : Bytes)','ticks cc domain16',[('116444736000000000',G+'v2_ts_epoch'),('> 0','> '+G+'v2_avGuard_min'),('≤ 0xFFFF','≤ '+G+'v2_avGuard_max'),('0x0002','(UInt16.ofNat '+G+'v2_avId_id)'),('zeros 4','zeros '+G+'v2_reserved1_n'),('zeros 4','zeros '+G+'v2_eol_n'),('zeros 4','zeros '+G+'v2_reserved2_n')],doc='`NTLMv2.Hash`: the FILETIME epoch, the AV-pair guard and id, the reserved fields and MsvAvEOL')+'\n'
out+='''theorem consts_match_model_v2Blob_layout :
    ConstsC02.v2_tsLen = 8 ∧ ConstsC02.v2_ts_nsPerTick = 100 ∧ ConstsC02.v2_avHeaderLen = 4
      ∧ [ConstsC02.v2_avId_lo, ConstsC02.v2_avId_hi, ConstsC02.v2_avLen_lo, ConstsC02.v2_avLen_hi] = [0, 2, 2, 4]
      ∧ ConstsC02.v2_ts_epoch = Spec.filetimeUnixEpoch
      ∧ ConstsC02.v2_ts_epoch = ConstsC02.cb_secs_sec1601 * ConstsC02.cb_ticks_perSec
      ∧ ConstsC02.v2_ts_shape
          = "(binary.LittleEndian.PutUint64 timestamp (uint64 (+ (/ (time.Now().UnixNano) 100) 116444736000000000)))"
      ∧ ConstsC02.v2_avGuard_shape = "(&& (> (len domainUTF16) 0) (<= (len domainUTF16) 65535))"
      ∧ ConstsC02.v2_order = ["timestamp", "ntlm.ClientChallenge[:]", "avHeader", "domainUTF16"] :=
  ⟨rfl, rfl, rfl, by decide, by decide, by decide, rfl, rfl, rfl⟩

'''
out+=restate('C02','v1Hash','(nthash chal : Bytes)','nthash chal',[('≠ 16','≠ '+G+'v1_hashLen'),('> 21','> '+G+'v1_padTo_total'),('(21 -','('+G+'v1_padTo_total -'),('take 7','take '+G+'v1_key1_hi'),('drop 7).take 7','drop '+G+'v1_key2_lo).take ('+G+'v1_key2_hi - '+G+'v1_key2_lo)'),('drop 14).take 7','drop '+G+'v1_key3_lo).take ('+G+'v1_key3_hi - '+G+'v1_key3_lo)')],doc='`NTLMv1.Hash`: the hash length, the padding to 21 bytes, the three 7-byte keys')+'\n'
out+=restate('C02','response16','(h chal : Bytes)','h chal',[('h 0 7','h 0 '+G+'nt_key1_hi'),('h 7 14','h '+G+'nt_key2_lo '+G+'nt_key2_hi'),('h 14 16','h '+G+'nt_key3_lo '+G+'nt_key3_hi'),('zeros 5','zeros '+G+'nt_pad_n')],doc='`NTResponse`: the slices `[:7]`, `[7:14]`, `[14:16]` and the five zero bytes')+'\n'
out+=restate('C02','ntResponse','(nthash chal : Bytes)','nthash chal',[('≠ 16','≠ '+G+'nt_hashLen')],doc='`NTResponse`: the length guard')+'\n'
out+='''/-- `LMResponse` slices like `NTResponse`; `Hash` starts its first key at 0 and pads with zero bytes -/
theorem consts_match_model_responses_alike :
    [ConstsC02.lmr_key1_hi, ConstsC02.lmr_key2_lo, ConstsC02.lmr_key2_hi, ConstsC02.lmr_key3_lo, ConstsC02.lmr_key3_hi, ConstsC02.lmr_pad_n]
      = [ConstsC02.nt_key1_hi, ConstsC02.nt_key2_lo, ConstsC02.nt_key2_hi, ConstsC02.nt_key3_lo, ConstsC02.nt_key3_hi, ConstsC02.nt_pad_n]
      ∧ ConstsC02.v1_key1_lo = 0 ∧ ConstsC02.v1_padTo_fill = 0 := by decide

/-- `ParityAdjust`: the bits of a byte from bit 7 down, masked with 1 -/
theorem consts_match_model_bitsOfByte (b : UInt8) :
    bitsOfByte b
      = ((List.range (ConstsC02.pa_topBit + 1)).reverse.map (fun i => (b >>> UInt8.ofNat i) &&& UInt8.ofNat ConstsC02.pa_bits_one)) := by
  exact rfl

/-- `ParityAdjust`: `if bit == 1 { b |= 1 << (7 - offset) }` -/
theorem consts_match_model_packBits (bit : UInt8) (rest : List UInt8) (off : Nat) (acc : UInt8) :
    packBits (bit :: rest) off acc
      = packBits rest (off + 1)
          (if bit = UInt8.ofNat ConstsC02.pa_bitIs then acc ||| (UInt8.ofNat ConstsC02.pa_set_one <<< UInt8.ofNat (ConstsC02.pa_set_top - off)) else acc) := by
  exact rfl

/-- `ParityAdjust` works on groups of seven bits (the model's pattern of seven heads); `ParityBit` starts from 1, tests the low
    bit and shifts by one -/
theorem consts_match_model_parity_groups (n : Nat) :
    [ConstsC02.pa_truncate_group, ConstsC02.pa_step, ConstsC02.pa_group_len] = [7, 7, 7]
      ∧ parityBit n = parityLoop (n + 1) n ConstsC02.pb_init
      ∧ [ConstsC02.pb_zero, ConstsC02.pb_and, ConstsC02.pb_eq, ConstsC02.pb_xor, ConstsC02.pb_shr] = [0, 1, 1, 1, 1]
      ∧ [ConstsC02.pa_bits_shape, ConstsC02.pa_truncate_shape, ConstsC02.pa_set_shape, ConstsC02.pa_parity_shape]
        = ["(append keyBits (& (>> b i) 1))", "(slice keyBits _ (- (len keyBits) (% (len keyBits) 7)))", "(<< 1 (- 7 offset))",
           "(| parityAdjustedByte (byte (ParityBit (int parityAdjustedByte))))"] := ⟨by decide, rfl, by decide, rfl⟩

end Manticore.C02
'''
emit('C02', out)
