import os, sys
sys.path.insert(0, os.path.dirname(os.path.abspath(__file__)))
from restate import *
G='ConstsC13.'
U8=lambda s:'UInt8.ofNat '+G+s
U16=lambda s:'UInt16.ofNat '+G+s
U32=lambda s:'UInt32.ofNat '+G+s
U64=lambda s:'UInt64.ofNat '+G+s
out='''/-
  C13 — the nibble layout of `uuid.UUID`, the field layout of UUIDv1/UUIDv2 and the byte layout of `guid.GUID` in the hand
  model are those of the current source.  `Gen/ConstsC13.lean` is regenerated on every run from crypto/uuid/uuid.go,
  uuid_v1.go, uuid_v2.go and windows/guid/Guid.go (tools/extract/consts_c13.go).
-/
import Manticore.Model.C13
import Manticore.Lemmas.Consts
import Manticore.Gen.ConstsC13
namespace Manticore.C13
open Manticore
open Manticore.Gen
open Manticore.Consts (byteAt window)

'''
out+=restate('C13','marshal','(u : UUID)','u',[('0xF0',U8('m_d6hi_mask')),('>>> 4','>>> '+U8('m_d6hi_shift')),('0x0F',U8('m_d6lo_mask')),('0xF0',U8('m_d7hi_mask')),('>>> 4','>>> '+U8('m_d7hi_shift')),('0x0F',U8('m_d7lo_mask')),
  ('&&& 0xF)','&&& '+U8('m_b0_maskA')+')'),('<<< 4','<<< '+U8('m_b0_shift')),('&&& 0xF)','&&& '+U8('m_b0_maskB')+')'),
  ('&&& 0xF)','&&& '+U8('m_b1_maskA')+')'),('<<< 4','<<< '+U8('m_b1_shift')),('&&& 0xF)','&&& '+U8('m_b1_maskB')+')'),
  ('&&& 0xF)','&&& '+U8('m_b2_maskA')+')'),('<<< 4','<<< '+U8('m_b2_shift')),('&&& 0xF)','&&& '+U8('m_b2_maskB')+')')], doc='`UUID.Marshal`: the nibble masks and shifts')+'\n'
out+='''/-- `UUID.Marshal`: size, the two copied ranges, which data bytes are split into nibbles and which output bytes take them -/
theorem consts_match_model_marshal_layout (u : UUID) :
    (marshal u).length = ConstsC13.m_size
      ∧ window (marshal u) ConstsC13.m_copy0_dstLo ConstsC13.m_copy0_dstHi
          = window u.data.toList ConstsC13.m_copy0_srcLo ConstsC13.m_copy0_srcHi
      ∧ window (marshal u) ConstsC13.m_copy1_dstLo (ConstsC13.m_copy1_dstBase + ConstsC13.m_copy1_dstLen)
          = window u.data.toList ConstsC13.m_copy1_srcLo (ConstsC13.m_copy1_srcBase + ConstsC13.m_copy1_srcLen)
      ∧ byteAt (marshal u) ConstsC13.m_b0_idx
          = ((u.version &&& 0xF) <<< 4) ||| (((byteAt u.data.toList ConstsC13.m_d6hi_idx &&& 0xF0) >>> 4) &&& 0xF)
      ∧ byteAt (marshal u) ConstsC13.m_b1_idx
          = (((byteAt u.data.toList ConstsC13.m_d6lo_idx &&& 0x0F) &&& 0xF) <<< 4)
              ||| (((byteAt u.data.toList ConstsC13.m_d7hi_idx &&& 0xF0) >>> 4) &&& 0xF)
      ∧ byteAt (marshal u) ConstsC13.m_b2_idx
          = ((u.variant &&& 0xF) <<< 4) ||| ((byteAt u.data.toList ConstsC13.m_d7lo_idx &&& 0x0F) &&& 0xF) := by
  exact ⟨rfl, rfl, rfl, rfl, rfl, rfl⟩

theorem consts_match_model_marshal_shape :
    [ConstsC13.m_b0_shape, ConstsC13.m_b1_shape, ConstsC13.m_b2_shape]
      = ["(| (<< (& u.Version 15) 4) (& data6high 15))", "(| (<< (& data6low 15) 4) (& data7high 15))",
         "(| (<< (& u.Variant 15) 4) (& data7low 15))"]
      ∧ [ConstsC13.u_d6_shape, ConstsC13.u_d7_shape]
      = ["(| (<< (& (index marshalledData 6) 15) 4) (>> (& (index marshalledData 7) 240) 4))",
         "(| (<< (& (index marshalledData 7) 15) 4) (& (index marshalledData 8) 15))"] := ⟨rfl, rfl⟩

/-- `UUID.Unmarshal` on 16 bytes or more: minimum length, where version and variant sit, the copied ranges, the two
    re-assembled data bytes with their masks and shifts -/
theorem consts_match_model_unmarshal (m0 m1 m2 m3 m4 m5 m6 m7 m8 m9 m10 m11 m12 m13 m14 m15 : UInt8) (rest : Bytes) :
    let m := m0 :: m1 :: m2 :: m3 :: m4 :: m5 :: m6 :: m7 :: m8 :: m9 :: m10 :: m11 :: m12 :: m13 :: m14 :: m15 :: rest
    unmarshal m =
      if m.length < ConstsC13.u_minLen then .err
      else
        match Data15.ofList?
            (window m ConstsC13.u_copy0_srcLo ConstsC13.u_copy0_srcHi
              ++ [((byteAt m ConstsC13.u_d6_idxA &&& UInt8.ofNat ConstsC13.u_d6_maskA) <<< UInt8.ofNat ConstsC13.u_d6_shiftA)
                    ||| ((byteAt m ConstsC13.u_d6_idxB &&& UInt8.ofNat ConstsC13.u_d6_maskB) >>> UInt8.ofNat ConstsC13.u_d6_shiftB),
                  ((byteAt m ConstsC13.u_d7_idxA &&& UInt8.ofNat ConstsC13.u_d7_maskA) <<< UInt8.ofNat ConstsC13.u_d7_shiftA)
                    ||| (byteAt m ConstsC13.u_d7_idxB &&& UInt8.ofNat ConstsC13.u_d7_maskB)]
              ++ window m ConstsC13.u_copy1_srcLo (ConstsC13.u_copy1_srcBase + ConstsC13.u_copy1_srcLen)) with
        | some d =>
          .ok { version := (byteAt m ConstsC13.u_version_idx &&& UInt8.ofNat ConstsC13.u_version_mask) >>> UInt8.ofNat ConstsC13.u_version_shift
                variant := (byteAt m ConstsC13.u_variant_idx &&& UInt8.ofNat ConstsC13.u_variant_mask) >>> UInt8.ofNat ConstsC13.u_variant_shift
                data := d }
        | none => .panic := by exact rfl

/-- the destinations of `UUID.Unmarshal` tile `Data[0:15]` in order, and 16 bytes are reported consumed -/
theorem consts_match_model_unmarshal_layout :
    [ConstsC13.u_copy0_dstLo, ConstsC13.u_copy0_dstHi, ConstsC13.u_d6_idx, ConstsC13.u_d7_idx, ConstsC13.u_copy1_dstLo,
     ConstsC13.u_copy1_dstBase + ConstsC13.u_copy1_dstLen] = [0, 6, 6, 7, 8, 15] ∧ ConstsC13.u_consumed = ConstsC13.u_minLen := by decide

theorem consts_match_model_unmarshal_short (m : Bytes) (h : m.length < ConstsC13.u_minLen) : unmarshal m = .err := by
  unfold unmarshal; exact if_pos h

'''
for v,first in (('v1','timeLow'),('v2','ldn')):
    subs=[]
    if v=='v1': subs.append(('0x00000000FFFFFFFF',U64('v1_timeLow_mask')))
    subs+=[('0x0000FFFF00000000',U64(v+'_timeMid_mask')),('>>> 32','>>> '+U64(v+'_timeMid_shift')),('0x0FFF000000000000',U64(v+'_timeHigh_mask')),('>>> 48','>>> '+U64(v+'_timeHigh_shift')),
           ('(timeHigh >>> 4)','(timeHigh >>> '+U16(v+'_b6_shift')+')'),('0xFF',U16(v+'_b6_mask')),('0x0F',U16(v+'_b7_maskA')),('<<< 4','<<< '+U8(v+'_b7_shiftA'))]
    if v=='v1': subs+=[('0x0F00',U16('v1_b7_maskB')),('>>> 8','>>> '+U16('v1_b7_shiftB')),('0xFF',U16('v1_b8_mask'))]
    else: subs+=[('0x0F',U8('v2_b7_maskB'))]
    VV=v.upper()
    out+=restate('C13',v+'Data','(v : %s)'%VV,'v',subs, doc='`UUID%s.Marshal`: field masks and shifts'%v)+'\n'
    out+=restate('C13',v+'Marshal','(v : %s)'%VV,'v',[('version := '+v[1],'version := '+U8(v+'_version'))], doc='`UUID%s.Marshal`: the version written'%v)+'\n'
    what='["timeLow", "timeMid"]' if v=='v1' else '["u.LocalDomainNumber", "timeMid"]'
    b8='"(byte (& u.ClockSeq 255))"' if v=='v1' else '"u.LocalDomain"'
    b7='"(| (<< (byte (& timeHigh 15)) 4) (byte (>> (& u.ClockSeq 3840) 8)))"' if v=='v1' else '"(| (<< (byte (& timeHigh 15)) 4) (byte (& u.Clock 15)))"'
    out+='''/-- `UUID%(v)s.Marshal`: big-endian 32- and 16-bit stores at [0:4] and [4:6], bytes 6, 7, 8, node at [9:15] — the positions of
    the model's `d0`…`d14` -/
theorem consts_match_model_%(v)sData_layout :
    [ConstsC13.%(v)s_put32_dst_lo, ConstsC13.%(v)s_put32_dst_hi, ConstsC13.%(v)s_put16_dst_lo, ConstsC13.%(v)s_put16_dst_hi, ConstsC13.%(v)s_b6_idx,
     ConstsC13.%(v)s_b7_idx, ConstsC13.%(v)s_b8_idx, ConstsC13.%(v)s_node_dst_lo, ConstsC13.%(v)s_node_dst_hi] = [0, 4, 4, 6, 6, 7, 8, 9, 15]
      ∧ ConstsC13.%(v)s_put_what = %(what)s
      ∧ ConstsC13.%(v)s_b7_shape = %(b7)s ∧ ConstsC13.%(v)s_b8_shape = %(b8)s := ⟨by decide, rfl, rfl, rfl⟩

''' % dict(v=v,what=what,b7=b7,b8=b8)
    subs=[('<<< 4','<<< '+U16(v+'_u_timeHigh_shiftA')),('>>> 4','>>> '+U8(v+'_u_timeHigh_shiftB')),('&&& 0xF','&&& '+U16(v+'_u_timeHigh_mask'))]
    if v=='v1': subs+=[('0x0F',U8('v1_u_clockSeq_mask')),('<<< 8','<<< '+U16('v1_u_clockSeq_shift'))]
    else: subs+=[('0x0F',U8('v2_u_clock_mask'))]
    subs+=[('<<< 48','<<< '+U64(v+'_u_time_shiftHigh')),('<<< 32','<<< '+U64(v+'_u_time_shiftMid'))]
    out+=restate('C13',v+'OfUUID','(u : UUID)','u',subs, doc='`UUID%s.Unmarshal`: field masks and shifts'%v)+'\n'
    if v=='v1':
        pos='''[ConstsC13.v1_u_first_lo, ConstsC13.v1_u_first_hi, ConstsC13.v1_u_timeMid_lo, ConstsC13.v1_u_timeMid_hi, ConstsC13.v1_u_timeHigh_idxA,
     ConstsC13.v1_u_timeHigh_idxB, ConstsC13.v1_u_clockSeq_idxA, ConstsC13.v1_u_clockSeq_idxB, ConstsC13.v1_u_node_src_lo,
     ConstsC13.v1_u_node_src_hi] = [0, 4, 4, 6, 6, 7, 7, 8, 9, 15]'''
        tshape='"(| (| (<< (uint64 timeHigh) 48) (<< (uint64 timeMid) 32)) (uint64 timeLow))"'
    else:
        pos='''[ConstsC13.v2_u_first_lo, ConstsC13.v2_u_first_hi, ConstsC13.v2_u_timeMid_lo, ConstsC13.v2_u_timeMid_hi, ConstsC13.v2_u_timeHigh_idxA,
     ConstsC13.v2_u_timeHigh_idxB, ConstsC13.v2_u_clock_idx, ConstsC13.v2_u_localDomain_idx, ConstsC13.v2_u_node_src_lo,
     ConstsC13.v2_u_node_src_hi] = [0, 4, 4, 6, 6, 7, 7, 8, 9, 15]'''
        tshape='"(| (<< (uint64 timeHigh) 48) (<< (uint64 timeMid) 32))"'
    out+='''/-- `UUID%(v)s.Unmarshal`: which data bytes feed which field (the model's `d0`…`d14`), big-endian reads of 32 and 16 bits -/
theorem consts_match_model_%(v)sOfUUID_layout :
    %(pos)s
      ∧ ConstsC13.%(v)s_u_first_le = false ∧ ConstsC13.%(v)s_u_timeMid_le = false
      ∧ ConstsC13.%(v)s_u_first_width = 32 ∧ ConstsC13.%(v)s_u_timeMid_width = 16
      ∧ ConstsC13.%(v)s_u_timeHigh_shape = "(| (<< (uint16 (index u.UUID.Data 6)) 4) (& (uint16 (>> (index u.UUID.Data 7) 4)) 15))"
      ∧ ConstsC13.%(v)s_u_time_shape = %(tshape)s := ⟨by decide, rfl, rfl, rfl, rfl, rfl, rfl⟩

''' % dict(v=v,pos=pos,tshape=tshape)
    out+=restate('C13',v+'Unmarshal','(m : Bytes)','m',[('16',G+v+'_u_minLen'),('!= '+v[1],'!= '+U8(v+'_u_version'))], doc='`UUID%s.Unmarshal`: minimum length and the accepted version'%v)+'\n'

short='\n'.join('  | [%s], _ => rfl'%(', '.join(['_']*k)) for k in range(16))
out+='''/-- `GUID.FromRawBytes` on 16 bytes or more: which byte goes where with which shift (A, B, C little-endian; D, E big-endian) -/
theorem consts_match_model_fromRawBytes (b0 b1 b2 b3 b4 b5 b6 b7 b8 b9 b10 b11 b12 b13 b14 b15 : UInt8) (rest : Bytes) :
    let data := b0 :: b1 :: b2 :: b3 :: b4 :: b5 :: b6 :: b7 :: b8 :: b9 :: b10 :: b11 :: b12 :: b13 :: b14 :: b15 :: rest
    fromRawBytes data =
      .ok { A := (byteAt data ConstsC13.g_A_i0).toUInt32 ||| ((byteAt data ConstsC13.g_A_i1).toUInt32 <<< UInt32.ofNat ConstsC13.g_A_s1)
                   ||| ((byteAt data ConstsC13.g_A_i2).toUInt32 <<< UInt32.ofNat ConstsC13.g_A_s2)
                   ||| ((byteAt data ConstsC13.g_A_i3).toUInt32 <<< UInt32.ofNat ConstsC13.g_A_s3)
            B := (byteAt data ConstsC13.g_B_i0).toUInt16 ||| ((byteAt data ConstsC13.g_B_i1).toUInt16 <<< UInt16.ofNat ConstsC13.g_B_s1)
            C := (byteAt data ConstsC13.g_C_i0).toUInt16 ||| ((byteAt data ConstsC13.g_C_i1).toUInt16 <<< UInt16.ofNat ConstsC13.g_C_s1)
            D := ((byteAt data ConstsC13.g_D_i0).toUInt16 <<< UInt16.ofNat ConstsC13.g_D_s0) ||| (byteAt data ConstsC13.g_D_i1).toUInt16
            E := ((byteAt data ConstsC13.g_E0_idx).toUInt64 <<< UInt64.ofNat ConstsC13.g_E0_shift)
                   ||| ((byteAt data ConstsC13.g_E1_idx).toUInt64 <<< UInt64.ofNat ConstsC13.g_E1_shift)
                   ||| ((byteAt data ConstsC13.g_E2_idx).toUInt64 <<< UInt64.ofNat ConstsC13.g_E2_shift)
                   ||| ((byteAt data ConstsC13.g_E3_idx).toUInt64 <<< UInt64.ofNat ConstsC13.g_E3_shift)
                   ||| ((byteAt data ConstsC13.g_E4_idx).toUInt64 <<< UInt64.ofNat ConstsC13.g_E4_shift)
                   ||| (byteAt data ConstsC13.g_E5_idx).toUInt64 } := by exact rfl

/-- below the guard's minimum length the receiver becomes the nil GUID -/
theorem consts_match_model_fromRawBytes_short (data : Bytes) (h : data.length < ConstsC13.g_minLen) :
    fromRawBytes data = .ok ⟨0, 0, 0, 0, 0⟩ := by
  match data, h with
%s
  | _ :: _ :: _ :: _ :: _ :: _ :: _ :: _ :: _ :: _ :: _ :: _ :: _ :: _ :: _ :: _ :: _, h =>
    exact absurd h (by simp [ConstsC13.g_minLen])

theorem consts_match_model_guid_shape :
    ConstsC13.g_A_shape
        = "(| (| (| (uint32 (index data 0)) (<< (uint32 (index data 1)) 8)) (<< (uint32 (index data 2)) 16)) (<< (uint32 (index data 3)) 24))"
      ∧ ConstsC13.g_D_shape = "(| (<< (uint16 (index data 8)) 8) (uint16 (index data 9)))"
      ∧ [ConstsC13.t_A_shape, ConstsC13.t_B_shape, ConstsC13.t_C_shape, ConstsC13.t_D_shape, ConstsC13.t_E_shape]
        = ["(append data (byte guid.A) (byte (>> guid.A 8)) (byte (>> guid.A 16)) (byte (>> guid.A 24)))",
           "(append data (byte guid.B) (byte (>> guid.B 8)))", "(append data (byte guid.C) (byte (>> guid.C 8)))",
           "(append data (byte (>> guid.D 8)) (byte guid.D))", "(byte (& (>> guid.E (uint64 (* i 8))) 255))"] := ⟨rfl, rfl, rfl⟩

''' % short
E=lambda k:'>>> UInt64.ofNat ((%st_E_last - %d) * %st_E_bits)) &&& %s)'%(G,k,G,U64('t_E_mask'))
out+=restate('C13','toBytes','(g : GUID)','g',[('(g.A >>> 8)','(g.A >>> '+U32('t_A_s1')+')'),('(g.A >>> 16)','(g.A >>> '+U32('t_A_s2')+')'),('(g.A >>> 24)','(g.A >>> '+U32('t_A_s3')+')'),
   ('(g.B >>> 8)','(g.B >>> '+U16('t_B_s1')+')'),('(g.C >>> 8)','(g.C >>> '+U16('t_C_s1')+')'),('(g.D >>> 8)','(g.D >>> '+U16('t_D_s0')+')'),
   ('>>> 40) &&& 0xff)',E(0)),('>>> 32) &&& 0xff)',E(1)),('>>> 24) &&& 0xff)',E(2)),('>>> 16) &&& 0xff)',E(3)),('>>> 8) &&& 0xff)',E(4)),('>>> 0) &&& 0xff)',E(5))],
   doc='`GUID.ToBytes`: the shifts of A, B, C, D and the loop `eBytes[5-i] = byte((E >> (i*8)) & 0xff)` unrolled')+'\n'
out+='''theorem consts_match_model_toBytes_loop :
    ConstsC13.t_E_size = 6 ∧ ConstsC13.t_E_count = ConstsC13.t_E_size ∧ ConstsC13.t_E_last + 1 = ConstsC13.t_E_size := by decide

end Manticore.C13
'''
emit('C13', out)
