import os, sys
sys.path.insert(0, os.path.dirname(os.path.abspath(__file__)))
from restate import *
G='ConstsC12.'
U8=lambda s:'UInt8.ofNat '+G+s
out='''/-
  C12 — the PKCS#7 bounds, the CMAC constants, the RC4 bounds, the GPP key and the base64 re-padding arithmetic of the
  hand model are those of the current source.  `Gen/ConstsC12.lean` is regenerated on every run from crypto/pkcs7,
  crypto/cmac, crypto/rc4 and crypto/gppp (tools/extract/consts_c12.go).
-/
import Manticore.Model.C12
import Manticore.Gen.ConstsC12
namespace Manticore.C12
open Manticore
open Manticore.Gen

'''
out+='open PKCS7 in\n'+restate('C12','pad','(buffer : Bytes) (blockSize : UInt8)','buffer blockSize',[('< 1','< '+U8('pad_minBlock'))],qual='PKCS7.',tname='pkcs7_pad',doc='`pkcs7.Pad`: the smallest block size')+'\n'
out+='''/-- one turn of the constant-time loop of `Unpad`: which byte is compared (`buffer[len(buffer)-1-i]`) -/
theorem consts_match_model_pkcs7_unpadLoop (buffer : Bytes) (padLen : UInt8) (n i : Nat) (good : Bool) :
    PKCS7.unpadLoop buffer padLen (n + 1) i good =
      if buffer.length < ConstsC12.unpad_b_back + i then .panic
      else
        match index buffer (buffer.length - ConstsC12.unpad_b_back - i) with
        | .ok b =>
          let outOfRange := decide (padLen.toNat ≤ i)
          let equal := padLen == b
          PKCS7.unpadLoop buffer padLen n (i + 1) (good && (if outOfRange then true else equal))
        | .err => .err
        | .panic => .panic := by exact rfl

'''
out+='open PKCS7 in\n'+restate('C12','unpad','(buffer : Bytes)','buffer',[('= 0','= '+G+'unpad_empty'),('buffer.length - 1','buffer.length - '+G+'unpad_last_back'),('255 >',G+'unpad_blockSize >'),('else 255','else '+G+'unpad_blockSize'),('(1 ≤','('+G+'unpad_minPad_min ≤')],qual='PKCS7.',tname='pkcs7_unpad',doc='`pkcs7.Unpad`: the empty-buffer test, the last byte, the 255 cap of the loop, the lower bound 1 of the padding length')+'\n'
out+='''/-- the 0/1 integers of crypto/subtle in `Unpad` (`good := 1`, `Select(outOfRange, 1, equal)`, `good != 1`) and the
    operator nesting of its expressions -/
theorem consts_match_model_pkcs7_shapes :
    [ConstsC12.unpad_goodInit, ConstsC12.unpad_select_whenOut, ConstsC12.unpad_goodWant] = [1, 1, 1]
      ∧ [ConstsC12.pad_len_shape, ConstsC12.pad_append_shape, ConstsC12.unpad_b_shape, ConstsC12.unpad_minPad_shape,
         ConstsC12.unpad_maxPad_shape, ConstsC12.unpad_result_shape]
        = ["(- (int blockSize) (% (len buffer) (int blockSize)))", "(append buffer (byte padLen))",
           "(index buffer (- (- (len buffer) 1) i))", "(subtle.ConstantTimeLessOrEq 1 (int padLen))",
           "(subtle.ConstantTimeLessOrEq (int padLen) (len buffer))", "(slice buffer _ (- (len buffer) (int padLen)))"] :=
  ⟨by decide, rfl⟩

/-- `cmac.shift1`, one byte: the carry bit and the shift -/
theorem consts_match_model_cmac_shift1 (x : UInt8) (xs : Bytes) :
    CMAC.shift1 (x :: xs) =
      (((x <<< UInt8.ofNat ConstsC12.shift1_by) ||| (CMAC.shift1 xs).2) :: (CMAC.shift1 xs).1, x >>> UInt8.ofNat ConstsC12.shift1_carry) := by
  exact rfl

/-- `k[n-1] ^= r` -/
theorem consts_match_model_cmac_xorLast {n : Nat} (v : CMAC.Block n) (r : UInt8) :
    CMAC.xorLast v r =
      if h : 0 < n then
        v.set (n - ConstsC12.new_k1Last_back)
          (v[n - ConstsC12.new_k1Last_back]'(by have : ConstsC12.new_k1Last_back = 1 := rfl; omega) ^^^ r)
          (by have : ConstsC12.new_k1Last_back = 1 := rfl; omega)
      else v := by
  exact rfl

'''
out+='open CMAC in\n'+restate('C12','new','(n : Nat) (E : CMAC.Block n → CMAC.Block n)','n E',[('n = 8','n = '+G+'block64'),('n = 16','n = '+G+'block128'),('n = 8','n = '+G+'block64'),('0x1b',U8('r64')),('0x87',U8('r128'))],qual='CMAC.',tname='cmac_new',nth=1,doc='`cmac.New`: the two accepted block sizes and their R constants')+'\n'
out+='''/-- the specification's R_b (SP 800-38B §5.3) equals the package's constants; `BlockSize()` is the 128-bit size; both
    subkeys are adjusted in their last byte -/
theorem consts_match_model_cmac_Rb (n : Nat) :
    CMAC.Spec.Rb n = (if n = ConstsC12.block64 then ConstsC12.r64 else ConstsC12.r128)
      ∧ ConstsC12.blockSize = ConstsC12.block128 ∧ ConstsC12.new_k2Last_back = ConstsC12.new_k1Last_back
      ∧ ConstsC12.new_rOf = ["r64", "r128"]
      ∧ [ConstsC12.new_k1_shape, ConstsC12.new_k2_shape, ConstsC12.shift1_shape]
        = ["(!= (shift1 d.k1 d.k1) 0)", "(!= (shift1 d.k1 d.k2) 0)", "(| (<< (index src i) 1) b)"] := ⟨rfl, rfl, rfl, rfl, rfl⟩

/-- `NewRC4WithKey`: the accepted key lengths -/
theorem consts_match_model_rc4_newWithKey (key : Bytes) :
    RC4.newWithKey key =
      if h : key.length < ConstsC12.rc4_key_min ∨ key.length > ConstsC12.rc4_key_max then .err
      else .ok ⟨RC4.ksa key (by
        have : ConstsC12.rc4_key_min = 1 := rfl
        omega), 0, 0⟩ := by exact rfl

/-- the table size of the two loops of `NewRC4WithKey` is the model's S-box size; the key-scheduling update -/
theorem consts_match_model_rc4_table :
    ConstsC12.rc4_init = 256 ∧ ConstsC12.rc4_ksa = 256 ∧ (RC4.identity).size = ConstsC12.rc4_init
      ∧ ConstsC12.rc4_key_shape = "(|| (< k 1) (> k 256))"
      ∧ ConstsC12.rc4_j_shape = "(+ (index c.s i) (index key (% i k)))" := ⟨rfl, rfl, rfl, rfl, rfl⟩

/-- `GPPP_AES_KEY` is the key published in MS-GPPREF 2.2.1.1.4 -/
theorem consts_match_model_gpp_key : ConstsC12.gpp_key = GPP.Spec.msKey := by decide

'''
out+='open GPP Prim in\n'+restate('C12','repad','(s : Bytes)','s',[('% 4','% '+G+'gpp_padMod'),('pad = 1','pad = '+G+'gpp_pad1'),('- 1','- '+G+'gpp_cut_n'),('pad = 2','pad = '+G+'gpp_pad2'),('pad = 3','pad = '+G+'gpp_pad3'),('(4 - pad)','('+G+'gpp_repeat_from - pad)')],qual='GPP.',tname='gpp_repad',doc='the base64 re-padding of `GPPPDecryptBase64`')+'\n'
out+='''/-- `GPPPDecryptBytes` / `GPPPEncrypt`: block size and zero IV come from `aes.BlockSize` (16, the model's block size), the key
    is `GPPP_AES_KEY`, the padding character is `=`, the UTF-16 length check is `% 2 != 0` -/
theorem consts_match_model_gpp_shapes :
    [ConstsC12.gpp_dec_iv_shape, ConstsC12.gpp_dec_multiple_shape, ConstsC12.gpp_dec_key_shape, ConstsC12.gpp_enc_iv_shape,
     ConstsC12.gpp_enc_pad_shape, ConstsC12.gpp_enc_key_shape]
      = ["(make []byte aes.BlockSize)", "(!= (% (len ciphertext) aes.BlockSize) 0)", "(aes.NewCipher GPPP_AES_KEY)",
         "(make []byte aes.BlockSize)", "(pkcs7.Pad plaintextBytes aes.BlockSize)", "(aes.NewCipher GPPP_AES_KEY)"]
      ∧ ConstsC12.gpp_padChar = [61] ∧ [ConstsC12.gpp_dec_even_mod, ConstsC12.gpp_dec_even_rem] = [2, 0]
      ∧ GPP.zeroIV.length = ConstsC12.blockSize := ⟨rfl, by decide, by decide, by decide⟩

end Manticore.C12
'''
emit('C12', out)
