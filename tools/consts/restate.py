"""Helpers that write lean/Manticore/Props/Cxx/Consts.lean for the properties whose tie theorems are restatements of model
functions: `restate` copies the body of a model definition, replaces the listed literals (in order, each must be found) by the
regenerated constants of Gen/ConstsCxx.lean and emits `theorem consts_match_model_<name> … := by exact rfl`.
Run `python3 tools/consts/gen_cXX.py` after changing a model function or the fact; the output is committed."""
import re, os
V = os.path.join(os.path.dirname(os.path.dirname(os.path.dirname(os.path.abspath(__file__)))), 'lean', 'Manticore') + '/'

def body_of(model, name, nth=0):
    src=open(V+'Model/%s.lean'%model).read() if '/' not in model else open(V+model).read()
    ms=list(re.finditer(r'^def %s\b(.*?):=[ \t]*\n?'%re.escape(name), src, re.M|re.S))
    assert len(ms)>nth, 'def %s not found'%name
    m=ms[nth]
    rest=src[m.end():]
    lines=rest.split('\n'); out=[]
    for l in lines:
        if l.strip()=='' or re.match(r'(/--|/-!|def |theorem |end |termination_by|decreasing_by|instance |structure |abbrev |private |@\[|open |namespace )', l):
            break
        out.append(l)
    sig=m.group(1)
    return sig, '\n'.join(out)
def restate(model, name, binders, args, subs, suffix='', wf=False, doc=None, indent='    ', qual='', tname=None, nth=0):
    sig, body=body_of(model, name, nth)
    cur=0
    for old,new in subs:
        i=body.find(old, cur)
        assert i>=0, 'in %s: %r not found after position %d'%(name, old, cur)
        body=body[:i]+new+body[i+len(old):]
        cur=i+len(new)
    body=re.sub(r'\s+--[^\n]*','',body)   # drop end-of-line comments
    body='\n'.join(indent+l for l in body.split('\n'))
    body=indent+'(\n'+body+')'
    proof='by rw [%s%s]; exact rfl'%(qual,name) if wf else 'by exact rfl'
    d='-- %s\n'%doc if doc else ''
    return '%stheorem consts_match_model_%s%s %s :\n    %s%s %s =\n%s := %s\n'%(d,tname or name,suffix,binders,qual,name,args,body,proof)


def emit(pid, text):
    """write Props/<pid>/Consts.lean; doc comments directly before a tie theorem become line comments, so that the declaration
    starts on the `theorem` line (Lean reports a time-out at the start of the declaration; ./check names the nearest header)"""
    def f(m):
        lines = [l.strip() for l in m.group(1).strip().split('\n')]
        return '\n'.join('-- ' + l for l in lines) + '\n' + m.group(2)
    text = re.sub(r'/--((?:(?!-/).)*?)-/\n((?:open [^\n]* in\n)?theorem consts_match_model)', f, text, flags=re.S)
    os.makedirs(V + 'Props/' + pid, exist_ok=True)
    open(V + 'Props/%s/Consts.lean' % pid, 'w').write(text)
