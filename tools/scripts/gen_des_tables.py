#!/usr/bin/env python3
"""
Transcribes the DES tables of Go's own crypto/des/const.go (in the Go toolchain's GOROOT) into
lean/Manticore/Prims/DESTables.lean.  Run from anywhere:  tools/scripts/gen_des_tables.py
The output is committed; the tables are validated at build time by the FIPS test vectors in
Prims/DES.lean (#guard) and in every harness run against crypto/des itself (op c01.des).
`--check` exits 1 if the committed file differs from what the toolchain's const.go yields.
"""
import os, re, subprocess, sys

here = os.path.dirname(os.path.abspath(__file__))
tools = os.path.dirname(here)
out_path = os.path.join(os.path.dirname(tools), "lean/Manticore/Prims/DESTables.lean")
env = dict(os.environ, GOPROXY="off", GOFLAGS="-mod=mod")
env.pop("GOSUMDB", None); env.pop("GOTOOLCHAIN", None)
goroot = subprocess.check_output(["go", "env", "GOROOT"], cwd=tools, env=env, text=True).strip()
src = open(os.path.join(goroot, "src/crypto/des/const.go")).read()
src = re.sub(r"//[^\n]*", "", src)

def table(name):
    m = re.search(r"var\s+%s\s*=\s*(?:\[[^\]]*\])+\w+\s*\{" % name, src)
    if not m:
        sys.exit("gen_des_tables: table %s not found in %s" % (name, goroot))
    depth, i = 1, m.end()
    while depth > 0:            # matching closing brace (sBoxes is nested)
        depth += {"{": 1, "}": -1}.get(src[i], 0)
        i += 1
    return [int(x) for x in re.findall(r"\d+", src[m.end():i])]

want = {"initialPermutation": 64, "finalPermutation": 64, "expansionFunction": 48, "permutationFunction": 32,
        "permutedChoice1": 56, "permutedChoice2": 48, "sBoxes": 512, "ksRotations": 16}
lines = ["/-",
         "  DES tables, TRANSCRIBED by tools/scripts/gen_des_tables.py from the Go toolchain's",
         "  crypto/des/const.go (same conventions: a permutation entry is the index, counted from the",
         "  least significant bit, of the source bit; output bits are produced most significant first).",
         "  Do not edit by hand.",
         "-/",
         "namespace Manticore.DES", ""]
for name, n in want.items():
    t = table(name)
    if len(t) != n:
        sys.exit("gen_des_tables: %s has %d entries, expected %d" % (name, len(t), n))
    if name == "sBoxes":
        lines.append("/-- 8 S-boxes x 4 rows x 16 columns, flattened: `sBoxes[64*box + 16*row + col]` -/")
        lines.append("def sBoxes : Array UInt8 := #[")
        for i in range(0, 512, 16):
            lines.append("  " + ", ".join(map(str, t[i:i+16])) + ("," if i + 16 < 512 else ""))
        lines.append("]")
    else:
        lines.append("def %s : List Nat := [" % name)
        for i in range(0, n, 8):
            lines.append("  " + ", ".join(map(str, t[i:i+8])) + ("," if i + 8 < n else ""))
        lines.append("]")
    lines.append("")
lines.append("end Manticore.DES")
text = "\n".join(lines) + "\n"
if "--check" in sys.argv:
    sys.exit(0 if os.path.exists(out_path) and open(out_path).read() == text else 1)
open(out_path, "w").write(text)
print("wrote", out_path, "from", goroot)
