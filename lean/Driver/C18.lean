import Driver.Util
import Driver.C17Parse
import Manticore.Model.C18
/-!
  Driver ops of C18.

  * `M c18.dispatch <site> <flags> <setup> <id> <question|-> <record|->`
      site: index into `Gen.NbnsDispatch.sites` (0 Server.handlePacket, 1 TCPServer.handleMessage,
      2 UDPServer.handlePacket); flags: the request's 16-bit flags word (decimal); setup: a C17 history that
      builds the table before the request; question: `<name>.<type>.<class>`; record (answer section of the
      request): `<name>.<ttl>.<addr>`.
      Output `ok <id> <flags, 4 hex digits> <qdcount> <answers> <q0>,<q1>`: the response header fields, its answer
      records `name:type:class:addr` joined by `;` (`-` if none), and what `QueryName` says about names 0
      and 1 afterwards (C17 result tokens).
  * `S c18.dispatch …` the same through the RFC 1002 routing (`handleSpec`).
  * `S c18.sock …` = `ok`: the specification of a socket scenario is "no violation observed".
-/
namespace Driver.C18
open Manticore Manticore.C18 Driver

def hex4 (n : Nat) : String :=
  String.ofList [hexDigit (n / 4096 % 16), hexDigit (n / 256 % 16), hexDigit (n / 16 % 16), hexDigit (n % 16)]

def parseQuestion (s : String) : Option (List Question) :=
  if s == "-" then some [] else
  match Driver.C17.splitOnChar '.' s.toList with
  | [n, t, c] => do pure [⟨← Driver.C17.natOf n, ← Driver.C17.natOf t, ← Driver.C17.natOf c⟩]
  | _ => none

def parseRecord (s : String) : Option (List ReqRR) :=
  if s == "-" then some [] else
  match Driver.C17.splitOnChar '.' s.toList with
  | [n, t, a] => do pure [⟨← Driver.C17.natOf n, ← Driver.C17.natOf t, ← Driver.C17.natOf a⟩]
  | _ => none

def showAnswers (l : List Answer) : String :=
  if l.isEmpty then "-" else
  ";".intercalate (l.map (fun a => s!"{a.name}:{a.qtype}:{a.qclass}:{a.addr}"))

def showResult (r : C17.State × Response) : String :=
  let q := fun n => Driver.C17.showOut (C17.step r.1 (.query n)).2
  s!"ok {r.2.id} {hex4 r.2.flags.toNat} {r.2.qdcount} {showAnswers r.2.answers} {q 0},{q 1}"

def parseReq (flags id q rr : String) : Option Request := do
  let f ← natArg flags
  if f ≥ 65536 then none
  pure ⟨← natArg id, BitVec.ofNat 16 f, ← parseQuestion q, ← parseRecord rr⟩

def entries : List Entry := [
  { kind := "M", op := "c18.dispatch", run := fun
      | [site, flags, setup, id, q, rr] => do
        let s ← (Gen.NbnsDispatch.sites)[(← natArg site)]?
        let ops ← Driver.C17.parseOps setup
        let req ← parseReq flags id q rr
        pure (showResult (handle s (C17.run C17.init ops) req))
      | _ => none },
  { kind := "S", op := "c18.dispatch", run := fun
      | [_, flags, setup, id, q, rr] => do
        let ops ← Driver.C17.parseOps setup
        let req ← parseReq flags id q rr
        pure (showResult (handleSpec (C17.run C17.init ops) req))
      | _ => none },
  { kind := "S", op := "c18.sock", run := fun _ => some "ok" }
]
end Driver.C18
