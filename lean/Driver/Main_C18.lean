import Driver.Loop
import Driver.C18

def main : IO Unit := Driver.run (Driver.C18.entries)
