import Driver.Util
import Manticore.Model.C15
namespace Driver.C15
open Manticore Manticore.C15 Driver

/-! ### argument / result syntax -/

def i64Arg (s : String) : Option Int64 := do
  let n ← intArg s
  if -9223372036854775808 ≤ n ∧ n ≤ 9223372036854775807 then pure (Int64.ofInt n) else none

def u64Arg (s : String) : Option UInt64 := do
  let n ← natArg s
  if n < 18446744073709551616 then pure (UInt64.ofNat n) else none

def u32Arg (s : String) : Option UInt32 := do
  let n ← natArg s
  if n < 4294967296 then pure (UInt32.ofNat n) else none

/-- a Go time as `unixSeconds nanos` -/
def timeArgs (a b : String) : Option (Int64 × Int64) := do
  let s ← i64Arg a
  let n ← i64Arg b
  if 0 ≤ n.toInt ∧ n.toInt < 1000000000 then pure (s, n) else none

def showPair (p : Int64 × Int64) : String := s!"{p.1.toInt} {p.2.toInt}"
def showTime (t : Spec.Time) : String := s!"{t.sec} {t.nsec}"
def showKc : KcTime → String
  | .now => "now"
  | .at k s n => s!"{k.toNat} {s.toInt} {n.toInt}"

/-! ### the oracle side: unbounded integers only -/

def inI64 (n : Int) : Bool := -9223372036854775808 ≤ n && n ≤ 9223372036854775807
def inU64 (n : Int) : Bool := 0 ≤ n && n < 18446744073709551616

/-- a plain decimal integer (optional sign, digits); `none` for anything else -/
def plainDec (b : Bytes) : Option Int :=
  if b.all (· < 128) then
    let s := asciiString b
    let body := if s.startsWith "-" || s.startsWith "+" then s.drop 1 else s
    if body.isEmpty || !body.all Char.isDigit then none
    else match body.toNat? with
      | some n => some (if s.startsWith "-" then -(n : Int) else n)
      | none => none
  else none

def leHex (n : Nat) : String := toHex (natLe 8 n)

def specTimeOfTicks (e k : Int) : String := showTime (Spec.timeOfTicks e k)

def entries : List Entry := [
  -- FILETIME ----------------------------------------------------------------------------------
  { kind := "M", op := "c15.ft.fromtime", run := fun
      | [a, b] => do
        let (s, n) ← timeArgs a b
        let v := filetimeOfTime s n
        let (lo, hi) := filetimeSplit v
        pure s!"ok {v.toInt} {lo.toNat} {hi.toNat}"
      | _ => none },
  { kind := "S", op := "c15.ft.fromtime", run := fun
      | [a, b] => do
        let s ← intArg a; let n ← natArg b
        let k := Spec.ticksOfTime Spec.sec1601 ⟨s, n⟩
        if inI64 k then
          let u := (k % 18446744073709551616).toNat
          pure s!"ok {k} {u % 4294967296} {u / 4294967296}"
        else pure "*"
      | _ => none },
  { kind := "M", op := "c15.ft.toint64", run := fun
      | [a, b] => do let lo ← u32Arg a; let hi ← u32Arg b; pure s!"ok {(filetimeToInt64 lo hi).toInt}"
      | _ => none },
  { kind := "S", op := "c15.ft.toint64", run := fun
      | [a, b] => do
        let lo ← natArg a; let hi ← natArg b
        let u : Int := hi * 4294967296 + lo
        pure s!"ok {if u ≥ 9223372036854775808 then u - 18446744073709551616 else u}"
      | _ => none },
  { kind := "M", op := "c15.ft.gettime", run := fun
      | [a, b] => do
        let lo ← u32Arg a; let hi ← u32Arg b
        let k := filetimeToInt64 lo hi
        pure s!"ok {showPair (filetimeGetTime k)} {(filetimeUnix k).toInt}"
      | _ => none },
  { kind := "S", op := "c15.ft.gettime", run := fun
      | [a, b] => do
        let lo ← natArg a; let hi ← natArg b
        let u : Int := hi * 4294967296 + lo
        let k := if u ≥ 9223372036854775808 then u - 18446744073709551616 else u
        let t := Spec.timeOfTicks Spec.sec1601 k
        pure s!"ok {showTime t} {t.sec}"
      | _ => none },
  -- time -> FILETIME -> time
  { kind := "M", op := "c15.ft.roundtrip", run := fun
      | [a, b] => do
        let (s, n) ← timeArgs a b
        let (lo, hi) := filetimeSplit (filetimeOfTime s n)
        pure s!"ok {showPair (filetimeGetTime (filetimeToInt64 lo hi))}"
      | _ => none },
  { kind := "S", op := "c15.ft.roundtrip", run := fun
      | [a, b] => do
        let s ← intArg a; let n ← natArg b
        if inI64 (Spec.ticksOfTime Spec.sec1601 ⟨s, n⟩) then pure s!"ok {showTime (Spec.trunc100 ⟨s, n⟩)}" else pure "*"
      | _ => none },
  -- LDAP --------------------------------------------------------------------------------------
  { kind := "M", op := "c15.ldap.ts2unix", run := fun
      | [h] => do let b ← fromHex h; pure s!"ok {(ldapToUnix b).toInt}"
      | _ => none },
  { kind := "S", op := "c15.ldap.ts2unix", run := fun
      | [h] => do
        let b ← fromHex h
        if b.isEmpty then pure "ok 0" else
        match plainDec b with
        | some v => if inI64 v then pure s!"ok {Spec.ldapToUnix v}" else pure "ok 0"
        | none => pure "*"
      | _ => none },
  { kind := "M", op := "c15.ldap.unix2ts", run := fun
      | [a, b] => do let (s, _) ← timeArgs a b; pure s!"ok {(unixToLdap s).toInt}"
      | _ => none },
  { kind := "S", op := "c15.ldap.unix2ts", run := fun
      | [a, _] => do
        let s ← intArg a
        let k := Spec.unixToLdap s
        if inI64 k then pure s!"ok {k}" else pure "*"
      | _ => none },
  { kind := "M", op := "c15.ldap.dur2sec", run := fun
      | [h] => do let b ← fromHex h; pure s!"ok {(ldapDurationToSeconds b).toInt}"
      | _ => none },
  { kind := "S", op := "c15.ldap.dur2sec", run := fun
      | [h] => do
        let b ← fromHex h
        if b.isEmpty then pure "ok 0" else
        match plainDec b with
        | some v => if inI64 v then pure s!"ok {Spec.durationToSeconds v}" else pure "ok 0"
        | none => pure "*"
      | _ => none },
  { kind := "M", op := "c15.ldap.sec2dur", run := fun
      | [a] => do let v ← i64Arg a; pure (okHex (secondsToLdapDuration v))
      | _ => none },
  { kind := "S", op := "c15.ldap.sec2dur", run := fun
      | [a] => do
        let v ← i64Arg a
        let r := okStr (toString (Spec.secondsToDuration v.toInt))
        pure (if KnownBad_sec2dur_overflow v then r ++ " #sec2dur.overflow" else r)
      | _ => none },
  -- seconds -> LDAP timestamp -> text -> seconds, and seconds -> duration text -> seconds
  { kind := "M", op := "c15.ldap.ts.roundtrip", run := fun
      | [a] => do let s ← i64Arg a; pure s!"ok {(ldapToUnix (showInt64 (unixToLdap s))).toInt}"
      | _ => none },
  { kind := "S", op := "c15.ldap.ts.roundtrip", run := fun
      | [a] => do
        let s ← intArg a
        if inI64 (Spec.unixToLdap s) then pure s!"ok {if s < 0 then 0 else s}" else pure "*"
      | _ => none },
  { kind := "M", op := "c15.ldap.dur.roundtrip", run := fun
      | [a] => do let s ← i64Arg a; pure s!"ok {(ldapDurationToSeconds (secondsToLdapDuration s)).toInt}"
      | _ => none },
  { kind := "S", op := "c15.ldap.dur.roundtrip", run := fun
      | [a] => do
        let v ← i64Arg a
        let r := s!"ok {v.toInt.natAbs}"
        pure (if KnownBad_sec2dur_overflow v then r ++ " #sec2dur.overflow" else r)
      | _ => none },
  -- key credentials -----------------------------------------------------------------------------
  { kind := "M", op := "c15.kc.new", run := fun
      | [a] => do
        let k ← u64Arg a
        pure (match newDateTime k with
          | .now => "ok now"
          | r => s!"ok {showKc r} {toHex (putLe64 k)}")
      | _ => none },
  { kind := "S", op := "c15.kc.new", run := fun
      | [a] => do
        let k ← natArg a
        let r := s!"ok {k} {specTimeOfTicks Spec.sec1601 k} {leHex k}"
        pure (if k == 0 then r ++ " #kc.tick0-is-now" else r)
      | _ => none },
  { kind := "M", op := "c15.kc.frombin", run := fun
      | [h] => do let b ← fromHex h; pure (showOutcomeWith showKc (convertFromBinaryTime b))
      | _ => none },
  { kind := "S", op := "c15.kc.frombin", run := fun
      | [h] => do
        let b ← fromHex h
        if b.length < 8 then pure "*" else
        let k := leNat (b.take 8)
        pure s!"ok {k} {specTimeOfTicks Spec.sec1601 k}"
      | _ => none },
  { kind := "M", op := "c15.kc.tobin", run := fun
      | [a, b] => do let (s, n) ← timeArgs a b; pure (okHex (convertToBinaryTime s n))
      | _ => none },
  { kind := "S", op := "c15.kc.tobin", run := fun
      | [a, b] => do
        let s ← intArg a; let n ← natArg b
        let k := Spec.ticksOfTime Spec.sec1601 ⟨s, n⟩
        if inU64 k then pure s!"ok {leHex k.toNat}" else pure "*"
      | _ => none },
  -- time -> bytes -> DateTime
  { kind := "M", op := "c15.kc.roundtrip", run := fun
      | [a, b] => do
        let (s, n) ← timeArgs a b
        pure (showOutcomeWith showKc (convertFromBinaryTime (convertToBinaryTime s n)))
      | _ => none },
  { kind := "S", op := "c15.kc.roundtrip", run := fun
      | [a, b] => do
        let s ← intArg a; let n ← natArg b
        let k := Spec.ticksOfTime Spec.sec1601 ⟨s, n⟩
        if !inU64 k then pure "*" else
        pure s!"ok {k} {showTime (Spec.trunc100 ⟨s, n⟩)}"
      | _ => none },
  -- UUID v1 / v2 --------------------------------------------------------------------------------
  { kind := "M", op := "c15.uuid1.gettime", run := fun
      | [a] => do let k ← u64Arg a; pure s!"ok {showPair (uuidGetTime k)}"
      | _ => none },
  { kind := "M", op := "c15.uuid2.gettime", run := fun
      | [a] => do let k ← u64Arg a; pure s!"ok {showPair (uuidGetTime k)}"
      | _ => none },
  { kind := "S", op := "c15.uuid1.gettime", run := fun
      | [a] => do let k ← natArg a; pure s!"ok {specTimeOfTicks Spec.sec1582 k}"
      | _ => none },
  { kind := "S", op := "c15.uuid2.gettime", run := fun
      | [a] => do let k ← natArg a; pure s!"ok {specTimeOfTicks Spec.sec1582 k}"
      | _ => none },
  { kind := "M", op := "c15.uuid1.settime", run := fun
      | [a, b] => do let (s, n) ← timeArgs a b; pure s!"ok {(uuidSetTime s n).toNat}"
      | _ => none },
  { kind := "M", op := "c15.uuid2.settime", run := fun
      | [a, b] => do let (s, n) ← timeArgs a b; pure s!"ok {(uuidSetTime s n).toNat}"
      | _ => none },
  { kind := "S", op := "c15.uuid1.settime", run := fun
      | [a, b] => do
        let s ← intArg a; let n ← natArg b
        let k := Spec.ticksOfTime Spec.sec1582 ⟨s, n⟩
        if inU64 k then pure s!"ok {k}" else pure "*"
      | _ => none },
  { kind := "S", op := "c15.uuid2.settime", run := fun
      | [a, b] => do
        let s ← intArg a; let n ← natArg b
        let k := Spec.ticksOfTime Spec.sec1582 ⟨s, n⟩
        if inU64 k then pure s!"ok {k}" else pure "*"
      | _ => none },
  -- time -> timestamp -> time
  { kind := "M", op := "c15.uuid1.roundtrip", run := fun
      | [a, b] => do let (s, n) ← timeArgs a b; pure s!"ok {showPair (uuidGetTime (uuidSetTime s n))}"
      | _ => none },
  { kind := "M", op := "c15.uuid2.roundtrip", run := fun
      | [a, b] => do let (s, n) ← timeArgs a b; pure s!"ok {showPair (uuidGetTime (uuidSetTime s n))}"
      | _ => none },
  { kind := "S", op := "c15.uuid1.roundtrip", run := fun
      | [a, b] => do
        let s ← intArg a; let n ← natArg b
        if inU64 (Spec.ticksOfTime Spec.sec1582 ⟨s, n⟩) then pure s!"ok {showTime (Spec.trunc100 ⟨s, n⟩)}" else pure "*"
      | _ => none },
  { kind := "S", op := "c15.uuid2.roundtrip", run := fun
      | [a, b] => do
        let s ← intArg a; let n ← natArg b
        if inU64 (Spec.ticksOfTime Spec.sec1582 ⟨s, n⟩) then pure s!"ok {showTime (Spec.trunc100 ⟨s, n⟩)}" else pure "*"
      | _ => none }
]
end Driver.C15
