import Driver.Util
import Manticore.Model.C19
import Manticore.Gen.C19Flags
import Manticore.Gen.C19Codes
import Manticore.Gen.C19NtStatus
import Manticore.Gen.C19NtErrors
namespace Driver.C19
open Manticore Manticore.C19 Driver

def family? (tok : String) : Option Family := Gen.families.find? (fun f => f.id == Name.ofString tok)
def table? (tok : String) : Option CodeTable :=
  (Gen.tblNtStatus :: Gen.codeTables).find? (fun t => t.id == Name.ofString tok)

def okName (n : Name) : String := okHex n.toBytes
def nameList (l : List Name) : String :=
  if l.isEmpty then "." else ",".intercalate (l.map (fun n => toHex n.toBytes))
def natList (l : List Nat) : String :=
  if l.isEmpty then "." else ",".intercalate (l.map toString)
def okBool (b : Bool) : String := if b then "ok 1" else "ok 0"
def hexName (s : String) : Option Name := (fromHex s).map Name.ofBytes

/-- word arguments must fit the Go type -/
def wordArg (bits : Nat) (s : String) : Option Nat := do
  let w ← natArg s
  if w < 2 ^ bits then some w else none

def entries : List Entry := [
  -- String() of a flag family, run on the generated table
  { kind := "M", op := "c19.str", run := fun
      | [f, w] => do let f ← family? f; let w ← wordArg f.bits w; pure (okName (f.string w))
      | _ => none },
  -- the list of names a decomposition collects (key-credential flags: the `Name` field)
  { kind := "M", op := "c19.names", run := fun
      | [f, w] => do let f ← family? f; let w ← wordArg f.bits w; pure ("ok " ++ nameList (f.names w))
      | _ => none },
  -- GetFlags()
  { kind := "M", op := "c19.getflags", run := fun
      | [f, w] => do let f ← family? f; let w ← wordArg f.bits w; pure ("ok " ++ natList (Family.getFlagsIn f.rows w))
      | _ => none },
  -- spec: the declared non-reserved flags that are set, ascending; set reserved bits may be listed among them or not
  -- (third argument: the list the implementation returned, `none` if it returned no list)
  { kind := "S", op := "c19.getflags", run := fun
      | [f, w, got] => do
        let f ← family? f; let w ← wordArg f.bits w
        let want := specGetFlags f.consts w
        let gotL : Option (List Nat) :=
          if got == "." then some [] else (got.splitOn ",").mapM (fun t => t.toNat?)
        let reserved := (f.consts.filter (fun c => c.isReserved)).map (·.value)
        match gotL with
        | some l =>
          let ascending := (l.zip (l.drop 1)).all (fun p => p.1 < p.2)
          let extraOk := l.all (fun v => want.contains v || (reserved.contains v && (w &&& v) != 0))
          if ascending && extraOk && l.filter (fun v => !reserved.contains v || want.contains v) == want
          then pure ("ok " ++ natList l) else pure ("ok " ++ natList want)
        | none => pure ("ok " ++ natList want)
      | _ => none },
  -- spec: undeclared bits have no say — the rendering equals that of the word with them cleared
  -- (arguments: family, word, mask of all declared constants, rendering of the word, rendering of word AND mask)
  { kind := "S", op := "c19.strmask", run := fun
      | [f, w, mask, _, masked] => do
        let f ← family? f; let _ ← wordArg f.bits w; let mask ← wordArg f.bits mask
        if mask != f.consts.foldl (fun acc c => acc ||| c.value) 0 then pure "bad-format"
        else pure ("ok " ++ masked ++ " " ++ masked)
      | _ => none },
  -- spec: normalised names of the declared non-reserved bits that are set, sorted
  { kind := "S", op := "c19.set", run := fun
      | [f, w] => do
        let f ← family? f; let w ← wordArg f.bits w
        match familyPrefix f.id with
        | some pfx => pure ("ok " ++ nameList (specTokens pfx f.consts w))
        | none => pure "*"
      | _ => none },
  -- a bit predicate, run on the generated test
  { kind := "M", op := "c19.pred", run := fun
      | [f, fn, w] => do
        let f ← family? f; let w ← wordArg f.bits w
        let p ← f.pred? (Name.ofString fn)
        pure (okBool (p.test.eval w))
      | _ => none },
  -- spec: the bit of the declared constant the predicate is named after
  { kind := "S", op := "c19.pred", run := fun
      | [f, fn, w] => do
        let f ← family? f; let w ← wordArg f.bits w
        pure (match specPred f (Name.ofString fn) w with | some b => okBool b | none => "*")
      | _ => none },
  -- String() of a code table
  { kind := "M", op := "c19.code", run := fun
      | [t, v] => do let t ← table? t; let v ← wordArg t.bits v; pure (okName (t.string v))
      | _ => none },
  -- spec: the observed name of a declared constant must not be a placeholder
  { kind := "S", op := "c19.named", run := fun
      | [t, v, name] => do
        let t ← table? t; let v ← wordArg t.bits v; let name ← hexName name
        if !t.consts.contains v then pure "*"
        else if nonPlaceholder t v name then pure (okName name) else pure "placeholder-name"
      | _ => none },
  -- spec: distinct values must carry distinct names
  { kind := "S", op := "c19.unique", run := fun
      | [t, v1, v2, n1, n2] => do
        let t ← table? t; let v1 ← wordArg t.bits v1; let v2 ← wordArg t.bits v2
        let a ← hexName n1; let b ← hexName n2
        if !(t.consts.contains v1 && t.consts.contains v2) then pure "*"
        else if v1 != v2 && a == b then pure "duplicate-name"
        else pure ("ok " ++ toHex a.toBytes ++ " " ++ toHex b.toBytes)
      | _ => none },
  -- one entry of an exported map, as the extractor read it
  { kind := "M", op := "c19.maprow", run := fun
      | [id, k] => do
        let k ← natArg k
        if id == "NtErrors" then
          pure (match Gen.ntErrRows.lookup k with | some t => okStr t | none => "ok absent")
        else match table? id with
          | some t => pure (match t.rows.lookup k with | some n => okName n | none => "ok absent")
          | none => do
            let f ← family? id
            pure (match f.rows.find? (fun r => r.test.mask == k) with | some r => okName r.name | none => "ok absent")
      | _ => none },
  -- NT_STATUS.Error()
  { kind := "M", op := "c19.nterr", run := fun
      | [v] => do
        let v ← wordArg 32 v
        pure (match ntError Gen.ntSuccess Gen.ntErrRows Gen.ntErrFormat v with
          | some e => okName e
          | none => "ok nil")
      | _ => none },
  -- spec: a declared non-success status has a non-nil error mentioning its code; success has none
  { kind := "S", op := "c19.nterrprop", run := fun
      | [v, e] => do
        let v ← wordArg 32 v
        if !Gen.ntConstValues.contains v then pure "*"
        else if v == Gen.ntSuccess then pure "ok nil"
        else if e == "nil" then pure "non-nil-error-expected"
        else do
          let txt ← hexName e
          if mentionsCode v txt then pure (okName txt) else pure "error-must-mention-code"
      | _ => none }
]
end Driver.C19
