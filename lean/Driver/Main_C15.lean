import Driver.Loop
import Driver.C15

def main : IO Unit := Driver.run (Driver.C15.entries)
