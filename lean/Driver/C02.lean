import Driver.Util
import Manticore.Model.C02
namespace Driver.C02
open Manticore Manticore.C02 Manticore.RExpr Driver

def okE (es : List RExpr) : String := "ok " ++ " ".intercalate (es.map render)

def showO (o : Outcome RExpr) : String := showOutcomeWith render o

/-- both outcomes must be values to print a joint line; an error / panic of either is the line -/
def both (a b : Outcome RExpr) : String :=
  match a, b with
  | .ok x, .ok y => okE [x, y]
  | .panic, _ | _, .panic => "panic"
  | _, _ => "err"

def validKey (key out : Bytes) : Bool :=
  out.length == 8 && Spec.stripParity out == key && out.all Spec.oddParity

def hasColon (b : Bytes) : Bool := b.any (· == 58)

/-- the structural part of the blob check that does not depend on the server's target info -/
def blobFrame (blob cc : Bytes) : Bool :=
  decide (32 ≤ blob.length) && blob.take 8 == [1, 1, 0, 0, 0, 0, 0, 0] &&
  decide (Spec.filetimeUnixEpoch ≤ leNat ((blob.drop 8).take 8)) &&
  (blob.drop 16).take 8 == cc && (blob.drop 24).take 4 == zeros 4 && blob.drop (blob.length - 4) == zeros 4

def lmExpected (pw user domain sc lmcc : Bytes) : RExpr :=
  cat (p2 .hmacMd5 (Spec.ntowfv2 pw user domain) (lit (sc ++ lmcc))) (lit lmcc)

def entries : List Entry := [
  { kind := "M", op := "c02.paritybit", run := fun
      | [n] => do pure ("ok " ++ toString (parityBit (← n.toNat?)))
      | _ => none },
  { kind := "M", op := "c02.parityadjust", run := fun
      | [k] => do pure (okHex (parityAdjust (← fromHex k)))
      | _ => none },
  -- spec: validator on the implementation's key (FIPS 46-3: key bits preserved, odd parity)
  { kind := "S", op := "c02.parityadjust", run := fun
      | [k, out] => do
        let k ← fromHex k
        if k.length != 7 then pure "*" else
        if out == "none" then pure "invalid" else
        let o ← fromHex out
        pure (if validKey k o then okHex o else "invalid")
      | _ => none },
  { kind := "M", op := "c02.createdeskey", run := fun
      | [k] => do pure (showOutcomeWith toHex (createDesKey (← fromHex k)))
      | _ => none },
  { kind := "S", op := "c02.createdeskey", run := fun
      | [k, out] => do
        let k ← fromHex k
        if k.length != 7 then pure "*" else
        if out == "none" then pure "invalid" else
        let o ← fromHex out
        pure (if validKey k o then okHex o else "invalid")
      | _ => none },
  -- c02.v1.pw <password> <challenge> <nthash> <lmhash>: Hash, String, NTResponse, LMResponse
  { kind := "M", op := "c02.v1.pw", run := fun
      | [_pw, c, nh, lh] => do
        let c ← fromHex c; let nh ← fromHex nh; let lh ← fromHex lh
        if c.length != 8 then pure "err" else
        pure (match v1Hash nh c, v1String nh c, ntResponse nh c, lmResponse lh c with
          | .ok a, .ok b, .ok x, .ok y => okE [a, b, x, y]
          | .panic, _, _, _ | _, .panic, _, _ | _, _, .panic, _ | _, _, _, .panic => "panic"
          | _, _, _, _ => "err")
      | _ => none },
  { kind := "S", op := "c02.v1.pw", run := fun
      | [_pw, c, nh, lh] => do
        let c ← fromHex c; let nh ← fromHex nh; let lh ← fromHex lh
        if c.length != 8 then pure "err" else
        pure (okE [Spec.desl nh c, p1 .upper (p1 .hex (Spec.desl nh c)), Spec.desl nh c, Spec.desl lh c])
      | _ => none },
  -- c02.v1.hash <nthash> <challenge>: NewNTLMv1WithNTHash(...).Hash()
  { kind := "M", op := "c02.v1.hash", run := fun
      | [nh, c] => do
        let c ← fromHex c; let nh ← fromHex nh
        if c.length != 8 then pure "err" else pure (showO (v1Hash nh c))
      | _ => none },
  { kind := "S", op := "c02.v1.hash", run := fun
      | [nh, c] => do
        let c ← fromHex c; let nh ← fromHex nh
        if c.length == 8 && nh.length == 16 then pure (okE [Spec.desl nh c]) else pure "*"
      | _ => none },
  -- c02.v1.nt <nthash> <challenge>: NewNTLMv1WithNTHash(...).NTResponse()
  { kind := "M", op := "c02.v1.nt", run := fun
      | [nh, c] => do
        let c ← fromHex c; let nh ← fromHex nh
        if c.length != 8 then pure "err" else pure (showO (ntResponse nh c))
      | _ => none },
  { kind := "S", op := "c02.v1.nt", run := fun
      | [nh, c] => do
        let c ← fromHex c; let nh ← fromHex nh
        if c.length == 8 && nh.length == 16 then pure (okE [Spec.desl nh c]) else pure "*"
      | _ => none },
  -- c02.desencrypt <hash> <challenge>  (hook)
  { kind := "M", op := "c02.desencrypt", run := fun
      | [h, c] => do pure (showO (desEncrypt (← fromHex h) (← fromHex c)))
      | _ => none },
  { kind := "S", op := "c02.desencrypt", run := fun
      | [h, c] => do
        let c ← fromHex c; let h ← fromHex h
        if c.length == 8 && h.length == 16 then pure (okE [Spec.desl h c]) else pure "*"
      | _ => none },
  -- c02.v1resp <challenge> <password> <nthash> <lmhash>  (hook calculateNTLMv1Response): lm nt
  { kind := "M", op := "c02.v1resp", run := fun
      | [c, _pw, nh, lh] => do
        let c ← fromHex c; let nh ← fromHex nh; let lh ← fromHex lh
        if c.length != 8 then pure "err" else pure (both (lmResponse lh c) (ntResponse nh c))
      | _ => none },
  { kind := "S", op := "c02.v1resp", run := fun
      | [c, _pw, nh, lh] => do
        let c ← fromHex c; let nh ← fromHex nh; let lh ← fromHex lh
        if c.length != 8 then pure "err" else pure (okE [Spec.desl lh c, Spec.desl nh c])
      | _ => none },
  -- c02.v2key <password> <user> <domain>: NewNTLMv2(...).ResponseKeyNT and ntlm.ntowfv2 (hook)
  { kind := "M", op := "c02.v2key", run := fun
      | [pw, u, d] => do
        let k := ntowfv2 (← fromHex pw) (← fromHex u) (← fromHex d)
        pure (okE [k, k])
      | _ => none },
  { kind := "S", op := "c02.v2key", run := fun
      | [pw, u, d] => do
        let k := Spec.ntowfv2 (← fromHex pw) (← fromHex u) (← fromHex d)
        pure (okE [k, k])
      | _ => none },
  -- c02.v2hash <password> <user> <domain> <sc> <cc> <domain16> | <ticks>     spec: … | <blob>
  { kind := "M", op := "c02.v2hash", run := fun
      | [pw, u, d, sc, cc, d16, t] => do
        pure (okE [v2Hash (← fromHex pw) (← fromHex u) (← fromHex d) (← fromHex sc) (← fromHex cc) (← t.toNat?) (← fromHex d16)])
      | _ => none },
  { kind := "S", op := "c02.v2hash", run := fun
      | [pw, u, d, sc, cc, _d16, blob] => do
        if blob == "none" then pure "invalid" else
        let blob ← fromHex blob; let cc ← fromHex cc
        if Spec.blobWellFormed blob cc then
          pure (okE [Spec.expectedResponse (← fromHex pw) (← fromHex u) (← fromHex d) (← fromHex sc) blob])
        else pure "invalid-blob"
      | _ => none },
  -- c02.v2hashcat <password> <user> <domain> <sc> <cc> <domain16> | <ticks>     spec: … | <line>
  { kind := "M", op := "c02.v2hashcat", run := fun
      | [pw, u, d, sc, cc, d16, t] => do
        pure (okE [v2Hashcat (← fromHex pw) (← fromHex u) (← fromHex d) (← fromHex sc) (← fromHex cc) (← t.toNat?) (← fromHex d16)])
      | _ => none },
  { kind := "S", op := "c02.v2hashcat", run := fun
      | [pw, u, d, sc, cc, _d16, line] => do
        let pw ← fromHex pw; let u ← fromHex u; let d ← fromHex d; let sc ← fromHex sc; let cc ← fromHex cc
        if hasColon u || hasColon d then pure "*" else
        if line == "none" then pure "invalid" else
        match Spec.parseHashcat (← fromHex line) with
        | none => pure "unparsable"
        | some l =>
          if l.user != u || l.domain != d || l.serverChallenge != sc then pure "wrong-fields"
          else if !Spec.blobWellFormed l.blob cc then pure "invalid-blob"
          else pure (okE [cat (lit (u ++ colon ++ colon ++ d ++ colon)) (cat (p1 .hex (lit sc)) (cat (lit colon)
            (cat (p1 .hex (p2 .hmacMd5 (Spec.ntowfv2 pw u d) (lit (sc ++ l.blob)))) (cat (lit colon) (p1 .hex (lit l.blob))))))])
      | _ => none },
  -- c02.blob <cc> <ti> | <unixSecs>   (hook createNTLMv2Blob)
  { kind := "M", op := "c02.blob", run := fun
      | [cc, ti, t] => do pure (okHex (createBlob (← t.toNat?) (← fromHex cc) (← fromHex ti)))
      | _ => none },
  { kind := "S", op := "c02.blob", run := fun
      | [cc, ti, out] => do
        let cc ← fromHex cc; let ti ← fromHex ti
        if cc.length != 8 then pure "*" else
        if out == "none" then pure "invalid" else
        let b ← fromHex out
        let ok := blobFrame b cc && (b.drop 28).take (b.length - 32) == ti && (!Spec.avList ti || Spec.blobWellFormed b cc)
        pure (if ok then okHex b else "invalid-blob")
      | _ => none },
  -- c02.proof <key> <sc> <blob>   (hook calculateNTLMv2Proof)
  { kind := "M", op := "c02.proof", run := fun
      | [k, sc, b] => do pure (okE [proof (lit (← fromHex k)) (← fromHex sc) (← fromHex b)])
      | _ => none },
  { kind := "S", op := "c02.proof", run := fun
      | [k, sc, b] => do pure (okE [p2 .hmacMd5 (lit (← fromHex k)) (cat (lit (← fromHex sc)) (lit (← fromHex b)))])
      | _ => none },
  -- c02.v2resp <password> <user> <domain> <sc> <ti> | <unixSecs> <cc> <lmcc>   (hook calculateNTLMv2Response): lm nt
  { kind := "M", op := "c02.v2resp", run := fun
      | [pw, u, d, sc, ti, t, cc, lmcc] => do
        let r := v2Response (← fromHex pw) (← fromHex u) (← fromHex d) (← fromHex sc) (← fromHex ti) (← t.toNat?) (← fromHex cc) (← fromHex lmcc)
        pure (okE [r.1, r.2])
      | _ => none },
  { kind := "S", op := "c02.v2resp", run := fun
      | [pw, u, d, sc, ti, cc, lmcc, blob] => do
        let pw ← fromHex pw; let u ← fromHex u; let d ← fromHex d; let sc ← fromHex sc; let ti ← fromHex ti
        if blob == "none" then pure "invalid" else
        let cc ← fromHex cc; let lmcc ← fromHex lmcc; let b ← fromHex blob
        let ok := blobFrame b cc && (b.drop 28).take (b.length - 32) == ti && (!Spec.avList ti || Spec.blobWellFormed b cc)
        if !ok then pure "invalid-blob" else
        pure (okE [lmExpected pw u d sc lmcc, Spec.expectedResponse pw u d sc b])
      | _ => none },
  -- c02.auth <flags> <sc> <ti> <user> <password> <domain> <workstation> <nthash> <lmhash> | <unixSecs> <cc> <lmcc>
  --   the LM / NT payloads of CreateAuthenticateMessage
  { kind := "M", op := "c02.auth", run := fun
      | [f, sc, ti, u, pw, d, _w, nh, lh, t, cc, lmcc] => do
        let f ← f.toNat?; let sc ← fromHex sc
        if f / 0x80000 % 2 = 1 then
          -- the NT response (48 octets more than the target information) must fit the 16-bit length of its descriptor;
          -- CreateAuthenticateMessage refuses one that does not (the layout itself is property C08)
          if (← fromHex ti).length + 48 > 65535 then pure "err" else
          let r := v2Response (← fromHex pw) (← fromHex u) (← fromHex d) sc (← fromHex ti) (← t.toNat?) (← fromHex cc) (← fromHex lmcc)
          pure (okE [r.1, r.2])
        else pure (both (lmResponse (← fromHex lh) sc) (ntResponse (← fromHex nh) sc))
      | _ => none },
  { kind := "S", op := "c02.auth", run := fun
      | [f, sc, ti, u, pw, d, _w, nh, lh, cc, lmcc, blob] => do
        let f ← f.toNat?; let sc ← fromHex sc
        if f / 0x80000 % 2 = 1 then
          let pw ← fromHex pw; let u ← fromHex u; let d ← fromHex d; let ti ← fromHex ti
          -- a response that a 16-bit length cannot announce cannot be sent whole: refusing is the only answer a verifier
          -- would not reject
          if ti.length + 48 > 65535 then pure "err" else
          if blob == "none" then pure "invalid" else
          let cc ← fromHex cc; let lmcc ← fromHex lmcc; let b ← fromHex blob
          let ok := blobFrame b cc && (b.drop 28).take (b.length - 32) == ti && (!Spec.avList ti || Spec.blobWellFormed b cc)
          if !ok then pure "invalid-blob" else
          pure (okE [lmExpected pw u d sc lmcc, Spec.expectedResponse pw u d sc b])
        else pure (okE [Spec.desl (← fromHex lh) sc, Spec.desl (← fromHex nh) sc])
      | _ => none }
]
end Driver.C02
