import Driver.Loop
import Driver.C09

def main : IO Unit := Driver.run (Driver.C09.entries)
