import Manticore.Basic
namespace Driver
open Manticore

/-- a handler maps the argument tokens of one line to one output line;
    `none` = the arguments are not well-formed for this op (`bad-op`) -/
abbrev Handler := List String → Option String

structure Entry where
  kind : String      -- "M" (model of the code) or "S" (specification / oracle)
  op : String
  run : Handler

def okHex (b : Bytes) : String := "ok " ++ toHex b
def okStr (s : String) : String := "ok " ++ toHex s.toUTF8.toList

def showOutcomeWith {α} (f : α → String) : Outcome α → String
  | .ok a => "ok " ++ f a
  | .err => "err"
  | .panic => "panic"

def hexList (s : String) (sep : Char) : Option (List Bytes) :=
  if s == "." then some [] else (s.splitOn (String.singleton sep)).mapM fromHex

def natArg (s : String) : Option Nat := s.toNat?
def intArg (s : String) : Option Int := s.toInt?

end Driver
