/-
  MS-CIFS 2.2.3.1, bytes 12..23 of the header for the three interpretations of SecurityFeatures:
  PIDHigh (USHORT) at 12, then at 14..21 either 8 opaque bytes (reserved / security signature) or, over a connectionless
  transport, Key (ULONG), CID (USHORT), SequenceNumber (USHORT), all little-endian; Reserved (USHORT, zero here) at 22.
  `S smb.hdrsf <kind> <sec> <pidHigh> <tid> <mid>` prints bytes 12..23, TID (24..25) and MID (30..31).
-/
import Driver.Util
namespace Driver.SmbHdrSf
open Manticore Driver

def entries : List Entry := [
  { kind := "S", op := "smb.hdrsf", run := fun
      | [kind, sec, pidHigh, tid, mid] => do
        let secBytes ← (match kind with
          | "r" | "s" => do
            let b ← fromHex sec
            if b.length == 8 then some b else none
          | "c" => match sec.splitOn ":" with
            | [k, c, s] => do pure (natLe 4 (← k.toNat?) ++ natLe 2 (← c.toNat?) ++ natLe 2 (← s.toNat?))
            | _ => none
          | _ => none)
        pure s!"ok {toHex (natLe 2 (← pidHigh.toNat?) ++ secBytes ++ natLe 2 0)} {toHex (natLe 2 (← tid.toNat?))} {toHex (natLe 2 (← mid.toNat?))}"
      | _ => none }
]
end Driver.SmbHdrSf
