import Driver.Util
import Manticore.Model.C14
namespace Driver.C14
open Manticore Manticore.C14 Driver

/-! line-protocol entries of C14.  Ops that hash take a last argument, the SHA-256 table
    `in=out;in=out` (`.` = empty) computed by the harness with Go's crypto/sha256; when the table has
    no answer for a question the op prints `need <hex>` and the harness re-sends the line. -/

def parseTable (s : String) : Option (List (Bytes × Bytes)) :=
  if s == "." then some [] else
  (s.splitOn ";").mapM (fun p => match p.splitOn "=" with
    | [a, b] => do pure (← fromHex a, ← fromHex b)
    | _ => none)

def runAsk (tbl : List (Bytes × Bytes)) (m : Ask String) : String :=
  match m.runTable tbl with
  | .inl x => "need " ++ toHex x
  | .inr s => s

def b01 (b : Bool) : String := if b then "1" else "0"

def showFields (f : Fields) : String :=
  s!"v={f.version.toNat} id={toHex f.identifier} kh={toHex f.keyHash} rsa={f.keySize.toNat},{f.exponent.toNat},{toHex f.modulus},{toHex f.prime1},{toHex f.prime2} us={f.usage.toNat} lu={toHex f.legacyUsage} src={f.source.toNat} cki={f.ckiVersion},{f.ckiFlags.toNat} dev={f.deviceId.a.toNat},{f.deviceId.b.toNat},{f.deviceId.c.toNat},{f.deviceId.d.toNat},{f.deviceId.e.toNat} t={f.lastLogon.toNat},{f.creation.toNat}"

def showCKI (c : CKI) : String :=
  s!"{c.version},{c.flags.toNat},{c.volumeType.toNat},{b01 c.supportsNotification},{c.fekKeyVersion.toNat},{c.strength.toNat},{toHex c.reserved},{toHex c.extended},{toHex c.rawBytes},{c.rawBytesSize}"

def showRSA (r : RSAKeyMaterial) : String :=
  s!"{r.keySize.toNat},{r.exponent.toNat},{toHex r.modulus},{toHex r.prime1},{toHex r.prime2},{toHex r.rawBytes}"

def showSer (o : Outcome Bytes) : String :=
  match o with
  | .ok b => toHex b
  | .err => "err"
  | .panic => "panic"

/-- the observation made on a parsed credential: public fields, internals, the recomputed hash,
    the integrity verdict and the re-serialisation -/
def observeParsed (k : KeyCredential) : Ask String := do
  match ← computeKeyHashA k with
  | .ok (h, k1) =>
    match ← checkIntegrityA k1 with
    | .ok (ok, k2) =>
      pure s!"ok {showFields k2.fields} rsa.full={showRSA k2.material} cki.full={showCKI k2.cki} ch={toHex h} integ={b01 ok} ser={showSer k2.toBytes}"
    | .err => pure "err"
    | .panic => pure "panic"
  | .err => pure "err"
  | .panic => pure "panic"

def opParse (b : Bytes) : Ask String :=
  match KeyCredential.fromBytes {} b with
  | .ok k => observeParsed k
  | .err => pure "err"
  | .panic => pure "panic"

/-- `NewKeyCredential`, `ToBytes`, `CheckIntegrity`, `FromBytes` into a zero value, `CheckIntegrity`,
    `ToBytes` -/
def opNew (v : UInt32) (ids : Bytes) (m : RSAKeyMaterial) (g : Guid) (t1 t2 : UInt64) : Ask String := do
  match ← newKeyCredentialA v ids m g t1 t2 with
  | .ok k =>
    match k.toBytes with
    | .ok b =>
      match ← checkIntegrityA k with
      | .ok (i1, _) =>
        match KeyCredential.fromBytes {} b with
        | .ok k2 =>
          match ← checkIntegrityA k2 with
          | .ok (i2, k3) =>
            pure s!"ok blob={toHex b} kh={toHex k.keyHash} integ={b01 i1} || {showFields k3.fields} integ2={b01 i2} reser={showSer k3.toBytes}"
          | .err => pure "err"
          | .panic => pure "panic"
        | .err => pure "err"
        | .panic => pure "panic"
      | .err => pure "err"
      | .panic => pure "panic"
    | .err => pure "err"
    | .panic => pure "panic"
  | .err => pure "err"
  | .panic => pure "panic"

def opFlip (b : Bytes) (i : Nat) : Ask String := do
  match KeyCredential.fromBytes {} (flipBit b i) with
  | .ok k =>
    match ← checkIntegrityA k with
    | .ok (true, _) => pure "ok accepted"
    | .ok (false, _) => pure "ok rejected"
    | .err => pure "ok rejected"
    | .panic => pure "panic"
  | .err => pure "ok rejected"
  | .panic => pure "panic"

/-! ### specification side -/

/-- the identifier string must be the canonical text of a binary identifier (lower-case hex for
    versions 0/1, padded base64 otherwise) -/
def specIdBytes (ids : Bytes) (v : UInt32) : Option Bytes :=
  if ids.isEmpty then some [] else
  match (if isHexVersion v then hexDecode ids else b64DecodeRaw (trimRightEq ids)) with
  | some b => if (if isHexVersion v then hexEncode b else b64Encode b) == ids then some b else none
  | none => none

/-- expected line of `c14.new`, from the MS-ADTS grammar alone -/
def sNew (v : Nat) (ids : Bytes) (ksz ex : Nat) (md p1 p2 : Bytes) (ga gb gc gd ge t1 t2 : Nat)
    (tbl : List (Bytes × Bytes)) : String :=
  match specIdBytes ids (UInt32.ofNat v) with
  | none => "*"
  | some idb =>
    if idb.length > 65535 || 28 + md.length + p1.length + p2.length > 65535 || ge ≥ 2 ^ 48 then "*" else
    let c : Spec.Cred :=
      { version := v, keyId := idb, bitLength := ksz, exponent := ex, modulus := md,
        prime1 := p1, prime2 := p2, deviceId := Spec.guidPacket ga gb gc gd ge, lastLogon := t1, creation := t2 }
    let cov := c.covered.flatMap Spec.entryBytes
    match tbl.lookup cov with
    | none => "need " ++ toHex cov
    | some h =>
      if h.length ≠ 32 then "bad-format" else
      let blob := c.encode (fun _ => h)
      let f : Fields :=
        { version := UInt32.ofNat v, identifier := ids, keyHash := h, keySize := UInt32.ofNat ksz,
          exponent := UInt32.ofNat ex, modulus := md, prime1 := p1, prime2 := p2, usage := 1, legacyUsage := [],
          source := 0, ckiVersion := 1, ckiFlags := 0,
          deviceId := ⟨UInt32.ofNat ga, UInt16.ofNat gb, UInt16.ofNat gc, UInt16.ofNat gd, UInt64.ofNat ge⟩,
          lastLogon := UInt64.ofNat t1, creation := UInt64.ofNat t2 }
      s!"ok blob={toHex blob} kh={toHex h} integ=1 || {showFields f} integ2=1 reser={toHex blob}"

/-- byte offsets (value start, value end) of the single KeyHash entry of a strictly well-formed blob -/
def hashEntrySpan (es : List Spec.Entry) : Option (Nat × Nat) :=
  let rec go (es : List Spec.Entry) (off : Nat) : Option (Nat × Nat) :=
    match es with
    | [] => none
    | e :: rest =>
      if e.id = Spec.idKeyHash then some (off + 3, off + 3 + e.value.length)
      else go rest (off + 3 + e.value.length)
  if (es.filter (fun e => e.id = Spec.idKeyHash)).length = 1 then go es 4 else none

/-- a single-bit corruption inside the KeyHash value or inside the entries that follow it must be
    rejected, provided the uncorrupted blob is well-formed and intact; silent otherwise -/
def sFlip (b : Bytes) (i : Nat) (tbl : List (Bytes × Bytes)) : String :=
  if b.length < 4 then "*" else
  match Spec.parseEntries (b.drop 4) with
  | none => "*"
  | some es =>
    match hashEntrySpan es with
    | none => "*"
    | some (vs, ve) =>
      let cov := b.drop ve
      match tbl.lookup cov with
      | none => "need " ++ toHex cov
      | some h =>
        if h != (b.drop vs).take (ve - vs) then "*"
        else if vs ≤ i / 8 ∧ i / 8 < b.length then "ok rejected" else "*"

def cki2 : List Nat := [2, 3, 4, 5, 9, 19]

def u32 (s : String) : Option UInt32 := do let n ← natArg s; if n < 2 ^ 32 then pure (UInt32.ofNat n) else none
def u16 (s : String) : Option UInt16 := do let n ← natArg s; if n < 2 ^ 16 then pure (UInt16.ofNat n) else none
def u64 (s : String) : Option UInt64 := do let n ← natArg s; if n < 2 ^ 64 then pure (UInt64.ofNat n) else none

def entries : List Entry := [
  -- identifiers ------------------------------------------------------------------------------
  { kind := "M", op := "c14.id.frombin", run := fun
      | [v, h] => do pure (okHex (fromBinaryId (← fromHex h) (← u32 v)))
      | _ => none },
  { kind := "S", op := "c14.id.frombin", run := fun
      | [v, h] => do
        let b ← fromHex h
        pure (okHex (if isHexVersion (← u32 v) then hexEncode b else b64Encode b))
      | _ => none },
  { kind := "M", op := "c14.id.tobin", run := fun
      | [v, h] => do pure (match toBinaryId (← fromHex h) (← u32 v) with | some b => okHex b | none => "err")
      | _ => none },
  { kind := "S", op := "c14.id.tobin", run := fun
      | [v, h] => do
        let s ← fromHex h
        pure (match (if isHexVersion (← u32 v) then hexDecode s else b64DecodeRaw (trimRightEq s)) with
          | some b => okHex b | none => "err")
      | _ => none },
  { kind := "M", op := "c14.id.rt", run := fun
      | [v, h] => do
        let v ← u32 v
        pure (match toBinaryId (fromBinaryId (← fromHex h) v) v with | some b => okHex b | none => "err")
      | _ => none },
  { kind := "S", op := "c14.id.rt", run := fun
      | [_, h] => do pure (okHex (← fromHex h))
      | _ => none },
  -- RSA key material ---------------------------------------------------------------------------
  { kind := "M", op := "c14.rsa.tobytes", run := fun
      | [k, e, m, p, q] => do
        let r : RSAKeyMaterial := { keySize := ← u32 k, exponent := ← u32 e, modulus := ← fromHex m, prime1 := ← fromHex p, prime2 := ← fromHex q }
        pure (okHex r.toBytes)
      | _ => none },
  { kind := "S", op := "c14.rsa.tobytes", run := fun
      | [k, e, m, p, q] => do
        pure (okHex (Spec.bcryptRsaBlob (← natArg k) 4 (← natArg e) (← fromHex m) (← fromHex p) (← fromHex q)))
      | _ => none },
  { kind := "M", op := "c14.rsa.frombytes", run := fun
      | [h] => do
        pure (match RSAKeyMaterial.fromBytes {} (← fromHex h) [] with
          | .ok (r, false) => "ok " ++ showRSA r
          | .ok (_, true) => "err"
          | .err => "err"
          | .panic => "panic")
      | _ => none },
  { kind := "M", op := "c14.rsa.rt", run := fun
      | [k, e, m, p, q] => do
        let r : RSAKeyMaterial := { keySize := ← u32 k, exponent := ← u32 e, modulus := ← fromHex m, prime1 := ← fromHex p, prime2 := ← fromHex q }
        pure (match RSAKeyMaterial.fromBytes {} r.toBytes [] with
          | .ok (r, false) => s!"ok {r.keySize.toNat},{r.exponent.toNat},{toHex r.modulus},{toHex r.prime1},{toHex r.prime2}"
          | .ok (_, true) => "err"
          | .err => "err"
          | .panic => "panic")
      | _ => none },
  { kind := "S", op := "c14.rsa.rt", run := fun
      | [k, e, m, p, q] => do
        pure s!"ok {← natArg k},{← natArg e},{toHex (← fromHex m)},{toHex (← fromHex p)},{toHex (← fromHex q)}"
      | _ => none },
  -- custom key information -----------------------------------------------------------------------
  { kind := "M", op := "c14.cki.frombytes", run := fun
      | [h] => do
        let (c, e) := CKI.fromBytes {} (← fromHex h)
        pure s!"ok {b01 e} {showCKI c}"
      | _ => none },
  { kind := "M", op := "c14.cki.rt", run := fun
      | [h] => do pure (okHex (CKI.fromBytes {} (← fromHex h)).1.toBytes)
      | _ => none },
  -- MS-ADTS CUSTOM_KEY_INFORMATION: version 1; either the fields end at a field boundary (2, 3, 4, 5, 9, 19)
  -- or EncodedExtendedCKI follows the reserved bytes; SupportsNotification is 0 or 1: such a structure
  -- re-serialises unchanged
  { kind := "S", op := "c14.cki.rt", run := fun
      | [h] => do
        let b ← fromHex h
        pure (if b.head? = some 1 ∧ (cki2.contains b.length ∨ b.length > 19) ∧ (b.getD 3 0).toNat ≤ 1 then okHex b else "*")
      | _ => none },
  -- version -----------------------------------------------------------------------------------------
  { kind := "M", op := "c14.ver", run := fun
      | [h] => do
        let v := (versionFromBytes (← fromHex h)).1
        pure s!"ok {v.toNat} {toHex (putLe32 v)}"
      | _ => none },
  { kind := "S", op := "c14.ver", run := fun
      | [h] => do
        let b ← fromHex h
        pure (if b.length < 4 then "*" else s!"ok {leNat (b.take 4)} {toHex (b.take 4)}")
      | _ => none },
  -- DN-with-binary ---------------------------------------------------------------------------------
  { kind := "M", op := "c14.dn.fmt", run := fun
      | [b, d] => do pure (okHex (dnToString (← fromHex b) (← fromHex d)))
      | _ => none },
  { kind := "S", op := "c14.dn.fmt", run := fun
      | [b, d] => do pure (okHex (Spec.dnBinary (← fromHex b) (← fromHex d)))
      | _ => none },
  { kind := "M", op := "c14.dn.parse", run := fun
      | [r] => do pure (showOutcomeWith (fun (p : Bytes × Bytes) => toHex p.1 ++ " " ++ toHex p.2) (dnParse (← fromHex r)))
      | _ => none },
  { kind := "M", op := "c14.dn.rt", run := fun
      | [b, d] => do
        pure (showOutcomeWith (fun (p : Bytes × Bytes) => toHex p.1 ++ " " ++ toHex p.2)
          (dnParse (dnToString (← fromHex b) (← fromHex d))))
      | _ => none },
  { kind := "S", op := "c14.dn.rt", run := fun
      | [b, d] => do pure s!"ok {toHex (← fromHex b)} {toHex (← fromHex d)}"
      | _ => none },
  -- the credential ---------------------------------------------------------------------------------
  { kind := "M", op := "c14.new", run := fun
      | [v, ids, k, e, m, p, q, ga, gb, gc, gd, ge, t1, t2, tbl] => do
        let r : RSAKeyMaterial := { keySize := ← u32 k, exponent := ← u32 e, modulus := ← fromHex m, prime1 := ← fromHex p, prime2 := ← fromHex q }
        let g : Guid := ⟨← u32 ga, ← u16 gb, ← u16 gc, ← u16 gd, ← u64 ge⟩
        pure (runAsk (← parseTable tbl) (opNew (← u32 v) (← fromHex ids) r g (← u64 t1) (← u64 t2)))
      | _ => none },
  { kind := "S", op := "c14.new", run := fun
      | [v, ids, k, e, m, p, q, ga, gb, gc, gd, ge, t1, t2, tbl] => do
        pure (sNew (← natArg v) (← fromHex ids) (← natArg k) (← natArg e) (← fromHex m) (← fromHex p) (← fromHex q)
          (← natArg ga) (← natArg gb) (← natArg gc) (← natArg gd) (← natArg ge) (← natArg t1) (← natArg t2) (← parseTable tbl))
      | _ => none },
  { kind := "M", op := "c14.parse", run := fun
      | [b, tbl] => do pure (runAsk (← parseTable tbl) (opParse (← fromHex b)))
      | _ => none },
  { kind := "M", op := "c14.flip", run := fun
      | [b, i, tbl] => do pure (runAsk (← parseTable tbl) (opFlip (← fromHex b) (← natArg i)))
      | _ => none },
  { kind := "S", op := "c14.flip", run := fun
      | [b, i, tbl] => do pure (sFlip (← fromHex b) (← natArg i) (← parseTable tbl))
      | _ => none }
]
end Driver.C14
