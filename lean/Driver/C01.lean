import Driver.Util
import Manticore.Model.C01
namespace Driver.C01
open Manticore Manticore.C01 Driver

/-- one history token: hex chunk (`-` = empty write), `s` = Sum(), `x` = HexSum() -/
def parseOp (t : String) : Option Op :=
  if t == "s" then some .sum
  else if t == "x" then some .hexSum
  else (fromHex t).map .write

def parseHist (s : String) : Option (List Op) :=
  if s == "." then some [] else (s.splitOn ",").mapM parseOp

def showList (ds : List Bytes) : String :=
  if ds.isEmpty then "ok ." else "ok " ++ ",".intercalate (ds.map toHex)

/-- code points: decimal, comma separated; `.` = none; `!` = "the byte string is not valid UTF-8" -/
def parseCps (s : String) : Option (Option (List Nat)) :=
  if s == "!" then some none
  else if s == "." then some (some [])
  else (s.splitOn ",").mapM String.toNat? |>.map some

def allScalar (cs : List Nat) : Bool := cs.all (fun c => decide (Spec.IsScalar c))

/-- the spec works on scalar values; the line carries the bytes the implementation saw as well, and the
    spec's own RFC 3629 encoder must reproduce them (otherwise the harness built an inconsistent case) -/
def checkUtf8 (b : Bytes) (cs : List Nat) : Bool := allScalar cs && Spec.utf8 cs == b

def showRes (r : Res) : String := "res " ++ r.render

/-- MS-Cache lower-casing used by the spec line: concrete on ASCII names, the given mapping otherwise -/
def specLower (user given : List Nat) : List Nat → List Nat :=
  fun _ => if user.all (· < 128) then user.map Spec.lowerASCIIcp else given

/-- `Spec.dcc2Line` / `Spec.dcc2FromNT` with the KDF left symbolic -/
def specDcc2Res (nt : Bytes) (userBytes : Bytes) (user lower : List Nat) (rounds : Nat) : Res :=
  let lw := specLower user lower
  .cat (.lit (asciiBytes "$DCC2$" ++ asciiBytes (toString rounds) ++ asciiBytes "#" ++ userBytes ++ asciiBytes "#"))
    (.hex (.prim pbkdf2Name [.lit (Spec.dcc1FromNT lw nt user), .lit (Spec.utf16le (lw user)), .int rounds, .int 16]))

def entries : List Entry := [
  -- MD4: a whole history is one line
  { kind := "M", op := "c01.md4", run := fun
      | [h] => do let ops ← parseHist h; pure (showList (run new ops))
      | _ => none },
  { kind := "S", op := "c01.md4", run := fun
      | [h] => do let ops ← parseHist h; pure (showList (Spec.history [] ops))
      | _ => none },
  -- c01.md4big <n>: the harness streams n octets into the library and into the reference implementation and prints whether
  -- the digests agree; the property asks that they do (no model line: the message does not fit the driver)
  { kind := "S", op := "c01.md4big", run := fun | [_n] => some "ok same" | _ => none },
  { kind := "M", op := "c01.md4sum", run := fun
      | [h] => do let b ← fromHex h; pure (okHex (md4Sum b))
      | _ => none },
  { kind := "S", op := "c01.md4sum", run := fun
      | [h] => do let b ← fromHex h; pure (okHex (Spec.md4 b))
      | _ => none },
  -- UTF-16LE
  { kind := "M", op := "c01.utf16", run := fun
      | [h] => do let b ← fromHex h; pure (okHex (encodeUTF16LE b))
      | _ => none },
  { kind := "S", op := "c01.utf16", run := fun
      | [h, c] => do
        let b ← fromHex h
        match ← parseCps c with
        | none => pure "*"
        | some cs => if checkUtf8 b cs then pure (okHex (Spec.utf16le cs)) else pure "bad-format"
      | _ => none },
  -- NT
  { kind := "M", op := "c01.nt", run := fun
      | [h] => do let b ← fromHex h; pure (showList [ntHash b, ntHashHex b])
      | _ => none },
  { kind := "S", op := "c01.nt", run := fun
      | [h, c] => do
        let b ← fromHex h
        match ← parseCps c with
        | none => pure "*"
        | some cs =>
          if checkUtf8 b cs then pure (showList [Spec.ntowfv1 cs, Spec.hexString (Spec.ntowfv1 cs)]) else pure "bad-format"
      | _ => none },
  -- LM: the model gets strings.ToUpper(password) alongside (used only for non-ASCII passwords)
  { kind := "M", op := "c01.lm", run := fun
      | [h, u] => do
        let b ← fromHex h; let up ← fromHex u
        pure (showList [lmHash (fun _ => up) b, lmHashToHex (fun _ => up) b])
      | _ => none },
  { kind := "S", op := "c01.lm", run := fun
      | [h] => do
        let b ← fromHex h
        if b.all (· < 0x80) then pure (showList [Spec.lmowfv1 b, Spec.hexString (Spec.lmowfv1 b)]) else pure "*"
      | _ => none },
  -- DCC: the model gets strings.ToLower(username) alongside (used only for non-ASCII names)
  { kind := "M", op := "c01.dcc", run := fun
      | [p, u, l] => do
        let pw ← fromHex p; let user ← fromHex u; let lo ← fromHex l
        let lw : Bytes → Bytes := fun _ => lo
        pure (showList [dccFromPassword lw pw user, dccFromPasswordToHex lw pw user, dccFromPasswordToHashcat lw pw user])
      | _ => none },
  { kind := "S", op := "c01.dcc", run := fun
      | [p, pc, u, uc, lc] => do
        let pw ← fromHex p; let user ← fromHex u
        match ← parseCps pc, ← parseCps uc, ← parseCps lc with
        | some pcs, some ucs, some lcs =>
          if !(checkUtf8 pw pcs && checkUtf8 user ucs && allScalar lcs) then pure "bad-format" else
          let lw := specLower ucs lcs
          let v := Spec.dcc1 lw pcs ucs
          pure (showList [v, Spec.hexString v, Spec.dccLine v (lw ucs)])
        | _, _, _ => pure "*"
      | _ => none },
  { kind := "M", op := "c01.dccnt", run := fun
      | [n, u, l] => do
        let nt ← fromHex n; let user ← fromHex u; let lo ← fromHex l
        let lw : Bytes → Bytes := fun _ => lo
        pure (showList [dccFromNT lw nt user, dccFromNTToHex lw nt user, dccFromNTToHashcat lw nt user])
      | _ => none },
  { kind := "S", op := "c01.dccnt", run := fun
      | [n, u, uc, lc] => do
        let nt ← fromHex n; let user ← fromHex u
        match ← parseCps uc, ← parseCps lc with
        | some ucs, some lcs =>
          if !(checkUtf8 user ucs && allScalar lcs) then pure "bad-format" else
          let lw := specLower ucs lcs
          let v := Spec.dcc1FromNT lw nt ucs
          pure (showList [v, Spec.hexString v, Spec.dccLine v (lw ucs)])
        | _, _ => pure "*"
      | _ => none },
  -- DCC2: residual output, the harness evaluates pbkdf2-hmac-sha1(...) with x/crypto/pbkdf2
  { kind := "M", op := "c01.dcc2", run := fun
      | [u, l, p, r] => do
        let user ← fromHex u; let lo ← fromHex l; let pw ← fromHex p; let rounds ← intArg r
        pure (showRes (dcc2WithPassword (fun _ => lo) user pw rounds))
      | _ => none },
  { kind := "S", op := "c01.dcc2", run := fun
      | [u, uc, lc, p, pc, r] => do
        let user ← fromHex u; let pw ← fromHex p; let rounds ← intArg r
        match ← parseCps uc, ← parseCps lc, ← parseCps pc with
        | some ucs, some lcs, some pcs =>
          if !(checkUtf8 pw pcs && checkUtf8 user ucs && allScalar lcs) then pure "bad-format" else
          if rounds < 1 then pure "*" else
          pure (showRes (specDcc2Res (Spec.ntowfv1 pcs) user ucs lcs rounds.toNat))
        | _, _, _ => pure "*"
      | _ => none },
  { kind := "M", op := "c01.dcc2nt", run := fun
      | [u, l, n, r] => do
        let user ← fromHex u; let lo ← fromHex l; let nt ← fromHex n; let rounds ← intArg r
        pure (showRes (dcc2WithNT (fun _ => lo) user nt rounds))
      | _ => none },
  { kind := "S", op := "c01.dcc2nt", run := fun
      | [u, uc, lc, n, r] => do
        let user ← fromHex u; let nt ← fromHex n; let rounds ← intArg r
        match ← parseCps uc, ← parseCps lc with
        | some ucs, some lcs =>
          if !(checkUtf8 user ucs && allScalar lcs) then pure "bad-format" else
          if rounds < 1 then pure "*" else
          pure (showRes (specDcc2Res nt user ucs lcs rounds.toNat))
        | _, _ => pure "*"
      | _ => none },
  -- the Lean DES primitive against crypto/des (validation of Prims/DES.lean in every run)
  { kind := "S", op := "c01.des", run := fun
      | [k, b] => do
        let key ← fromHex k; let blk ← fromHex b
        if key.length != 8 || blk.length != 8 then none else pure (okHex (DES.encryptBytes key blk))
      | _ => none }
]
end Driver.C01
