import Driver.Util
import Manticore.Model.C08
namespace Driver.C08
open Manticore Manticore.C08 Driver

/-- a finite function table `k:v;k:v` (hex) supplied by the harness for `strings.ToUpper` /
    `EncodeUTF16LE`; a key that is not in the table maps to a sentinel, which shows up as a tie mismatch -/
def parseTable (s : String) : Option (List (Bytes × Bytes)) :=
  if s == "." then some [] else
  (s.splitOn ";").mapM (fun p => match p.splitOn ":" with
    | [k, v] => do pure (← fromHex k, ← fromHex v)
    | _ => none)

def tableFn (t : List (Bytes × Bytes)) (x : Bytes) : Bytes :=
  match t.lookup x with
  | some v => v
  | none => [0xBA, 0xD0, 0xBA, 0xD0, 0xBA]

def boolArg (s : String) : Option Bool :=
  if s == "1" then some true else if s == "0" then some false else none

def u32Arg (s : String) : Option UInt32 := do
  let n ← s.toNat?
  if n < 4294967296 then some (UInt32.ofNat n) else none

def showChallenge (c : Challenge) : String :=
  " ".intercalate [toString c.flags.toNat, toHex c.serverChallenge, toHex c.reserved, toHex c.targetName,
    toHex c.targetInfo, toHex c.version]

def showAvMap (m : List (Nat × Bytes)) : String :=
  if m.isEmpty then "." else ";".intercalate (m.map fun p => toString p.1 ++ ":" ++ toHex p.2)

def parsePairs (s : String) : Option (List (UInt16 × Bytes)) :=
  if s == "." then some [] else
  (s.splitOn ";").mapM (fun p => match p.splitOn ":" with
    | [k, v] => do
      let n ← k.toNat?
      if n < 65536 then pure (UInt16.ofNat n, ← fromHex v) else none
    | _ => none)

def parseArcs (s : String) : Option (List Nat) :=
  if s == "." then some [] else (s.splitOn ".").mapM (·.toNat?)

def showArcs (a : List Nat) : String := if a.isEmpty then "." else ".".intercalate (a.map toString)

/-- the independent reading of an AV-pair list: distinct ids in increasing order, each with the value of
    its last occurrence -/
def specAvMap (pairs : List (UInt16 × Bytes)) : List (Nat × Bytes) :=
  let keys := ((pairs.map (·.1)).eraseDups.map (·.toNat)).mergeSort (· ≤ ·)
  keys.filterMap fun k => (Spec.avLookup pairs (UInt16.ofNat k)).map (fun v => (k, v))

def wfChallenge (c : Challenge) (g0 g1 : Bytes) : Bool :=
  c.serverChallenge.length == 8 && c.reserved.length == 8 && c.version.length == 8 &&
  decide (c.targetName.length < 65536) && decide (c.targetInfo.length < 65536) &&
  decide (56 + g0.length + c.targetName.length + g1.length < 4294967296) &&
  (c.flags &&& F_VERSION != 0 || c.version == zeros 8)

/-- a token argument: `nil` is a nil slice, `-` an empty non-nil one -/
def tokArg (s : String) : Option (Option Bytes) :=
  if s == "nil" then some none else (fromHex s).map some

def showResp (r : NegTokenResp) : String :=
  " ".intercalate [toString r.negState, showArcs r.supportedMech, toHex r.responseToken, toHex r.mechListMIC]

def entries : List Entry := [
  -- c08.neg <domain> <workstation> <unicode> <upper-table> <utf16-table>
  { kind := "M", op := "c08.neg", run := fun
      | [d, w, u, tu, t16] => do
        let d ← fromHex d; let w ← fromHex w; let u ← boolArg u
        let up := tableFn (← parseTable tu); let u16 := tableFn (← parseTable t16)
        pure (showOutcomeWith toHex (createNegotiateMessage up u16 d w u))
      | _ => none },
  -- spec: the MS-NLMP validator on the implementation's own message (appended by the harness)
  { kind := "S", op := "c08.neg", run := fun
      | [d, w, u, tu, t16, msg] => do
        let d ← fromHex d; let w ← fromHex w; let u ← boolArg u
        let up := tableFn (← parseTable tu); let u16 := tableFn (← parseTable t16)
        let dn := Spec.negotiateName up u16 u d
        let wn := Spec.negotiateName up u16 u w
        -- a name that a 16-bit length cannot describe has no message: the builder must refuse it
        if !Spec.fieldsFit [dn, wn] then pure "err" else
        if msg == "none" then pure "invalid" else
        let m ← fromHex msg
        pure (if Spec.validNegotiate m u (!d.isEmpty) (!w.isEmpty) dn wn then okHex m else "invalid")
      | _ => none },
  -- c08.auth <flags> <sc> <ti> <user> <password> <domain> <workstation> <upper-table> <utf16-table> | <lm> <nt>
  { kind := "M", op := "c08.auth", run := fun
      | [f, _sc, _ti, us, _pw, d, w, tu, t16, lm, nt] => do
        let f ← u32Arg f; let us ← fromHex us; let d ← fromHex d; let w ← fromHex w
        let up := tableFn (← parseTable tu); let u16 := tableFn (← parseTable t16)
        pure (showOutcomeWith toHex (createAuthenticateMessage up u16 f (← fromHex lm) (← fromHex nt) us d w))
      | _ => none },
  { kind := "S", op := "c08.auth", run := fun
      | [f, _sc, _ti, us, _pw, d, w, tu, t16, lm, nt, msg] => do
        let f ← u32Arg f; let us ← fromHex us; let d ← fromHex d; let w ← fromHex w
        let up := tableFn (← parseTable tu); let u16 := tableFn (← parseTable t16)
        let lm ← fromHex lm; let nt ← fromHex nt
        let dn := Spec.authName u16 f d
        let un := Spec.authName u16 f us
        let wn := Spec.authName u16 f (up w)
        if !Spec.fieldsFit [lm, nt, dn, un, wn] then pure "err" else
        if msg == "none" then pure "invalid" else
        let m ← fromHex msg
        pure (if Spec.validAuthenticate m f lm nt dn un wn then okHex m else "invalid")
      | _ => none },
  -- c08.chal <bytes>
  { kind := "M", op := "c08.chal", run := fun
      | [h] => do pure (showOutcomeWith showChallenge (parseChallenge (← fromHex h)))
      | _ => none },
  -- spec: <bytes> alone: silent; <bytes> <flags> <sc> <res> <tn> <ti> <ver> <gap0> <gap1> <gap2>: the bytes must
  -- be the independent builder's output for that content, and parsing must give the content back; with two more
  -- arguments the builder puts those numbers into TargetNameMaxLen / TargetInfoMaxLen (ignored on receipt)
  { kind := "S", op := "c08.chal", run := fun
      | [_] => some "*"
      | [h, f, sc, rs, tn, ti, ver, g0, g1, g2] => do
        let b ← fromHex h
        let f ← u32Arg f; let sc ← fromHex sc; let rs ← fromHex rs
        let tn ← fromHex tn; let ti ← fromHex ti; let ver ← fromHex ver
        let c : Challenge := ⟨f, sc, rs, tn, ti, ver⟩
        let g0 ← fromHex g0; let g1 ← fromHex g1; let g2 ← fromHex g2
        if Spec.buildChallenge c g0 g1 g2 != b then pure "bad-format"
        else if wfChallenge c g0 g1 then pure ("ok " ++ showChallenge c) else pure "*"
      | [h, f, sc, rs, tn, ti, ver, g0, g1, g2, tnMax, tiMax, tnOff, tiOff] => do
        let b ← fromHex h
        let f ← u32Arg f; let sc ← fromHex sc; let rs ← fromHex rs
        let tn ← fromHex tn; let ti ← fromHex ti; let ver ← fromHex ver
        let c : Challenge := ⟨f, sc, rs, tn, ti, ver⟩
        let g0 ← fromHex g0; let g1 ← fromHex g1; let g2 ← fromHex g2
        let built := Spec.buildChallengeMax c g0 g1 g2 (← tnMax.toNat?) (← tiMax.toNat?)
        -- the BufferOffset of an empty field is ignored on receipt (MS-NLMP 2.2.1.2): any value may stand there
        let patch (bs : Bytes) (at_ : Nat) (tok : String) (empty : Bool) : Option Bytes :=
          if tok == "-" then some bs
          else if !empty then none
          else do pure (bs.take at_ ++ natLe 4 (← tok.toNat?) ++ bs.drop (at_ + 4))
        let built ← patch built 16 tnOff tn.isEmpty
        let built ← patch built 44 tiOff ti.isEmpty
        if built != b then pure "bad-format"
        else if wfChallenge c g0 g1 then pure ("ok " ++ showChallenge c) else pure "*"
      | _ => none },
  -- glue: the context's negotiate token is the wrapping of its NEGOTIATE message; the session-setup helper passes it on
  { kind := "S", op := "c08.negtoken", run := fun
      | [_, _, _] => some "ok same"
      | _ => none },
  -- c08.ti <bytes>
  { kind := "M", op := "c08.ti", run := fun
      | [h] => do
        pure (showOutcomeWith (fun m => showAvMap (m.map fun p => (p.1.toNat, p.2))) (parseTargetInfo (← fromHex h)))
      | _ => none },
  { kind := "S", op := "c08.ti", run := fun
      | [_] => some "*"
      | [h, ps] => do
        let b ← fromHex h
        let pairs ← parsePairs ps
        if Spec.encodeAv pairs != b then pure "bad-format"
        else if pairs.all (fun p => p.1 != 0 && decide (p.2.length < 65536)) then pure ("ok " ++ showAvMap (specAvMap pairs))
        else pure "*"
      | _ => none },
  -- c08.wrapinit <token>
  { kind := "M", op := "c08.wrapinit", run := fun
      | [t] => do pure (okHex (wrapInit (← tokArg t)))
      | _ => none },
  { kind := "S", op := "c08.wrapinit", run := fun
      | [t] => do pure (okHex (Spec.gssInit (← tokArg t)))
      | _ => none },
  -- c08.wrapresp <state> <mech arcs> <token>
  { kind := "M", op := "c08.wrapresp", run := fun
      | [s, m, t] => do
        pure (match wrapResp (← s.toNat?) (← parseArcs m) (← tokArg t) with | some b => okHex b | none => "err")
      | _ => none },
  -- c08.extract <bytes>
  { kind := "M", op := "c08.extract", run := fun
      | [h] => do pure (showOutcomeWith toHex (extractNTLMToken (← fromHex h)))
      | _ => none },
  { kind := "S", op := "c08.extract", run := fun | [_] => some "*" | _ => none },
  -- c08.parseresp <bytes>
  { kind := "M", op := "c08.parseresp", run := fun
      | [h] => do pure (showOutcomeWith showResp (parseNegTokenResp (← fromHex h)))
      | _ => none },
  { kind := "S", op := "c08.parseresp", run := fun | [_] => some "*" | _ => none },
  -- c08.roundtrip <token>: ExtractNTLMToken(CreateNegTokenInit(token))
  { kind := "M", op := "c08.roundtrip", run := fun
      | [t] => do pure (showOutcomeWith toHex (extractNTLMToken (wrapInit (← tokArg t))))
      | _ => none },
  { kind := "S", op := "c08.roundtrip", run := fun
      | [t] => do
        let t ← tokArg t
        pure (okHex (t.getD []) ++ (if KnownBad_emptyToken t then " #spnego.empty-token" else ""))
      | _ => none },
  -- c08.roundtripresp <state> <mech> <token>: ExtractNTLMToken(CreateNegTokenResp(state, mech, token))
  { kind := "M", op := "c08.roundtripresp", run := fun
      | [s, m, t] => do
        pure (match wrapResp (← s.toNat?) (← parseArcs m) (← tokArg t) with
          | some b => showOutcomeWith toHex (extractNTLMToken b)
          | none => "err")
      | _ => none },
  { kind := "S", op := "c08.roundtripresp", run := fun
      | [_, _, t] => do
        let t ← tokArg t
        pure (okHex (t.getD []) ++ (if KnownBad_emptyToken t then " #spnego.empty-token" else ""))
      | _ => none },
  -- c08.process <token> <user> <password> <domain> <workstation> <upper-table> <utf16-table> <flags> <tiLen> | <lm> <nt>
  { kind := "M", op := "c08.process", run := fun
      | [tok, us, _pw, d, w, tu, t16, _f, _tl, lm, nt] => do
        let us ← fromHex us; let d ← fromHex d; let w ← fromHex w
        let up := tableFn (← parseTable tu); let u16 := tableFn (← parseTable t16)
        pure (showOutcomeWith toHex (processChallengeToken up u16 (← fromHex tok) us d w (← fromHex lm) (← fromHex nt)))
      | _ => none },
  -- spec: whatever the context has seen before, the AUTHENTICATE at the end of the token it returns is a valid answer to
  -- THIS challenge (its flags decide the character set of the names); the harness appends the AUTHENTICATE and the token
  { kind := "S", op := "c08.process", run := fun
      | [_tok, us, _pw, d, w, tu, t16, f, _tl, lm, nt, msg, out] => do
        if msg == "none" then pure "*" else
        -- the harness found the token changed, or the CHALLENGE the context keeps different from a fresh parse of the token
        if msg == "stored-differs" then pure "invalid-stored-challenge" else
        let f ← u32Arg f; let us ← fromHex us; let d ← fromHex d; let w ← fromHex w
        let up := tableFn (← parseTable tu); let u16 := tableFn (← parseTable t16)
        let lm ← fromHex lm; let nt ← fromHex nt
        let dn := Spec.authName u16 f d
        let un := Spec.authName u16 f us
        let wn := Spec.authName u16 f (up w)
        let m ← fromHex msg
        pure (if Spec.validAuthenticate m f lm nt dn un wn then "ok " ++ out else "invalid")
      | _ => none }
]
end Driver.C08
