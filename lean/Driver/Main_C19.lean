import Driver.Loop
import Driver.C19

def main : IO Unit := Driver.run (Driver.C19.entries)
