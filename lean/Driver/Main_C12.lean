import Driver.Loop
import Driver.C12

def main : IO Unit := Driver.run (Driver.C12.entries)
