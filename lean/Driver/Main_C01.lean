import Driver.Loop
import Driver.C01

def main : IO Unit := Driver.run (Driver.C01.entries)
