import Driver.Util
import Driver.C09
import Manticore.Model.C10
namespace Driver.C10
open Manticore Manticore.C10 Driver

/-! line syntax of a packet: `<hdr> <qd> <an> <ns> <ar>` with hdr = `id:flags:qd:an:ns:ar`, a question =
    `namehex,scopehex:type:class`, a record = `namehex,scopehex:type:class:ttl:rdlength:rdatahex` -/

open Driver.C09 (u16 u32 parseSection showSection)

def parseNB (s : String) : Option NBName :=
  match s.splitOn "," with
  | [n, sc] => do pure { name := ← fromHex n, scope := ← fromHex sc }
  | _ => none

def parseHdr (s : String) : Option Header :=
  match s.splitOn ":" with
  | [a, b, c, d, e, f] => do
    pure { id := ← u16 a, flags := ← u16 b, questions := ← u16 c, answers := ← u16 d, authority := ← u16 e, additional := ← u16 f }
  | _ => none

def parseQ : List String → Option Question
  | [n, t, c] => do pure { name := ← parseNB n, qtype := ← u16 t, qclass := ← u16 c }
  | _ => none

def parseR : List String → Option RR
  | [n, t, c, ttl, rdl, rd] => do
    pure { name := ← parseNB n, rtype := ← u16 t, rclass := ← u16 c, ttl := ← u32 ttl, rdlength := ← u16 rdl, rdata := ← fromHex rd }
  | _ => none

def parsePkt : List String → Option Packet
  | [h, q, a, n, r] => do
    pure { hdr := ← parseHdr h, questions := ← parseSection parseQ q, answers := ← parseSection parseR a,
           authority := ← parseSection parseR n, additional := ← parseSection parseR r }
  | _ => none

def showNB (n : NBName) : String := s!"{toHex n.name},{toHex n.scope}"
def showQ (q : Question) : String := s!"{showNB q.name}:{q.qtype.toNat}:{q.qclass.toNat}"
def showR (r : RR) : String :=
  s!"{showNB r.name}:{r.rtype.toNat}:{r.rclass.toNat}:{r.ttl.toNat}:{r.rdlength.toNat}:{toHex r.rdata}"
def showH (h : Header) : String :=
  s!"{h.id.toNat}:{h.flags.toNat}:{h.questions.toNat}:{h.answers.toNat}:{h.authority.toNat}:{h.additional.toNat}"
def showPkt (p : Packet) : String :=
  s!"{showH p.hdr} {showSection showQ p.questions} {showSection showR p.answers} {showSection showR p.authority} {showSection showR p.additional}"

def roundtripM (p : Packet) : String :=
  match marshal p with
  | .ok w =>
    match unmarshal w with
    | .ok (n, p') => s!"ok {toHex w} {n} {showPkt p'}"
    | .err => s!"ok {toHex w} decode-err"
    | .panic => "panic"
  | .err => "err"
  | .panic => "panic"

/-! ### specification side -/

def allNames (p : Packet) : List NBName :=
  p.questions.map (·.name) ++ (p.answers ++ p.authority ++ p.additional).map (·.name)

/-- RFC 1001/1002 reading of Marshal-then-Unmarshal: the bytes are the uncompressed RFC 1002 message,
    and the same content comes back (names without their space padding).  A name that cannot be
    represented (more than 16 bytes, more than 255 octets on the wire) must be refused; outside the
    well-formed packets (counts, RDLength, scope syntax) the property is silent. -/
def roundtripS (p : Packet) : String :=
  if (allNames p).any (fun n => n.name.length > 16) then "err"
  else if (allNames p).any (fun n => !validate n) then "*"
  else if (allNames p).any (fun n => !decide (Fits n)) then "err"
  else if !decide (WF p) then "*"
  else
    let w := Spec.DNS.plain (toDNS p)
    s!"ok {toHex w} {w.length} {showPkt (canonPkt p)}"

def l1encS (n : NBName) : String :=
  if n.name.length > 16 then "err"
  else if !(n.scope.isEmpty || isValidDomainName n.scope) then "*"
  else okHex (if n.scope.isEmpty then l1 (pad16 n.name) else l1 (pad16 n.name) ++ dot :: n.scope)

/-- 32 characters 'A'..'P', then nothing or a dot and the scope -/
def l1decS (e : Bytes) : String :=
  let head := (splitFirstDot e).1
  if head.length ≠ 32 then "err"
  else
    match unHalfAscii head with
    | some d => s!"ok {toHex (trimRight d)} {toHex ((splitFirstDot e).2.getD [])}"
    | none => "err"

/-- a name of an RFC 1002 message as NetBIOS name + scope, when it has that shape -/
def nbOfLabels : Spec.DNS.Name → Option NBName
  | [] => none
  | first :: scopeLabels =>
    if first.length ≠ 32 ∨ scopeLabels.any (fun l => l.contains dot) then none
    else (unHalfAscii first).map (fun d => { name := trimRight d, scope := joinDots scopeLabels })

def pktOfDNS (m : Spec.DNS.Message) (hdr : Header) : Option Packet := do
  let qs ← m.qd.mapM (fun q => do pure ({ name := ← nbOfLabels q.name, qtype := q.qtype, qclass := q.qclass } : Question))
  let rr := fun (r : Spec.DNS.RR) => do
    pure ({ name := ← nbOfLabels r.name, rtype := r.rtype, rclass := r.rclass, ttl := r.ttl,
            rdlength := UInt16.ofNat r.rdata.length, rdata := r.rdata } : RR)
  pure { hdr := hdr, questions := qs, answers := ← m.an.mapM rr, authority := ← m.ns.mapM rr, additional := ← m.ar.mapM rr }

/-- every uncompressed RFC 1002 message whose names are NetBIOS names must be accepted with its
    content; truncated input must be refused; elsewhere (pointers, other label shapes) silent -/
def unmarshalS (data : Bytes) : String :=
  match Spec.DNS.parse data with
  | .ok m =>
    let hdr : Header := { id := m.id, flags := m.flags, questions := UInt16.ofNat m.qd.length, answers := UInt16.ofNat m.an.length,
                          authority := UInt16.ofNat m.ns.length, additional := UInt16.ofNat m.ar.length }
    if (Spec.DNS.plain m).isPrefixOf data then
      match pktOfDNS m hdr with
      | some p => s!"ok {data.length} {showPkt p}"
      | none => "*"
    else "*"
  | .error .truncated => "err"
  | .error _ => "*"

def entries : List Entry := [
  { kind := "M", op := "c10.l1enc", run := fun
      | [n, s] => do pure (showOutcomeWith toHex (firstLevelEncode { name := ← fromHex n, scope := ← fromHex s }))
      | _ => none },
  { kind := "S", op := "c10.l1enc", run := fun
      | [n, s] => do pure (l1encS { name := ← fromHex n, scope := ← fromHex s })
      | _ => none },
  { kind := "M", op := "c10.l1dec", run := fun
      | [e] => do pure (showOutcomeWith (fun (n : NBName) => s!"{toHex n.name} {toHex n.scope}") (firstLevelDecode (← fromHex e)))
      | _ => none },
  { kind := "S", op := "c10.l1dec", run := fun
      | [e] => do pure (l1decS (← fromHex e))
      | _ => none },
  { kind := "M", op := "c10.roundtrip", run := fun args => do pure (roundtripM (← parsePkt args)) },
  { kind := "S", op := "c10.roundtrip", run := fun args => do pure (roundtripS (← parsePkt args)) },
  { kind := "M", op := "c10.unmarshal", run := fun
      | [h] => do pure (showOutcomeWith (fun (r : Nat × Packet) => s!"{r.1} {showPkt r.2}") (unmarshal (← fromHex h)))
      | _ => none },
  -- further arguments (the packet the generator serialized) are for the oracle only
  { kind := "S", op := "c10.unmarshal", run := fun
      | h :: _ => do pure (unmarshalS (← fromHex h))
      | _ => none }
]
end Driver.C10
