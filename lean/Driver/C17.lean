import Driver.Util
import Driver.C17Parse
import Manticore.Gen.NbtnsLocks
/-!
  Driver ops of C17.  A whole history is ONE line.

  op tokens (joined by `,`):  `R<name>.<u|g>.<addr>.<0|1>` register (last field: ttl already past),
  `Q<name>` query, `L<name>.<addr>` release, `F<name>.<addr>` refresh, `C<name>` mark conflict, `X` clean.
  result tokens: `k` nil error, `e` error, `p` panic, `o<u|g>:<addr>.<addr>…` owners (`-` if none).

  * `M c17.hist <ops>`            heap model: results in slice order, then `|`, then one flag per answered
                                   query: `s` = the returned slice still reads as it did when returned
                                   (after the whole history), `c` = it changed.
  * `M c17.histset <ops>`         the same with every owner list sorted ascending (comparable with the spec).
  * `S c17.histset <ops> <naddr>` atomic-map spec: owners as sets (ascending over addresses `0..naddr-1`),
                                   every answered query flagged `s`.
  * `S c17.linz <events>`         events `<op>@<inv>-<res>=<result>` joined by `,`: is the recorded
                                   concurrent history linearizable w.r.t. the proved sequential model?
-/
namespace Driver.C17
open Manticore Manticore.C17 Driver

def entries : List Entry := [
  { kind := "M", op := "c17.hist", run := fun
      | [h] => do let ops ← parseOps h; pure (histLine Manticore.Gen.NbtnsLocks.queryCopies false ops)
      | _ => none },
  { kind := "M", op := "c17.histset", run := fun
      | [h] => do let ops ← parseOps h; pure (histLine Manticore.Gen.NbtnsLocks.queryCopies true ops)
      | _ => none },
  { kind := "S", op := "c17.histset", run := fun
      | [h, n] => do let ops ← parseOps h; let k ← natArg n; pure (specLine k ops)
      | _ => none },
  { kind := "S", op := "c17.linz", run := fun
      | [h] => do
        let evs ← (splitOnChar ',' h.toList).mapM parseEv
        pure (if linz evs then "ok lin" else "ok nonlin")
      | _ => none },
  -- the concurrent runs themselves are made by the harness (race-detector child process); the spec of
  -- such a run is constant: every recorded history linearizable, no race report
  { kind := "S", op := "c17.conc", run := fun _ => some "ok" }
]
end Driver.C17
