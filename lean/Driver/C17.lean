import Driver.Util
import Manticore.Model.C17
import Manticore.Gen.NbtnsLocks
/-!
  Driver ops of C17.  A whole history is ONE line.

  op tokens (joined by `,`):  `R<name>.<u|g>.<addr>.<0|1>` register (last field: ttl already past),
  `Q<name>` query, `L<name>.<addr>` release, `F<name>.<addr>` refresh, `C<name>` mark conflict, `X` clean.
  result tokens: `k` nil error, `e` error, `p` panic, `o<u|g>:<addr>.<addr>…` owners (`-` if none).

  * `M c17.hist <ops>`            heap model: results in slice order, then `|`, then one flag per answered
                                   query: `s` = the returned slice still reads as it did when returned
                                   (after the whole history), `c` = it changed.
  * `M c17.histset <ops>`         the same with every owner list sorted ascending (comparable with the spec).
  * `S c17.histset <ops> <naddr>` atomic-map spec: owners as sets (ascending over addresses `0..naddr-1`),
                                   every answered query flagged `s`.
  * `S c17.linz <events>`         events `<op>@<inv>-<res>=<result>` joined by `,`: is the recorded
                                   concurrent history linearizable w.r.t. the proved sequential model?
-/
namespace Driver.C17
open Manticore Manticore.C17 Driver

def splitOnChar (c : Char) : List Char → List (List Char)
  | [] => [[]]
  | x :: xs =>
    match splitOnChar c xs with
    | [] => [[]]
    | hd :: tl => if x = c then [] :: hd :: tl else (x :: hd) :: tl

def natOf (l : List Char) : Option Nat := (String.ofList l).toNat?

def typeOf : List Char → Option NameType
  | ['u'] => some .unique
  | ['g'] => some .group
  | _ => none

def boolOf : List Char → Option Bool
  | ['0'] => some false
  | ['1'] => some true
  | _ => none

def parseOp (tok : List Char) : Option Op :=
  match tok with
  | 'R' :: rest =>
    match splitOnChar '.' rest with
    | [n, t, a, p] => do pure (.register (← natOf n) (← typeOf t) (← natOf a) (← boolOf p))
    | _ => none
  | 'Q' :: rest => do pure (.query (← natOf rest))
  | 'L' :: rest =>
    match splitOnChar '.' rest with
    | [n, a] => do pure (.release (← natOf n) (← natOf a))
    | _ => none
  | 'F' :: rest =>
    match splitOnChar '.' rest with
    | [n, a] => do pure (.refresh (← natOf n) (← natOf a))
    | _ => none
  | 'C' :: rest => do pure (.markConflict (← natOf rest))
  | ['X'] => some .clean
  | _ => none

def parseOps (s : String) : Option (List Op) :=
  if s == "-" then some [] else (splitOnChar ',' s.toList).mapM parseOp

def showType : NameType → String
  | .unique => "u"
  | .group => "g"

def showAddrs (l : List Nat) : String :=
  if l.isEmpty then "-" else ".".intercalate (l.map toString)

def showOut : Out → String
  | .ok => "k"
  | .err => "e"
  | .panic => "p"
  | .owners l t => "o" ++ showType t ++ ":" ++ showAddrs l

def parseOut (tok : List Char) : Option Out :=
  match tok with
  | ['k'] => some .ok
  | ['e'] => some .err
  | ['p'] => some .panic
  | 'o' :: t :: ':' :: rest => do
    let ty ← typeOf [t]
    let l ← if rest = ['-'] then some [] else (splitOnChar '.' rest).mapM natOf
    pure (.owners l ty)
  | _ => none

/-- `<op>@<inv>-<res>=<result>` -/
def parseEv (tok : List Char) : Option Ev :=
  match splitOnChar '@' tok with
  | [op, rest] =>
    match splitOnChar '=' rest with
    | [times, out] =>
      match splitOnChar '-' times with
      | [i, r] => do pure ⟨← parseOp op, ← parseOut out, ← natOf i, ← natOf r⟩
      | _ => none
    | _ => none
  | _ => none

/-- run the heap model; collect results (read at return time) and the returned slices -/
def runHist (c : Bool) : HState → List Op → List Out × List (Slice × List IP) × HState
  | s, [] => ([], [], s)
  | s, op :: ops =>
    let (s', o) := hstep c s op
    let (outs, slices, fin) := runHist c s' ops
    match o with
    | .owners sl _ => (viewOut s'.heap o :: outs, (sl, s'.heap.read sl) :: slices, fin)
    | _ => (viewOut s'.heap o :: outs, slices, fin)

def sortOut : Out → Out
  | .owners l t => .owners (l.mergeSort (fun a b => decide (a ≤ b))) t
  | o => o

def histLine (c : Bool) (sorted : Bool) (ops : List Op) : String :=
  let (outs, slices, fin) := runHist c hinit ops
  let outs := if sorted then outs.map sortOut else outs
  let flags := slices.map (fun p => if fin.heap.read p.1 == p.2 then "s" else "c")
  "ok " ++ ",".intercalate (outs.map showOut) ++ "|" ++ "".intercalate flags

def showSpecOut (naddr : Nat) : Spec.Out → String
  | .ok => "k"
  | .err => "e"
  | .owners set t => "o" ++ showType t ++ ":" ++ showAddrs ((List.range naddr).filter set)

def specLine (naddr : Nat) (ops : List Op) : String :=
  let outs := Spec.outputs Spec.init ops
  let flags := outs.filterMap (fun o => match o with | .owners _ _ => some "s" | _ => none)
  "ok " ++ ",".intercalate (outs.map (showSpecOut naddr)) ++ "|" ++ "".intercalate flags

def entries : List Entry := [
  { kind := "M", op := "c17.hist", run := fun
      | [h] => do let ops ← parseOps h; pure (histLine Manticore.Gen.NbtnsLocks.queryCopies false ops)
      | _ => none },
  { kind := "M", op := "c17.histset", run := fun
      | [h] => do let ops ← parseOps h; pure (histLine Manticore.Gen.NbtnsLocks.queryCopies true ops)
      | _ => none },
  { kind := "S", op := "c17.histset", run := fun
      | [h, n] => do let ops ← parseOps h; let k ← natArg n; pure (specLine k ops)
      | _ => none },
  { kind := "S", op := "c17.linz", run := fun
      | [h] => do
        let evs ← (splitOnChar ',' h.toList).mapM parseEv
        pure (if linz evs then "ok lin" else "ok nonlin")
      | _ => none },
  -- the concurrent runs themselves are made by the harness (race-detector child process); the spec of
  -- such a run is constant: every recorded history linearizable, no race report
  { kind := "S", op := "c17.conc", run := fun _ => some "ok" }
]
end Driver.C17
