import Driver.Loop
import Driver.C17

def main : IO Unit := Driver.run (Driver.C17.entries)
