import Driver.Loop
import Driver.C03

def main : IO Unit := Driver.run (Driver.C03.entries)
