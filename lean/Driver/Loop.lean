import Std.Data.HashMap
import Driver.Util
namespace Driver

def mkTable (es : List Entry) : Std.HashMap String Handler :=
  es.foldl (fun m e => m.insert (e.kind ++ " " ++ e.op) e.run) {}

def step (table : Std.HashMap String Handler) (line : String) : String :=
  match (line.trimAscii.toString.splitOn " ").filter (· ≠ "") with
  | k :: op :: args =>
    match table.get? (k ++ " " ++ op) with
    | some h => (h args).getD "bad-op"
    | none => "bad-op"
  | _ => "bad-op"

partial def loop (table : Std.HashMap String Handler) (hin hout : IO.FS.Stream) : IO Unit := do
  let line ← hin.getLine
  if line.isEmpty then return ()
  hout.putStrLn (step table line)
  loop table hin hout

def run (es : List Entry) : IO Unit := do
  let hin ← IO.getStdin
  let hout ← IO.getStdout
  loop (mkTable es) hin hout
  hout.flush

end Driver
