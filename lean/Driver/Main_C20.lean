import Driver.Loop
import Driver.C20

def main : IO Unit := Driver.run (Driver.C20.entries)
