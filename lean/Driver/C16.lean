import Driver.Util
import Manticore.Model.C16
namespace Driver.C16
open Manticore Manticore.C16 Driver

/-- MS-DTYP reading of a binary SID, written directly on numbers (independent of the model):
    `none` when the bytes are not a well-formed revision-1 SID (the property is then silent). -/
def specSid (b : Bytes) : Option String :=
  match b with
  | 1 :: c :: rest =>
    if rest.length < 6 + 4 * c.toNat then none
    else
      let auth := beNat (rest.take 6)
      let subs := (List.range c.toNat).map (fun k => leNat ((rest.drop (6 + 4 * k)).take 4))
      some (sidString auth subs)
  | _ => none

def parseRdns (s : String) : Option (List (Bytes × Bytes)) :=
  if s == "." then some [] else
  (s.splitOn ";").mapM (fun p => match p.splitOn ":" with
    | [t, v] => do pure (← fromHex t, ← fromHex v)
    | _ => none)

def wf (r : Bytes × Bytes) : Bool :=
  !r.1.isEmpty && r.1.all (fun c => !special c) && (r.1 != [68, 67] || r.2.all (fun c => !special c))

def entries : List Entry := [
  { kind := "M", op := "c16.sid", run := fun
      | [h] => do let b ← fromHex h; pure (showOutcomeWith (fun s => toHex s.toUTF8.toList) (parseSID b))
      | _ => none },
  { kind := "S", op := "c16.sid", run := fun
      | [h] => do
        let b ← fromHex h
        pure (match specSid b with | some s => okStr s | none => "*")
      | _ => none },
  { kind := "M", op := "c16.dn", run := fun
      | [h] => do let b ← fromHex h; pure (okHex (domainOfDN b))
      | _ => none },
  -- `S c16.dn <dn> <rdns>`: checks that <dn> is the AD text form of <rdns>, then the dot-join
  { kind := "S", op := "c16.dn", run := fun
      | [h, r] => do
        let b ← fromHex h
        let rdns ← parseRdns r
        if formatDN rdns != b then pure "bad-format"
        else if rdns.all wf then pure (okHex (dotJoin (dcValues rdns))) else pure "*"
      | _ => none }
]
end Driver.C16
