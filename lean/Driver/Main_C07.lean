import Driver.Loop
import Driver.Smb
import Driver.C06
import Driver.C08
import Driver.C09
import Driver.C10
import Driver.C11
import Driver.C12
import Driver.C13
import Driver.C14
import Driver.C15
import Driver.C16
import Driver.C20

def main : IO Unit := Driver.run (Driver.Smb.entries ++ Driver.C06.entries ++ Driver.C08.entries ++ Driver.C09.entries ++ Driver.C10.entries ++ Driver.C11.entries ++ Driver.C12.entries ++ Driver.C13.entries ++ Driver.C14.entries ++ Driver.C15.entries ++ Driver.C16.entries ++ Driver.C20.entries)
