import Driver.Loop
import Driver.C11

def main : IO Unit := Driver.run (Driver.C11.entries)
