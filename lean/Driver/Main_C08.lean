import Driver.Loop
import Driver.C08

def main : IO Unit := Driver.run (Driver.C08.entries)
