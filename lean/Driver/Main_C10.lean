import Driver.Loop
import Driver.C10

def main : IO Unit := Driver.run (Driver.C10.entries)
