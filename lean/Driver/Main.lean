import Std.Data.HashMap
import Driver.Util
import Driver.C16
import Driver.C17
import Driver.C18
open Driver

def allEntries : List Entry := Driver.C16.entries ++ Driver.C17.entries ++ Driver.C18.entries

def table : Std.HashMap String Handler :=
  allEntries.foldl (fun m e => m.insert (e.kind ++ " " ++ e.op) e.run) {}

def step (line : String) : String :=
  match (line.trimAscii.toString.splitOn " ").filter (· ≠ "") with
  | k :: op :: args =>
    match table.get? (k ++ " " ++ op) with
    | some h => (h args).getD "bad-op"
    | none => "bad-op"
  | _ => "bad-op"

partial def loop (hin hout : IO.FS.Stream) : IO Unit := do
  let line ← hin.getLine
  if line.isEmpty then return ()
  hout.putStrLn (step line)
  loop hin hout

def main : IO Unit := do
  let hin ← IO.getStdin
  let hout ← IO.getStdout
  loop hin hout
  hout.flush
