import Std.Data.HashMap
import Driver.Util
import Driver.C01
import Driver.C03
import Driver.C06
import Driver.C11
import Driver.C12
import Driver.C14
import Driver.C15
import Driver.C16
import Driver.C19
import Driver.C20
import Driver.Smb
open Driver

def allEntries : List Entry :=
  Driver.C01.entries
  ++ Driver.C03.entries
  ++ Driver.C06.entries
  ++ Driver.C11.entries
  ++ Driver.C12.entries
  ++ Driver.C14.entries
  ++ Driver.C15.entries
  ++ Driver.C16.entries
  ++ Driver.C19.entries
  ++ Driver.C20.entries
  ++ Driver.Smb.entries

def table : Std.HashMap String Handler :=
  allEntries.foldl (fun m e => m.insert (e.kind ++ " " ++ e.op) e.run) {}

def step (line : String) : String :=
  match (line.trimAscii.toString.splitOn " ").filter (· ≠ "") with
  | k :: op :: args =>
    match table.get? (k ++ " " ++ op) with
    | some h => (h args).getD "bad-op"
    | none => "bad-op"
  | _ => "bad-op"

partial def loop (hin hout : IO.FS.Stream) : IO Unit := do
  let line ← hin.getLine
  if line.isEmpty then return ()
  hout.putStrLn (step line)
  loop hin hout

def main : IO Unit := do
  let hin ← IO.getStdin
  let hout ← IO.getStdout
  loop hin hout
  hout.flush
