/- Parsing and printing of name-table operations for the drivers of C17 and C18 (no regenerated module is imported here,
   so that C18's driver does not depend on C17's extracted lock facts). -/
import Driver.Util
import Manticore.Model.C17
namespace Driver.C17
open Manticore Manticore.C17 Driver


def splitOnChar (c : Char) : List Char → List (List Char)
  | [] => [[]]
  | x :: xs =>
    match splitOnChar c xs with
    | [] => [[]]
    | hd :: tl => if x = c then [] :: hd :: tl else (x :: hd) :: tl

def natOf (l : List Char) : Option Nat := (String.ofList l).toNat?

def typeOf : List Char → Option NameType
  | ['u'] => some .unique
  | ['g'] => some .group
  | _ => none

def boolOf : List Char → Option Bool
  | ['0'] => some false
  | ['1'] => some true
  | _ => none

def parseOp (tok : List Char) : Option Op :=
  match tok with
  | 'R' :: rest =>
    match splitOnChar '.' rest with
    | [n, t, a, p] => do pure (.register (← natOf n) (← typeOf t) (← natOf a) (← boolOf p))
    | _ => none
  | 'Q' :: rest => do pure (.query (← natOf rest))
  | 'L' :: rest =>
    match splitOnChar '.' rest with
    | [n, a] => do pure (.release (← natOf n) (← natOf a))
    | _ => none
  | 'F' :: rest =>
    match splitOnChar '.' rest with
    | [n, a] => do pure (.refresh (← natOf n) (← natOf a))
    | _ => none
  | 'C' :: rest => do pure (.markConflict (← natOf rest))
  | ['X'] => some .clean
  | _ => none

def parseOps (s : String) : Option (List Op) :=
  if s == "-" then some [] else (splitOnChar ',' s.toList).mapM parseOp

def showType : NameType → String
  | .unique => "u"
  | .group => "g"

def showAddrs (l : List Nat) : String :=
  if l.isEmpty then "-" else ".".intercalate (l.map toString)

def showOut : Out → String
  | .ok => "k"
  | .err => "e"
  | .panic => "p"
  | .owners l t => "o" ++ showType t ++ ":" ++ showAddrs l

def parseOut (tok : List Char) : Option Out :=
  match tok with
  | ['k'] => some .ok
  | ['e'] => some .err
  | ['p'] => some .panic
  | 'o' :: t :: ':' :: rest => do
    let ty ← typeOf [t]
    let l ← if rest = ['-'] then some [] else (splitOnChar '.' rest).mapM natOf
    pure (.owners l ty)
  | _ => none

/-- `<op>@<inv>-<res>=<result>` -/
def parseEv (tok : List Char) : Option Ev :=
  match splitOnChar '@' tok with
  | [op, rest] =>
    match splitOnChar '=' rest with
    | [times, out] =>
      match splitOnChar '-' times with
      | [i, r] => do pure ⟨← parseOp op, ← parseOut out, ← natOf i, ← natOf r⟩
      | _ => none
    | _ => none
  | _ => none

/-- run the heap model; collect results (read at return time) and the returned slices -/
def runHist (c : Bool) : HState → List Op → List Out × List (Slice × List IP) × HState
  | s, [] => ([], [], s)
  | s, op :: ops =>
    let (s', o) := hstep c s op
    let (outs, slices, fin) := runHist c s' ops
    match o with
    | .owners sl _ => (viewOut s'.heap o :: outs, (sl, s'.heap.read sl) :: slices, fin)
    | _ => (viewOut s'.heap o :: outs, slices, fin)

def sortOut : Out → Out
  | .owners l t => .owners (l.mergeSort (fun a b => decide (a ≤ b))) t
  | o => o

def histLine (c : Bool) (sorted : Bool) (ops : List Op) : String :=
  let (outs, slices, fin) := runHist c hinit ops
  let outs := if sorted then outs.map sortOut else outs
  let flags := slices.map (fun p => if fin.heap.read p.1 == p.2 then "s" else "c")
  "ok " ++ ",".intercalate (outs.map showOut) ++ "|" ++ "".intercalate flags

def showSpecOut (naddr : Nat) : Spec.Out → String
  | .ok => "k"
  | .err => "e"
  | .owners set t => "o" ++ showType t ++ ":" ++ showAddrs ((List.range naddr).filter set)

def specLine (naddr : Nat) (ops : List Op) : String :=
  let outs := Spec.outputs Spec.init ops
  let flags := outs.filterMap (fun o => match o with | .owners _ _ => some "s" | _ => none)
  "ok " ++ ",".intercalate (outs.map (showSpecOut naddr)) ++ "|" ++ "".intercalate flags

end Driver.C17
