import Driver.Loop
import Driver.Smb
import Driver.SmbDialects

def main : IO Unit := Driver.run (Driver.Smb.entries ++ Driver.SmbDialects.entries)
