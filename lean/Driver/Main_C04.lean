import Driver.Loop
import Driver.Smb

def main : IO Unit := Driver.run (Driver.Smb.entries)
