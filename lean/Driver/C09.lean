import Driver.Util
import Manticore.Model.C09
namespace Driver.C09
open Manticore Manticore.C09 Driver

/-! line syntax of a message: `<hdr> <qd> <an> <ns> <ar>` with
    hdr = `id:flags:qd:an:ns:ar` (decimal), a question = `namehex:type:class`, a record =
    `namehex:type:class:ttl:rdlength:rdatahex`; entries of a section joined by `;`, `.` = empty section -/

def u16 (s : String) : Option UInt16 := do let n ← s.toNat?; if n < 65536 then some (UInt16.ofNat n) else none
def u32 (s : String) : Option UInt32 := do let n ← s.toNat?; if n < 4294967296 then some (UInt32.ofNat n) else none

def parseHdr (s : String) : Option Header :=
  match s.splitOn ":" with
  | [a, b, c, d, e, f] => do
    pure { id := ← u16 a, flags := ← u16 b, qdcount := ← u16 c, ancount := ← u16 d, nscount := ← u16 e, arcount := ← u16 f }
  | _ => none

def parseSection {α} (f : List String → Option α) (s : String) : Option (List α) :=
  if s == "." then some [] else (s.splitOn ";").mapM (fun e => f (e.splitOn ":"))

def parseQ : List String → Option Question
  | [n, t, c] => do pure { name := ← fromHex n, qtype := ← u16 t, qclass := ← u16 c }
  | _ => none

def parseR : List String → Option RR
  | [n, t, c, ttl, rdl, rd] => do
    pure { name := ← fromHex n, rtype := ← u16 t, rclass := ← u16 c, ttl := ← u32 ttl, rdlength := ← u16 rdl, rdata := ← fromHex rd }
  | _ => none

def parseMsg : List String → Option Message
  | [h, q, a, n, r] => do
    pure { hdr := ← parseHdr h, questions := ← parseSection parseQ q, answers := ← parseSection parseR a,
           authority := ← parseSection parseR n, additional := ← parseSection parseR r }
  | _ => none

def showSection {α} (f : α → String) (xs : List α) : String :=
  if xs.isEmpty then "." else ";".intercalate (xs.map f)

def showQ (q : Question) : String := s!"{toHex q.name}:{q.qtype.toNat}:{q.qclass.toNat}"
def showR (r : RR) : String :=
  s!"{toHex r.name}:{r.rtype.toNat}:{r.rclass.toNat}:{r.ttl.toNat}:{r.rdlength.toNat}:{toHex r.rdata}"
def showH (h : Header) : String :=
  s!"{h.id.toNat}:{h.flags.toNat}:{h.qdcount.toNat}:{h.ancount.toNat}:{h.nscount.toNat}:{h.arcount.toNat}"

def showMsg (m : Message) : String :=
  s!"{showH m.hdr} {showSection showQ m.questions} {showSection showR m.answers} {showSection showR m.authority} {showSection showR m.additional}"

/-- Encode, then DecodeMessage on the bytes produced -/
def roundtripM (m : Message) : String :=
  match encodeMessage m with
  | .ok w =>
    match decodeMessage w with
    | .ok m' => s!"ok {toHex w} {showMsg m'}"
    | .err => s!"ok {toHex w} decode-err"
    | .panic => "panic"
  | .err => "err"
  | .panic => "panic"

/-! ### specification side -/

/-- the content a Go message denotes, when every field is representable on the wire -/
structure SpecView where
  msg : Spec.DNS.Message
  namesOk : Bool      -- every name is a valid name
  sizesOk : Bool      -- section sizes and RDATA lengths fit their 16-bit fields

def viewQ (q : Question) : Spec.DNS.Question := { name := nameOfText q.name, qtype := q.qtype, qclass := q.qclass }
def viewR (r : RR) : Spec.DNS.RR :=
  { name := nameOfText r.name, rtype := r.rtype, rclass := r.rclass, ttl := r.ttl, rdata := r.rdata }

def specView (m : Message) : SpecView :=
  let sm : Spec.DNS.Message :=
    { id := m.hdr.id, flags := m.hdr.flags, qd := m.questions.map viewQ,
      an := m.answers.map viewR, ns := m.authority.map viewR, ar := m.additional.map viewR }
  let names := sm.qd.map (·.name) ++ sm.an.map (·.name) ++ sm.ns.map (·.name) ++ sm.ar.map (·.name)
  let rrs := sm.an ++ sm.ns ++ sm.ar
  { msg := sm,
    namesOk := names.all (fun n => decide (ValidName n)),
    sizesOk := rrs.all (fun r => r.rdata.length ≤ 65535) && sm.qd.length ≤ 65535 && sm.an.length ≤ 65535
               && sm.ns.length ≤ 65535 && sm.ar.length ≤ 65535 }

/-- what the property demands of Encode-then-Decode: the uncompressed RFC 1035 serialization, and
    the same content back; a name RFC 1035 cannot represent must be refused -/
def roundtripS (m : Message) : String :=
  let v := specView m
  if !v.namesOk then "err"
  else if !v.sizesOk then "*"
  else s!"ok {toHex (Spec.DNS.plain v.msg)} {showMsg (toModel v.msg)}"

def decmsgS (data : Bytes) : String :=
  match Spec.DNS.parse data with
  | .ok m => if decide (MsgNoDots m) then s!"ok {showMsg (toModel m)}" else "*"
  | .error .pointer => "err"
  | .error .truncated => "err"
  | .error .reserved => "*"
  | .error .tooLong => "*"

def decnameS (data : Bytes) (off : Nat) : String :=
  match Spec.DNS.parseNameChecked data off with
  | .ok (n, next) => if decide (NoDots n) then s!"ok {toHex (text n)} {next}" else "*"
  | .error .pointer => "err"
  | .error .truncated => "err"
  | .error .reserved => "*"
  | .error .tooLong => "*"

def encnameS (s : Bytes) : String :=
  let n := nameOfText s
  if decide (ValidName n) then okHex (Spec.DNS.nameWire n) else "err"

def entries : List Entry := [
  { kind := "M", op := "c09.encname", run := fun
      | [h] => do let s ← fromHex h; pure (showOutcomeWith toHex (encodeName s))
      | _ => none },
  { kind := "S", op := "c09.encname", run := fun
      | [h] => do let s ← fromHex h; pure (encnameS s)
      | _ => none },
  { kind := "M", op := "c09.decname", run := fun
      | [h, o] => do
        let b ← fromHex h; let off ← natArg o
        pure (showOutcomeWith (fun (r : Bytes × Nat) => s!"{toHex r.1} {r.2}") (decodeName b off))
      | _ => none },
  { kind := "S", op := "c09.decname", run := fun
      | [h, o] => do let b ← fromHex h; let off ← natArg o; pure (decnameS b off)
      | _ => none },
  -- allocation count of DecodeDomainName (model only; the bound is theorem name_alloc_bound)
  { kind := "S", op := "c09.namecost", run := fun
      | [h, o] => do
        let b ← fromHex h; let off ← natArg o
        pure (showOutcomeWith (fun (r : Bytes × Nat × Nat) => s!"{r.2.2}") (decodeNameC b off))
      | _ => none },
  { kind := "M", op := "c09.validate", run := fun
      | [h] => do let s ← fromHex h; pure (if validateName s then "ok 1" else "err")
      | _ => none },
  { kind := "M", op := "c09.roundtrip", run := fun args => do let m ← parseMsg args; pure (roundtripM m) },
  { kind := "S", op := "c09.roundtrip", run := fun args => do let m ← parseMsg args; pure (roundtripS m) },
  { kind := "M", op := "c09.decmsg", run := fun
      | [h] => do let b ← fromHex h; pure (showOutcomeWith showMsg (decodeMessage b))
      | _ => none },
  -- further arguments (the message the generator serialized) are for the oracle only
  { kind := "S", op := "c09.decmsg", run := fun
      | h :: _ => do let b ← fromHex h; pure (decmsgS b)
      | _ => none }
]
end Driver.C09
