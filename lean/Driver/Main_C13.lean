import Driver.Loop
import Driver.C13

def main : IO Unit := Driver.run (Driver.C13.entries)
