import Driver.Util
import Manticore.Model.C12
namespace Driver.C12
open Manticore Manticore.C12 Driver

/-! ### argument syntax -/

/-- `in:out;in:out;…` or `.` — true (input, output) pairs of a block function, computed by the Go standard
    library in the harness (crypto/aes, crypto/des, or a toy function) -/
def parseTable (s : String) : Option (List (Bytes × Bytes)) :=
  if s == "." then some [] else
  (s.splitOn ";").mapM (fun p => match p.splitOn ":" with
    | [a, b] => do pure (← fromHex a, ← fromHex b)
    | _ => none)

/-- block function from a table; a missing input yields the `miss` filler (the caller evaluates twice with
    different fillers and reports `miss` when the results differ: nothing is ever defaulted silently) -/
def tableFun (tbl : List (Bytes × Bytes)) (miss : UInt8) (len : Nat) : Bytes → Bytes := fun x =>
  match tbl.lookup x with
  | some y => y
  | none => List.replicate len miss

def tableBlock (n : Nat) (tbl : List (Bytes × Bytes)) (miss : UInt8) : CMAC.Block n → CMAC.Block n := fun x =>
  match tbl.lookup x.toList with
  | some y => if h : y.length = n then ⟨y.toArray, by simpa using h⟩ else Vector.replicate n miss
  | none => Vector.replicate n miss

/-- run `f` with two different fillers for table misses; equal results ⇒ no miss influenced the result -/
def withTable (f : UInt8 → String) : String :=
  let a := f 0x00
  let b := f 0xA5
  if a == b then a else "miss"

def joinTokens (l : List String) : String := if l.isEmpty then "." else ",".intercalate l

/-! ### RC4 -/

def parseRc4Op (t : String) : Option RC4.Op :=
  if t == "R" then some .reset else
  match t.splitOn "/" with
  | [src, dl, rel] => do
    let src ← fromHex src
    let dl ← dl.toNat?
    let rel ← if rel == "x" then some none else (some <$> rel.toInt?)
    pure (.xor ⟨src, dl, rel⟩)
  | _ => none

def parseRc4Ops (s : String) : Option (List RC4.Op) :=
  if s == "." then some [] else (s.splitOn ",").mapM parseRc4Op

def showRc4 (outs : List (Outcome Bytes)) : String :=
  "ok " ++ joinTokens (outs.map fun | .ok b => toHex b | .err => "e" | .panic => "!")

/-- the RC4 clause: the concatenation of what the legal calls return is textbook RC4 of the concatenation of
    their inputs, cut at the call boundaries; an illegal call (dst too short, partial overlap) must panic -/
def specRc4 (key : Bytes) (hk : 0 < key.length) (calls : List RC4.Call) : String :=
  let legal := calls.map fun c => RC4.Spec.legalCall c.src.length c.dstLen c.rel
  let srcs := (calls.zip legal).filterMap fun (c, l) => if l then some c.src else none
  let out := RC4.Spec.rc4 key hk srcs.flatten
  let pieces := RC4.Spec.splitLens (srcs.map List.length) out
  let rec weave : List Bool → List Bytes → List String
    | [], _ => []
    | true :: ls, p :: ps => toHex p :: weave ls ps
    | true :: ls, [] => "?" :: weave ls []
    | false :: ls, ps => "!" :: weave ls ps
  "ok " ++ joinTokens (weave legal pieces)

/-! ### CMAC -/

def parseCmacOp (t : String) : Option CMAC.Op :=
  if t == "R" then some .reset
  else if t.startsWith "W" then CMAC.Op.write <$> fromHex (t.drop 1).toString
  else if t.startsWith "S" then CMAC.Op.sum <$> fromHex (t.drop 1).toString
  else none

def parseCmacOps (s : String) : Option (List CMAC.Op) :=
  if s == "." then some [] else (s.splitOn ",").mapM parseCmacOp

def showList (l : List Bytes) : String := "ok " ++ joinTokens (l.map toHex)

/-! ### GPP -/

def showVerdict : GPP.Spec.Verdict → String
  | .silent => "*"
  | .reject => "err"
  | .accept cps => okHex (Prim.stringOfRunes cps)

/-- valid UTF-8 ⇔ decoding and re-encoding gives the same bytes; then the runes are its scalar values -/
def scalarsOf? (pw : Bytes) : Option (List Nat) :=
  let rs := Prim.runesOfString pw
  if Prim.stringOfRunes rs == pw then some rs else none

def parseNats (s : String) : Option (List Nat) :=
  if s == "." then some [] else (s.splitOn ",").mapM String.toNat?

def showNats (l : List Nat) : String := "ok " ++ joinTokens (l.map toString)

def entries : List Entry := [
  -- RC4: `<key> <ops>`; the whole history of one cipher object
  { kind := "M", op := "c12.rc4", run := fun
      | [k, o] => do
        let key ← fromHex k
        let ops ← parseRc4Ops o
        pure (match RC4.newWithKey key with
          | .ok st => showRc4 (RC4.run st ops)
          | .err => "err"
          | .panic => "panic")
      | _ => none },
  { kind := "S", op := "c12.rc4", run := fun
      | [k, o] => do
        let key ← fromHex k
        let ops ← parseRc4Ops o
        let calls ← ops.mapM fun | .xor c => some c | .reset => none   -- no clause about Reset
        if h : 0 < key.length ∧ key.length ≤ 256 then pure (specRc4 key h.1 calls) else pure "err"
      | _ => none },
  -- CMAC: `<blocksize> <table> <ops>`
  -- (the 4th token names the cipher for the harness; the Lean side only sees the table)
  { kind := "M", op := "c12.cmac", run := fun
      | [n, t, o, _] => do
        let n ← n.toNat?
        let tbl ← parseTable t
        let ops ← parseCmacOps o
        pure (withTable fun miss => showOutcomeWith (fun l => joinTokens (l.map toHex)) (CMAC.newAndRun n (tableBlock n tbl miss) ops))
      | _ => none },
  { kind := "S", op := "c12.cmac", run := fun
      | [n, t, o, _] => do
        let n ← n.toNat?
        let tbl ← parseTable t
        let ops ← parseCmacOps o
        if h : n = 8 ∨ n = 16 then
          pure (withTable fun miss => showList (CMAC.Spec.history (tableBlock n tbl miss) (by omega) ops []))
        else pure "*"
      | _ => none },
  -- PKCS#7
  { kind := "M", op := "c12.pad", run := fun
      | [m, b] => do
        let m ← fromHex m
        let b ← b.toNat?
        if b > 255 then none else pure (showOutcomeWith toHex (PKCS7.pad m (UInt8.ofNat b)))
      | _ => none },
  { kind := "S", op := "c12.pad", run := fun
      | [m, b] => do
        let m ← fromHex m
        let b ← b.toNat?
        if b > 255 then none else
        if b = 0 then pure "*" else pure (okHex (PKCS7.Spec.pad m b))
      | _ => none },
  { kind := "M", op := "c12.unpad", run := fun
      | [m] => do let m ← fromHex m; pure (showOutcomeWith toHex (PKCS7.unpad m))
      | _ => none },
  { kind := "S", op := "c12.unpad", run := fun
      | [m] => do
        let m ← fromHex m
        pure (match PKCS7.Spec.unpad m with | some r => okHex r | none => "err")
      | _ => none },
  -- unpad(pad(m, b)) = m
  { kind := "M", op := "c12.padrt", run := fun
      | [m, b] => do
        let m ← fromHex m
        let b ← b.toNat?
        if b > 255 then none else
        pure (showOutcomeWith toHex (PKCS7.pad m (UInt8.ofNat b) >>= PKCS7.unpad))
      | _ => none },
  { kind := "S", op := "c12.padrt", run := fun
      | [m, b] => do
        let m ← fromHex m
        let b ← b.toNat?
        if b > 255 then none else
        if b = 0 then pure "*" else pure (okHex m)
      | _ => none },
  -- GPP: `<password bytes> <E table>`; the spec line adds the AES key the table was computed with
  { kind := "M", op := "c12.gpp.enc", run := fun
      | [p, t] => do
        let p ← fromHex p
        let tbl ← parseTable t
        pure (withTable fun miss => showOutcomeWith toHex (GPP.encrypt (tableFun tbl miss 16) p))
      | _ => none },
  { kind := "S", op := "c12.gpp.enc", run := fun
      | [p, t, k] => do
        let p ← fromHex p
        let tbl ← parseTable t
        let k ← fromHex k
        if k != GPP.Spec.msKey then pure "bad-format" else
        match scalarsOf? p with
        | none => pure "*"
        | some cps => pure (withTable fun miss => okHex (GPP.Spec.encrypt (tableFun tbl miss 16) cps))
      | _ => none },
  { kind := "M", op := "c12.gpp.decb", run := fun
      | [c, t] => do
        let c ← fromHex c
        let tbl ← parseTable t
        pure (withTable fun miss => showOutcomeWith toHex (GPP.decryptBytes (tableFun tbl miss 16) c))
      | _ => none },
  { kind := "S", op := "c12.gpp.decb", run := fun
      | [c, t, k] => do
        let c ← fromHex c
        let tbl ← parseTable t
        let k ← fromHex k
        if k != GPP.Spec.msKey then pure "bad-format" else
        pure (withTable fun miss => showVerdict (GPP.Spec.decryptBytes (tableFun tbl miss 16) c))
      | _ => none },
  { kind := "M", op := "c12.gpp.dec64", run := fun
      | [s, t] => do
        let s ← fromHex s
        let tbl ← parseTable t
        pure (withTable fun miss => showOutcomeWith toHex (GPP.decryptBase64 (tableFun tbl miss 16) s))
      | _ => none },
  { kind := "S", op := "c12.gpp.dec64", run := fun
      | [s, t, k] => do
        let s ← fromHex s
        let tbl ← parseTable t
        let k ← fromHex k
        if k != GPP.Spec.msKey then pure "bad-format" else
        pure (withTable fun miss => showVerdict (GPP.Spec.decrypt (tableFun tbl miss 16) s))
      | _ => none },
  -- decrypt(encrypt(p)) = p: `<password bytes> <E table> <D table>`
  { kind := "M", op := "c12.gpp.rt", run := fun
      | [p, te, td] => do
        let p ← fromHex p
        let te ← parseTable te
        let td ← parseTable td
        pure (withTable fun miss => showOutcomeWith toHex
          (GPP.encrypt (tableFun te miss 16) p >>= GPP.decryptBase64 (tableFun td miss 16)))
      | _ => none },
  { kind := "S", op := "c12.gpp.rt", run := fun
      | [p, _, _] => do
        let p ← fromHex p
        match scalarsOf? p with
        | none => pure "*"
        | some _ => pure (okHex p)
      | _ => none },
  -- standard-library primitives against Go itself (the "implementation" of these ops is the Go stdlib)
  { kind := "M", op := "c12.prim.b64d", run := fun
      | [s] => do
        let s ← fromHex s
        pure (match Prim.b64Decode s with | some b => okHex b | none => "err")
      | _ => none },
  { kind := "M", op := "c12.prim.b64e", run := fun
      | [s] => do let s ← fromHex s; pure (okHex (Prim.b64Encode s))
      | _ => none },
  { kind := "M", op := "c12.prim.runes", run := fun
      | [s] => do let s ← fromHex s; pure (showNats (Prim.runesOfString s))
      | _ => none },
  { kind := "M", op := "c12.prim.string", run := fun
      | [r] => do let r ← parseNats r; pure (okHex (Prim.stringOfRunes r))
      | _ => none },
  { kind := "M", op := "c12.prim.u16e", run := fun
      | [r] => do let r ← parseNats r; pure (showNats ((Prim.utf16Encode r).map UInt16.toNat))
      | _ => none },
  { kind := "M", op := "c12.prim.u16d", run := fun
      | [r] => do
        let r ← parseNats r
        if r.any (· ≥ 65536) then none else pure (showNats (Prim.utf16Decode (r.map UInt16.ofNat)))
      | _ => none },
  -- repo helpers used by GPP (tie only)
  { kind := "M", op := "c12.utf16le.enc", run := fun
      | [s] => do let s ← fromHex s; pure (okHex (GPP.encodeUTF16LE s))
      | _ => none },
  { kind := "M", op := "c12.utf16le.dec", run := fun
      | [s] => do let s ← fromHex s; pure (showOutcomeWith toHex (GPP.decodeUTF16LE s))
      | _ => none }
]
end Driver.C12
