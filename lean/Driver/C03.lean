import Driver.Util
import Manticore.Model.C03
namespace Driver.C03
open Manticore Manticore.C03 Driver
open Manticore.Gen.SmbDispatch (Kind)

/-! ### parsing of line-protocol tokens -/

def u8Arg (s : String) : Option UInt8 := do let n ← s.toNat?; if n < 256 then pure (UInt8.ofNat n) else none
def u16Arg (s : String) : Option UInt16 := do let n ← s.toNat?; if n < 65536 then pure (UInt16.ofNat n) else none
def u32Arg (s : String) : Option UInt32 := do let n ← s.toNat?; if n < 4294967296 then pure (UInt32.ofNat n) else none

def arr8Of : Bytes → Option Arr8
  | [a, b, c, d, e, f, g, h] => some ⟨a, b, c, d, e, f, g, h⟩
  | _ => none

/-- `r:<16 hex>` | `s:<16 hex>` | `c:<key>:<cid>:<seq>` -/
def secArg (s : String) : Option SecFeat :=
  match s.splitOn ":" with
  | ["r", h] => do pure (.reserved (← arr8Of (← fromHex h)))
  | ["s", h] => do pure (.signature (← arr8Of (← fromHex h)))
  | ["c", k, c, q] => do pure (.connectionless (← u32Arg k) (← u16Arg c) (← u16Arg q))
  | _ => none

def showSec : SecFeat → String
  | .reserved a => "r:" ++ toHex a.toList
  | .signature a => "s:" ++ toHex a.toList
  | .connectionless k c q => s!"c:{k.toNat}:{c.toNat}:{q.toNat}"

/-- the 12 header tokens: protocol(hex) command status flags flags2 pidHigh sec reserved tid pidLow uid mid -/
def headerArgs : List String → Option (Header × List String)
  | p :: cmd :: st :: fl :: fl2 :: ph :: sec :: rs :: tid :: pl :: uid :: mid :: rest => do
    let pb ← fromHex p
    let protocol ← match pb with | [a, b, c, d] => some (Arr4.mk a b c d) | _ => none
    pure ({ protocol, command := ← u8Arg cmd, status := ← u32Arg st, flags := ← u16Arg fl, flags2 := ← u16Arg fl2,
            pidHigh := ← u16Arg ph, sec := ← secArg sec, reserved := ← u16Arg rs, tid := ← u16Arg tid,
            pidLow := ← u16Arg pl, uid := ← u16Arg uid, mid := ← u16Arg mid }, rest)
  | _ => none

def showHeader (h : Header) : String :=
  " ".intercalate [toHex h.protocol.toList, toString h.command.toNat, toString h.status.toNat, toString h.flags.toNat,
    toString h.flags2.toNat, toString h.pidHigh.toNat, showSec h.sec, toString h.reserved.toNat, toString h.tid.toNat,
    toString h.pidLow.toNat, toString h.uid.toNat, toString h.mid.toNat]

def showOut {α} (f : α → String) : Outcome α → String
  | .ok a => f a
  | .err => "err"
  | .panic => "panic"

/-! ### specification-side readers (written on numbers, independent of the model's readers) -/

def takeAt (b : Bytes) (off w : Nat) : Bytes := (b.drop off).take w

/-- MS-CIFS 2.2.3.1 reading of the first 32 bytes: every field is the little-endian number in its slot -/
def specDecodeHeader (b : Bytes) : Option Header :=
  if b.length < 32 then none else
  let v (f : Spec.Field) : Nat :=
    match Spec.headerTable.find? (fun s => s.field == f) with
    | some s => leNat (takeAt b s.offset s.width)
    | none => 0
  let sf := takeAt b 14 8
  match takeAt b 0 4, arr8Of sf with
  | [a, b', c, d], some sec =>
    some { protocol := ⟨a, b', c, d⟩, command := UInt8.ofNat (v .command), status := UInt32.ofNat (v .status),
           flags := UInt16.ofNat (v .flags), flags2 := UInt16.ofNat (v .flags2), pidHigh := UInt16.ofNat (v .pidHigh),
           sec := .reserved sec, reserved := UInt16.ofNat (v .reserved), tid := UInt16.ofNat (v .tid),
           pidLow := UInt16.ofNat (v .pidLow), uid := UInt16.ofNat (v .uid), mid := UInt16.ofNat (v .mid) }
  | _, _ => none

/-- the header a reader of the wire must obtain from `h`: same fields, the security bytes as 8 raw bytes -/
def specSeenHeader (h : Header) : Option Header := do
  let sec ← arr8Of (natLe 8 (Spec.secNat h.sec))
  pure { h with sec := .reserved sec }

/-- MS-CIFS 2.2.3.2: `WordCount, Words[2·WordCount]`; returns the words' bytes and what follows -/
def specParams (b : Bytes) : Option (Nat × Bytes × Bytes) :=
  match b with
  | [] => none
  | wc :: rest => if rest.length < 2 * wc.toNat then none else some (wc.toNat, rest.take (2 * wc.toNat), rest.drop (2 * wc.toNat))

/-- MS-CIFS 2.2.3.3: `ByteCount (LE), Bytes[ByteCount]` -/
def specData (b : Bytes) : Option (Nat × Bytes × Bytes) :=
  if b.length < 2 then none else
  let bc := leNat (b.take 2)
  let rest := b.drop 2
  if rest.length < bc then none else some (bc, rest.take bc, rest.drop bc)

def kindLine (k : Kind) : String := toHex k.goName ++ " " ++ toString k.ownCode.toNat ++ " " ++ (if k.isAndX then "1" else "0")

/-! ### scripts -/

inductive POp | word (w : UInt16) | stream (s : Bytes)
def pOpArg (s : String) : Option POp :=
  match s.splitOn ":" with
  | ["w", n] => do pure (.word (← u16Arg n))
  | ["s", h] => do pure (.stream (← fromHex h))
  | _ => none

inductive DOp | add (b : Bytes) | set (b : Bytes)
def dOpArg (s : String) : Option DOp :=
  match s.splitOn ":" with
  | ["a", h] => do pure (.add (← fromHex h))
  | ["S", h] => do pure (.set (← fromHex h))
  | _ => none

def andxArg (s : String) : Option (Option AndX) :=
  if s == "-" then some none else
  match s.splitOn ":" with
  | [c, r, o] => do pure (some ⟨← u8Arg c, ← u8Arg r, ← u16Arg o⟩)
  | _ => none

def boolArg (s : String) : Option Bool := if s == "1" then some true else if s == "0" then some false else none

def outcomeArg (s : String) : Option (Outcome Unit) :=
  if s == "ok" then some (.ok ()) else if s == "err" then some .err else if s == "panic" then some .panic else none

/-- `<12 header tokens> <kind> <code> <isAndX> <andx> <rawP> <rawD> <k>` (the kind name is for the implementation only) -/
def msgArgs (args : List String) : Option (Msg × Cmd × Nat) := do
  let (h, rest) ← headerArgs args
  match rest with
  | [_, code, ax, andx, rp, rd, k] =>
    let c : Cmd := { code := ← u8Arg code, isAndX := ← boolArg ax, andx := ← andxArg andx, params := none, data := none,
                     rawP := ← fromHex rp, rawD := ← fromHex rd }
    pure (addCommand ⟨h, none⟩ c, c, ← natArg k)
  | _ => none

/-- the results of `k` successive `Marshal()` calls on one message -/
def marshalTimes : Nat → Msg → List (Outcome Bytes)
  | 0, _ => []
  | k + 1, m => let r := msgMarshal m; r.2 :: marshalTimes k r.1

def showResults (rs : List (Outcome Bytes)) : String :=
  if rs.any (·.isPanic) then "panic" else "ok " ++ " ".intercalate (rs.map (showOut toHex))

def entries : List Entry := [
  -- Header.Marshal
  { kind := "M", op := "c03.hdr.marshal", run := fun a => do
      let (h, rest) ← headerArgs a
      if !rest.isEmpty then none
      pure (showOutcomeWith toHex (marshalHeader h)) },
  { kind := "S", op := "c03.hdr.marshal", run := fun a => do
      let (h, rest) ← headerArgs a
      if !rest.isEmpty then none
      if h.flags > 0xFF then pure "*" else pure (okHex (Spec.encodeHeader h)) },
  -- Header.Unmarshal
  { kind := "M", op := "c03.hdr.unmarshal", run := fun
      | [x] => do
        let b ← fromHex x
        pure (showOutcomeWith (fun (r : Header × Nat) => showHeader r.1 ++ " " ++ toString r.2) (unmarshalHeader b))
      | _ => none },
  { kind := "S", op := "c03.hdr.unmarshal", run := fun
      | [x] => do
        let b ← fromHex x
        pure (match specDecodeHeader b with | some h => "ok " ++ showHeader h ++ " 32" | none => "err")
      | _ => none },
  -- Marshal then Unmarshal
  { kind := "M", op := "c03.hdr.roundtrip", run := fun a => do
      let (h, rest) ← headerArgs a
      if !rest.isEmpty then none
      pure (showOutcomeWith (fun (r : Header × Nat) => showHeader r.1 ++ " " ++ toString r.2)
        (marshalHeader h >>= unmarshalHeader)) },
  { kind := "S", op := "c03.hdr.roundtrip", run := fun a => do
      let (h, rest) ← headerArgs a
      if !rest.isEmpty then none
      if h.flags > 0xFF then pure "*" else
      match specSeenHeader h with
      | some h' => pure ("ok " ++ showHeader h' ++ " 32")
      | none => none },
  -- GetPID / SetPID
  { kind := "M", op := "c03.pid", run := fun
      | [hi, lo, pid] => do
        let h : Header := { Header.new with pidHigh := ← u16Arg hi, pidLow := ← u16Arg lo }
        let h' := setPID h (← u32Arg pid)
        pure s!"ok {(getPID h).toNat} {h'.pidHigh.toNat} {h'.pidLow.toNat} {(getPID h').toNat}"
      | _ => none },
  { kind := "S", op := "c03.pid", run := fun
      | [hi, lo, pid] => do
        let hi ← natArg hi; let lo ← natArg lo; let pid ← natArg pid
        pure s!"ok {hi * 65536 + lo} {pid / 65536} {pid % 65536} {pid}"
      | _ => none },
  -- Parameters: a script of AddWord / AddWordsFromBytesStream on NewParameters(), then WordCount, GetBytesStream, Marshal
  { kind := "M", op := "c03.params", run := fun a => do
      let ops ← a.mapM pOpArg
      let p := ops.foldl (fun p o => match o with | .word w => p.addWord w | .stream s => p.addStream s) Params.new
      pure s!"ok {p.wordCount.toNat} {toHex p.bytesStream} {showOut toHex p.marshal}" },
  { kind := "S", op := "c03.params", run := fun a => do
      let ops ← a.mapM pOpArg
      if ops.any (fun o => match o with | .word _ => true | .stream _ => false) then pure "*" else
      let bytes := ops.flatMap (fun o => match o with | .word _ => [] | .stream s => Spec.padEven s)
      if bytes.length / 2 > 255 then pure "*" else
      pure s!"ok {bytes.length / 2} {toHex bytes} {toHex (UInt8.ofNat (bytes.length / 2) :: bytes)}" },
  { kind := "M", op := "c03.params.unmarshal", run := fun
      | [x] => do
        let b ← fromHex x
        pure (showOutcomeWith (fun (r : Params × Nat) => s!"{r.1.wordCount.toNat} {toHex r.1.bytesStream} {r.2}") (Params.unmarshal b))
      | _ => none },
  { kind := "S", op := "c03.params.unmarshal", run := fun
      | [x] => do
        let b ← fromHex x
        pure (match specParams b with | some (wc, ws, _) => s!"ok {wc} {toHex ws} {1 + 2 * wc}" | none => "err")
      | _ => none },
  -- Data: a script of Add / SetData on NewData(), then ByteCount and Marshal
  { kind := "M", op := "c03.data", run := fun a => do
      let ops ← a.mapM dOpArg
      let d := ops.foldl (fun d o => match o with | .add b => d.add b | .set b => d.setData b) DataBlk.new
      pure s!"ok {d.byteCount.toNat} {showOut toHex d.marshal}" },
  { kind := "S", op := "c03.data", run := fun a => do
      let ops ← a.mapM dOpArg
      let bytes := ops.foldl (fun acc o => match o with | .add b => acc ++ b | .set b => b) []
      if bytes.length > 65535 then pure "*" else
      pure s!"ok {bytes.length} {toHex (natLe 2 bytes.length ++ bytes)}" },
  { kind := "M", op := "c03.data.unmarshal", run := fun
      | [x] => do
        let b ← fromHex x
        pure (showOutcomeWith (fun (r : DataBlk × Nat) => s!"{r.1.byteCount.toNat} {toHex r.1.bytes} {r.2}") (DataBlk.unmarshal b))
      | _ => none },
  { kind := "S", op := "c03.data.unmarshal", run := fun
      | [x] => do
        let b ← fromHex x
        pure (match specData b with | some (bc, bs, _) => s!"ok {bc} {toHex bs} {2 + bc}" | none => "err")
      | _ => none },
  -- the factories
  { kind := "M", op := "c03.dispatch", run := fun
      | [r, c] => do pure (showOutcomeWith kindLine (factory (← boolArg r) (← u8Arg c)))
      | _ => none },
  { kind := "S", op := "c03.dispatch", run := fun
      | [r, c] => do
        let reply ← boolArg r
        let code ← u8Arg c
        if ((caseTable reply).map (·.1)).contains code then
          let name := match Spec.typeName reply code with | some n => toHex n | none => "?"
          pure s!"ok {name} {code.toNat} {if Spec.andxCodes.contains code then 1 else 0}"
        else pure "err"
      | _ => none },
  -- Message.Marshal, k times on one message
  { kind := "M", op := "c03.msg.marshal", run := fun a => do
      let (m, _, k) ← msgArgs a
      pure (showResults (marshalTimes k m)) },
  { kind := "S", op := "c03.msg.marshal", run := fun a => do
      let (m, c, k) ← msgArgs a
      if m.header.flags > 0xFF || c.wordsEmitted > 255 || c.rawD.length > 65535 then pure "*" else
      pure ("ok " ++ " ".intercalate (List.replicate k (toHex (Spec.frame m.header c)))) },
  -- a decoded message marshalled k times: repeatability does not care where the message came from
  { kind := "S", op := "c03.msg.remarshal", run := fun
      | [_, _] => some "ok same"
      | _ => none },
  -- Message.Unmarshal
  { kind := "M", op := "c03.msg.unmarshal", run := fun
      -- an optional third token describes what was done to the Message object beforehand: the
      -- decoding of a byte string does not depend on it
      | x :: sp :: _ => do
        let b ← fromHex x
        let specific ← outcomeArg sp
        pure (showOutcomeWith (fun (d : Decoded) =>
          s!"{showHeader d.header} {kindLine d.kind} {d.params.wordCount.toNat} {toHex d.params.bytesStream} {d.data.byteCount.toNat} {toHex d.data.bytes}")
          (msgUnmarshal b specific))
      | _ => none },
  { kind := "S", op := "c03.msg.unmarshal", run := fun
      -- an optional third token describes what was done to the Message object beforehand: the
      -- decoding of a byte string does not depend on it
      | x :: sp :: _ => do
        let b ← fromHex x
        let specific ← outcomeArg sp
        pure (match specDecodeHeader b with
          | none => "err"
          | some h =>
            let reply := h.flags.toNat / 128 % 2 == 1
            if !((caseTable reply).map (·.1)).contains h.command then "err" else
            match specParams (b.drop 32) with
            | none => "err"
            | some (wc, ws, rest) =>
              match specData rest with
              | none => "err"
              | some (bc, bs, _) =>
                match specific with
                | .ok _ =>
                  let name := match Spec.typeName reply h.command with | some n => toHex n | none => "?"
                  s!"ok {showHeader h} {name} {h.command.toNat} {if Spec.andxCodes.contains h.command then 1 else 0} {wc} {toHex ws} {bc} {toHex bs}"
                | _ => "*")
      | _ => none }
]
end Driver.C03
