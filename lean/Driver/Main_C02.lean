import Driver.Loop
import Driver.C02

def main : IO Unit := Driver.run (Driver.C02.entries)
