import Driver.Util
import Manticore.Model.SmbCmd
import Manticore.Model.SmbPinned
import Manticore.Model.SmbCodecs
import Manticore.Gen.SmbCommands
import Manticore.Spec.Cifs
namespace Driver.Smb
open Manticore Manticore.SmbIR Driver

/-! env token:  `.`  or  `F=n:12;G=b:0a0b;H=l:1,2;I=t:1,2|0a,-;J=L:1|0a/2|0b`  -/

def parseNums (s : String) : Option (List Nat) :=
  if s == "." then some [] else (s.splitOn ",").mapM (·.toNat?)

def parseByteLists (s : String) : Option (List Bytes) :=
  if s == "." then some [] else (s.splitOn ",").mapM fromHex

def parseTup (s : String) : Option Tup :=
  match s.splitOn "|" with
  | [a, b] => do pure (← parseNums a, ← parseByteLists b)
  | _ => none

def parseVal (s : String) : Option Val :=
  match s.splitOn ":" with
  | ["n", x] => x.toNat?.map .n
  | ["b", x] => (fromHex x).map .b
  | ["l", x] => (parseNums x).map .ns
  | ["t", x] => (parseTup x).map .t
  | ["L", x] => if x == "." then some (.ts []) else ((x.splitOn "/").mapM parseTup).map .ts
  | _ => none

def parseEnv (s : String) : Option Env :=
  if s == "." then some [] else
  (s.splitOn ";").mapM (fun p => match p.splitOn "=" with
    | [f, v] => do pure (f, ← parseVal v)
    | _ => none)

def showNums (xs : List Nat) : String := if xs.isEmpty then "." else ",".intercalate (xs.map toString)
def showByteLists (xs : List Bytes) : String := if xs.isEmpty then "." else ",".intercalate (xs.map toHex)
def showTup (t : Tup) : String := showNums t.1 ++ "|" ++ showByteLists t.2

def showVal : Val → String
  | .n x => "n:" ++ toString x
  | .b bs => "b:" ++ toHex bs
  | .ns xs => "l:" ++ showNums xs
  | .t v => "t:" ++ showTup v
  | .ts vs => "L:" ++ (if vs.isEmpty then "." else "/".intercalate (vs.map showTup))

/-- fields in declaration order, then the AndX block if the command holds one -/
def showEnv (c : Cmd) (env : Env) : String :=
  let parts := (c.fields.map (·.1) ++ [andxField]).filterMap (fun f => (env.get f).map (fun v => f ++ "=" ++ showVal v))
  if parts.isEmpty then "." else ";".intercalate parts

def findCmd (name : String) : Option Cmd := Manticore.Gen.SmbCommands.commands.find? (·.name == name)

def C := Manticore.SmbCodecs.std

/-- first field (declaration order; for an AndX command the AndX block comes last) on which two environments differ -/
def firstDiff (c : Cmd) (a b : Env) : Option String :=
  c.roundTripFields.find? (fun f => a.get f != b.get f)

/-- canonical result of the round-trip op, shared by model and harness:
    `ok eq|diff:<field> same|reenc-diff` -/
def rtLine (c : Cmd) (env0 env : Env) : String :=
  match encodeCmd C c env, envAfterMarshal C c env with
  | .ok bs, .ok env' =>
    (match decodeCmd C c env0 bs with
      | .ok d =>
        let fd := match firstDiff c env' d with | some f => "diff:" ++ f | none => "eq"
        let re := match encodeCmd C c d with
          | .ok bs2 => if bs2 == bs then "same" else "reenc-diff"
          | .err => "reenc-err"
          | .panic => "reenc-panic"
        "ok " ++ fd ++ " " ++ re
      | .err => "err-decode"
      | .panic => "panic")
  | .panic, _ => "panic"
  | _, _ => "err"

-- `slotRange` (byte range of a fixed-width field's slot): `Manticore.SmbIR.slotRange` in Model/SmbCmd.lean

def entries : List Entry := [
  -- marshal a command built from the given field values
  { kind := "M", op := "smb.enc", run := fun
      | [name, e] => do
        let c ← findCmd name
        let env ← parseEnv e
        pure (showOutcomeWith toHex (encodeCmd C c env))
      | _ => none },
  -- unmarshal bytes into a fresh command whose initial field values are env0
  { kind := "M", op := "smb.dec", run := fun
      | [name, e0, h] => do
        let c ← findCmd name
        let env0 ← parseEnv e0
        let b ← fromHex h
        pure (showOutcomeWith (showEnv c) (decodeCmd C c env0 b))
      | _ => none },
  -- marshal, unmarshal into a fresh command, compare fields, marshal again, compare bytes
  { kind := "M", op := "smb.rt", run := fun
      | [name, e0, e] => do
        let c ← findCmd name
        pure (rtLine c (← parseEnv e0) (← parseEnv e))
      | _ => none },
  -- C04 specification: a consistent assignment survives the round trip and re-encodes identically
  { kind := "S", op := "smb.rt", run := fun
      | [name, _, e] => do
        let c ← findCmd name
        let env ← parseEnv e
        let key := knownRt c
        pure ((if consistentPinned C c env then "ok eq same" else "*") ++ (if key.isEmpty then "" else " #" ++ key))
      | _ => none },
  -- C05 specification: the bytes MS-CIFS prescribes for these field values
  { kind := "S", op := "smb.enc", run := fun
      | [name, e] => do
        let c ← findCmd name
        let env ← parseEnv e
        let env' := match envAfterMarshal C c env with | .ok x => x | _ => env   -- formats/lengths set by Marshal
        let key := knownEnc c env'
        pure ((match Manticore.Spec.Cifs.encode c env' with
          | some bs => okHex bs
          | none => match Manticore.Spec.Cifs.encodeLists c env' with   -- list fields: concatenation of the elements
            | some bs => okHex bs
            | none => match Manticore.Spec.Cifs.encodeOptional c env' with   -- one optional trailing parameter field
              | some bs => okHex bs
              | none => "*") ++ (if key.isEmpty then "" else " #" ++ key))
      | _ => none },
  -- C05, header: the 32 bytes MS-CIFS 2.2.3.1 prescribes (Protocol 0-3, Command 4, Status 5-8, Flags 9, Flags2 10-11,
  -- PIDHigh 12-13, SecurityFeatures 14-21, Reserved 22-23, TID 24-25, PIDLow 26-27, UID 28-29, MID 30-31; little-endian)
  { kind := "S", op := "smb.hdr", run := fun
      | [proto, cmd, status, flags, flags2, pidHigh, sec, reserved, tid, pidLow, uid, mid] => do
        let p ← fromHex proto
        let sf ← fromHex sec
        if p.length != 4 || sf.length != 8 then none else
        let n (s : String) : Option Nat := s.toNat?
        pure (okHex (p ++ natLe 1 (← n cmd) ++ natLe 4 (← n status) ++ natLe 1 (← n flags) ++ natLe 2 (← n flags2) ++
          natLe 2 (← n pidHigh) ++ sf ++ natLe 2 (← n reserved) ++ natLe 2 (← n tid) ++ natLe 2 (← n pidLow) ++
          natLe 2 (← n uid) ++ natLe 2 (← n mid)))
      | _ => none },
  -- C07 specification: any bytes whatsoever give a value or an error
  { kind := "S", op := "smb.dec", run := fun
      | [_, _, _] => some "*"
      | _ => none },
  -- C04 slot locality: complementing one fixed-width field changes exactly the bytes of its slot
  { kind := "M", op := "smb.slot", run := fun
      | [name, e, f] => do
        let c ← findCmd name
        let env ← parseEnv e
        let w ← (c.typeOf f).bind typeWidth
        let x ← match env.get f with | some (.n x) => some x | _ => none
        let env2 := env.set f (.n (256 ^ w - 1 - x))
        pure (match encodeCmd C c env, encodeCmd C c env2 with
          | .ok a, .ok b =>
            if a.length != b.length then "ok length-changed" else
            let idx := (List.range a.length).filter (fun i => a[i]? != b[i]?)
            (match idx.head?, idx.getLast? with
              | some lo, some hi => s!"ok {lo} {hi + 1} {idx.length}"
              | _, _ => "ok none")
          | .panic, _ => "panic" | _, .panic => "panic"
          | _, _ => "err")
      | _ => none },
  { kind := "S", op := "smb.slot", run := fun
      | [name, e, f] => do
        let c ← findCmd name
        let _ ← parseEnv e
        pure (match slotRange c f with
          | some (lo, hi) => s!"ok {lo} {hi} {hi - lo}"
          | none => "*")
      | _ => none }
]
end Driver.Smb
