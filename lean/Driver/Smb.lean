import Driver.Util
import Manticore.Model.SmbCmd
import Manticore.Model.SmbCodecs
import Manticore.Gen.SmbCommands
namespace Driver.Smb
open Manticore Manticore.SmbIR Driver

/-! env token:  `.`  or  `F=n:12;G=b:0a0b;H=l:1,2;I=t:1,2|0a,-;J=L:1|0a/2|0b`  -/

def parseNums (s : String) : Option (List Nat) :=
  if s == "." then some [] else (s.splitOn ",").mapM (·.toNat?)

def parseByteLists (s : String) : Option (List Bytes) :=
  if s == "." then some [] else (s.splitOn ",").mapM fromHex

def parseTup (s : String) : Option Tup :=
  match s.splitOn "|" with
  | [a, b] => do pure (← parseNums a, ← parseByteLists b)
  | _ => none

def parseVal (s : String) : Option Val :=
  match s.splitOn ":" with
  | ["n", x] => x.toNat?.map .n
  | ["b", x] => (fromHex x).map .b
  | ["l", x] => (parseNums x).map .ns
  | ["t", x] => (parseTup x).map .t
  | ["L", x] => if x == "." then some (.ts []) else ((x.splitOn "/").mapM parseTup).map .ts
  | _ => none

def parseEnv (s : String) : Option Env :=
  if s == "." then some [] else
  (s.splitOn ";").mapM (fun p => match p.splitOn "=" with
    | [f, v] => do pure (f, ← parseVal v)
    | _ => none)

def showNums (xs : List Nat) : String := if xs.isEmpty then "." else ",".intercalate (xs.map toString)
def showByteLists (xs : List Bytes) : String := if xs.isEmpty then "." else ",".intercalate (xs.map toHex)
def showTup (t : Tup) : String := showNums t.1 ++ "|" ++ showByteLists t.2

def showVal : Val → String
  | .n x => "n:" ++ toString x
  | .b bs => "b:" ++ toHex bs
  | .ns xs => "l:" ++ showNums xs
  | .t v => "t:" ++ showTup v
  | .ts vs => "L:" ++ (if vs.isEmpty then "." else "/".intercalate (vs.map showTup))

/-- fields in declaration order -/
def showEnv (c : Cmd) (env : Env) : String :=
  let parts := c.fields.filterMap (fun (f, _) => (env.get f).map (fun v => f ++ "=" ++ showVal v))
  if parts.isEmpty then "." else ";".intercalate parts

def findCmd (name : String) : Option Cmd := Manticore.Gen.SmbCommands.commands.find? (·.name == name)

def C := Manticore.SmbCodecs.std

def entries : List Entry := [
  -- marshal a command built from the given field values
  { kind := "M", op := "smb.enc", run := fun
      | [name, e] => do
        let c ← findCmd name
        let env ← parseEnv e
        pure (showOutcomeWith toHex (encodeCmd C c env))
      | _ => none },
  -- unmarshal bytes into a fresh command whose initial field values are env0
  { kind := "M", op := "smb.dec", run := fun
      | [name, e0, h] => do
        let c ← findCmd name
        let env0 ← parseEnv e0
        let b ← fromHex h
        pure (showOutcomeWith (showEnv c) (decodeCmd C c env0 b))
      | _ => none },
  -- marshal, then unmarshal into a fresh command: prints the fields after Marshal and the decoded fields
  { kind := "M", op := "smb.rt", run := fun
      | [name, e0, e] => do
        let c ← findCmd name
        let env0 ← parseEnv e0
        let env ← parseEnv e
        pure (match encodeCmd C c env, envAfterMarshal C c env with
          | .ok bs, .ok env' =>
            (match decodeCmd C c env0 bs with
              | .ok d => "ok " ++ showEnv c env' ++ " " ++ showEnv c d
              | .err => "err-decode"
              | .panic => "panic")
          | .panic, _ => "panic"
          | _, _ => "err")
      | _ => none }
]
end Driver.Smb
