import Driver.Util
import Manticore.Model.C06
namespace Driver.C06
open Manticore Manticore.C06 Driver

/-! Line protocol of C06.  For every wire type `<t>`:

    M c06.<t>.enc <value…>            model of Marshal: `ok <bytes> <receiver after the call…>`
    M c06.<t>.dec <bytes>             model of Unmarshal: `ok <fields…> <n>`
    S c06.<t>.dec <bytes>             `*` (the property is silent on arbitrary bytes; no panic allowed)
    M c06.<t>.rt  <value…> <suffix>   model: Marshal, then Unmarshal(bytes ++ suffix): `ok <fields…> <n> <len bytes>`
    S c06.<t>.rt  <value…> <suffix>   the property: inside the domain `ok <value (normalised)…> <size> <size>`
-/

/-- tail-recursive hex reader (payloads reach 128 KiB) -/
def nib (c : UInt8) : Option UInt8 :=
  if 48 ≤ c ∧ c ≤ 57 then some (c - 48)
  else if 97 ≤ c ∧ c ≤ 102 then some (c - 87)
  else if 65 ≤ c ∧ c ≤ 70 then some (c - 55)
  else none

def hexGo (u : ByteArray) : Nat → Bytes → Option Bytes
  | 0, acc => some acc
  | i + 1, acc =>
    match nib u[2 * i]!, nib u[2 * i + 1]! with
    | some h, some l => hexGo u i ((h * 16 + l) :: acc)
    | _, _ => none

def hexFast (s : String) : Option Bytes :=
  if s == "-" then some []
  else
    let u := s.toUTF8
    if u.size % 2 != 0 then none else hexGo u (u.size / 2) []

def u8 (s : String) : Option UInt8 := do let n ← s.toNat?; if n < 256 then pure (UInt8.ofNat n) else none
def u16 (s : String) : Option UInt16 := do let n ← s.toNat?; if n < 65536 then pure (UInt16.ofNat n) else none
def u32 (s : String) : Option UInt32 := do let n ← s.toNat?; if n < 4294967296 then pure (UInt32.ofNat n) else none
def words (s : String) : Option (List UInt16) :=
  if s == "." then some [] else (s.splitOn ",").mapM u16
def showWords (ws : List UInt16) : String :=
  if ws.isEmpty then "." else ",".intercalate (ws.map (fun w => toString w.toNat))

structure Codec (V : Type) where
  name : String
  nargs : Nat
  parse : List String → Option V
  render : V → String
  marshal : V → Outcome (Bytes × V)
  decode : Bytes → Outcome (V × Nat)
  /-- the domain on which the property speaks (for the types whose Marshal normalises: before normalisation) -/
  dom : V → Bool
  norm : V → V
  size : V → Nat
  /-- key of a known finding this (value, suffix) lies in -/
  bad : V → Bytes → Option String := fun _ _ => none

def splitLast (l : List String) : Option (List String × String) :=
  match l.reverse with
  | x :: r => some (r.reverse, x)
  | [] => none

def entriesOf {V : Type} (c : Codec V) : List Entry := [
  { kind := "M", op := "c06." ++ c.name ++ ".enc", run := fun a =>
      if a.length != c.nargs then none else do
        let v ← c.parse a
        pure (showOutcomeWith (fun (r : Bytes × V) => toHex r.1 ++ " " ++ c.render r.2) (c.marshal v)) },
  { kind := "M", op := "c06." ++ c.name ++ ".dec", run := fun
      | [h] => do
        let b ← hexFast h
        pure (showOutcomeWith (fun (r : V × Nat) => c.render r.1 ++ " " ++ toString r.2) (c.decode b))
      | _ => none },
  { kind := "S", op := "c06." ++ c.name ++ ".dec", run := fun
      | [h] => do let _ ← hexFast h; pure "*"
      | _ => none },
  { kind := "M", op := "c06." ++ c.name ++ ".rt", run := fun a => do
      let (va, sh) ← splitLast a
      if va.length != c.nargs then none else
      let v ← c.parse va
      let suffix ← hexFast sh
      let r : Outcome ((V × Nat) × Nat) :=
        match c.marshal v with
        | .ok (bs, _) =>
          match c.decode (bs ++ suffix) with
          | .ok x => .ok (x, bs.length)
          | .err => .err
          | .panic => .panic
        | .err => .err
        | .panic => .panic
      pure (showOutcomeWith (fun (r : (V × Nat) × Nat) => c.render r.1.1 ++ " " ++ toString r.1.2 ++ " " ++ toString r.2) r) },
  { kind := "S", op := "c06." ++ c.name ++ ".rt", run := fun a => do
      let (va, sh) ← splitLast a
      if va.length != c.nargs then none else
      let v ← c.parse va
      let suffix ← hexFast sh
      if c.dom v then
        let line := "ok " ++ c.render (c.norm v) ++ " " ++ toString (c.size v) ++ " " ++ toString (c.size v)
        pure (match c.bad v suffix with | some k => line ++ " #" ++ k | none => line)
      else pure "*" }
]

/-! ### the fourteen types -/

def parseStr : List String → Option SmbString.V
  | [f, l, b] => do pure ⟨← u8 f, ← u16 l, ← hexFast b⟩
  | _ => none
def showStr (s : SmbString.V) : String :=
  toString s.format.toNat ++ " " ++ toString s.length.toNat ++ " " ++ toHex s.buffer

def strCodec : Codec SmbString.V :=
  { name := "str", nargs := 3, parse := parseStr, render := showStr,
    marshal := SmbString.marshal, decode := SmbString.decode,
    dom := fun v => decide (SmbString.Dom v), norm := id, size := SmbString.wireSize }

def oemCodec : Codec OemString.V :=
  { name := "oem", nargs := 3, parse := parseStr, render := showStr,
    marshal := OemString.marshal, decode := OemString.decode,
    dom := fun v => decide (OemString.Dom v), norm := id, size := OemString.wireSize }

def parseDate : List String → Option SmbDate.V
  | [y, m, d] => do pure ⟨← u16 y, ← u8 m, ← u8 d⟩
  | _ => none
def showDate (d : SmbDate.V) : String :=
  toString d.year.toNat ++ " " ++ toString d.month.toNat ++ " " ++ toString d.day.toNat

def dateCodec : Codec SmbDate.V :=
  { name := "date", nargs := 3, parse := parseDate, render := showDate,
    marshal := fun v => (SmbDate.encode v).map' (·, v), decode := SmbDate.decode,
    dom := fun v => decide (SmbDate.Dom v), norm := id, size := SmbDate.wireSize }

def parseTime : List String → Option FileTime.V
  | [l, h] => do pure ⟨← u32 l, ← u32 h⟩
  | _ => none
def showTime (t : FileTime.V) : String := toString t.low.toNat ++ " " ++ toString t.high.toNat

def timeCodec : Codec FileTime.V :=
  { name := "ftime", nargs := 2, parse := parseTime, render := showTime,
    marshal := fun v => (FileTime.encode v).map' (·, v), decode := FileTime.decode,
    dom := fun v => decide (FileTime.Dom v), norm := id, size := FileTime.wireSize }

def r32Codec : Codec Range32.V :=
  { name := "r32", nargs := 3,
    parse := fun
      | [p, o, l] => do pure ⟨← u16 p, ← u32 o, ← u32 l⟩
      | _ => none,
    render := fun r => toString r.pid.toNat ++ " " ++ toString r.byteOffset.toNat ++ " " ++ toString r.lengthInBytes.toNat,
    marshal := fun v => (Range32.encode v).map' (·, v), decode := Range32.decode,
    dom := fun v => decide (Range32.Dom v), norm := id, size := Range32.wireSize }

def r64Codec : Codec Range64.V :=
  { name := "r64", nargs := 6,
    parse := fun
      | [p, q, a, b, c, d] => do pure ⟨← u16 p, ← u16 q, ← u32 a, ← u32 b, ← u32 c, ← u32 d⟩
      | _ => none,
    render := fun r => " ".intercalate ([r.pid.toNat, r.pad.toNat, r.byteOffsetHigh.toNat, r.byteOffsetLow.toNat,
      r.lengthInBytesHigh.toNat, r.lengthInBytesLow.toNat].map toString),
    marshal := fun v => (Range64.encode v).map' (·, v), decode := Range64.decode,
    dom := fun v => decide (Range64.Dom v), norm := id, size := Range64.wireSize }

def pipeCodec : Codec PipeStatus.V :=
  { name := "pipe", nargs := 2,
    parse := fun
      | [i, f] => do pure ⟨← u8 i, ← u8 f⟩
      | _ => none,
    render := fun s => toString s.icount.toNat ++ " " ++ toString s.flags.toNat,
    marshal := fun v => (PipeStatus.encode v).map' (·, v), decode := PipeStatus.decode,
    dom := fun v => decide (PipeStatus.Dom v), norm := id, size := PipeStatus.wireSize,
    bad := fun _ suffix => if decide (PipeStatus.KnownBad_nmpipe_trailing suffix) then some "nmpipe_trailing" else none }

def parseKey : List String → Option ResumeKey.V
  | [f, l, b, r, ss, cs] => do pure ⟨← parseStr [f, l, b], ← u8 r, ← hexFast ss, ← hexFast cs⟩
  | _ => none
def showKey (k : ResumeKey.V) : String :=
  showStr k.str ++ " " ++ toString k.reserved.toNat ++ " " ++ toHex k.serverState ++ " " ++ toHex k.clientState

def keyCodec : Codec ResumeKey.V :=
  { name := "rkey", nargs := 6, parse := parseKey, render := showKey,
    marshal := ResumeKey.marshal, decode := ResumeKey.decode,
    dom := fun v => decide (ResumeKey.WF v), norm := ResumeKey.norm, size := ResumeKey.wireSize }

def dirCodec : Codec DirInfo.V :=
  { name := "dir", nargs := 16,
    parse := fun
      | [f, l, b, r, ss, cs, fa, tl, th, y, m, d, sz, nf, nl, nb] => do
        pure ⟨← parseKey [f, l, b, r, ss, cs], ← u8 fa, ← parseTime [tl, th], ← parseDate [y, m, d], ← u32 sz, ← parseStr [nf, nl, nb]⟩
      | _ => none,
    render := fun v => showKey v.resumeKey ++ " " ++ toString v.fileAttributes.toNat ++ " " ++ showTime v.lastWriteTime ++ " " ++
      showDate v.lastWriteDate ++ " " ++ toString v.fileSize.toNat ++ " " ++ showStr v.fileName,
    marshal := DirInfo.marshal, decode := DirInfo.decode,
    dom := fun v => decide (DirInfo.WF v), norm := DirInfo.norm, size := DirInfo.wireSize }

def attrCodec : Codec FileAttributes.V :=
  { name := "attr", nargs := 1,
    parse := fun
      | [a] => do pure ⟨← u16 a⟩
      | _ => none,
    render := fun a => toString a.attributes.toNat,
    marshal := fun v => (FileAttributes.encode v).map' (·, v), decode := FileAttributes.decode,
    dom := fun v => decide (FileAttributes.Dom v), norm := id, size := FileAttributes.wireSize }

def andxCodec : Codec AndX.V :=
  { name := "andx", nargs := 3,
    parse := fun
      | [c, r, o] => do pure ⟨← u8 c, ← u8 r, ← u16 o⟩
      | _ => none,
    render := fun a => toString a.command.toNat ++ " " ++ toString a.reserved.toNat ++ " " ++ toString a.offset.toNat,
    marshal := fun v => (AndX.encode v).map' (·, v), decode := AndX.decode,
    dom := fun v => decide (AndX.Dom v), norm := id, size := AndX.wireSize }

def paramsCodec : Codec Parameters.V :=
  { name := "params", nargs := 2,
    parse := fun
      | [c, w] => do pure ⟨← u8 c, ← words w⟩
      | _ => none,
    render := fun p => toString p.wordCount.toNat ++ " " ++ showWords p.words,
    marshal := fun v => (Parameters.encode v).map' (·, v), decode := Parameters.decode,
    dom := fun v => decide (Parameters.Dom v), norm := id, size := Parameters.wireSize }

def dataCodec : Codec Data.V :=
  { name := "data", nargs := 2,
    parse := fun
      | [c, b] => do pure ⟨← u16 c, ← hexFast b⟩
      | _ => none,
    render := fun d => toString d.byteCount.toNat ++ " " ++ toHex d.bytes,
    marshal := fun v => (Data.encode v).map' (·, v), decode := Data.decode,
    dom := fun v => decide (Data.Dom v), norm := id, size := Data.wireSize }

def verCodec : Codec Version.V :=
  { name := "ver", nargs := 5,
    parse := fun
      | [a, b, c, r, n] => do pure ⟨← u8 a, ← u8 b, ← u16 c, ← hexFast r, ← u8 n⟩
      | _ => none,
    render := fun v => toString v.major.toNat ++ " " ++ toString v.minor.toNat ++ " " ++ toString v.build.toNat ++ " " ++
      toHex v.reserved ++ " " ++ toString v.ntlmRevision.toNat,
    marshal := fun v => (Version.encode v).map' (·, v), decode := Version.decode,
    dom := fun v => decide (Version.Dom v), norm := id, size := Version.wireSize }

/-- exhaustive word ops: `pack (unpack w)` for SMB_DATE and the pipe status word -/
def wordEntries : List Entry := [
  { kind := "M", op := "c06.date.word", run := fun
      | [w] => do let w ← u16 w; pure ("ok " ++ showDate (SmbDate.unpack w) ++ " " ++ toString (SmbDate.pack (SmbDate.unpack w)).toNat)
      | _ => none },
  { kind := "S", op := "c06.date.word", run := fun
      | [w] => do
        let n ← w.toNat?
        if n < 65536 then pure ("ok " ++ toString (1980 + n / 512) ++ " " ++ toString (n / 32 % 16) ++ " " ++ toString (n % 32) ++ " " ++ toString n) else none
      | _ => none }
]

def entries : List Entry :=
  entriesOf strCodec ++ entriesOf oemCodec ++ entriesOf dateCodec ++ entriesOf timeCodec ++
  entriesOf r32Codec ++ entriesOf r64Codec ++ entriesOf pipeCodec ++ entriesOf keyCodec ++
  entriesOf dirCodec ++ entriesOf attrCodec ++ entriesOf andxCodec ++ entriesOf paramsCodec ++
  entriesOf dataCodec ++ entriesOf verCodec ++ wordEntries

end Driver.C06
