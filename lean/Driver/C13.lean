import Driver.Util
import Manticore.Model.C13
namespace Driver.C13
open Manticore Manticore.C13 Driver

/-! Line protocol of C13.  Byte strings (also texts) are hex tokens, numbers decimal.
    `M` ops run the model of the Go code, `S` ops the RFC 4122 / MS-DTYP reading of the same input. -/

def sp (xs : List String) : String := " ".intercalate xs
def okL (xs : List String) : String := "ok " ++ sp xs
def n2s (n : Nat) : String := toString n

def u8 (s : String) : Option UInt8 := do let n ← s.toNat?; if n < 256 then some (UInt8.ofNat n) else none
def u16 (s : String) : Option UInt16 := do let n ← s.toNat?; if n < 2^16 then some (UInt16.ofNat n) else none
def u32 (s : String) : Option UInt32 := do let n ← s.toNat?; if n < 2^32 then some (UInt32.ofNat n) else none
def u64 (s : String) : Option UInt64 := do let n ← s.toNat?; if n < 2^64 then some (UInt64.ofNat n) else none

def data15 (s : String) : Option Data15 := do let b ← fromHex s; Data15.ofList? b

/-- only ASCII text is in the model's domain (Unicode case/space tables are not modelled) -/
def asciiHex (s : String) : Option Bytes := do
  let b ← fromHex s
  if b.all (· < 128) then some b else none

def outc {α} (f : α → List String) : Outcome α → String
  | .ok a => okL (f a)
  | .err => "err"
  | .panic => "panic"

/-! ### model side -/

def showUUID (u : UUID) : List String := [n2s u.version.toNat, n2s u.variant.toNat, toHex u.data.toList]
def nodeOf1 (v : V1) : Bytes := [v.n0, v.n1, v.n2, v.n3, v.n4, v.n5]
def nodeOf2 (v : V2) : Bytes := [v.n0, v.n1, v.n2, v.n3, v.n4, v.n5]
def showV1 (v : V1) : List String := [n2s v.variant.toNat, n2s v.time.toNat, n2s v.clockSeq.toNat, toHex (nodeOf1 v)]
/-- without the clock sequence (observed by its own op, because of finding `clockseq12`) -/
def showV1' (v : V1) : List String := [n2s v.variant.toNat, n2s v.time.toNat, toHex (nodeOf1 v)]
def showV2 (v : V2) : List String :=
  [n2s v.variant.toNat, n2s v.localDomainNumber.toNat, n2s v.time.toNat, n2s v.clock.toNat, n2s v.localDomain.toNat, toHex (nodeOf2 v)]
def showV8 (v : V8) : List String := [n2s v.variant.toNat, toHex v.data.toList]
def showG (g : GUID) : List String := [n2s g.A.toNat, n2s g.B.toNat, n2s g.C.toNat, n2s g.D.toNat, n2s g.E.toNat]

def mkV1 (va ti cs nd : String) : Option V1 := do
  let n ← fromHex nd
  match n with
  | [a, b, c, d, e, f] => pure ⟨← u8 va, ← u64 ti, ← u16 cs, a, b, c, d, e, f⟩
  | _ => none

def mkV2 (va ldn ti cl ld nd : String) : Option V2 := do
  let n ← fromHex nd
  match n with
  | [a, b, c, d, e, f] => pure ⟨← u8 va, ← u32 ldn, ← u64 ti, ← u8 cl, ← u8 ld, a, b, c, d, e, f⟩
  | _ => none

def mkG (a b c d e : String) : Option GUID := do pure ⟨← u32 a, ← u16 b, ← u16 c, ← u16 d, ← u64 e⟩

def fmtOf : String → Option Fmt
  | "N" => some .N | "D" => some .D | "B" => some .B | "P" => some .P | "X" => some .X | _ => none

def mEntries : List Entry := [
  { kind := "M", op := "c13.uuid.unmarshal", run := fun
      | [h] => do
        let b ← fromHex h
        pure (outc (fun u => showUUID u ++ [toHex (marshal u), toHex (uuidString u)]) (unmarshal b))
      | _ => none },
  { kind := "M", op := "c13.uuid.marshal", run := fun
      | [ve, va, d] => do
        let u : UUID := ⟨← u8 ve, ← u8 va, ← data15 d⟩
        let m := marshal u
        pure (outc (fun u' => toHex m :: showUUID u') (unmarshal m))
      | _ => none },
  { kind := "M", op := "c13.uuid.parse", run := fun
      | [t] => do
        let s ← asciiHex t
        pure (outc (fun u => showUUID u ++ [toHex (uuidString u)]) (uuidFromString s))
      | _ => none },
  { kind := "M", op := "c13.v1.unmarshal", run := fun
      | [h] => do
        let b ← fromHex h
        pure (outc (fun v => showV1' v ++ [toHex (v1Marshal v), toHex (v1String v)]) (v1Unmarshal b))
      | _ => none },
  { kind := "M", op := "c13.v1.clockseq", run := fun
      | [h] => do
        let b ← fromHex h
        pure (outc (fun v => [n2s v.clockSeq.toNat]) (v1FromBytes b))
      | _ => none },
  { kind := "M", op := "c13.v1.marshal", run := fun
      | [va, ti, cs, nd] => do
        let v ← mkV1 va ti cs nd
        let m := v1Marshal v
        pure (outc (fun v' => toHex m :: showV1 v') (v1Unmarshal m))
      | _ => none },
  { kind := "M", op := "c13.v1.parse", run := fun
      | [t] => do
        let s ← asciiHex t
        pure (outc (fun v => showV1' v ++ [toHex (v1String v)]) (v1FromString s))
      | _ => none },
  { kind := "M", op := "c13.v2.unmarshal", run := fun
      | [h] => do
        let b ← fromHex h
        pure (outc (fun v => showV2 v ++ [toHex (v2Marshal v), toHex (v2String v)]) (v2Unmarshal b))
      | _ => none },
  { kind := "M", op := "c13.v2.marshal", run := fun
      | [va, ldn, ti, cl, ld, nd] => do
        let v ← mkV2 va ldn ti cl ld nd
        let m := v2Marshal v
        pure (outc (fun v' => toHex m :: showV2 v') (v2Unmarshal m))
      | _ => none },
  { kind := "M", op := "c13.v2.parse", run := fun
      | [t] => do
        let s ← asciiHex t
        pure (outc (fun v => showV2 v ++ [toHex (v2String v)]) (v2FromString s))
      | _ => none },
  { kind := "M", op := "c13.v8.unmarshal", run := fun
      | [h] => do
        let b ← fromHex h
        pure (outc (fun v => showV8 v ++ [toHex (v8Marshal v), toHex (v8String v)]) (v8Unmarshal b))
      | _ => none },
  { kind := "M", op := "c13.v8.marshal", run := fun
      | [va, d] => do
        let v : V8 := ⟨← u8 va, ← data15 d⟩
        let m := v8Marshal v
        pure (outc (fun v' => toHex m :: showV8 v') (v8Unmarshal m))
      | _ => none },
  { kind := "M", op := "c13.v8.parse", run := fun
      | [t] => do
        let s ← asciiHex t
        pure (outc (fun v => showV8 v ++ [toHex (v8String v)]) (v8FromString s))
      | _ => none },
  { kind := "M", op := "c13.guid.fromraw", run := fun
      | [h] => do
        let b ← fromHex h
        pure (outc (fun g => showG g ++ [toHex (toBytes g)]) (fromRawBytes b))
      | _ => none },
  { kind := "M", op := "c13.guid.tobytes", run := fun
      | [a, b, c, d, e] => do
        let g ← mkG a b c d e
        let m := toBytes g
        pure (outc (fun g' => toHex m :: showG g') (fromRawBytes m))
      | _ => none },
  { kind := "M", op := "c13.guid.format", run := fun
      | [a, b, c, d, e] => do
        let g ← mkG a b c d e
        pure (okL ([Fmt.N, .D, .B, .P, .X].map (fun F => toHex (format F g))))
      | _ => none },
  -- `c13.guid.parse <N|D|B|P|X> <text>`: FromFormat<F>, then the fields and ToFormat<F> of the result
  { kind := "M", op := "c13.guid.parse", run := fun
      | [f, t] => do
        let F ← fmtOf f
        let s ← asciiHex t
        pure (outc (fun g => showG g ++ [toHex (format F g)]) (parse F s))
      | _ => none },
  { kind := "M", op := "c13.guid.fromstring", run := fun
      | [t] => do
        let s ← asciiHex t
        pure (outc showG (fromString s))
      | _ => none }
]

/-! ### specification side -/

/-- `xxxxxxxx-xxxx-xxxx-xxxx-xxxxxxxxxxxx` of 16 bytes -/
def canonText (b : Bytes) : Bytes :=
  let h := hexOfBytes b
  h.take 8 ++ [dash] ++ (h.drop 8).take 4 ++ [dash] ++ (h.drop 12).take 4 ++ [dash] ++ (h.drop 16).take 4 ++ [dash] ++ h.drop 20

/-- the 16 bytes denoted by a text in the canonical form, either letter case; `none` otherwise -/
def canonBytes (s : Bytes) : Option Bytes :=
  match parsePat patD (toLower s) with
  | some [a, b, c, d, e] => some (natBe 4 a ++ natBe 2 b ++ natBe 2 c ++ natBe 2 d ++ natBe 6 e)
  | _ => none

def specUUID (b : Bytes) : List String :=
  let (ve, va, d) := specSplit b
  [n2s ve, n2s va, toHex d]

open RFC4122 in
def specV1 (b : Bytes) : List String :=
  let n := number b
  [n2s (clockSeqHiAndReserved n / 16), n2s (timestamp n), toHex (natBe 6 (node n))]

open RFC4122 in
/-- DCE 1.1 security version: `time_low` holds the local identifier, `clock_seq_low` the domain; the
    library keeps four clock bits beside its variant nibble -/
def specV2 (b : Bytes) : List String :=
  let n := number b
  [n2s (clockSeqHiAndReserved n / 16), n2s (timeLow n),
   n2s ((timeHiAndVersion n % 2 ^ 12) * 2 ^ 48 + timeMid n * 2 ^ 32), n2s (clockSeqHiAndReserved n % 16),
   n2s (clockSeqLow n), toHex (natBe 6 (node n))]

def specV8 (b : Bytes) : List String :=
  let (_, va, d) := specSplit b
  [n2s va, toHex d]

def specG (m : MSDTYP.Guid) : List String :=
  [n2s m.data1, n2s m.data2, n2s m.data3, n2s (beNat (m.data4.take 2)), n2s (beNat (m.data4.drop 2))]

/-- binary ops: short input must be refused, exactly 16 bytes is the property's domain, longer is outside it -/
def onBytes (h : String) (ver : Option Nat) (f : Bytes → List String) : Option String := do
  let b ← fromHex h
  if b.length < 16 then pure "err"
  else if b.length > 16 then pure "*"
  else match ver with
    | some v => if RFC4122.version (RFC4122.number b) != v then pure "err" else pure (okL (f b ++ [toHex b, toHex (canonText b)]))
    | none => pure (okL (f b ++ [toHex b, toHex (canonText b)]))

def onText (t : String) (ver : Option Nat) (f : Bytes → List String) : Option String := do
  let s ← asciiHex t
  match canonBytes s with
  | none => pure "err"
  | some b =>
    match ver with
    | some v => if RFC4122.version (RFC4122.number b) != v then pure "err" else pure (okL (f b ++ [toHex (toLower s)]))
    | none => pure (okL (f b ++ [toHex (toLower s)]))

def sEntries : List Entry := [
  { kind := "S", op := "c13.uuid.unmarshal", run := fun
      | [h] => onBytes h none specUUID
      | _ => none },
  { kind := "S", op := "c13.uuid.marshal", run := fun
      | [ve, va, d] => do
        let ve ← u8 ve; let va ← u8 va; let dd ← data15 d
        if ve.toNat < 16 && va.toNat < 16 then
          pure (okL [toHex (specJoin ve.toNat va.toNat dd.toList), n2s ve.toNat, n2s va.toNat, toHex dd.toList])
        else pure "*"
      | _ => none },
  { kind := "S", op := "c13.uuid.parse", run := fun
      | [t] => onText t none specUUID
      | _ => none },
  { kind := "S", op := "c13.v1.unmarshal", run := fun
      | [h] => onBytes h (some 1) specV1
      | _ => none },
  { kind := "S", op := "c13.v1.clockseq", run := fun
      | [h] => do
        let b ← fromHex h
        if b.length != 16 then pure "*"
        else
          let n := RFC4122.number b
          if RFC4122.version n != 1 then pure "*"
          else
            let cs := RFC4122.clockSeq n
            pure (okL [n2s cs] ++ (if KnownBad_clockseq12 cs then " #clockseq12" else ""))
      | _ => none },
  -- `c13.v1.marshal variant time clockSeq node`: RFC 4122 layout of the fields, and the fields read back
  { kind := "S", op := "c13.v1.marshal", run := fun
      | [va, ti, cs, nd] => do
        let v ← mkV1 va ti cs nd
        let va := v.variant.toNat; let ti := v.time.toNat; let cs := v.clockSeq.toNat
        if va < 16 && ti < 2 ^ 60 && cs < 2 ^ 14 then
          if KnownBad_clockseq12 cs then
            -- a 14-bit clock sequence needs bits 5..4 of octet 8: only meaningful when the caller left them free
            if va % 4 != 0 then pure "*"
            else
              let n := RFC4122.encodeV1 va ti cs (beNat (nodeOf1 v))
              pure (okL [toHex (natBe 16 n), n2s va, n2s ti, n2s cs, toHex (nodeOf1 v)] ++ " #clockseq12")
          else
            let n := RFC4122.encodeV1 va ti cs (beNat (nodeOf1 v))
            pure (okL [toHex (natBe 16 n), n2s va, n2s ti, n2s cs, toHex (nodeOf1 v)])
        else pure "*"
      | _ => none },
  { kind := "S", op := "c13.v1.parse", run := fun
      | [t] => onText t (some 1) specV1
      | _ => none },
  { kind := "S", op := "c13.v2.unmarshal", run := fun
      | [h] => onBytes h (some 2) specV2
      | _ => none },
  { kind := "S", op := "c13.v2.marshal", run := fun
      | [va, ldn, ti, cl, ld, nd] => do
        let v ← mkV2 va ldn ti cl ld nd
        let va := v.variant.toNat; let ti := v.time.toNat; let cl := v.clock.toNat
        if va < 16 && ti < 2 ^ 60 && ti % 2 ^ 32 == 0 && cl < 16 then
          let n := v.localDomainNumber.toNat * 2 ^ 96 + (ti / 2 ^ 32 % 2 ^ 16) * 2 ^ 80 +
            (2 * 2 ^ 12 + ti / 2 ^ 48) * 2 ^ 64 + (va * 16 + cl) * 2 ^ 56 + v.localDomain.toNat * 2 ^ 48 + beNat (nodeOf2 v)
          pure (okL (toHex (natBe 16 n) :: showV2 v))
        else pure "*"
      | _ => none },
  { kind := "S", op := "c13.v2.parse", run := fun
      | [t] => onText t (some 2) specV2
      | _ => none },
  { kind := "S", op := "c13.v8.unmarshal", run := fun
      | [h] => onBytes h (some 8) specV8
      | _ => none },
  { kind := "S", op := "c13.v8.marshal", run := fun
      | [va, d] => do
        let va ← u8 va; let dd ← data15 d
        if va.toNat < 16 then
          pure (okL [toHex (specJoin 8 va.toNat dd.toList), n2s va.toNat, toHex dd.toList])
        else pure "*"
      | _ => none },
  { kind := "S", op := "c13.v8.parse", run := fun
      | [t] => onText t (some 8) specV8
      | _ => none },
  { kind := "S", op := "c13.guid.fromraw", run := fun
      | [h] => do
        let b ← fromHex h
        if b.length != 16 then pure "*"
        else pure (okL (specG (MSDTYP.ofPacket b) ++ [toHex b]))
      | _ => none },
  { kind := "S", op := "c13.guid.tobytes", run := fun
      | [a, b, c, d, e] => do
        let g ← mkG a b c d e
        if g.E.toNat < 2 ^ 48 then pure (okL (toHex (MSDTYP.packet (toSpec g)) :: showG g)) else pure "*"
      | _ => none },
  { kind := "S", op := "c13.guid.format", run := fun
      | [a, b, c, d, e] => do
        let g ← mkG a b c d e
        if g.E.toNat < 2 ^ 48 then
          pure (okL ([Fmt.N, .D, .B, .P, .X].map (fun F => toHex (MSDTYP.text F (toSpec g)))))
        else pure "*"
      | _ => none },
  { kind := "S", op := "c13.guid.parse", run := fun
      | [f, t] => do
        let F ← fmtOf f
        let s ← asciiHex t
        match specParse F s with
        | some m => pure (okL (specG m ++ [toHex (toLower (trimSpace s))]))
        | none => pure "err"
      | _ => none },
  { kind := "S", op := "c13.guid.fromstring", run := fun
      | [t] => do
        let s ← asciiHex t
        match [Fmt.N, .D, .B, .P, .X].filterMap (fun F => specParse F s) with
        | m :: _ => pure (okL (specG m))
        | [] => pure "err"
      | _ => none }
]

def entries : List Entry := mEntries ++ sEntries
end Driver.C13
