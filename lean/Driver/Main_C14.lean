import Driver.Loop
import Driver.C14

def main : IO Unit := Driver.run (Driver.C14.entries)
