/-
  The Dialects list of NEGOTIATE as a value of its own (C04).
  `M smb.dialects <names>`  encode with the model of `Dialects.Marshal`, decode with the model of `Unmarshal`
  `S smb.dialects <names>`  what C04 asks: the bytes are one `02 name 00` per name and decode back to the same names
                             (names without a NUL byte; the property is silent on the others)
-/
import Driver.Util
import Manticore.Model.SmbCodecs
namespace Driver.SmbDialects
open Manticore Manticore.SmbCodecs Driver

def parseNames (s : String) : Option (List Bytes) :=
  if s == "." then some [] else (s.splitOn ",").mapM fromHex

def showNames (xs : List Bytes) : String := if xs.isEmpty then "." else ",".intercalate (xs.map toHex)

def entries : List Entry := [
  { kind := "M", op := "smb.dialects", run := fun
      | [ns] => do
        let names ← parseNames ns
        let b := dialectsEnc names
        pure (match dialectsDec b with
          | .ok (back, n) => s!"ok {toHex b} {n} {showNames back}"
          | .err => s!"ok {toHex b} decode-err"
          | .panic => "panic")
      | _ => none },
  { kind := "S", op := "smb.dialects", run := fun
      | [ns] => do
        let names ← parseNames ns
        if names.all (fun n => n.all (· != 0)) then
          let b := names.flatMap (fun n => 2 :: n ++ [0])
          pure s!"ok {toHex b} {b.length} {showNames names}"
        else pure "*"
      | _ => none }
]
end Driver.SmbDialects
