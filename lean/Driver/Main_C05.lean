import Driver.Loop
import Driver.Smb
import Driver.SmbDialects
import Driver.SmbHdrSf

def main : IO Unit := Driver.run (Driver.Smb.entries ++ Driver.SmbDialects.entries ++ Driver.SmbHdrSf.entries)
