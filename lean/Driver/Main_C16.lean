import Driver.Loop
import Driver.C16

def main : IO Unit := Driver.run (Driver.C16.entries)
