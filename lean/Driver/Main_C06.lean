import Driver.Loop
import Driver.C06

def main : IO Unit := Driver.run (Driver.C06.entries)
