import Driver.Util
import Driver.C06
import Manticore.Model.C11
namespace Driver.C11
open Manticore Manticore.C11 Driver

/-! Line protocol of C11.

    M c11.send <payload>                       model of Send: `ok <bytes written> <n>` | `err`
    S c11.send <payload>                       RFC 1002 frame if the payload fits 17 bits, else `err`
    M c11.recv <stream> <segmentation>         model receiver loop on the delivered bytes: `ok <messages>`
                                               (the segmentation is the scripted peer's business; the model
                                               does not look at it — ReadFull contract)
    S c11.recv <stream> <segmentation> <payloads> <cut>
                                               checks stream = first <cut> bytes of the RFC frames of <payloads>;
                                               expects exactly the payloads whose frames arrived completely
    M/S c11.e2e <payloads> <relay seed>        Send each payload, relay, Receive until the end:
                                               `ok <messages received> <indices refused>`
-/

def msgList (s : String) : Option (List Bytes) :=
  if s == "." then some [] else (s.splitOn ",").mapM Driver.C06.hexFast

def showMsgs (ms : List Bytes) : String :=
  if ms.isEmpty then "." else ",".intercalate (ms.map toHex)

def showIdx (is : List Nat) : String :=
  if is.isEmpty then "." else ",".intercalate (is.map toString)

/-- payloads whose RFC frames lie completely inside the first `cut` bytes -/
def wholeWithin : List Bytes → Nat → List Bytes
  | [], _ => []
  | p :: ps, cut => if 4 + p.length ≤ cut then p :: wholeWithin ps (cut - (4 + p.length)) else []

def refusedIdx (ps : List Bytes) (accept : Bytes → Bool) : List Nat :=
  ((List.range ps.length).zip ps).filterMap (fun (i, p) => if accept p then none else some i)

def entries : List Entry := [
  { kind := "M", op := "c11.send", run := fun
      | [h] => do
        let p ← Driver.C06.hexFast h
        pure (showOutcomeWith (fun (b : Bytes) => toHex b ++ " " ++ toString b.length) (send p))
      | _ => none },
  { kind := "S", op := "c11.send", run := fun
      | [h] => do
        let p ← Driver.C06.hexFast h
        if decide (Spec.Framable p) then pure ("ok " ++ toHex (Spec.frame p) ++ " " ++ toString (4 + p.length))
        else pure "err"
      | _ => none },
  -- c11.sendlen <n> <fill>: a payload of n octets of one value (lengths whose hex form would not fit a line)
  { kind := "M", op := "c11.sendlen", run := fun
      | [n, f] => do
        let p : Bytes := List.replicate (← n.toNat?) (UInt8.ofNat (← f.toNat?))
        pure (showOutcomeWith (fun (b : Bytes) => toHex b ++ " " ++ toString b.length) (send p))
      | _ => none },
  { kind := "S", op := "c11.sendlen", run := fun
      | [n, f] => do
        let p : Bytes := List.replicate (← n.toNat?) (UInt8.ofNat (← f.toNat?))
        if decide (Spec.Framable p) then pure ("ok " ++ toHex (Spec.frame p) ++ " " ++ toString (4 + p.length))
        else pure "err"
      | _ => none },
  { kind := "M", op := "c11.recv", run := fun
      | [h, _seg] => do
        let s ← Driver.C06.hexFast h
        if recvPanics s.length s then pure "panic" else pure ("ok " ++ showMsgs (recvAll s))
      | _ => none },
  { kind := "S", op := "c11.recv", run := fun
      | [h, _seg, pl, cut] => do
        let s ← Driver.C06.hexFast h
        if pl == "?" then pure "*" else
        let ps ← msgList pl
        let cut ← cut.toNat?
        if !(ps.all (fun p => decide (Spec.Framable p))) then pure "*"
        else if (ps.flatMap Spec.frame).take cut != s then pure "bad-format"
        else pure ("ok " ++ showMsgs (wholeWithin ps cut))
      | _ => none },
  { kind := "M", op := "c11.e2e", run := fun
      | [pl, _seed] => do
        let ps ← msgList pl
        let frames := ps.filterMap (fun p => match send p with | .ok b => some b | _ => none)
        let stream := frames.flatten
        let refused := refusedIdx ps (fun p => (send p).isOk)
        if recvPanics stream.length stream then pure "panic"
        else pure ("ok " ++ showMsgs (recvAll stream) ++ " " ++ showIdx refused)
      | _ => none },
  { kind := "S", op := "c11.e2e", run := fun
      | [pl, _seed] => do
        let ps ← msgList pl
        let ok := ps.filter (fun p => decide (Spec.Framable p))
        pure ("ok " ++ showMsgs ok ++ " " ++ showIdx (refusedIdx ps (fun p => decide (Spec.Framable p))))
      | _ => none }
]

end Driver.C11
