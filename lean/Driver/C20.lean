import Driver.Util
import Manticore.Model.C20
namespace Driver.C20
open Manticore Manticore.C20 Driver

/-! ### argument / result syntax -/

def nats (args : List String) : Option (List Nat) := args.mapM natArg

def mkV4 : List Nat → Option IPv4
  | [a, b, c, d, m] =>
    if a < 256 ∧ b < 256 ∧ c < 256 ∧ d < 256 ∧ m < 256 then
      some ⟨UInt8.ofNat a, UInt8.ofNat b, UInt8.ofNat c, UInt8.ofNat d, UInt8.ofNat m⟩
    else none
  | _ => none

def mkV6 (l : List Nat) : Option IPv6 :=
  if l.all (· < 65536) then
    match l.map UInt16.ofNat with
    | [a, b, c, d, e, f, g, h] => some ⟨a, b, c, d, e, f, g, h⟩
    | _ => none
  else none

def showV4 (i : IPv4) : String :=
  s!"{i.a.toNat},{i.b.toNat},{i.c.toNat},{i.d.toNat},{i.m.toNat}"
def showV6 (i : IPv6) : String := ",".intercalate (i.groups.map (fun g => toString g.toNat))
def showOpt {α} (f : α → String) : Option α → String
  | some a => f a
  | none => "nil"
def showBool (b : Bool) : String := if b then "ok true" else "ok false"

/-! ### the oracle side: plain arithmetic and Lean's own decimal/hex notation -/

/-- canonical decimal token (no sign, no leading zero) → its value -/
def canonDec (t : String) : Option Nat :=
  match t.toNat? with
  | some n => if toString n == t then some n else none
  | none => none

def str (b : Bytes) : Option String :=
  if b.all (· < 128) then some (asciiString b) else none

/-- strict reading of `a.b.c.d/m`: `none` = not of that shape (the property is silent),
    `some none` = of that shape but a number is out of range (must be rejected),
    `some (some v)` = the value -/
def specV4Parse (b : Bytes) : Option (Option (List Nat)) := do
  let s ← str b
  match s.splitOn "/" with
  | [addr, m] =>
    match addr.splitOn "." with
    | [x0, x1, x2, x3] =>
      let a ← canonDec x0
      let b ← canonDec x1
      let c ← canonDec x2
      let d ← canonDec x3
      let m ← canonDec m
      if a < 256 ∧ b < 256 ∧ c < 256 ∧ d < 256 ∧ m ≤ 32 then pure (some [a, b, c, d, m]) else pure none
    | _ => none
  | _ => none

def hexStr (n : Nat) : String := String.ofList (Nat.toDigits 16 n)

def canonHex (t : String) : Option Nat :=
  if t.isEmpty then none else
  let v := t.toList.foldl (fun acc c => acc.bind (fun a => (hexVal c).map (fun d => a * 16 + d))) (some 0)
  match v with
  | some n => if hexStr n == t then some n else none
  | none => none

def specV6Parse (b : Bytes) : Option (Option (List Nat)) := do
  let s ← str b
  let parts := s.splitOn ":"
  if parts.length ≠ 8 then none else
  let vs ← parts.mapM canonHex
  if vs.all (· < 65536) then pure (some vs) else pure none

def v4val (l : List Nat) : Nat :=
  match l with
  | a :: b :: c :: d :: _ => Spec.v4 a b c d
  | _ => 0

def printV4Nat (v m : Nat) : String :=
  s!"{v / 2^24 % 256}.{v / 2^16 % 256}.{v / 2^8 % 256}.{v % 256}/{m}"

def isWsB : Nat → Bytes → Bool
  | _, [] => true
  | 0, _ => false
  | fuel+1, a :: rest =>
    if isAsciiSpace a then isWsB fuel rest else
    match rest with
    | b :: rest2 =>
      if isSpace2 a b then isWsB fuel rest2 else
      match rest2 with
      | c :: rest3 => if isSpace3 a b c then isWsB fuel rest3 else false
      | [] => false
    | [] => false
def isWs (b : Bytes) : Bool := isWsB (b.length + 1) b

/-- does the string begin (or end) with a white-space rune? -/
def startsWs (b : Bytes) : Bool :=
  match b with
  | a :: r => isAsciiSpace a || (match r with
      | x :: r2 => isSpace2 a x || (match r2 with | y :: _ => isSpace3 a x y | [] => false)
      | [] => false)
  | [] => false
def endsWs (b : Bytes) : Bool :=
  match b.reverse with
  | a :: r => isAsciiSpace a || (match r with
      | x :: r2 => isSpace2 x a || (match r2 with | y :: _ => isSpace3 y x a | [] => false)
      | [] => false)
  | [] => false

def showPair (p : Bytes × Bytes) : String := toHex p.1 ++ " " ++ toHex p.2

/-- strict reading of a port range: `ws* dec ws* - ws* dec ws*` with regexp white space -/
def specPort (b : Bytes) : Option (Option (Nat × Nat)) := do
  let s ← str b
  match s.splitOn "-" with
  | [x, y] =>
    let strip (t : String) : String :=
      String.ofList ((t.toList.dropWhile (fun c => isReSpace (UInt8.ofNat c.toNat))).reverse.dropWhile
        (fun c => isReSpace (UInt8.ofNat c.toNat))).reverse
    let a ← canonDec (strip x)
    let c ← canonDec (strip y)
    if a < 65536 ∧ c < 65536 then pure (some (a, c)) else pure none
  | _ => none

def entries : List Entry := [
  -- IPv4 --------------------------------------------------------------------------------------
  { kind := "M", op := "c20.v4.print", run := fun args => do
      let i ← mkV4 (← nats args); pure (okHex (printIPv4 i)) },
  { kind := "S", op := "c20.v4.print", run := fun args => do
      match ← nats args with
      | [a, b, c, d, m] => pure (okStr s!"{a}.{b}.{c}.{d}/{m}")
      | _ => none },
  { kind := "M", op := "c20.v4.cidrmask", run := fun args => do
      let i ← mkV4 (← nats args); pure (okHex (cidrMask i)) },
  { kind := "S", op := "c20.v4.cidrmask", run := fun args => do
      let l ← nats args
      match l with
      | [_, _, _, _, m] => if m ≤ 32 then pure (okStr (printV4Nat (Spec.network (v4val l) m) m)) else pure "*"
      | _ => none },
  { kind := "M", op := "c20.v4.parse", run := fun
      | [h] => do let b ← fromHex h; pure (showOutcomeWith (showOpt showV4) (parseIPv4 b))
      | _ => none },
  { kind := "S", op := "c20.v4.parse", run := fun
      | [h] => do
        let b ← fromHex h
        pure (match specV4Parse b with
          | some (some l) => "ok " ++ ",".intercalate (l.map toString)
          | some none => "ok nil"
          | none => "*")
      | _ => none },
  { kind := "M", op := "c20.v4.subnet", run := fun args => do
      let l ← nats args
      let i ← mkV4 (l.take 5); let n ← mkV4 (l.drop 5)
      pure (showBool (isInSubnet i n)) },
  { kind := "S", op := "c20.v4.subnet", run := fun args => do
      let l ← nats args
      if l.length ≠ 10 then none else
      let p := (l.drop 9).headD 0
      if p ≤ 32 then pure (showBool (decide (v4val (l.take 5) / 2^(32 - p) = v4val (l.drop 5) / 2^(32 - p)))) else pure "*" },
  { kind := "M", op := "c20.v4.range", run := fun args => do
      let l ← nats args
      let i ← mkV4 (l.take 5); let s ← mkV4 ((l.drop 5).take 5); let e ← mkV4 (l.drop 10)
      pure (showBool (isInRange i s e)) },
  { kind := "S", op := "c20.v4.range", run := fun args => do
      let l ← nats args
      if l.length ≠ 15 then none else
      let v := v4val (l.take 5); let s := v4val ((l.drop 5).take 5); let e := v4val (l.drop 10)
      pure (showBool (decide (s ≤ v ∧ v ≤ e))) },
  -- IPv6 --------------------------------------------------------------------------------------
  { kind := "M", op := "c20.v6.print", run := fun args => do
      let i ← mkV6 (← nats args); pure (okHex (printIPv6 i)) },
  { kind := "S", op := "c20.v6.print", run := fun args => do
      let l ← nats args
      if l.length ≠ 8 then none else pure (okStr (":".intercalate (l.map hexStr))) },
  { kind := "M", op := "c20.v6.parse", run := fun
      | [h] => do let b ← fromHex h; pure (showOutcomeWith (showOpt showV6) (parseIPv6 b))
      | _ => none },
  { kind := "S", op := "c20.v6.parse", run := fun
      | [h] => do
        let b ← fromHex h
        pure (match specV6Parse b with
          | some (some l) => "ok " ++ ",".intercalate (l.map toString)
          | some none => "ok nil"
          | none => "*")
      | _ => none },
  { kind := "M", op := "c20.v6.subnet", run := fun args => do
      let l ← nats args
      let i ← mkV6 (l.take 8); let n ← mkV6 (l.drop 8)
      pure (showBool (isInSubnet6 i n)) },
  { kind := "S", op := "c20.v6.subnet", run := fun args => do
      let l ← nats args
      if l.length ≠ 16 then none else
      pure (showBool (decide (Spec.v6 (l.take 8) = Spec.v6 (l.drop 8)))) },
  { kind := "M", op := "c20.v6.range", run := fun args => do
      let l ← nats args
      let i ← mkV6 (l.take 8); let s ← mkV6 ((l.drop 8).take 8); let e ← mkV6 (l.drop 16)
      pure (showBool (isInRange6 i s e)) },
  { kind := "S", op := "c20.v6.range", run := fun args => do
      let l ← nats args
      if l.length ≠ 24 then none else
      let v := Spec.v6 (l.take 8); let s := Spec.v6 ((l.drop 8).take 8); let e := Spec.v6 (l.drop 16)
      pure (showBool (decide (s ≤ v ∧ v ≤ e))) },
  -- ports -------------------------------------------------------------------------------------
  { kind := "M", op := "c20.port.print", run := fun args => do
      match ← nats args with
      | [a, b] => if a < 65536 ∧ b < 65536 then pure (okHex (printPortRange (UInt16.ofNat a) (UInt16.ofNat b))) else none
      | _ => none },
  { kind := "S", op := "c20.port.print", run := fun args => do
      match ← nats args with
      | [a, b] => pure (okStr s!"{a}-{b}")
      | _ => none },
  { kind := "M", op := "c20.port.parse", run := fun
      | [h] => do
        let b ← fromHex h
        pure (showOutcomeWith (fun (p : UInt16 × UInt16) => s!"{p.1.toNat},{p.2.toNat}") (parsePortRange b))
      | _ => none },
  { kind := "S", op := "c20.port.parse", run := fun
      | [h] => do
        let b ← fromHex h
        pure (match specPort b with
          | some (some (a, c)) => s!"ok {a},{c}"
          | some none => "err"
          | none => "*")
      | _ => none },
  -- LM:NT -------------------------------------------------------------------------------------
  { kind := "M", op := "c20.lmnt", run := fun
      | [h] => do let b ← fromHex h; pure (showOutcomeWith showPair (parseLMNT b))
      | _ => none },
  -- `S c20.lmnt <input> <ws1> <core> <ws2>`: checks the decomposition, then reads the core
  { kind := "S", op := "c20.lmnt", run := fun
      | [h, w1, c, w2] => do
        let b ← fromHex h; let ws1 ← fromHex w1; let core ← fromHex c; let ws2 ← fromHex w2
        if b != ws1 ++ core ++ ws2 || !isWs ws1 || !isWs ws2 then pure "bad-format" else
        pure (match Spec.lmnt core with
          | some p => "ok " ++ showPair p
          | none => if startsWs core || endsWs core then "*" else "err")
      | _ => none },
  -- letter case: the result, lower-cased, depends only on the lower-cased input
  { kind := "M", op := "c20.lmnt.ci", run := fun
      | [h] => do
        let b ← fromHex h
        pure (showOutcomeWith (fun p => showPair (p.1.map Spec.lower, p.2.map Spec.lower)) (parseLMNT b))
      | _ => none },
  { kind := "S", op := "c20.lmnt.ci", run := fun
      | [h, w1, c, w2] => do
        let b ← fromHex h; let ws1 ← fromHex w1; let core ← fromHex c; let ws2 ← fromHex w2
        if b.map Spec.lower != ws1 ++ core ++ ws2 || !isWs ws1 || !isWs ws2 || core.map Spec.lower != core then
          pure "bad-format" else
        pure (match Spec.lmnt core with
          | some p => "ok " ++ showPair p
          | none => if startsWs core || endsWs core then "*" else "err")
      | _ => none }
]
end Driver.C20
