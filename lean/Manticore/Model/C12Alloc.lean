/-
  C07, allocation clause: what the GPP cpassword decoders and `DecodeUTF16LE` allocate.

  None of these functions reads a count from its input: every `make` is sized by `len()` of a
  buffer the function already holds.  The `…AllocOf` functions below follow the Go statements in
  order and add up the bytes of every buffer that has been made when the function returns, on
  every path (0 for a `make` the function returns in front of):

    `utils/encoding/utf16/utf16le.go: DecodeUTF16LE`
        `utf16le := make([]uint16, len(b)/2)`       2 bytes per element
        `utf16.Decode(utf16le)`                     the rune slice, 4 bytes per rune
        `string(…)`                                 the returned string (UTF-8 bytes)
    `crypto/gppp/gppp.go: GPPPDecryptBytes`
        `iv := make([]byte, aes.BlockSize)`         16, before anything is checked
        `plaintext := make([]byte, len(ciphertext))` behind `len(ciphertext)%16 != 0`
        `pkcs7.Unpad` re-slices, allocates nothing
        `utf16.DecodeUTF16LE(plaintext)`            behind the padding and the odd-length check
    `crypto/gppp/gppp.go: GPPPDecryptBase64`
        `encStr += strings.Repeat("=", 4-pad)`      the `=` string and the concatenation (pad 2, 3 only)
        `base64.StdEncoding.DecodeString`           `make([]byte, DecodedLen(len(s)))` = `len(s)/4*3`,
                                                    made before the first character is looked at
        `GPPPDecryptBytes(ciphertext)`              only when decoding succeeded

  (`aes.NewCipher` and `cipher.NewCBCDecrypter` allocate objects of a fixed size that does not
  depend on the input; they are not counted.)
  Core Lean only.
-/
import Manticore.Model.C12
namespace Manticore.C12.GPP
open Manticore Prim

/-- bytes `DecodeUTF16LE(b)` has allocated when it returns -/
def utf16AllocOf (b : Bytes) : Nat :=
  2 * (b.length / 2) +
  match unitsLE b with
  | .ok us => 4 * (utf16Decode us).length + (stringOfRunes (utf16Decode us)).length
  | _ => 0

/-- bytes `GPPPDecryptBytes(ciphertext)` has allocated when it returns -/
def gppBytesAllocOf (D : Bytes → Bytes) (ciphertext : Bytes) : Nat :=
  16 +
  if ciphertext.length % 16 ≠ 0 then 0
  else
    ciphertext.length +
    match cbcDecrypt D zeroIV ciphertext with
    | .ok plaintext =>
      match PKCS7.unpad plaintext with
      | .ok unpadded => if unpadded.length % 2 ≠ 0 then 0 else utf16AllocOf unpadded
      | _ => 0
    | _ => 0

/-- bytes the re-padding of `GPPPDecryptBase64` allocates: nothing for `encStr[:len-1]` (a substring),
    `strings.Repeat("=", 4-pad)` and the concatenated string otherwise -/
def repadAllocOf (s : Bytes) : Nat :=
  let pad := s.length % 4
  if pad = 1 then 0
  else if pad = 2 ∨ pad = 3 then (4 - pad) + (s.length + (4 - pad))
  else 0

/-- bytes `GPPPDecryptBase64(encStr)` has allocated when it returns -/
def gppAllocOf (D : Bytes → Bytes) (encStr : Bytes) : Nat :=
  repadAllocOf encStr +
  (repad encStr).length / 4 * 3 +
  match b64Decode (repad encStr) with
  | some c => gppBytesAllocOf D c
  | none => 0

end Manticore.C12.GPP
