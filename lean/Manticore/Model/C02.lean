/-
  C02 — NTLMv1 / NTLMv2 responses.

  Model (namespace `Manticore.C02`): transliteration of
    crypto/ntlmv1/ntlmv1.go   ParityBit, ParityAdjust (bit-stream version as written), NTLMv1.Hash / String /
                              NTResponse / LMResponse
    crypto/ntlmv2/ntlmv2.go   NewNTLMv2 (ResponseKeyNT), Hash, ToHashcatString
    network/smb/smb_v10/spnego/ntlm/ntlm.go
                              ntowfv2, createNTLMv2Blob, calculateNTLMv2Proof, calculateNTLMv2Response,
                              calculateNTLMv1Response, createDesKey, desEncrypt
  as they are after the fix patches C02-*.  MD4, HMAC-MD5, DES, hex, `strings.ToUpper` and the UTF-16
  encoder are residual primitives (`Manticore/Prims/Residual.lean`): model outputs are expression trees,
  theorems hold for every interpretation `P : Prims`.  `time.Now()` and `crypto/rand` are explicit
  arguments (`ticks` / `unixSecs`, `clientChallenge`, `lmClientChallenge`), read back by the harness.
  Where the code needs the *length* of an encoded string (the AV pair of `NTLMv2.Hash`), the encoded
  string is an explicit argument (`domain16`), equal to `P.utf16le domain` in the theorems.

  Spec (namespace `Manticore.C02.Spec`): MS-NLMP 3.3.1 / 3.3.2 / 6 (DESL, NTOWFv2, NTProofStr, the
  `temp` blob), the DES key parity rule of FIPS 46-3, hashcat mode 5600 line grammar, and the
  independent verifier `verify`.
-/
import Manticore.Basic
import Manticore.Prims.RExpr
namespace Manticore.C02
open Manticore RExpr

def zeros (n : Nat) : Bytes := List.replicate n 0

/-! ## crypto/ntlmv1: ParityBit, ParityAdjust -/

/-- the loop of `ParityBit`: `for n != 0 { if n&1 == 1 { parity ^= 1 }; n >>= 1 }` (non-negative `n`) -/
def parityLoop : Nat → Nat → Nat → Nat
  | 0, _, p => p
  | fuel+1, n, p => if n = 0 then p else parityLoop fuel (n / 2) (if n % 2 = 1 then p ^^^ 1 else p)

/-- `ParityBit(n)` for `n ≥ 0` (a negative argument never terminates in Go: `n >>= 1` stays `-1`) -/
def parityBit (n : Nat) : Nat := parityLoop (n + 1) n 1

/-- `for i := 7; i >= 0; i-- { keyBits = append(keyBits, (b>>i)&1) }` -/
def bitsOfByte (b : UInt8) : List UInt8 :=
  [(b >>> 7) &&& 1, (b >>> 6) &&& 1, (b >>> 5) &&& 1, (b >>> 4) &&& 1,
   (b >>> 3) &&& 1, (b >>> 2) &&& 1, (b >>> 1) &&& 1, (b >>> 0) &&& 1]

def keyBits (key : Bytes) : List UInt8 := key.flatMap bitsOfByte

/-- `for offset, bit := range keyBits[i:i+7] { if bit == 1 { b |= (1 << (7 - offset)) } }` -/
def packBits : List UInt8 → Nat → UInt8 → UInt8
  | [], _, acc => acc
  | bit :: rest, off, acc =>
    packBits rest (off + 1) (if bit = 1 then acc ||| (1 <<< UInt8.ofNat (7 - off)) else acc)

/-- one output byte: the packed group, `| byte(ParityBit(int(b)))` -/
def adjustByte (g : List UInt8) : UInt8 :=
  let p := packBits g 0 0
  p ||| UInt8.ofNat (parityBit p.toNat)

/-- the loop over complete 7-bit groups (`keyBits[:len-len%7]` drops an incomplete last group) -/
def adjustGroups : List UInt8 → Bytes
  | b0 :: b1 :: b2 :: b3 :: b4 :: b5 :: b6 :: rest => adjustByte [b0, b1, b2, b3, b4, b5, b6] :: adjustGroups rest
  | _ => []

/-- `ParityAdjust(key)` (any key length; never an error) -/
def parityAdjust (key : Bytes) : Bytes := adjustGroups (keyBits key)

/-! ## crypto/ntlmv1: the responses -/

/-- three DES encryptions of the challenge under the parity-adjusted thirds of a 21-byte key -/
def des3 (k1 k2 k3 chal : Bytes) : RExpr :=
  cat (cat (p2 .des (lit (parityAdjust k1)) (lit chal)) (p2 .des (lit (parityAdjust k2)) (lit chal)))
      (p2 .des (lit (parityAdjust k3)) (lit chal))

/-- `NTLMv1.Hash()` on the `NTHash` field (`nthash`; the password-based constructor has filled it with
    the 16-byte NT hash).  After fix C02-ntlmv1-nthash-length anything but 16 bytes is an error (before,
    `bytes.Repeat` panicked on a negative count for more than 21 bytes). -/
def v1Hash (nthash chal : Bytes) : Outcome RExpr :=
  if nthash = [] then .err                        -- (and Password empty: the hash-based constructor)
  else if nthash.length ≠ 16 then .err
  else if nthash.length > 21 then .panic          -- bytes.Repeat: negative Repeat count (unreachable now)
  else
    let raw := nthash ++ zeros (21 - nthash.length)
    .ok (des3 (raw.take 7) ((raw.drop 7).take 7) ((raw.drop 14).take 7) chal)

/-- `NTLMv1.String()`: upper-cased hex of `Hash()`, `""` on error -/
def v1String (nthash chal : Bytes) : Outcome RExpr :=
  match v1Hash nthash chal with
  | .ok e => .ok (p1 .upper (p1 .hex e))
  | .err => .ok (lit [])
  | .panic => .panic

/-- the slicing `h[:7]`, `h[7:14]`, `append(h[14:16], 0,0,0,0,0)` shared by `NTResponse`, `LMResponse`
    (slice capacity = length) -/
def response16 (h chal : Bytes) : Outcome RExpr := do
  let k1 ← slice h 0 7
  let k2 ← slice h 7 14
  let k3 ← slice h 14 16
  pure (des3 k1 k2 (k3 ++ zeros 5) chal)

/-- `NTResponse()` (with the length guard of fix C02-ntlmv1-nthash-length) -/
def ntResponse (nthash chal : Bytes) : Outcome RExpr :=
  if nthash.length ≠ 16 then .err else response16 nthash chal
/-- `LMResponse()`; `lmhash` is `lm.LMHash(Password)` (property C01) -/
def lmResponse (lmhash chal : Bytes) : Outcome RExpr := response16 lmhash chal

/-! ## spnego/ntlm: createDesKey, desEncrypt -/

/-- `bitCount` over `j = 0..7` of the shifted byte (after fix C02-createDesKey-parity; the loop ran to 7
    and missed the top bit) -/
def bitCount8 (y : UInt8) : Nat :=
  ([0, 1, 2, 3, 4, 5, 6, 7] : List UInt8).foldl (fun (n : Nat) (j : UInt8) => if y &&& (1 <<< j) ≠ 0 then n + 1 else n) 0

/-- `key[i] = key[i] << 1; if bitCount%2 == 0 { key[i] |= 1 }` -/
def setParity (x : UInt8) : UInt8 :=
  let y := x <<< 1
  if bitCount8 y % 2 = 0 then y ||| 1 else y

def createDesKey (b : Bytes) : Outcome Bytes :=
  match b with
  | [b0, b1, b2, b3, b4, b5, b6] =>
    .ok ([b0 >>> 1,
          ((b0 &&& 0x01) <<< 6) ||| (b1 >>> 2),
          ((b1 &&& 0x03) <<< 5) ||| (b2 >>> 3),
          ((b2 &&& 0x07) <<< 4) ||| (b3 >>> 4),
          ((b3 &&& 0x0F) <<< 3) ||| (b4 >>> 5),
          ((b4 &&& 0x1F) <<< 2) ||| (b5 >>> 6),
          ((b5 &&& 0x3F) <<< 1) ||| (b6 >>> 7),
          b6 &&& 0x7F].map setParity)
  | _ => .err

/-- `desEncrypt(hash, challenge)`: `nil` unless 16 and 8 bytes -/
def desEncrypt (hash chal : Bytes) : Outcome RExpr :=
  if hash.length ≠ 16 ∨ chal.length ≠ 8 then .ok (lit [])
  else do
    let k1 ← createDesKey (hash.take 7)
    let k2 ← createDesKey ((hash.drop 7).take 7)
    let k3 ← createDesKey (hash.drop 14 ++ zeros 5)
    pure (cat (cat (p2 .des (lit k1) (lit chal)) (p2 .des (lit k2) (lit chal))) (p2 .des (lit k3) (lit chal)))

/-! ## NTLMv2 -/

/-- the NT hash of the password: `nt.NTHash` = MD4 of the UTF-16LE password (property C01) -/
def ntHash (pw : Bytes) : RExpr := p1 .md4 (p1 .utf16le (lit pw))

/-- the key both `ntlmv2.NewNTLMv2` / `Hash` and `ntlm.ntowfv2` compute (after fixes
    C02-ntlmv2-domain-as-supplied / C02-ntlm-domain-as-supplied: the domain is not upper-cased) -/
def ntowfv2 (pw user domain : Bytes) : RExpr :=
  p2 .hmacMd5 (ntHash pw) (p1 .utf16le (cat (p1 .upper (lit user)) (lit domain)))

def blobHeader : Bytes := [0x01, 0x01, 0x00, 0x00, 0x00, 0x00, 0x00, 0x00]

/-- `NTLMv2.Hash()`: `ticks` = `time.Now().UnixNano()/100`; `domain16` = `EncodeUTF16LE(Domain)` -/
def v2Blob (ticks : Nat) (cc domain16 : Bytes) : Bytes :=
  let ts := putLe64 (UInt64.ofNat (ticks + 116444736000000000))
  let av := if domain16.length > 0 ∧ domain16.length ≤ 0xFFFF
            then putLe16 0x0002 ++ putLe16 (UInt16.ofNat domain16.length) ++ domain16 else []
  blobHeader ++ ts ++ cc ++ zeros 4 ++ av ++ zeros 4 ++ zeros 4

def v2Hash (pw user domain sc cc : Bytes) (ticks : Nat) (domain16 : Bytes) : RExpr :=
  let blob := v2Blob ticks cc domain16
  cat (p2 .hmacMd5 (ntowfv2 pw user domain) (cat (lit sc) (lit blob))) (lit blob)

def colon : Bytes := [58]

/-- `NTLMv2.ToHashcatString()` (after fix C02-ntlmv2-hashcat-fields) -/
def v2Hashcat (pw user domain sc cc : Bytes) (ticks : Nat) (domain16 : Bytes) : RExpr :=
  let r := v2Hash pw user domain sc cc ticks domain16
  cat (lit (user ++ colon ++ colon ++ domain ++ colon))
    (cat (p1 .hex (lit sc)) (cat (lit colon) (cat (p1 .hex (take 16 r)) (cat (lit colon) (p1 .hex (drop 16 r))))))

/-- `createNTLMv2Blob(clientChallenge, targetInfo)`: `unixSecs` = `time.Now().Unix()` -/
def createBlob (unixSecs : Nat) (cc ti : Bytes) : Bytes :=
  blobHeader ++ putLe64 (UInt64.ofNat ((unixSecs + 11644473600) * 10000000)) ++ cc ++ zeros 4 ++ ti ++ zeros 4

/-- `calculateNTLMv2Proof(key, serverChallenge, blob)` -/
def proof (key : RExpr) (sc blob : Bytes) : RExpr := p2 .hmacMd5 key (lit (sc ++ blob))

/-- `calculateNTLMv2Response`: (LMv2 response, NTLMv2 response) -/
def v2Response (pw user domain sc ti : Bytes) (unixSecs : Nat) (cc lmcc : Bytes) : RExpr × RExpr :=
  let key := ntowfv2 pw user domain
  let blob := createBlob unixSecs cc ti
  (cat (proof key sc lmcc) (lit lmcc), cat (proof key sc blob) (lit blob))

/-! ## Specification -/

namespace Spec

/-- the seven upper bits of a DES key octet, most significant first (FIPS 46-3: bit 8 of every octet is
    a parity bit and not part of the key) -/
def top7 (o : UInt8) : List UInt8 :=
  [(o >>> 7) &&& 1, (o >>> 6) &&& 1, (o >>> 5) &&& 1, (o >>> 4) &&& 1, (o >>> 3) &&& 1, (o >>> 2) &&& 1, (o >>> 1) &&& 1]

/-- bits, most significant first, into octets -/
def pack8 : List UInt8 → Bytes
  | b7 :: b6 :: b5 :: b4 :: b3 :: b2 :: b1 :: b0 :: rest =>
    ((b7 <<< 7) ||| (b6 <<< 6) ||| (b5 <<< 5) ||| (b4 <<< 4) ||| (b3 <<< 3) ||| (b2 <<< 2) ||| (b1 <<< 1) ||| b0) :: pack8 rest
  | _ => []

/-- the 56 key bits of an 8-octet DES key, as 7 octets -/
def stripParity (k8 : Bytes) : Bytes := pack8 (k8.flatMap top7)

def popcount (b : UInt8) : Nat :=
  ((b >>> 7) &&& 1).toNat + ((b >>> 6) &&& 1).toNat + ((b >>> 5) &&& 1).toNat + ((b >>> 4) &&& 1).toNat +
  ((b >>> 3) &&& 1).toNat + ((b >>> 2) &&& 1).toNat + ((b >>> 1) &&& 1).toNat + (b &&& 1).toNat

/-- FIPS 46-3: every key octet has odd parity -/
def oddParity (b : UInt8) : Bool := popcount b % 2 = 1

/-- MS-NLMP §6: `DESL(K, D) = DES(K[0..6], D) ‖ DES(K[7..13], D) ‖ DES(K[14..15] ‖ Z(5), D)`, DES taking
    the 7-byte key -/
def desl (K D : Bytes) : RExpr :=
  cat (cat (p2 .des7 (lit (K.take 7)) (lit D)) (p2 .des7 (lit ((K.drop 7).take 7)) (lit D)))
      (p2 .des7 (lit (K.drop 14 ++ zeros 5)) (lit D))

/-- FIPS 46-3 in terms of the two primitives: an 8-octet-key DES is the 56-bit-key DES of its key bits -/
def DesIgnoresParity (P : Prims) : Prop := ∀ k d, P.des k d = P.des7 (stripParity k) d

/-- MS-NLMP 3.3.2: `NTOWFv2(Passwd, User, UserDom) = HMAC_MD5(MD4(UNICODE(Passwd)),
    UNICODE(ConcatenationOf(Uppercase(User), UserDom)))` -/
def ntowfv2 (pw user domain : Bytes) : RExpr :=
  p2 .hmacMd5 (p1 .md4 (p1 .utf16le (lit pw))) (p1 .utf16le (cat (p1 .upper (lit user)) (lit domain)))

/-- MS-NLMP 3.3.2: `NTProofStr = HMAC_MD5(ResponseKeyNT, ConcatenationOf(ServerChallenge, temp))`; the
    response is `NTProofStr ‖ temp` -/
def expectedResponse (pw user domain sc temp : Bytes) : RExpr :=
  cat (p2 .hmacMd5 (ntowfv2 pw user domain) (lit (sc ++ temp))) (lit temp)

/-- **the independent verifier**: knows the password, recomputes the key from the user name and the
    domain as supplied, and checks the first 16 bytes against the HMAC of the rest -/
def verify (P : Prims) (pw user domain sc resp : Bytes) : Bool :=
  decide (16 ≤ resp.length) &&
  resp.take 16 == P.hmacMd5 (eval P (ntowfv2 pw user domain)) (sc ++ resp.drop 16)

/-- MS-NLMP 2.2.2.1: a sequence of AV pairs that ends, exactly at the end of the bytes, with MsvAvEOL
    (`fuel`: every pair takes at least four bytes) -/
def avListLoop : Nat → Bytes → Bool
  | 0, _ => false
  | fuel+1, b =>
    match b with
    | i0 :: i1 :: l0 :: l1 :: rest =>
      let id := i0.toNat + 256 * i1.toNat
      let len := l0.toNat + 256 * l1.toNat
      if id = 0 then len = 0 ∧ rest = []
      else if len > rest.length then false
      else avListLoop fuel (rest.drop len)
    | _ => false

def avList (b : Bytes) : Bool := avListLoop (b.length + 1) b

/-- FILETIME of 1970-01-01: no client clock predates it -/
def filetimeUnixEpoch : Nat := 116444736000000000

/-- MS-NLMP 3.3.2 `temp` / 2.2.2.7 NTLMv2_CLIENT_CHALLENGE: `0x01 0x01`, six zero bytes, 8-byte FILETIME,
    8-byte client challenge, four zero bytes, AV pairs, four zero bytes -/
def blobWellFormed (blob cc : Bytes) : Bool :=
  decide (36 ≤ blob.length) &&
  blob.take 8 == [1, 1, 0, 0, 0, 0, 0, 0] &&
  decide (filetimeUnixEpoch ≤ leNat ((blob.drop 8).take 8)) &&
  (blob.drop 16).take 8 == cc &&
  (blob.drop 24).take 4 == zeros 4 &&
  avList ((blob.drop 28).take (blob.length - 32)) &&
  blob.drop (blob.length - 4) == zeros 4

/-- LMv2: `HMAC_MD5(key, ServerChallenge ‖ ClientChallenge) ‖ ClientChallenge` -/
def verifyLMv2 (P : Prims) (pw user domain sc resp : Bytes) : Bool :=
  decide (resp.length = 24) &&
  resp.take 16 == P.hmacMd5 (eval P (ntowfv2 pw user domain)) (sc ++ resp.drop 16)

/-! ### hashcat mode 5600 (NetNTLMv2): `user::domain:serverChallenge:NTProofStr:blob` -/

def splitOn (sep : UInt8) : Bytes → List Bytes
  | [] => [[]]
  | c :: rest =>
    match splitOn sep rest with
    | [] => [[]]                                  -- unreachable
    | cur :: more => if c = sep then [] :: cur :: more else (c :: cur) :: more

def hexVal (c : UInt8) : Option UInt8 :=
  if 48 ≤ c ∧ c ≤ 57 then some (c - 48)
  else if 97 ≤ c ∧ c ≤ 102 then some (c - 87)
  else if 65 ≤ c ∧ c ≤ 70 then some (c - 55)
  else none

def unhex : Bytes → Option Bytes
  | [] => some []
  | [_] => none
  | a :: b :: rest => do
    let x ← hexVal a
    let y ← hexVal b
    let r ← unhex rest
    pure ((x <<< 4 ||| y) :: r)

structure HashcatLine where
  user : Bytes
  domain : Bytes
  serverChallenge : Bytes
  ntProofStr : Bytes
  blob : Bytes
  deriving DecidableEq, Repr

/-- hashcat's field rules for mode 5600: six `:`-separated fields, the second empty, the server challenge
    16 hex digits, the NTProofStr 32 hex digits, the blob hex -/
def parseHashcat (line : Bytes) : Option HashcatLine :=
  match splitOn 58 line with
  | [u, e, d, s, p, b] =>
    if e ≠ [] then none else do
      let s ← unhex s
      let p ← unhex p
      let b ← unhex b
      if s.length = 8 ∧ p.length = 16 then some ⟨u, d, s, p, b⟩ else none
  | _ => none

/-- hashcat's check of a candidate password against a parsed line -/
def hashcatVerifies (P : Prims) (pw : Bytes) (l : HashcatLine) : Bool :=
  l.ntProofStr == P.hmacMd5 (eval P (ntowfv2 pw l.user l.domain)) (l.serverChallenge ++ l.blob)

/-- `encoding/hex` as a primitive: what it produces decodes back (so it consists of hex digits only) -/
def HexLaw (P : Prims) : Prop := ∀ b, unhex (P.hex b) = some b

/-- HMAC-MD5 returns 16 bytes -/
def HmacLen (P : Prims) : Prop := ∀ k m, (P.hmacMd5 k m).length = 16

end Spec
end Manticore.C02
