/-
  The command IR (DESIGN.md §3.1).  `tools/extract` turns every `Marshal` / `Unmarshal` body of
  `network/smb/smb_v10/message/commands/*.go` into a program of this small imperative language
  (two programs per command, extracted independently).  This file is the language and its
  semantics: `runM` (what Marshal appends to the parameter and data byte streams) and `runU`
  (what Unmarshal does with the two streams, including Go's slice-bounds panics).
  Core Lean only.
-/
import Manticore.Basic
namespace Manticore.SmbIR
open Manticore

inductive Blk | P | D
  deriving DecidableEq, Repr, Inhabited

inductive End | le | be
  deriving DecidableEq, Repr, Inhabited

/-- integer expressions occurring in guards, slice bounds and offset updates -/
inductive Expr
  | lit (n : Nat)
  | fint (f : String)            -- int(c.F)
  | flen (f : String)            -- len(c.F)
  | fsub (f : String) (i : Nat)  -- int(c.F.<i-th number of the nested value>)
  | pad                          -- the local `padLen`
  | add (a b : Expr)
  | mul (k : Nat) (e : Expr)
  deriving DecidableEq, Repr, Inhabited

/-- statements of a Marshal body (between the fixed prologue and epilogue) -/
inductive MStmt
  | int (b : Blk) (w : Nat) (e : End) (f : String)       -- PutUint<8w>(buf, uint(c.F)); append
  | quad (b : Blk) (w : Nat) (e : End) (f : String)      -- same for c.F.QuadPart
  | u8 (b : Blk) (f : String)                            -- append(raw, UCHAR(c.F))
  | bytes (b : Blk) (f : String)                         -- append(raw, c.F...)
  | arr (b : Blk) (f : String)                           -- append(raw, c.F[:]...)
  | sub (b : Blk) (f : String) (typ : String)            -- x, err := c.F.Marshal(); append(raw, x...)
  | setFmt (f : String) (k : Nat)                        -- c.F.SetBufferFormat(k)
  | assignLen (f g : String) (w : Nat)                   -- c.F = T(len(c.G)), T being w bytes wide
  | forSub (b : Blk) (f : String) (typ : String)         -- for _, x := range c.F { x.Marshal() … }
  | forInt (b : Blk) (w : Nat) (e : End) (f : String)    -- for _, x := range c.F { PutUint… }
  | ifNonZero (f : String) (body : List MStmt)           -- if c.F != 0 { … }
  | ifNonZeroArr (f : String) (body : List MStmt)        -- if c.F != [n]T{0,…} { … }
  | ifWordCount (k : Nat) (body : List MStmt)            -- if c.GetParameters().WordCount == k { … }
  | subHead (f : String) (typ : String)                  -- marshalled field appended to the command bytes ahead of the parameter block (WriteRequest)
  | zeros (b : Blk) (n : Nat)                            -- append(raw, 0x00, …, 0x00): n literal zero bytes (string terminator)
  deriving Repr, Inhabited

/-- statements of an Unmarshal body (after the fixed prologue that splits the input into the
    parameter byte stream `P` and the data byte stream `D`) -/
inductive UStmt
  | retIfEmpty (p d : Bool)            -- if len(P) == 0 [&& len(D) == 0] { return 0, nil }
  | resetOffset                         -- offset = 0
  | guard (b : Blk) (e : Expr)          -- if len(blk) < offset + e { return offset, err }
  | readInt (b : Blk) (w : Nat) (e : End) (f : String)   -- c.F = T(Uint<8w>(blk[offset:offset+w]))
  | readQuad (b : Blk) (w : Nat) (e : End) (f : String)
  | readU8 (b : Blk) (f : String)       -- c.F = T(blk[offset])
  | readBytes (b : Blk) (f : String) (n : Expr)          -- c.F = blk[offset : offset+n]
  | readRest (b : Blk) (f : String)     -- c.F = blk[offset:]
  | readArr (b : Blk) (f : String) (n : Nat)             -- copy(c.F[:], blk[offset:offset+n])
  -- bytesRead, err = c.F.Unmarshal(blk[offset : offset+win]) (win = none: blk[offset:]; whole: blk);
  -- `checked`: followed by the error check; `stores`: the count goes to `bytesRead`
  | readSub (b : Blk) (f : String) (typ : String) (win : Option Nat) (whole : Bool) (checked : Bool) (stores : Bool)
  | advance (e : Expr)                  -- offset += e
  | advanceRead                         -- offset += bytesRead
  | setPad (e : Expr)                   -- padLen := e
  | padRoundUp                          -- if padLen%2 == 1 { padLen++ }
  | padIfPOdd                           -- if (len(P)+3)%2 == 1 { padLen = 1 }
  | resliceD                            -- D = D[offset:]
  | ifWordCount (k : Nat) (body : List UStmt)
  | clear (f : String)                  -- c.F = []T{}
  | zeroInt (f : String)                -- c.F = 0            (an optional field is reset before the word-count test)
  | zeroInts (f : String) (n : Nat)     -- c.F = [n]T{0, …, 0}
  | makeInts (f g : String)             -- c.F = make([]T, c.G)
  | forCountInt (b : Blk) (w : Nat) (e : End) (f g : String)   -- for i < int(c.G) { c.F[i] = …; offset += w }
  | forRangeInt (b : Blk) (w : Nat) (e : End) (f : String)     -- for i := range c.F (fixed array)
  | forCountSub (b : Blk) (f g : String) (typ : String) (size : Nat)  -- guarded counted loop of nested values
  | whileFitsSub (b : Blk) (f : String) (typ : String) (size : Nat)   -- for offset+size <= len(blk) { … }
  | cstrUnicode (f : String)            -- s, offset := GetNullTerminatedUnicodeString(D); c.F = s
  | readArr3 (b : Blk) (f : String)     -- c.F = [3]ULONG{…} (WriteAndClose)
  -- if c.GetAndX() == nil { c.SetAndX(andx.NewAndX()) }; _, err = c.GetAndX().Unmarshal(P); if err != nil { return 0, err }
  | readAndX
  | resliceP (n : Nat)                  -- P = P[n:]
  deriving Repr, Inhabited

structure Cmd where
  name : String
  code : String
  isAndX : Bool
  fields : List (String × String)      -- declared fields with their Go types, declaration order
  marshal : List MStmt
  unmarshal : List UStmt
  deriving Repr, Inhabited

/-! ## values -/

/-- a nested wire value, flattened: its numbers and its byte strings in declaration order -/
abbrev Tup := List Nat × List Bytes

inductive Val
  | n (x : Nat)
  | b (bs : Bytes)
  | ns (xs : List Nat)
  | t (v : Tup)
  | ts (vs : List Tup)
  deriving DecidableEq, Repr, Inhabited

abbrev Env := List (String × Val)

def Env.get (env : Env) (f : String) : Option Val := (env.find? (·.1 == f)).map (·.2)

def Env.set (env : Env) (f : String) (v : Val) : Env :=
  if env.any (·.1 == f) then env.map (fun p => if p.1 == f then (f, v) else p) else env ++ [(f, v)]

/-- codecs of the nested wire types (`types.SMB_STRING`, `FILETIME`, …): supplied by the C06 models -/
structure Codecs where
  /-- bytes of a nested value and the value as `Marshal` leaves it (Go encoders update lengths, formats, padding) -/
  enc : String → Tup → Outcome (Bytes × Tup)
  dec : String → Bytes → Outcome (Tup × Nat)
  /-- effect of `SetBufferFormat k` on a nested value -/
  setFmt : Nat → Tup → Tup
  /-- what a *failing* `Unmarshal` of the nested type has already assigned in the receiver when it gives up (Go decoders
      assign field by field: `SMB_STRING.Unmarshal` sets `BufferFormat`, and for the counted formats `Length`, before
      it finds the buffer too short).  Visible only where the caller drops the error (`readSub … checked = false`). -/
  decFail : String → Bytes → Tup → Tup := fun _ _ v => v

/-! ## integers -/

def intBytes (w : Nat) (e : End) (x : Nat) : Bytes :=
  match e with
  | .le => natLe w x
  | .be => natBe w x

def intVal (e : End) (bs : Bytes) : Nat :=
  match e with
  | .le => leNat bs
  | .be => beNat bs

/-! ## Marshal -/

structure MState where
  P : Bytes := []
  D : Bytes := []
  head : Bytes := []       -- bytes put ahead of the parameter block (WriteRequest)
  env : Env
  deriving Repr

def MState.app (s : MState) (b : Blk) (bs : Bytes) : MState :=
  match b with
  | .P => { s with P := s.P ++ bs }
  | .D => { s with D := s.D ++ bs }

def getN (env : Env) (f : String) : Outcome Nat :=
  match env.get f with
  | some (.n x) => .ok x
  | _ => .err

/-- word count the parameter block will have when `Marshal` reaches this point: the words already
    in `c.Parameters` (the AndX words) — the raw stream is only added at the end -/
def andxWords (isAndX : Bool) : Nat := if isAndX then 2 else 0

mutual
def runMStmt (C : Codecs) (isAndX : Bool) (s : MState) : MStmt → Outcome MState
  | .int b w e f => do let x ← getN s.env f; pure (s.app b (intBytes w e x))
  | .quad b w e f => do let x ← getN s.env f; pure (s.app b (intBytes w e x))
  | .u8 b f => do let x ← getN s.env f; pure (s.app b [UInt8.ofNat x])
  | .bytes b f =>
    match s.env.get f with
    | some (.b bs) => .ok (s.app b bs)
    | _ => .err
  | .arr b f =>
    match s.env.get f with
    | some (.b bs) => .ok (s.app b bs)
    | _ => .err
  | .sub b f typ =>
    match s.env.get f with
    | some (.t v) => do
      let (bs, v') ← C.enc typ v
      pure { (s.app b bs) with env := s.env.set f (.t v') }
    | _ => .err
  | .setFmt f k =>
    match s.env.get f with
    | some (.t v) => .ok { s with env := s.env.set f (.t (C.setFmt k v)) }
    | _ => .err
  | .assignLen f g w =>
    match s.env.get g with
    | some (.b bs) => .ok { s with env := s.env.set f (.n (bs.length % 256 ^ w)) }
    | some (.ns xs) => .ok { s with env := s.env.set f (.n (xs.length % 256 ^ w)) }
    | some (.ts vs) => .ok { s with env := s.env.set f (.n (vs.length % 256 ^ w)) }
    | _ => .err
  | .forSub b f typ =>
    match s.env.get f with
    | some (.ts vs) => do
      -- `for _, x := range c.F`: x is a copy, so the encoders' updates do not reach the command
      let bs ← vs.foldlM (fun acc v => do let (x, _) ← C.enc typ v; pure (acc ++ x)) []
      pure (s.app b bs)
    | _ => .err
  | .forInt b w e f =>
    match s.env.get f with
    | some (.ns xs) => .ok (s.app b (xs.flatMap (intBytes w e)))
    | _ => .err
  | .ifNonZero f body => do
    let x ← getN s.env f
    if x != 0 then runMStmts C isAndX s body else pure s
  | .ifNonZeroArr f body =>
    match s.env.get f with
    | some (.ns xs) => if xs.any (· != 0) then runMStmts C isAndX s body else .ok s
    | _ => .err
  | .ifWordCount k body =>
    -- `c.GetParameters().WordCount` during Marshal: AddWord leaves `2 * words so far` there
    if 2 * andxWords isAndX % 256 = k then runMStmts C isAndX s body else .ok s
  | .subHead f typ =>
    match s.env.get f with
    | some (.t v) => do
      let (bs, v') ← C.enc typ v
      pure { s with head := s.head ++ bs, env := s.env.set f (.t v') }
    | _ => .err
  | .zeros b n => .ok (s.app b (List.replicate n 0))
def runMStmts (C : Codecs) (isAndX : Bool) (s : MState) : List MStmt → Outcome MState
  | [] => .ok s
  | st :: rest => do let s' ← runMStmt C isAndX s st; runMStmts C isAndX s' rest
end

/-- the name under which the AndX block of an AndX command (`Command.AndX`, a pointer: absent = nil) is kept among
    the field values; no declared field can have it (the extractor refuses a structure declaring `AndX`, which would
    shadow the promoted field) -/
def andxField : String := "AndX"

/-- `AndXCommand, AndXReserved, AndXOffset` as `andx.AndX.Unmarshal` reads them from four bytes -/
def andxVal (a b c d : UInt8) : Val := .ns [a.toNat, b.toNat, 256 * c.toNat + d.toNat]

/-- the AndX block `Marshal` creates when none is set: `andx.NewAndX()` with `AndXCommand = SMB_COM_NO_ANDX_COMMAND` -/
def defaultAndX : Val := .ns [255, 0, 0]

/-- the fixed prologue of every `Marshal`: `if c.IsAndX() { if c.GetAndX() == nil { c.SetAndX(andx.NewAndX());
    c.GetAndX().AndXCommand = codes.SMB_COM_NO_ANDX_COMMAND } … }` — the command holds an AndX block afterwards -/
def prologueEnv (isAndX : Bool) (env : Env) : Env :=
  if isAndX && (env.get andxField).isNone then env.set andxField defaultAndX else env

/-- the two raw streams (and the bytes ahead of the parameter block) a command's Marshal builds from its fields -/
def runM (C : Codecs) (c : Cmd) (env : Env) : Outcome MState :=
  runMStmts C c.isAndX { env := prologueEnv c.isAndX env } c.marshal

/-! ## Unmarshal -/

structure UState where
  P : Bytes
  D : Bytes
  /-- what lies behind each stream inside its backing array, up to the capacity: a Go slice
      expression `s[lo:hi]` is checked against `cap(s)`, not `len(s)` -/
  Pext : Bytes := []
  Dext : Bytes := []
  wordCount : Nat
  offset : Nat := 0
  bytesRead : Nat := 0
  pad : Nat := 0
  env : Env
  deriving Repr

/-- result of one statement: continue, or return (value / error), or panic -/
inductive Step (α : Type)
  | next (s : α)
  | ret
  | err
  | panic
  | stuck      -- the environment lacks a field or holds a value of another kind: impossible in Go (static types)
  deriving Repr

def UState.blk (s : UState) : Blk → Bytes
  | .P => s.P
  | .D => s.D

def UState.ext (s : UState) : Blk → Bytes
  | .P => s.Pext
  | .D => s.Dext

/-- Go `b[lo:hi]` on a slice with spare capacity `ext`: panics unless `lo ≤ hi ≤ cap`; the result may
    reach into the bytes behind `len` -/
def sliceC (b ext : Bytes) (lo hi : Nat) : Outcome Bytes :=
  if lo ≤ hi ∧ hi ≤ b.length + ext.length then .ok (((b ++ ext).drop lo).take (hi - lo)) else .panic

def evalExpr (s : UState) : Expr → Option Nat
  | .lit n => some n
  | .fint f => match s.env.get f with | some (.n x) => some x | _ => none
  | .flen f => match s.env.get f with
    | some (.b bs) => some bs.length
    | some (.ns xs) => some xs.length
    | some (.ts vs) => some vs.length
    | _ => none
  | .fsub f i => match s.env.get f with | some (.t v) => v.1[i]? | _ => none
  | .pad => some s.pad
  | .add a b => do pure ((← evalExpr s a) + (← evalExpr s b))
  | .mul k e => do pure (k * (← evalExpr s e))

def liftO {α} (s : UState → α → UState) (st : UState) : Outcome α → Step UState
  | .ok a => .next (s st a)
  | .err => .err
  | .panic => .panic

/-- counted loop reading `count` w-byte integers (no guard inside the loop, as in the code) -/
def readInts (blk ext : Bytes) (w : Nat) (e : End) : (count offset : Nat) → List Nat → Outcome (List Nat × Nat)
  | 0, off, acc => .ok (acc, off)
  | n+1, off, acc =>
    match sliceC blk ext off (off + w) with
    | .ok bs => readInts blk ext w e n (off + w) (acc ++ [intVal e bs])
    | .err => .err
    | .panic => .panic

/-- `for i < count { if len(blk) < offset+size {err}; x.Unmarshal(blk[offset:offset+size]); offset += bytesRead }` -/
def readSubsCounted (C : Codecs) (typ : String) (blk ext : Bytes) (size : Nat) :
    (count offset : Nat) → List Tup → Outcome (List Tup × Nat)
  | 0, off, acc => .ok (acc, off)
  | n+1, off, acc =>
    if blk.length < off + size then .err
    else match sliceC blk ext off (off + size) with
      | .ok w => match C.dec typ w with
        | .ok (v, k) => readSubsCounted C typ blk ext size n (off + k) (acc ++ [v])
        | .err => .err
        | .panic => .panic
      | .err => .err
      | .panic => .panic

/-- `for offset+size <= len(blk) { x.Unmarshal(blk[offset:offset+size]); offset += bytesRead }`;
    `fuel` bounds the iterations (each must advance; a zero advance would loop forever in Go:
    reported as `panic` when the fuel runs out) -/
def readSubsWhile (C : Codecs) (typ : String) (blk ext : Bytes) (size : Nat) :
    (fuel offset : Nat) → List Tup → Outcome (List Tup × Nat)
  | 0, off, acc => if off + size ≤ blk.length then .panic else .ok (acc, off)
  | n+1, off, acc =>
    if off + size ≤ blk.length then
      match sliceC blk ext off (off + size) with
      | .ok w => match C.dec typ w with
        | .ok (v, k) => readSubsWhile C typ blk ext size n (off + k) (acc ++ [v])
        | .err => .err
        | .panic => .panic
      | .err => .err
      | .panic => .panic
    else .ok (acc, off)

/-- `utils.GetNullTerminatedUnicodeString`: `for i := 0; i+1 < len(data); i += 2` collects 16-bit
    units until 0x0000; returns the bytes before it and `min(len(collected)+2, len(data))`.
    `fuel` is the structural argument. -/
def cstrUnicodeAux : (fuel : Nat) → Bytes → Nat → Bytes → Bytes
  | 0, _, _, acc => acc
  | n+1, d, i, acc =>
    match d[i]?, d[i+1]? with
    | some a, some b => if a = 0 ∧ b = 0 then acc else cstrUnicodeAux n d (i + 2) (acc ++ [a, b])
    | _, _ => acc

def cstrUnicode (d : Bytes) : Bytes × Nat :=
  let s := cstrUnicodeAux (d.length + 1) d 0 []
  (s, min (s.length + 2) d.length)

mutual
def runUStmt (C : Codecs) (s : UState) : UStmt → Step UState
  | .retIfEmpty p d =>
    if (!p || s.P.isEmpty) && (!d || s.D.isEmpty) then .ret else .next s
  | .resetOffset => .next { s with offset := 0 }
  | .guard b e =>
    match evalExpr s e with
    | some n => if (s.blk b).length < s.offset + n then .err else .next s
    | none => .stuck
  | .readInt b w e f =>
    liftO (fun st bs => { st with env := st.env.set f (.n (intVal e bs)) }) s (sliceC (s.blk b) (s.ext b) s.offset (s.offset + w))
  | .readQuad b w e f =>
    liftO (fun st bs => { st with env := st.env.set f (.n (intVal e bs)) }) s (sliceC (s.blk b) (s.ext b) s.offset (s.offset + w))
  | .readU8 b f =>
    liftO (fun st x => { st with env := st.env.set f (.n x.toNat) }) s (index (s.blk b) s.offset)
  | .readBytes b f n =>
    match evalExpr s n with
    | some k => liftO (fun st bs => { st with env := st.env.set f (.b bs) }) s (sliceC (s.blk b) (s.ext b) s.offset (s.offset + k))
    | none => .stuck
  | .readRest b f =>
    liftO (fun st bs => { st with env := st.env.set f (.b bs) }) s (sliceFrom (s.blk b) s.offset)
  | .readArr b f n =>
    liftO (fun st bs => { st with env := st.env.set f (.b bs) }) s (sliceC (s.blk b) (s.ext b) s.offset (s.offset + n))
  | .readSub b f typ win whole checked stores =>
    let window : Outcome Bytes :=
      if whole then .ok (s.blk b) else
      match win with
      | some n => sliceC (s.blk b) (s.ext b) s.offset (s.offset + n)
      | none => sliceFrom (s.blk b) s.offset
    match window with
    | .ok w =>
      match C.dec typ w with
      | .ok (v, k) => .next { s with env := s.env.set f (.t v), bytesRead := if stores then k else s.bytesRead }
      | .err =>
        if checked then .err else
        -- unchecked: the error is dropped; the receiver keeps what the failing decoder had assigned before it gave up
        match s.env.get f with
        | some (.t old) => .next { s with env := s.env.set f (.t (C.decFail typ w old)) }
        | _ => .next s
      | .panic => .panic
    | .err => .err
    | .panic => .panic
  | .advance e =>
    match evalExpr s e with
    | some n => .next { s with offset := s.offset + n }
    | none => .stuck
  | .advanceRead => .next { s with offset := s.offset + s.bytesRead }
  | .setPad e =>
    match evalExpr s e with
    | some n => .next { s with pad := n }
    | none => .stuck
  | .padRoundUp => .next { s with pad := if s.pad % 2 = 1 then s.pad + 1 else s.pad }
  | .padIfPOdd => .next { s with pad := if (s.P.length + 3) % 2 = 1 then 1 else s.pad }
  | .resliceD =>
    liftO (fun st bs => { st with D := bs }) s (sliceFrom s.D s.offset)
  | .ifWordCount k body => if s.wordCount = k then runUStmts C s body else .next s
  | .clear f => .next { s with env := s.env.set f (.ts []) }
  | .zeroInt f => .next { s with env := s.env.set f (.n 0) }
  | .zeroInts f n => .next { s with env := s.env.set f (.ns (List.replicate n 0)) }
  | .makeInts f g =>
    match s.env.get g with
    | some (.n k) => .next { s with env := s.env.set f (.ns (List.replicate k 0)) }
    | _ => .stuck
  | .forCountInt b w e f g =>
    match s.env.get g with
    | some (.n k) =>
      match readInts (s.blk b) (s.ext b) w e k s.offset [] with
      | .ok (xs, off) => .next { s with env := s.env.set f (.ns xs), offset := off }
      | .err => .err
      | .panic => .panic
    | _ => .stuck
  | .forRangeInt b w e f =>
    match s.env.get f with
    | some (.ns old) =>
      match readInts (s.blk b) (s.ext b) w e old.length s.offset [] with
      | .ok (xs, off) => .next { s with env := s.env.set f (.ns xs), offset := off }
      | .err => .err
      | .panic => .panic
    | _ => .stuck
  | .forCountSub b f g typ size =>
    match s.env.get g, s.env.get f with
    | some (.n k), some (.ts old) =>
      match readSubsCounted C typ (s.blk b) (s.ext b) size k s.offset old with
      | .ok (vs, off) => .next { s with env := s.env.set f (.ts vs), offset := off }
      | .err => .err
      | .panic => .panic
    | _, _ => .stuck
  | .whileFitsSub b f typ size =>
    match s.env.get f with
    | some (.ts old) =>
      match readSubsWhile C typ (s.blk b) (s.ext b) size ((s.blk b).length + 1) s.offset old with
      | .ok (vs, off) => .next { s with env := s.env.set f (.ts vs), offset := off }
      | .err => .err
      | .panic => .panic
    | _ => .stuck
  | .cstrUnicode f =>
    let (bs, off) := cstrUnicode s.D
    .next { s with env := s.env.set f (.b bs), offset := off }
  | .readArr3 b f =>
    match sliceC (s.blk b) (s.ext b) s.offset (s.offset + 4), sliceC (s.blk b) (s.ext b) (s.offset + 4) (s.offset + 8),
          sliceC (s.blk b) (s.ext b) (s.offset + 8) (s.offset + 12) with
    | .ok x, .ok y, .ok z => .next { s with env := s.env.set f (.ns [leNat x, leNat y, leNat z]) }
    | _, _, _ => .panic
  | .readAndX =>
    -- `andx.AndX.Unmarshal`: an error below four bytes; AndXCommand = P[0], AndXReserved = P[1],
    -- AndXOffset = BigEndian.Uint16(P[2:4]); kept under the pseudo-field `andxField`
    match s.P with
    | a :: b :: c :: d :: _ => .next { s with env := s.env.set andxField (andxVal a b c d) }
    | _ => .err
  | .resliceP n =>
    -- Go `P[n:]`: panics unless `n ≤ len(P)`; what lies behind the stream stays where it is
    liftO (fun st bs => { st with P := bs }) s (sliceFrom s.P n)
def runUStmts (C : Codecs) (s : UState) : List UStmt → Step UState
  | [] => .next s
  | st :: rest =>
    match runUStmt C s st with
    | .next s' => runUStmts C s' rest
    | .ret => .ret
    | .err => .err
    | .panic => .panic
    | .stuck => .stuck
end

/-- Unmarshal of a command body on the two streams: the environment of field values on success
    (also on the early `return 0, nil`), `err`, or `panic`.  `env0` = the values of a freshly
    constructed command (`New…()` + `Init()`). -/
def runU (C : Codecs) (c : Cmd) (env0 : Env) (wordCount : Nat) (P D : Bytes) (Pext Dext : Bytes := []) : Outcome Env :=
  let s0 : UState := { P := P, D := D, Pext := Pext, Dext := Dext, wordCount := wordCount, env := env0 }
  -- the early return keeps what has been assigned so far; we track it by re-running up to `ret`
  let rec go (s : UState) : List UStmt → Outcome Env
    | [] => .ok s.env
    | st :: rest =>
      match runUStmt C s st with
      | .next s' => go s' rest
      | .ret => .ok s.env
      | .err => .err
      | .panic => .panic
      | .stuck => .err      -- unreachable for the environments of real commands; the tie would expose it
  go s0 c.unmarshal

end Manticore.SmbIR
