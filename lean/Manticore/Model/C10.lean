/-
  C10 — model of `network/netbios/nbtns/name.go` (NetBIOSName.Validate, FirstLevelEncode,
  FirstLevelDecode, isValidDomainName) and `packet.go` (NBTNSPacket.Marshal / Unmarshal with
  appendEncodedName / readEncodedName), following the Go control flow of the tree *with* the two
  repairs fixes/C10-*.diff applied (RFC 1002 wire form of names; wildcard name allowed).

  Go strings are byte lists; `*NetBIOSName` fields are assumed non-nil; `Unmarshal` is modelled on a
  fresh (zero) packet.  The specification part at the end is written from RFC 1001 §14.1 and
  RFC 1002 §4.1/§4.2 (which reuse the RFC 1035 message grammar of `Manticore/Spec/DNS.lean`).
-/
import Manticore.Basic
import Manticore.Prims.Dots
import Manticore.Spec.DNS
namespace Manticore.C10
open Manticore

structure NBName where
  name : Bytes
  scope : Bytes
  deriving DecidableEq, Repr

def space : UInt8 := 32
def hyphen : UInt8 := 45

/-! ## names: model -/

/-- the character test of `isValidDomainName` (`for _, c := range part` decodes runes; every byte
    ≥ 0x80 yields a rune ≥ 0x80 or U+FFFD, none of which passes, so the test is per byte) -/
def ldh (c : UInt8) : Bool :=
  (97 ≤ c && c ≤ 122) || (65 ≤ c && c ≤ 90) || (48 ≤ c && c ≤ 57) || c == hyphen

/-- one dot-separated part in `isValidDomainName` -/
def partOk (p : Bytes) : Bool :=
  !(p.length == 0 || p.length > 63) && p.all ldh && !(p.head? == some hyphen) && !(p.getLast? == some hyphen)

/-- `isValidDomainName` -/
def isValidDomainName (s : Bytes) : Bool := !s.isEmpty && (splitDots s).all partOk

/-- `NetBIOSName.Validate`: true = `nil` -/
def validate (n : NBName) : Bool :=
  !(n.name.length > 16) && (n.scope.isEmpty || isValidDomainName n.scope)

/-- `encoded[i*2] = ((name[i] >> 4) & 0x0F) + 'A'; encoded[i*2+1] = (name[i] & 0x0F) + 'A'` -/
def encByte (b : UInt8) : Bytes := [((b >>> 4) &&& 0x0F) + 0x41, (b &&& 0x0F) + 0x41]

/-- the name padded to 16 bytes with spaces -/
def pad16 (name : Bytes) : Bytes := name ++ List.replicate (16 - name.length) space

/-- `NetBIOSName.FirstLevelEncode` -/
def firstLevelEncode (n : NBName) : Outcome Bytes :=
  if !validate n then .err
  else if n.scope = [] then .ok ((pad16 n.name).flatMap encByte)
  else .ok ((pad16 n.name).flatMap encByte ++ dot :: n.scope)

/-- `strings.SplitN(s, ".", 2)`: the part before the first dot, and the rest if there is a dot -/
def splitFirstDot : Bytes → Bytes × Option Bytes
  | [] => ([], none)
  | c :: r => if c = dot then ([], some r) else ((c :: (splitFirstDot r).1), (splitFirstDot r).2)

/-- the decoding loop over the 16 pairs (the length was checked to be 32 before) -/
def decPairs : Bytes → Outcome Bytes
  | [] => .ok []
  | [_] => .panic
  | hi :: lo :: rest =>
    if hi - 0x41 > 0x0F || lo - 0x41 > 0x0F then .err
    else
      match decPairs rest with
      | .ok d => .ok ((((hi - 0x41) <<< 4) ||| (lo - 0x41)) :: d)
      | .err => .err
      | .panic => .panic

/-- `bytes.TrimRight(b, " ")` -/
def trimRight (b : Bytes) : Bytes := (b.reverse.dropWhile (· == space)).reverse

/-- `FirstLevelDecode` -/
def firstLevelDecode (encoded : Bytes) : Outcome NBName :=
  if (splitFirstDot encoded).1.length ≠ 32 then .err
  else
    match decPairs (splitFirstDot encoded).1 with
    | .ok d => .ok { name := trimRight d, scope := (splitFirstDot encoded).2.getD [] }
    | .err => .err
    | .panic => .panic

/-! ## packets: model -/

structure Question where
  name : NBName
  qtype : UInt16
  qclass : UInt16
  deriving DecidableEq, Repr

structure RR where
  name : NBName
  rtype : UInt16
  rclass : UInt16
  ttl : UInt32
  rdlength : UInt16
  rdata : Bytes
  deriving DecidableEq, Repr

structure Header where
  id : UInt16
  flags : UInt16
  questions : UInt16
  answers : UInt16
  authority : UInt16
  additional : UInt16
  deriving DecidableEq, Repr

structure Packet where
  hdr : Header
  questions : List Question
  answers : List RR
  authority : List RR
  additional : List RR
  deriving DecidableEq, Repr

/-- the loop of `appendEncodedName` over the dot-separated labels -/
def appendLabels : List Bytes → Bytes → Outcome Bytes
  | [], buf => .ok buf
  | l :: ls, buf =>
    if l.length = 0 ∨ l.length > 63 then .err
    else appendLabels ls (buf ++ UInt8.ofNat l.length :: l)

/-- `appendEncodedName` -/
def appendEncodedName (buf encoded : Bytes) : Outcome Bytes :=
  if encoded.length + 2 > 255 then .err
  else
    match appendLabels (splitDots encoded) buf with
    | .ok b => .ok (b ++ [0])
    | .err => .err
    | .panic => .panic

/-- one question in `Marshal` -/
def marshalQ (buf : Bytes) (q : Question) : Outcome Bytes :=
  match firstLevelEncode q.name with
  | .ok enc =>
    match appendEncodedName buf enc with
    | .ok b => .ok (b ++ putBe16 q.qtype ++ putBe16 q.qclass)
    | .err => .err
    | .panic => .panic
  | .err => .err
  | .panic => .panic

/-- one resource record in `Marshal` (`rr.RDLength` is written as it is) -/
def marshalRR (buf : Bytes) (r : RR) : Outcome Bytes :=
  match firstLevelEncode r.name with
  | .ok enc =>
    match appendEncodedName buf enc with
    | .ok b => .ok (b ++ putBe16 r.rtype ++ putBe16 r.rclass ++ putBe32 r.ttl ++ putBe16 r.rdlength ++ r.rdata)
    | .err => .err
    | .panic => .panic
  | .err => .err
  | .panic => .panic

def marshalAll {α} (f : Bytes → α → Outcome Bytes) : List α → Bytes → Outcome Bytes
  | [], buf => .ok buf
  | x :: xs, buf =>
    match f buf x with
    | .ok b => marshalAll f xs b
    | .err => .err
    | .panic => .panic

/-- `NBTNSPacket.Marshal`: the six header words are written from the header fields as they are -/
def marshal (p : Packet) : Outcome Bytes :=
  let buf := putBe16 p.hdr.id ++ putBe16 p.hdr.flags ++ putBe16 p.hdr.questions ++ putBe16 p.hdr.answers
    ++ putBe16 p.hdr.authority ++ putBe16 p.hdr.additional
  match marshalAll marshalQ p.questions buf with
  | .ok b1 => marshalAll marshalRR (p.answers ++ p.authority ++ p.additional) b1
  | .err => .err
  | .panic => .panic

/-- the loop of `readEncodedName`; `labels` = collected so far -/
def readEncodedName (data : Bytes) (offset : Nat) (labels : List Bytes) : Outcome (Bytes × Nat) :=
  if h : data.length ≤ offset then .err                               -- "truncated name"
  else
    if (data[offset]'(by omega)) = 0 then .ok (joinDots labels, offset + 1)
    else if (data[offset]'(by omega)).toNat > 63 then .err            -- "unsupported label type"
    else if offset + 1 + (data[offset]'(by omega)).toNat > data.length then .err   -- "truncated name"
    else readEncodedName data (offset + 1 + (data[offset]'(by omega)).toNat)
           (labels ++ [(data.drop (offset + 1)).take (data[offset]'(by omega)).toNat])
termination_by data.length - offset
decreasing_by omega

/-- `binary.BigEndian.Uint16(data[off : off+2])` -/
def rd16 (data : Bytes) (off : Nat) : Outcome UInt16 :=
  match slice data off (off + 2) with
  | .ok [a, b] => .ok (be16 a b)
  | .ok _ => .panic
  | .err => .err
  | .panic => .panic

def rd32 (data : Bytes) (off : Nat) : Outcome UInt32 :=
  match slice data off (off + 4) with
  | .ok [a, b, c, d] => .ok (be32 a b c d)
  | .ok _ => .panic
  | .err => .err
  | .panic => .panic

/-- one question in `Unmarshal` -/
def unmarshalQ (data : Bytes) (offset : Nat) : Outcome (Question × Nat) :=
  match readEncodedName data offset [] with
  | .ok (enc, next) =>
    match firstLevelDecode enc with
    | .ok name =>
      if next + 4 > data.length then .err                             -- "truncated question"
      else
        match rd16 data next, rd16 data (next + 2) with
        | .ok t, .ok c => .ok ({ name := name, qtype := t, qclass := c }, next + 4)
        | _, _ => .panic
    | .err => .err
    | .panic => .panic
  | .err => .err
  | .panic => .panic

/-- one resource record in `unmarshalRRs` -/
def unmarshalRR (data : Bytes) (offset : Nat) : Outcome (RR × Nat) :=
  match readEncodedName data offset [] with
  | .ok (enc, next) =>
    match firstLevelDecode enc with
    | .ok name =>
      if next + 10 > data.length then .err                            -- "truncated resource record"
      else
        match rd16 data next, rd16 data (next + 2), rd32 data (next + 4), rd16 data (next + 8) with
        | .ok t, .ok c, .ok ttl, .ok rdl =>
          if next + 10 + rdl.toNat > data.length then .err            -- "truncated RDATA"
          else
            match slice data (next + 10) (next + 10 + rdl.toNat) with
            | .ok rd => .ok ({ name := name, rtype := t, rclass := c, ttl := ttl, rdlength := rdl, rdata := rd },
                            next + 10 + rdl.toNat)
            | .err => .err
            | .panic => .panic
        | _, _, _, _ => .panic
    | .err => .err
    | .panic => .panic
  | .err => .err
  | .panic => .panic

def unmarshalMany {α} (dec : Bytes → Nat → Outcome (α × Nat)) (data : Bytes) : Nat → Nat → Outcome (List α × Nat)
  | 0, off => .ok ([], off)
  | n+1, off =>
    match dec data off with
    | .ok (x, off') =>
      match unmarshalMany dec data n off' with
      | .ok (xs, o) => .ok (x :: xs, o)
      | .err => .err
      | .panic => .panic
    | .err => .err
    | .panic => .panic

/-- `NBTNSPacket.Unmarshal` on a fresh packet: (bytes read = `len(data)`, packet) -/
def unmarshal (data : Bytes) : Outcome (Nat × Packet) :=
  if data.length < 12 then .err                                        -- "packet too short"
  else
    match rd16 data 0, rd16 data 2, rd16 data 4, rd16 data 6, rd16 data 8, rd16 data 10 with
    | .ok id, .ok fl, .ok qd, .ok an, .ok ns, .ok ar =>
      match unmarshalMany unmarshalQ data qd.toNat 12 with
      | .ok (qs, o1) =>
        match unmarshalMany unmarshalRR data an.toNat o1 with
        | .ok (as, o2) =>
          match unmarshalMany unmarshalRR data ns.toNat o2 with
          | .ok (nss, o3) =>
            match unmarshalMany unmarshalRR data ar.toNat o3 with
            | .ok (ars, _) =>
              .ok (data.length,
                   { hdr := { id := id, flags := fl, questions := qd, answers := an, authority := ns, additional := ar },
                     questions := qs, answers := as, authority := nss, additional := ars })
            | .err => .err
            | .panic => .panic
          | .err => .err
          | .panic => .panic
        | .err => .err
        | .panic => .panic
      | .err => .err
      | .panic => .panic
    | _, _, _, _, _, _ => .panic

/-! ## specification: RFC 1001 §14.1 and RFC 1002 §4.1 / §4.2 -/

/-- RFC 1001 §14.1: "each half-octet of the NetBIOS name is encoded into one byte of the 32 byte
    field … by adding the value of ASCII 'A'": written on numbers -/
def halfAscii (b : UInt8) : Bytes := [UInt8.ofNat (65 + b.toNat / 16), UInt8.ofNat (65 + b.toNat % 16)]

/-- the 32-character first-level form of a 16-byte name -/
def l1 (name16 : Bytes) : Bytes := name16.flatMap halfAscii

/-- the inverse on numbers: a pair of characters 'A'..'P' is one byte -/
def unHalfAscii : Bytes → Option Bytes
  | [] => some []
  | [_] => none
  | hi :: lo :: rest =>
    if 65 ≤ hi.toNat ∧ hi.toNat ≤ 80 ∧ 65 ≤ lo.toNat ∧ lo.toNat ≤ 80 then
      (unHalfAscii rest).map (fun d => UInt8.ofNat ((hi.toNat - 65) * 16 + (lo.toNat - 65)) :: d)
    else none

/-- RFC 1002 §4.1: the name on the wire is the domain name whose first label is the 32-character
    first-level form and whose further labels are the labels of the scope identifier -/
def nbLabels (n : NBName) : Spec.DNS.Name :=
  l1 (pad16 n.name) :: (if n.scope = [] then [] else splitDots n.scope)

/-- the name fits the 255-octet limit of a name on the wire -/
def Fits (n : NBName) : Prop := (Spec.DNS.nameWire (nbLabels n)).length ≤ 255
instance (n : NBName) : Decidable (Fits n) := by unfold Fits; exact inferInstance

/-- a name the property speaks about: at most 16 bytes, a valid scope identifier (or none), within
    the wire limit -/
def ValidNB (n : NBName) : Prop := validate n = true ∧ Fits n
instance (n : NBName) : Decidable (ValidNB n) := by unfold ValidNB; exact inferInstance

def toDNSQ (q : Question) : Spec.DNS.Question := { name := nbLabels q.name, qtype := q.qtype, qclass := q.qclass }
def toDNSR (r : RR) : Spec.DNS.RR :=
  { name := nbLabels r.name, rtype := r.rtype, rclass := r.rclass, ttl := r.ttl, rdata := r.rdata }

/-- the packet as an RFC 1002 §4.2 (= RFC 1035 §4.1) message -/
def toDNS (p : Packet) : Spec.DNS.Message :=
  { id := p.hdr.id, flags := p.hdr.flags, qd := p.questions.map toDNSQ, an := p.answers.map toDNSR,
    ns := p.authority.map toDNSR, ar := p.additional.map toDNSR }

/-- well-formed packet: the header counts are the section sizes and every RDLength is the length of
    its RDATA (`Marshal` trusts these fields), every name is valid -/
def WF (p : Packet) : Prop :=
  p.hdr.questions.toNat = p.questions.length ∧ p.hdr.answers.toNat = p.answers.length ∧
  p.hdr.authority.toNat = p.authority.length ∧ p.hdr.additional.toNat = p.additional.length ∧
  (∀ q ∈ p.questions, ValidNB q.name) ∧
  (∀ r ∈ p.answers ++ p.authority ++ p.additional, ValidNB r.name ∧ r.rdlength.toNat = r.rdata.length)
instance (p : Packet) : Decidable (WF p) := by unfold WF; exact inferInstance

/-- what a decoder returns for a name: the space padding is gone -/
def canonName (n : NBName) : NBName := { n with name := trimRight n.name }
def canonQ (q : Question) : Question := { q with name := canonName q.name }
def canonR (r : RR) : RR := { r with name := canonName r.name }
def canonPkt (p : Packet) : Packet :=
  { p with questions := p.questions.map canonQ, answers := p.answers.map canonR,
           authority := p.authority.map canonR, additional := p.additional.map canonR }

end Manticore.C10
