/-
  C07, allocation clause, key-credential decoders (models of C14 and C15): the SIZE of a decoded
  value and what the Go function has ALLOCATED when it returns (`…AllocOf`), following the Go
  statements in their order, on every path (0 when the function returns before the statement).

  Size measure (the same for every structure): one per byte of every byte-string field (also when
  the field is a slice VIEW of the input, as `KeyHash`, `Modulus`, `RawBytes`), 8 per number / flag /
  time field (also for the Go `RawBytesSize` fields that the models keep implicit).

  What the Go code allocates by a length taken from the input (read in /repo on this run, go1.24):
    DNWithBinary.go:41       hex.DecodeString(string(parts[2]))   = make([]byte, len(s)/2) in encoding/hex,
                             reached after `strconv.Atoi(parts[1])` succeeded; the announced `size` is only
                             COMPARED (line 46), never used as a length.  :50 string(parts[3]) copies the DN.
    key/CustomKeyInformation.go:91   make([]byte, 10)                 behind `RawBytesSize >= 19`
    key/CustomKeyInformation.go:99   make([]byte, RawBytesSize-19)    behind `19 < RawBytesSize`; the length is
                             `len(blob)`, not a number read from the blob.
    crypto/RSAKeyMaterial.go:92-96   NO make: `Modulus`, `Prime1`, `Prime2` are slice views
                             `value[offset : offset+int(size)]` with sizes read from the header, behind the
                             check of line 78 (sum of the four sizes against `len(value)-24`, in uint64).
    KeyCredential.go:200     ConvertFromBinaryIdentifier(entryData) = hex.EncodeToString / base64 EncodeToString
                             (2n resp. 4*ceil(n/3) bytes), :213 string(entryData), :226 CustomKeyInformation.FromBytes;
                             every other field is a view of the blob or a number.
    utils/utils.go:40-44     hex.DecodeString = make(len/2); base64.RawStdEncoding.DecodeString =
                             make(n/4*3 + n%4*6/8) with n the length after `strings.TrimRight(s, "=")`.
  No site in this family allocates by an announced count before checking it.

  Core Lean only.
-/
import Manticore.Model.C14
import Manticore.Model.C15
namespace Manticore.C14
open Manticore

/-! ## sizes -/

/-- `guid.GUID`: five numbers -/
def Guid.size (_ : Guid) : Nat := 40

/-- `crypto.RSAKeyMaterial`: `KeySize`, `Exponent`, `RawBytesSize` (3 numbers) and the four byte strings -/
def RSAKeyMaterial.size (m : RSAKeyMaterial) : Nat :=
  24 + m.modulus.length + m.prime1.length + m.prime2.length + m.rawBytes.length

/-- `key.CustomKeyInformation`: `Version`, `Flags`, `VolumeType`, `SupportsNotification`,
    `FekKeyVersion`, `Strength`, `RawBytesSize` (7 numbers) and the three byte strings -/
def CKI.size (c : CKI) : Nat :=
  56 + c.reserved.length + c.extended.length + c.rawBytes.length

/-- the part of a `CustomKeyInformation` that `FromBytes` allocates (the rest is a view or a number) -/
def CKI.owned (c : CKI) : Nat := c.reserved.length + c.extended.length

/-- `KeyCredential`: `Version`, `Usage`, `Source`, `LastLogonTime`, `CreationTime`, `RawBytesSize`
    (6 numbers), the byte strings, and the three nested structures -/
def KeyCredential.size (k : KeyCredential) : Nat :=
  48 + k.identifier.length + k.keyHash.length + k.material.size + k.legacyUsage.length +
    k.cki.size + k.deviceId.size + k.rawBytes.length

/-- the fields of a `KeyCredential` that `FromBytes` allocates: the identifier text, the legacy usage
    string, the two copies inside the custom key information (all other fields are views of the blob
    or numbers) -/
def KeyCredential.owned (k : KeyCredential) : Nat :=
  k.identifier.length + k.legacyUsage.length + k.cki.owned

/-- `key.KeyCredentialVersion` as `versionFromBytes` returns it: `Value`, `RawBytesSize` (2 numbers)
    and the view `RawBytes = value[:4]` whose length is `RawBytesSize` -/
def versionSize (r : UInt32 × Nat) : Nat := 16 + r.2

/-- `utils.DateTime`: `Ticks` and the two numbers through which the model observes `Time` -/
def kcTimeSize (_ : Manticore.C15.KcTime) : Nat := 24

/-- `DNWithBinary` as `dnParse` returns it: `BinaryData` and `DistinguishedName` -/
def dnSize (r : Bytes × Bytes) : Nat := r.1.length + r.2.length

/-! ## `DNWithBinary.Parse` -/

/-- bytes in the buffers that `DNWithBinary.Parse` has made when it returns:
    nothing on the three early returns (fewer than four parts, `Atoi` error); then
    `hex.DecodeString` makes `len(parts[2])/2` bytes (whether or not the text then decodes); then, behind
    the comparison of the announced size with the decoded length, `string(parts[3])` -/
def dnAllocOf (raw : Bytes) : Nat :=
  match splitColon raw with
  | some (_, r1) =>
    match splitColon r1 with
    | some (p1, r2) =>
      match splitColon r2 with
      | some (p2, p3) =>
        match atoi p1 with
        | some size =>
          p2.length / 2 +
            (match hexDecode p2 with
             | some bin => if ((bin.length * 2 : Nat) : Int) ≠ size then 0 else p3.length
             | none => 0)
        | none => 0
      | none => 0
    | none => 0
  | none => 0

/-- the string/byte conversions of the three parts (`string(parts[1])`, `string(parts[2])`,
    `[]byte(s)` inside `hex.DecodeString`): copies of pieces of the input, short-lived -/
def dnTransientOf (raw : Bytes) : Nat :=
  match splitColon raw with
  | some (_, r1) =>
    match splitColon r1 with
    | some (p1, r2) =>
      match splitColon r2 with
      | some (p2, _) =>
        p1.length + (match atoi p1 with
          | some _ => p2.length + p2.length
          | none => 0)
      | none => 0
    | none => 0
  | none => 0

/-- the defect the clause is about, as a model: `make([]byte, size/2)` right after `Atoi`, in front of
    the comparison with the decoded length -/
def dnAllocEager (raw : Bytes) : Nat :=
  match splitColon raw with
  | some (_, r1) =>
    match splitColon r1 with
    | some (p1, r2) =>
      match splitColon r2 with
      | some (_, _) =>
        match atoi p1 with
        | some size => size.toNat / 2
        | none => 0
      | none => 0
    | none => 0
  | none => 0

/-! ## `CustomKeyInformation.FromBytes` -/

/-- bytes `CustomKeyInformation.FromBytes` has made when it returns: nothing on the returns of the
    ladder below 19 bytes (and on the two error returns); `Reserved = make([]byte, 10)` from 19 bytes
    on; `EncodedExtendedCKI = make([]byte, RawBytesSize-19)` above 19 -/
def ckiAllocOf (blob : Bytes) : Nat :=
  match blob with
  | v :: _ :: _ =>
    if v != 1 then 0
    else if blob.length < 19 then 0
    else if blob.length ≤ 19 then 10
    else 10 + (blob.length - 19)
  | _ => 0

/-! ## `RSAKeyMaterial.FromBytes` -/

/-- `RSAKeyMaterial.FromBytes` contains no `make`.  What it creates by sizes read from the header are
    the three slice views `value[offset : offset+int(size)]`; this counts the bytes they span when the
    function returns (0 on the three error returns, which all come before the first slice expression).
    A variant of the function that copied the fields (`make` + `copy`) would allocate exactly this. -/
def rsaAllocOf (value : Bytes) : Nat :=
  if value.length < 24 then 0
  else if value.take 4 != magicRSA1 then 0
  else
    let eSize := (le32At value 8).toNat
    let mSize := (le32At value 12).toNat
    let p1Size := (le32At value 16).toNat
    let p2Size := (le32At value 20).toNat
    if eSize + mSize + p1Size + p2Size > value.length - 24 then 0
    else mSize + p1Size + p2Size

/-- the defect as a model: the three fields sized by the header without the check of line 78 -/
def rsaAllocEager (value : Bytes) : Nat :=
  if value.length < 24 then 0
  else if value.take 4 != magicRSA1 then 0
  else (le32At value 12).toNat + (le32At value 16).toNat + (le32At value 20).toNat

/-! ## `ConvertToBinaryIdentifier` -/

/-- `DecodedLen` of `base64.RawStdEncoding` -/
def b64RawDecodedLen (n : Nat) : Nat := n / 4 * 3 + n % 4 * 6 / 8

/-- the buffer `ConvertToBinaryIdentifier` makes: `hex.DecodeString` → `make([]byte, len(s)/2)`;
    `base64.RawStdEncoding.DecodeString(strings.TrimRight(s, "="))` → `make([]byte, DecodedLen(len(trimmed)))` -/
def toBinaryIdAllocOf (s : Bytes) (v : UInt32) : Nat :=
  if isHexVersion v then s.length / 2 else b64RawDecodedLen (trimRightEq s).length

/-! ## `KeyCredential.FromBytes` -/

/-- what one turn of the `switch` allocates: the identifier text (`hex.EncodeToString` /
    `base64.StdEncoding.EncodeToString`), `string(entryData)` for a legacy usage, the two `make`s of
    `CustomKeyInformation.FromBytes`; the other cases keep views of the blob or numbers -/
def entryAllocOf (version : UInt32) (t : UInt8) (data : Bytes) : Nat :=
  if t = 1 then (fromBinaryId data version).length
  else if t = 4 then (match data with | [_] => 0 | _ => data.length)
  else if t = 7 then ckiAllocOf data
  else 0

/-- everything the loop of `FromBytes` has allocated when the function returns (the sum over all
    entries it went through, including those whose result a later entry of the same type replaced);
    it follows `parseLoop`: the length check first, then the `switch`, and it stops where the loop
    returns an error -/
def parseLoopAllocOf (k : KeyCredential) (rem : Bytes) : Nat :=
  match rem with
  | l0 :: l1 :: t :: x :: rest' =>
    let rest := x :: rest'
    let n := (le16 l0 l1).toNat
    if n > rest.length then 0
    else
      match applyEntry k t (rest.take n) (rest.drop n) with
      | .ok k' => entryAllocOf k.version t (rest.take n) + parseLoopAllocOf k' (rest.drop n)
      | .err => entryAllocOf k.version t (rest.take n)
      | .panic => 0
  | _ => 0
termination_by rem.length
decreasing_by simp [List.length_drop]; omega

/-- `KeyCredential.FromBytes`: nothing before the version field is there, then the loop -/
def kcAllocOf (k : KeyCredential) (b : Bytes) : Nat :=
  match b with
  | v0 :: v1 :: v2 :: v3 :: rest =>
    parseLoopAllocOf { k with rawBytes := b, version := le32 v0 v1 v2 v3 } rest
  | _ => 0

end Manticore.C14
