/-
  C03 — model of the SMB1 message envelope
    network/smb/smb_v10/message/header/header.go, header_functions.go   (Header.Marshal/Unmarshal, GetPID/SetPID, IsResponse)
    network/smb/smb_v10/message/securityfeatures/*.go                    (the three 8-byte variants)
    network/smb/smb_v10/message/parameters/parameters.go                 (Parameters)
    network/smb/smb_v10/message/data/data.go                             (Data)
    network/smb/smb_v10/message/commands/command_interface + the Marshal/Unmarshal template every
      concrete command follows (commands/CloseRequest.go …), with the command-specific field
      encodings abstracted to the two byte strings `rawParametersContent` / `rawDataContent`
    network/smb/smb_v10/message/commands/0.command_casting.go            (factories; tables regenerated: Gen/SmbDispatch.lean)
    network/smb/smb_v10/message/message.go                               (Message.AddCommand/Marshal/Unmarshal)
  following the Go control flow, and the MS-CIFS 2.2.3.1 / 2.2.3.2 / 2.2.3.3 specification.

  The model is of the tree WITH fixes/C03-*.diff applied (message.go resets the blocks before
  Command.Marshal; Data.Unmarshal guards `len(data) < 2`; AddWordsFromBytesStream keeps a trailing
  odd byte in place).  The section "before the fixes" at the end keeps the three old
  transliterations, used only by the `*_before_fix` witnesses of Props/C03.lean.
-/
import Manticore.Basic
import Manticore.Gen.SmbDispatch
namespace Manticore.C03
open Manticore
open Manticore.Gen.SmbDispatch (Kind requestCases responseCases)

/-! ## fixed-size byte arrays (`[4]byte`, `[8]byte`) -/

structure Arr4 where
  b0 : UInt8
  b1 : UInt8
  b2 : UInt8
  b3 : UInt8
  deriving DecidableEq, Repr, Inhabited

structure Arr8 where
  b0 : UInt8
  b1 : UInt8
  b2 : UInt8
  b3 : UInt8
  b4 : UInt8
  b5 : UInt8
  b6 : UInt8
  b7 : UInt8
  deriving DecidableEq, Repr, Inhabited

def Arr4.toList (a : Arr4) : Bytes := [a.b0, a.b1, a.b2, a.b3]
def Arr8.toList (a : Arr8) : Bytes := [a.b0, a.b1, a.b2, a.b3, a.b4, a.b5, a.b6, a.b7]
def Arr8.zero : Arr8 := ⟨0, 0, 0, 0, 0, 0, 0, 0⟩

/-! ## readers: a Go slice expression followed by `binary.*Endian.UintN` / `copy` -/

/-- `binary.LittleEndian.Uint16(d[lo:lo+2])` -/
def rdLe16 (d : Bytes) (lo : Nat) : Outcome UInt16 :=
  match slice d lo (lo + 2) with
  | .ok (a :: b :: _) => .ok (le16 a b)
  | .ok _ => .panic
  | .err => .err
  | .panic => .panic

/-- `binary.BigEndian.Uint16(d[lo:lo+2])` -/
def rdBe16 (d : Bytes) (lo : Nat) : Outcome UInt16 :=
  match slice d lo (lo + 2) with
  | .ok (a :: b :: _) => .ok (be16 a b)
  | .ok _ => .panic
  | .err => .err
  | .panic => .panic

/-- `binary.LittleEndian.Uint32(d[lo:lo+4])` -/
def rdLe32 (d : Bytes) (lo : Nat) : Outcome UInt32 :=
  match slice d lo (lo + 4) with
  | .ok (a :: b :: c :: e :: _) => .ok (le32 a b c e)
  | .ok _ => .panic
  | .err => .err
  | .panic => .panic

/-- `copy(arr[:], d[lo:lo+4])` into a fresh `[4]byte` -/
def rdArr4 (d : Bytes) (lo : Nat) : Outcome Arr4 :=
  match slice d lo (lo + 4) with
  | .ok (a :: b :: c :: e :: _) => .ok ⟨a, b, c, e⟩
  | .ok _ => .panic
  | .err => .err
  | .panic => .panic

/-- `copy(arr[:], d[lo:lo+8])` into a fresh `[8]byte` -/
def rdArr8 (d : Bytes) (lo : Nat) : Outcome Arr8 :=
  match slice d lo (lo + 8) with
  | .ok (a :: b :: c :: e :: f :: g :: h :: i :: _) => .ok ⟨a, b, c, e, f, g, h, i⟩
  | .ok _ => .panic
  | .err => .err
  | .panic => .panic

/-! ## SecurityFeatures: model -/

/-- the three implementations of the `SecurityFeatures` interface -/
inductive SecFeat where
  | reserved (a : Arr8)                                  -- SecurityFeaturesReserved{Reserved [8]byte}
  | signature (a : Arr8)                                 -- SecurityFeaturesSecuritySignature{SecuritySignature [8]byte}
  | connectionless (key : UInt32) (cid seq : UInt16)     -- SecurityFeaturesConnectionlessTransport{Key, CID, SequenceNumber}
  deriving DecidableEq, Repr, Inhabited

/-- `Marshal()` of each variant (none of them returns an error) -/
def SecFeat.marshal : SecFeat → Outcome Bytes
  | .reserved a => .ok a.toList
  | .signature a => .ok a.toList
  | .connectionless key cid seq => .ok (putLe32 key ++ putLe16 cid ++ putLe16 seq)

/-- the 8 bytes a variant puts on the wire -/
def SecFeat.bytes : SecFeat → Arr8
  | .reserved a => a
  | .signature a => a
  | .connectionless key cid seq =>
    ⟨key.toUInt8, (key >>> 8).toUInt8, (key >>> 16).toUInt8, (key >>> 24).toUInt8,
     cid.toUInt8, (cid >>> 8).toUInt8, seq.toUInt8, (seq >>> 8).toUInt8⟩

/-- `Unmarshal(data)` on a receiver of the given variant: `if len(data) < 8 { err }`, then the
    variant's reads; returns the new value and the `8` bytes read -/
def SecFeat.unmarshalAs (receiver : SecFeat) (data : Bytes) : Outcome (SecFeat × Nat) :=
  if data.length < 8 then .err else
  match receiver with
  | .reserved _ => do let a ← rdArr8 data 0; pure (.reserved a, 8)
  | .signature _ => do let a ← rdArr8 data 0; pure (.signature a, 8)
  | .connectionless _ _ _ => do
      let key ← rdLe32 data 0
      let cid ← rdLe16 data 4
      let seq ← rdLe16 data 6
      pure (.connectionless key cid seq, 8)

/-! ## Header: model -/

structure Header where
  protocol : Arr4            -- [4]byte
  command : UInt8            -- codes.CommandCode (uint8)
  status : UInt32            -- types.ULONG
  flags : UInt16             -- flags.Flags is declared `uint16`; ONE byte goes on the wire
  flags2 : UInt16            -- flags2.Flags2 (uint16)
  pidHigh : UInt16
  sec : SecFeat
  reserved : UInt16
  tid : UInt16
  pidLow : UInt16
  uid : UInt16
  mid : UInt16
  deriving DecidableEq, Repr, Inhabited

/-- `NewHeader()` -/
def Header.new : Header :=
  { protocol := ⟨0xFF, 0x53, 0x4D, 0x42⟩, command := 0, status := 0, flags := 0, flags2 := 0, pidHigh := 0,
    sec := .reserved Arr8.zero, reserved := 0, tid := 0, pidLow := 0, uid := 0, mid := 0 }

/-- `Header.Marshal`: appends in source order; `byte(h.Flags)` truncates the 16-bit flags;
    the final `len(buf) != SMB_HEADER_SIZE` check is modelled as written -/
def marshalHeader (h : Header) : Outcome Bytes :=
  match h.sec.marshal with
  | .ok sf =>
    let buf := h.protocol.toList ++ [h.command] ++ putLe32 h.status ++ [h.flags.toUInt8] ++ putLe16 h.flags2 ++
      putLe16 h.pidHigh ++ sf ++ putLe16 h.reserved ++ putLe16 h.tid ++ putLe16 h.pidLow ++ putLe16 h.uid ++ putLe16 h.mid
    if buf.length ≠ 32 then .err else .ok buf
  | .err => .err
  | .panic => .panic

/-- `Header.Unmarshal`: length guard, then fixed offsets; the security features are always read
    into a fresh `SecurityFeaturesReserved`; returns the header and `bytesRead` -/
def unmarshalHeader (data : Bytes) : Outcome (Header × Nat) :=
  if data.length < 32 then .err else do
    let protocol ← rdArr4 data 0
    let command ← index data 4
    let status ← rdLe32 data 5
    let flags ← index data 9
    let flags2 ← rdLe16 data 10
    let pidHigh ← rdLe16 data 12
    let sfBytes ← slice data 14 22
    let (sec, n) ← SecFeat.unmarshalAs (.reserved Arr8.zero) sfBytes
    if n ≠ 8 then .err else do
    let reserved ← rdLe16 data (14 + n)
    let tid ← rdLe16 data (16 + n)
    let pidLow ← rdLe16 data (18 + n)
    let uid ← rdLe16 data (20 + n)
    let mid ← rdLe16 data (22 + n)
    if 24 + n ≠ 32 then .err else
    pure ({ protocol, command, status, flags := flags.toUInt16, flags2, pidHigh, sec, reserved, tid, pidLow, uid, mid }, 24 + n)

/-- `GetPID`: `(ULONG(PIDHigh) << 16) | ULONG(PIDLow)` -/
def getPID (h : Header) : UInt32 := (h.pidHigh.toUInt32 <<< 16) ||| h.pidLow.toUInt32

/-- `SetPID`: `PIDHigh = USHORT(pid >> 16); PIDLow = USHORT(pid & 0xFFFF)` -/
def setPID (h : Header) (pid : UInt32) : Header :=
  { h with pidHigh := (pid >>> 16).toUInt16, pidLow := (pid &&& 0xFFFF).toUInt16 }

/-- `IsResponse`: `h.Flags & FLAGS_REPLY == FLAGS_REPLY` with `FLAGS_REPLY = 0x80` -/
def isResponse (h : Header) : Bool := h.flags &&& 0x80 == 0x80

/-! ## Parameters: model -/

structure Params where
  wordCount : UInt8
  words : List UInt16
  deriving DecidableEq, Repr, Inhabited

/-- `NewParameters()` -/
def Params.new : Params := ⟨0, []⟩

/-- `AddWord`: appends, then `WordCount = uint8(len(Words) * 2)` (sic: twice the number of words) -/
def Params.addWord (p : Params) (w : UInt16) : Params :=
  let ws := p.words ++ [w]
  ⟨UInt8.ofNat (ws.length * 2), ws⟩

/-- the loop of `AddWordsFromBytesStream`: pairs become `hi<<8 | lo`; a trailing single byte `b`
    becomes `b<<8` (fixes/C03-odd-parameter-byte.diff; it was `uint16(b)`) -/
def wordsOfStream : Bytes → List UInt16
  | [] => []
  | [b] => [b.toUInt16 <<< 8]
  | a :: b :: rest => ((a.toUInt16 <<< 8) ||| b.toUInt16) :: wordsOfStream rest

/-- `AddWordsFromBytesStream`: `Words = append(Words, parameters...); WordCount = uint8(len(Words))` -/
def Params.addStream (p : Params) (s : Bytes) : Params :=
  let ws := p.words ++ wordsOfStream s
  ⟨UInt8.ofNat ws.length, ws⟩

/-- `GetBytesStream` (= `GetBytes`): every word high byte first -/
def Params.bytesStream (p : Params) : Bytes :=
  p.words.flatMap (fun (w : UInt16) => [(w >>> 8).toUInt8, (w &&& 0xFF).toUInt8])

/-- `Parameters.Marshal`: the guard `WordCount != uint8(len(Words))`, the count byte, and — only
    when `WordCount > 0` — every word big-endian -/
def Params.marshal (p : Params) : Outcome Bytes :=
  if p.wordCount ≠ UInt8.ofNat p.words.length then .err
  else .ok (p.wordCount :: (if p.wordCount > 0 then p.words.flatMap putBe16 else []))

/-- the loop `for i := 0; i < int(WordCount); i++ { Words[i] = BigEndian.Uint16(data[i*2 : 2+i*2]) }`
    as recursion on the number of remaining iterations -/
def readWords (d : Bytes) : (i remaining : Nat) → Outcome (List UInt16)
  | _, 0 => .ok []
  | i, n + 1 =>
    match rdBe16 d (i * 2) with
    | .ok w =>
      match readWords d (i + 1) n with
      | .ok ws => .ok (w :: ws)
      | .err => .err
      | .panic => .panic
    | .err => .err
    | .panic => .panic

/-- `Parameters.Unmarshal`: returns the new value and `bytesRead` -/
def Params.unmarshal (data : Bytes) : Outcome (Params × Nat) :=
  match data with
  | [] => .err                                   -- len(data) == 0
  | wc :: rest =>                                -- WordCount = data[0]; data = data[1:]
    if wc > 0 then
      if rest.length < wc.toNat * 2 then .err
      else
        match readWords rest 0 wc.toNat with
        | .ok ws => .ok (⟨wc, ws⟩, 1 + wc.toNat * 2)
        | .err => .err
        | .panic => .panic
    else .ok (⟨wc, []⟩, 1)

/-! ## Data: model -/

structure DataBlk where
  byteCount : UInt16
  bytes : Bytes
  deriving DecidableEq, Repr, Inhabited

/-- `NewData()` -/
def DataBlk.new : DataBlk := ⟨0, []⟩

/-- `Add`: `Bytes = append(Bytes, b...); ByteCount = uint16(len(Bytes))` -/
def DataBlk.add (d : DataBlk) (b : Bytes) : DataBlk :=
  let bs := d.bytes ++ b
  ⟨UInt16.ofNat bs.length, bs⟩

/-- `SetData` -/
def DataBlk.setData (_ : DataBlk) (b : Bytes) : DataBlk := ⟨UInt16.ofNat b.length, b⟩

/-- `Data.Marshal`: little-endian count, then the bytes (never an error) -/
def DataBlk.marshal (d : DataBlk) : Outcome Bytes := .ok (putLe16 d.byteCount ++ d.bytes)

/-- `Data.Unmarshal` (with the `len(data) < 2` guard of fixes/C03-data-unmarshal-guard.diff) -/
def DataBlk.unmarshal (data : Bytes) : Outcome (DataBlk × Nat) :=
  if data.length < 2 then .err else
  match rdLe16 data 0 with                        -- ByteCount = LittleEndian.Uint16(data[:2])
  | .ok bc =>
    match sliceFrom data 2 with                   -- data = data[2:]
    | .ok rest =>
      if bc > 0 then
        if rest.length < bc.toNat then .err
        else
          match slice rest 0 bc.toNat with        -- Bytes = data[:ByteCount]
          | .ok bs => .ok (⟨bc, bs⟩, 2 + bc.toNat)
          | .err => .err
          | .panic => .panic
      else .ok (⟨bc, []⟩, 2)
    | .err => .err
    | .panic => .panic
  | .err => .err
  | .panic => .panic

/-! ## Commands (abstract) and Message: model -/

structure AndX where
  command : UInt8
  reserved : UInt8
  offset : UInt16
  deriving DecidableEq, Repr, Inhabited

/-- `andx.NewAndX()` followed by `AndXCommand = SMB_COM_NO_ANDX_COMMAND` -/
def AndX.default : AndX := ⟨0xFF, 0, 0⟩

/-- `AndX.GetParameters()` -/
def AndX.words (a : AndX) : List UInt16 := [(a.command.toUInt16 <<< 8) ||| a.reserved.toUInt16, a.offset]

/-- A command as the envelope sees it: its code, whether its type is an AndX type, the embedded
    `command_interface.Command` state (`AndX`, `Parameters`, `Data`; `none` = nil pointer), and the two
    byte strings its own fields contribute (`rawParametersContent`, `rawDataContent`: properties
    C04/C05 are about how these are computed from the fields). -/
structure Cmd where
  code : UInt8
  isAndX : Bool
  andx : Option AndX
  params : Option Params
  data : Option DataBlk
  rawP : Bytes
  rawD : Bytes
  deriving DecidableEq, Repr, Inhabited

/-- `if c.IsAndX() { if c.GetAndX() == nil { c.SetAndX(andx.NewAndX()); c.GetAndX().AndXCommand = NO_ANDX_COMMAND } … }` -/
def Cmd.andxAfter (c : Cmd) : Option AndX :=
  if c.isAndX then (match c.andx with | some a => some a | none => some AndX.default) else c.andx

/-- `for _, parameter := range c.GetAndX().GetParameters() { c.GetParameters().AddWord(parameter) }` (AndX types only) -/
def Cmd.paramsAfterAndX (c : Cmd) (p0 : Params) : Params :=
  if c.isAndX then (match c.andxAfter with | some a => a.words.foldl Params.addWord p0 | none => p0) else p0

/-- the `Marshal` template shared by all concrete commands (e.g. commands/CloseRequest.go):
    nil blocks are created, an AndX type first `AddWord`s its two AndX words (creating a default
    AndX when nil), then the raw contents are APPENDED to the command's own blocks and both blocks
    are marshalled.  Returns the mutated command and the result. -/
def cmdMarshal (c : Cmd) : Cmd × Outcome Bytes :=
  let p0 := match c.params with | some p => p | none => Params.new
  let d0 := match c.data with | some d => d | none => DataBlk.new
  let p2 := (c.paramsAfterAndX p0).addStream c.rawP
  match p2.marshal with
  | .ok mp =>
    let d1 := d0.add c.rawD
    match d1.marshal with
    | .ok md => ({ c with andx := c.andxAfter, params := some p2, data := some d1 }, .ok (mp ++ md))
    | .err => ({ c with andx := c.andxAfter, params := some p2, data := some d1 }, .err)
    | .panic => ({ c with andx := c.andxAfter, params := some p2, data := some d1 }, .panic)
  | .err => ({ c with andx := c.andxAfter, params := some p2, data := some d0 }, .err)
  | .panic => ({ c with andx := c.andxAfter, params := some p2, data := some d0 }, .panic)

structure Msg where
  header : Header
  command : Option Cmd
  deriving DecidableEq, Repr, Inhabited

/-- `NewMessage()` -/
def Msg.new : Msg := ⟨Header.new, none⟩

/-- `AddCommand`: the first command sets `Header.Command`; later ones are chained behind it
    (`AddCommandToChain`; no `Marshal` ever visits the chain, so it is not part of the model) -/
def addCommand (m : Msg) (c : Cmd) : Msg :=
  match m.command with
  | none => { header := { m.header with command := c.code }, command := some c }
  | some _ => m

/-- `Message.Marshal` (with fixes/C03-marshal-repeatable.diff: the command starts from empty
    blocks).  Returns the mutated message and the result. -/
def msgMarshal (m : Msg) : Msg × Outcome Bytes :=
  match marshalHeader m.header with
  | .ok hb =>
    match m.command with
    | some c =>
      let r := cmdMarshal { c with params := some Params.new, data := some DataBlk.new }
      ({ m with command := some r.1 },
        match r.2 with
        | .ok cb => .ok (hb ++ cb)
        | .err => .err
        | .panic => .panic)
    | none => (m, .err)
  | .err => (m, .err)
  | .panic => (m, .panic)

/-- the result of the `(k+1)`-th call of `Marshal()` on the same message -/
def nthMarshal : Nat → Msg → Outcome Bytes
  | 0, m => (msgMarshal m).2
  | k + 1, m => nthMarshal k (msgMarshal m).1

/-! ### what a command contributes to the frame (closed forms used in theorem statements) -/

/-- the AndX block in effect when the command is marshalled (a nil AndX becomes the default one) -/
def Cmd.effAndX (c : Cmd) : AndX := match c.andx with | some a => a | none => AndX.default

/-- the two AndX words an AndX type puts first -/
def Cmd.andxWords (c : Cmd) : List UInt16 := if c.isAndX then c.effAndX.words else []

/-- the 16-bit words one `Marshal` adds to the parameter block -/
def Cmd.words (c : Cmd) : List UInt16 := c.andxWords ++ wordsOfStream c.rawP

/-- number of parameter words one `Marshal` emits: 2 AndX words for AndX types, then the raw
    parameter bytes rounded up to whole words -/
def Cmd.wordsEmitted (c : Cmd) : Nat := (if c.isAndX then 2 else 0) + (c.rawP.length + 1) / 2

/-- what the command template emits when it starts from empty blocks, without any size assumption:
    the count fields are the TRUNCATED lengths (`uint8(len(Words))`, `uint16(len(Bytes))`), and
    no word at all is written when the truncated word count is zero -/
def Cmd.frame (c : Cmd) : Bytes :=
  UInt8.ofNat c.words.length ::
    (if UInt8.ofNat c.words.length > 0 then c.words.flatMap putBe16 else []) ++
    (putLe16 (UInt16.ofNat c.rawD.length) ++ c.rawD)

/-- the `switch` table of `CreateResponseCommand` (reply) / `CreateRequestCommand`, regenerated from the source -/
def caseTable (reply : Bool) : List (UInt8 × Kind) := if reply then responseCases else requestCases

/-- Go `switch code { case c1: return NewT1(), nil … default: return nil, err }` over the generated
    case list: the first (and, cases being distinct constants, only) matching case -/
def factory (reply : Bool) (code : UInt8) : Outcome Kind :=
  match (caseTable reply).find? (fun e => e.1 == code) with
  | some e => .ok e.2
  | none => .err

/-- what `Message.Unmarshal` leaves behind when it succeeds -/
structure Decoded where
  header : Header
  kind : Kind
  params : Params
  data : DataBlk
  deriving DecidableEq, Repr

/-- `Message.Unmarshal`: length guard, header from the first 32 bytes, factory selected by
    `IsResponse()`, `Init()` (fresh empty blocks), then the command's `Unmarshal`, whose first steps are
    the same in every concrete command: `Parameters.Unmarshal(data)`, `Data.Unmarshal(data[bytesRead:])`.
    What follows (reading the command's own fields out of the two raw contents) is command specific and
    enters as `specific`, its outcome. -/
def msgUnmarshal (data : Bytes) (specific : Outcome Unit) : Outcome Decoded :=
  if data.length < 32 then .err else do
    let hb ← slice data 0 32
    let (h, bytesRead) ← unmarshalHeader hb
    let rest ← sliceFrom data bytesRead
    let kind ← factory (isResponse h) h.command
    let (p, n) ← Params.unmarshal rest
    let rest2 ← sliceFrom rest n
    let (d, _) ← DataBlk.unmarshal rest2
    let _ ← specific
    pure { header := h, kind, params := p, data := d }

/-! ## Specification: MS-CIFS 2.2.3.1 (header), 2.2.3.2 / 2.2.3.3 (blocks), 2.2.2.1 (command codes) -/

namespace Spec

inductive Field where
  | protocol | command | status | flags | flags2 | pidHigh | securityFeatures | reserved | tid | pidLow | uid | mid
  deriving DecidableEq, Repr

structure Slot where
  field : Field
  offset : Nat
  width : Nat
  deriving DecidableEq, Repr

/-- MS-CIFS 2.2.3.1 "The SMB Header": field, byte offset, width -/
def headerTable : List Slot := [
  ⟨.protocol, 0, 4⟩, ⟨.command, 4, 1⟩, ⟨.status, 5, 4⟩, ⟨.flags, 9, 1⟩, ⟨.flags2, 10, 2⟩, ⟨.pidHigh, 12, 2⟩,
  ⟨.securityFeatures, 14, 8⟩, ⟨.reserved, 22, 2⟩, ⟨.tid, 24, 2⟩, ⟨.pidLow, 26, 2⟩, ⟨.uid, 28, 2⟩, ⟨.mid, 30, 2⟩]

/-- the 8 security-feature bytes as a number: `SecuritySignature`/reserved bytes in wire order;
    connectionless transport: Key (4 bytes), CID (2), SequenceNumber (2) -/
def secNat : SecFeat → Nat
  | .reserved a => leNat a.toList
  | .signature a => leNat a.toList
  | .connectionless key cid seq => key.toNat + 2^32 * cid.toNat + 2^48 * seq.toNat

/-- the value of each header field as a natural number (byte arrays: the little-endian number of
    their bytes in wire order, so that "little-endian in its slot" says "bytes in order") -/
def fieldNat (h : Header) : Field → Nat
  | .protocol => leNat h.protocol.toList
  | .command => h.command.toNat
  | .status => h.status.toNat
  | .flags => h.flags.toNat
  | .flags2 => h.flags2.toNat
  | .pidHigh => h.pidHigh.toNat
  | .securityFeatures => secNat h.sec
  | .reserved => h.reserved.toNat
  | .tid => h.tid.toNat
  | .pidLow => h.pidLow.toNat
  | .uid => h.uid.toNat
  | .mid => h.mid.toNat

/-- the header the table prescribes: every slot in table order, each value little-endian in its width -/
def encodeHeader (h : Header) : Bytes := headerTable.flatMap (fun s => natLe s.width (fieldNat h s.field))

/-- every field value fits its slot (only `Flags`, declared 16 bits wide in Go, can fail this) -/
def Fits (h : Header) : Prop := ∀ s ∈ headerTable, fieldNat h s.field < 256 ^ s.width

/-- a byte stream padded to whole words: one zero byte after an odd-length stream -/
def padEven (p : Bytes) : Bytes := if p.length % 2 = 1 then p ++ [0] else p

/-- MS-CIFS 2.2.3.2 + 2.2.3.3: `WordCount, Words[2·WordCount], ByteCount (LE), Bytes[ByteCount]` -/
def blocks (words bytes : Bytes) : Bytes :=
  [UInt8.ofNat (words.length / 2)] ++ words ++ natLe 2 bytes.length ++ bytes

/-- bytes of 16-bit words written high byte first (how this library keeps a parameter byte stream in `[]uint16`) -/
def wordBytes (ws : List UInt16) : Bytes := ws.flatMap putBe16

/-- the AndX words as bytes, as `AndX.GetParameters()` lays them out (AndXCommand, AndXReserved, then
    AndXOffset high byte first — the byte order inside command-specific words is property C05's subject) -/
def andxBytes (a : AndX) : Bytes := [a.command, a.reserved] ++ putBe16 a.offset

/-- the words field a command must produce: AndX words (AndX types only), then its raw parameter bytes padded to whole words -/
def paramBytes (c : Cmd) : Bytes := (if c.isAndX then andxBytes c.effAndX else []) ++ padEven c.rawP

/-- the whole message: header, then the two blocks -/
def frame (h : Header) (c : Cmd) : Bytes := encodeHeader h ++ blocks (paramBytes c) c.rawD

/-- MS-CIFS 2.2.2.1 command codes with the CamelCase name the library gives the command's types -/
def commandNames : List (UInt8 × String) := [
  (0x00, "CreateDirectory"), (0x01, "DeleteDirectory"), (0x02, "Open"), (0x03, "Create"), (0x04, "Close"),
  (0x05, "Flush"), (0x06, "Delete"), (0x07, "Rename"), (0x08, "QueryInformation"), (0x09, "SetInformation"),
  (0x0A, "Read"), (0x0B, "Write"), (0x0C, "LockByteRange"), (0x0D, "UnlockByteRange"), (0x0E, "CreateTemporary"),
  (0x0F, "CreateNew"), (0x10, "CheckDirectory"), (0x11, "ProcessExit"), (0x12, "Seek"), (0x13, "LockAndRead"),
  (0x14, "WriteAndUnlock"), (0x1A, "ReadRaw"), (0x1B, "ReadMpx"), (0x1C, "ReadMpxSecondary"), (0x1D, "WriteRaw"),
  (0x1E, "WriteMpx"), (0x1F, "WriteMpxSecondary"), (0x20, "WriteComplete"), (0x21, "QueryServer"),
  (0x22, "SetInformation2"), (0x23, "QueryInformation2"), (0x24, "LockingAndx"), (0x25, "Transaction"),
  (0x26, "TransactionSecondary"), (0x27, "Ioctl"), (0x28, "IoctlSecondary"), (0x29, "Copy"), (0x2A, "Move"),
  (0x2B, "Echo"), (0x2C, "WriteAndClose"), (0x2D, "OpenAndx"), (0x2E, "ReadAndx"), (0x2F, "WriteAndx"),
  (0x30, "NewFileSize"), (0x31, "CloseAndTreeDisc"), (0x32, "Transaction2"), (0x33, "Transaction2Secondary"),
  (0x34, "FindClose2"), (0x35, "FindNotifyClose"), (0x70, "TreeConnect"), (0x71, "TreeDisconnect"),
  (0x72, "Negotiate"), (0x73, "SessionSetupAndx"), (0x74, "LogoffAndx"), (0x75, "TreeConnectAndx"),
  (0x7E, "SecurityPackageAndx"), (0x80, "QueryInformationDisk"), (0x81, "Search"), (0x82, "Find"),
  (0x83, "FindUnique"), (0x84, "FindClose"), (0xA0, "NtTransact"), (0xA1, "NtTransactSecondary"),
  (0xA2, "NtCreateAndx"), (0xA4, "NtCancel"), (0xA5, "NtRename"), (0xC0, "OpenPrintFile"), (0xC1, "WritePrintFile"),
  (0xC2, "ClosePrintFile"), (0xC3, "GetPrintQueue"), (0xD8, "ReadBulk"), (0xD9, "WriteBulk"), (0xDA, "WriteBulkData")]

/-- MS-CIFS 2.2.4: the commands whose parameter block starts with AndXCommand/AndXReserved/AndXOffset -/
def andxCodes : List UInt8 := [0x24, 0x2D, 0x2E, 0x2F, 0x73, 0x74, 0x75, 0xA2]

/-- the Go type that must represent the message with this code and direction: `<Name>Request` /
    `<Name>Response`; the final server response to SMB_COM_WRITE_RAW (0x1D) is `WriteRawFinal`
    (MS-CIFS 2.2.4.25.3 "Final Server Response") -/
def typeName (reply : Bool) (code : UInt8) : Option Bytes :=
  match commandNames.find? (fun e => e.1 == code) with
  | some e =>
    if reply && code == 0x1D then some (asciiBytes "WriteRawFinal")
    else some (asciiBytes (e.2 ++ (if reply then "Response" else "Request")))
  | none => none

end Spec

/-! ## before the fixes (history; the current tree is NOT tied to these three definitions) -/

namespace BeforeFix

/-- `AddWordsFromBytesStream` before fixes/C03-odd-parameter-byte.diff: trailing byte `b` ↦ `uint16(b)` -/
def wordsOfStream : Bytes → List UInt16
  | [] => []
  | [b] => [b.toUInt16]
  | a :: b :: rest => ((a.toUInt16 <<< 8) ||| b.toUInt16) :: wordsOfStream rest

/-- `Data.Unmarshal` before fixes/C03-data-unmarshal-guard.diff: only `len(data) == 0` was rejected -/
def dataUnmarshal (data : Bytes) : Outcome (DataBlk × Nat) :=
  if data.length = 0 then .err else
  match rdLe16 data 0 with
  | .ok bc =>
    match sliceFrom data 2 with
    | .ok rest =>
      if bc > 0 then
        if rest.length < bc.toNat then .err
        else
          match slice rest 0 bc.toNat with
          | .ok bs => .ok (⟨bc, bs⟩, 2 + bc.toNat)
          | .err => .err
          | .panic => .panic
      else .ok (⟨bc, []⟩, 2)
    | .err => .err
    | .panic => .panic
  | .err => .err
  | .panic => .panic

/-- `Message.Marshal` before fixes/C03-marshal-repeatable.diff: the command's accumulated blocks were kept -/
def msgMarshal (m : Msg) : Msg × Outcome Bytes :=
  match marshalHeader m.header with
  | .ok hb =>
    match m.command with
    | some c =>
      let r := cmdMarshal c
      ({ m with command := some r.1 },
        match r.2 with
        | .ok cb => .ok (hb ++ cb)
        | .err => .err
        | .panic => .panic)
    | none => (m, .err)
  | .err => (m, .err)
  | .panic => (m, .panic)

end BeforeFix

end Manticore.C03
