/-
  A whole command on the wire: the fixed prologue/epilogue every generated `Marshal`/`Unmarshal`
  shares (AndX words, `AddWordsFromBytesStream`, `Parameters.Marshal`, `Data.Add`/`Marshal`, and
  the mirror-image split in `Unmarshal`) around the extracted IR programs, plus the static
  predicates on programs (`Consistent`, `Conforms`, `Guarded`) that the property files decide
  per command.  Core Lean only.
-/
import Manticore.Model.SmbIR
namespace Manticore.SmbIR
open Manticore

/-! ## the parameter and data blocks -/

/-- `AddWordsFromBytesStream` then `Parameters.Marshal` (big-endian words both ways, so the byte
    stream comes out unchanged except that an odd trailing byte `b` becomes the word `00 b`) -/
def wordsBytes : Bytes → Bytes
  | [] => []
  | [b] => [0, b]
  | a :: b :: rest => a :: b :: wordsBytes rest

def wordCountOf (andx : Bool) (rawP : Bytes) : Nat := andxWords andx + (rawP.length + 1) / 2

/-- the default AndX block a command creates when none is set: NO_ANDX_COMMAND, reserved 0, offset 0 -/
def andxBytes (andx : Bool) : Bytes := if andx then [0xFF, 0x00, 0x00, 0x00] else []

/-- `WordCount` byte, then all the words unless the (truncated) count is zero -/
def paramBlock (andx : Bool) (rawP : Bytes) : Bytes :=
  let wc := wordCountOf andx rawP % 256
  UInt8.ofNat wc :: (if wc > 0 then andxBytes andx ++ wordsBytes rawP else [])

/-- `ByteCount` (uint16 of the length, little-endian) then all the bytes -/
def dataBlock (rawD : Bytes) : Bytes := natLe 2 (rawD.length % 65536) ++ rawD

def encodeCmd (C : Codecs) (c : Cmd) (env : Env) : Outcome Bytes :=
  match runM C c env with
  | .ok s => .ok (s.head ++ paramBlock c.isAndX s.P ++ dataBlock s.D)
  | .err => .err
  | .panic => .panic

/-- environment after Marshal (SetBufferFormat / assignLen mutate the command) -/
def envAfterMarshal (C : Codecs) (c : Cmd) (env : Env) : Outcome Env :=
  match runM C c env with
  | .ok s => .ok s.env
  | .err => .err
  | .panic => .panic

/-- `Parameters.Unmarshal`: word count, then that many words (error when short) -/
def splitParams (data : Bytes) : Outcome (Nat × Bytes × Bytes) :=
  match data with
  | [] => .err
  | wc :: rest =>
    if wc.toNat > 0 then
      if rest.length < 2 * wc.toNat then .err
      else .ok (wc.toNat, rest.take (2 * wc.toNat), rest.drop (2 * wc.toNat))
    else .ok (0, [], rest)

/-- `Data.Unmarshal` (with the two-byte guard) -/
def splitData (data : Bytes) : Outcome Bytes :=
  match data with
  | [] => .err
  | [_] => .err
  | b0 :: b1 :: rest =>
    let bc := b0.toNat + 256 * b1.toNat
    if bc > 0 then (if rest.length < bc then .err else .ok (rest.take bc)) else .ok []

def decodeCmd (C : Codecs) (c : Cmd) (env0 : Env) (data : Bytes) : Outcome Env :=
  match splitParams data with
  | .ok (wc, P, rest) =>
    match splitData rest with
    | .ok D => runU C c env0 wc P D
    | .err => .err
    | .panic => .panic
  | .err => .err
  | .panic => .panic

/-! ## static predicates -/

def typeWidth (t : String) : Option Nat :=
  if t == "types.UCHAR" || t == "securitymode.SecurityMode" then some 1
  else if t == "types.USHORT" || t == "types.SHORT" then some 2
  else if t == "types.ULONG" || t == "types.LONG" || t == "capabilities.Capabilities" || t == "types.SMB_EXT_FILE_ATTR" then some 4
  else if t == "types.LARGE_INTEGER" then some 8
  else none

def Cmd.typeOf (c : Cmd) (f : String) : Option String := (c.fields.find? (·.1 == f)).map (·.2)

mutual
/-- C05, per marshal statement: integers little-endian and exactly as wide as the declared type -/
def conformsStmt (c : Cmd) : MStmt → Bool
  | .int _ w e f => e == .le && (c.typeOf f).bind typeWidth == some w
  | .quad _ w e f => e == .le && (c.typeOf f).bind typeWidth == some w
  | .u8 _ f => (c.typeOf f).bind typeWidth == some 1
  | .forInt _ w e f =>
    e == .le && (match c.typeOf f with
      | some t => (t.endsWith "types.USHORT" && w == 2) || (t.endsWith "types.ULONG" && w == 4)
      | none => false)
  | .ifNonZero _ body => conformsStmts c body
  | .ifNonZeroArr _ body => conformsStmts c body
  | .ifWordCount _ body => conformsStmts c body
  | .subHead _ _ => false          -- a field emitted ahead of the parameter block is never MS-CIFS
  | _ => true
def conformsStmts (c : Cmd) : List MStmt → Bool
  | [] => true
  | s :: rest => conformsStmt c s && conformsStmts c rest
end

/-- field a marshal statement emits (for the declaration-order check) -/
def emittedField : MStmt → Option String
  | .int _ _ _ f | .quad _ _ _ f | .u8 _ f | .bytes _ f | .arr _ f | .sub _ f _ | .forSub _ f _
  | .forInt _ _ _ f | .subHead f _ => some f
  | .ifNonZero f _ | .ifNonZeroArr f _ => some f
  | _ => none

def isSublistOf [BEq α] : List α → List α → Bool
  | [], _ => true
  | _ :: _, [] => false
  | a :: as, b :: bs => if a == b then isSublistOf as bs else isSublistOf (a :: as) bs

/-- C05 static predicate: every integer little-endian with the width of its declared type, and
    fields emitted in declaration order, parameters before data -/
def Conforms (c : Cmd) : Bool :=
  conformsStmts c c.marshal &&
  isSublistOf (c.marshal.filterMap emittedField) (c.fields.map (·.1))

/-! ### Guarded (C07): every slice or index of the unmarshal program is dominated by a guard on the
    same block, with no offset change in between, that implies it -/

/-- what the last guard established: `len(blk) ≥ offset + e`, still valid -/
structure Known where
  P : Option Expr := none
  D : Option Expr := none

def Known.get (k : Known) : Blk → Option Expr
  | .P => k.P
  | .D => k.D
def Known.set (k : Known) (b : Blk) (e : Option Expr) : Known :=
  match b with
  | .P => { k with P := e }
  | .D => { k with D := e }

/-- `need ≤ have` decided syntactically: equal expressions, or literals in order -/
def exprLe : Expr → Expr → Bool
  | .lit a, .lit b => a ≤ b
  | a, b => a == b

def covered (k : Known) (b : Blk) (need : Expr) : Bool :=
  match k.get b with
  | some h => exprLe need h
  | none => false

def Expr.mentions (f : String) : Expr → Bool
  | .lit _ => false
  | .fint g => g == f
  | .flen g => g == f
  | .fsub g _ => g == f
  | .pad => false
  | .add a b => a.mentions f || b.mentions f
  | .mul _ e => e.mentions f

/-- assigning field `f` invalidates what is known in terms of `f` -/
def Known.forget (k : Known) (f : String) : Known :=
  { P := k.P.filter (fun e => !e.mentions f), D := k.D.filter (fun e => !e.mentions f) }

/-- returns the knowledge after the statement, or `none` if the statement may panic -/
def guardedStmt (k : Known) : UStmt → Option Known
  | .retIfEmpty _ _ => some k
  | .resetOffset => some {}
  | .guard b e => some (k.set b (some e))
  | .readInt b w _ f => if covered k b (.lit w) then some (k.forget f) else none
  | .readQuad b w _ f => if covered k b (.lit w) then some (k.forget f) else none
  | .readU8 b f => if covered k b (.lit 1) then some (k.forget f) else none
  | .readBytes b f n => if covered k b n then some (k.forget f) else none
  | .readRest b f => if (k.get b).isSome then some (k.forget f) else none   -- blk[offset:] needs offset ≤ len
  | .readArr b f n => if covered k b (.lit n) then some (k.forget f) else none
  | .readSub b f _ win whole _ _ =>
    if whole then some (k.forget f) else
    match win with
    | some n => if covered k b (.lit n) then some (k.forget f) else none
    | none => if (k.get b).isSome then some (k.forget f) else none
  | .advance _ => some {}
  | .advanceRead => some {}
  | .setPad _ => some {}
  | .padRoundUp => some {}     -- padLen changes: a guard mentioning `.pad` is no longer valid
  | .padIfPOdd => some {}
  | .resliceD => none
  | .ifWordCount _ _ => none   -- decided per command by the dynamic theorem, not statically
  | .clear f => some (k.forget f)
  | .makeInts f _ => some (k.forget f)
  | .forCountInt _ _ _ _ _ => none
  | .forRangeInt _ _ _ _ => none
  | .forCountSub _ _ _ _ _ => some {}   -- carries its own guard inside the loop
  | .whileFitsSub _ _ _ _ => some {}    -- the loop condition is the guard
  | .cstrUnicode _ => none
  | .readArr3 _ _ => none

def guardedFrom : Known → List UStmt → Bool
  | _, [] => true
  | k, s :: rest =>
    match guardedStmt k s with
    | some k' => guardedFrom k' rest
    | none => false

/-- C07 static predicate on the extracted unmarshal program -/
def Guarded (c : Cmd) : Bool := guardedFrom {} c.unmarshal

end Manticore.SmbIR
