/-
  A whole command on the wire: the fixed prologue/epilogue every generated `Marshal`/`Unmarshal`
  shares (AndX words, `AddWordsFromBytesStream`, `Parameters.Marshal`, `Data.Add`/`Marshal`, and
  the mirror-image split in `Unmarshal`) around the extracted IR programs, plus the static
  predicates on programs (`Consistent`, `Guarded`, the pieces of `Conforms` — completed in
  `Model/SmbConforms.lean`) that the property files decide per command.  Core Lean only.
-/
import Manticore.Model.SmbIR
namespace Manticore.SmbIR
open Manticore

/-! ## the parameter and data blocks -/

/-- `AddWordsFromBytesStream` then `Parameters.Marshal` (big-endian words both ways, so the byte
    stream comes out unchanged, an odd trailing byte being padded with a zero after it) -/
def wordsBytes : Bytes → Bytes
  | [] => []
  | [b] => [b, 0]
  | a :: b :: rest => a :: b :: wordsBytes rest

def wordCountOf (andx : Bool) (rawP : Bytes) : Nat := andxWords andx + (rawP.length + 1) / 2

/-- the default AndX block a command creates when none is set: NO_ANDX_COMMAND, reserved 0, offset 0 -/
def andxBytes (andx : Bool) : Bytes := if andx then [0xFF, 0x00, 0x00, 0x00] else []

/-- the two AndX words on the wire: `AndX.GetParameters()` = `[command<<8 | reserved, offset]`, each added with
    `AddWord` and written by `Parameters.Marshal` high byte first — so the offset goes out big-endian -/
def andxBytesOf (andx : Bool) (env : Env) : Bytes :=
  if andx then
    match env.get andxField with
    | some (.ns [c, r, o]) => [UInt8.ofNat c, UInt8.ofNat r, UInt8.ofNat (o / 256), UInt8.ofNat (o % 256)]
    | _ => andxBytes true
  else []

/-- the fields a round trip is about: the declared ones and, for an AndX command, its AndX block -/
def Cmd.roundTripFields (c : Cmd) : List String := c.fields.map (·.1) ++ (if c.isAndX then [andxField] else [])

/-- `WordCount` byte, then all the words (`ax`: the AndX words, already in the block when the raw stream is added)
    unless the (truncated) count is zero -/
def paramBlock (andx : Bool) (ax : Bytes) (rawP : Bytes) : Bytes :=
  let wc := wordCountOf andx rawP % 256
  UInt8.ofNat wc :: (if wc > 0 then ax ++ wordsBytes rawP else [])

/-- `ByteCount` (uint16 of the length, little-endian) then all the bytes -/
def dataBlock (rawD : Bytes) : Bytes := natLe 2 (rawD.length % 65536) ++ rawD

def encodeCmd (C : Codecs) (c : Cmd) (env : Env) : Outcome Bytes :=
  match runM C c env with
  | .ok s => .ok (s.head ++ paramBlock c.isAndX (andxBytesOf c.isAndX (prologueEnv c.isAndX env)) s.P ++ dataBlock s.D)
  | .err => .err
  | .panic => .panic

/-- environment after Marshal (SetBufferFormat / assignLen mutate the command) -/
def envAfterMarshal (C : Codecs) (c : Cmd) (env : Env) : Outcome Env :=
  match runM C c env with
  | .ok s => .ok s.env
  | .err => .err
  | .panic => .panic

/-- `Parameters.Unmarshal`: word count, then that many words (error when short) -/
def splitParams (data : Bytes) : Outcome (Nat × Bytes × Bytes) :=
  match data with
  | [] => .err
  | wc :: rest =>
    if wc.toNat > 0 then
      if rest.length < 2 * wc.toNat then .err
      else .ok (wc.toNat, rest.take (2 * wc.toNat), rest.drop (2 * wc.toNat))
    else .ok (0, [], rest)

/-- `Data.Unmarshal` (with the two-byte guard): the data bytes and what follows them in the input
    buffer (`d.Bytes = data[:ByteCount]` keeps the capacity of the input slice) -/
def splitData (data : Bytes) : Outcome (Bytes × Bytes) :=
  match data with
  | [] => .err
  | [_] => .err
  | b0 :: b1 :: rest =>
    let bc := b0.toNat + 256 * b1.toNat
    if bc > 0 then (if rest.length < bc then .err else .ok (rest.take bc, rest.drop bc)) else .ok ([], [])

/-- capacity of the slice `GetBytesStream` builds by appending two bytes per word to `[]byte{}`
    (Go runtime growth policy for byte slices: 8, then doubling) -/
def streamCap (len : Nat) : Nat :=
  if len = 0 then 0 else
  if len ≤ 8 then 8 else if len ≤ 16 then 16 else if len ≤ 32 then 32 else if len ≤ 64 then 64
  else if len ≤ 128 then 128 else if len ≤ 256 then 256 else 512

def decodeCmd (C : Codecs) (c : Cmd) (env0 : Env) (data : Bytes) : Outcome Env :=
  match splitParams data with
  | .ok (wc, P, rest) =>
    match splitData rest with
    | .ok (D, Dext) => runU C c env0 wc P D (List.replicate (streamCap P.length - P.length) 0) Dext
    | .err => .err
    | .panic => .panic
  | .err => .err
  | .panic => .panic

/-! ## static predicates -/

def typeWidth (t : String) : Option Nat :=
  if t == "types.UCHAR" || t == "securitymode.SecurityMode" then some 1
  else if t == "types.USHORT" || t == "types.SHORT" then some 2
  else if t == "types.ULONG" || t == "types.LONG" || t == "capabilities.Capabilities" || t == "types.SMB_EXT_FILE_ATTR" then some 4
  else if t == "types.LARGE_INTEGER" then some 8
  else none

def Cmd.typeOf (c : Cmd) (f : String) : Option String := (c.fields.find? (·.1 == f)).map (·.2)

mutual
/-- C05, per marshal statement: integers little-endian and exactly as wide as the declared type -/
def conformsStmt (c : Cmd) : MStmt → Bool
  | .int _ w e f => e == .le && (c.typeOf f).bind typeWidth == some w
  | .quad _ w e f => e == .le && (c.typeOf f).bind typeWidth == some w
  | .u8 _ f => (c.typeOf f).bind typeWidth == some 1
  | .forInt _ w e f =>
    e == .le && (match c.typeOf f with
      | some t => (t.endsWith "types.USHORT" && w == 2) || (t.endsWith "types.ULONG" && w == 4)
      | none => false)
  | .ifNonZero _ body => conformsStmts c body
  | .ifNonZeroArr _ body => conformsStmts c body
  | .ifWordCount _ body => conformsStmts c body
  | .subHead _ _ => false          -- a field emitted ahead of the parameter block is never MS-CIFS
  | _ => true
def conformsStmts (c : Cmd) : List MStmt → Bool
  | [] => true
  | s :: rest => conformsStmt c s && conformsStmts c rest
end

/-- block and field a marshal statement emits (for the declaration-order check) -/
def emittedField : MStmt → Option (Blk × String)
  | .int b _ _ f | .quad b _ _ f | .u8 b f | .bytes b f | .arr b f | .sub b f _ | .forSub b f _
  | .forInt b _ _ f => some (b, f)
  | .ifNonZero f _ | .ifNonZeroArr f _ => some (.P, f)
  | _ => none

/-- fields in wire order: everything emitted into the parameter block, then the data block -/
def wireOrder (c : Cmd) : List String :=
  let es := c.marshal.filterMap emittedField
  (es.filter (·.1 == .P)).map (·.2) ++ (es.filter (·.1 == .D)).map (·.2)

def isSublistOf [BEq α] : List α → List α → Bool
  | [], _ => true
  | _ :: _, [] => false
  | a :: as, b :: bs => if a == b then isSublistOf as bs else isSublistOf (a :: as) bs

/-! The C05 static predicate `Conforms` is assembled from these pieces (and from the specification's
    reading of the declared types) in `Model/SmbConforms.lean`. -/

/-! ### Guarded (C07): every slice or index of the unmarshal program is dominated by a guard on the
    same block, with no offset change in between, that implies it -/

/-- what is known about `offset` at a program point:
    `P`/`D = some e`: the last guard established `len(blk) ≥ offset + e` and nothing changed since;
    `leP`/`leD`: `offset ≤ len(blk)`;
    `sub = some b`: `bytesRead ≤ len(b) - offset` (a nested decoder just consumed from `b[offset:…]`
    and reports no more than it was given — the codec honesty law proved in C06);
    `minP = n`: `len(P) ≥ n` (an `AndX.Unmarshal` of the parameter stream succeeded; nothing but
    `P = P[n:]` changes the stream afterwards). -/
structure Known where
  P : Option Expr := none
  D : Option Expr := none
  leP : Bool := false
  leD : Bool := false
  sub : Option Blk := none
  minP : Nat := 0
  deriving Inhabited

def Known.get (k : Known) : Blk → Option Expr
  | .P => k.P
  | .D => k.D
def Known.le (k : Known) : Blk → Bool
  | .P => k.leP || k.P.isSome
  | .D => k.leD || k.D.isSome
def Known.setGuard (k : Known) (b : Blk) (e : Expr) : Known :=
  match b with
  | .P => { k with P := some e, sub := none }
  | .D => { k with D := some e, sub := none }

/-- `need ≤ have` decided syntactically: equal expressions, or literals in order -/
def exprLe : Expr → Expr → Bool
  | .lit a, .lit b => a ≤ b
  | a, b => a == b

def covered (k : Known) (b : Blk) (need : Expr) : Bool :=
  match k.get b with
  | some h => exprLe need h
  | none => false

def Expr.mentions (f : String) : Expr → Bool
  | .lit _ => false
  | .fint g => g == f
  | .flen g => g == f
  | .fsub g _ => g == f
  | .pad => false
  | .add a b => a.mentions f || b.mentions f
  | .mul _ e => e.mentions f

/-- assigning field `f` invalidates what is known in terms of `f` -/
def Known.forget (k : Known) (f : String) : Known :=
  { k with
    P := k.P.filter (fun e => !e.mentions f), D := k.D.filter (fun e => !e.mentions f),
    leP := k.le .P, leD := k.le .D }

/-- `P = P[n:]`: what was known about `offset` inside the parameter stream is void; the data stream is untouched -/
def Known.resliceP (k : Known) (n : Nat) : Known :=
  { D := k.D, leD := k.le .D, sub := if k.sub == some .D then some .D else none, minP := k.minP - n }

/-- after `offset` moved by an unknown amount nothing is known -/
def Known.none : Known := {}
/-- `offset = 0` -/
def Known.zero : Known := { leP := true, leD := true }

mutual
/-- returns the knowledge after the statement, or `none` if the statement may panic -/
def guardedStmt (k : Known) : UStmt → Option Known
  | .retIfEmpty _ _ => some k
  | .resetOffset => some Known.zero
  | .guard b e => some (k.setGuard b e)
  | .readInt b w _ f => if covered k b (.lit w) then some { (k.forget f) with sub := none } else none
  | .readQuad b w _ f => if covered k b (.lit w) then some { (k.forget f) with sub := none } else none
  | .readU8 b f => if covered k b (.lit 1) then some { (k.forget f) with sub := none } else none
  | .readBytes b f n => if covered k b n then some { (k.forget f) with sub := none } else none
  | .readRest b f => if k.le b then some { (k.forget f) with sub := none } else none
  | .readArr b f n => if covered k b (.lit n) then some { (k.forget f) with sub := none } else none
  | .readSub b f _ win whole checked stores =>
    if whole then some { (k.forget f) with sub := none } else
    match win with
    -- `bytesRead` is known to fit only when the call stored it AND its error was checked: an unchecked
    -- failing call leaves `bytesRead` as it was (needed for `guarded_sound`, Props/C07.lean)
    | some n => if covered k b (.lit n) then some { (k.forget f) with sub := if stores && checked then some b else none } else none
    | none => if k.le b then some { (k.forget f) with sub := if stores && checked then some b else none } else none
  | .advance e => some { leP := covered k .P e, leD := covered k .D e }   -- moving by at most what a guard secured keeps `offset ≤ len`
  | .advanceRead =>
    match k.sub with
    | some .P => some { leP := true }
    | some .D => some { leD := true }
    | none => some Known.none
  | .setPad _ => some { leP := k.le .P, leD := k.le .D }
  | .padRoundUp => some { leP := k.le .P, leD := k.le .D }
  | .padIfPOdd => some { leP := k.le .P, leD := k.le .D }
  | .resliceD => if k.le .D then some Known.none else none
  | .ifWordCount _ body =>
    match guardedStmts k body with
    | some _ => some Known.none
    | none => none
  | .clear f => some (k.forget f)
  | .zeroInt f => some (k.forget f)
  | .zeroInts f _ => some (k.forget f)
  | .makeInts f _ => some (k.forget f)
  | .forCountInt b w _ _ g =>          -- reads `count` integers with no guard inside the loop
    if covered k b (.mul w (.fint g)) then some Known.none else none
  | .forRangeInt b w _ f => if covered k b (.mul w (.flen f)) then some Known.none else none
  | .forCountSub _ _ _ _ _ => some Known.none   -- carries its own guard inside the loop
  -- the loop condition is the guard; a zero-size window could be decoded forever without advancing
  | .whileFitsSub _ _ _ size => if 0 < size then some Known.none else none
  | .cstrUnicode _ => some { leD := true }      -- never indexes past the end; returns an offset ≤ len(D)
  | .readArr3 b f => if covered k b (.lit 12) then some { (k.forget f) with sub := none } else none
  -- `AndX.Unmarshal(P)` checks `len(P) ≥ 4` itself and returns an error otherwise: afterwards four bytes are there
  | .readAndX => some { (k.forget andxField) with minP := max k.minP 4 }
  -- `P[n:]` needs `n ≤ len(P)`: only after a check that secured `n` bytes
  | .resliceP n => if n ≤ k.minP then some (k.resliceP n) else none
def guardedStmts (k : Known) : List UStmt → Option Known
  | [] => some k
  | s :: rest =>
    match guardedStmt k s with
    | some k' => guardedStmts k' rest
    | none => none
end

/-- C07 static predicate on the extracted unmarshal program -/
def Guarded (c : Cmd) : Bool := (guardedStmts Known.zero c.unmarshal).isSome

/-! ### Mirror and Consistent (C04): the straight-line fragment

A *layout* is what both programs of a command should describe: per block, the sequence of slots.
`layoutM` reads it off the marshal program, `layoutU` off the unmarshal program (each read must be
followed by the advance over exactly what it read); `Mirror` says the two agree. -/

inductive Slot
  | int (b : Blk) (w : Nat) (e : End) (f : String)
  | u8 (b : Blk) (f : String)
  | bytes (b : Blk) (f : String) (len : Option Expr)     -- `none`: up to the end of the block
  | arr (b : Blk) (f : String)
  | sub (b : Blk) (f : String) (typ : String) (win : Option Nat)
  -- list fields (never produced by `layoutM` / `layoutU`; the loop fragment of `Model/SmbLoops.lean`):
  -- `ints`: the integers of `c.F` one after the other (`cnt`: the count field the unmarshal loop runs to, `none` for a
  -- fixed array); `subs`: the nested values of `c.F` one after the other (`cnt`, `size`: count field and window of the unmarshal loop)
  | ints (b : Blk) (w : Nat) (e : End) (f : String) (cnt : Option String)
  | subs (b : Blk) (f : String) (typ : String) (cnt : Option String) (size : Option Nat)
  -- an optional integer: on the wire iff non-zero (`wc`: the word count under which Unmarshal reads it)
  | opt (b : Blk) (w : Nat) (e : End) (f : String) (wc : Option Nat)
  -- an optional array of integers: on the wire iff some element is non-zero (`n`: how many elements Unmarshal reads,
  -- 0 on the marshal side, which does not say; `wc`: the word count under which Unmarshal reads them)
  | optInts (b : Blk) (w : Nat) (e : End) (f : String) (n : Nat) (wc : Option Nat)
  deriving DecidableEq, Repr, Inhabited

def layoutM : List MStmt → Option (List Slot)
  | [] => some []
  | .int b w e f :: r => (layoutM r).map (.int b w e f :: ·)
  | .quad b w e f :: r => (layoutM r).map (.int b w e f :: ·)
  | .u8 b f :: r => (layoutM r).map (.u8 b f :: ·)
  | .bytes b f :: r => (layoutM r).map (.bytes b f none :: ·)
  | .arr b f :: r => (layoutM r).map (.arr b f :: ·)
  | .sub b f t :: r => (layoutM r).map (.sub b f t none :: ·)
  | .setFmt _ _ :: r => layoutM r
  | .assignLen _ _ _ :: r => layoutM r
  | _ :: _ => none

/-- guards do not contribute to the layout -/
def layoutU : List UStmt → Option (List Slot)
  | [] => some []
  | .retIfEmpty _ _ :: r => layoutU r
  | .resetOffset :: r => layoutU r
  | .guard _ _ :: r => layoutU r
  | .readInt b w e f :: .advance (.lit n) :: r => if n = w then (layoutU r).map (.int b w e f :: ·) else none
  | .readQuad b w e f :: .advance (.lit n) :: r => if n = w then (layoutU r).map (.int b w e f :: ·) else none
  | .readU8 b f :: .advance (.lit 1) :: r => (layoutU r).map (.u8 b f :: ·)
  | .readBytes b f n :: .advance m :: r => if n = m then (layoutU r).map (.bytes b f (some n) :: ·) else none
  | .readRest b f :: .advance (.flen g) :: r => if f = g then (layoutU r).map (.bytes b f none :: ·) else none
  | .readArr b f n :: .advance (.lit m) :: r => if n = m then (layoutU r).map (.arr b f :: ·) else none
  | .readSub b f t win false true true :: .advanceRead :: r => (layoutU r).map (.sub b f t win :: ·)
  | _ :: _ => none

def Slot.blk : Slot → Blk
  | .int b .. | .u8 b .. | .bytes b .. | .arr b .. | .sub b .. | .ints b .. | .subs b .. | .opt b .. | .optInts b .. => b

/-- slot of the marshal side vs slot of the unmarshal side (the unmarshal side knows lengths/windows) -/
def Slot.agrees : Slot → Slot → Bool
  | .int b w e f, .int b' w' e' f' => b == b' && w == w' && e == e' && f == f'
  | .u8 b f, .u8 b' f' => b == b' && f == f'
  | .bytes b f _, .bytes b' f' _ => b == b' && f == f'
  | .arr b f, .arr b' f' => b == b' && f == f'
  | .sub b f t _, .sub b' f' t' _ => b == b' && f == f' && t == t'
  | .ints b w e f _, .ints b' w' e' f' _ => b == b' && w == w' && e == e' && f == f'
  | .subs b f t _ _, .subs b' f' t' _ _ => b == b' && f == f' && t == t'
  | .opt b w e f _, .opt b' w' e' f' _ => b == b' && w == w' && e == e' && f == f'
  | .optInts b w e f _ _, .optInts b' w' e' f' _ _ => b == b' && w == w' && e == e' && f == f'
  | _, _ => false

def agreeAll : List Slot → List Slot → Bool
  | [], [] => true
  | a :: as, b :: bs => a.agrees b && agreeAll as bs
  | _, _ => false

/-- a `bytes … none` slot (rest of block) may only be the last slot of its block -/
def restOnlyLast : List Slot → Bool
  | [] => true
  | .bytes _ _ none :: r => r.isEmpty && restOnlyLast r
  | _ :: r => restOnlyLast r

def Slot.field : Slot → String
  | .int _ _ _ f | .u8 _ f | .bytes _ f _ | .arr _ f | .sub _ f _ _ | .ints _ _ _ f _ | .subs _ f _ _ _ | .opt _ _ _ f _
  | .optInts _ _ _ f _ _ => f

/-- wire size of the nested types whose encoding has the same length for every value (what the
    literal guards and fixed windows in front of a nested read are compared with) -/
def fixedSize (typ : String) : Option Nat :=
  if typ == "SMB_DATE" || typ == "SMB_FILE_ATTRIBUTES" || typ == "SMB_NMPIPE_STATUS" then some 2
  else if typ == "SMB_TIME" || typ == "FILETIME" then some 8
  else if typ == "LOCKING_ANDX_RANGE64" then some 20
  else none

/-- nested types whose decoder accepts nothing but exactly its own encoding (`SMB_NMPIPE_STATUS.Unmarshal`:
    `len(data) != 2` is an error, pinned by the repository's suite — C06 finding `nmpipe_trailing`): the round trip
    can only go through a window of exactly that size -/
def exactLen (typ : String) : Bool := typ == "SMB_NMPIPE_STATUS"

/-- the field a marshal statement of the straight-line fragment assigns in the command itself -/
def MStmt.modifies : MStmt → Option String
  | .sub _ f _ | .setFmt f _ | .assignLen f _ _ => some f
  | _ => none

/-- the bytes on the wire are those of the field values Marshal leaves behind: once a field has been
    emitted no later statement (`SetBufferFormat`, `c.F = len(…)`, a nested `Marshal`) changes it -/
def stableM : List MStmt → Bool
  | [] => true
  | st :: r =>
    (match emittedField st with
      | some (_, f) => r.all (fun s => s.modifies != some f)
      | none => true) && stableM r

/-- every field an expression mentions has been assigned by an earlier read (and the expression does
    not use the local `padLen`) -/
def Expr.closed (seen : List String) : Expr → Bool
  | .lit _ => true
  | .fint f => seen.contains f
  | .flen f => seen.contains f
  | .fsub f _ => seen.contains f
  | .pad => false
  | .add a b => a.closed seen && b.closed seen
  | .mul _ e => e.closed seen

/-- where `offset` stands: `cur = some b` — it counts the bytes of block `b` read since the last
    `offset = 0`; `cur = none` — it is 0.  `used`: the blocks some read has already consumed from. -/
structure UPos where
  cur : Option Blk := none
  used : List Blk := []
  deriving Repr, Inhabited

def UPos.canRead (p : UPos) (b : Blk) : Bool := p.cur == some b || (p.cur == none && !p.used.contains b)
def UPos.read (p : UPos) (b : Blk) : UPos := { cur := some b, used := b :: p.used }
def UPos.reset (p : UPos) : UPos := { p with cur := none }

/-- a guard asks for no more than the read that follows it consumes (so it cannot fail on the
    bytes Marshal produced) -/
def guardFits (b : Blk) (e : Expr) : List UStmt → Bool
  | .readInt b' w _ _ :: _ => b == b' && exprLe e (.lit w)
  | .readQuad b' w _ _ :: _ => b == b' && exprLe e (.lit w)
  | .readU8 b' _ :: _ => b == b' && exprLe e (.lit 1)
  | .readBytes b' _ n :: _ => b == b' && exprLe e n
  | .readArr b' _ n :: _ => b == b' && exprLe e (.lit n)
  | .readSub b' _ t _ _ _ _ :: _ =>
    b == b' && (match fixedSize t with | some k => exprLe e (.lit k) | none => false)
  | _ => false

/-- offset discipline of an unmarshal program of the straight-line fragment (`layoutU` accepts it):
    each block is read in one run starting at `offset = 0`; length expressions only mention fields
    already read; guards fit the read they protect; a fixed window has the size of the nested type, and a
    nested type that rejects trailing bytes is only read through one;
    an early `return 0, nil` on empty blocks tests every block that has slots (`hp`/`hd`: the
    parameter / data block has slots) -/
def okU (hp hd : Bool) : UPos → List String → List UStmt → Bool
  | _, _, [] => true
  | pos, seen, .retIfEmpty p d :: r => (p || !hp) && (d || !hd) && okU hp hd pos seen r
  | pos, seen, .resetOffset :: r => okU hp hd pos.reset seen r
  | pos, seen, .guard b e :: r => guardFits b e r && okU hp hd pos seen r
  | pos, seen, .readInt b _ _ f :: .advance _ :: r => pos.canRead b && okU hp hd (pos.read b) (f :: seen) r
  | pos, seen, .readQuad b _ _ f :: .advance _ :: r => pos.canRead b && okU hp hd (pos.read b) (f :: seen) r
  | pos, seen, .readU8 b f :: .advance _ :: r => pos.canRead b && okU hp hd (pos.read b) (f :: seen) r
  | pos, seen, .readBytes b f n :: .advance _ :: r =>
    pos.canRead b && n.closed seen && okU hp hd (pos.read b) (f :: seen) r
  | pos, seen, .readRest b f :: .advance _ :: r => pos.canRead b && okU hp hd (pos.read b) (f :: seen) r
  | pos, seen, .readArr b f _ :: .advance _ :: r => pos.canRead b && okU hp hd (pos.read b) (f :: seen) r
  | pos, seen, .readSub b f t win _ _ _ :: .advanceRead :: r =>
    pos.canRead b && (match win with | some n => fixedSize t == some n | none => !exactLen t) &&
      okU hp hd (pos.read b) (f :: seen) r
  | _, _, _ :: _ => false

/-- the slot-for-slot comparison of the two layouts (the part of `Mirror` about what is on the wire) -/
def mirrorSlots (m u : List Slot) : Bool :=
  let mP := m.filter (·.blk == .P); let mD := m.filter (·.blk == .D)
  let uP := u.filter (·.blk == .P); let uD := u.filter (·.blk == .D)
  agreeAll mP uP && agreeAll mD uD && restOnlyLast uP && restOnlyLast uD

/-- the AndX stanza of an unmarshal program: after nothing but early returns that test the parameter
    stream (which cannot fire once the AndX words are there), the AndX block is read from the head of
    the parameter stream and exactly its four bytes are cut off; the result is the rest of the program,
    which then sees the command's own parameters from offset 0 -/
def splitAndX : List UStmt → Option (List UStmt)
  | .retIfEmpty true _ :: r => splitAndX r
  | .readAndX :: .resliceP 4 :: r => some r
  | _ => none

/-- the part of the unmarshal program that reads the declared fields: for an AndX command what follows
    the AndX stanza (which must be there: `Marshal` puts the two AndX words first), otherwise all of it -/
def bodyU (c : Cmd) : Option (List UStmt) := if c.isAndX then splitAndX c.unmarshal else some c.unmarshal

/-- a nested value decoded from the *whole* block right behind `offset = 0` (`offset = 0; bytesRead, err =
    c.F.Unmarshal(blk)`) is decoded from `blk[offset:]`: the two slice expressions denote the same bytes there
    (`go_normWhole`, Lemmas/SmbUnmarshal.lean).  The static predicates read the unmarshal program in this normal form;
    a whole-block decode anywhere else stays what it is (and outside every fragment). -/
def normWhole : List UStmt → List UStmt
  | .resetOffset :: .readSub b f t none true ck st :: r => .resetOffset :: .readSub b f t none false ck st :: normWhole r
  | s :: r => s :: normWhole r
  | [] => []

/-- `bodyU` in the normal form the layout functions read -/
def bodyN (c : Cmd) : Option (List UStmt) := (bodyU c).map normWhole

/-- C04 static predicate: both programs are straight-line, describe the same slots per block in the
    same order (`mirrorSlots`), and the unmarshal program of an AndX command consumes the AndX words
    the marshal prologue emits before it reads the first field (`bodyU`); moreover — the side conditions without which the round trip is not a theorem —
    Marshal does not change a field after emitting it (`stableM`) and never the AndX block, Unmarshal keeps the offset
    discipline, reads lengths before the buffers they describe, guards no more than it reads
    (`okU`), and every declared field is on the wire. -/
def Mirror (c : Cmd) : Bool :=
  match bodyN c with
  | none => false
  | some body =>
    match layoutM c.marshal, layoutU body with
    | some m, some u =>
      mirrorSlots m u &&
      stableM c.marshal && c.marshal.all (fun s => s.modifies != some andxField) &&
      okU (!(u.filter (·.blk == .P)).isEmpty) (!(u.filter (·.blk == .D)).isEmpty) {} (if c.isAndX then [andxField] else []) body &&
      (c.fields.map (·.1)).all (fun f => (u.map Slot.field).contains f)
    | _, _ => false

/-- bytes a slot contributes, read off the field values (for `sub`: what the nested encoder emits);
    `[]` when the field is absent or holds a value of another kind -/
def slotBytes (C : Codecs) (env : Env) : Slot → Bytes
  | .int _ w e f => match env.get f with | some (.n x) => intBytes w e x | _ => []
  | .u8 _ f => match env.get f with | some (.n x) => [UInt8.ofNat x] | _ => []
  | .bytes _ f _ => match env.get f with | some (.b bs) => bs | _ => []
  | .arr _ f => match env.get f with | some (.b bs) => bs | _ => []
  | .sub _ f typ _ =>
    match env.get f with
    | some (.t v) => (match C.enc typ v with | .ok (bs, _) => bs | _ => [])
    | _ => []
  | .ints _ w e f _ => match env.get f with | some (.ns xs) => xs.flatMap (intBytes w e) | _ => []
  | .subs _ f typ _ _ =>
    match env.get f with
    | some (.ts vs) => vs.flatMap (fun v => match C.enc typ v with | .ok (bs, _) => bs | _ => [])
    | _ => []
  | .opt _ w e f _ => match env.get f with | some (.n x) => if x = 0 then [] else intBytes w e x | _ => []
  | .optInts _ w e f _ _ =>
    match env.get f with | some (.ns xs) => if xs.any (· != 0) then xs.flatMap (intBytes w e) else [] | _ => []

/-- bytes of a sequence of slots: the encoding a layout prescribes for the field values -/
def layoutBytes (C : Codecs) (env : Env) (l : List Slot) : Bytes := l.flatMap (slotBytes C env)

/-- nested wire types a command marshals -/
def Cmd.subTypes (c : Cmd) : List String :=
  c.marshal.filterMap (fun s => match s with | .sub _ _ t => some t | _ => none)

/-! ### slot locality: where a fixed-width field sits in the encoded command -/

/-- does a marshal statement of the straight-line fragment read or write field `f`
    (statements outside the fragment: conservatively yes) -/
def MStmt.mentions (f : String) : MStmt → Bool
  | .int _ _ _ g | .quad _ _ _ g | .u8 _ g | .bytes _ g | .arr _ g | .sub _ g _ | .setFmt g _ => g == f
  | .assignLen g h _ => g == f || h == f
  | .zeros _ _ => false
  | .forInt _ _ _ g => g == f
  | _ => true

/-- `layoutM`, except that literal zero bytes in the *data* block (`append(raw, 0x00, 0x00)`: the terminator of a
    null-terminated string, NegotiateResponse) are passed over: they belong to no field and move no parameter slot;
    and a `range` loop over an integer array is one slot of variable width (`slotAt` stops there: the fixed-width
    fields in front of it keep their ranges — OpenAndxRequest, TransactionRequest, the `Reserved` arrays).
    Only `slotRange` reads the layout through this function; `Mirror`, `Conforms` and `Spec.Cifs.encode` keep
    `layoutM`, for which such a program is outside the straight-line fragment. -/
def layoutZ : List MStmt → Option (List Slot)
  | [] => some []
  | .int b w e f :: r => (layoutZ r).map (.int b w e f :: ·)
  | .quad b w e f :: r => (layoutZ r).map (.int b w e f :: ·)
  | .u8 b f :: r => (layoutZ r).map (.u8 b f :: ·)
  | .bytes b f :: r => (layoutZ r).map (.bytes b f none :: ·)
  | .arr b f :: r => (layoutZ r).map (.arr b f :: ·)
  | .sub b f t :: r => (layoutZ r).map (.sub b f t none :: ·)
  | .setFmt _ _ :: r => layoutZ r
  | .assignLen _ _ _ :: r => layoutZ r
  | .zeros .D _ :: r => layoutZ r
  | .forInt b w e f :: r => (layoutZ r).map (.ints b w e f none :: ·)
  | _ :: _ => none

/-- offset and width of the first fixed-width slot of field `f` in a block's slot list, provided
    every slot in front of it has a fixed width (`off`: bytes in front of the list) -/
def slotAt (f : String) : List Slot → Nat → Option (Nat × Nat)
  | [], _ => none
  | .int _ w _ g :: r, off => if g == f then some (off, w) else slotAt f r (off + w)
  | .u8 _ g :: r, off => if g == f then some (off, 1) else slotAt f r (off + 1)
  | _ :: _, _ => none

/-- byte range `[lo, hi)` of a fixed-width parameter field's slot inside the encoded command: defined
    when the marshal program is straight-line (literal terminator bytes in the data block apart: `layoutZ`),
    exactly one statement touches the field, and only
    fixed-width slots precede it in the parameter block (then the offset does not depend on values) -/
def slotRange (c : Cmd) (f : String) : Option (Nat × Nat) :=
  if f == andxField || (c.marshal.filter (·.mentions f)).length != 1 then none else
  match layoutZ c.marshal with
  | none => none
  | some m =>
    match slotAt f (m.filter (·.blk == .P)) 0 with
    | some (off, w) =>
      some (1 + (andxBytes c.isAndX).length + off, 1 + (andxBytes c.isAndX).length + off + w)
    | none => none

/-- value of an integer expression over a field assignment (before any decoding) -/
def evalEnv (env : Env) : Expr → Option Nat
  | .lit n => some n
  | .fint f => match env.get f with | some (.n x) => some x | _ => none
  | .flen f => match env.get f with
    | some (.b bs) => some bs.length
    | some (.ns xs) => some xs.length
    | some (.ts vs) => some vs.length
    | _ => none
  | .fsub f i => match env.get f with | some (.t v) => v.1[i]? | _ => none
  | .pad => none
  | .add a b => do pure ((← evalEnv env a) + (← evalEnv env b))
  | .mul k e => do pure (k * (← evalEnv env e))

/-- C04 "internally consistent": every integer fits its slot, every length field equals the length
    of the buffer it describes, nested values encode, a nested value read through a fixed window
    fills exactly that window, byte-array fields have their declared length, and the blocks fit the
    one-byte word count / two-byte byte count (an even number of parameter bytes). -/
def consistentSlots (C : Codecs) (env : Env) : List Slot → Bool
  | [] => true
  | .int _ w _ f :: r => (match env.get f with | some (.n x) => x < 256 ^ w | _ => false) && consistentSlots C env r
  | .u8 _ f :: r => (match env.get f with | some (.n x) => x < 256 | _ => false) && consistentSlots C env r
  | .bytes _ f len :: r =>
    (match env.get f, len with
      | some (.b bs), some e => evalEnv env e == some bs.length
      | some (.b _), none => true
      | _, _ => false) && consistentSlots C env r
  | .arr _ f :: r => (match env.get f with | some (.b _) => true | _ => false) && consistentSlots C env r
  | .sub _ f typ win :: r =>
    (match env.get f with
      | some (.t v) =>
        (match C.enc typ v with
          | .ok (bs, _) => (match win with | some n => bs.length == n | none => true) &&
              (match C.dec typ bs with | .ok (_, k) => k == bs.length | _ => false)
          | _ => false)
      | _ => false) && consistentSlots C env r
  | .ints _ w _ f _ :: r => (match env.get f with | some (.ns xs) => xs.all (· < 256 ^ w) | _ => false) && consistentSlots C env r
  | .subs _ f typ _ _ :: r =>
    (match env.get f with
      | some (.ts vs) => vs.all (fun v => match C.enc typ v with | .ok _ => true | _ => false)
      | _ => false) && consistentSlots C env r
  | .opt _ w _ f _ :: r => (match env.get f with | some (.n x) => x < 256 ^ w | _ => false) && consistentSlots C env r
  | .optInts _ w _ f _ _ :: r => (match env.get f with | some (.ns xs) => xs.all (· < 256 ^ w) | _ => false) && consistentSlots C env r

/-- a nested value is in its type's domain: it encodes, and its own encoding decodes back to it,
    consuming exactly what was written -/
def tupOk (C : Codecs) (typ : String) (v : Tup) : Bool :=
  match C.enc typ v with
  | .ok (bs, v') => (match C.dec typ bs with | .ok (d, k) => k == bs.length && d == v' | _ => false)
  | _ => false

/-- a nested value is a fixed point of its encoder: `Marshal` leaves it as it is (a list element is marshalled
    as a copy, so the command keeps the element while the wire carries what `Marshal` made of it) -/
def tupFix (C : Codecs) (typ : String) (v : Tup) : Bool :=
  match C.enc typ v with
  | .ok (_, v') => v' == v
  | _ => false

/-- laws the nested codecs must satisfy for the types `T` (for the standard codecs they follow from the
    C06 models): `Marshal` is idempotent on the value it leaves behind; a value of the domain decodes
    from its encoding followed by anything (by nothing, for the `exactLen` types), consuming exactly the
    encoding; the types with a
    `fixedSize` always encode to that many bytes. -/
structure LawfulCodecs (C : Codecs) (T : String → Prop) : Prop where
  idem : ∀ typ v bs v', T typ → C.enc typ v = .ok (bs, v') → C.enc typ v' = .ok (bs, v')
  rt : ∀ typ v bs v', T typ → C.enc typ v = .ok (bs, v') → tupOk C typ v = true →
        ∀ suffix, suffix = [] ∨ exactLen typ = false → C.dec typ (bs ++ suffix) = .ok (v', bs.length)
  size : ∀ typ n v bs v', T typ → fixedSize typ = some n → C.enc typ v = .ok (bs, v') → bs.length = n

/-- the extra law the re-encoding corollary needs, for the types `F` whose buffer format `Marshal`
    respects: after `SetBufferFormat k` (a `UCHAR`), the value `Marshal` leaves behind still has format `k` -/
structure LawfulFmt (C : Codecs) (F : String → Prop) : Prop where
  fmt : ∀ typ k v bs v', F typ → k < 256 → C.enc typ (C.setFmt k v) = .ok (bs, v') → C.setFmt k v' = v'

/-- shape of a marshal program (of the straight-line fragment) whose second run, on the field values
    the first run left behind, changes nothing: every `SetBufferFormat` (with a one-byte format) is
    immediately followed by the `Marshal` of the same nested field; after a `c.F = len(c.G)` nothing
    assigns `F` or `G` any more (so the second run computes the length of the same buffer) -/
def reencodableM : List MStmt → Bool
  | [] => true
  | .setFmt f k :: r =>
    (match r with
      | .sub _ g _ :: _ => f == g && decide (k < 256)
      | _ => false) && reencodableM r
  | .assignLen f g _ :: r =>
    f != g && r.all (fun s => s.modifies != some f && s.modifies != some g) && reencodableM r
  | _ :: r => reencodableM r

/-- the fields a `c.F = len(c.G)` statement writes and reads -/
def lenFieldsM : List MStmt → List String
  | [] => []
  | .assignLen f g _ :: r => f :: g :: lenFieldsM r
  | _ :: r => lenFieldsM r

/-- nested types marshalled right after a `SetBufferFormat` -/
def fmtTypesM : List MStmt → List String
  | [] => []
  | .setFmt _ _ :: r => (match r with | .sub _ _ t :: _ => [t] | _ => []) ++ fmtTypesM r
  | _ :: r => fmtTypesM r

def Cmd.fmtTypes (c : Cmd) : List String := fmtTypesM c.marshal

/-- static side condition of the re-encoding corollary: `reencodableM`, and the marshal program only
    emits (and measures, and sets the length of) declared fields -/
def Reencodable (c : Cmd) : Bool :=
  reencodableM c.marshal &&
  (lenFieldsM c.marshal).all (fun f => (c.fields.map (·.1)).contains f) &&
  (match layoutM c.marshal with
    | some m => (m.map Slot.field).all (fun f => (c.fields.map (·.1)).contains f)
    | none => false)

/-- integers fit the width the marshal program gives them -/
def intsFit (env : Env) : List MStmt → Bool
  | [] => true
  | .int _ w _ f :: r => (match env.get f with | some (.n x) => x < 256 ^ w | _ => false) && intsFit env r
  | .quad _ w _ f :: r => (match env.get f with | some (.n x) => x < 256 ^ w | _ => false) && intsFit env r
  | .u8 _ f :: r => (match env.get f with | some (.n x) => x < 256 | _ => false) && intsFit env r
  | .forInt _ w _ f :: r => (match env.get f with | some (.ns xs) => xs.all (· < 256 ^ w) | _ => false) && intsFit env r
  | .ifNonZero _ body :: r => intsFit env body && intsFit env r
  | .ifNonZeroArr _ body :: r => intsFit env body && intsFit env r
  | .ifWordCount _ body :: r => intsFit env body && intsFit env r
  | _ :: r => intsFit env r

/-- the relations between fields the unmarshal program relies on: a buffer read with length
    `int(c.G)` has exactly that many bytes, a counted list has exactly `c.G` entries, padding has the
    computed length (`plen`: the length of the command's own parameter bytes, which the alignment rule
    `(len(P)+3)%2` of SESSION_SETUP_ANDX looks at), fixed arrays have their size, nested values are in their domain (the
    elements of a counted list moreover as `Marshal` leaves them: `tupFix`).  Window sizes
    and entry sizes of the program are *not* consulted: they are the library's business. -/
def relationsHold (C : Codecs) (env : Env) (plen : Nat) : (pad : Nat) → List UStmt → Bool
  | _, [] => true
  | pad, .readBytes _ f e :: r =>
    (match env.get f, e with
      | some (.b bs), .pad => bs.length == pad
      | some (.b bs), e => evalEnv env e == some bs.length
      | _, _ => false) && relationsHold C env plen pad r
  | pad, .readArr _ f n :: r => (match env.get f with | some (.b bs) => bs.length == n | _ => false) && relationsHold C env plen pad r
  -- `c.F = [3]T{…}`: the fixed array has its three entries
  | pad, .readArr3 _ f :: r => (match env.get f with | some (.ns xs) => xs.length == 3 | _ => false) && relationsHold C env plen pad r
  | pad, .readSub _ f typ _ _ _ _ :: r => (match env.get f with | some (.t v) => tupOk C typ v | _ => false) && relationsHold C env plen pad r
  | pad, .forCountInt _ _ _ f g :: r =>
    (match env.get f, env.get g with | some (.ns xs), some (.n k) => xs.length == k | _, _ => false) && relationsHold C env plen pad r
  | pad, .forCountSub _ f g typ _ :: r =>
    (match env.get f, env.get g with
      | some (.ts vs), some (.n k) => vs.length == k && vs.all (tupOk C typ) && vs.all (tupFix C typ)
      | _, _ => false) && relationsHold C env plen pad r
  | pad, .whileFitsSub _ f typ _ :: r =>
    (match env.get f with | some (.ts vs) => vs.all (tupOk C typ) | _ => false) && relationsHold C env plen pad r
  | pad, .cstrUnicode f :: r =>
    -- a UTF-16 string: an even number of bytes, no 0x0000 unit
    (match env.get f with | some (.b bs) => bs.length % 2 == 0 && (cstrUnicode (bs ++ [0, 0])).1 == bs | _ => false) && relationsHold C env plen pad r
  | _, .setPad e :: r => (match evalEnv env e with | some n => relationsHold C env plen n r | none => false)
  | pad, .padRoundUp :: r => relationsHold C env plen (if pad % 2 = 1 then pad + 1 else pad) r
  | pad, .padIfPOdd :: r => relationsHold C env plen (if (plen + 3) % 2 = 1 then 1 else pad) r
  | pad, .ifWordCount _ body :: r => relationsHold C env plen pad body && relationsHold C env plen pad r
  | pad, _ :: r => relationsHold C env plen pad r

/-- the AndX block an AndX command goes out with (the one set, or the default of the prologue) is a
    command byte, a reserved byte and a 16-bit offset -/
def andxOk (andx : Bool) (env : Env) : Bool :=
  !andx ||
  (match (prologueEnv andx env).get andxField with
    | some (.ns [c, r, o]) => c < 256 && r < 256 && o < 65536
    | _ => false)

/-- C04 "internally consistent": a condition on the field *values* (they fit their slots, lengths and counts agree with
    their buffers, nested values are in their domain, the blocks fit their count fields).  Where Marshal puts the
    bytes is not among them: a program that writes a field ahead of the parameter block (`MState.head`, `subHead`) is
    judged on the same assignments as any other — the fragment predicates exclude it and the round-trip oracle exhibits
    it (WriteRequest did so until fixes/C04-writerequest-data-block.diff; while `consistent` asked `head` to be empty the
    oracle was silent on that command and the defect stayed hidden). -/
def consistent (C : Codecs) (c : Cmd) (env : Env) : Bool :=
  andxOk c.isAndX env &&
  match runM C c env with
  | .ok s =>
    intsFit s.env c.marshal && relationsHold C s.env s.P.length 0 c.unmarshal &&
    s.P.length % 2 == 0 && wordCountOf c.isAndX s.P ≤ 255 && s.D.length ≤ 65535 &&
    (s.P.length > 0 || s.D.length > 0 || c.fields.isEmpty)
  | _ => false

/-! known C04 findings, decided on the extracted programs (not on the failing input):
    `andx-not-consumed`: an AndX command whose Unmarshal does not consume the two AndX words its Marshal
    put first (no instance on this tree since fixes/C04-andx-consumed.diff; kept so that a command losing
    the stanza is named for what it is); `field-not-marshalled`: a declared field no marshal
    statement emits; … -/
mutual
def emittedStmt : MStmt → List String
  | .ifNonZero f body => f :: emittedDeep body
  | .ifNonZeroArr f body => f :: emittedDeep body
  | .ifWordCount _ body => emittedDeep body
  | .subHead f _ => [f]
  | .int _ _ _ f | .quad _ _ _ f | .u8 _ f | .bytes _ f | .arr _ f | .sub _ f _ | .forSub _ f _
  | .forInt _ _ _ f => [f]
  | .setFmt _ _ | .assignLen _ _ _ | .zeros _ _ => []
def emittedDeep : List MStmt → List String
  | [] => []
  | s :: r => emittedStmt s ++ emittedDeep r
end

mutual
/-- fields an unmarshal program assigns -/
def readStmt : UStmt → List String
  | .ifWordCount _ body => readDeep body
  | .readInt _ _ _ f | .readQuad _ _ _ f | .readU8 _ f | .readBytes _ f _
  | .readRest _ f | .readArr _ f _ | .readSub _ f _ _ _ _ _ | .forCountInt _ _ _ f _
  | .forRangeInt _ _ _ f | .forCountSub _ f _ _ _ | .whileFitsSub _ f _ _
  | .cstrUnicode f | .readArr3 _ f => [f]
  | _ => []
def readDeep : List UStmt → List String
  | [] => []
  | s :: r => readStmt s ++ readDeep r
end

/-- the fields an unmarshal program sets to zero in front of the word-count test under which it reads them
    (`c.F = 0; if WordCount == k { … c.F = … }`): when the test fails the receiver does not keep an old value -/
def resetBeforeTest : List UStmt → List String
  | [] => []
  | .zeroInt f :: .ifWordCount k body :: r =>
    (if (readDeep body).contains f then [f] else []) ++ resetBeforeTest (.ifWordCount k body :: r)
  | .zeroInts f _ :: .ifWordCount k body :: r =>
    (if (readDeep body).contains f then [f] else []) ++ resetBeforeTest (.ifWordCount k body :: r)
  | _ :: r => resetBeforeTest r

inductive RtFinding
  | andxNotConsumed | fieldNotMarshalled | fieldNotUnmarshalled | readsWholeBuffer | conditionalField | fixedEntrySize
  deriving DecidableEq, Repr, Inhabited

def RtFinding.key : RtFinding → String
  | .andxNotConsumed => "andx-not-consumed"
  | .fieldNotMarshalled => "field-not-marshalled"
  | .fieldNotUnmarshalled => "field-not-unmarshalled"
  | .readsWholeBuffer => "reads-whole-buffer"
  | .conditionalField => "conditional-field"
  | .fixedEntrySize => "fixed-entry-size"

def knownRtKind (c : Cmd) : Option RtFinding :=
  let em := emittedDeep c.marshal
  let rd := readDeep c.unmarshal
  if c.isAndX && (splitAndX c.unmarshal).isNone then some .andxNotConsumed
  else if (c.fields.map (·.1)).any (fun f => !em.contains f) then some .fieldNotMarshalled
  else if em.any (fun f => !rd.contains f) then some .fieldNotUnmarshalled
  -- two or more nested values each decoded from the start of the block instead of from `offset`
  else if (c.unmarshal.filter (fun s => match s with | .readSub _ _ _ _ true _ _ => true | _ => false)).length ≥ 2 then
    some .readsWholeBuffer
  -- a field emitted under a condition on the `WordCount` Marshal is still building (never true), or emitted iff
  -- non-zero and not reset by Unmarshal in front of the word-count test that reads it (a receiver that held a
  -- value from an earlier message keeps it when the short form arrives)
  else if c.marshal.any (fun s => match s with
      | .ifWordCount .. => true
      | .ifNonZero f _ | .ifNonZeroArr f _ => !(resetBeforeTest c.unmarshal).contains f
      | _ => false) then
    some .conditionalField
  -- list entries decoded through a fixed window whose size is not the entries' encoded size
  else if c.unmarshal.any (fun s => match s with | .whileFitsSub .. => true | _ => false) then
    some .fixedEntrySize
  else none

def knownRt (c : Cmd) : String :=
  match knownRtKind c with
  | some k => k.key ++ ":" ++ c.name
  | none => ""

/-- C05 finding `be:AndXOffset`: the AndX block the command holds has an offset whose two bytes differ — the
    AndX words are written as 16-bit words, high byte first (`AndX.GetParameters`, `Parameters.Marshal`;
    the repository's andx tests pin `AndX.Marshal`/`Unmarshal` to the same byte order), MS-CIFS has
    AndXOffset little-endian -/
def andxOffsetBigEndian (andx : Bool) (env : Env) : Bool :=
  andx && (match env.get andxField with
    | some (.ns [_, _, o]) => o / 256 % 256 != o % 256
    | _ => false)

/-- known C05 findings: a nested value whose Go encoder is big-endian (`SMB_FILE_ATTRIBUTES`, pinned
    by the repository's own tests) inside this command -/
def knownEnc (c : Cmd) (env : Env) : String :=
  if andxOffsetBigEndian c.isAndX env then "be:AndXOffset"
  else if c.marshal.any (fun s => match s with | .sub _ _ "SMB_FILE_ATTRIBUTES" => true | _ => false) then "be:SMB_FILE_ATTRIBUTES"
  -- buffer format 0x03 is written as `03 len16 bytes 00` (MS-CIFS: `03 bytes 00`)
  else if c.marshal.any (fun s => match s with
      | .sub _ f "SMB_STRING" => (match env.get f with | some (.t (3 :: _, _)) => true | _ => false)
      | _ => false) then "fmt3:SMB_STRING"
  else ""

end Manticore.SmbIR
