/-
  C01 — password-hash primitives.

  MODEL (what the Go code does, transliterated):
    crypto/md4/md4.go      New / Write / Sum / HexSum / md4.Sum   (compression function: Gen/Md4Kernel.lean,
                           regenerated from the source on every run)
    utils/encoding/utf16   EncodeUTF16LE
    crypto/nt/nt.go        NTHash / NTHashHex
    crypto/lm/lm.go        LMHash / LMHashToHex
    crypto/dcc/dcc.go      DCCHashFrom{Password,NTHash}[ToHex|ToHashcatString]
    crypto/dcc2/dcc2.go    DCC2Hash / DCC2HashWithPassword / DCC2HashWithNTHash
  SPEC (what the standards say, written independently — namespace `Spec`):
    RFC 1320 MD4; RFC 3629 UTF-8; RFC 2781 UTF-16 (little-endian serialisation);
    MS-NLMP 3.3.1 NTOWFv1 / LMOWFv1 with the textbook `str_to_key`; MS-Cache v1 / v2.

  Go language / stdlib semantics modelled here (trusted, tied by the harness): `[]rune(string)`,
  `unicode/utf16.Encode`, `strings.ToUpper/ToLower` (ASCII fast path concrete, Unicode part a parameter),
  `hex.EncodeToString`, `fmt` verbs `%s %d`, `copy`, `append`.  DES is `Prims/DES.lean`;
  PBKDF2-HMAC-SHA1 stays residual (`Prims/Residual.lean`).
-/
import Manticore.Basic
import Manticore.Prims.DES
import Manticore.Prims.Residual
import Manticore.Gen.Md4Kernel
namespace Manticore.C01
open Manticore

/-- the four chaining words `state [4]uint32` -/
abbrev Words4 := UInt32 × UInt32 × UInt32 × UInt32

/-! ## MD4 — model -/

/-- `binary.LittleEndian.Uint32(chunk[off:])`; every caller passes a 64-byte chunk and `off ≤ 60`
    (`md4.buffer[:]` is an array, the loop passes `p[i:i+64]`), so the Go bounds check never fires. -/
def leWordAt (chunk : Bytes) (off : Nat) : UInt32 :=
  le32 (chunk.getD off 0) (chunk.getD (off + 1) 0) (chunk.getD (off + 2) 0) (chunk.getD (off + 3) 0)

/-- `md4.processChunk(chunk)`: the word loop `x[i] = LittleEndian.Uint32(chunk[i*4:])` feeding the
    generated 48 steps -/
def processChunk (st : Words4) (chunk : Bytes) : Words4 :=
  Gen.Md4Kernel.processChunk st (fun i => leWordAt chunk (i * 4))

structure MD4 where
  state : Words4
  count : UInt64      -- bits written so far, wraps modulo 2^64 as in Go
  buffer : Bytes      -- `[64]byte`
  deriving DecidableEq, Repr

/-- `New()` -/
def new : MD4 := { state := Gen.Md4Kernel.initState, count := 0, buffer := List.replicate 64 0 }

/-- `copy(buf[off:], src)` when `off + len src ≤ len buf` (always the case below) -/
def copyAt (buf : Bytes) (off : Nat) (src : Bytes) : Bytes :=
  buf.take off ++ src ++ buf.drop (off + src.length)

section Streaming
/- The buffering logic does not depend on what the compression function computes; the streaming
   theorems are proved for an arbitrary one and instantiated with `processChunk`. -/
variable (compress : Words4 → Bytes → Words4)

/-- the loop `for ; i+64 <= n; i += 64 { processChunk(p[i:i+64]) }` on the rest `p[i:]`:
    final state and the unconsumed tail `p[i:]` -/
def absorb (st : Words4) (m : Bytes) : Words4 × Bytes :=
  if _h : 64 ≤ m.length then absorb (compress st (m.take 64)) (m.drop 64) else (st, m)
termination_by m.length
decreasing_by simp [List.length_drop]; omega

/-- `Write(p)`.
    ```
    n = len(p); md4.count += uint64(n) * 8
    buffered := int((md4.count/8 - uint64(n)) % 64); remaining := 64 - buffered
    if n >= remaining { copy(buffer[buffered:], p[:remaining]); processChunk(buffer[:]); i = remaining
                        for ; i+64 <= n; i += 64 { processChunk(p[i:i+64]) }; buffered = 0 }
    copy(buffer[buffered:], p[i:])
    ``` -/
def writeWith (s : MD4) (p : Bytes) : MD4 :=
  let n := p.length
  let count := s.count + UInt64.ofNat n * 8
  let buffered := ((count / 8 - UInt64.ofNat n) % 64).toNat
  let remaining := 64 - buffered
  if remaining ≤ n then
    let buf1 := copyAt s.buffer buffered (p.take remaining)
    let st1 := compress s.state buf1
    let r := absorb compress st1 (p.drop remaining)
    { state := r.1, count := count, buffer := copyAt buf1 0 r.2 }
  else
    { state := s.state, count := count, buffer := copyAt s.buffer buffered p }

/-- the digest bytes: `binary.LittleEndian.PutUint32(digest[i*4:], state[i])` -/
def digestOf (st : Words4) : Bytes := putLe32 st.1 ++ putLe32 st.2.1 ++ putLe32 st.2.2.1 ++ putLe32 st.2.2.2

/-- `var padding [64]byte; padding[0] = 0x80` -/
def padding : Bytes := 0x80 :: List.replicate 63 0

/-- `padLen := 56 - index; if index >= 56 { padLen += 64 }` in `uint64` (the subtraction wraps and the
    addition wraps back) -/
def padLenOf (count : UInt64) : UInt64 :=
  let index := count / 8 % 64
  let padLen := 56 - index
  if index ≥ 56 then padLen + 64 else padLen

/-- `Sum()` **after fix C01-md4-sum-pure** — returns (receiver after the call, digest).
    ```
    bits := LE64(md4.count); index := md4.count/8 % 64; padLen := …
    h := *md4                      // value copy: state, count and the buffer array
    h.Write(padding[:padLen]); h.Write(bits[:])
    digest = LE32(h.state[0..3])
    ```
    `padding[:padLen]` cannot panic: 1 ≤ padLen ≤ 64 (`Props: md4_sum_padlen_bounds`). -/
def sumWith (s : MD4) : MD4 × Bytes :=
  let bits := putLe64 s.count
  let h := s
  let h := writeWith compress h (padding.take (padLenOf s.count).toNat)
  let h := writeWith compress h bits
  (s, digestOf h.state)

/-- `Sum()` as it was **before** the fix: it padded the receiver itself.  Kept only to state the
    counterexample that motivated the fix (`Props: md4_sum_pure_fails_before_fix`). -/
def sumUnfixedWith (s : MD4) : MD4 × Bytes :=
  let bits := putLe64 s.count
  let h := writeWith compress s (padding.take (padLenOf s.count).toNat)
  let h := writeWith compress h bits
  (h, digestOf h.state)

end Streaming

/-- one call on a running hash -/
inductive Op where
  | write (p : Bytes)
  | sum                  -- `Sum()`
  | hexSum               -- `HexSum()`
  deriving Repr, DecidableEq

def write : MD4 → Bytes → MD4 := writeWith processChunk
def sum : MD4 → MD4 × Bytes := sumWith processChunk
def sumUnfixed : MD4 → MD4 × Bytes := sumUnfixedWith processChunk

/-- `hex.EncodeToString` -/
def hexEncode : Bytes → Bytes := Res.hexEncode

/-- `HexSum()`: `digest := md4.Sum(); hex.EncodeToString(digest[:])` -/
def hexSum (s : MD4) : MD4 × Bytes := ((sum s).1, hexEncode (sum s).2)

/-- a whole history on one `*MD4`: the values returned by the digest reads, in order -/
def run : MD4 → List Op → List Bytes
  | _, [] => []
  | s, .write p :: ops => run (write s p) ops
  | s, .sum :: ops => (sum s).2 :: run (sum s).1 ops
  | s, .hexSum :: ops => (hexSum s).2 :: run (hexSum s).1 ops

/-- package-level `md4.Sum(data)`: `h := New(); h.Write(data); return h.Sum()` -/
def md4Sum (data : Bytes) : Bytes := (sum (write new data)).2

/-! ## Go strings -/

def runeError : Nat := 0xFFFD

/-- `utf8.first[s0]` for a lead byte (as a number): (sequence length, accepted range of the second
    byte); `none` for ASCII and for bytes that cannot start a sequence -/
def leadInfo (n0 : Nat) : Option (Nat × Nat × Nat) :=
  if 0xC2 ≤ n0 ∧ n0 ≤ 0xDF then some (2, 0x80, 0xBF)
  else if n0 = 0xE0 then some (3, 0xA0, 0xBF)
  else if n0 = 0xED then some (3, 0x80, 0x9F)
  else if 0xE1 ≤ n0 ∧ n0 ≤ 0xEF then some (3, 0x80, 0xBF)
  else if n0 = 0xF0 then some (4, 0x90, 0xBF)
  else if n0 = 0xF4 then some (4, 0x80, 0x8F)
  else if 0xF1 ≤ n0 ∧ n0 ≤ 0xF3 then some (4, 0x80, 0xBF)
  else none

/-- continuation byte `locb ≤ b ≤ hicb` -/
def isCont (n : Nat) : Bool := 0x80 ≤ n && n ≤ 0xBF

/-- one step of `for _, r := range s` / `[]rune(s)`: the rune and how many bytes it consumed, following
    `utf8.DecodeRuneInString`.  An ill-formed sequence yields U+FFFD and consumes ONE byte.  The bit
    fields of a sequence do not overlap, so Go's `rune(s0&mask)<<6 | rune(s1&0x3F)` is written with
    `%`, `*` and `+`.  The `getD` reads are guarded by the length check `n < sz`, as in Go. -/
def decodeRune (s : Bytes) : Nat × Nat :=
  let b (i : Nat) : Nat := (s.getD i 0).toNat
  if s.length = 0 then (runeError, 0)
  else if b 0 < 0x80 then (b 0, 1)
  else match leadInfo (b 0) with
    | none => (runeError, 1)
    | some (sz, lo, hi) =>
      if s.length < sz then (runeError, 1)
      else if b 1 < lo ∨ hi < b 1 then (runeError, 1)
      else if sz ≤ 2 then ((b 0 % 32) * 64 + b 1 % 64, 2)
      else if !isCont (b 2) then (runeError, 1)
      else if sz ≤ 3 then ((b 0 % 16) * 4096 + (b 1 % 64) * 64 + b 2 % 64, 3)
      else if !isCont (b 3) then (runeError, 1)
      else ((b 0 % 8) * 262144 + (b 1 % 64) * 4096 + (b 2 % 64) * 64 + b 3 % 64, 4)

/-- `[]rune(s)`; `fuel` bounds the number of runes (≤ number of bytes) -/
def runesFuel : Nat → Bytes → List Nat
  | 0, _ => []
  | fuel + 1, s =>
    if s = [] then [] else (decodeRune s).1 :: runesFuel fuel (s.drop (decodeRune s).2)

def runes (s : Bytes) : List Nat := runesFuel s.length s

/-- `unicode/utf16.Encode`: surrogate pairs from U+10000, U+FFFD for surrogates and values above
    U+10FFFF (cannot come out of `[]rune(string)`, kept because the library function does it) -/
def utf16Units (rs : List Nat) : List UInt16 :=
  rs.flatMap fun r =>
    if r < 0xD800 ∨ (0xE000 ≤ r ∧ r < 0x10000) then [UInt16.ofNat r]
    else if 0x10000 ≤ r ∧ r ≤ 0x10FFFF then
      [UInt16.ofNat (0xD800 + (r - 0x10000) / 1024 % 1024), UInt16.ofNat (0xDC00 + (r - 0x10000) % 1024)]
    else [UInt16.ofNat runeError]

/-- `EncodeUTF16LE(s)`: `bytes[i*2] = byte(r); bytes[i*2+1] = byte(r >> 8)` for every code unit -/
def encodeUTF16LE (s : Bytes) : Bytes :=
  (utf16Units (runes s)).flatMap fun (r : UInt16) => [r.toUInt8, (r >>> 8).toUInt8]

def isASCII (s : Bytes) : Bool := s.all (· < 0x80)

def asciiUpperByte (c : UInt8) : UInt8 := if 0x61 ≤ c ∧ c ≤ 0x7A then c - 0x20 else c
def asciiLowerByte (c : UInt8) : UInt8 := if 0x41 ≤ c ∧ c ≤ 0x5A then c + 0x20 else c

/-- `strings.ToUpper`: byte-wise on ASCII-only strings (the stdlib fast path); otherwise
    `strings.Map(unicode.ToUpper, s)`, a parameter (Unicode tables are not modelled). -/
def goToUpper (unicodeUpper : Bytes → Bytes) (s : Bytes) : Bytes :=
  if isASCII s then s.map asciiUpperByte else unicodeUpper s

/-- `strings.ToLower`, same structure -/
def goToLower (unicodeLower : Bytes → Bytes) (s : Bytes) : Bytes :=
  if isASCII s then s.map asciiLowerByte else unicodeLower s

/-! ## NT, LM, DCC, DCC2 — model -/

/-- `NTHash(password)` -/
def ntHash (password : Bytes) : Bytes := (sum (write new (encodeUTF16LE password))).2

/-- `NTHashHex`: `strings.ToLower(hex.EncodeToString(h[:]))`; hex output is ASCII, so `ToLower` takes
    its byte-wise path -/
def ntHashHex (password : Bytes) : Bytes := (hexEncode (ntHash password)).map asciiLowerByte

/-- the 7 → 8 byte key spread written out in `LMHash` -/
def lmKey : Bytes → Bytes
  | [h0, h1, h2, h3, h4, h5, h6] =>
    [h0, (h0 <<< 7) ||| (h1 >>> 1), (h1 <<< 6) ||| (h2 >>> 2), (h2 <<< 5) ||| (h3 >>> 3),
     (h3 <<< 4) ||| (h4 >>> 4), (h4 <<< 3) ||| (h5 >>> 5), (h5 <<< 2) ||| (h6 >>> 6), h6 <<< 1]
  | _ => []   -- not reached: both halves of the 14-byte string have 7 bytes

def lmMagic : Bytes := [0x4B, 0x47, 0x53, 0x21, 0x40, 0x23, 0x24, 0x25]   -- "KGS!@#$%"

/-- the 14-byte string: `ToUpper`, cut at 14 BYTES, zero-padded to 14 -/
def lmPrepare (unicodeUpper : Bytes → Bytes) (password : Bytes) : Bytes :=
  let p := goToUpper unicodeUpper password
  let p := if p.length > 14 then p.take 14 else p
  if p.length < 14 then p ++ List.replicate (14 - p.length) 0 else p

/-- `LMHash(password)` -/
def lmHash (unicodeUpper : Bytes → Bytes) (password : Bytes) : Bytes :=
  let p := lmPrepare unicodeUpper password
  DES.encryptBytes (lmKey (p.take 7)) lmMagic ++ DES.encryptBytes (lmKey (p.drop 7)) lmMagic

def lmHashToHex (unicodeUpper : Bytes → Bytes) (password : Bytes) : Bytes :=
  (hexEncode (lmHash unicodeUpper password)).map asciiLowerByte

/-- `DCCHashFromNTHash(ntHash, username)` -/
def dccFromNT (unicodeLower : Bytes → Bytes) (nt username : Bytes) : Bytes :=
  (sum (write new (nt ++ encodeUTF16LE (goToLower unicodeLower username)))).2

def dccFromPassword (unicodeLower : Bytes → Bytes) (password username : Bytes) : Bytes :=
  dccFromNT unicodeLower (ntHash password) username

def dccFromNTToHex (unicodeLower : Bytes → Bytes) (nt username : Bytes) : Bytes :=
  (hexEncode (dccFromNT unicodeLower nt username)).map asciiLowerByte

def dccFromPasswordToHex (unicodeLower : Bytes → Bytes) (password username : Bytes) : Bytes :=
  (hexEncode (dccFromPassword unicodeLower password username)).map asciiLowerByte

/-- `fmt.Sprintf("%s:%s", hexHash, strings.ToLower(username))` -/
def dccFromNTToHashcat (unicodeLower : Bytes → Bytes) (nt username : Bytes) : Bytes :=
  dccFromNTToHex unicodeLower nt username ++ [0x3A] ++ goToLower unicodeLower username

def dccFromPasswordToHashcat (unicodeLower : Bytes → Bytes) (password username : Bytes) : Bytes :=
  dccFromPasswordToHex unicodeLower password username ++ [0x3A] ++ goToLower unicodeLower username

/-- `%d` of a Go `int` -/
def decInt (i : Int) : Bytes := asciiBytes (toString i)

def pbkdf2Name : String := "pbkdf2-hmac-sha1"

/-- the 16 key bytes inside `DCC2HashWithNTHash`: `pbkdf2.Key(dcc1[:], usernameBytes, rounds, 16, sha1.New)` -/
def dcc2KeyFromNT (unicodeLower : Bytes → Bytes) (username nt : Bytes) (rounds : Int) : Res :=
  let usernameBytes := encodeUTF16LE (goToLower unicodeLower username)
  let dcc1 := (sum (write new (nt ++ usernameBytes))).2
  .prim pbkdf2Name [.lit dcc1, .lit usernameBytes, .int rounds, .int 16]

/-- `DCC2HashWithNTHash`: `fmt.Sprintf("$DCC2$%d#%s#%s", rounds, username, hex.EncodeToString(key))`
    — note `username` as given, not lower-cased -/
def dcc2WithNT (unicodeLower : Bytes → Bytes) (username nt : Bytes) (rounds : Int) : Res :=
  .cat (.lit (asciiBytes "$DCC2$" ++ decInt rounds ++ [0x23] ++ username ++ [0x23]))
       (.hex (dcc2KeyFromNT unicodeLower username nt rounds))

/-- `DCC2Hash` = `DCC2HashWithPassword` -/
def dcc2WithPassword (unicodeLower : Bytes → Bytes) (username password : Bytes) (rounds : Int) : Res :=
  dcc2WithNT unicodeLower username (ntHash password) rounds

/-! ## Specification -/
namespace Spec

/-! ### RFC 1320 -/

/-- §3.4 auxiliary functions -/
def F (x y z : UInt32) : UInt32 := (x &&& y) ||| (~~~x &&& z)
def G (x y z : UInt32) : UInt32 := (x &&& y) ||| (x &&& z) ||| (y &&& z)
def H (x y z : UInt32) : UInt32 := x ^^^ y ^^^ z

/-- `X <<< s`: circular left rotation of a 32-bit word -/
def rotl (x : UInt32) (s : Nat) : UInt32 := ⟨x.toBitVec.rotateLeft s⟩

/-- `[abcd k s]` of round 1: `a = (a + F(b,c,d) + X[k]) <<< s` -/
def op1 (x : Nat → UInt32) (a b c d : UInt32) (k s : Nat) : UInt32 := rotl (a + F b c d + x k) s
/-- round 2: `a = (a + G(b,c,d) + X[k] + 5A827999) <<< s` -/
def op2 (x : Nat → UInt32) (a b c d : UInt32) (k s : Nat) : UInt32 := rotl (a + G b c d + x k + 0x5A827999) s
/-- round 3: `a = (a + H(b,c,d) + X[k] + 6ED9EBA1) <<< s` -/
def op3 (x : Nat → UInt32) (a b c d : UInt32) (k s : Nat) : UInt32 := rotl (a + H b c d + x k + 0x6ED9EBA1) s

/-- the (k, s) of the 16 operations of each round, in the order the RFC lists them
    ([ABCD k s] [DABC k s] [CDAB k s] [BCDA k s], four times) -/
def round1 : List (Nat × Nat) :=
  [(0,3),(1,7),(2,11),(3,19),(4,3),(5,7),(6,11),(7,19),(8,3),(9,7),(10,11),(11,19),(12,3),(13,7),(14,11),(15,19)]
def round2 : List (Nat × Nat) :=
  [(0,3),(4,5),(8,9),(12,13),(1,3),(5,5),(9,9),(13,13),(2,3),(6,5),(10,9),(14,13),(3,3),(7,5),(11,9),(15,13)]
def round3 : List (Nat × Nat) :=
  [(0,3),(8,9),(4,11),(12,15),(2,3),(10,9),(6,11),(14,15),(1,3),(9,9),(5,11),(13,15),(3,3),(11,9),(7,11),(15,15)]

/-- one operation on the register tuple held in the order (a, b, c, d) *of that operation*:
    the new `a` takes the `b` seat of the next operation: (A,B,C,D) → (D,A',B,C) -/
def stepWith (op : UInt32 → UInt32 → UInt32 → UInt32 → Nat → Nat → UInt32) (t : Words4) (ks : Nat × Nat) : Words4 :=
  (t.2.2.2, op t.1 t.2.1 t.2.2.1 t.2.2.2 ks.1 ks.2, t.2.1, t.2.2.1)

/-- §3.4: process one 16-word block `x` -/
def compress (st : Words4) (x : Nat → UInt32) : Words4 :=
  let t := round1.foldl (stepWith (op1 x)) st
  let t := round2.foldl (stepWith (op2 x)) t
  let t := round3.foldl (stepWith (op3 x)) t
  (st.1 + t.1, st.2.1 + t.2.1, st.2.2.1 + t.2.2.1, st.2.2.2 + t.2.2.2)

/-- §3.3 -/
def init : Words4 := (0x67452301, 0xefcdab89, 0x98badcfe, 0x10325476)

/-- a byte string as 32-bit words, low-order byte first (§2) -/
def toWords : Bytes → List UInt32
  | b0 :: b1 :: b2 :: b3 :: rest => le32 b0 b1 b2 b3 :: toWords rest
  | _ => []

def compressBlock (st : Words4) (block : Bytes) : Words4 :=
  compress st (fun k => (toWords block).getD k 0)

/-- successive 64-byte blocks -/
def blocks (m : Bytes) : List Bytes :=
  if _h : 64 ≤ m.length then m.take 64 :: blocks (m.drop 64) else []
termination_by m.length
decreasing_by simp [List.length_drop]; omega

/-- §3.1 + §3.2: a `1` bit, then `0` bits up to 448 mod 512 (`(119 - len mod 64) mod 64` zero bytes after
    the 0x80 byte: at least 1 and at most 64 padding bytes), then the bit length as 64 bits, low-order
    byte first — "only the low-order 64 bits" of it if it exceeds 2^64. -/
def pad (len : Nat) : Bytes :=
  0x80 :: List.replicate ((119 - len % 64) % 64) 0 ++ natLe 8 (8 * len % 2 ^ 64)

/-- §3.5: A, B, C, D, each low-order byte first -/
def output (st : Words4) : Bytes := putLe32 st.1 ++ putLe32 st.2.1 ++ putLe32 st.2.2.1 ++ putLe32 st.2.2.2

def md4 (m : Bytes) : Bytes := output ((blocks (m ++ pad m.length)).foldl compressBlock init)

/-! ### Unicode -/

/-- Unicode scalar value -/
def IsScalar (c : Nat) : Prop := c < 0xD800 ∨ (0xE000 ≤ c ∧ c < 0x110000)
instance : DecidablePred IsScalar := fun c => by unfold IsScalar; exact inferInstance

/-- RFC 3629 §3 -/
def utf8Of (c : Nat) : Bytes :=
  if c < 0x80 then [UInt8.ofNat c]
  else if c < 0x800 then [UInt8.ofNat (0xC0 + c / 64), UInt8.ofNat (0x80 + c % 64)]
  else if c < 0x10000 then [UInt8.ofNat (0xE0 + c / 4096), UInt8.ofNat (0x80 + c / 64 % 64), UInt8.ofNat (0x80 + c % 64)]
  else [UInt8.ofNat (0xF0 + c / 262144), UInt8.ofNat (0x80 + c / 4096 % 64), UInt8.ofNat (0x80 + c / 64 % 64),
        UInt8.ofNat (0x80 + c % 64)]

def utf8 (cs : List Nat) : Bytes := cs.flatMap utf8Of

/-- RFC 2781 §2.1: code units of one scalar value -/
def utf16Of (c : Nat) : List Nat :=
  if c < 0x10000 then [c] else [0xD800 + (c - 0x10000) / 1024, 0xDC00 + (c - 0x10000) % 1024]

/-- UTF-16LE: every 16-bit unit low-order byte first -/
def utf16le (cs : List Nat) : Bytes :=
  (cs.flatMap utf16Of).flatMap fun w => [UInt8.ofNat (w % 256), UInt8.ofNat (w / 256)]

/-- little-endian bytes → 16-bit units (a trailing odd byte is dropped) -/
def unitsOfLE : Bytes → List Nat
  | b0 :: b1 :: rest => (b0.toNat + 256 * b1.toNat) :: unitsOfLE rest
  | _ => []

/-- RFC 2781 §2.2: decoding; an unpaired surrogate is kept as is (not needed for the round trip) -/
def decodeUnits : List Nat → List Nat
  | [] => []
  | [w] => [w]
  | w1 :: w2 :: rest =>
    if 0xD800 ≤ w1 ∧ w1 < 0xDC00 ∧ 0xDC00 ≤ w2 ∧ w2 < 0xE000 then
      (0x10000 + (w1 - 0xD800) * 1024 + (w2 - 0xDC00)) :: decodeUnits rest
    else w1 :: decodeUnits (w2 :: rest)

def utf16leDecode (b : Bytes) : List Nat := decodeUnits (unitsOfLE b)

/-! ### MS-NLMP 3.3.1 -/

/-- `NTOWFv1(Passwd) = MD4(UNICODE(Passwd))` -/
def ntowfv1 (password : List Nat) : Bytes := md4 (utf16le password)

def upperASCII (c : UInt8) : UInt8 := if 'a'.toNat ≤ c.toNat ∧ c.toNat ≤ 'z'.toNat then UInt8.ofNat (c.toNat - 32) else c
def lowerASCIIcp (c : Nat) : Nat := if 'A'.toNat ≤ c ∧ c ≤ 'Z'.toNat then c + 32 else c

/-- the textbook `str_to_key` (Samba `E_P16`/`str_to_key`): 56 key bits spread over 8 bytes, seven per
    byte in the high bits, parity bit (bit 0) left zero -/
def strToKey : Bytes → Bytes
  | [s0, s1, s2, s3, s4, s5, s6] =>
    [s0 >>> 1,
     ((s0 &&& 0x01) <<< 6) ||| (s1 >>> 2),
     ((s1 &&& 0x03) <<< 5) ||| (s2 >>> 3),
     ((s2 &&& 0x07) <<< 4) ||| (s3 >>> 4),
     ((s3 &&& 0x0F) <<< 3) ||| (s4 >>> 5),
     ((s4 &&& 0x1F) <<< 2) ||| (s5 >>> 6),
     ((s5 &&& 0x3F) <<< 1) ||| (s6 >>> 7),
     s6 &&& 0x7F].map (fun (k : UInt8) => k <<< 1)
  | _ => []

/-- `LMOWFv1(Passwd) = DES(UpperCase(Passwd)[0..6], "KGS!@#$%") ‖ DES(UpperCase(Passwd)[7..13], "KGS!@#$%")`
    for a 7-bit ASCII password (OEM code page = ASCII), zero-padded / cut to 14 characters -/
def lmowfv1 (password : Bytes) : Bytes :=
  let p := (password.map upperASCII ++ List.replicate 14 0).take 14
  let magic := asciiBytes "KGS!@#$%"
  DES.encryptBytes (strToKey (p.take 7)) magic ++ DES.encryptBytes (strToKey (p.drop 7)) magic

/-! ### MS-Cache -/

/-- MS-Cache v1 ("DCC"): `MD4(NTOWFv1(password) ‖ UTF16LE(lower(username)))`; `lower` is the case mapping
    of the platform, a parameter -/
def dcc1 (lower : List Nat → List Nat) (password username : List Nat) : Bytes :=
  md4 (ntowfv1 password ++ utf16le (lower username))

def dcc1FromNT (lower : List Nat → List Nat) (nt : Bytes) (username : List Nat) : Bytes :=
  md4 (nt ++ utf16le (lower username))

/-- MS-Cache v2 ("DCC2"): `PBKDF2-HMAC-SHA1(key = DCC1, salt = UTF16LE(lower(username)), c = rounds, dkLen = 16)`
    for an arbitrary key-derivation function `kdf key salt rounds dkLen` -/
def dcc2 (kdf : Bytes → Bytes → Nat → Nat → Bytes) (lower : List Nat → List Nat)
    (password username : List Nat) (rounds : Nat) : Bytes :=
  kdf (dcc1 lower password username) (utf16le (lower username)) rounds 16

def dcc2FromNT (kdf : Bytes → Bytes → Nat → Nat → Bytes) (lower : List Nat → List Nat)
    (nt : Bytes) (username : List Nat) (rounds : Nat) : Bytes :=
  kdf (dcc1FromNT lower nt username) (utf16le (lower username)) rounds 16

/-- the sixteen digits "0123456789abcdef" -/
def hexDigits : Bytes := [0x30, 0x31, 0x32, 0x33, 0x34, 0x35, 0x36, 0x37, 0x38, 0x39, 0x61, 0x62, 0x63, 0x64, 0x65, 0x66]

/-- lower-case hexadecimal, two digits per byte -/
def hexString (b : Bytes) : Bytes :=
  b.flatMap fun x => [hexDigits.getD (x.toNat / 16) 0, hexDigits.getD (x.toNat % 16) 0]

/-- what a whole history of calls on one running hash must return: every digest read returns the MD4
    of everything written so far (`Sum` the 16 bytes, `HexSum` their hexadecimal form) -/
def history : Bytes → List Op → List Bytes
  | _, [] => []
  | m, .write p :: ops => history (m ++ p) ops
  | m, .sum :: ops => md4 m :: history m ops
  | m, .hexSum :: ops => hexString (md4 m) :: history m ops

/-- hashcat mode 1100 line `hash:salt` with the lower-cased user name as salt -/
def dccLine (hash : Bytes) (lowerUser : List Nat) : Bytes := hexString hash ++ asciiBytes ":" ++ utf8 lowerUser

/-- hashcat mode 2100 line `$DCC2$<iterations>#<user>#<hash>`.  The property fixes the hash value; which
    spelling of the user name appears in the line is not part of it (hashcat and John lower-case the
    salt themselves), so it is an argument. -/
def dcc2Line (rounds : Nat) (userField : Bytes) (hash : Bytes) : Bytes :=
  asciiBytes "$DCC2$" ++ asciiBytes (toString rounds) ++ asciiBytes "#" ++ userField ++ asciiBytes "#" ++ hexString hash

end Spec

/-! ### build-time sanity of the SPEC (RFC 1320 A.5 test suite, MS-NLMP 4.2.2.1 values).  Nothing here may depend
     on `Gen/`: the model must keep building when the regenerated kernel changes, so that the search can run. -/

#guard Spec.md4 [] == (fromHex "31d6cfe0d16ae931b73c59d7e0c089c0").getD []
#guard Spec.md4 (asciiBytes "message digest") == (fromHex "d9130a8164549fe818874806e1c7014b").getD []
#guard Spec.md4 (asciiBytes "abc") == (fromHex "a448017aaf21d8525fc10ae87aa6729d").getD []
#guard Spec.md4 (asciiBytes "12345678901234567890123456789012345678901234567890123456789012345678901234567890")
  == (fromHex "e33b4ddc9c38f2199c3e7b164fcc0536").getD []
#guard Spec.ntowfv1 ("Password".toList.map Char.toNat) == (fromHex "a4f49c406510bdcab6824ee7c30fd852").getD []
#guard Spec.lmowfv1 (asciiBytes "Password") == (fromHex "e52cac67419a9a224a3b108f3fa6cb6d").getD []
#guard runes [0xF0, 0x9F, 0x98, 0x80, 0x80, 0xC3, 0xA9, 0xED, 0xA0, 0x80] == [0x1F600, 0xFFFD, 0xE9, 0xFFFD, 0xFFFD, 0xFFFD]

end Manticore.C01
