/-
  C12 — RC4, CMAC, PKCS#7 and GPP-AES.

  Models (what the Go code does, following its control flow):
    `RC4`    crypto/rc4/rc4.go      NewRC4WithKey (KSA), XORKeyStream (PRGA + length/overlap guards), Reset
    `CMAC`   crypto/cmac/cmac.go    New (subkeys via shift1 / Rb), Write, Sum, Reset — for an ARBITRARY block
                                    function `E : Block n → Block n` (AES/DES are never re-implemented)
    `PKCS7`  crypto/pkcs7/pkcs7.go  Pad, constant-time Unpad
    `GPP`    crypto/gppp/gppp.go    GPPPEncrypt, GPPPDecryptBytes, GPPPDecryptBase64 — for arbitrary block
                                    functions `E`, `D` (the AES-256 instance is supplied at run time as a table
                                    of true (input, output) pairs computed by Go's crypto/aes)
  Specifications (what the standards say, written independently):
    `RC4.Spec`   textbook KSA / PRGA on naturals mod 256, one-shot
    `CMAC.Spec`  SP 800-38B §6.1 (subkeys as big-endian numbers, doubling in GF(2^b)) and §6.2 (MAC generation)
    `PKCS7.Spec` RFC 5652 §6.3
    `GPP.Spec`   MS-GPPREF 2.2.1.1.4: AES-256-CBC, zero IV, published key, over the UTF-16LE password
  Stdlib primitives used by the repo code and needed for execution (`Prim`): base64 (StdEncoding), UTF-8 ⇄ runes,
  UTF-16 ⇄ runes, CBC mode.  They are models of the Go standard library, validated against it on every run.
  Core Lean only.
-/
import Manticore.Basic
namespace Manticore.C12
open Manticore

/-! # RC4 -/
namespace RC4

abbrev SBox := Vector UInt8 256

/-- `c.s[x]` for a `uint8` index: always in range -/
def sAt (s : SBox) (x : UInt8) : UInt8 := s[x.toNat]'(by have := x.toNat_lt; omega)

/-- Go: `c.s[i], c.s[j] = c.s[j], c.s[i]` (both right-hand sides are read first) -/
def swap (s : SBox) (i j : UInt8) : SBox :=
  let si := sAt s i
  let sj := sAt s j
  (s.set i.toNat sj (by have := i.toNat_lt; omega)).set j.toNat si (by have := j.toNat_lt; omega)

/-- `for i := 0; i < 256; i++ { c.s[i] = uint8(i) }` -/
def identity : SBox := Vector.ofFn (fun k : Fin 256 => UInt8.ofNat k.val)

structure State where
  s : SBox
  i : UInt8
  j : UInt8

/-- body of the key-scheduling loop for the `int` index `i` (0..255):
    `j += c.s[i] + key[i%k]; c.s[i], c.s[j] = c.s[j], c.s[i]` -/
def ksaStep (key : Bytes) (hk : 0 < key.length) (st : SBox × UInt8) (i : Fin 256) : SBox × UInt8 :=
  let j := st.2 + (st.1[i.val]'i.isLt + key[i.val % key.length]'(Nat.mod_lt _ hk))
  (swap st.1 (UInt8.ofNat i.val) j, j)

def ksa (key : Bytes) (hk : 0 < key.length) : SBox :=
  ((List.finRange 256).foldl (ksaStep key hk) (identity, 0)).1

/-- `NewRC4WithKey` -/
def newWithKey (key : Bytes) : Outcome State :=
  if h : key.length < 1 ∨ key.length > 256 then .err
  else .ok ⟨ksa key (by omega), 0, 0⟩

/-- `NewRC4()` is `NewRC4WithKey([]byte{})` -/
def new : Outcome State := newWithKey []

/-- `Reset`: identity permutation, indices zero (an un-keyed state — noted in DESIGN §4 C12) -/
def reset (_ : State) : State := ⟨identity, 0, 0⟩

/-- one iteration of the PRGA loop on the source byte `v` -/
def step (st : State) (v : UInt8) : State × UInt8 :=
  let i := st.i + 1
  let j := st.j + sAt st.s i
  let s := swap st.s i j
  let t := UInt8.ofNat ((sAt s i).toNat + (sAt s j).toNat)   -- uint8(int(c.s[i]) + int(c.s[j]))
  (⟨s, i, j⟩, v ^^^ sAt s t)

/-- the PRGA loop of `XORKeyStream` over `src`; the produced bytes are `dst[:len(src)]` -/
def xorKeyStream : State → Bytes → State × Bytes
  | st, [] => (st, [])
  | st, v :: rest =>
    let r := step st v
    let r' := xorKeyStream r.1 rest
    (r'.1, r.2 :: r'.2)

/-- One Go call `c.XORKeyStream(dst, src)`: `dstLen = len(dst)`; `rel = some d` when `dst` and `src` are slices
    of the same array with `&dst[0] = &src[0] + d`, `none` when they belong to different allocations. -/
structure Call where
  src : Bytes
  dstLen : Nat
  rel : Option Int

/-- the aliasing predicate of the guard: `&dst[0] != &src[0]` and `d0 <= sN && s0 <= dN` -/
def overlaps (srcLen dstLen : Nat) (rel : Option Int) : Bool :=
  match rel with
  | none => false
  | some d => decide (d ≠ 0) && decide (d ≤ (srcLen : Int) - 1) && decide (0 ≤ d + (dstLen : Int) - 1)

def xorKeyStreamGo (st : State) (c : Call) : Outcome (State × Bytes) :=
  if c.dstLen < c.src.length then .panic
  else if c.src.length > 0 && overlaps c.src.length c.dstLen c.rel then .panic
  else .ok (xorKeyStream st c.src)

inductive Op where
  | xor (c : Call)
  | reset

/-- one call on the cipher object: new state and what the call returned (nothing for `Reset`); a panicking
    call leaves the object unchanged (both guards run before the first state update) -/
def stepOp (st : State) : Op → State × List (Outcome Bytes)
  | .reset => (reset st, [])
  | .xor c =>
    match xorKeyStreamGo st c with
    | .ok r => (r.1, [.ok r.2])
    | .err => (st, [.err])
    | .panic => (st, [.panic])

/-- a whole history of calls on one cipher object -/
def run : State → List Op → List (Outcome Bytes)
  | _, [] => []
  | st, op :: ops => (stepOp st op).2 ++ run (stepOp st op).1 ops

/-! ## RC4 as in the textbook (Schneier, Applied Cryptography §17.1; RFC 6229 §1): all arithmetic is on
    naturals with an explicit `mod 256`; the keystream is generated first, then xor-ed onto the data. -/
namespace Spec

abbrev Perm := Vector Nat 256

/-- `S[i]`, the index taken mod 256 -/
def get (S : Perm) (i : Nat) : Nat := S[i % 256]'(Nat.mod_lt _ (by decide))

/-- exchange `S[i]` and `S[j]` -/
def swap (S : Perm) (i j : Nat) : Perm :=
  (S.set (i % 256) (get S j) (Nat.mod_lt _ (by decide))).set (j % 256) (get S i) (Nat.mod_lt _ (by decide))

/-- `for i from 0 to 255: j := (j + S[i] + key[i mod keylength]) mod 256; swap S[i], S[j]` -/
def ksaLoop (key : Bytes) (hk : 0 < key.length) : (todo i : Nat) → Perm × Nat → Perm × Nat
  | 0, _, st => st
  | n+1, i, (S, j) =>
    let j' := (j + get S i + (key[i % key.length]'(Nat.mod_lt _ hk)).toNat) % 256
    ksaLoop key hk n (i+1) (swap S i j', j')

def ksa (key : Bytes) (hk : 0 < key.length) : Perm :=
  (ksaLoop key hk 256 0 (Vector.ofFn (fun k : Fin 256 => k.val), 0)).1

/-- `n` keystream bytes: `i := (i+1) mod 256; j := (j + S[i]) mod 256; swap; K := S[(S[i]+S[j]) mod 256]` -/
def prga : (n : Nat) → Perm → (i j : Nat) → List Nat
  | 0, _, _, _ => []
  | n+1, S, i, j =>
    let i' := (i + 1) % 256
    let j' := (j + get S i') % 256
    let S' := swap S i' j'
    get S' ((get S' i' + get S' j') % 256) :: prga n S' i' j'

def keystream (key : Bytes) (hk : 0 < key.length) (n : Nat) : List Nat := prga n (ksa key hk) 0 0

/-- RC4 encryption = decryption: data xor keystream.  Defined for keys of 1..256 bytes. -/
def rc4 (key : Bytes) (hk : 0 < key.length) (data : Bytes) : Bytes :=
  List.zipWith (fun d k => d ^^^ UInt8.ofNat k) data (keystream key hk data.length)

/-- The documented contract of `XORKeyStream`: "Src and dst may be the same slice but otherwise should not
    overlap" and dst must not be shorter than src.  Written on the address ranges
    src = [0, srcLen), dst = [d, d + dstLen). -/
def legalCall (srcLen dstLen : Nat) (rel : Option Int) : Bool :=
  decide (srcLen ≤ dstLen) &&
    (srcLen == 0 ||
      match rel with
      | none => true
      | some d => d == 0 || decide ((srcLen : Int) ≤ d) || decide (d + (dstLen : Int) ≤ 0))

/-- cut `out` into pieces of the given lengths -/
def splitLens : List Nat → Bytes → List Bytes
  | [], _ => []
  | n :: ns, out => out.take n :: splitLens ns (out.drop n)

end Spec
end RC4

/-! # CMAC -/
namespace CMAC

abbrev Block (n : Nat) := Vector UInt8 n

def vxor {n : Nat} (a b : Block n) : Block n := Vector.zipWith (· ^^^ ·) a b
def zero {n : Nat} : Block n := Vector.replicate n 0

/-- `shift1(src, dst)`: the loop runs from the last index down to 0, `b` carries the top bit of the byte to
    the right; the result is the carry out of `src[0]`.  (In-place use is fine: `src[i]` is read before
    `dst[i]` is written.) -/
def shift1 : Bytes → Bytes × UInt8
  | [] => ([], 0)
  | x :: xs =>
    let r := shift1 xs
    ((x <<< 1 ||| r.2) :: r.1, x >>> 7)

theorem shift1_length : ∀ l : Bytes, (shift1 l).1.length = l.length
  | [] => rfl
  | _ :: xs => by simp [shift1, shift1_length xs]

def shift1V {n : Nat} (v : Block n) : Block n × UInt8 :=
  (⟨(shift1 v.toList).1.toArray, by simp [shift1_length]⟩, (shift1 v.toList).2)

/-- `k[n-1] ^= r` -/
def xorLast {n : Nat} (v : Block n) (r : UInt8) : Block n :=
  if h : 0 < n then v.set (n - 1) (v[n - 1] ^^^ r) else v

structure State (n : Nat) where
  k1 : Block n
  k2 : Block n
  ci : Block n
  digest : Block n
  p : Nat

/-- `New(c)`, `n = c.BlockSize()`, `E = c.Encrypt`: only 64- and 128-bit blocks are accepted -/
def new (n : Nat) (E : Block n → Block n) : Outcome (State n) :=
  if n = 8 ∨ n = 16 then
    let r : UInt8 := if n = 8 then 0x1b else 0x87
    let l := E zero                                   -- c.Encrypt(d.k1, d.k1) on the zero block
    let s1 := shift1V l
    let k1 := if s1.2 != 0 then xorLast s1.1 r else s1.1
    let s2 := shift1V k1
    let k2 := if s2.2 != 0 then xorLast s2.1 r else s2.1
    .ok ⟨k1, k2, zero, zero, 0⟩
  else .panic

def reset {n : Nat} (s : State n) : State n := { s with ci := zero, p := 0 }

/-- body of the `Write` loop: encrypt lazily when the block is full and another byte arrives -/
def writeByte {n : Nat} (E : Block n → Block n) (s : State n) (c : UInt8) : Outcome (State n) :=
  let s' : State n := if n ≤ s.p then { s with ci := E s.ci, p := 0 } else s
  if h : s'.p < n then .ok { s' with ci := s'.ci.set s'.p (s'.ci[s'.p] ^^^ c), p := s'.p + 1 }
  else .panic                                         -- `d.ci[d.p]` out of range (only for n = 0)

def write {n : Nat} (E : Block n → Block n) : State n → Bytes → Outcome (State n)
  | s, [] => .ok s
  | s, c :: cs =>
    match writeByte E s c with
    | .ok s' => write E s' cs
    | .err => .err
    | .panic => .panic

/-- `Sum(in)`: writes only `d.digest`; returns `append(in, d.digest...)` -/
def sum {n : Nat} (E : Block n → Block n) (s : State n) (pfx : Bytes) : State n × Bytes :=
  let k := if s.p < n then s.k2 else s.k1
  let d := vxor s.ci k
  let d := if h : s.p < n then d.set s.p (d[s.p] ^^^ 0x80) else d
  let d := E d
  ({ s with digest := d }, pfx ++ d.toList)

inductive Op where
  | write (b : Bytes)
  | sum (pfx : Bytes)
  | reset

/-- a history of calls on one `hash.Hash`; the list of values returned by the `Sum` calls -/
def run {n : Nat} (E : Block n → Block n) : State n → List Op → Outcome (List Bytes)
  | _, [] => .ok []
  | s, .write b :: ops =>
    match write E s b with
    | .ok s' => run E s' ops
    | .err => .err
    | .panic => .panic
  | s, .sum pfx :: ops =>
    match run E (sum E s pfx).1 ops with
    | .ok outs => .ok ((sum E s pfx).2 :: outs)
    | .err => .err
    | .panic => .panic
  | s, .reset :: ops => run E (reset s) ops

/-- `cmac.New(c)` followed by a history -/
def newAndRun (n : Nat) (E : Block n → Block n) (ops : List Op) : Outcome (List Bytes) :=
  match new n E with
  | .ok s => run E s ops
  | .err => .err
  | .panic => .panic

/-! ## SP 800-38B (= RFC 4493 for AES-128) -/
namespace Spec

/-- zero-padded block from a (short) byte string -/
def padTo {n : Nat} (t : Bytes) : Block n := Vector.ofFn fun i => t.getD i.val 0

/-- §5.3: R_128 = 0^120 10000111, R_64 = 0^59 11011 -/
def Rb (n : Nat) : Nat := if n = 8 then 0x1B else 0x87

/-- §6.1 steps 2–3 on the block read as a big-endian number of b = 8n bits:
    if MSB(L) = 0 then L << 1 else (L << 1) ⊕ R_b -/
def dbl (n : Nat) (L : Nat) : Nat :=
  if L < 2 ^ (8 * n - 1) then 2 * L else (2 * L % 2 ^ (8 * n)) ^^^ Rb n

theorem natLe_length : ∀ (n x : Nat), (natLe n x).length = n
  | 0, _ => rfl
  | n+1, x => by simp [natLe, natLe_length n]

/-- the `n` big-endian bytes of a number (mod 2^(8n)), as a block -/
def ofNatBE (n : Nat) (x : Nat) : Block n := ⟨(natBe n x).toArray, by simp [natBe, natLe_length]⟩

def subkeys {n : Nat} (E : Block n → Block n) : Block n × Block n :=
  let L := beNat (E zero).toList
  let K1 := dbl n L
  let K2 := dbl n K1
  (ofNatBE n K1, ofNatBE n K2)

/-- §6.2 step 6 for all blocks but the last: C_i = CIPH_K(C_{i-1} ⊕ M_i); returns the chaining value and the
    last block M_n* (complete or not; empty only for the empty message) -/
def chain {n : Nat} (E : Block n → Block n) (X : Block n) (m : Bytes) (hn : 0 < n) : Block n × Bytes :=
  if _h : m.length ≤ n then (X, m) else chain E (E (vxor X (padTo (m.take n)))) (m.drop n) hn
termination_by m.length
decreasing_by simp [List.length_drop]; omega

/-- §6.2 step 4: complete last block ⊕ K1, otherwise (M_n* ‖ 10…0) ⊕ K2 -/
def final {n : Nat} (E : Block n → Block n) (k1 k2 : Block n) (X : Block n) (t : Bytes) : Block n :=
  if t.length = n then E (vxor (vxor X (padTo t)) k1)
  else E (vxor (vxor X (padTo (t ++ [0x80]))) k2)

def cmacWith {n : Nat} (E : Block n → Block n) (k1 k2 : Block n) (m : Bytes) (hn : 0 < n) : Block n :=
  let r := chain E zero m hn
  final E k1 k2 r.1 r.2

/-- CMAC(K, M) with full-length tag, `E = CIPH_K` -/
def cmac {n : Nat} (E : Block n → Block n) (m : Bytes) (hn : 0 < n) : Block n :=
  cmacWith E (subkeys E).1 (subkeys E).2 m hn

/-- what a history of Write / Sum / Reset calls must return: every `Sum(in)` yields `in ‖ CMAC(all bytes written
    since the last Reset)`, whatever happened before -/
def history {n : Nat} (E : Block n → Block n) (hn : 0 < n) : List Op → (written : Bytes) → List Bytes
  | [], _ => []
  | .write b :: ops, w => history E hn ops (w ++ b)
  | .sum pfx :: ops, w => (pfx ++ (cmac E w hn).toList) :: history E hn ops w
  | .reset :: ops, _ => history E hn ops []

end Spec
end CMAC

/-! # PKCS#7 -/
namespace PKCS7

/-- `Pad(buffer, blockSize uint8)`: `blockSize ≤ 255` by its type; appends `padLen` copies of `byte(padLen)` -/
def pad (buffer : Bytes) (blockSize : UInt8) : Outcome Bytes :=
  if blockSize < 1 then .err
  else
    let padLen := blockSize.toNat - buffer.length % blockSize.toNat
    .ok (buffer ++ List.replicate padLen (UInt8.ofNat padLen))

/-- the constant-time loop `for i := 0; i < blockSize; i++`: `good &= Select(LessOrEq(padLen, i), 1, ByteEq(padLen, b))`
    with `b := buffer[len(buffer)-1-i]`; the 0/1 integers of crypto/subtle are Booleans here -/
def unpadLoop (buffer : Bytes) (padLen : UInt8) : (todo i : Nat) → Bool → Outcome Bool
  | 0, _, good => .ok good
  | n+1, i, good =>
    if buffer.length < 1 + i then .panic               -- negative index
    else
      match index buffer (buffer.length - 1 - i) with
      | .ok b =>
        let outOfRange := decide (padLen.toNat ≤ i)
        let equal := padLen == b
        unpadLoop buffer padLen n (i+1) (good && (if outOfRange then true else equal))
      | .err => .err
      | .panic => .panic

/-- `Unpad` -/
def unpad (buffer : Bytes) : Outcome Bytes :=
  if buffer.length = 0 then .err
  else
    match index buffer (buffer.length - 1) with
    | .ok padLen =>
      let blockSize := if 255 > buffer.length then buffer.length else 255
      match unpadLoop buffer padLen blockSize 0 true with
      | .ok good =>
        let good := good && decide (1 ≤ padLen.toNat) && decide (padLen.toNat ≤ buffer.length)
        if good != true then .err
        else if buffer.length < padLen.toNat then .panic   -- negative slice bound
        else slice buffer 0 (buffer.length - padLen.toNat)
      | .err => .err
      | .panic => .panic
    | .err => .err
    | .panic => .panic

/-! ## RFC 5652 §6.3 -/
namespace Spec

/-- "pad at the trailing end with k − (lth mod k) octets all having value k − (lth mod k)" -/
def pad (m : Bytes) (k : Nat) : Bytes :=
  let p := k - m.length % k
  m ++ List.replicate p (UInt8.ofNat p)

/-- `buf` is `m` followed by a valid padding string: p octets of value p, 1 ≤ p ≤ 255 -/
def Valid (buf m : Bytes) : Prop :=
  ∃ p, 1 ≤ p ∧ p ≤ 255 ∧ buf = m ++ List.replicate p (UInt8.ofNat p)

/-- executable form: the last octet says how many octets to remove, and all of them must carry that value -/
def unpad (buf : Bytes) : Option Bytes :=
  match buf.getLast? with
  | none => none
  | some l =>
    let p := l.toNat
    if 1 ≤ p ∧ p ≤ buf.length ∧ (buf.drop (buf.length - p)).all (· == l) then some (buf.take (buf.length - p))
    else none

end Spec
end PKCS7

/-! # Standard-library primitives (models of Go's encoding/base64, `[]rune(s)` / `string(runes)`,
    unicode/utf16, crypto/cipher CBC) — trusted semantics, cross-checked against Go on every run -/
namespace Prim

/-! ## base64.StdEncoding -/

def b64Char (v : Nat) : UInt8 :=
  if v < 26 then UInt8.ofNat (65 + v)
  else if v < 52 then UInt8.ofNat (71 + v)
  else if v < 62 then UInt8.ofNat (v - 4)
  else if v = 62 then 43 else 47

def b64Val (c : UInt8) : Option Nat :=
  let x := c.toNat
  if 65 ≤ x ∧ x ≤ 90 then some (x - 65)
  else if 97 ≤ x ∧ x ≤ 122 then some (x - 71)
  else if 48 ≤ x ∧ x ≤ 57 then some (x + 4)
  else if x = 43 then some 62
  else if x = 47 then some 63
  else none

/-- `EncodeToString` -/
def b64Encode : Bytes → Bytes
  | a :: b :: c :: rest =>
    let n := a.toNat * 65536 + b.toNat * 256 + c.toNat
    b64Char (n / 262144) :: b64Char (n / 4096 % 64) :: b64Char (n / 64 % 64) :: b64Char (n % 64) :: b64Encode rest
  | [a, b] =>
    let n := a.toNat * 65536 + b.toNat * 256
    [b64Char (n / 262144), b64Char (n / 4096 % 64), b64Char (n / 64 % 64), 61]
  | [a] =>
    let n := a.toNat * 65536
    [b64Char (n / 262144), b64Char (n / 4096 % 64), 61, 61]
  | [] => []

def isNL (c : UInt8) : Bool := c == 10 || c == 13

/-- the bytes of one (possibly short) quantum of sextets; low bits of a short quantum are ignored
    (StdEncoding is not Strict) -/
def b64Bytes : List Nat → Bytes
  | [a, b, c, d] =>
    let n := a * 262144 + b * 4096 + c * 64 + d
    [UInt8.ofNat (n / 65536), UInt8.ofNat (n / 256 % 256), UInt8.ofNat (n % 256)]
  | [a, b, c] =>
    let n := a * 262144 + b * 4096 + c * 64
    [UInt8.ofNat (n / 65536), UInt8.ofNat (n / 256 % 256)]
  | [a, b] =>
    let n := a * 262144 + b * 4096
    [UInt8.ofNat (n / 65536)]
  | _ => []

/-- `DecodeString` (decodeQuantum loop): `q` = sextets of the current quantum; '\r' and '\n' are skipped anywhere;
    '=' is accepted only as "==" after two sextets or "=" after three, followed by nothing but newlines;
    input ending inside a quantum is an error (padding is mandatory). `none` = CorruptInputError. -/
def b64DecodeAux : Bytes → List Nat → Bytes → Option Bytes
  | [], q, out => if q.isEmpty then some out else none
  | c :: rest, q, out =>
    match b64Val c with
    | some v =>
      if q.length = 3 then b64DecodeAux rest [] (out ++ b64Bytes (q ++ [v]))
      else b64DecodeAux rest (q ++ [v]) out
    | none =>
      if isNL c then b64DecodeAux rest q out
      else if c != 61 then none
      else if q.length = 2 then
        match rest.dropWhile isNL with
        | d :: rest' => if d == 61 && (rest'.dropWhile isNL).isEmpty then some (out ++ b64Bytes q) else none
        | [] => none
      else if q.length = 3 then
        if (rest.dropWhile isNL).isEmpty then some (out ++ b64Bytes q) else none
      else none

def b64Decode (s : Bytes) : Option Bytes := b64DecodeAux s [] []

/-! ## UTF-8: `[]rune(s)` and `string([]rune)` -/

def isCont (b : UInt8) : Bool := 0x80 ≤ b.toNat && b.toNat ≤ 0xBF

def dec2 (x : Nat) : Bytes → Nat × Nat
  | b1 :: _ => if isCont b1 then ((x - 0xC0) * 64 + (b1.toNat - 0x80), 2) else (0xFFFD, 1)
  | _ => (0xFFFD, 1)

def dec3 (x : Nat) : Bytes → Nat × Nat
  | b1 :: b2 :: _ =>
    let lo := if x = 0xE0 then 0xA0 else 0x80
    let hi := if x = 0xED then 0x9F else 0xBF
    if lo ≤ b1.toNat ∧ b1.toNat ≤ hi ∧ isCont b2 then
      ((x - 0xE0) * 4096 + (b1.toNat - 0x80) * 64 + (b2.toNat - 0x80), 3)
    else (0xFFFD, 1)
  | _ => (0xFFFD, 1)

def dec4 (x : Nat) : Bytes → Nat × Nat
  | b1 :: b2 :: b3 :: _ =>
    let lo := if x = 0xF0 then 0x90 else 0x80
    let hi := if x = 0xF4 then 0x8F else 0xBF
    if lo ≤ b1.toNat ∧ b1.toNat ≤ hi ∧ isCont b2 ∧ isCont b3 then
      ((x - 0xF0) * 262144 + (b1.toNat - 0x80) * 4096 + (b2.toNat - 0x80) * 64 + (b3.toNat - 0x80), 4)
    else (0xFFFD, 1)
  | _ => (0xFFFD, 1)

/-- `utf8.DecodeRune`: (rune, width); every byte that does not start a well-formed sequence (shortest form,
    no surrogates, ≤ U+10FFFF) yields (U+FFFD, 1) -/
def decodeRune : Bytes → Nat × Nat
  | [] => (0xFFFD, 1)
  | b0 :: t =>
    let x := b0.toNat
    if x < 0x80 then (x, 1)
    else if x < 0xC2 then (0xFFFD, 1)
    else if x < 0xE0 then dec2 x t
    else if x < 0xF0 then dec3 x t
    else if x < 0xF5 then dec4 x t
    else (0xFFFD, 1)

theorem ite_snd_pos {c : Prop} [Decidable c] (a b : Nat × Nat) (ha : 1 ≤ a.2) (hb : 1 ≤ b.2) :
    1 ≤ (if c then a else b).2 := by split <;> assumption

theorem decodeRune_width_pos (s : Bytes) : 1 ≤ (decodeRune s).2 := by
  have h2 : ∀ x t, 1 ≤ (dec2 x t).2 := by intro x t; unfold dec2; split <;> first | exact ite_snd_pos _ _ (by simp) (by simp) | simp
  have h3 : ∀ x t, 1 ≤ (dec3 x t).2 := by intro x t; unfold dec3; split <;> first | exact ite_snd_pos _ _ (by simp) (by simp) | simp
  have h4 : ∀ x t, 1 ≤ (dec4 x t).2 := by intro x t; unfold dec4; split <;> first | exact ite_snd_pos _ _ (by simp) (by simp) | simp
  unfold decodeRune
  split
  · simp
  · simp only
    repeat' split
    all_goals first | exact h2 _ _ | exact h3 _ _ | exact h4 _ _ | simp

/-- `[]rune(s)` -/
def runesOfString (s : Bytes) : List Nat :=
  if _h : s = [] then [] else (decodeRune s).1 :: runesOfString (s.drop (decodeRune s).2)
termination_by s.length
decreasing_by
  have := decodeRune_width_pos s
  have : 0 < s.length := List.length_pos_iff.mpr _h
  simp only [List.length_drop]; omega

/-- `utf8.AppendRune`: surrogates and values above U+10FFFF become U+FFFD -/
def encodeRune (r : Nat) : Bytes :=
  if r < 0x80 then [UInt8.ofNat r]
  else if r < 0x800 then [UInt8.ofNat (0xC0 + r / 64), UInt8.ofNat (0x80 + r % 64)]
  else if (0xD800 ≤ r ∧ r < 0xE000) ∨ 0x10FFFF < r then [0xEF, 0xBF, 0xBD]
  else if r < 0x10000 then [UInt8.ofNat (0xE0 + r / 4096), UInt8.ofNat (0x80 + r / 64 % 64), UInt8.ofNat (0x80 + r % 64)]
  else [UInt8.ofNat (0xF0 + r / 262144), UInt8.ofNat (0x80 + r / 4096 % 64), UInt8.ofNat (0x80 + r / 64 % 64),
        UInt8.ofNat (0x80 + r % 64)]

/-- `string(runes)` -/
def stringOfRunes (rs : List Nat) : Bytes := rs.flatMap encodeRune

/-! ## unicode/utf16 -/

/-- `utf16.Encode` -/
def utf16Encode : List Nat → List UInt16
  | [] => []
  | v :: rest =>
    if v < 0xD800 ∨ (0xE000 ≤ v ∧ v < 0x10000) then UInt16.ofNat v :: utf16Encode rest
    else if 0x10000 ≤ v ∧ v ≤ 0x10FFFF then
      let r := v - 0x10000
      UInt16.ofNat (0xD800 + r / 1024 % 1024) :: UInt16.ofNat (0xDC00 + r % 1024) :: utf16Encode rest
    else 0xFFFD :: utf16Encode rest

/-- `utf16.Decode`: an unpaired surrogate becomes U+FFFD -/
def utf16Decode : List UInt16 → List Nat
  | [] => []
  | [r] => if r.toNat < 0xD800 ∨ 0xE000 ≤ r.toNat then [r.toNat] else [0xFFFD]
  | r :: r2 :: rest =>
    if r.toNat < 0xD800 ∨ 0xE000 ≤ r.toNat then r.toNat :: utf16Decode (r2 :: rest)
    else if r.toNat < 0xDC00 ∧ 0xDC00 ≤ r2.toNat ∧ r2.toNat < 0xE000 then
      ((r.toNat - 0xD800) * 1024 + (r2.toNat - 0xDC00) + 0x10000) :: utf16Decode rest
    else 0xFFFD :: utf16Decode (r2 :: rest)

/-! ## crypto/cipher CBC over a 16-byte block function -/

def xorBytes (a b : Bytes) : Bytes := List.zipWith (· ^^^ ·) a b

def blocks16 (l : Bytes) : List Bytes :=
  if _h : 16 ≤ l.length then l.take 16 :: blocks16 (l.drop 16) else []
termination_by l.length
decreasing_by simp only [List.length_drop]; omega

def cbcEncBlocks (E : Bytes → Bytes) : Bytes → List Bytes → List Bytes
  | _, [] => []
  | iv, p :: ps =>
    let c := E (xorBytes p iv)
    c :: cbcEncBlocks E c ps

def cbcDecBlocks (D : Bytes → Bytes) : Bytes → List Bytes → List Bytes
  | _, [] => []
  | iv, c :: cs => xorBytes (D c) iv :: cbcDecBlocks D c cs

/-- `cipher.NewCBCEncrypter(block, iv).CryptBlocks(dst, src)`: panics on a partial block -/
def cbcEncrypt (E : Bytes → Bytes) (iv src : Bytes) : Outcome Bytes :=
  if src.length % 16 ≠ 0 then .panic else .ok (cbcEncBlocks E iv (blocks16 src)).flatten

def cbcDecrypt (D : Bytes → Bytes) (iv src : Bytes) : Outcome Bytes :=
  if src.length % 16 ≠ 0 then .panic else .ok (cbcDecBlocks D iv (blocks16 src)).flatten

end Prim

/-! # Group Policy Preferences password encryption -/
namespace GPP
open Prim

def zeroIV : Bytes := List.replicate 16 0

/-- `utf16.EncodeUTF16LE(s)`: `utf16.Encode([]rune(s))`, then `byte(r)`, `byte(r >> 8)` per unit -/
def encodeUTF16LE (s : Bytes) : Bytes := (utf16Encode (runesOfString s)).flatMap putLe16

/-- the loop of `DecodeUTF16LE`: `utf16le[i/2] = uint16(b[i]) | uint16(b[i+1])<<8` for i = 0, 2, 4, … while
    `i+1 < len(b)`: a trailing odd byte is not a code unit and is ignored
    (after `fixes/C07-utf16-odd-length.diff`; before, the last iteration indexed out of range) -/
def unitsLE : Bytes → Outcome (List UInt16)
  | [] => .ok []
  | [_] => .ok []
  | b0 :: b1 :: rest =>
    match unitsLE rest with
    | .ok us => .ok (le16 b0 b1 :: us)
    | .err => .err
    | .panic => .panic

/-- `utf16.DecodeUTF16LE(b)` -/
def decodeUTF16LE (b : Bytes) : Outcome Bytes :=
  match unitsLE b with
  | .ok us => .ok (stringOfRunes (utf16Decode us))
  | .err => .err
  | .panic => .panic

/-- `GPPPEncrypt(plaintext)`, `E` = AES-256 block encryption under `GPPP_AES_KEY` -/
def encrypt (E : Bytes → Bytes) (plaintext : Bytes) : Outcome Bytes :=
  match PKCS7.pad (encodeUTF16LE plaintext) 16 with
  | .ok padded =>
    match cbcEncrypt E zeroIV padded with
    | .ok c => .ok (b64Encode c)
    | .err => .err
    | .panic => .panic
  | .err => .err
  | .panic => .panic

/-- `GPPPDecryptBytes(ciphertext)`, `D` = AES-256 block decryption under `GPPP_AES_KEY`
    (with fixes/C12-gppp-odd-length.diff: an odd-length plaintext is an error instead of reaching
    `DecodeUTF16LE`, which indexes out of range on it) -/
def decryptBytes (D : Bytes → Bytes) (ciphertext : Bytes) : Outcome Bytes :=
  if ciphertext.length % 16 ≠ 0 then .err
  else
    match cbcDecrypt D zeroIV ciphertext with
    | .ok plaintext =>
      match PKCS7.unpad plaintext with
      | .ok unpadded =>
        if unpadded.length % 2 ≠ 0 then .err
        else decodeUTF16LE unpadded
      | .err => .err
      | .panic => .panic
    | .err => .err
    | .panic => .panic

/-- the base64 re-padding of `GPPPDecryptBase64` -/
def repad (s : Bytes) : Bytes :=
  let pad := s.length % 4
  if pad = 1 then s.take (s.length - 1)
  else if pad = 2 ∨ pad = 3 then s ++ List.replicate (4 - pad) 61
  else s

/-- `GPPPDecryptBase64(encStr)` -/
def decryptBase64 (D : Bytes → Bytes) (encStr : Bytes) : Outcome Bytes :=
  match b64Decode (repad encStr) with
  | some c => decryptBytes D c
  | none => .err

/-! ## MS-GPPREF 2.2.1.1.4 Password Encryption -/
namespace Spec

/-- the published 32-byte AES key -/
def msKey : Bytes :=
  [0x4e, 0x99, 0x06, 0xe8, 0xfc, 0xb6, 0x6c, 0xc9, 0xfa, 0xf4, 0x93, 0x10, 0x62, 0x0f, 0xfe, 0xe8,
   0xf4, 0x96, 0xe8, 0x06, 0xcc, 0x05, 0x79, 0x90, 0x20, 0x9b, 0x09, 0xa4, 0x33, 0xb6, 0x6c, 0x1b]

/-- a Unicode scalar value -/
def IsScalar (c : Nat) : Prop := c < 0xD800 ∨ (0xE000 ≤ c ∧ c ≤ 0x10FFFF)
instance (c : Nat) : Decidable (IsScalar c) := by unfold IsScalar; infer_instance

/-- UTF-16 (Unicode §3.9 D91) of one scalar value, little-endian byte order -/
def utf16leOf (c : Nat) : Bytes :=
  if c < 0x10000 then [UInt8.ofNat (c % 256), UInt8.ofNat (c / 256)]
  else
    let c' := c - 0x10000
    let hi := 0xD800 + c' / 1024
    let lo := 0xDC00 + c' % 1024
    [UInt8.ofNat (hi % 256), UInt8.ofNat (hi / 256), UInt8.ofNat (lo % 256), UInt8.ofNat (lo / 256)]

def utf16le (cps : List Nat) : Bytes := cps.flatMap utf16leOf

/-- SP 800-38A §6.2 CBC encryption: C_1 = CIPH(P_1 ⊕ IV), C_j = CIPH(P_j ⊕ C_{j-1}) -/
def cbcEncrypt (E : Bytes → Bytes) (iv : Bytes) (blocks : List Bytes) : List Bytes :=
  (blocks.foldl (fun (acc : Bytes × List Bytes) p =>
      let c := E (xorBytes p acc.1)
      (c, acc.2 ++ [c])) (iv, [])).2

/-- the cpassword of a password given as Unicode scalar values: base64(AES-256-CBC_{key, IV=0}(pkcs7(utf16le))) -/
def encrypt (E : Bytes → Bytes) (cps : List Nat) : Bytes :=
  b64Encode (cbcEncrypt E zeroIV (blocks16 (PKCS7.Spec.pad (utf16le cps) 16))).flatten

/-- 16-bit little-endian code units; `none` on an odd length -/
def unitsLE? : Bytes → Option (List Nat)
  | [] => some []
  | [_] => none
  | b0 :: b1 :: rest => ((b0.toNat + 256 * b1.toNat) :: ·) <$> unitsLE? rest

/-- well-formed UTF-16 (Unicode §3.9 D91) → scalar values; `none` on an unpaired surrogate -/
def scalars? : List Nat → Option (List Nat)
  | [] => some []
  | [u] => if u < 0xD800 ∨ 0xE000 ≤ u then some [u] else none
  | u :: v :: rest =>
    if u < 0xD800 ∨ 0xE000 ≤ u then (u :: ·) <$> scalars? (v :: rest)
    else if u < 0xDC00 ∧ 0xDC00 ≤ v ∧ v < 0xE000 then
      (((u - 0xD800) * 1024 + (v - 0xDC00) + 0x10000) :: ·) <$> scalars? rest
    else none

/-- strict UTF-16LE decoding: `none` on an odd length or an unpaired surrogate -/
def utf16leDecode? (b : Bytes) : Option (List Nat) := unitsLE? b >>= scalars?

/-- base64 text without its '=' padding → bytes; `none` if a character is outside the alphabet or the length
    is 1 mod 4 -/
def unpaddedB64? (body : Bytes) : Option Bytes :=
  if body.length % 4 = 1 then none
  else
    match body.mapM b64Val with
    | none => none
    | some vs =>
      let rec go : List Nat → Bytes
        | a :: b :: c :: d :: rest => b64Bytes [a, b, c, d] ++ go rest
        | q => b64Bytes q
      some (go vs)

inductive Verdict where
  | silent                    -- the property says nothing (only: no panic)
  | reject                    -- an error must be returned
  | accept (cps : List Nat)   -- this password must be returned
  deriving Repr, DecidableEq

/-- what decrypting a ciphertext must give: it must be a positive number of whole blocks; the CBC plaintext
    must carry valid PKCS#7 padding; what remains must be well-formed UTF-16LE. -/
def decryptBytes (D : Bytes → Bytes) (c : Bytes) : Verdict :=
  if c.length % 16 ≠ 0 ∨ c.length = 0 then .reject
  else
    match PKCS7.Spec.unpad (cbcDecBlocks D zeroIV (blocks16 c)).flatten with
    | none => .reject
    | some u =>
      match utf16leDecode? u with
      | none => .silent
      | some cps => .accept cps

/-- what decrypting a cpassword string must give.  The string is base64 with complete, partial or missing '='
    padding (anything else: not specified). -/
def decrypt (D : Bytes → Bytes) (s : Bytes) : Verdict :=
  let body := (s.reverse.dropWhile (· == 61)).reverse
  let npad := s.length - body.length
  match unpaddedB64? body with
  | none => .silent
  | some c =>
    if npad > (4 - body.length % 4) % 4 then .silent          -- more '=' than canonical: not specified
    else decryptBytes D c

end Spec
end GPP
end Manticore.C12
