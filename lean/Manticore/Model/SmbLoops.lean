/-
  The loop fragment of the command IR (C04): programs whose only statements outside the straight-line
  fragment of `Model/SmbCmd.lean` are matching loop pairs over list fields —

      Marshal                                   Unmarshal
      for _, x := range c.F { PutUint… }        c.F = make([]T, c.G); for i < int(c.G) { c.F[i] = … }   (counted)
                                                for i := range c.F { c.F[i] = … }                         (fixed array)
      for _, x := range c.F { x.Marshal() }     c.F = []T{}; for i < int(c.G) { guard; x.Unmarshal(blk[off:off+size]); … }
      if c.F != 0 { PutUint…(c.F) }             c.F = 0; if WordCount == k { guard; c.F = …; offset += w } (optional, trailing)
      if c.F != [n]T{0,…} { range c.F }        c.F = [3]T{0,0,0}; if WordCount == k { guard; c.F = [3]T{…}; offset += 12 } (optional array)
      append(raw, c.Pad...)                     padLen := …; if padLen%2 == 1 { padLen++ } / if (len(P)+3)%2 == 1 { padLen = 1 };
                                                c.Pad = blk[offset:offset+padLen]                         (padding arithmetic)

  `layoutML` / `layoutUL` read the slot sequence off the two programs (a loop contributes one `ints` / `subs`
  slot: the concatenation of its elements' encodings); `okUL` is the offset discipline; `MirrorLoops` says the
  two agree.  The definitions extend `layoutM` / `layoutU` / `guardFits` / `okU` / `Mirror` clause by clause
  (`mirror_loops_extends` in Props/C04.lean: every `Mirror` command is a `MirrorLoops` command); those stay as
  they are because `Spec.Cifs.encode` and the C05 theorems are stated over `layoutM`.
  Soundness: `mirror_loops_roundtrip` (Lemmas/SmbLoops*.lean, Props/C04.lean).  Core Lean only.
-/
import Manticore.Model.SmbCmd
namespace Manticore.SmbIR
open Manticore

def layoutML : List MStmt → Option (List Slot)
  | [] => some []
  | .int b w e f :: r => (layoutML r).map (.int b w e f :: ·)
  | .quad b w e f :: r => (layoutML r).map (.int b w e f :: ·)
  | .u8 b f :: r => (layoutML r).map (.u8 b f :: ·)
  | .bytes b f :: r => (layoutML r).map (.bytes b f none :: ·)
  | .arr b f :: r => (layoutML r).map (.arr b f :: ·)
  | .sub b f t :: r => (layoutML r).map (.sub b f t none :: ·)
  | .setFmt _ _ :: r => layoutML r
  | .assignLen _ _ _ :: r => layoutML r
  | .forInt b w e f :: r => (layoutML r).map (.ints b w e f none :: ·)
  | .forSub b f t :: r => (layoutML r).map (.subs b f t none none :: ·)
  | .ifNonZero f [.int b w e g] :: r => if f = g then (layoutML r).map (.opt b w e f none :: ·) else none
  | .ifNonZeroArr f [.forInt b w e g] :: r => if f = g then (layoutML r).map (.optInts b w e f 0 none :: ·) else none
  | _ :: _ => none

/-- `layoutU` with the loops: a counted integer loop must follow the `make` of the same list with the same
    count, a counted loop of nested values the reset of the same list; the loops advance `offset` themselves.
    A buffer read that ends the program needs no advance behind it.  The statements that compute the local
    `padLen` contribute no slot; a buffer of `padLen` bytes is a buffer slot whose length is `.pad`. -/
def layoutUL : List UStmt → Option (List Slot)
  | [] => some []
  | .retIfEmpty _ _ :: r => layoutUL r
  | .resetOffset :: r => layoutUL r
  | .guard _ _ :: r => layoutUL r
  | .readInt b w e f :: .advance (.lit n) :: r => if n = w then (layoutUL r).map (.int b w e f :: ·) else none
  | .readQuad b w e f :: .advance (.lit n) :: r => if n = w then (layoutUL r).map (.int b w e f :: ·) else none
  | .readU8 b f :: .advance (.lit 1) :: r => (layoutUL r).map (.u8 b f :: ·)
  | .readBytes b f n :: .advance m :: r => if n = m then (layoutUL r).map (.bytes b f (some n) :: ·) else none
  | .readRest b f :: .advance (.flen g) :: r => if f = g then (layoutUL r).map (.bytes b f none :: ·) else none
  | .readArr b f n :: .advance (.lit m) :: r => if n = m then (layoutUL r).map (.arr b f :: ·) else none
  | .readSub b f t win false true true :: .advanceRead :: r => (layoutUL r).map (.sub b f t win :: ·)
  | .makeInts f g :: .forCountInt b w e f' g' :: r =>
    if f = f' ∧ g = g' then (layoutUL r).map (.ints b w e f (some g) :: ·) else none
  | .forRangeInt b w e f :: r => (layoutUL r).map (.ints b w e f none :: ·)
  | .clear f :: .forCountSub b f' g t size :: r =>
    if f = f' then (layoutUL r).map (.subs b f t (some g) (some size) :: ·) else none
  | [.readBytes b f n] => some [.bytes b f (some n)]
  | .zeroInt f0 :: .ifWordCount k [.guard b (.lit n), .readInt b' w e f, .advance (.lit m)] :: r =>
    if f0 = f ∧ b = b' ∧ n = w ∧ m = w then (layoutUL r).map (.opt b w e f (some k) :: ·) else none
  | .zeroInts f0 n :: .ifWordCount k [.guard b (.lit g), .readArr3 b' f, .advance (.lit m)] :: r =>
    if f0 = f ∧ b = b' ∧ n = 3 ∧ g = 12 ∧ m = 12 then (layoutUL r).map (.optInts b 4 .le f 3 (some k) :: ·) else none
  | .setPad _ :: r => layoutUL r
  | .padRoundUp :: r => layoutUL r
  | .padIfPOdd :: r => layoutUL r
  -- `c.F.Unmarshal(blk[offset:offset+n]); offset += n` — the error and the count of the nested decoder are not looked
  -- at, `offset` moves by the window instead (RenameRequest): the same slot as the checked read through that window
  | .readSub b f t (some n) false _ _ :: .advance (.lit m) :: r =>
    if n = m then (layoutUL r).map (.sub b f t (some n) :: ·) else none
  | _ :: _ => none

/-- `guardFits` with the loops: the guard in front of an integer loop asks for no more than the loop reads
    (`w` bytes per element: `w * int(c.G)` for the counted loop, `w * len(c.F)` for the fixed array) -/
def guardFitsL (b : Blk) (e : Expr) : List UStmt → Bool
  | .readInt b' w _ _ :: _ => b == b' && exprLe e (.lit w)
  | .readQuad b' w _ _ :: _ => b == b' && exprLe e (.lit w)
  | .readU8 b' _ :: _ => b == b' && exprLe e (.lit 1)
  | .readBytes b' _ n :: _ => b == b' && exprLe e n
  | .readArr b' _ n :: _ => b == b' && exprLe e (.lit n)
  | .readSub b' _ t _ _ _ _ :: _ =>
    b == b' && (match fixedSize t with | some k => exprLe e (.lit k) | none => false)
  | .makeInts _ g :: .forCountInt b' w _ _ _ :: _ => b == b' && e == .mul w (.fint g)
  | .forRangeInt b' w _ f :: _ => b == b' && e == .mul w (.flen f)
  | _ => false

/-- `okU` with the loops: a counted loop runs to a count field that has been read; the window of a loop of
    nested values is the size of the nested type (every element encodes to exactly that); `padLen` is computed
    from fields that have been read, and a buffer may have that length -/
def okUL (hp hd : Bool) : UPos → List String → List UStmt → Bool
  | _, _, [] => true
  | pos, seen, .retIfEmpty p d :: r => (p || !hp) && (d || !hd) && okUL hp hd pos seen r
  | pos, seen, .resetOffset :: r => okUL hp hd pos.reset seen r
  | pos, seen, .guard b e :: r => guardFitsL b e r && okUL hp hd pos seen r
  | pos, seen, .readInt b _ _ f :: .advance _ :: r => pos.canRead b && okUL hp hd (pos.read b) (f :: seen) r
  | pos, seen, .readQuad b _ _ f :: .advance _ :: r => pos.canRead b && okUL hp hd (pos.read b) (f :: seen) r
  | pos, seen, .readU8 b f :: .advance _ :: r => pos.canRead b && okUL hp hd (pos.read b) (f :: seen) r
  | pos, seen, .readBytes b f n :: .advance _ :: r =>
    pos.canRead b && (n == .pad || n.closed seen) && okUL hp hd (pos.read b) (f :: seen) r
  | pos, seen, .readRest b f :: .advance _ :: r => pos.canRead b && okUL hp hd (pos.read b) (f :: seen) r
  | pos, seen, .readArr b f _ :: .advance _ :: r => pos.canRead b && okUL hp hd (pos.read b) (f :: seen) r
  | pos, seen, .readSub b f t win _ _ _ :: .advanceRead :: r =>
    pos.canRead b && (match win with | some n => fixedSize t == some n | none => !exactLen t) &&
      okUL hp hd (pos.read b) (f :: seen) r
  | pos, seen, .makeInts f g :: .forCountInt b _ _ _ _ :: r =>
    pos.canRead b && seen.contains g && okUL hp hd (pos.read b) (f :: seen) r
  | pos, seen, .forRangeInt b _ _ f :: r => pos.canRead b && okUL hp hd (pos.read b) (f :: seen) r
  | pos, seen, .clear f :: .forCountSub b _ g t size :: r =>
    pos.canRead b && seen.contains g && fixedSize t == some size && okUL hp hd (pos.read b) (f :: seen) r
  | pos, seen, [.readBytes b _ n] => pos.canRead b && n.closed seen
  | pos, seen, .zeroInt _ :: .ifWordCount _ [.guard _ _, .readInt b _ _ f, .advance _] :: r =>
    pos.canRead b && okUL hp hd (pos.read b) (f :: seen) r
  | pos, seen, .zeroInts _ _ :: .ifWordCount _ [.guard _ _, .readArr3 b f, .advance _] :: r =>
    pos.canRead b && okUL hp hd (pos.read b) (f :: seen) r
  | pos, seen, .setPad e :: r => e.closed seen && okUL hp hd pos seen r
  | pos, seen, .padRoundUp :: r => okUL hp hd pos seen r
  | pos, seen, .padIfPOdd :: r => okUL hp hd pos seen r
  -- a nested read whose error and count are dropped, behind which `offset` moves by the window: only through a window
  -- of the type's `fixedSize` (every value of the domain then fills the window exactly, so the decoder cannot fail on
  -- what Marshal wrote and would have reported the same count)
  | pos, seen, .readSub b f t (some n) false _ _ :: .advance _ :: r =>
    pos.canRead b && fixedSize t == some n && okUL hp hd (pos.read b) (f :: seen) r
  | _, _, _ :: _ => false

/-- nested wire types a command marshals, those of list elements included -/
def Cmd.subTypesL (c : Cmd) : List String :=
  c.marshal.filterMap (fun s => match s with | .sub _ _ t => some t | .forSub _ _ t => some t | _ => none)

/-- what an unmarshal program of the loop fragment takes from the receiving structure instead of from the wire:
    the fixed arrays `c.F` filled in place (`for i := range c.F`): the loop runs to the length the receiver's array
    has.  (An optional integer is not among them: the fragment only admits it behind `c.F = 0`, so the receiver's old
    value never survives.) -/
def recvFields : List UStmt → List String
  | [] => []
  | .forRangeInt _ _ _ f :: r => f :: recvFields r
  | _ :: r => recvFields r

/-- the receiving structure fits the sender's values where Unmarshal relies on it: a fixed array has the length of
    the sender's (in Go: both have the declared length `[n]T`; the model's environments are untyped) -/
def receiverFits (c : Cmd) (env0 env : Env) : Bool :=
  match bodyN c with
  | none => true
  | some body =>
    (recvFields body).all (fun f =>
      match env0.get f, env.get f with
      | some (.ns a), some (.ns b) => a.length == b.length
      | _, _ => false)

/-- "WordCount tells which": an optional integer (or array of integers) is the last parameter slot, everything in
    front of it has a fixed width (`n` bytes so far: integers, and nested values of a `fixedSize` type), and the word count `k` under which Unmarshal reads it is the one the block has
    with the field and not the one it has without (`andxWords`: the two AndX words counted in front) -/
def optTrailing (andx : Bool) : List Slot → Nat → Bool
  | [], _ => true
  | [.opt _ w _ _ (some k)], n => decide (andxWords andx + (n + w + 1) / 2 = k) && decide (andxWords andx + (n + 1) / 2 ≠ k)
  | .opt .. :: _, _ => false
  | [.optInts _ w _ _ cnt (some k)], n =>
    decide (andxWords andx + (n + w * cnt + 1) / 2 = k) && decide (andxWords andx + (n + 1) / 2 ≠ k)
  | .optInts .. :: _, _ => false
  | .int _ w _ _ :: r, n => optTrailing andx r (n + w)
  | .u8 _ _ :: r, n => optTrailing andx r (n + 1)
  | .sub _ _ t _ :: r, n =>
    match fixedSize t with
    | some k => optTrailing andx r (n + k)      -- a nested value whose encoding has the same length for every value
    | none => r.all (fun sl => match sl with | .opt .. | .optInts .. => false | _ => true)
  | _ :: r, _ => r.all (fun sl => match sl with | .opt .. | .optInts .. => false | _ => true)

/-- C04 static predicate for the loop fragment: `Mirror` with `layoutML` / `layoutUL` / `okUL` in place of
    `layoutM` / `layoutU` / `okU` — both programs are straight-line except for loops over list fields, describe the
    same slots per block in the same order (a loop being one slot: integers of the same width and byte order,
    nested values of the same type), and the side conditions of `Mirror` hold; a counted loop runs to a count
    field read before it, through a window of the element type's size; no marshal statement assigns a field
    that Unmarshal takes from the receiver (`recvFields`); an integer emitted iff non-zero (`if c.F != 0 { … }`) against
    `c.F = 0; if WordCount == k { guard; read; advance }` only as the last parameter slot behind fixed-width slots, `k`
    being the word count the block has with it and not the one it has without (`optTrailing`). -/
def MirrorLoops (c : Cmd) : Bool :=
  match bodyN c with
  | none => false
  | some body =>
    match layoutML c.marshal, layoutUL body with
    | some m, some u =>
      mirrorSlots m u &&
      stableM c.marshal && c.marshal.all (fun s => s.modifies != some andxField) &&
      okUL (!(u.filter (·.blk == .P)).isEmpty) (!(u.filter (·.blk == .D)).isEmpty) {} (if c.isAndX then [andxField] else []) body &&
      (c.fields.map (·.1)).all (fun f => (u.map Slot.field).contains f) &&
      -- a field taken from the receiver is not the AndX block, and Marshal leaves it alone
      (recvFields body).all (fun f => f != andxField && c.marshal.all (fun s => s.modifies != some f)) &&
      -- an optional integer only as the last parameter slot behind fixed-width slots, under the right word count
      optTrailing c.isAndX (u.filter (·.blk == .P)) 0 &&
      (u.filter (·.blk == .D)).all (fun sl => match sl with | .opt .. | .optInts .. => false | _ => true)
    | _, _ => false

/-- `Reencodable` over the loop fragment's marshal layout -/
def ReencodableL (c : Cmd) : Bool :=
  reencodableM c.marshal &&
  (lenFieldsM c.marshal).all (fun f => (c.fields.map (·.1)).contains f) &&
  (match layoutML c.marshal with
    | some m => (m.map Slot.field).all (fun f => (c.fields.map (·.1)).contains f)
    | none => false)

end Manticore.SmbIR
