/-
  The loop fragment of the command IR (C04): programs whose only statements outside the straight-line
  fragment of `Model/SmbCmd.lean` are matching loop pairs over list fields —

      Marshal                                   Unmarshal
      for _, x := range c.F { PutUint… }        c.F = make([]T, c.G); for i < int(c.G) { c.F[i] = … }   (counted)
                                                for i := range c.F { c.F[i] = … }                         (fixed array)
      for _, x := range c.F { x.Marshal() }     c.F = []T{}; for i < int(c.G) { guard; x.Unmarshal(blk[off:off+size]); … }

  `layoutML` / `layoutUL` read the slot sequence off the two programs (a loop contributes one `ints` / `subs`
  slot: the concatenation of its elements' encodings); `okUL` is the offset discipline; `MirrorLoops` says the
  two agree.  The definitions extend `layoutM` / `layoutU` / `guardFits` / `okU` / `Mirror` clause by clause
  (`mirror_loops_extends` in Props/C04.lean: every `Mirror` command is a `MirrorLoops` command); those stay as
  they are because `Spec.Cifs.encode` and the C05 theorems are stated over `layoutM`.
  Soundness: `mirror_loops_roundtrip` (Lemmas/SmbLoops*.lean, Props/C04.lean).  Core Lean only.
-/
import Manticore.Model.SmbCmd
namespace Manticore.SmbIR
open Manticore

def layoutML : List MStmt → Option (List Slot)
  | [] => some []
  | .int b w e f :: r => (layoutML r).map (.int b w e f :: ·)
  | .quad b w e f :: r => (layoutML r).map (.int b w e f :: ·)
  | .u8 b f :: r => (layoutML r).map (.u8 b f :: ·)
  | .bytes b f :: r => (layoutML r).map (.bytes b f none :: ·)
  | .arr b f :: r => (layoutML r).map (.arr b f :: ·)
  | .sub b f t :: r => (layoutML r).map (.sub b f t none :: ·)
  | .setFmt _ _ :: r => layoutML r
  | .assignLen _ _ _ :: r => layoutML r
  | .forInt b w e f :: r => (layoutML r).map (.ints b w e f none :: ·)
  | .forSub b f t :: r => (layoutML r).map (.subs b f t none none :: ·)
  | _ :: _ => none

/-- `layoutU` with the loops: a counted integer loop must follow the `make` of the same list with the same
    count, a counted loop of nested values the reset of the same list; the loops advance `offset` themselves.
    A buffer read that ends the program needs no advance behind it. -/
def layoutUL : List UStmt → Option (List Slot)
  | [] => some []
  | .retIfEmpty _ _ :: r => layoutUL r
  | .resetOffset :: r => layoutUL r
  | .guard _ _ :: r => layoutUL r
  | .readInt b w e f :: .advance (.lit n) :: r => if n = w then (layoutUL r).map (.int b w e f :: ·) else none
  | .readQuad b w e f :: .advance (.lit n) :: r => if n = w then (layoutUL r).map (.int b w e f :: ·) else none
  | .readU8 b f :: .advance (.lit 1) :: r => (layoutUL r).map (.u8 b f :: ·)
  | .readBytes b f n :: .advance m :: r => if n = m then (layoutUL r).map (.bytes b f (some n) :: ·) else none
  | .readRest b f :: .advance (.flen g) :: r => if f = g then (layoutUL r).map (.bytes b f none :: ·) else none
  | .readArr b f n :: .advance (.lit m) :: r => if n = m then (layoutUL r).map (.arr b f :: ·) else none
  | .readSub b f t win false true true :: .advanceRead :: r => (layoutUL r).map (.sub b f t win :: ·)
  | .makeInts f g :: .forCountInt b w e f' g' :: r =>
    if f = f' ∧ g = g' then (layoutUL r).map (.ints b w e f (some g) :: ·) else none
  | .forRangeInt b w e f :: r => (layoutUL r).map (.ints b w e f none :: ·)
  | .clear f :: .forCountSub b f' g t size :: r =>
    if f = f' then (layoutUL r).map (.subs b f t (some g) (some size) :: ·) else none
  | [.readBytes b f n] => some [.bytes b f (some n)]
  | _ :: _ => none

/-- `guardFits` with the loops: the guard in front of an integer loop asks for no more than the loop reads
    (`w` bytes per element: `w * int(c.G)` for the counted loop, `w * len(c.F)` for the fixed array) -/
def guardFitsL (b : Blk) (e : Expr) : List UStmt → Bool
  | .readInt b' w _ _ :: _ => b == b' && exprLe e (.lit w)
  | .readQuad b' w _ _ :: _ => b == b' && exprLe e (.lit w)
  | .readU8 b' _ :: _ => b == b' && exprLe e (.lit 1)
  | .readBytes b' _ n :: _ => b == b' && exprLe e n
  | .readArr b' _ n :: _ => b == b' && exprLe e (.lit n)
  | .readSub b' _ t _ _ _ _ :: _ =>
    b == b' && (match fixedSize t with | some k => exprLe e (.lit k) | none => false)
  | .makeInts _ g :: .forCountInt b' w _ _ _ :: _ => b == b' && e == .mul w (.fint g)
  | .forRangeInt b' w _ f :: _ => b == b' && e == .mul w (.flen f)
  | _ => false

/-- `okU` with the loops: a counted loop runs to a count field that has been read; the window of a loop of
    nested values is the size of the nested type (every element encodes to exactly that) -/
def okUL (hp hd : Bool) : UPos → List String → List UStmt → Bool
  | _, _, [] => true
  | pos, seen, .retIfEmpty p d :: r => (p || !hp) && (d || !hd) && okUL hp hd pos seen r
  | pos, seen, .resetOffset :: r => okUL hp hd pos.reset seen r
  | pos, seen, .guard b e :: r => guardFitsL b e r && okUL hp hd pos seen r
  | pos, seen, .readInt b _ _ f :: .advance _ :: r => pos.canRead b && okUL hp hd (pos.read b) (f :: seen) r
  | pos, seen, .readQuad b _ _ f :: .advance _ :: r => pos.canRead b && okUL hp hd (pos.read b) (f :: seen) r
  | pos, seen, .readU8 b f :: .advance _ :: r => pos.canRead b && okUL hp hd (pos.read b) (f :: seen) r
  | pos, seen, .readBytes b f n :: .advance _ :: r =>
    pos.canRead b && n.closed seen && okUL hp hd (pos.read b) (f :: seen) r
  | pos, seen, .readRest b f :: .advance _ :: r => pos.canRead b && okUL hp hd (pos.read b) (f :: seen) r
  | pos, seen, .readArr b f _ :: .advance _ :: r => pos.canRead b && okUL hp hd (pos.read b) (f :: seen) r
  | pos, seen, .readSub b f t win _ _ _ :: .advanceRead :: r =>
    pos.canRead b && (match win with | some n => fixedSize t == some n | none => !exactLen t) &&
      okUL hp hd (pos.read b) (f :: seen) r
  | pos, seen, .makeInts f g :: .forCountInt b _ _ _ _ :: r =>
    pos.canRead b && seen.contains g && okUL hp hd (pos.read b) (f :: seen) r
  | pos, seen, .forRangeInt b _ _ f :: r => pos.canRead b && okUL hp hd (pos.read b) (f :: seen) r
  | pos, seen, .clear f :: .forCountSub b _ g t size :: r =>
    pos.canRead b && seen.contains g && fixedSize t == some size && okUL hp hd (pos.read b) (f :: seen) r
  | pos, seen, [.readBytes b _ n] => pos.canRead b && n.closed seen
  | _, _, _ :: _ => false

/-- nested wire types a command marshals, those of list elements included -/
def Cmd.subTypesL (c : Cmd) : List String :=
  c.marshal.filterMap (fun s => match s with | .sub _ _ t => some t | .forSub _ _ t => some t | _ => none)

/-- the fixed arrays an unmarshal program fills in place (`for i := range c.F`): the loop runs to the length
    the receiving structure's array has -/
def rangeFields : List UStmt → List String
  | [] => []
  | .forRangeInt _ _ _ f :: r => f :: rangeFields r
  | _ :: r => rangeFields r

/-- the receiving structure's fixed arrays have the length of the sender's (in Go: the declared length `[n]T`) -/
def arraysSized (c : Cmd) (env0 env : Env) : Bool :=
  match bodyU c with
  | none => true
  | some body =>
    (rangeFields body).all (fun f =>
      match env0.get f, env.get f with
      | some (.ns a), some (.ns b) => a.length == b.length
      | _, _ => false)

/-- C04 static predicate for the loop fragment: `Mirror` with `layoutML` / `layoutUL` / `okUL` in place of
    `layoutM` / `layoutU` / `okU` — both programs are straight-line except for loops over list fields, describe the
    same slots per block in the same order (a loop being one slot: integers of the same width and byte order,
    nested values of the same type), and the side conditions of `Mirror` hold; a counted loop runs to a count
    field read before it, through a window of the element type's size; no marshal statement assigns a fixed array
    that Unmarshal fills in place. -/
def MirrorLoops (c : Cmd) : Bool :=
  match bodyU c with
  | none => false
  | some body =>
    match layoutML c.marshal, layoutUL body with
    | some m, some u =>
      mirrorSlots m u &&
      stableM c.marshal && c.marshal.all (fun s => s.modifies != some andxField) &&
      okUL (!(u.filter (·.blk == .P)).isEmpty) (!(u.filter (·.blk == .D)).isEmpty) {} (if c.isAndX then [andxField] else []) body &&
      (c.fields.map (·.1)).all (fun f => (u.map Slot.field).contains f) &&
      -- a fixed array filled in place is not the AndX block, and Marshal leaves it alone
      (rangeFields body).all (fun f => f != andxField && c.marshal.all (fun s => s.modifies != some f))
    | _, _ => false

/-- `Reencodable` over the loop fragment's marshal layout -/
def ReencodableL (c : Cmd) : Bool :=
  reencodableM c.marshal &&
  (lenFieldsM c.marshal).all (fun f => (c.fields.map (·.1)).contains f) &&
  (match layoutML c.marshal with
    | some m => (m.map Slot.field).all (fun f => (c.fields.map (·.1)).contains f)
    | none => false)

end Manticore.SmbIR
