/-
  C11 — NetBIOS session transport (network/netbios/nbt/nbt.go: `NBTTransport.Send` / `Receive`,
  message type constants from network/netbios/session.go, reached through the `Transport`
  interface of network/smb/smb_v10/transport/transport.go), with fixes/C11-17bit-length.diff
  applied: the model of the byte-stream behaviour, and the RFC 1002 §4.3.1 frame as the spec.

  What is modelled: the bytes `Send` hands to `conn.Write`, and what `Receive` returns given the
  bytes the connection delivers before it ends.  `io.ReadFull` is modelled by its contract —
  "exactly n bytes, or an error" (`readFull`) — which is in the trusted base; `readFullSeg` is a
  model of its *loop* over `conn.Read` results (arbitrary segmentation), proved equal to the
  contract in `Props/C11.lean`, so that segmentation independence is a theorem about the loop and
  not only a consequence of the abstraction.  Real TCP (resets, timeouts, partial writes) is not
  modelled.
-/
import Manticore.Basic
namespace Manticore.C11
open Manticore

/-- largest payload the 17-bit LENGTH field can express (`maxSessionMessageLength`) -/
def maxLen : Nat := 0x1FFFF

/-! ## Send -/

/-- the four header bytes `Send` builds for a payload of `n` bytes:
    `SESSION_MESSAGE`, `byte((n>>16)&0x01)`, `byte((n>>8)&0xFF)`, `byte(n&0xFF)` -/
def header (n : Nat) : Bytes :=
  [0x00, UInt8.ofNat ((n >>> 16) &&& 0x01), UInt8.ofNat ((n >>> 8) &&& 0xFF), UInt8.ofNat (n &&& 0xFF)]

/-- the packet `Send` writes for a payload it accepts -/
def frame (payload : Bytes) : Bytes := header payload.length ++ payload

/-- `Send(data)`: the bytes passed to `conn.Write` (one call), or the refusal -/
def send (payload : Bytes) : Outcome Bytes :=
  if payload.length > maxLen then .err else .ok (frame payload)

/-! ## Receive -/

/-- what the connection will still deliver before it ends (the peer closes or the link is cut) -/
abbrev Stream := Bytes

/-- CONTRACT of `io.ReadFull(conn, buf)` with `len(buf) = n` (trusted): exactly `n` bytes and the
    rest of the stream, or an error (`io.EOF` / `io.ErrUnexpectedEOF`) when fewer are left -/
def readFull (s : Stream) (n : Nat) : Outcome (Bytes × Stream) :=
  if s.length < n then .err else .ok (s.take n, s.drop n)

/-- `(int(header[1]&0x01) << 16) | (int(header[2]) << 8) | int(header[3])` -/
def lengthOf (h1 h2 h3 : UInt8) : Nat :=
  ((h1 &&& 0x01).toNat <<< 16) ||| (h2.toNat <<< 8) ||| h3.toNat

/-- `Receive()`: the message and the rest of the stream, or an error -/
def receive (s : Stream) : Outcome (Bytes × Stream) :=
  match readFull s 4 with
  | .ok (hdr, s1) =>
    match index hdr 0, index hdr 1, index hdr 2, index hdr 3 with
    | .ok messageType, .ok h1, .ok h2, .ok h3 =>
      let length := lengthOf h1 h2 h3
      if messageType ≠ 0x00 then .err
      else
        match readFull s1 length with
        | .ok (buffer, s2) => .ok (buffer, s2)
        | .err => .err
        | .panic => .panic
    | .panic, _, _, _ => .panic
    | _, .panic, _, _ => .panic
    | _, _, .panic, _ => .panic
    | _, _, _, .panic => .panic
    | _, _, _, _ => .err
  | .err => .err
  | .panic => .panic

/-- a receiver that calls `Receive` until it fails: the messages it got (`fuel` bounds the number
    of calls; every successful call consumes at least the 4 header bytes) -/
def recvLoop : Nat → Stream → List Bytes
  | 0, _ => []
  | fuel + 1, s =>
    match receive s with
    | .ok (m, s') => m :: recvLoop fuel s'
    | _ => []

def recvAll (s : Stream) : List Bytes := recvLoop s.length s

/-- did some call of the loop panic? (never: `Props`) -/
def recvPanics : Nat → Stream → Bool
  | 0, _ => false
  | fuel + 1, s =>
    match receive s with
    | .ok (_, s') => recvPanics fuel s'
    | .panic => true
    | .err => false

/-! ## the loop inside `io.ReadFull` over a segmented stream -/

/-- one `conn.Read(p)` with `len(p) = want ≥ 1` on a connection that will deliver the given
    segments and then end: a non-empty prefix of the next non-empty segment, at most `want` bytes
    (`none` = `io.EOF`) -/
def readOnce : List Bytes → Nat → Option (Bytes × List Bytes)
  | [], _ => none
  | c :: rest, want =>
    if c.length = 0 then readOnce rest want
    else if c.length ≤ want then some (c, rest)
    else some (c.take want, c.drop want :: rest)

/-- `io.ReadAtLeast(r, buf, len(buf))`: `for n < min && err == nil { nn, err = r.Read(buf[n:]); n += nn }`;
    `fuel` bounds the iterations (each delivers at least one byte) -/
def readFullSeg : Nat → List Bytes → Nat → Outcome (Bytes × List Bytes)
  | _, segs, 0 => .ok ([], segs)
  | 0, _, _ + 1 => .err
  | fuel + 1, segs, need + 1 =>
    match readOnce segs (need + 1) with
    | none => .err
    | some (got, segs') =>
      match readFullSeg fuel segs' (need + 1 - got.length) with
      | .ok (more, segs'') => .ok (got ++ more, segs'')
      | .err => .err
      | .panic => .panic

/-! ## SPEC: RFC 1002 §4.3.1 session message -/

/-- TYPE = 0x00 (session message), FLAGS = 0000000E, LENGTH = low 16 bits, big-endian; E is bit 16
    of the 17-bit length; then the user data -/
def Spec.frame (payload : Bytes) : Bytes :=
  let n := payload.length
  [0, UInt8.ofNat (n / 65536), UInt8.ofNat (n / 256 % 256), UInt8.ofNat (n % 256)] ++ payload

def Spec.Framable (payload : Bytes) : Prop := payload.length ≤ 131071
instance (p : Bytes) : Decidable (Spec.Framable p) := by unfold Spec.Framable; exact inferInstance

end Manticore.C11
