/-
  Critical sections under a readers–writer lock: a small-step interleaving semantics.

  Generic (any shared state `σ`, observations `ω`, results `ρ`); used by C17 for the NBNS name table
  (`sync.RWMutex` in `NetBIOSNameServer`).  Theorems: `Manticore/Lemmas/RWLock.lean` (invariants and the
  simulation), public statements in `Manticore/Props/C17Locks.lean`.

  * A **call** is one critical section: `acquire (read | write)`, then a finite list of **micro-steps**
    (individual accesses of the shared state; each sees the observations the call has made so far — its
    local variables), then `release`, which turns the observations into the call's result.
    A micro-step of a *writer* is a function `σ → σ × ω`; a micro-step of a *reader* is a function `σ → ω`:
    that a reader does not write is a fact of the type `Call`, not a hypothesis.
  * The machine itself runs `RawCall`s, in which the lock mode and the micro-steps are independent, so
    that a body that writes under the read lock can be *expressed* (only to show, in
    `write_under_read_lock_is_not_serializable`, that the discipline is what the theorems need).
    `Call.raw` embeds the disciplined calls.
  * **RWMutex**, safety part of the contract of Go's `sync.RWMutex`: a write acquire is enabled iff no
    reader and no writer holds the lock; a read acquire is enabled iff no writer holds it.  Writer
    preference ("a blocked `Lock` excludes new readers") and fairness are NOT modelled: they only remove
    schedules, so every statement proved for all schedules of this machine holds for the schedules Go
    can produce.
  * A **schedule** is a list of thread ids.  Every schedule is executable: an entry naming a thread that
    cannot move (no such thread, nothing left to do, or its acquire is not enabled) is *skipped* (the
    configuration is unchanged but for a `skip` event), which over-approximates blocking.  A schedule is
    *complete* if after it every thread has finished all its calls.
  * The machine records a **trace**, one event per schedule entry, so "time" is the position in the
    schedule: `acq t k` / `rel t k` are the acquire / release of the `k`-th call of thread `t`.

  Core Lean only; everything is executable.
-/
namespace Manticore.RWLock

inductive Mode | read | write
  deriving DecidableEq, Repr, Inhabited

/-! ## the lock -/

/-- state of a `sync.RWMutex` as far as safety goes: number of read holders, "a writer holds it" -/
structure Lock where
  readers : Nat
  writer : Bool
  deriving DecidableEq, Repr, Inhabited

def Lock.free : Lock := ⟨0, false⟩

/-- `Lock()` proceeds iff nobody holds the lock; `RLock()` proceeds iff no writer holds it -/
def Lock.canAcquire (l : Lock) : Mode → Bool
  | .write => l.readers == 0 && !l.writer
  | .read => !l.writer

def Lock.acquire (l : Lock) : Mode → Lock
  | .write => { l with writer := true }
  | .read => { l with readers := l.readers + 1 }

/-- `Unlock()` / `RUnlock()` -/
def Lock.release (l : Lock) : Mode → Lock
  | .write => { l with writer := false }
  | .read => { l with readers := l.readers - 1 }

/-! ## calls -/

/-- a micro-step as the machine runs it: sees the call's observations so far and the shared state,
    yields the new shared state and one more observation -/
abbrev Step (σ ω : Type) := List ω → σ → σ × ω

/-- a critical section as the machine runs it: lock mode and body are independent -/
structure RawCall (σ ω ρ : Type) where
  mode : Mode
  steps : List (Step σ ω)
  result : List ω → ρ

/-- a critical section that keeps the discipline by construction: under the read lock only reads -/
inductive Call (σ ω ρ : Type)
  | reader (steps : List (List ω → σ → ω)) (result : List ω → ρ)
  | writer (steps : List (List ω → σ → σ × ω)) (result : List ω → ρ)

def Call.mode {σ ω ρ : Type} : Call σ ω ρ → Mode
  | .reader _ _ => .read
  | .writer _ _ => .write

/-- a read as a micro-step of the machine: the shared state is handed back untouched -/
def readStep {σ ω : Type} (f : List ω → σ → ω) : Step σ ω := fun obs s => (s, f obs s)

def Call.raw {σ ω ρ : Type} : Call σ ω ρ → RawCall σ ω ρ
  | .reader steps res => ⟨.read, steps.map readStep, res⟩
  | .writer steps res => ⟨.write, steps, res⟩

/-- run micro-steps one after the other with nothing in between -/
def runSteps {σ ω : Type} : List (Step σ ω) → List ω → σ → σ × List ω
  | [], obs, s => (s, obs)
  | f :: fs, obs, s => runSteps fs (obs ++ [(f obs s).2]) (f obs s).1

/-- finish a critical section alone from a point inside it -/
def finishFrom {σ ω ρ : Type} (result : List ω → ρ) (rem : List (Step σ ω)) (obs : List ω) (s : σ) : σ × ρ :=
  ((runSteps rem obs s).1, result (runSteps rem obs s).2)

/-- **sequential meaning of a call**: the whole critical section at once -/
def RawCall.exec {σ ω ρ : Type} (c : RawCall σ ω ρ) (s : σ) : σ × ρ := finishFrom c.result c.steps [] s

def Call.exec {σ ω ρ : Type} (c : Call σ ω ρ) (s : σ) : σ × ρ := c.raw.exec s

/-! ## the machine -/

/-- a thread: its calls (never changes), where it is inside the current call (`none` = outside any
    critical section; `some (rem, obs)` = holds the lock, `rem` micro-steps to go, `obs` observed so far),
    the results of its completed calls.  The current call is `calls[done.length]`. -/
structure Thread (σ ω ρ : Type) where
  calls : List (RawCall σ ω ρ)
  cur : Option (List (Step σ ω) × List ω)
  done : List ρ

/-- identifies a call: thread, index in the thread's program -/
abbrev CallId := Nat × Nat

inductive Event
  | acq (t k : Nat)     -- thread `t` acquired the lock for its `k`-th call
  | rel (t k : Nat)     -- … released it (the call's result is determined)
  | step (t : Nat)      -- a micro-step inside a critical section
  | skip (t : Nat)      -- the scheduled thread could not move
  deriving DecidableEq, Repr, Inhabited

structure Config (σ ω ρ : Type) where
  shared : σ
  lock : Lock
  threads : List (Thread σ ω ρ)
  trace : List Event

abbrev Program (σ ω ρ : Type) := List (List (RawCall σ ω ρ))

def Config.init {σ ω ρ : Type} (P : Program σ ω ρ) (s0 : σ) : Config σ ω ρ :=
  ⟨s0, Lock.free, P.map (fun calls => ⟨calls, none, []⟩), []⟩

/-- what thread `t` does when scheduled (`none` = cannot move) -/
def Thread.next {σ ω ρ : Type} (th : Thread σ ω ρ) (t : Nat) (l : Lock) (s : σ) :
    Option (Thread σ ω ρ × Lock × σ × Event) :=
  match th.calls[th.done.length]? with
  | none => none                                            -- all calls done
  | some c =>
    match th.cur with
    | none =>                                               -- acquire, if the lock allows
      if l.canAcquire c.mode then
        some ({ th with cur := some (c.steps, []) }, l.acquire c.mode, s, .acq t th.done.length)
      else none
    | some (f :: rem, obs) =>                               -- one micro-step
      some ({ th with cur := some (rem, obs ++ [(f obs s).2]) }, l, (f obs s).1, .step t)
    | some ([], obs) =>                                     -- release; the result is fixed
      some ({ th with cur := none, done := th.done ++ [c.result obs] }, l.release c.mode, s,
            .rel t th.done.length)

/-- one schedule entry -/
def Config.step {σ ω ρ : Type} (cfg : Config σ ω ρ) (t : Nat) : Config σ ω ρ :=
  match cfg.threads[t]? with
  | none => { cfg with trace := cfg.trace ++ [.skip t] }
  | some th =>
    match th.next t cfg.lock cfg.shared with
    | none => { cfg with trace := cfg.trace ++ [.skip t] }
    | some (th', l', s', e) => ⟨s', l', cfg.threads.set t th', cfg.trace ++ [e]⟩

/-- run a schedule -/
def run {σ ω ρ : Type} (P : Program σ ω ρ) (s0 : σ) (sched : List Nat) : Config σ ω ρ :=
  sched.foldl Config.step (Config.init P s0)

/-- thread is outside any critical section and has no call left -/
def Thread.finished {σ ω ρ : Type} (th : Thread σ ω ρ) : Bool :=
  th.cur.isNone && decide (th.calls.length ≤ th.done.length)

/-- the schedule was complete: every thread finished -/
def Config.Complete {σ ω ρ : Type} (cfg : Config σ ω ρ) : Prop := cfg.threads.all Thread.finished = true

instance {σ ω ρ : Type} (cfg : Config σ ω ρ) : Decidable cfg.Complete :=
  inferInstanceAs (Decidable (cfg.threads.all Thread.finished = true))

/-- the lock mode under which a thread is inside a critical section, if it is -/
def Thread.inside {σ ω ρ : Type} (th : Thread σ ω ρ) : Option Mode :=
  match th.cur, th.calls[th.done.length]? with
  | some _, some c => some c.mode
  | _, _ => none

/-- result the run gave to a call (`none`: not completed) -/
def Config.resultOf {σ ω ρ : Type} (cfg : Config σ ω ρ) (id : CallId) : Option ρ :=
  (cfg.threads[id.1]?).bind (fun th => th.done[id.2]?)

/-- time (position in the schedule) of a call's acquire / release; `trace.length` if it never happened -/
def Config.acqTime {σ ω ρ : Type} (cfg : Config σ ω ρ) (id : CallId) : Nat := cfg.trace.idxOf (.acq id.1 id.2)
def Config.relTime {σ ω ρ : Type} (cfg : Config σ ω ρ) (id : CallId) : Nat := cfg.trace.idxOf (.rel id.1 id.2)

/-- **linearization order**: the calls in the order of their acquire events -/
def acqLog : List Event → List CallId
  | [] => []
  | .acq t k :: es => (t, k) :: acqLog es
  | _ :: es => acqLog es

/-! ## sequential execution: one whole critical section at a time -/

def callAt {σ ω ρ : Type} (P : Program σ ω ρ) (id : CallId) : Option (RawCall σ ω ρ) :=
  (P[id.1]?).bind (fun calls => calls[id.2]?)

/-- every call of the program, thread by thread -/
def allCalls {σ ω ρ : Type} (P : Program σ ω ρ) : List CallId :=
  (List.range P.length).flatMap (fun t => (List.range (P[t]?.getD []).length).map (fun k => (t, k)))

def seqStep {σ ω ρ : Type} (P : Program σ ω ρ) (acc : σ × List (CallId × ρ)) (id : CallId) : σ × List (CallId × ρ) :=
  match callAt P id with
  | none => acc
  | some c => ((c.exec acc.1).1, acc.2 ++ [(id, (c.exec acc.1).2)])

/-- run the calls named by `order` one after the other, each as one atomic `exec`:
    final shared state and the result of each call -/
def seqRun {σ ω ρ : Type} (P : Program σ ω ρ) (s0 : σ) (order : List CallId) : σ × List (CallId × ρ) :=
  order.foldl (seqStep P) (s0, [])

/-- a program of disciplined calls, as the machine runs it -/
def compile {σ ω ρ : Type} (P : List (List (Call σ ω ρ))) : Program σ ω ρ := P.map (fun calls => calls.map Call.raw)

end Manticore.RWLock
