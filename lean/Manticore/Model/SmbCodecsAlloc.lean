/-
  C07, allocation clause: what the nested decoders of the SMB commands allocate.

  `SMB_STRING.Unmarshal` is the one nested decoder with a `make` whose size is read from the wire:
  `s.Buffer = make([]UCHAR, s.Length)` (formats 0x01, 0x03, 0x05: behind `len(buffer) < int(s.Length)+3[+1]`)
  and `make([]UCHAR, nullPos-1)` (formats 0x02, 0x04: behind the scan for the terminator).
  `SmbString.allocOf` follows those statements: the size of the `make` when it is reached, 0 when
  the function returns before it.  Were the `make` moved in front of its length check the function
  would return `len` there too, and `allocOf_le` would be false (witness below).

  `stdAlloc` is the cost table of `SmbCodecs.std`: 8 per number of the flattened value, the fixed
  arrays (`ServerState`, `ClientState`, the 14-byte file-name window), and `allocOf` of the window.
  Core Lean only.
-/
import Manticore.Model.SmbCodecs
import Manticore.Model.SmbAlloc
namespace Manticore.C06.SmbString
open Manticore

/-- formats 0x01, 0x05 (`extra = 0`) and 0x03 (`extra = 1`): `make([]UCHAR, s.Length)` behind both length checks -/
def countedAlloc (b : Bytes) (extra : Nat) : Nat :=
  if b.length < 3 then 0
  else match rdLe16 b 1 with
    | .ok len => if b.length < len.toNat + 3 + extra then 0 else len.toNat
    | _ => 0

/-- formats 0x02, 0x04: `make([]UCHAR, nullPos-1)` once a terminator was found -/
def terminatedAlloc (b : Bytes) : Nat :=
  match nulIndex (b.drop 1) with
  | none => 0
  | some i => i

/-- bytes `SMB_STRING.Unmarshal` allocates for `Buffer` on input `b` -/
def allocOf (b : Bytes) : Nat :=
  match b with
  | [] => 0
  | f :: _ =>
    if f = 1 then countedAlloc b 0
    else if f = 2 then terminatedAlloc b
    else if f = 3 then countedAlloc b 1
    else if f = 4 then terminatedAlloc b
    else if f = 5 then countedAlloc b 0
    else 0

/-- the defect the clause is about, as a model: the `make` in front of the second length check -/
def countedAllocEager (b : Bytes) : Nat :=
  if b.length < 3 then 0
  else match rdLe16 b 1 with
    | .ok len => len.toNat
    | _ => 0

end Manticore.C06.SmbString

namespace Manticore.SmbCodecs
open Manticore Manticore.SmbIR Manticore.C06

/-- cost of `std.dec typ w` -/
def stdAlloc (typ : String) (w : Bytes) : Nat :=
  match typ with
  | "SMB_STRING" => 16 + SmbString.allocOf w
  | "OEM_STRING" => 16 + SmbString.allocOf w
  | "SMB_DATE" => 24
  | "SMB_TIME" => 16
  | "FILETIME" => 16
  | "SMB_FILE_ATTRIBUTES" => 8
  | "SMB_NMPIPE_STATUS" => 16
  | "LOCKING_ANDX_RANGE64" => 48
  | "SMB_RESUME_KEY" => 44 + SmbString.allocOf w                   -- 3 numbers, [16]UCHAR, [4]UCHAR, the string
  | "SMB_DIRECTORY_INFORMATION" => 130 + SmbString.allocOf w       -- 12 numbers, the resume key's arrays, 14 bytes of file name
  | "Dialects" => w.length                                         -- the names are pieces of the window
  | _ => 0

/-- the constant of `AllocCodecs std stdAlloc` -/
def stdAllocConst : Nat := 130

end Manticore.SmbCodecs
