/-
  C09 — model of the LLMNR codec: `network/llmnr/domain_name.go` (ValidateDomainName,
  EncodeDomainName, DecodeDomainName), `question.go`, `ressource_record.go`, `message.go`
  (Message.Encode, DecodeMessage), following the Go control flow of the tree *with* the three
  repairs fixes/C09-*.diff applied (authority/additional sections; strict EncodeDomainName; pointer
  to the root label).

  Go strings are byte lists.  Offsets are `Nat` (the exported `offset int` parameters are assumed
  non-negative; DecodeMessage only ever passes offsets ≥ 12).
  The specification (RFC 1035 wire grammar, serializer with compression, reader) is
  `Manticore/Spec/DNS.lean`; this file adds the LLMNR text form of names and the map from a
  specification message to the Go struct.
-/
import Manticore.Basic
import Manticore.Prims.Dots
import Manticore.Spec.DNS
namespace Manticore.C09
open Manticore

/-! ## names -/

/-- `ValidateDomainName`: true = `nil` -/
def validateName (name : Bytes) : Bool :=
  if name.length > 255 then false
  else (splitDots name).all (fun l => !(l.length > 63))

/-- the loop of `EncodeDomainName` over the split labels -/
def encodeLabels : List Bytes → Bytes → Outcome Bytes
  | [], buf => .ok buf
  | l :: ls, buf =>
    if l.length = 0 then .err            -- ErrEmptyLabel
    else if l.length > 63 then .err      -- ErrLabelTooLong
    else encodeLabels ls (buf ++ UInt8.ofNat l.length :: l)

/-- `EncodeDomainName` -/
def encodeName (name : Bytes) : Outcome Bytes :=
  if name = [] ∨ name = [dot] then .ok [0]
  else
    match encodeLabels (splitDots name) [] with
    | .ok buf => if buf.length + 1 > 255 then .err else .ok (buf ++ [0])   -- ErrNameTooLong
    | .err => .err
    | .panic => .panic

/-- `int(binary.BigEndian.Uint16(data[curr:]) & 0x3FFF)` -/
def ptrOf (b0 b1 : UInt8) : Nat := (be16 b0 b1 &&& 0x3FFF).toNat

/-- `DecodeDomainName(data, offset)` with its `for` loop turned into recursion on the cursor:
    `start` = the offset the current invocation was entered with, `curr` = cursor, `labels` = the
    labels collected by this invocation.  The recursive invocation for a pointer re-enters with
    `start = curr = pointer` and no labels, as the Go code calls itself.  Every index expression
    `data[i]` carries the proof that the guards before it keep it in range.
    Result: (name, new offset, bytes of string data allocated: label copies, `strings.Join` results
    and concatenations).

    Lean accepts this definition with the measure `(start, len − curr)`: that is the proof that
    decoding terminates on every input.  It rests on the guard `pointer >= start → error`. -/
def go (data : Bytes) (start curr : Nat) (labels : List Bytes) (cost : Nat) : Outcome (Bytes × Nat × Nat) :=
  if h : data.length ≤ curr then .err                                   -- "truncated name"
  else
    if data[curr]'(by omega) = 0 then
      if labels = [] then .ok ([dot], curr + 1, cost)
      else .ok (joinDots labels, curr + 1, cost + (joinDots labels).length)
    else if data[curr]'(by omega) &&& 0xC0 = 0xC0 then
      if h1 : data.length ≤ curr + 1 then .err                          -- "truncated pointer"
      else
        if _hp : start ≤ ptrOf (data[curr]'(by omega)) (data[curr+1]'(by omega)) then .err   -- "invalid pointer"
        else
          match go data (ptrOf (data[curr]'(by omega)) (data[curr+1]'(by omega)))
                        (ptrOf (data[curr]'(by omega)) (data[curr+1]'(by omega))) [] 0 with
          | .ok (suffix, _, c) =>
            if labels = [] then .ok (suffix, curr + 2, cost + c)
            else if suffix = [dot] then .ok (joinDots labels, curr + 2, cost + c + (joinDots labels).length)
            else .ok (joinDots labels ++ dot :: suffix, curr + 2,
                      cost + c + (joinDots labels).length + (joinDots labels ++ dot :: suffix).length)
          | .err => .err
          | .panic => .panic
    else if data.length < curr + 1 + (data[curr]'(by omega)).toNat then .err   -- ErrLabelTooLong
    else go data start (curr + 1 + (data[curr]'(by omega)).toNat)
           (labels ++ [(data.drop (curr + 1)).take (data[curr]'(by omega)).toNat])
           (cost + (data[curr]'(by omega)).toNat)
termination_by (start, data.length - curr)
decreasing_by
  · apply Prod.Lex.left; omega
  · apply Prod.Lex.right; omega

/-- `DecodeDomainName` with the allocation count -/
def decodeNameC (data : Bytes) (offset : Nat) : Outcome (Bytes × Nat × Nat) :=
  if data.length ≤ offset then .err else go data offset offset [] 0

/-- `DecodeDomainName`: (name, new offset) -/
def decodeName (data : Bytes) (offset : Nat) : Outcome (Bytes × Nat) :=
  match decodeNameC data offset with
  | .ok (n, next, _) => .ok (n, next)
  | .err => .err
  | .panic => .panic

/-! ## questions, records, messages -/

structure Question where
  name : Bytes
  qtype : UInt16
  qclass : UInt16
  deriving DecidableEq, Repr

structure RR where
  name : Bytes
  rtype : UInt16
  rclass : UInt16
  ttl : UInt32
  rdlength : UInt16
  rdata : Bytes
  deriving DecidableEq, Repr

structure Header where
  id : UInt16
  flags : UInt16
  qdcount : UInt16
  ancount : UInt16
  nscount : UInt16
  arcount : UInt16
  deriving DecidableEq, Repr

structure Message where
  hdr : Header
  questions : List Question
  answers : List RR
  authority : List RR
  additional : List RR
  deriving DecidableEq, Repr

/-- `EncodeQuestion` -/
def encodeQuestion (q : Question) : Outcome Bytes :=
  match encodeName q.name with
  | .ok nb => .ok (nb ++ putBe16 q.qtype ++ putBe16 q.qclass)
  | .err => .err
  | .panic => .panic

/-- `EncodeResourceRecord` (`rr.RDLength = uint16(len(rr.RData))` overrides the field) -/
def encodeRR (r : RR) : Outcome Bytes :=
  match encodeName r.name with
  | .ok nb => .ok (nb ++ putBe16 r.rtype ++ putBe16 r.rclass ++ putBe32 r.ttl
                    ++ putBe16 (UInt16.ofNat r.rdata.length) ++ r.rdata)
  | .err => .err
  | .panic => .panic

/-- `for _, x := range xs { b, err := enc(x); if err != nil { return nil, err }; packet = append(packet, b...) }` -/
def encodeAll {α} (enc : α → Outcome Bytes) : List α → Bytes → Outcome Bytes
  | [], packet => .ok packet
  | x :: xs, packet =>
    match enc x with
    | .ok b => encodeAll enc xs (packet ++ b)
    | .err => .err
    | .panic => .panic

/-- `Message.Encode`: the four counts are recomputed from the slices (`uint16(len(..))`) -/
def encodeMessage (m : Message) : Outcome Bytes :=
  let packet := putBe16 m.hdr.id ++ putBe16 m.hdr.flags ++ putBe16 (UInt16.ofNat m.questions.length)
    ++ putBe16 (UInt16.ofNat m.answers.length) ++ putBe16 (UInt16.ofNat m.authority.length)
    ++ putBe16 (UInt16.ofNat m.additional.length)
  match encodeAll encodeQuestion m.questions packet with
  | .ok p1 =>
    match encodeAll encodeRR m.answers p1 with
    | .ok p2 =>
      match encodeAll encodeRR m.authority p2 with
      | .ok p3 => encodeAll encodeRR m.additional p3
      | .err => .err
      | .panic => .panic
    | .err => .err
    | .panic => .panic
  | .err => .err
  | .panic => .panic

/-- `binary.BigEndian.Uint16(data[off:])`: the slice expression panics when `off > len`, the read
    panics when fewer than two bytes remain -/
def readBe16 (data : Bytes) (off : Nat) : Outcome UInt16 :=
  match sliceFrom data off with
  | .ok (a :: b :: _) => .ok (be16 a b)
  | .ok _ => .panic
  | .err => .err
  | .panic => .panic

def readBe32 (data : Bytes) (off : Nat) : Outcome UInt32 :=
  match sliceFrom data off with
  | .ok (a :: b :: c :: d :: _) => .ok (be32 a b c d)
  | .ok _ => .panic
  | .err => .err
  | .panic => .panic

/-- `DecodeQuestion` -/
def decodeQuestion (data : Bytes) (offset : Nat) : Outcome (Question × Nat) :=
  match decodeName data offset with
  | .ok (name, off) =>
    if off + 4 > data.length then .err                                 -- "truncated question"
    else
      match readBe16 data off, readBe16 data (off + 2) with
      | .ok t, .ok c => .ok ({ name := name, qtype := t, qclass := c }, off + 4)
      | .err, _ => .err
      | _, .err => .err
      | _, _ => .panic
  | .err => .err
  | .panic => .panic

/-- `DecodeResourceRecord` -/
def decodeRR (data : Bytes) (offset : Nat) : Outcome (RR × Nat) :=
  match decodeName data offset with
  | .ok (name, off) =>
    if off + 10 > data.length then .err                                -- "truncated resource record"
    else
      match readBe16 data off, readBe16 data (off + 2), readBe32 data (off + 4), readBe16 data (off + 8) with
      | .ok t, .ok c, .ok ttl, .ok rdl =>
        if off + 10 + rdl.toNat > data.length then .err                -- "truncated rdata"
        else
          match slice data (off + 10) (off + 10 + rdl.toNat) with
          | .ok rd => .ok ({ name := name, rtype := t, rclass := c, ttl := ttl, rdlength := rdl, rdata := rd },
                          off + 10 + rdl.toNat)
          | .err => .err
          | .panic => .panic
      | _, _, _, _ => .panic
  | .err => .err
  | .panic => .panic

/-- `for i := uint16(0); i < count; i++ { x, offset, err = dec(data, offset); …; xs = append(xs, x) }` -/
def decodeMany {α} (dec : Bytes → Nat → Outcome (α × Nat)) (data : Bytes) : Nat → Nat → Outcome (List α × Nat)
  | 0, off => .ok ([], off)
  | n+1, off =>
    match dec data off with
    | .ok (x, off') =>
      match decodeMany dec data n off' with
      | .ok (xs, o) => .ok (x :: xs, o)
      | .err => .err
      | .panic => .panic
    | .err => .err
    | .panic => .panic

/-- `DecodeMessage` -/
def decodeMessage (data : Bytes) : Outcome Message :=
  if data.length < 12 then .err                                        -- "message too short"
  else
    match readBe16 data 0, readBe16 data 2, readBe16 data 4, readBe16 data 6, readBe16 data 8, readBe16 data 10 with
    | .ok id, .ok fl, .ok qd, .ok an, .ok ns, .ok ar =>
      match decodeMany decodeQuestion data qd.toNat 12 with
      | .ok (qs, o1) =>
        match decodeMany decodeRR data an.toNat o1 with
        | .ok (as, o2) =>
          match decodeMany decodeRR data ns.toNat o2 with
          | .ok (nss, o3) =>
            match decodeMany decodeRR data ar.toNat o3 with
            | .ok (ars, _) =>
              .ok { hdr := { id := id, flags := fl, qdcount := qd, ancount := an, nscount := ns, arcount := ar },
                    questions := qs, answers := as, authority := nss, additional := ars }
            | .err => .err
            | .panic => .panic
          | .err => .err
          | .panic => .panic
        | .err => .err
        | .panic => .panic
      | .err => .err
      | .panic => .panic
    | _, _, _, _, _, _ => .panic

/-! ## relating the Go structs to the specification's messages -/

open Spec.DNS in
/-- LLMNR text form of a name: labels joined by dots; the root name is "." (what
    `DecodeDomainName` returns for it; `EncodeDomainName` also accepts "") -/
def text : Spec.DNS.Name → Bytes
  | [] => [dot]
  | ls => joinDots ls

/-- the name a Go string denotes: "" and "." are the root, anything else its dot-separated labels -/
def nameOfText (s : Bytes) : Spec.DNS.Name :=
  if s = [] ∨ s = [dot] then [] else splitDots s

/-- a name the property speaks about: RFC 1035 valid and no dot inside a label -/
def ValidName (n : Spec.DNS.Name) : Prop := Spec.DNS.ValidName n ∧ ∀ l ∈ n, dot ∉ l
instance (n : Spec.DNS.Name) : Decidable (ValidName n) := by unfold ValidName; exact inferInstance

def NoDots (n : Spec.DNS.Name) : Prop := ∀ l ∈ n, dot ∉ l
instance (n : Spec.DNS.Name) : Decidable (NoDots n) := by unfold NoDots; exact inferInstance

/-- no label of any name of the message contains a dot -/
def MsgNoDots (m : Spec.DNS.Message) : Prop :=
  (∀ q ∈ m.qd, NoDots q.name) ∧ (∀ r ∈ m.an, NoDots r.name) ∧ (∀ r ∈ m.ns, NoDots r.name) ∧ (∀ r ∈ m.ar, NoDots r.name)
instance (m : Spec.DNS.Message) : Decidable (MsgNoDots m) := by unfold MsgNoDots; exact inferInstance

/-- a message the property speaks about -/
def ValidMessage (m : Spec.DNS.Message) : Prop := Spec.DNS.ValidMessage m ∧ MsgNoDots m
instance (m : Spec.DNS.Message) : Decidable (ValidMessage m) := by unfold ValidMessage; exact inferInstance

def toQuestion (q : Spec.DNS.Question) : Question := { name := text q.name, qtype := q.qtype, qclass := q.qclass }
def toRR (r : Spec.DNS.RR) : RR :=
  { name := text r.name, rtype := r.rtype, rclass := r.rclass, ttl := r.ttl,
    rdlength := UInt16.ofNat r.rdata.length, rdata := r.rdata }

/-- the Go `Message` holding the content `m` (counts and RDLength as `Encode`/`DecodeMessage` leave them) -/
def toModel (m : Spec.DNS.Message) : Message :=
  { hdr := { id := m.id, flags := m.flags, qdcount := UInt16.ofNat m.qd.length, ancount := UInt16.ofNat m.an.length,
             nscount := UInt16.ofNat m.ns.length, arcount := UInt16.ofNat m.ar.length },
    questions := m.qd.map toQuestion, answers := m.an.map toRR, authority := m.ns.map toRR,
    additional := m.ar.map toRR }

/-- what `Encode` makes of the count fields and RDLength: they are recomputed -/
def canonRR (r : RR) : RR := { r with rdlength := UInt16.ofNat r.rdata.length }
def canon (m : Message) : Message :=
  { m with hdr := { m.hdr with qdcount := UInt16.ofNat m.questions.length, ancount := UInt16.ofNat m.answers.length,
                               nscount := UInt16.ofNat m.authority.length, arcount := UInt16.ofNat m.additional.length },
           answers := m.answers.map canonRR, authority := m.authority.map canonRR, additional := m.additional.map canonRR }

end Manticore.C09
