/-
  C20 — model of `network/ip/{ipv4,ipv6,range,tcp_port}.go` and
  `windows/credentials/credentials.go: ParseLMNTHashes`, following the Go control flow, with the
  pieces of `strconv`, `fmt`, `strings` and `regexp` they rely on modelled on bytes; and the
  specifications in plain arithmetic (`Spec.*`).

  The model is of the tree with the patches `fixes/C20-*.diff` applied
  (IPv4 parsing, `IsInSubnet`, trimming in `ParseLMNTHashes` and `NewTCPPortRangeFromString`).
-/
import Manticore.Basic
namespace Manticore.C20
open Manticore

/-! ## text primitives -/

/-- `strings.Split(s, sep)` for a one-byte separator (always at least one part, as in Go) -/
def splitOn (sep : UInt8) : Bytes → List Bytes
  | [] => [[]]
  | c :: rest =>
    if c = sep then [] :: splitOn sep rest
    else match splitOn sep rest with
      | [] => [[c]]
      | p :: ps => (c :: p) :: ps

/-- `strings.Contains(s, string(c))` -/
def containsByte (c : UInt8) (s : Bytes) : Bool := s.any (· == c)

/-- value of a digit character in `strconv.ParseUint` (bases up to 36) -/
def digitVal (c : UInt8) : Option Nat :=
  if 48 ≤ c ∧ c ≤ 57 then some (c.toNat - 48)
  else if 97 ≤ c ∧ c ≤ 122 then some (c.toNat - 97 + 10)
  else if 65 ≤ c ∧ c ≤ 90 then some (c.toNat - 65 + 10)
  else none

/-- left-to-right accumulation of the digits; `none` on a character that is not a digit of the base -/
def accDigits (base : Nat) : Bytes → Nat → Option Nat
  | [], acc => some acc
  | c :: rest, acc =>
    match digitVal c with
    | some d => if d < base then accDigits base rest (acc * base + d) else none
    | none => none

/-- `strconv.ParseUint(s, base, bits)` for an explicit base (no sign, no prefix, no underscores):
    `none` stands for a returned error (syntax or range). -/
def parseUint (base bits : Nat) (s : Bytes) : Option Nat :=
  if s.isEmpty then none
  else match accDigits base s 0 with
    | some v => if v < 2 ^ bits then some v else none
    | none => none

/-- the character `fmt` prints for a digit (`%d`, lower-case `%x`) -/
def digitChar (d : Nat) : UInt8 := if d < 10 then UInt8.ofNat (48 + d) else UInt8.ofNat (87 + d)

/-- digits of `n` in base `b`, least significant first, at least one digit (`fuel` bounds the
    number of digits; structural recursion keeps the function evaluable by the kernel) -/
def lsdAux (b : Nat) : Nat → Nat → List Nat
  | 0, n => [n]
  | fuel+1, n => if n < b then [n] else (n % b) :: lsdAux b fuel (n / b)

def lsd (b n : Nat) : List Nat := lsdAux b n n

/-- `fmt.Sprintf("%d", n)` (base 10) / `fmt.Sprintf("%x", n)` (base 16) for an unsigned `n` -/
def showNum (b n : Nat) : Bytes := ((lsd b n).reverse).map digitChar

def dec (n : Nat) : Bytes := showNum 10 n
def hex (n : Nat) : Bytes := showNum 16 n

/-! ### `strings.TrimSpace` on bytes

Go trims Unicode white space, decoding UTF-8 forwards from the left and backwards from the right.
A rune is white space exactly when its (shortest-form) encoding is one of: the six ASCII bytes,
`C2 85`, `C2 A0`, `E1 9A 80`, `E2 80 80..8A`, `E2 80 A8/A9/AF`, `E2 81 9F`, `E3 80 80`; any other
byte sequence (including invalid UTF-8) decodes to a non-space rune and stops the trimming. -/

def isAsciiSpace (c : UInt8) : Bool := c == 9 || c == 10 || c == 11 || c == 12 || c == 13 || c == 32
def isSpace2 (a b : UInt8) : Bool := a == 0xC2 && (b == 0x85 || b == 0xA0)
def isSpace3 (a b c : UInt8) : Bool :=
  (a == 0xE1 && b == 0x9A && c == 0x80) ||
  (a == 0xE2 && b == 0x80 && ((0x80 ≤ c && c ≤ 0x8A) || c == 0xA8 || c == 0xA9 || c == 0xAF)) ||
  (a == 0xE2 && b == 0x81 && c == 0x9F) ||
  (a == 0xE3 && b == 0x80 && c == 0x80)

/-- strip white-space runes from the front; `p2`/`p3` recognise the 2- and 3-byte encodings -/
def trimGen (p2 : UInt8 → UInt8 → Bool) (p3 : UInt8 → UInt8 → UInt8 → Bool) : Bytes → Bytes
  | [] => []
  | a :: r1 =>
    if isAsciiSpace a then trimGen p2 p3 r1 else
    match r1 with
    | [] => [a]
    | b :: r2 =>
      if p2 a b then trimGen p2 p3 r2 else
      match r2 with
      | [] => [a, b]
      | c :: r3 => if p3 a b c then trimGen p2 p3 r3 else a :: b :: c :: r3

/-- `strings.TrimLeftFunc(s, unicode.IsSpace)` -/
def trimLeft (s : Bytes) : Bytes := trimGen isSpace2 isSpace3 s
/-- `strings.TrimRightFunc(s, unicode.IsSpace)`, computed on the reversed string (last rune first) -/
def trimRight (s : Bytes) : Bytes :=
  (trimGen (fun a b => isSpace2 b a) (fun a b c => isSpace3 c b a) s.reverse).reverse
/-- `strings.TrimSpace` -/
def trimSpace (s : Bytes) : Bytes := trimRight (trimLeft s)

/-! ## IPv4 -/

structure IPv4 where
  a : UInt8
  b : UInt8
  c : UInt8
  d : UInt8
  m : UInt8
  deriving DecidableEq, Repr

def dotB : UInt8 := 46
def slashB : UInt8 := 47
def colonB : UInt8 := 58
def dashB : UInt8 := 45

/-- `IPv4.String()` / `CIDRAddress()`: `fmt.Sprintf("%d.%d.%d.%d/%d", …)` -/
def printIPv4 (i : IPv4) : Bytes :=
  dec i.a.toNat ++ [dotB] ++ dec i.b.toNat ++ [dotB] ++ dec i.c.toNat ++ [dotB] ++ dec i.d.toNat ++
    [slashB] ++ dec i.m.toNat

/-- `strconv.ParseUint(x, 10, 8)` with the error mapped to "return nil" -/
def octet (x : Bytes) : Option UInt8 := (parseUint 10 8 x).map UInt8.ofNat

/-- `NewIPv4FromString` (patched): `ok none` is the `nil` result.  Index expressions are modelled
    with their bounds checks. -/
def parseIPv4 (s : Bytes) : Outcome (Option IPv4) :=
  let parts := splitOn slashB s
  if parts.length = 2 then do
    let p1 ← index parts 1
    match parseUint 10 8 p1 with
    | none => pure none
    | some maskBits =>
      if maskBits > 32 then pure none else do
      let p0 ← index parts 0
      let octets := splitOn dotB p0
      if octets.length ≠ 4 then pure none else do
      let o0 ← index octets 0
      match octet o0 with
      | none => pure none
      | some a => do
      let o1 ← index octets 1
      match octet o1 with
      | none => pure none
      | some b => do
      let o2 ← index octets 2
      match octet o2 with
      | none => pure none
      | some c => do
      let o3 ← index octets 3
      match octet o3 with
      | none => pure none
      | some d => pure (some ⟨a, b, c, d, UInt8.ofNat maskBits⟩)
  else pure none

/-- `ToUInt32` -/
def toUInt32 (i : IPv4) : UInt32 :=
  (i.a.toUInt32 <<< 24) ||| (i.b.toUInt32 <<< 16) ||| (i.c.toUInt32 <<< 8) ||| i.d.toUInt32

/-- Go's `x << n` for an unsigned count: all bits are shifted out when `n ≥ 32`
    (Lean's `<<<` on `UInt32` would reduce the count modulo 32) -/
def goShl32 (x : UInt32) (n : UInt8) : UInt32 := if n.toNat ≥ 32 then 0 else x <<< n.toUInt32

/-- `uint32(0xFFFFFFFF) << (32 - MaskBits)`; the subtraction is in `uint8` and wraps for `MaskBits > 32` -/
def maskOf (m : UInt8) : UInt32 := goShl32 0xFFFFFFFF (32 - m)

/-- `ComputeMask` -/
def computeMask (i : IPv4) : IPv4 :=
  let masked := toUInt32 i &&& maskOf i.m
  ⟨((masked >>> 24) &&& 0xFF).toUInt8, ((masked >>> 16) &&& 0xFF).toUInt8,
   ((masked >>> 8) &&& 0xFF).toUInt8, (masked &&& 0xFF).toUInt8, i.m⟩

/-- `CIDRMask()` -/
def cidrMask (i : IPv4) : Bytes := printIPv4 (computeMask i)

/-- `IsInSubnet` (patched) -/
def isInSubnet (i subnet : IPv4) : Bool :=
  (toUInt32 i &&& maskOf subnet.m) == (toUInt32 subnet &&& maskOf subnet.m)

/-- `IsInRange` / `IPv4Range.Contains` -/
def isInRange (i start stop : IPv4) : Bool :=
  toUInt32 i ≥ toUInt32 start && toUInt32 i ≤ toUInt32 stop

/-! ## IPv6 -/

structure IPv6 where
  a : UInt16
  b : UInt16
  c : UInt16
  d : UInt16
  e : UInt16
  f : UInt16
  g : UInt16
  h : UInt16
  deriving DecidableEq, Repr

def IPv6.groups (i : IPv6) : List UInt16 := [i.a, i.b, i.c, i.d, i.e, i.f, i.g, i.h]

/-- `IPv6.String()`: `fmt.Sprintf("%x:%x:%x:%x:%x:%x:%x:%x", …)` -/
def printIPv6 (i : IPv6) : Bytes :=
  hex i.a.toNat ++ [colonB] ++ hex i.b.toNat ++ [colonB] ++ hex i.c.toNat ++ [colonB] ++ hex i.d.toNat ++ [colonB] ++
  hex i.e.toNat ++ [colonB] ++ hex i.f.toNat ++ [colonB] ++ hex i.g.toNat ++ [colonB] ++ hex i.h.toNat

def group (x : Bytes) : Option UInt16 := (parseUint 16 16 x).map UInt16.ofNat

/-- `NewIPv6FromString` -/
def parseIPv6 (s : Bytes) : Outcome (Option IPv6) :=
  let parts := splitOn colonB s
  if parts.length = 8 then do
    let p0 ← index parts 0
    match group p0 with
    | none => pure none
    | some a => do
    let p1 ← index parts 1
    match group p1 with
    | none => pure none
    | some b => do
    let p2 ← index parts 2
    match group p2 with
    | none => pure none
    | some c => do
    let p3 ← index parts 3
    match group p3 with
    | none => pure none
    | some d => do
    let p4 ← index parts 4
    match group p4 with
    | none => pure none
    | some e => do
    let p5 ← index parts 5
    match group p5 with
    | none => pure none
    | some f => do
    let p6 ← index parts 6
    match group p6 with
    | none => pure none
    | some g => do
    let p7 ← index parts 7
    match group p7 with
    | none => pure none
    | some h => pure (some ⟨a, b, c, d, e, f, g, h⟩)
  else pure none

/-- `ToUInt128`: (high, low) -/
def toUInt128 (i : IPv6) : UInt64 × UInt64 :=
  ((i.a.toUInt64 <<< 48) ||| (i.b.toUInt64 <<< 32) ||| (i.c.toUInt64 <<< 16) ||| i.d.toUInt64,
   (i.e.toUInt64 <<< 48) ||| (i.f.toUInt64 <<< 32) ||| (i.g.toUInt64 <<< 16) ||| i.h.toUInt64)

/-- `IPv6.IsInSubnet`: array equality of the two halves (the type carries no prefix length) -/
def isInSubnet6 (i subnet : IPv6) : Bool :=
  (toUInt128 i).1 == (toUInt128 subnet).1 && (toUInt128 i).2 == (toUInt128 subnet).2

/-- `IPv6.IsInRange` / `IPv6Range.Contains` -/
def isInRange6 (i start stop : IPv6) : Bool :=
  let ip := toUInt128 i
  let s := toUInt128 start
  let e := toUInt128 stop
  (ip.1 > s.1 || (ip.1 == s.1 && ip.2 ≥ s.2)) && (ip.1 < e.1 || (ip.1 == e.1 && ip.2 ≤ e.2))

/-! ## TCP port ranges -/

/-- the regular expression literal of `NewTCPPortRangeFromString` that `isPortNum` / `portRangeMatch` below transliterate
    (compared with the literal in the current source by `consts_match_model_regexps`) -/
def portRangeRegexp : String :=
  "^\\s*(?:[0-9]|[1-9]\\d{1,3}|[1-5]\\d{4}|6[0-4]\\d{3}|65[0-4]\\d{2}|655[0-2]\\d|6553[0-5])\\s*-\\s*(?:[0-9]|[1-9]\\d{1,3}|[1-5]\\d{4}|6[0-4]\\d{3}|65[0-4]\\d{2}|655[0-2]\\d|6553[0-5])\\s*$"

/-- the regular expression literal of `ParseLMNTHashes` that `hashesMatch` transliterates -/
def lmntRegexp : String := "(?i)^([0-9a-f]{32})?(:[0-9a-f]{32})?$"

/-- `\s` of Go's `regexp` (RE2): `[\t\n\f\r ]` -/
def isReSpace (c : UInt8) : Bool := c == 9 || c == 10 || c == 12 || c == 13 || c == 32
def isDigit (c : UInt8) : Bool := 48 ≤ c && c ≤ 57

/-- the alternation `[0-9]|[1-9]\d{1,3}|[1-5]\d{4}|6[0-4]\d{3}|65[0-4]\d{2}|655[0-2]\d|6553[0-5]`
    on a string of digits -/
def inR (lo hi c : UInt8) : Bool := lo ≤ c && c ≤ hi
def isPortNum (ds : Bytes) : Bool :=
  match ds with
  | [a] => inR 48 57 a
  | [a, b] => inR 49 57 a && isDigit b
  | [a, b, c] => inR 49 57 a && isDigit b && isDigit c
  | [a, b, c, d] => inR 49 57 a && isDigit b && isDigit c && isDigit d
  | [a, b, c, d, e] =>
    (inR 49 53 a && isDigit b && isDigit c && isDigit d && isDigit e) ||
    (a == 54 && inR 48 52 b && isDigit c && isDigit d && isDigit e) ||
    (a == 54 && b == 53 && inR 48 52 c && isDigit d && isDigit e) ||
    (a == 54 && b == 53 && c == 53 && inR 48 50 d && isDigit e) ||
    (a == 54 && b == 53 && c == 53 && d == 51 && inR 48 53 e)
  | _ => false

/-- `^\s*N\s*-\s*N\s*$`: the pattern is deterministic on bytes (a number is a maximal digit run) -/
def portRangeMatch (s : Bytes) : Bool :=
  let s1 := s.dropWhile isReSpace
  let n1 := s1.takeWhile isDigit
  let s2 := (s1.dropWhile isDigit).dropWhile isReSpace
  match s2 with
  | c :: s3 =>
    if c == dashB then
      let s4 := s3.dropWhile isReSpace
      let n2 := s4.takeWhile isDigit
      let s5 := (s4.dropWhile isDigit).dropWhile isReSpace
      isPortNum n1 && isPortNum n2 && s5.isEmpty
    else false
  | [] => false

/-- `fmt.Sprintf("%d-%d", Start, End)` -/
def printPortRange (a b : UInt16) : Bytes := dec a.toNat ++ [dashB] ++ dec b.toNat

/-- `NewTCPPortRangeFromString` (patched: both parts are trimmed) -/
def parsePortRange (s : Bytes) : Outcome (UInt16 × UInt16) :=
  if !portRangeMatch s then .err else
  let parts := splitOn dashB s
  if parts.length = 2 then do
    let p0 ← index parts 0
    let p1 ← index parts 1
    let p0 := trimSpace p0
    let p1 := trimSpace p1
    let start ←
      if p0.length > 0 then
        match parseUint 10 16 p0 with
        | none => Outcome.err
        | some v => if v > 65535 then Outcome.err else pure v
      else pure 0
    let stop ←
      if p1.length > 0 then
        match parseUint 10 16 p1 with
        | none => Outcome.err
        | some v => if v > 65535 then Outcome.err else pure v
      else pure 65535
    pure (UInt16.ofNat start, UInt16.ofNat stop)
  else .err

/-! ## `LM:NT` hash specifications -/

def isHex (c : UInt8) : Bool := (48 ≤ c && c ≤ 57) || (97 ≤ c && c ≤ 102) || (65 ≤ c && c ≤ 70)
/-- `[0-9a-f]{32}` under `(?i)` -/
def isHash (h : Bytes) : Bool := h.length == 32 && h.all isHex

/-- `(:[0-9a-f]{32})?$` -/
def matchTail (t : Bytes) : Bool :=
  match t with
  | [] => true
  | c :: h => c == colonB && isHash h

/-- `(?i)^([0-9a-f]{32})?(:[0-9a-f]{32})?$` -/
def hashesMatch (t : Bytes) : Bool := matchTail t || (isHash (t.take 32) && matchTail (t.drop 32))

/-- `ParseLMNTHashes` after the (patched) initial `authHashes = strings.TrimSpace(authHashes)`;
    the value is `(lmHash, ntHash)` -/
def lmntCore (t : Bytes) : Outcome (Bytes × Bytes) :=
  if !hashesMatch t then .err else
  let t := if !containsByte colonB t then colonB :: t else t
  let parts := splitOn colonB t
  do
    let lm ← index parts 0
    let nt ← index parts 1
    let lm := if lm.length ≠ 32 then [] else lm
    let nt := if nt.length ≠ 32 then [] else nt
    pure (lm, nt)

/-- `ParseLMNTHashes` (patched: the input is trimmed first) -/
def parseLMNT (s : Bytes) : Outcome (Bytes × Bytes) := lmntCore (trimSpace s)

/-! ## Specifications (plain arithmetic; nothing below mentions the code) -/
namespace Spec

/-- the number an address denotes: `a.b.c.d` = a·2²⁴ + b·2¹⁶ + c·2⁸ + d -/
def v4 (a b c d : Nat) : Nat := a * 2^24 + b * 2^16 + c * 2^8 + d

/-- the network an address lies in under a prefix of `p` bits: clear the low `32 − p` bits -/
def network (v p : Nat) : Nat := v / 2^(32 - p) * 2^(32 - p)

/-- two addresses share their first `p` bits -/
def sameSubnet (v w p : Nat) : Prop := v / 2^(32 - p) = w / 2^(32 - p)

/-- the 128-bit number an IPv6 address denotes: groups are base-65536 digits, most significant first -/
def v6 (groups : List Nat) : Nat := groups.foldl (fun acc g => acc * 65536 + g) 0

/-- a valid hash: 32 hexadecimal digits of either case -/
def IsHash (h : Bytes) : Prop := h.length = 32 ∧ ∀ c ∈ h, isHex c = true

/-- white space: a concatenation of encodings of Unicode white-space runes -/
inductive Ws : Bytes → Prop
  | nil : Ws []
  | one (a : UInt8) (w : Bytes) : isAsciiSpace a = true → Ws w → Ws (a :: w)
  | two (a b : UInt8) (w : Bytes) : isSpace2 a b = true → Ws w → Ws (a :: b :: w)
  | three (a b c : UInt8) (w : Bytes) : isSpace3 a b c = true → Ws w → Ws (a :: b :: c :: w)

/-- ASCII lower-casing of one byte -/
def lower (c : UInt8) : UInt8 := if 65 ≤ c ∧ c ≤ 90 then c + 32 else c

/-- the meaning of a hash specification without padding: `lm:nt`, `:nt`, `nt`, or nothing -/
def lmnt (t : Bytes) : Option (Bytes × Bytes) :=
  if t.isEmpty then some ([], [])
  else if isHash t then some ([], t)
  else if t.head? == some colonB && isHash (t.drop 1) then some ([], t.drop 1)
  else if isHash (t.take 32) && (t.drop 32).head? == some colonB && isHash (t.drop 33) then
    some (t.take 32, t.drop 33)
  else none

end Spec

end Manticore.C20
