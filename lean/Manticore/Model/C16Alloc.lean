/-
  C07, allocation clause: what `ParseSIDFromBytes` and `GetDomainFromDistinguishedName` allocate.

  `network/ldap/sid.go: ParseSIDFromBytes` reads a sub-authority COUNT (one byte) from its input.
  It has no `make`; it grows `parts` with `append` in a loop driven by that count, and the loop
  stands behind `len(sidBytes) < 8+(4*subAuthorityCount)`.  `sidAllocOf` follows the statements in
  order: nothing in front of the two checks; behind them one 16-byte string header per element of
  `parts` (the first element and one `append` per announced sub-authority; the growth factor of
  `append`, at most 2, is not counted), the text of every `fmt.Sprintf`, and the string
  `strings.Join` builds.  `sidAllocEager` is the defect the clause is about: the slots reserved by
  the announced count in front of the length check.

  `network/ldap/utils.go: GetDomainFromDistinguishedName`: `splitDistinguishedName` appends one
  string header per comma-separated part (the parts are substrings, they share the input's bytes);
  the loop writes label and dot of every `DC=` part into one `strings.Builder` (`dnAllocOf`).  Before the
  repair it was `domain += strings.TrimPrefix(part, "DC=") + "."`, ONE NEW STRING PER `DC=` PART, each holding the
  whole domain so far: `dnAllocConcat` keeps that as the model of the defect.
  Core Lean only.
-/
import Manticore.Model.C16
namespace Manticore.C16
open Manticore

/-- bytes `ParseSIDFromBytes(b)` has allocated when it returns -/
def sidAllocOf (b : Bytes) : Nat :=
  match b with
  | r :: c :: b2 :: b3 :: b4 :: b5 :: b6 :: b7 :: _ =>
    if r != 1 then 0
    else if b.length < 8 + 4 * c.toNat then 0
    else
      16 * (1 + c.toNat) +
      match subLoop b 0 c.toNat ["S-" ++ toString r.toNat ++ "-" ++ toString (authority b2 b3 b4 b5 b6 b7).toNat] with
      | .ok parts => (parts.map String.length).sum + ("-".intercalate parts).length
      | _ => 0
  | _ => 0

/-- the defect, as a model: `parts` reserved for the announced count (`make([]string, 0, 1+count)`)
    in front of the check that the count fits the buffer -/
def sidAllocEager (b : Bytes) : Nat :=
  match b with
  | r :: c :: _ :: _ :: _ :: _ :: _ :: _ :: _ => if r != 1 then 0 else 16 * (1 + c.toNat)
  | _ => 0

/-- the strings built by `domain += TrimPrefix(part, "DC=") + "."` over the parts, `acc = len(domain)`:
    every `DC=` part makes a new string of the length of the domain so far -/
def dnConcatAlloc : List Bytes → (acc : Nat) → Nat
  | [], _ => 0
  | p :: ps, acc =>
    if hasPrefix dcPrefix p then (acc + (p.length - 3 + 1)) + dnConcatAlloc ps (acc + (p.length - 3 + 1))
    else dnConcatAlloc ps acc

/-- bytes `GetDomainFromDistinguishedName(dn)` allocates: one string header per part and the bytes written to the
    `strings.Builder` (label and dot per `DC=` part: exactly the untrimmed result, `accumulate`; the builder's growth
    factor, at most 2, is not counted); `Builder.String` and `strings.TrimSuffix` re-slice -/
def dnAllocOf (dn : Bytes) : Nat :=
  16 * (splitDN dn).length + (accumulate (splitDN dn)).length

/-- the defect repaired by the `fix:` commit of C07 (`domain += … + "."`): one new string per `DC=` part, each holding
    the whole domain so far — cumulative, quadratic in the number of parts -/
def dnAllocConcat (dn : Bytes) : Nat :=
  16 * (splitDN dn).length + dnConcatAlloc (splitDN dn) 0

end Manticore.C16
