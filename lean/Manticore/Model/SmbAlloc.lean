/-
  C07, allocation clause, SMB commands: what an `Unmarshal` run MATERIALISES.

  * `Val.size` / `envSize`: the size of a decoded value — one per byte of a byte-string field, 8 per
    integer (whatever its wire width), the sum over the elements of a list;
  * `allocStmt` / `allocStmts` / `allocCmd`: the bytes a run of the unmarshal program allocates or
    stores, statement by statement, in the order the Go code does it and **whatever the outcome of
    the run** (an error return does not give the memory back).  `makeInts f g` is Go's
    `c.F = make([]T, c.G)`: it costs `8 · c.G` at the point where it stands, before anything that
    follows it is checked.  A nested `Unmarshal` costs what the table `A` says for its window
    (`SmbCodecs.stdAlloc`: the `make([]UCHAR, n)` of `SMB_STRING.Unmarshal` and the fixed parts);
  * `AllocGuarded`: the static predicate under which the cost is linear in the input — every
    `makeInts f g` stands directly behind a guard `len(blk) < offset + w·int(c.G)` with `w ≥ 1`, every
    counted loop reads elements of non-zero width, every loop over nested values has a non-zero
    window (so each round consumes input);
  * `slopeStmts` / `constStmts`: the two constants of the bound, computed from the program text.

  The theorems are in Lemmas/SmbAlloc.lean (`allocStmts_le`, `runU_value_le`) and Props/C07.lean.
  Core Lean only.
-/
import Manticore.Model.SmbCmd
namespace Manticore.SmbIR
open Manticore

/-! ## size of a decoded value -/

/-- a flattened nested value: 8 per number, one per byte -/
def tupSize (v : Tup) : Nat := 8 * v.1.length + (v.2.map List.length).sum

def Val.size : Val → Nat
  | .n _ => 8
  | .b bs => bs.length
  | .ns xs => 8 * xs.length
  | .t v => tupSize v
  | .ts vs => (vs.map tupSize).sum

/-- total size of the field values of a command -/
def envSize (env : Env) : Nat := (env.map (fun p => p.2.size)).sum

/-- no field is listed twice (true of the values of a constructed command: Go field names are distinct) -/
def KeysNodup (env : Env) : Prop := (env.map (·.1)).Nodup

/-- everything a Go slice expression on the two streams can reach: lengths and spare capacities -/
def UState.cap (s : UState) : Nat := s.P.length + s.Pext.length + s.D.length + s.Dext.length

/-! ## what a run allocates -/

/-- `for i < count { if len(blk) < offset+size {err}; x.Unmarshal(blk[offset:offset+size]); … }`:
    the nested decoder's cost on every window it is handed, the failing one included -/
def allocSubsCounted (C : Codecs) (A : String → Bytes → Nat) (typ : String) (blk ext : Bytes) (size : Nat) :
    (count offset : Nat) → Nat
  | 0, _ => 0
  | n+1, off =>
    if blk.length < off + size then 0
    else match sliceC blk ext off (off + size) with
      | .ok w => A typ w + (match C.dec typ w with
        | .ok (_, k) => allocSubsCounted C A typ blk ext size n (off + k)
        | _ => 0)
      | _ => 0

/-- the same for `for offset+size <= len(blk) { … }` (fuel as in `readSubsWhile`) -/
def allocSubsWhile (C : Codecs) (A : String → Bytes → Nat) (typ : String) (blk ext : Bytes) (size : Nat) :
    (fuel offset : Nat) → Nat
  | 0, _ => 0
  | n+1, off =>
    if off + size ≤ blk.length then
      match sliceC blk ext off (off + size) with
      | .ok w => A typ w + (match C.dec typ w with
        | .ok (_, k) => allocSubsWhile C A typ blk ext size n (off + k)
        | _ => 0)
      | _ => 0
    else 0

mutual
/-- bytes materialised by one statement in state `s` (allocated, copied or stored into the command),
    following the Go statement; independent of whether the statement then fails -/
def allocStmt (C : Codecs) (A : String → Bytes → Nat) (s : UState) : UStmt → Nat
  | .readInt _ _ _ _ => 8
  | .readQuad _ _ _ _ => 8
  | .readU8 _ _ => 8
  | .readBytes b _ n =>
    match evalExpr s n with
    | some k => (match sliceC (s.blk b) (s.ext b) s.offset (s.offset + k) with | .ok bs => bs.length | _ => 0)
    | none => 0
  | .readRest b _ => (match sliceFrom (s.blk b) s.offset with | .ok bs => bs.length | _ => 0)
  | .readArr _ _ n => n                        -- a fixed array of the structure
  | .readSub b _ typ win whole _ _ =>
    let window : Outcome Bytes :=
      if whole then .ok (s.blk b) else
      match win with
      | some n => sliceC (s.blk b) (s.ext b) s.offset (s.offset + n)
      | none => sliceFrom (s.blk b) s.offset
    (match window with | .ok w => A typ w | _ => 0)
  | .ifWordCount k body => if s.wordCount = k then allocStmts C A s body else 0
  | .zeroInt _ => 8
  | .zeroInts _ n => 8 * n
  -- `c.F = make([]T, c.G)`: the announced count, paid here
  | .makeInts _ g => (match s.env.get g with | some (.n k) => 8 * k | _ => 0)
  -- the loop fills the slice made before it; the model rebuilds the list, which is counted again
  | .forCountInt b w e _ g =>
    (match s.env.get g with
     | some (.n k) => (match readInts (s.blk b) (s.ext b) w e k s.offset [] with | .ok (xs, _) => 8 * xs.length | _ => 0)
     | _ => 0)
  | .forRangeInt _ _ _ _ => 0                  -- in place, into a fixed array of the structure
  | .forCountSub b f g typ size =>
    (match s.env.get g, s.env.get f with
     | some (.n k), some (.ts _) => allocSubsCounted C A typ (s.blk b) (s.ext b) size k s.offset
     | _, _ => 0)
  | .whileFitsSub b f typ size =>
    (match s.env.get f with
     | some (.ts _) => allocSubsWhile C A typ (s.blk b) (s.ext b) size ((s.blk b).length + 1) s.offset
     | _ => 0)
  | .cstrUnicode _ => (cstrUnicode s.D).1.length
  | .readArr3 _ _ => 24
  | .readAndX => 24
  | _ => 0
/-- cumulative cost of a run of `l` from `s`: every statement reached pays, the failing one too -/
def allocStmts (C : Codecs) (A : String → Bytes → Nat) (s : UState) : List UStmt → Nat
  | [] => 0
  | st :: rest =>
    allocStmt C A s st + (match runUStmt C s st with | .next s' => allocStmts C A s' rest | _ => 0)
end

/-- cost of `runU` -/
def allocU (C : Codecs) (A : String → Bytes → Nat) (c : Cmd) (env0 : Env) (wordCount : Nat) (P D : Bytes)
    (Pext Dext : Bytes := []) : Nat :=
  allocStmts C A { P := P, D := D, Pext := Pext, Dext := Dext, wordCount := wordCount, env := env0 } c.unmarshal

/-- cost of `decodeCmd`: the envelope (`Parameters.Unmarshal` makes `WordCount` words — a byte, checked against
    the input first — and `GetBytesStream` appends two bytes per word to an empty slice, `streamCap`;
    `Data.Unmarshal` aliases the input), then the command's own program.  Nothing is allocated when
    the envelope is refused. -/
def allocCmd (C : Codecs) (A : String → Bytes → Nat) (c : Cmd) (env0 : Env) (data : Bytes) : Nat :=
  match splitParams data with
  | .ok (wc, P, rest) =>
    2 * wc + streamCap P.length +
    (match splitData rest with
     | .ok (D, Dext) => allocU C A c env0 wc P D (List.replicate (streamCap P.length - P.length) 0) Dext
     | _ => 0)
  | _ => 0

/-! ## the static predicate and the constants of the bound -/

/-- what a statement hands to the one behind it: a guard, itself -/
def nextPrev : UStmt → Option (Blk × Expr)
  | .guard b e => some (b, e)
  | _ => none

mutual
/-- `prev`: the guard directly in front of the statement, if there is one -/
def allocOKStmt (prev : Option (Blk × Expr)) : UStmt → Bool
  | .makeInts _ g =>
    match prev with
    | some (_, .mul w (.fint g')) => decide (0 < w) && g' == g
    | _ => false
  | .forCountInt _ w _ _ _ => decide (0 < w)
  | .forCountSub _ _ _ _ size => decide (0 < size)
  | .whileFitsSub _ _ _ size => decide (0 < size)
  | .ifWordCount _ body => allocOKStmts none body
  | _ => true
def allocOKStmts (prev : Option (Blk × Expr)) : List UStmt → Bool
  | [] => true
  | st :: rest =>
    allocOKStmt prev st && allocOKStmts (nextPrev st) rest
end

/-- C07 static predicate (allocation): no statement of the unmarshal program allocates by an
    announced count that has not been compared with the input, and every loop consumes input -/
def AllocGuarded (c : Cmd) : Bool := allocOKStmts none c.unmarshal

mutual
/-- bytes materialised per byte of reachable input (`a0`: fixed part of a nested value) -/
def slopeStmt (a0 : Nat) : UStmt → Nat
  | .readBytes _ _ _ => 1
  | .readRest _ _ => 1
  | .readSub _ _ _ _ _ _ _ => 1
  | .ifWordCount _ body => slopeStmts a0 body
  | .makeInts _ _ => 8
  | .forCountInt _ _ _ _ _ => 8
  | .forCountSub _ _ _ _ size => size + a0
  | .whileFitsSub _ _ _ size => size + a0
  | .cstrUnicode _ => 1
  | _ => 0
def slopeStmts (a0 : Nat) : List UStmt → Nat
  | [] => 0
  | st :: rest => slopeStmt a0 st + slopeStmts a0 rest
end

mutual
/-- bytes materialised whatever the input -/
def constStmt (a0 : Nat) : UStmt → Nat
  | .readInt _ _ _ _ => 8
  | .readQuad _ _ _ _ => 8
  | .readU8 _ _ => 8
  | .readArr _ _ n => n
  | .readSub _ _ _ _ _ _ _ => a0
  | .ifWordCount _ body => constStmts a0 body
  | .zeroInt _ => 8
  | .zeroInts _ n => 8 * n
  | .readArr3 _ _ => 24
  | .readAndX => 24
  | _ => 0
def constStmts (a0 : Nat) : List UStmt → Nat
  | [] => 0
  | st :: rest => constStmt a0 st + constStmts a0 rest
end

/-- the slope of a command: bytes materialised per input byte -/
def Cmd.allocSlope (a0 : Nat) (c : Cmd) : Nat := slopeStmts a0 c.unmarshal
/-- the constant of a command: the envelope (255 words, a 512-byte stream), the fixed fields, and
    the slope times the 512 bytes of the parameter stream's backing array that are not input -/
def Cmd.allocConst (a0 : Nat) (c : Cmd) : Nat := 1022 + constStmts a0 c.unmarshal + 512 * slopeStmts a0 c.unmarshal

end Manticore.SmbIR
