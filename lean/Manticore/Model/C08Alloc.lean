/-
  C07, allocation clause, NTLMSSP / SPNEGO decoders (models of C08): size measures of the decoded
  values and what the Go functions allocate.

  Size measure (the one of the whole clause): one per byte of every byte-string member, 8 per
  number, the constant size of fixed arrays, the sum over list elements, key + value for map
  entries.

  Where memory comes from, read off the Go sources:

  * `ntlm.ParseTargetInfo` (ntlm.go:642): `result := make(map[uint16][]byte)` without a size hint;
    the map grows by one entry per executed `result[avId] = targetInfo[offset : offset+int(avLen)]`
    (ntlm.go:664), which stands BEHIND `if offset+int(avLen) > len(targetInfo) { return nil, … }`
    (ntlm.go:658).  `parseTargetInfoAllocOf` follows that loop: every executed assignment is charged
    8 (key) + `avLen` (the value, charged as if it were copied; in Go it is a piece of the input), on
    every path, error returns included (the map is garbage then, it was allocated all the same).
    `parseTargetInfoAllocEager` is the defect the clause is about: the value charged in front of the
    truncation check.
  * `ntlm.ParseChallengeMessage` (ntlm.go:195): no `make` at all; `challenge := &ChallengeMessage{}`
    is one structure of constant size, `TargetName` / `TargetInfo` are the slice expressions
    `data[off : off+len]` behind `uint64(off)+uint64(len) <= uint64(len(data))`, the three arrays
    are filled by `copy`.  There is nothing to follow: `challengeSize` is the measure.
  * `spnego.ExtractNTLMToken`, `spnego.ParseNegTokenResp` (spnego.go:198, :96): the repo's own code
    allocates nothing by a number read from the input (it skips `data[1]&0x7F` length octets
    without reading them and hands `data[offset:]` to `encoding/asn1`).  `asn1.Unmarshal` makes the
    copies: an OCTET STRING member by `reflect.MakeSlice(sliceType, len(innerBytes), len(innerBytes))`
    and an OBJECT IDENTIFIER by `make([]int, len(bytes)+1)`, both behind
    `invalidLength(offset, t.length, len(bytes))` ("data truncated") in `parseField`.
    `parseFieldAllocOf` follows `C08.parseField` to that point: the announced content length when
    the content parser is reached, 0 when `parseField` returns before it;
    `parseFieldAllocEager` is the same with the copy in front of the truncation check.
  Core Lean only.
-/
import Manticore.Model.C08
namespace Manticore.C08
open Manticore

/-! ## size measures -/

/-- `map[uint16][]byte`: 8 for the key plus one per byte of the value, summed over the entries -/
def avMapSize (m : AvMap) : Nat := (m.map (fun p => 8 + p.2.length)).sum

/-- `*ntlm.ChallengeMessage`: `Signature [8]byte` and `MessageType uint32` (constant in the model,
    8 + 8), `NegotiateFlags` (8), the two arrays and the `Version` by their lengths, the two slices -/
def challengeSize (c : Challenge) : Nat :=
  8 + 8 + 8 + c.serverChallenge.length + c.reserved.length + c.version.length +
    c.targetName.length + c.targetInfo.length

/-- `asn1.ObjectIdentifier` is `[]int`: 8 per arc -/
def oidSize (o : List Nat) : Nat := 8 * o.length

/-- `*spnego.NegTokenResp`: `NegState` (8), `SupportedMech`, the two byte strings -/
def negTokenRespSize (r : NegTokenResp) : Nat :=
  8 + oidSize r.supportedMech + r.responseToken.length + r.mechListMIC.length

/-! ## `ParseTargetInfo`: the assignments into the map -/

/-- the loop of `ParseTargetInfo` (same shape and fuel as `parseTargetInfoLoop`); `n` is what the
    assignments executed so far were charged -/
def parseTargetInfoAllocLoop : Nat → Bytes → Nat → Nat
  | 0, _, n => n
  | fuel+1, rest, n =>
    match rest with
    | [] => n
    | [_] | [_, _] | [_, _, _] => n                    -- "target info truncated"
    | i0 :: i1 :: l0 :: l1 :: body =>
      let avId := le16 i0 i1
      let avLen := (le16 l0 l1).toNat
      if avLen > body.length then n                  -- "target info value truncated": nothing assigned
      else
        let n' := if avId ≠ 0 then n + 8 + avLen else n
        if avId = 0 then n' else parseTargetInfoAllocLoop fuel (body.drop avLen) n'

/-- what `ParseTargetInfo` has put into its map when it returns (value or error) -/
def parseTargetInfoAllocOf (ti : Bytes) : Nat := parseTargetInfoAllocLoop (ti.length + 1) ti 0

/-- the defect, as a model: the value is charged (`make([]byte, avLen)` + copy) in front of
    `if offset+int(avLen) > len(targetInfo)` -/
def parseTargetInfoAllocEagerLoop : Nat → Bytes → Nat → Nat
  | 0, _, n => n
  | fuel+1, rest, n =>
    match rest with
    | [] => n
    | [_] | [_, _] | [_, _, _] => n
    | i0 :: i1 :: l0 :: l1 :: body =>
      let avId := le16 i0 i1
      let avLen := (le16 l0 l1).toNat
      let n' := if avId ≠ 0 then n + 8 + avLen else n
      if avLen > body.length then n'
      else if avId = 0 then n' else parseTargetInfoAllocEagerLoop fuel (body.drop avLen) n'

def parseTargetInfoAllocEager (ti : Bytes) : Nat := parseTargetInfoAllocEagerLoop (ti.length + 1) ti 0

/-! ## `encoding/asn1` `parseField`: the copy of the content -/

/-- the header `parseField` arrives at for its content (`none`: it returns before looking at the
    content — error, or optional member absent); same case analysis as `C08.parseField` -/
def parseFieldHeader (explicitTag : Option Nat) (utag : Nat) (compound : Bool) (b : Bytes) : Option (TL × Bytes) :=
  match b with
  | [] => none
  | _ =>
    match parseTL b with
    | none => none
    | some (t, r) =>
      let inner : Option (TL × Bytes) :=
        match explicitTag with
        | none => some (t, r)
        | some e =>
          if r = [] then none
          else if t.cls = 2 ∧ t.tag = e ∧ (t.len = 0 ∨ t.compound) then
            if t.len > 0 then parseTL r else none
          else none
      match inner with
      | none => none
      | some (t, r) => if t.cls ≠ 0 ∨ t.tag ≠ utag ∨ t.compound ≠ compound then none else some (t, r)

/-- what `parseField` copies for a member of this shape: the announced content length once it was
    compared with what is there ("data truncated"), 0 on every earlier return -/
def parseFieldAllocOf (explicitTag : Option Nat) (utag : Nat) (compound : Bool) (b : Bytes) : Nat :=
  match parseFieldHeader explicitTag utag compound b with
  | none => 0
  | some (t, r) => if t.len > r.length then 0 else t.len

/-- the defect, as a model: the copy sized by the announced length in front of the truncation check -/
def parseFieldAllocEager (explicitTag : Option Nat) (utag : Nat) (compound : Bool) (b : Bytes) : Nat :=
  match parseFieldHeader explicitTag utag compound b with
  | none => 0
  | some (t, _) => t.len

end Manticore.C08
