/-
  C13 — model of `crypto/uuid/uuid.go` (UUID), `crypto/uuid/uuid_v1`, `uuid_v2`, `uuid_v8`,
  `windows/guid/Guid.go` (GUID; `windows/ms_dtyp/common/data_structures/GUID.go` is a type alias of it),
  following the Go control flow — with the three `fixes/C13-*.diff` repairs applied — and the
  independent specifications: RFC 4122 §4.1.2 (field layout as bit ranges of the 128-bit number),
  MS-DTYP 2.3.4 (GUID packet and curly-braced string) and the five .NET format specifiers N/D/B/P/X.

  Go strings are byte lists.  `strings.TrimSpace` / `strings.ToLower` are modelled on ASCII
  (bytes ≥ 0x80 are left alone; the harness feeds ASCII only).  `strconv.ParseUint(_,16,bits)`,
  `encoding/hex.DecodeString`, `fmt` verb `%0Nx`, `strings.Split/Replace` and the five anchored
  regular expressions (sequences of `[0-9a-f]{n}` and literals) are modelled as written below; they are
  in the trusted base and are exercised by the correspondence run.
-/
import Manticore.Basic
namespace Manticore.C13
open Manticore

/-! ## text primitives -/

/-- ASCII white space as `strings.TrimSpace` sees it: `\t \n \v \f \r` and space -/
def isSpace (c : UInt8) : Bool := c == 9 || c == 10 || c == 11 || c == 12 || c == 13 || c == 32

/-- `strings.TrimSpace` -/
def trimSpace (s : Bytes) : Bytes := ((s.dropWhile isSpace).reverse.dropWhile isSpace).reverse

def lowerByte (c : UInt8) : UInt8 := if 65 ≤ c ∧ c ≤ 90 then c + 32 else c
def upperByte (c : UInt8) : UInt8 := if 97 ≤ c ∧ c ≤ 122 then c - 32 else c
/-- `strings.ToLower` / `strings.ToUpper` (ASCII) -/
def toLower (s : Bytes) : Bytes := s.map lowerByte
def toUpper (s : Bytes) : Bytes := s.map upperByte

/-- lower-case hex digit of a number below 16 -/
def hexChar (n : Nat) : UInt8 := if n < 10 then UInt8.ofNat (48 + n) else UInt8.ofNat (87 + n)

/-- value of a hex digit, either case (`strconv` and `encoding/hex` accept both) -/
def hexVal? (c : UInt8) : Option Nat :=
  if 48 ≤ c ∧ c ≤ 57 then some (c.toNat - 48)
  else if 97 ≤ c ∧ c ≤ 102 then some (c.toNat - 87)
  else if 65 ≤ c ∧ c ≤ 70 then some (c.toNat - 55)
  else none

/-- the character class `[0-9a-f]` -/
def isLowerHex (c : UInt8) : Bool := (48 ≤ c && c ≤ 57) || (97 ≤ c && c ≤ 102)

/-- exactly `w` lower-case hex digits of `n mod 16^w`, most significant first -/
def fixedHex : Nat → Nat → Bytes
  | 0, _ => []
  | w+1, n => fixedHex w (n / 16) ++ [hexChar (n % 16)]

/-- `fmt.Sprintf("%0<w>x", n)` for an unsigned integer: at least `w` digits, more if `n` needs them
    (a positive `n` has `log2 n / 4 + 1` hex digits) -/
def fmtHexPad (w n : Nat) : Bytes :=
  if n < 16 ^ w then fixedHex w n else fixedHex (Nat.log2 n / 4 + 1) n

/-- two hex digits per byte (`%x` on a byte slice) -/
def hexOfBytes (b : Bytes) : Bytes := b.flatMap (fun x => [hexChar (x.toNat / 16), hexChar (x.toNat % 16)])

/-- `fmt.Sprintf("%0<w>x", b)` for a byte slice -/
def fmtHexBytesPad (w : Nat) (b : Bytes) : Bytes :=
  let h := hexOfBytes b
  List.replicate (w - h.length) 48 ++ h

def hexValueAux : Bytes → Nat → Option Nat
  | [], acc => some acc
  | c :: t, acc =>
    match hexVal? c with
    | some d => hexValueAux t (acc * 16 + d)
    | none => none

/-- `strconv.ParseUint(s, 16, bits)`: `none` = an error was returned (empty string, a character that
    is not a hex digit — sign, `0x` prefix and `_` included — or a value that needs more than `bits` bits) -/
def parseUintHex (bits : Nat) (s : Bytes) : Option Nat :=
  if s.isEmpty then none
  else match hexValueAux s 0 with
    | some v => if v < 2 ^ bits then some v else none
    | none => none

/-- `hex.DecodeString`: `none` = error (odd length or a non-hex character) -/
def decodeHex : Bytes → Option Bytes
  | [] => some []
  | [_] => none
  | a :: b :: rest =>
    match hexVal? a, hexVal? b, decodeHex rest with
    | some x, some y, some r => some (UInt8.ofNat (x * 16 + y) :: r)
    | _, _, _ => none

/-- `strings.Split(s, sep)` for a one-byte separator; `cur` is the current part, reversed -/
def splitAux (sep : UInt8) : Bytes → Bytes → List Bytes
  | [], cur => [cur.reverse]
  | c :: rest, cur =>
    if c = sep then cur.reverse :: splitAux sep rest [] else splitAux sep rest (c :: cur)
def split (sep : UInt8) (s : Bytes) : List Bytes := splitAux sep s []

/-- `strings.Replace(s, c, "", -1)` for a one-byte `c` -/
def removeByte (c : UInt8) (s : Bytes) : Bytes := s.filter (· != c)

def ofOpt {α} : Option α → Outcome α
  | some a => .ok a
  | none => .err

/-! ### the anchored regular expressions of `Guid.go` -/

/-- the regular expressions used are `^ tok* $` with `tok ::= [0-9a-f]{n} | literal` -/
inductive Tok where
  | hex (n : Nat)
  | lit (s : Bytes)
  deriving Repr, DecidableEq

/-- `regexp.MatchString("^…$", s)` for such a token sequence -/
def matchPat : List Tok → Bytes → Bool
  | [], s => s.isEmpty
  | .lit l :: p, s => l.isPrefixOf s && matchPat p (s.drop l.length)
  | .hex n :: p, s => (s.take n).length == n && (s.take n).all isLowerHex && matchPat p (s.drop n)

def dash : UInt8 := 45
def comma : UInt8 := 44
def lbrace : UInt8 := 123
def rbrace : UInt8 := 125
def lparen : UInt8 := 40
def rparen : UInt8 := 41
/-- `0x` -/
def zx : Bytes := [48, 120]

/-- `^[0-9a-f]{32}$` -/
def patN : List Tok := [.hex 32]
/-- `GUID_FORMAT_D_REGEX` -/
def patD : List Tok := [.hex 8, .lit [dash], .hex 4, .lit [dash], .hex 4, .lit [dash], .hex 4, .lit [dash], .hex 12]
/-- `GUID_FORMAT_B_REGEX` -/
def patB : List Tok := .lit [lbrace] :: patD ++ [.lit [rbrace]]
/-- `GUID_FORMAT_P_REGEX` -/
def patP : List Tok := .lit [lparen] :: patD ++ [.lit [rparen]]
/-- `GUID_FORMAT_X_REGEX` -/
def patX : List Tok :=
  [.lit (lbrace :: zx), .hex 8, .lit (comma :: zx), .hex 4, .lit (comma :: zx), .hex 4,
   .lit (comma :: lbrace :: zx), .hex 2, .lit (comma :: zx), .hex 2, .lit (comma :: zx), .hex 2,
   .lit (comma :: zx), .hex 2, .lit (comma :: zx), .hex 2, .lit (comma :: zx), .hex 2,
   .lit (comma :: zx), .hex 2, .lit (comma :: zx), .hex 2, .lit [rbrace, rbrace]]

/-! ## `crypto/uuid`: the generic UUID -/

/-- `[15]byte` -/
structure Data15 where
  d0 : UInt8
  d1 : UInt8
  d2 : UInt8
  d3 : UInt8
  d4 : UInt8
  d5 : UInt8
  d6 : UInt8
  d7 : UInt8
  d8 : UInt8
  d9 : UInt8
  d10 : UInt8
  d11 : UInt8
  d12 : UInt8
  d13 : UInt8
  d14 : UInt8
  deriving Repr, DecidableEq, Inhabited

def Data15.toList (d : Data15) : Bytes :=
  [d.d0, d.d1, d.d2, d.d3, d.d4, d.d5, d.d6, d.d7, d.d8, d.d9, d.d10, d.d11, d.d12, d.d13, d.d14]

def Data15.ofList? : Bytes → Option Data15
  | [a0, a1, a2, a3, a4, a5, a6, a7, a8, a9, a10, a11, a12, a13, a14] =>
    some ⟨a0, a1, a2, a3, a4, a5, a6, a7, a8, a9, a10, a11, a12, a13, a14⟩
  | _ => none

/-- `uuid.UUID` -/
structure UUID where
  version : UInt8
  variant : UInt8
  data : Data15
  deriving Repr, DecidableEq, Inhabited

/-- `(*UUID).Marshal`: always 16 bytes, never an error -/
def marshal (u : UUID) : Bytes :=
  let d := u.data
  let data6high := (d.d6 &&& 0xF0) >>> 4
  let data6low := d.d6 &&& 0x0F
  let data7high := (d.d7 &&& 0xF0) >>> 4
  let data7low := d.d7 &&& 0x0F
  [d.d0, d.d1, d.d2, d.d3, d.d4, d.d5,
   ((u.version &&& 0xF) <<< 4) ||| (data6high &&& 0xF),
   ((data6low &&& 0xF) <<< 4) ||| (data7high &&& 0xF),
   ((u.variant &&& 0xF) <<< 4) ||| (data7low &&& 0xF),
   d.d8, d.d9, d.d10, d.d11, d.d12, d.d13, d.d14]

/-- `(*UUID).Unmarshal`: error below 16 bytes; bytes after the 16th are ignored -/
def unmarshal (m : Bytes) : Outcome UUID :=
  if m.length < 16 then .err
  else match m with
    | m0 :: m1 :: m2 :: m3 :: m4 :: m5 :: m6 :: m7 :: m8 :: m9 :: m10 :: m11 :: m12 :: m13 :: m14 :: m15 :: _ =>
      .ok { version := (m6 &&& 0xF0) >>> 4
            variant := (m8 &&& 0xF0) >>> 4
            data := ⟨m0, m1, m2, m3, m4, m5,
                     ((m6 &&& 0x0F) <<< 4) ||| ((m7 &&& 0xF0) >>> 4),
                     ((m7 &&& 0x0F) <<< 4) ||| (m8 &&& 0x0F),
                     m9, m10, m11, m12, m13, m14, m15⟩ }
    | _ => .panic   -- not reachable: the length was checked

/-- `fmt.Sprintf("%08x-%04x-%04x-%04x-%012x", be32(m[0:4]), be16(m[4:6]), be16(m[6:8]), be16(m[8:10]), m[10:16])`
    on the 16 marshalled bytes -/
def textOf16 : Bytes → Bytes
  | [m0, m1, m2, m3, m4, m5, m6, m7, m8, m9, m10, m11, m12, m13, m14, m15] =>
    fmtHexPad 8 (be32 m0 m1 m2 m3).toNat ++ [dash] ++ fmtHexPad 4 (be16 m4 m5).toNat ++ [dash] ++
    fmtHexPad 4 (be16 m6 m7).toNat ++ [dash] ++ fmtHexPad 4 (be16 m8 m9).toNat ++ [dash] ++
    fmtHexBytesPad 12 [m10, m11, m12, m13, m14, m15]
  | _ => []   -- not reachable: `Marshal` returns 16 bytes

/-- `(*UUID).String` -/
def uuidString (u : UUID) : Bytes := textOf16 (marshal u)

/-- the guard added by `fixes/C13-uuid-fromstring-hyphens.diff`:
    `len(s) != 36 || s[8] != '-' || s[13] != '-' || s[18] != '-' || s[23] != '-'` -/
def hyphensMisplaced (s : Bytes) : Bool :=
  s.length != 36 || s[8]? != some dash || s[13]? != some dash || s[18]? != some dash || s[23]? != some dash

/-- the common front end of the four `FromString`s: guard, `strings.Replace(s,"-","")`, length 32,
    (`ToLower` in v1/v2/v8 only,) `hex.DecodeString` -/
def textTo16 (lowerFirst : Bool) (s : Bytes) : Outcome Bytes :=
  if hyphensMisplaced s then .err
  else
    let s := removeByte dash s
    if s.length != 32 then .err
    else
      let s := if lowerFirst then toLower s else s
      ofOpt (decodeHex s)

/-- `(*UUID).FromString` -/
def uuidFromString (s : Bytes) : Outcome UUID :=
  match textTo16 false s with
  | .ok m => unmarshal m
  | .err => .err
  | .panic => .panic

/-! ## `uuid_v1` -/

/-- `UUIDv1`: the embedded `UUID.Variant` (its `Version` and `Data` are overwritten by `Marshal`),
    `Time`, `ClockSeq`, `NodeID` -/
structure V1 where
  variant : UInt8
  time : UInt64
  clockSeq : UInt16
  n0 : UInt8
  n1 : UInt8
  n2 : UInt8
  n3 : UInt8
  n4 : UInt8
  n5 : UInt8
  deriving Repr, DecidableEq, Inhabited

/-- the 15 data bytes `(*UUIDv1).Marshal` builds -/
def v1Data (v : V1) : Data15 :=
  let timeLow : UInt32 := (v.time &&& 0x00000000FFFFFFFF).toUInt32
  let timeMid : UInt16 := ((v.time &&& 0x0000FFFF00000000) >>> 32).toUInt16
  let timeHigh : UInt16 := ((v.time &&& 0x0FFF000000000000) >>> 48).toUInt16
  { d0 := (timeLow >>> 24).toUInt8, d1 := (timeLow >>> 16).toUInt8, d2 := (timeLow >>> 8).toUInt8, d3 := timeLow.toUInt8
    d4 := (timeMid >>> 8).toUInt8, d5 := timeMid.toUInt8
    d6 := ((timeHigh >>> 4) &&& 0xFF).toUInt8
    d7 := ((timeHigh &&& 0x0F).toUInt8 <<< 4) ||| ((v.clockSeq &&& 0x0F00) >>> 8).toUInt8
    d8 := (v.clockSeq &&& 0xFF).toUInt8
    d9 := v.n0, d10 := v.n1, d11 := v.n2, d12 := v.n3, d13 := v.n4, d14 := v.n5 }

/-- `(*UUIDv1).Marshal` -/
def v1Marshal (v : V1) : Bytes := marshal { version := 1, variant := v.variant, data := v1Data v }

/-- the field extraction of `(*UUIDv1).Unmarshal` from the generic UUID -/
def v1OfUUID (u : UUID) : V1 :=
  let d := u.data
  let timeLow : UInt32 := be32 d.d0 d.d1 d.d2 d.d3
  let timeMid : UInt16 := be16 d.d4 d.d5
  let timeHigh : UInt16 := (d.d6.toUInt16 <<< 4) ||| ((d.d7 >>> 4).toUInt16 &&& 0xF)
  { variant := u.variant
    clockSeq := ((d.d7 &&& 0x0F).toUInt16 <<< 8) ||| d.d8.toUInt16
    time := (timeHigh.toUInt64 <<< 48) ||| (timeMid.toUInt64 <<< 32) ||| timeLow.toUInt64
    n0 := d.d9, n1 := d.d10, n2 := d.d11, n3 := d.d12, n4 := d.d13, n5 := d.d14 }

/-- `(*UUIDv1).Unmarshal` -/
def v1Unmarshal (m : Bytes) : Outcome V1 :=
  if m.length < 16 then .err
  else match unmarshal m with
    | .ok u => if u.version != 1 then .err else .ok (v1OfUUID u)
    | .err => .err
    | .panic => .panic

/-- `(*UUIDv1).FromBytes` -/
def v1FromBytes (m : Bytes) : Outcome V1 := if m.length != 16 then .err else v1Unmarshal m

/-- `(*UUIDv1).FromString` -/
def v1FromString (s : Bytes) : Outcome V1 :=
  match textTo16 true s with
  | .ok m => v1FromBytes m
  | .err => .err
  | .panic => .panic

/-- `(*UUIDv1).String` -/
def v1String (v : V1) : Bytes := textOf16 (v1Marshal v)

/-! ## `uuid_v2` -/

structure V2 where
  variant : UInt8
  localDomainNumber : UInt32
  time : UInt64
  clock : UInt8
  localDomain : UInt8
  n0 : UInt8
  n1 : UInt8
  n2 : UInt8
  n3 : UInt8
  n4 : UInt8
  n5 : UInt8
  deriving Repr, DecidableEq, Inhabited

def v2Data (v : V2) : Data15 :=
  let ldn := v.localDomainNumber
  let timeMid : UInt16 := ((v.time &&& 0x0000FFFF00000000) >>> 32).toUInt16
  let timeHigh : UInt16 := ((v.time &&& 0x0FFF000000000000) >>> 48).toUInt16
  { d0 := (ldn >>> 24).toUInt8, d1 := (ldn >>> 16).toUInt8, d2 := (ldn >>> 8).toUInt8, d3 := ldn.toUInt8
    d4 := (timeMid >>> 8).toUInt8, d5 := timeMid.toUInt8
    d6 := ((timeHigh >>> 4) &&& 0xFF).toUInt8
    d7 := ((timeHigh &&& 0x0F).toUInt8 <<< 4) ||| (v.clock &&& 0x0F)
    d8 := v.localDomain
    d9 := v.n0, d10 := v.n1, d11 := v.n2, d12 := v.n3, d13 := v.n4, d14 := v.n5 }

/-- `(*UUIDv2).Marshal` -/
def v2Marshal (v : V2) : Bytes := marshal { version := 2, variant := v.variant, data := v2Data v }

def v2OfUUID (u : UUID) : V2 :=
  let d := u.data
  let timeMid : UInt16 := be16 d.d4 d.d5
  let timeHigh : UInt16 := (d.d6.toUInt16 <<< 4) ||| ((d.d7 >>> 4).toUInt16 &&& 0xF)
  { variant := u.variant
    localDomainNumber := be32 d.d0 d.d1 d.d2 d.d3
    clock := d.d7 &&& 0x0F
    localDomain := d.d8
    time := (timeHigh.toUInt64 <<< 48) ||| (timeMid.toUInt64 <<< 32)
    n0 := d.d9, n1 := d.d10, n2 := d.d11, n3 := d.d12, n4 := d.d13, n5 := d.d14 }

/-- `(*UUIDv2).Unmarshal` -/
def v2Unmarshal (m : Bytes) : Outcome V2 :=
  if m.length < 16 then .err
  else match unmarshal m with
    | .ok u => if u.version != 2 then .err else .ok (v2OfUUID u)
    | .err => .err
    | .panic => .panic

def v2FromBytes (m : Bytes) : Outcome V2 := if m.length != 16 then .err else v2Unmarshal m

def v2FromString (s : Bytes) : Outcome V2 :=
  match textTo16 true s with
  | .ok m => v2FromBytes m
  | .err => .err
  | .panic => .panic

def v2String (v : V2) : Bytes := textOf16 (v2Marshal v)

/-! ## `uuid_v8` -/

structure V8 where
  variant : UInt8
  data : Data15
  deriving Repr, DecidableEq, Inhabited

/-- `(*UUIDv8).Marshal` -/
def v8Marshal (v : V8) : Bytes := marshal { version := 8, variant := v.variant, data := v.data }

/-- `(*UUIDv8).Unmarshal` (the data is copied before the version is checked; on error nothing is returned) -/
def v8Unmarshal (m : Bytes) : Outcome V8 :=
  if m.length < 16 then .err
  else match unmarshal m with
    | .ok u => if u.version != 8 then .err else .ok { variant := u.variant, data := u.data }
    | .err => .err
    | .panic => .panic

def v8FromBytes (m : Bytes) : Outcome V8 := if m.length != 16 then .err else v8Unmarshal m

def v8FromString (s : Bytes) : Outcome V8 :=
  match textTo16 true s with
  | .ok m => v8FromBytes m
  | .err => .err
  | .panic => .panic

def v8String (v : V8) : Bytes := textOf16 (v8Marshal v)

/-! ## `windows/guid` -/

/-- `guid.GUID` -/
structure GUID where
  A : UInt32
  B : UInt16
  C : UInt16
  D : UInt16
  E : UInt64
  deriving Repr, DecidableEq, Inhabited

/-- `(*GUID).FromRawBytes`: index expressions `data[0]..data[15]`; no error result: on fewer than 16 bytes
    the receiver becomes the nil GUID (after `fixes/C07-guid-fromrawbytes-short.diff`) -/
def fromRawBytes (data : Bytes) : Outcome GUID :=
  match data with
  | b0 :: b1 :: b2 :: b3 :: b4 :: b5 :: b6 :: b7 :: b8 :: b9 :: b10 :: b11 :: b12 :: b13 :: b14 :: b15 :: _ =>
    .ok { A := b0.toUInt32 ||| (b1.toUInt32 <<< 8) ||| (b2.toUInt32 <<< 16) ||| (b3.toUInt32 <<< 24)
          B := b4.toUInt16 ||| (b5.toUInt16 <<< 8)
          C := b6.toUInt16 ||| (b7.toUInt16 <<< 8)
          D := (b8.toUInt16 <<< 8) ||| b9.toUInt16
          E := (b10.toUInt64 <<< 40) ||| (b11.toUInt64 <<< 32) ||| (b12.toUInt64 <<< 24) |||
               (b13.toUInt64 <<< 16) ||| (b14.toUInt64 <<< 8) ||| b15.toUInt64 }
  | _ => .ok ⟨0, 0, 0, 0, 0⟩

/-- `(*GUID).ToBytes` (the loop `eBytes[5-i] = byte((E >> (i*8)) & 0xff)`, i = 0..5, unrolled) -/
def toBytes (g : GUID) : Bytes :=
  [g.A.toUInt8, (g.A >>> 8).toUInt8, (g.A >>> 16).toUInt8, (g.A >>> 24).toUInt8,
   g.B.toUInt8, (g.B >>> 8).toUInt8,
   g.C.toUInt8, (g.C >>> 8).toUInt8,
   (g.D >>> 8).toUInt8, g.D.toUInt8,
   ((g.E >>> 40) &&& 0xff).toUInt8, ((g.E >>> 32) &&& 0xff).toUInt8, ((g.E >>> 24) &&& 0xff).toUInt8,
   ((g.E >>> 16) &&& 0xff).toUInt8, ((g.E >>> 8) &&& 0xff).toUInt8, ((g.E >>> 0) &&& 0xff).toUInt8]

/-- `%08x-%04x-%04x-%04x-%012x` of the five fields -/
def dashed (g : GUID) : Bytes :=
  fmtHexPad 8 g.A.toNat ++ [dash] ++ fmtHexPad 4 g.B.toNat ++ [dash] ++ fmtHexPad 4 g.C.toNat ++ [dash] ++
  fmtHexPad 4 g.D.toNat ++ [dash] ++ fmtHexPad 12 g.E.toNat

def toFormatN (g : GUID) : Bytes :=
  fmtHexPad 8 g.A.toNat ++ fmtHexPad 4 g.B.toNat ++ fmtHexPad 4 g.C.toNat ++ fmtHexPad 4 g.D.toNat ++ fmtHexPad 12 g.E.toNat
def toFormatD (g : GUID) : Bytes := dashed g
def toFormatB (g : GUID) : Bytes := [lbrace] ++ dashed g ++ [rbrace]
def toFormatP (g : GUID) : Bytes := [lparen] ++ dashed g ++ [rparen]

/-- `(*GUID).ToFormatX`: the slices `hexD[:2]`, `hexD[2:4]`, `hexE[:2]` … `hexE[10:12]` are always in
    range because `%04x` / `%012x` print at least 4 / 12 characters -/
def toFormatX (g : GUID) : Bytes :=
  let hexD := fmtHexPad 4 g.D.toNat
  let hexE := fmtHexPad 12 g.E.toNat
  let sl (s : Bytes) (lo hi : Nat) : Bytes := (s.drop lo).take (hi - lo)
  [lbrace] ++ zx ++ fmtHexPad 8 g.A.toNat ++ [comma] ++ zx ++ fmtHexPad 4 g.B.toNat ++ [comma] ++ zx ++
  fmtHexPad 4 g.C.toNat ++ [comma, lbrace] ++ zx ++ sl hexD 0 2 ++ [comma] ++ zx ++ sl hexD 2 4 ++ [comma] ++ zx ++
  sl hexE 0 2 ++ [comma] ++ zx ++ sl hexE 2 4 ++ [comma] ++ zx ++ sl hexE 4 6 ++ [comma] ++ zx ++
  sl hexE 6 8 ++ [comma] ++ zx ++ sl hexE 8 10 ++ [comma] ++ zx ++ sl hexE 10 12 ++ [rbrace, rbrace]

/-- the five `ParseUint` calls and the struct literal shared by N and D -/
def guidOfParts (p0 p1 p2 p3 p4 : Bytes) : Outcome GUID :=
  match parseUintHex 32 p0 with
  | none => .err
  | some a =>
  match parseUintHex 16 p1 with
  | none => .err
  | some b =>
  match parseUintHex 16 p2 with
  | none => .err
  | some c =>
  match parseUintHex 16 p3 with
  | none => .err
  | some d =>
  match parseUintHex 64 p4 with
  | none => .err
  | some e => .ok ⟨UInt32.ofNat a, UInt16.ofNat b, UInt16.ofNat c, UInt16.ofNat d, UInt64.ofNat e⟩

/-- `FromFormatN` -/
def fromFormatN (s : Bytes) : Outcome GUID :=
  let data := toLower (trimSpace s)
  if data.length != 32 then .err
  else
    match slice data 0 8, slice data 8 12, slice data 12 16, slice data 16 20, slice data 20 32 with
    | .ok p0, .ok p1, .ok p2, .ok p3, .ok p4 => guidOfParts p0 p1 p2 p3 p4
    | _, _, _, _, _ => .panic   -- not reachable: the length is 32

/-- `FromFormatD` (with `fixes/C13-guid-strict-dbp.diff`: the regular expression is checked first) -/
def fromFormatD (s : Bytes) : Outcome GUID :=
  let data := toLower (trimSpace s)
  if !matchPat patD data then .err
  else
    match split dash data with
    | [p0, p1, p2, p3, p4] => guidOfParts p0 p1 p2 p3 p4
    | _ => .err

/-- `FromFormatB` (with the fix): regular expression, then `FromFormatD(data[1:len(data)-1])` -/
def fromFormatB (s : Bytes) : Outcome GUID :=
  let data := toLower (trimSpace s)
  if !matchPat patB data then .err
  else
    match slice data 1 (data.length - 1) with
    | .ok inner => fromFormatD inner
    | .err => .err
    | .panic => .panic

/-- `FromFormatP` (with the fix) -/
def fromFormatP (s : Bytes) : Outcome GUID :=
  let data := toLower (trimSpace s)
  if !matchPat patP data then .err
  else
    match slice data 1 (data.length - 1) with
    | .ok inner => fromFormatD inner
    | .err => .err
    | .panic => .panic

/-- `parts[i][2:]` then `ParseUint(_, 16, bits)` -/
def xField (bits : Nat) (part : Bytes) : Outcome Nat :=
  match sliceFrom part 2 with
  | .ok h => ofOpt (parseUintHex bits h)
  | .err => .err
  | .panic => .panic

/-- the loops `acc = acc<<8 | val` over consecutive parts (on `uint64`; at most six values below 256,
    so nothing is shifted out and `|` adds) -/
def xBytes : List Bytes → Nat → Outcome Nat
  | [], acc => .ok acc
  | p :: rest, acc =>
    match xField 8 p with
    | .ok v => xBytes rest (acc * 256 + v)
    | .err => .err
    | .panic => .panic

/-- `FromFormatX` (with `fixes/C13-guid-formatx-fields.diff`: D from parts 3–4, E from parts 5–10) -/
def fromFormatX (s : Bytes) : Outcome GUID :=
  let data := toLower (trimSpace s)
  if !matchPat patX data then .err
  else
    let data := removeByte rbrace (removeByte lbrace data)
    match split comma data with
    | [p0, p1, p2, p3, p4, p5, p6, p7, p8, p9, p10] =>
      match xField 32 p0 with
      | .err => .err
      | .panic => .panic
      | .ok a =>
      match xField 16 p1 with
      | .err => .err
      | .panic => .panic
      | .ok b =>
      match xField 16 p2 with
      | .err => .err
      | .panic => .panic
      | .ok c =>
      match xBytes [p3, p4] 0 with
      | .err => .err
      | .panic => .panic
      | .ok d =>
      match xBytes [p5, p6, p7, p8, p9, p10] 0 with
      | .err => .err
      | .panic => .panic
      | .ok e => .ok ⟨UInt32.ofNat a, UInt16.ofNat b, UInt16.ofNat c, UInt16.ofNat d, UInt64.ofNat e⟩
    | _ => .err

/-- `guid.FromString`: trim, lower, then the first of the five patterns that matches decides -/
def fromString (s : Bytes) : Outcome GUID :=
  let data := toLower (trimSpace s)
  if matchPat patN data then fromFormatN data
  else if matchPat patD data then fromFormatD data
  else if matchPat patB data then fromFormatB data
  else if matchPat patP data then fromFormatP data
  else if matchPat patX data then fromFormatX data
  else .err

/-- the five text formats -/
inductive Fmt where
  | N | D | B | P | X
  deriving Repr, DecidableEq

def format : Fmt → GUID → Bytes
  | .N => toFormatN
  | .D => toFormatD
  | .B => toFormatB
  | .P => toFormatP
  | .X => toFormatX

def parse : Fmt → Bytes → Outcome GUID
  | .N => fromFormatN
  | .D => fromFormatD
  | .B => fromFormatB
  | .P => fromFormatP
  | .X => fromFormatX

/-! ## Specifications -/

/-- bits `lo .. lo+w-1` of a number -/
def bitField (n lo w : Nat) : Nat := n / 2 ^ lo % 2 ^ w

namespace RFC4122

/-- RFC 4122 §4.1.2: the UUID is a 128-bit number in network byte order; its fields are the bit ranges
    `time_low` 127..96, `time_mid` 95..80, `time_hi_and_version` 79..64, `clock_seq_hi_and_reserved`
    63..56, `clock_seq_low` 55..48, `node` 47..0. -/
def number (b : Bytes) : Nat := beNat b
def timeLow (n : Nat) : Nat := bitField n 96 32
def timeMid (n : Nat) : Nat := bitField n 80 16
def timeHiAndVersion (n : Nat) : Nat := bitField n 64 16
def clockSeqHiAndReserved (n : Nat) : Nat := bitField n 56 8
def clockSeqLow (n : Nat) : Nat := bitField n 48 8
def node (n : Nat) : Nat := bitField n 0 48

/-- §4.1.3: the version is the most significant 4 bits of `time_hi_and_version` -/
def version (n : Nat) : Nat := timeHiAndVersion n / 2 ^ 12
/-- §4.1.4: the 60-bit timestamp -/
def timestamp (n : Nat) : Nat := (timeHiAndVersion n % 2 ^ 12) * 2 ^ 48 + timeMid n * 2 ^ 32 + timeLow n
/-- §4.1.5: the 14-bit clock sequence: low 6 bits of `clock_seq_hi_and_reserved`, then `clock_seq_low` -/
def clockSeq (n : Nat) : Nat := (clockSeqHiAndReserved n % 2 ^ 6) * 2 ^ 8 + clockSeqLow n

/-- the number of a version-1 UUID with the given 60-bit timestamp, the four bits the library calls
    "variant" on top of octet 8, a clock sequence that fits beside them (12 bits), and a 48-bit node -/
def encodeV1 (variantNibble ts cs nodeId : Nat) : Nat :=
  (ts % 2 ^ 32) * 2 ^ 96 + (ts / 2 ^ 32 % 2 ^ 16) * 2 ^ 80 + (1 * 2 ^ 12 + ts / 2 ^ 48 % 2 ^ 12) * 2 ^ 64 +
  (variantNibble * 2 ^ 4 + cs / 2 ^ 8) * 2 ^ 56 + (cs % 2 ^ 8) * 2 ^ 48 + nodeId

end RFC4122

/-- **Known finding `clockseq12`.**  The library keeps only the low 12 bits of RFC 4122's 14-bit clock
    sequence (bits 13 and 12 — bits 5 and 4 of octet 8 — are taken for the low half of its 4-bit
    "variant").  A clock-sequence value is inside the finding when it does not fit in 12 bits. -/
def KnownBad_clockseq12 (clockSeq14 : Nat) : Bool := decide (2 ^ 12 ≤ clockSeq14)

/-- the generic UUID seen as 32 nibbles: nibble 12 is the version, nibble 16 what the library calls
    the variant, the other thirty are `Data` in order -/
def nibbles (b : Bytes) : List Nat := b.flatMap (fun x => [x.toNat / 16, x.toNat % 16])
def packNibbles : List Nat → Bytes
  | a :: b :: r => UInt8.ofNat (a * 16 + b) :: packNibbles r
  | _ => []

def specJoin (version variant : Nat) (data : Bytes) : Bytes :=
  let nd := nibbles data
  packNibbles (nd.take 12 ++ [version] ++ (nd.drop 12).take 3 ++ [variant] ++ nd.drop 15)

def specSplit (b : Bytes) : Nat × Nat × Bytes :=
  let n := nibbles b
  (n.getD 12 0, n.getD 16 0, packNibbles (n.take 12 ++ (n.drop 13).take 3 ++ n.drop 17))

namespace MSDTYP

/-- MS-DTYP 2.3.4.1/2.3.4.2: `Data1` (32 bits), `Data2`, `Data3` (16 bits), `Data4` (8 bytes) -/
structure Guid where
  data1 : Nat
  data2 : Nat
  data3 : Nat
  data4 : Bytes
  deriving Repr, DecidableEq

/-- 2.3.4.2 GUID packet: `Data1`, `Data2`, `Data3` little-endian, then the 8 bytes of `Data4` -/
def packet (g : Guid) : Bytes := natLe 4 g.data1 ++ natLe 2 g.data2 ++ natLe 2 g.data3 ++ g.data4

def ofPacket (b : Bytes) : Guid :=
  ⟨leNat (b.take 4), leNat ((b.drop 4).take 2), leNat ((b.drop 6).take 2), (b.drop 8).take 8⟩

/-- the pieces of every text form: 8, 4, 4 hex digits of the numbers, then the bytes of `Data4` in order -/
def h1 (g : Guid) : Bytes := fixedHex 8 g.data1
def h2 (g : Guid) : Bytes := fixedHex 4 g.data2
def h3 (g : Guid) : Bytes := fixedHex 4 g.data3
def h4 (g : Guid) (i : Nat) : Bytes := hexOfBytes ((g.data4.drop i).take 1)

/-- 2.3.4.3 curly-braced string `{Data1-Data2-Data3-Data4[0..1]-Data4[2..7]}` without the braces: .NET "D" -/
def textD (g : Guid) : Bytes :=
  h1 g ++ [dash] ++ h2 g ++ [dash] ++ h3 g ++ [dash] ++ hexOfBytes (g.data4.take 2) ++ [dash] ++ hexOfBytes (g.data4.drop 2)
/-- .NET "N": the 32 digits -/
def textN (g : Guid) : Bytes := h1 g ++ h2 g ++ h3 g ++ hexOfBytes g.data4
/-- 2.3.4.3 curly-braced string: .NET "B" -/
def textB (g : Guid) : Bytes := [lbrace] ++ textD g ++ [rbrace]
/-- .NET "P" -/
def textP (g : Guid) : Bytes := [lparen] ++ textD g ++ [rparen]
/-- .NET "X": `{0xData1,0xData2,0xData3,{0xb0,…,0xb7}}` -/
def textX (g : Guid) : Bytes :=
  [lbrace] ++ zx ++ h1 g ++ [comma] ++ zx ++ h2 g ++ [comma] ++ zx ++ h3 g ++ [comma, lbrace] ++
  zx ++ h4 g 0 ++ [comma] ++ zx ++ h4 g 1 ++ [comma] ++ zx ++ h4 g 2 ++ [comma] ++ zx ++ h4 g 3 ++ [comma] ++
  zx ++ h4 g 4 ++ [comma] ++ zx ++ h4 g 5 ++ [comma] ++ zx ++ h4 g 6 ++ [comma] ++ zx ++ h4 g 7 ++ [rbrace, rbrace]

def text : Fmt → Guid → Bytes
  | .N => textN
  | .D => textD
  | .B => textB
  | .P => textP
  | .X => textX

end MSDTYP

/-- the MS-DTYP value a library GUID stands for: `D` and `E` are `Data4[0..1]` and `Data4[2..7]`, big-endian -/
def toSpec (g : GUID) : MSDTYP.Guid := ⟨g.A.toNat, g.B.toNat, g.C.toNat, natBe 2 g.D.toNat ++ natBe 6 g.E.toNat⟩

/-- the library GUID of an MS-DTYP value -/
def ofSpec (m : MSDTYP.Guid) : GUID :=
  ⟨UInt32.ofNat m.data1, UInt16.ofNat m.data2, UInt16.ofNat m.data3,
   UInt16.ofNat (beNat (m.data4.take 2)), UInt64.ofNat (beNat (m.data4.drop 2))⟩

/-- the pattern of each format -/
def pat : Fmt → List Tok
  | .N => patN
  | .D => patD
  | .B => patB
  | .P => patP
  | .X => patX


/-! ### "within the field widths" -/

/-- version and variant are four bits each -/
def UUID.InWidth (u : UUID) : Prop := u.version.toNat < 16 ∧ u.variant.toNat < 16
/-- the widths the library gives the UUIDv1 fields: 4-bit variant, 60-bit timestamp, 12-bit clock sequence -/
def V1.InWidth (v : V1) : Prop := v.variant.toNat < 16 ∧ v.time.toNat < 2 ^ 60 ∧ v.clockSeq.toNat < 2 ^ 12
/-- the widths RFC 4122 gives them: the clock sequence has 14 bits -/
def V1.InWidthRFC (v : V1) : Prop := v.variant.toNat < 16 ∧ v.time.toNat < 2 ^ 60 ∧ v.clockSeq.toNat < 2 ^ 14
/-- UUIDv2 keeps bits 32..59 of the timestamp (`time_low` holds the local identifier) and four clock bits -/
def V2.InWidth (v : V2) : Prop :=
  v.variant.toNat < 16 ∧ v.time.toNat < 2 ^ 60 ∧ v.time.toNat % 2 ^ 32 = 0 ∧ v.clock.toNat < 16
def V8.InWidth (v : V8) : Prop := v.variant.toNat < 16
/-- `E` stands for six bytes -/
def GUID.InWidth (g : GUID) : Prop := g.E.toNat < 2 ^ 48

/-! ### the text grammar, read directly (specification side; the code goes through `Split`/`ParseUint`) -/

/-- value of a string of hex digits -/
def hexValue (s : Bytes) : Nat := s.foldl (fun acc c => acc * 16 + (hexVal? c).getD 0) 0

/-- read a text against a pattern: the values of its hex groups, in order; `none` = not in the language -/
def parsePat : List Tok → Bytes → Option (List Nat)
  | [], s => if s.isEmpty then some [] else none
  | .lit l :: p, s => if l.isPrefixOf s then parsePat p (s.drop l.length) else none
  | .hex n :: p, s =>
    if (s.take n).length == n && (s.take n).all isLowerHex then
      (parsePat p (s.drop n)).map (hexValue (s.take n) :: ·)
    else none

/-- write values into a pattern: each hex group of width `n` holds `fixedHex n v` -/
def render : List Tok → List Nat → Bytes
  | [], _ => []
  | .lit l :: p, vs => l ++ render p vs
  | .hex n :: p, v :: vs => fixedHex n v ++ render p vs
  | .hex n :: p, [] => fixedHex n 0 ++ render p []

/-- the MS-DTYP value denoted by the hex groups of a text of the given format -/
def specOfValues : Fmt → List Nat → Option MSDTYP.Guid
  | .N, [n] => some ⟨bitField n 96 32, bitField n 80 16, bitField n 64 16, natBe 8 (bitField n 0 64)⟩
  | .X, [a, b, c, d0, d1, d2, d3, d4, d5, d6, d7] =>
    some ⟨a, b, c, [d0, d1, d2, d3, d4, d5, d6, d7].map UInt8.ofNat⟩
  | .X, _ => none
  | .N, _ => none
  | _, [a, b, c, d, e] => some ⟨a, b, c, natBe 2 d ++ natBe 6 e⟩
  | _, _ => none

/-- a text denotes a GUID in format `F` when, trimmed and lower-cased, it is in the language of `F` -/
def specParse (F : Fmt) (s : Bytes) : Option MSDTYP.Guid :=
  match parsePat (pat F) (toLower (trimSpace s)) with
  | some vs => specOfValues F vs
  | none => none

end Manticore.C13
