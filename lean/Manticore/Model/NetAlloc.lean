/-
  C07, allocation clause: LLMNR messages (C09), NBNS packets (C10), NBT session frames (C11).

  Sizes of the decoded values (one per byte of a string or byte-string field, 8 per integer field,
  summed over the sections) and the `make` calls whose size is read from the wire:

  * `rr.RData = make([]byte, rr.RDLength)` in `llmnr.DecodeResourceRecord` and in the `unmarshalRRs`
    closure of `NBTNSPacket.Unmarshal`: both stand behind `offset+int(rr.RDLength) > len(data)`;
    `rdataAllocOf` is the size of the `make` when it is reached, 0 when the function returns earlier;
  * `buffer := make([]byte, length)` in `NBTTransport.Receive`: allocated from the 17-bit LENGTH
    field of the four header bytes BEFORE the body is read (`receiveAllocOf`) — bounded by the
    field's range, not by what the peer goes on to send.
  Core Lean only.
-/
import Manticore.Model.C09
import Manticore.Model.C10
import Manticore.Model.C11
namespace Manticore.C09
open Manticore

def Question.size (q : Question) : Nat := q.name.length + 16
def RR.size (r : RR) : Nat := r.name.length + 32 + r.rdata.length
/-- header (six integers) and the four sections -/
def Message.size (m : Message) : Nat :=
  48 + (m.questions.map Question.size).sum + (m.answers.map RR.size).sum + (m.authority.map RR.size).sum
    + (m.additional.map RR.size).sum
/-- number of questions and records -/
def Message.count (m : Message) : Nat :=
  m.questions.length + m.answers.length + m.authority.length + m.additional.length

/-- `rr.RData = make([]byte, rr.RDLength)` in `DecodeResourceRecord`, `off` = the offset behind the name:
    reached only behind `off+10 > len(data)` and `offset+int(rr.RDLength) > len(data)` -/
def rdataAllocOf (data : Bytes) (off : Nat) : Nat :=
  if off + 10 > data.length then 0
  else match readBe16 data (off + 8) with
    | .ok rdl => if off + 10 + rdl.toNat > data.length then 0 else rdl.toNat
    | _ => 0

/-- the defect the clause is about: the `make` in front of the "truncated rdata" check -/
def rdataAllocEager (data : Bytes) (off : Nat) : Nat :=
  if off + 10 > data.length then 0
  else match readBe16 data (off + 8) with
    | .ok rdl => rdl.toNat
    | _ => 0

end Manticore.C09

namespace Manticore.C10
open Manticore

def NBName.size (n : NBName) : Nat := n.name.length + n.scope.length
def Question.size (q : Question) : Nat := q.name.size + 16
def RR.size (r : RR) : Nat := r.name.size + 32 + r.rdata.length
def Packet.size (p : Packet) : Nat :=
  48 + (p.questions.map Question.size).sum + (p.answers.map RR.size).sum + (p.authority.map RR.size).sum
    + (p.additional.map RR.size).sum

/-- `rr.RData = make([]byte, rr.RDLength)` in `unmarshalRRs`, `next` = the offset behind the name -/
def rdataAllocOf (data : Bytes) (next : Nat) : Nat :=
  if next + 10 > data.length then 0
  else match rd16 data (next + 8) with
    | .ok rdl => if next + 10 + rdl.toNat > data.length then 0 else rdl.toNat
    | _ => 0

end Manticore.C10

namespace Manticore.C11
open Manticore

/-- what `Receive` has allocated when it returns: `header := make([]byte, 4)` always, and
    `buffer := make([]byte, length)` as soon as four header bytes with message type 0x00 arrived —
    before a single byte of the body is read -/
def receiveAllocOf (s : Stream) : Nat :=
  match readFull s 4 with
  | .ok (hdr, _) =>
    match index hdr 0, index hdr 1, index hdr 2, index hdr 3 with
    | .ok messageType, .ok h1, .ok h2, .ok h3 => if messageType ≠ 0x00 then 4 else 4 + lengthOf h1 h2 h3
    | _, _, _, _ => 4
  | _ => 4

end Manticore.C11
