/-
  C18 — name-service servers/clients isolate concurrent requests and stop cleanly.

  1. NBNS opcode dispatch: the `switch packet.Header.Flags & MASK` of the three servers, interpreted over
     the mask and case constants regenerated from the source (`Gen/NbnsDispatch.lean`), and the RFC 1002
     table it has to agree with.
  2. NBNS request handling (`handlePacket` / `handleMessage` + `handlers.go`) on the C17 table model:
     what the response carries.
  3. LLMNR: handler chain of the server, response routing of the client (`Client.Queries`, `readLoop`).
  4. The interleaving model "receive loop + handler goroutines" (`World`): one reused receive buffer,
     handler tasks whose view of the request is either a window of that buffer or a copy of their own.
  5. Shutdown as a transition system (`quit`/`Closed` channel, socket, serve loop, `sync.Once`).

  Core Lean only.
-/
import Manticore.Basic
import Manticore.Model.C17
import Manticore.Gen.NbnsDispatch
import Manticore.Gen.ServerFacts
namespace Manticore.C18
open Manticore
open Manticore.Gen.NbnsDispatch (Handler Site Guard)

/-! ## 1. opcode dispatch -/

/-- RFC 1002 §4.2.1.1: `R(1) OPCODE(4) NM_FLAGS(7) RCODE(4)` — the opcode is bits 11..14 of the flags word -/
def opcode (f : BitVec 16) : BitVec 4 := f.extractLsb' 11 4

/-- the response bit R (bit 15) -/
def isResponse (f : BitVec 16) : Bool := f.getLsbD 15

/-- RFC 1002 §4.2.1.1, table "OPCODE": 0 query, 5 registration, 6 release, 7 WACK, 8 refresh.
    WACK is sent by servers only, so a server has no request handler for it; the unassigned values
    (1–4, 9–15; §4.2.4's diagram shows 9 for refresh, an erratum not followed here) are not implemented. -/
def rfc1002Handler (op : BitVec 4) : Handler :=
  match op.toNat with
  | 0 => .query
  | 5 => .registration
  | 6 => .release
  | 8 => .refresh
  | _ => .notImpl

/-- Go `switch sel { case c₁: … case c₂: … default: … }` over constants -/
def dispatchOn (cases : List (Nat × Handler)) (sel : Nat) : Handler :=
  match cases.find? (fun c => c.1 == sel) with
  | some c => c.2
  | none => .notImpl

/-- the handler a server's dispatch site selects for a flags word -/
def dispatch (site : Site) (f : BitVec 16) : Handler :=
  dispatchOn site.cases (f &&& BitVec.ofNat 16 site.mask).toNat

/-- `if p.Header.Flags&mask != const { return }` lets the packet through -/
def guardPasses (g : Guard) (f : BitVec 16) : Bool := (f &&& BitVec.ofNat 16 g.mask).toNat == g.const

/-! ## 2. NBNS request handling on the name table -/

structure Question where
  name : C17.Name
  qtype : Nat
  qclass : Nat
  deriving DecidableEq, Repr

/-- a resource record of a request's answer section (the registrations / releases / refreshes it asks for) -/
structure ReqRR where
  name : C17.Name
  ttl : Nat
  addr : C17.IP
  deriving DecidableEq, Repr

structure Request where
  id : Nat
  flags : BitVec 16
  questions : List Question
  answers : List ReqRR
  deriving DecidableEq, Repr

/-- an answer record of a response: copied question name/type/class and one owner address -/
structure Answer where
  name : C17.Name
  qtype : Nat
  qclass : Nat
  addr : C17.IP
  deriving DecidableEq, Repr

structure Response where
  id : Nat
  flags : BitVec 16
  qdcount : Nat
  answers : List Answer
  deriving DecidableEq, Repr

def flagResponseAuthoritative : BitVec 16 := 0x8400#16
def groupBit : BitVec 16 := 0x0080#16
def rcodeServerError : BitVec 16 := 0x0002#16
def rcodeNameError : BitVec 16 := 0x0003#16
def rcodeNotImpl : BitVec 16 := 0x0004#16
def rcodeConflict : BitVec 16 := 0x0007#16

/-- `handleNameQuery`: for each question, the owners of the name, one answer record per owner;
    stops at the first name that is not found -/
def handleQuery (tbl : C17.State) : List Question → Response → Response
  | [], resp => resp
  | q :: qs, resp =>
    match (C17.step tbl (.query q.name)).2 with
    | .owners l t =>
      let resp := { resp with answers := resp.answers ++ l.map (fun o => ⟨q.name, q.qtype, q.qclass, o⟩) }
      let resp := if t = .group then { resp with flags := resp.flags ||| groupBit } else resp
      handleQuery tbl qs resp
    | _ => { resp with flags := resp.flags ||| rcodeNameError }

/-- `handleRegistration` / `handleRelease` / `handleRefresh`: one table call per record of the request's
    answer section; stops at the first failing call, setting the handler's error code -/
def handleUpdates (mk : ReqRR → C17.Op) (rcode : BitVec 16) : C17.State → List ReqRR → Response → C17.State × Response
  | tbl, [], resp => (tbl, resp)
  | tbl, rr :: rrs, resp =>
    let (tbl', out) := C17.step tbl (mk rr)
    if out = .ok then handleUpdates mk rcode tbl' rrs resp
    else (tbl', { resp with flags := resp.flags ||| rcode })

/-- `handlePacket` / `handleMessage` after a successful `Unmarshal`: build the response header from the
    request's transaction id, dispatch on the opcode, let the handler fill the response. -/
def handle (site : Site) (tbl : C17.State) (req : Request) : C17.State × Response :=
  let resp : Response := ⟨req.id, flagResponseAuthoritative, 0, []⟩
  match dispatch site req.flags with
  | .query => (tbl, handleQuery tbl req.questions resp)
  | .registration =>
    let t : C17.NameType := if (req.flags &&& groupBit) != 0#16 then .group else .unique
    handleUpdates (fun rr => .register rr.name t rr.addr (rr.ttl == 0)) rcodeConflict tbl req.answers resp
  | .release => handleUpdates (fun rr => .release rr.name rr.addr) rcodeServerError tbl req.answers resp
  | .refresh => handleUpdates (fun rr => .refresh rr.name rr.addr) rcodeServerError tbl req.answers resp
  | .notImpl => (tbl, { resp with flags := resp.flags ||| rcodeNotImpl })

/-- the same with the RFC's routing instead of the code's: the specification of a server's answer -/
def handleSpec (tbl : C17.State) (req : Request) : C17.State × Response :=
  let resp : Response := ⟨req.id, flagResponseAuthoritative, 0, []⟩
  match rfc1002Handler (opcode req.flags) with
  | .query => (tbl, handleQuery tbl req.questions resp)
  | .registration =>
    let t : C17.NameType := if (req.flags &&& groupBit) != 0#16 then .group else .unique
    handleUpdates (fun rr => .register rr.name t rr.addr (rr.ttl == 0)) rcodeConflict tbl req.answers resp
  | .release => handleUpdates (fun rr => .release rr.name rr.addr) rcodeServerError tbl req.answers resp
  | .refresh => handleUpdates (fun rr => .refresh rr.name rr.addr) rcodeServerError tbl req.answers resp
  | .notImpl => (tbl, { resp with flags := resp.flags ||| rcodeNotImpl })

/-! ## 3. LLMNR -/

/-- `Server.processHandlers`: run the handlers in order until one says "stop" (returns `false`);
    the result lists which handlers ran -/
def processHandlers {μ : Type} : List (μ → Bool) → μ → List Nat → Nat → List Nat
  | [], _, ran, _ => ran
  | h :: hs, m, ran, i => if h m then processHandlers hs m (ran ++ [i]) (i + 1) else ran ++ [i]

structure Msg where
  id : Nat
  response : Bool      -- the QR flag
  payload : Nat
  deriving DecidableEq, Repr

/-- `Client.Queries`: id ↦ response channel of capacity 1 (`none` = empty) -/
abbrev Queries := List (Nat × Option Msg)

def qlookup : Queries → Nat → Option (Option Msg)
  | [], _ => none
  | (k, v) :: qs, id => if k = id then some v else qlookup qs id
def qerase (qs : Queries) (id : Nat) : Queries := qs.filter (fun p => decide (p.1 ≠ id))
def qput (qs : Queries) (id : Nat) (v : Option Msg) : Queries := (id, v) :: qerase qs id

/-- what can happen to the client's query table -/
inductive ClientEv
  | store (id : Nat)       -- `Query`: `c.Queries.Store(msg.ID, make(chan *Message, 1))`
  | delete (id : Nat)      -- `defer c.Queries.Delete(msg.ID)`
  | recv (m : Msg)         -- `readLoop` decoded a datagram
  | take (id : Nat)        -- `Query` received from its channel
  deriving DecidableEq, Repr

/-- `readLoop`: ignore non-responses; look the id up; non-blocking send into the channel -/
def clientStep (qs : Queries) : ClientEv → Queries
  | .store id => qput qs id none
  | .delete id => qerase qs id
  | .recv m =>
    if !m.response then qs
    else match qlookup qs m.id with
      | some none => qput qs m.id (some m)      -- `case responseChan <- msg:`
      | some (some _) => qs                     -- `default:` channel full, dropped
      | none => qs                              -- no such query
  | .take id =>
    match qlookup qs id with
    | some (some _) => qput qs id none
    | _ => qs

def clientRun (qs : Queries) (evs : List ClientEv) : Queries := evs.foldl clientStep qs

/-! ## 4. receive loop + handler goroutines -/

/-- what a handler goroutine was given: a window `buf[:n]` of the loop's buffer, or bytes of its own -/
inductive View
  | shared (n : Nat)
  | owned (b : Bytes)
  deriving DecidableEq, Repr

structure Task where
  client : Nat
  view : View
  deriving DecidableEq, Repr

/-- `σ`: whatever server state the handlers read and write (the name table) -/
structure World (σ : Type) where
  buf : Bytes                    -- the receive buffer allocated before the loop, reused by every read
  tasks : List Task              -- goroutines started and not yet run
  outbox : List (Nat × Bytes)    -- responses sent: (destination client, bytes)
  sent : List (Nat × Bytes)      -- ghost: the datagrams received so far, with their senders
  st : σ

inductive Step
  | recv (client : Nat) (dgram : Bytes)   -- the loop reads one datagram and starts a goroutine
  | run (i : Nat)                          -- the scheduler runs the i-th pending goroutine to completion
  deriving DecidableEq, Repr

/-- `copies`: does the loop give the goroutine a copy (`true`) or `buf[:n]` (`false`)?  — per loop an
    extracted fact (`Gen.ServerFacts`, `sharesBuffer`). -/
def wstep {σ : Type} (respond : σ → Bytes → σ × Bytes) (copies : Bool) (w : World σ) : Step → World σ
  | .recv c d =>
    let n := min d.length w.buf.length            -- a UDP read truncates to the buffer
    let buf' := d.take n ++ w.buf.drop n          -- ReadFromUDP overwrites buf[0:n]
    let v := if copies then View.owned (buf'.take n) else View.shared n
    { w with buf := buf', tasks := w.tasks ++ [⟨c, v⟩], sent := w.sent ++ [(c, d.take n)] }
  | .run i =>
    match w.tasks[i]? with
    | none => w
    | some t =>
      let data := match t.view with
        | .shared n => w.buf.take n               -- reads the buffer *now*
        | .owned b => b
      let (st', r) := respond w.st data
      { w with tasks := w.tasks.eraseIdx i, outbox := w.outbox ++ [(t.client, r)], st := st' }

def wrun {σ : Type} (respond : σ → Bytes → σ × Bytes) (copies : Bool) (w : World σ) (sched : List Step) : World σ :=
  sched.foldl (wstep respond copies) w

def winit {σ : Type} (cap : Nat) (s : σ) : World σ := ⟨List.replicate cap 0, [], [], [], s⟩

/-! ## 5. shutdown -/

/-- where the serve goroutine is -/
inductive Pc | atSelect | inRead | exited
  deriving DecidableEq, Repr

/-- what a blocked socket read returns -/
inductive ReadResult | data | timeout | closedErr
  deriving DecidableEq, Repr

structure Srv where
  quitClosed : Bool
  sockClosed : Bool
  pc : Pc
  handlers : Nat       -- handler goroutines in flight
  stopCalls : Nat
  panicked : Bool
  deriving DecidableEq, Repr

def srvInit : Srv := ⟨false, false, .atSelect, 0, 0, false⟩

inductive SrvEv
  | stop                       -- a call of Stop / Close
  | loop (r : ReadResult)      -- the serve goroutine takes its next step (`r`: what the read returns, if it is reading)
  | handlerDone
  deriving DecidableEq, Repr

/-- "Close unblocks Read": once the socket is closed, a read can only return the closed-socket error -/
def consistent (s : Srv) : SrvEv → Bool
  | .loop r => !(s.sockClosed && s.pc == .inRead) || r == .closedErr
  | _ => true

/-- `once`: is `close(quit)` guarded by a `sync.Once` (extracted fact `closeUnderOnce`)? -/
def srvStep (once : Bool) (s : Srv) : SrvEv → Srv
  | .stop =>
    if s.quitClosed then
      if once then { s with stopCalls := s.stopCalls + 1 }                      -- Once.Do does nothing the second time
      else { s with stopCalls := s.stopCalls + 1, panicked := true }            -- close of closed channel
    else { s with quitClosed := true, sockClosed := true, stopCalls := s.stopCalls + 1 }
  | .loop r =>
    match s.pc with
    | .exited => s
    | .atSelect => if s.quitClosed then { s with pc := .exited } else { s with pc := .inRead }
    | .inRead =>
      match r with
      | .data => { s with pc := .atSelect, handlers := s.handlers + 1 }         -- `go handle(...)`
      | .timeout => { s with pc := .atSelect }                                  -- `continue`
      | .closedErr => { s with pc := .atSelect }                                -- logged, `continue`
  | .handlerDone => { s with handlers := s.handlers - 1 }

def srvRun (once : Bool) (s : Srv) (evs : List SrvEv) : Srv := evs.foldl (srvStep once) s

/-- number of steps of the serve goroutine in a schedule -/
def loopSteps : List SrvEv → Nat
  | [] => 0
  | .loop _ :: es => loopSteps es + 1
  | _ :: es => loopSteps es

/-- every event of the schedule respects "Close unblocks Read" in the state where it happens -/
def Consistent (once : Bool) : Srv → List SrvEv → Prop
  | _, [] => True
  | s, e :: es => consistent s e = true ∧ Consistent once (srvStep once s e) es

end Manticore.C18
