/-
  The round-trip specification's notion of "internally consistent" with the length relations taken
  from the PINNED table `Spec/SmbRelations.lean` instead of from the unmarshal program under test:
  if a decoder starts sizing a buffer with another field, assignments that are consistent in the
  documented sense stop round-tripping and the check exhibits one.  `Props/C04.lean` proves that on
  this tree the extracted relations are exactly the pinned ones (so `consistentPinned = consistent`).
-/
import Manticore.Model.SmbCmd
import Manticore.Spec.SmbRelations
namespace Manticore.SmbIR
open Manticore

mutual
/-- the (buffer or list field, length or count expression) pairs an unmarshal program relies on, and — under the
    pseudo-fields `padLen`, `padLen:roundUp`, `padLen:ifPOdd` — the arithmetic by which it sizes a padding field -/
def relStmt : UStmt → List (String × Expr)
  | .readBytes _ f e => [(f, e)]
  | .forCountInt _ _ _ f g => [(f, .fint g)]
  | .forCountSub _ f g _ _ => [(f, .fint g)]
  -- the arithmetic behind a padding length: what `padLen` starts from, and the two adjustments
  | .setPad e => [("padLen", e)]
  | .padRoundUp => [("padLen:roundUp", .pad)]
  | .padIfPOdd => [("padLen:ifPOdd", .lit 1)]
  | .ifWordCount _ body => relStmts body
  | _ => []
def relStmts : List UStmt → List (String × Expr)
  | [] => []
  | s :: r => relStmt s ++ relStmts r
end

def extractedRelations (cs : List Cmd) : List (String × String × Expr) :=
  cs.flatMap (fun c => (relStmts c.unmarshal).map (fun p => (c.name, p.1, p.2)))

def pinnedFor (name : String) : List (String × Expr) :=
  (Manticore.Spec.SmbRelations.relations.filter (·.1 == name)).map (·.2)

def lookupRel (pinned : List (String × Expr)) (f : String) (dflt : Expr) : Expr :=
  match pinned.find? (·.1 == f) with
  | some p => p.2
  | none => dflt

/-- `relationsHold` with every buffer length / list count looked up in the pinned table -/
def relationsHoldPinned (C : Codecs) (pinned : List (String × Expr)) (env : Env) (plen : Nat) : (pad : Nat) → List UStmt → Bool
  | _, [] => true
  | pad, .readBytes _ f e :: r =>
    (match env.get f, lookupRel pinned f e with
      | some (.b bs), .pad => bs.length == pad
      | some (.b bs), e' => evalEnv env e' == some bs.length
      | _, _ => false) && relationsHoldPinned C pinned env plen pad r
  | pad, .readArr _ f n :: r => (match env.get f with | some (.b bs) => bs.length == n | _ => false) && relationsHoldPinned C pinned env plen pad r
  | pad, .readArr3 _ f :: r => (match env.get f with | some (.ns xs) => xs.length == 3 | _ => false) && relationsHoldPinned C pinned env plen pad r
  | pad, .readSub _ f typ _ _ _ _ :: r => (match env.get f with | some (.t v) => tupOk C typ v | _ => false) && relationsHoldPinned C pinned env plen pad r
  | pad, .forCountInt _ _ _ f g :: r =>
    (match env.get f with
      | some (.ns xs) => evalEnv env (lookupRel pinned f (.fint g)) == some xs.length
      | _ => false) && relationsHoldPinned C pinned env plen pad r
  | pad, .forCountSub _ f g typ _ :: r =>
    (match env.get f with
      | some (.ts vs) => evalEnv env (lookupRel pinned f (.fint g)) == some vs.length && vs.all (tupOk C typ) && vs.all (tupFix C typ)
      | _ => false) && relationsHoldPinned C pinned env plen pad r
  | pad, .whileFitsSub _ f typ _ :: r =>
    (match env.get f with | some (.ts vs) => vs.all (tupOk C typ) | _ => false) && relationsHoldPinned C pinned env plen pad r
  | pad, .cstrUnicode f :: r =>
    (match env.get f with | some (.b bs) => bs.length % 2 == 0 && (cstrUnicode (bs ++ [0, 0])).1 == bs | _ => false) && relationsHoldPinned C pinned env plen pad r
  | _, .setPad e :: r =>
    (match evalEnv env (lookupRel pinned "padLen" e) with | some n => relationsHoldPinned C pinned env plen n r | none => false)
  | pad, .padRoundUp :: r => relationsHoldPinned C pinned env plen (if pad % 2 = 1 then pad + 1 else pad) r
  | pad, .padIfPOdd :: r => relationsHoldPinned C pinned env plen (if (plen + 3) % 2 = 1 then 1 else pad) r
  | pad, .ifWordCount _ body :: r => relationsHoldPinned C pinned env plen pad body && relationsHoldPinned C pinned env plen pad r
  | pad, _ :: r => relationsHoldPinned C pinned env plen pad r

/-- C04 "internally consistent", lengths and counts per the pinned table -/
def consistentPinned (C : Codecs) (c : Cmd) (env : Env) : Bool :=
  andxOk c.isAndX env &&
  match runM C c env with
  | .ok s =>
    intsFit s.env c.marshal && relationsHoldPinned C (pinnedFor c.name) s.env s.P.length 0 c.unmarshal &&
    s.P.length % 2 == 0 && wordCountOf c.isAndX s.P ≤ 255 && s.D.length ≤ 65535 &&
    (s.P.length > 0 || s.D.length > 0 || c.fields.isEmpty)
  | _ => false

end Manticore.SmbIR
