/-
  C08 — NTLMSSP messages and SPNEGO tokens.

  Model (namespace `Manticore.C08`): transliteration of
    network/smb/smb_v10/spnego/ntlm/ntlm.go     CreateNegotiateMessage, CreateAuthenticateMessage,
                                                ParseChallengeMessage, ParseTargetInfo
    network/smb/smb_v10/spnego/ntlm/version     DefaultVersion / Marshal / Unmarshal
    network/smb/smb_v10/spnego/spnego.go        CreateNegTokenInit, CreateNegTokenResp, encodeLength,
                                                ParseNegTokenResp, ExtractNTLMToken
  `encoding/asn1` is trusted; what the model contains of it is the behaviour of `asn1.Marshal` /
  `asn1.Unmarshal` on exactly the Go types used here (`parseField` with explicit context tags,
  optional members, SEQUENCE OF OBJECT IDENTIFIER, ENUMERATED, OCTET STRING, BIT STRING), tied to the
  real package by the harness.

  Text: a Go string is its bytes.  `strings.ToUpper` and `utf16.EncodeUTF16LE` are the parameters
  `upper utf16 : Bytes → Bytes` (DESIGN §2).

  Spec (namespace `Manticore.C08.Spec`): MS-NLMP 2.2.1.1–2.2.1.3 message layouts read with plain
  number arithmetic, an independent CHALLENGE builder, AV_PAIR lists (2.2.2.1), X.690 §8.1.3 definite
  lengths and the DER of RFC 4178 `NegTokenInit`.
-/
import Manticore.Basic
namespace Manticore.C08
open Manticore

/-! ## NTLMSSP: constants -/

def signature : Bytes := [78, 84, 76, 77, 83, 83, 80, 0]   -- "NTLMSSP\0"

def F_UNICODE : UInt32 := 0x00000001
def F_OEM : UInt32 := 0x00000002
def F_REQUEST_TARGET : UInt32 := 0x00000004
def F_NTLM : UInt32 := 0x00000200
def F_DOMAIN_SUPPLIED : UInt32 := 0x00001000
def F_WORKSTATION_SUPPLIED : UInt32 := 0x00002000
def F_ALWAYS_SIGN : UInt32 := 0x00008000
def F_ESS : UInt32 := 0x00080000
def F_TARGET_INFO : UInt32 := 0x00800000
def F_VERSION : UInt32 := 0x02000000
def F_128 : UInt32 := 0x20000000
def F_56 : UInt32 := 0x80000000

/-- `version.DefaultVersion().Marshal()`: 10.0 build 18362 (0x47BA little-endian), revision 15 -/
def defaultVersion : Bytes := [10, 0, 0xBA, 0x47, 0, 0, 0, 15]

def zeros (n : Nat) : Bytes := List.replicate n 0

/-- the three `PutUint16(uint16(len(x)))`, `PutUint16(uint16(len(x)))`, `PutUint32(uint32(off))`
    writes of one field descriptor, with the conversions exactly as written -/
def descriptor (len off : Nat) : Bytes :=
  putLe16 (UInt16.ofNat len) ++ putLe16 (UInt16.ofNat len) ++ putLe32 (UInt32.ofNat off)

/-! ## CreateNegotiateMessage -/

/-- `if s != "" { if useUnicode { EncodeUTF16LE(s) } else { []byte(ToUpper(s)) } }` (else nil) -/
def negName (upper utf16 : Bytes → Bytes) (unicode : Bool) (s : Bytes) : Bytes :=
  if s = [] then [] else if unicode then utf16 s else upper s

def negotiateFlags (domain workstation : Bytes) (unicode : Bool) : UInt32 :=
  let f0 := F_NTLM ||| F_ALWAYS_SIGN ||| F_ESS ||| F_128 ||| F_56 ||| F_REQUEST_TARGET |||
            F_TARGET_INFO ||| F_VERSION
  let f1 := if unicode then f0 ||| F_UNICODE else f0 ||| F_OEM
  let f2 := if domain ≠ [] then f1 ||| F_DOMAIN_SUPPLIED else f1
  if workstation ≠ [] then f2 ||| F_WORKSTATION_SUPPLIED else f2

def createNegotiate (upper utf16 : Bytes → Bytes) (domain workstation : Bytes) (unicode : Bool) : Bytes :=
  let d := negName upper utf16 unicode domain
  let w := negName upper utf16 unicode workstation
  signature ++ putLe32 1 ++ putLe32 (negotiateFlags domain workstation unicode) ++
    descriptor d.length 40 ++ descriptor w.length (40 + d.length) ++ defaultVersion ++ d ++ w

/-- `CreateNegotiateMessage` as a whole (fix C08-descriptor-length-guard): a descriptor carries the length of its
    field as a 16-bit number, so `if len(domainBytes) > 0xFFFF || len(workstationBytes) > 0xFFFF { return nil, err }`
    stands in front of the writes; `createNegotiate` is what follows the guard -/
def createNegotiateMessage (upper utf16 : Bytes → Bytes) (domain workstation : Bytes) (unicode : Bool) : Outcome Bytes :=
  let d := negName upper utf16 unicode domain
  let w := negName upper utf16 unicode workstation
  if d.length > 65535 ∨ w.length > 65535 then .err
  else .ok (createNegotiate upper utf16 domain workstation unicode)

/-! ## CreateAuthenticateMessage

The LM and NT responses are computed by the functions of property C02 (they depend on the clock and
on `crypto/rand`); here they are the explicit arguments `lm nt`. -/

structure AuthNames where
  domain : Bytes
  user : Bytes
  workstation : Bytes

/-- the `if useUnicode { … } else { … }` block (after fix C02-ntlmv2-domain-case the domain is sent as
    supplied — it is the string the NTLMv2 key is derived from; the workstation is still upper-cased) -/
def authNames (upper utf16 : Bytes → Bytes) (flags : UInt32) (user domain workstation : Bytes) : AuthNames :=
  if flags &&& F_UNICODE ≠ 0 then
    { domain := utf16 domain, user := utf16 user, workstation := utf16 (upper workstation) }
  else
    { domain := domain, user := user, workstation := upper workstation }

def createAuthenticate (upper utf16 : Bytes → Bytes) (flags : UInt32) (lm nt : Bytes)
    (user domain workstation : Bytes) : Bytes :=
  let n := authNames upper utf16 flags user domain workstation
  let lmOff := 88
  let ntOff := lmOff + lm.length
  let domOff := ntOff + nt.length
  let userOff := domOff + n.domain.length
  let wsOff := userOff + n.user.length
  let keyOff := wsOff + n.workstation.length
  signature ++ putLe32 3 ++
    descriptor lm.length lmOff ++ descriptor nt.length ntOff ++ descriptor n.domain.length domOff ++
    descriptor n.user.length userOff ++ descriptor n.workstation.length wsOff ++ descriptor 0 keyOff ++
    putLe32 flags ++
    (if flags &&& F_VERSION ≠ 0 then defaultVersion else zeros 8) ++
    zeros 16 ++
    lm ++ nt ++ n.domain ++ n.user ++ n.workstation

/-- `CreateAuthenticateMessage` as a whole (fix C08-descriptor-length-guard): behind the computation of the two
    responses, `for _, field := range [][]byte{lmResponse, ntResponse, domainBytes, usernameBytes, workstationBytes}
    { if len(field) > 0xFFFF { return nil, err } }`; `createAuthenticate` is what follows the guard -/
def createAuthenticateMessage (upper utf16 : Bytes → Bytes) (flags : UInt32) (lm nt : Bytes)
    (user domain workstation : Bytes) : Outcome Bytes :=
  let n := authNames upper utf16 flags user domain workstation
  if [lm, nt, n.domain, n.user, n.workstation].any (fun field => field.length > 65535) then .err
  else .ok (createAuthenticate upper utf16 flags lm nt user domain workstation)

/-! ## ParseChallengeMessage -/

structure Challenge where
  flags : UInt32
  serverChallenge : Bytes     -- 8 bytes
  reserved : Bytes            -- 8 bytes
  targetName : Bytes
  targetInfo : Bytes
  version : Bytes             -- the 8 bytes `Version.Marshal()` gives for the parsed structure
  deriving DecidableEq, Repr

def u16At (d : Bytes) (i : Nat) : UInt16 := le16 (d.getD i 0) (d.getD (i+1) 0)
def u32At (d : Bytes) (i : Nat) : UInt32 := le32 (d.getD i 0) (d.getD (i+1) 0) (d.getD (i+2) 0) (d.getD (i+3) 0)

/-- one payload field: `if len > 0 && uint64(off)+uint64(len) <= uint64(len(data)) { f = data[off:off+len] }`
    (the guard as repaired by fix C08-challenge-offset-wrap; before it the sum was taken in `uint32`
    and `data[0xffffffff:1]` panicked).  The slice expression keeps its bounds check in the model. -/
def payloadField (d : Bytes) (len : UInt16) (off : UInt32) : Outcome Bytes :=
  if len > 0 ∧ off.toNat + len.toNat ≤ d.length then slice d off.toNat (off.toNat + len.toNat)
  else .ok []

/-- `Version.Unmarshal(data[48:56])` followed by `Marshal()` of the result -/
def versionRoundTrip (v : Bytes) : Bytes :=
  [v.getD 0 0, v.getD 1 0] ++ putLe16 (le16 (v.getD 2 0) (v.getD 3 0)) ++ [v.getD 4 0, v.getD 5 0, v.getD 6 0, v.getD 7 0]

def parseChallenge (d : Bytes) : Outcome Challenge :=
  if d.length < 56 then .err
  else if d.take 8 ≠ signature then .err
  else if u32At d 8 ≠ 2 then .err
  else do
    let tn ← payloadField d (u16At d 12) (u32At d 16)
    let flags := u32At d 20
    let ti ← payloadField d (u16At d 40) (u32At d 44)
    let ver := if flags &&& F_VERSION ≠ 0 ∧ d.length ≥ 56 then versionRoundTrip ((d.drop 48).take 8) else zeros 8
    pure { flags := flags, serverChallenge := (d.drop 24).take 8, reserved := (d.drop 32).take 8,
           targetName := tn, targetInfo := ti, version := ver }

/-! ## ParseTargetInfo — the Go map as a key-sorted association list -/

abbrev AvMap := List (UInt16 × Bytes)

/-- `result[k] = v` -/
def avInsert (k : UInt16) (v : Bytes) : AvMap → AvMap
  | [] => [(k, v)]
  | (k', v') :: t =>
    if k < k' then (k, v) :: (k', v') :: t
    else if k = k' then (k, v) :: t
    else (k', v') :: avInsert k v t

/-- the loop of `ParseTargetInfo` on the bytes from `offset` on (`fuel` bounds the iterations; every
    iteration consumes at least 4 bytes, so `len + 1` is always enough) -/
def parseTargetInfoLoop : Nat → Bytes → AvMap → Outcome AvMap
  | 0, _, acc => .ok acc
  | fuel+1, rest, acc =>
    match rest with
    | [] => .ok acc                                   -- `offset < len(targetInfo)` is false
    | [_] | [_, _] | [_, _, _] => .err                -- "target info truncated"
    | i0 :: i1 :: l0 :: l1 :: body =>
      let avId := le16 i0 i1
      let avLen := (le16 l0 l1).toNat
      if avLen > body.length then .err               -- "target info value truncated"
      else
        let acc' := if avId ≠ 0 then avInsert avId (body.take avLen) acc else acc
        if avId = 0 then .ok acc' else parseTargetInfoLoop fuel (body.drop avLen) acc'

def parseTargetInfo (ti : Bytes) : Outcome AvMap := parseTargetInfoLoop (ti.length + 1) ti []

/-! ## SPNEGO: what `asn1.Marshal` emits for the types used -/

/-- minimal big-endian digits of a positive number (empty for 0) -/
def base256 (n : Nat) : Bytes :=
  if _h : n = 0 then [] else base256 (n / 256) ++ [UInt8.ofNat (n % 256)]
decreasing_by omega

/-- DER length octets as `encoding/asn1` writes them -/
def derLen (n : Nat) : Bytes :=
  if n < 128 then [UInt8.ofNat n] else UInt8.ofNat (0x80 + (base256 n).length) :: base256 n

def tlv (tag : UInt8) (content : Bytes) : Bytes := tag :: derLen content.length ++ content

/-- base-128 digits, most significant first, continuation bit on all but the last -/
def base128Hi (n : Nat) : Bytes :=
  if _h : n = 0 then [] else base128Hi (n / 128) ++ [UInt8.ofNat (0x80 + n % 128)]
decreasing_by omega
def base128 (n : Nat) : Bytes := base128Hi (n / 128) ++ [UInt8.ofNat (n % 128)]

/-- `asn1.Marshal(ObjectIdentifier)`: `none` when Go rejects the identifier -/
def oidContent (arcs : List Nat) : Option Bytes :=
  match arcs with
  | a :: b :: rest =>
    if a > 2 ∨ (a < 2 ∧ b ≥ 40) then none
    else some (base128 (a * 40 + b) ++ rest.flatMap base128)
  | _ => none

def ntlmOid : List Nat := [1, 3, 6, 1, 4, 1, 311, 2, 2, 10]
def spnegoOid : List Nat := [1, 3, 6, 1, 5, 5, 2]
/-- `asn1.Marshal(SpnegoOID)` -/
def spnegoOidTLV : Bytes := [0x06, 0x06, 0x2b, 0x06, 0x01, 0x05, 0x05, 0x02]
/-- `asn1.Marshal(NtlmOID)` -/
def ntlmOidTLV : Bytes := [0x06, 0x0a, 0x2b, 0x06, 0x01, 0x04, 0x01, 0x82, 0x37, 0x02, 0x02, 0x0a]

/-- an `explicit,optional,tag:n` `[]byte` member: omitted when it is the zero value, i.e. a **nil**
    slice (`none`); an empty non-nil slice is written as an empty OCTET STRING -/
def optOctets (ctx : UInt8) (b : Option Bytes) : Bytes :=
  match b with
  | none => []
  | some b => tlv ctx (tlv 0x04 b)

/-- `asn1.Marshal(NegTokenInit{MechTypes: {NtlmOID}, MechToken: t})` -/
def marshalNegTokenInit (t : Option Bytes) : Bytes :=
  tlv 0x30 (tlv 0xA0 (tlv 0x30 ntlmOidTLV) ++ optOctets 0xA2 t)

/-- minimal two's-complement content octets of a non-negative ENUMERATED -/
def enumContent (n : Nat) : Bytes :=
  let d := base256 n
  match d with
  | [] => [0]
  | b :: _ => if b ≥ 0x80 then 0 :: d else d

/-- `asn1.Marshal(NegTokenResp{NegState: s, SupportedMech: mech, ResponseToken: t})`; `none` when Go
    rejects the object identifier.  Zero-valued optional members are omitted. -/
def marshalNegTokenResp (state : Nat) (mech : List Nat) (t : Option Bytes) : Option Bytes :=
  let st := if state = 0 then [] else tlv 0xA0 (tlv 0x0a (enumContent state))
  if mech = [] then some (tlv 0x30 (st ++ optOctets 0xA2 t))
  else (oidContent mech).map fun c => tlv 0x30 (st ++ tlv 0xA1 (tlv 0x06 c) ++ optOctets 0xA2 t)

/-! ## SPNEGO: the repo's own code -/

/-- the counting loop `for temp > 0 { temp >>= 8; numBytes++ }` -/
def numBytes (temp : Nat) : Nat := if _h : temp = 0 then 0 else numBytes (temp / 256) + 1
decreasing_by omega

/-- the filling loop `for i := numBytes-1; i >= 0; i-- { result[i] = byte(length & 0xFF); length >>= 8 }`:
    `k` bytes, last index first -/
def fillBytes : Nat → Nat → Bytes
  | 0, _ => []
  | k+1, length => fillBytes k (length / 256) ++ [UInt8.ofNat (length % 256)]

/-- `encodeLength` -/
def encodeLength (length : Nat) : Bytes :=
  if length < 128 then [UInt8.ofNat length] else fillBytes (numBytes length) length

/-- the length octets written after the `0x60` byte -/
def gssLength (totalLen : Nat) : Bytes :=
  if totalLen < 128 then [UInt8.ofNat totalLen]
  else
    let lenBytes := encodeLength totalLen
    (0x80 ||| UInt8.ofNat lenBytes.length) :: lenBytes

/-- the GSS-API framing shared by `CreateNegTokenInit` and `CreateNegTokenResp` -/
def gssWrap (inner : Bytes) : Bytes :=
  0x60 :: gssLength (spnegoOidTLV.length + inner.length) ++ spnegoOidTLV ++ inner

/-- `CreateNegTokenInit`; `none` is a nil token -/
def wrapInit (t : Option Bytes) : Bytes := gssWrap (marshalNegTokenInit t)

/-- `CreateNegTokenResp`; `none` token = nil, result `none` = error -/
def wrapResp (state : Nat) (mech : List Nat) (t : Option Bytes) : Option Bytes :=
  (marshalNegTokenResp state mech t).map gssWrap

/-! ## what `asn1.Unmarshal` does on the types used (`none` = it returns an error) -/

structure TL where
  cls : Nat
  compound : Bool
  tag : Nat
  len : Nat
  deriving DecidableEq, Repr

/-- `parseBase128Int`: value and remaining bytes -/
def parseBase128Loop : Nat → Nat → Bytes → Option (Nat × Bytes)
  | _, _, [] => none                                       -- truncated
  | shifted, acc, b :: rest =>
    if shifted = 5 then none
    else if shifted = 0 ∧ b = 0x80 then none
    else
      let acc' := acc * 128 + (b &&& 0x7f).toNat
      if b &&& 0x80 = 0 then (if acc' > 2147483647 then none else some (acc', rest))
      else parseBase128Loop (shifted + 1) acc' rest

def parseBase128 (b : Bytes) : Option (Nat × Bytes) := parseBase128Loop 0 0 b

/-- the long-form length loop of `parseTagAndLength` -/
def parseLongLen : Nat → Nat → Bytes → Option (Nat × Bytes)
  | 0, acc, rest => some (acc, rest)
  | n+1, acc, rest =>
    match rest with
    | [] => none
    | b :: rest' =>
      if acc ≥ 8388608 then none                             -- 1<<23: "length too large"
      else
        let acc' := acc * 256 + b.toNat
        if acc' = 0 then none else parseLongLen n acc' rest'  -- leading zero

/-- `parseTagAndLength` -/
def parseTL (b : Bytes) : Option (TL × Bytes) :=
  match b with
  | [] => none
  | b0 :: r0 =>
    let cls := (b0 >>> 6).toNat
    let compound := b0 &&& 0x20 = 0x20
    let tagRes : Option (Nat × Bytes) :=
      if b0 &&& 0x1f = 0x1f then
        match parseBase128 r0 with
        | some (t, r) => if t < 0x1f then none else some (t, r)
        | none => none
      else some ((b0 &&& 0x1f).toNat, r0)
    match tagRes with
    | none => none
    | some (tag, r1) =>
      match r1 with
      | [] => none
      | l0 :: r2 =>
        if l0 &&& 0x80 = 0 then some ({ cls, compound, tag, len := (l0 &&& 0x7f).toNat }, r2)
        else
          let n := (l0 &&& 0x7f).toNat
          if n = 0 then none
          else
            match parseLongLen n 0 r2 with
            | none => none
            | some (len, r3) => if len < 0x80 then none else some ({ cls, compound, tag, len }, r3)

/-- `parseField` for a member with (optionally) an explicit context tag, a universal type
    `(utag, compound)` and a content parser.  Result: `none` = error; `some (none, b)` = member absent
    (offset reset); `some (some v, rest)` = parsed. -/
def parseField {α} (explicitTag : Option Nat) (optional : Bool) (utag : Nat) (compound : Bool)
    (content : Bytes → Option α) (b : Bytes) : Option (Option α × Bytes) :=
  let absent : Option (Option α × Bytes) := if optional then some (none, b) else none
  match b with
  | [] => if optional then some (none, []) else none
  | _ =>
    match parseTL b with
    | none => none
    | some (t, r) =>
      let inner : Option (Option (TL × Bytes)) :=      -- none = error, some none = absent
        match explicitTag with
        | none => some (some (t, r))
        | some e =>
          if r = [] then none                            -- "explicit tag has no child"
          else if t.cls = 2 ∧ t.tag = e ∧ (t.len = 0 ∨ t.compound) then
            if t.len > 0 then (match parseTL r with | none => none | some x => some (some x))
            else none                                    -- zero-length explicit tag, not a Flag
          else some none
      match inner with
      | none => none
      | some none => absent
      | some (some (t, r)) =>
        if t.cls ≠ 0 ∨ t.tag ≠ utag ∨ t.compound ≠ compound then absent
        else if t.len > r.length then none              -- "data truncated"
        else
          match content (r.take t.len) with
          | none => none
          | some v => some (some v, r.drop t.len)

/-- `parseObjectIdentifier` (the arcs) -/
def parseOidArcs : Nat → Bytes → Option (List Nat)
  | 0, _ => none
  | fuel+1, b =>
    match b with
    | [] => some []
    | _ => match parseBase128 b with
      | none => none
      | some (v, rest) => (parseOidArcs fuel rest).map (v :: ·)

def parseOid (b : Bytes) : Option (List Nat) :=
  match b with
  | [] => none
  | _ =>
    match parseOidArcs (b.length + 1) b with
    | some (v :: rest) => some (if v < 80 then v / 40 :: v % 40 :: rest else 2 :: (v - 80) :: rest)
    | _ => none

def someBytes (b : Bytes) : Option Bytes := some b

/-- `parseSequenceOf` for `[]ObjectIdentifier`: first pass checks every element header, second pass
    parses the elements -/
def parseOidSeqCheck : Nat → Bytes → Option Unit
  | 0, _ => none
  | fuel+1, b =>
    match b with
    | [] => some ()
    | _ => match parseTL b with
      | none => none
      | some (t, r) =>
        if t.cls ≠ 0 ∨ t.compound ∨ t.tag ≠ 6 then none
        else if t.len > r.length then none
        else parseOidSeqCheck fuel (r.drop t.len)

def parseOidSeqElems : Nat → Bytes → Option (List (List Nat))
  | 0, _ => none
  | fuel+1, b =>
    match b with
    | [] => some []
    | _ => match parseField none false 6 false parseOid b with
      | some (some v, rest) => (parseOidSeqElems fuel rest).map (v :: ·)
      | _ => none

def parseOidSeq (b : Bytes) : Option (List (List Nat)) :=
  match parseOidSeqCheck (b.length + 1) b with
  | none => none
  | some () => parseOidSeqElems (b.length + 1) b

/-- `parseBitString` (validity and payload) -/
def parseBitString (b : Bytes) : Option (Nat × Bytes) :=
  match b with
  | [] => none
  | p :: rest =>
    if p > 7 ∨ (rest = [] ∧ p > 0) ∨ (b.getLastD 0) &&& ((1 <<< p) - 1) ≠ 0 then none
    else some (rest.length * 8 - p.toNat, rest)

/-- `parseInt32` as a signed number -/
def parseInt32 (b : Bytes) : Option Int :=
  match b with
  | [] => none
  | [x] => some (if x ≥ 0x80 then (x.toNat : Int) - 256 else x.toNat)
  | x :: y :: _ =>
    if (x = 0 ∧ y &&& 0x80 = 0) ∨ (x = 0xff ∧ y &&& 0x80 = 0x80) then none
    else if b.length > 8 then none
    else
      let u := beNat b
      let v : Int := if x ≥ 0x80 then (u : Int) - (256 ^ b.length : Nat) else u
      if v < -2147483648 ∨ v > 2147483647 then none else some v

structure NegTokenInit where
  mechTypes : List (List Nat)
  reqFlags : Option (Nat × Bytes)
  mechToken : Bytes
  mechTokenMIC : Bytes
  deriving DecidableEq, Repr

structure NegTokenResp where
  negState : Int
  supportedMech : List Nat
  responseToken : Bytes
  mechListMIC : Bytes
  deriving DecidableEq, Repr

/-- the members of `NegTokenInit`, in order, on the contents of the SEQUENCE -/
def parseInitFields (b : Bytes) : Option NegTokenInit := do
  let (m, b1) ← parseField (some 0) false 16 true parseOidSeq b
  let (f, b2) ← parseField (some 1) true 3 false parseBitString b1
  let (t, b3) ← parseField (some 2) true 4 false someBytes b2
  let (c, _) ← parseField (some 3) true 4 false someBytes b3
  pure { mechTypes := m.getD [], reqFlags := f, mechToken := t.getD [], mechTokenMIC := c.getD [] }

def parseRespFields (b : Bytes) : Option NegTokenResp := do
  let (s, b1) ← parseField (some 0) true 10 false parseInt32 b
  let (m, b2) ← parseField (some 1) true 6 false parseOid b1
  let (t, b3) ← parseField (some 2) true 4 false someBytes b2
  let (c, _) ← parseField (some 3) true 4 false someBytes b3
  pure { negState := s.getD 0, supportedMech := m.getD [], responseToken := t.getD [], mechListMIC := c.getD [] }

/-- `asn1.Unmarshal(b, &v)` for a struct: value (the remaining bytes are not used by the repo) -/
def unmarshalStruct {α} (fields : Bytes → Option α) (b : Bytes) : Option α :=
  match parseField none false 16 true fields b with
  | some (some v, _) => some v
  | _ => none

/-- `asn1.Unmarshal(b, &oid)`: the rest -/
def unmarshalOidRest (b : Bytes) : Option Bytes :=
  match parseField none false 6 false parseOid b with
  | some (some _, rest) => some rest
  | _ => none

/-- `offset := 2; if data[1]&0x80 != 0 { offset = 2 + int(data[1]&0x7F) }` -/
def gssOffset (b1 : UInt8) : Nat := if b1 &&& 0x80 ≠ 0 then 2 + (b1 &&& 0x7f).toNat else 2

/-- the common prologue of `ExtractNTLMToken` and `ParseNegTokenResp`: header check, skipping the
    length octets *without reading them*, `data[offset:]` (guarded by fix C08-gss-header-bounds; before it
    `60 ff` panicked), then the object identifier.  Result: the bytes after the OID. -/
def gssPrologue (data : Bytes) : Outcome Bytes :=
  match data with
  | b0 :: b1 :: _ =>
    if b0 ≠ 0x60 then .err
    else if gssOffset b1 > data.length then .err
    else do
      let tail ← sliceFrom data (gssOffset b1)
      match unmarshalOidRest tail with
      | none => .err
      | some rest => .ok rest
  | _ => .err

def extractNTLMToken (data : Bytes) : Outcome Bytes := do
  let rest ← gssPrologue data
  match unmarshalStruct parseInitFields rest with
  | some i =>
    if i.mechToken.length > 0 then .ok i.mechToken
    else
      match unmarshalStruct parseRespFields rest with
      | some r => if r.responseToken.length > 0 then .ok r.responseToken else .err
      | none => .err
  | none =>
    match unmarshalStruct parseRespFields rest with
    | some r => if r.responseToken.length > 0 then .ok r.responseToken else .err
    | none => .err

def parseNegTokenResp (data : Bytes) : Outcome NegTokenResp := do
  let rest ← gssPrologue data
  match unmarshalStruct parseRespFields rest with
  | some r => .ok r
  | none => .err

/-- `AuthContext.ProcessChallengeToken` (NTLM): parse the server's NegTokenResp, refuse `reject`,
    extract the CHALLENGE, answer with the AUTHENTICATE message wrapped in a NegTokenInit.
    `lm nt` are the responses property C02 is about. -/
def processChallengeToken (upper utf16 : Bytes → Bytes) (token user domain workstation lm nt : Bytes) :
    Outcome Bytes := do
  let resp ← parseNegTokenResp token
  if resp.negState = 2 then .err
  else do
    let inner ← extractNTLMToken token
    let c ← parseChallenge inner
    let m ← createAuthenticateMessage upper utf16 c.flags lm nt user domain workstation
    pure (wrapInit (some m))

/-! ## Specification -/

namespace Spec

/-- MS-NLMP 2.2.1: a field descriptor at byte `pos`: `Len` (2), `MaxLen` (2), `BufferOffset` (4),
    little-endian unsigned numbers -/
def fieldAt (msg : Bytes) (pos : Nat) : Nat × Nat × Nat :=
  (leNat ((msg.drop pos).take 2), leNat ((msg.drop (pos + 2)).take 2), leNat ((msg.drop (pos + 4)).take 4))

/-- the descriptor at `pos` designates exactly `field`, which lies at `off` inside the message -/
def designates (msg : Bytes) (pos : Nat) (field : Bytes) (off : Nat) : Bool :=
  fieldAt msg pos == (field.length, field.length, off) &&
  decide (off + field.length ≤ msg.length) &&
  (msg.drop off).take field.length == field

def u32Field (msg : Bytes) (pos : Nat) : Nat := leNat ((msg.drop pos).take 4)

/-- the name a NEGOTIATE message carries for the supplied string: nothing when the string is empty;
    UTF-16LE under NTLMSSP_NEGOTIATE_UNICODE; the upper-cased OEM bytes otherwise -/
def negotiateName (upper utf16 : Bytes → Bytes) (unicode : Bool) (s : Bytes) : Bytes :=
  if s = [] then [] else if unicode then utf16 s else upper s

def bit (flags : Nat) (mask : Nat) : Bool := flags / mask % 2 = 1

/-- MS-NLMP 2.2.1.1 NEGOTIATE_MESSAGE carrying `domain` and `workstation` (already in the negotiated
    character set) back to back after a 40-byte header; `dSupplied` / `wSupplied`: the caller gave a
    non-empty domain / workstation string -/
def validNegotiate (msg : Bytes) (unicode dSupplied wSupplied : Bool) (domain workstation : Bytes) : Bool :=
  msg.take 8 == signature &&
  u32Field msg 8 == 1 &&
  bit (u32Field msg 12) 1 == unicode &&                               -- A: UNICODE
  bit (u32Field msg 12) 2 == !unicode &&                              -- B: OEM
  bit (u32Field msg 12) 0x1000 == dSupplied &&                        -- K: domain supplied
  bit (u32Field msg 12) 0x2000 == wSupplied &&                        -- L: workstation supplied
  bit (u32Field msg 12) 0x2000000 &&                                  -- T: version present
  designates msg 16 domain 40 &&
  designates msg 24 workstation (40 + domain.length) &&
  msg.length == 40 + domain.length + workstation.length

/-- names of the AUTHENTICATE message in the character set the CHALLENGE flags select -/
def authName (utf16 : Bytes → Bytes) (flags : UInt32) (s : Bytes) : Bytes :=
  if flags.toNat % 2 = 1 then utf16 s else s

/-- MS-NLMP 2.2.1.3 AUTHENTICATE_MESSAGE with an 88-byte header (Version and MIC present): the six
    descriptors designate the six fields, which follow each other from offset 88 to the end -/
def validAuthenticate (msg : Bytes) (flags : UInt32) (lm nt domain user workstation : Bytes) : Bool :=
  msg.take 8 == signature &&
  u32Field msg 8 == 3 &&
  designates msg 12 lm 88 &&
  designates msg 20 nt (88 + lm.length) &&
  designates msg 28 domain (88 + lm.length + nt.length) &&
  designates msg 36 user (88 + lm.length + nt.length + domain.length) &&
  designates msg 44 workstation (88 + lm.length + nt.length + domain.length + user.length) &&
  designates msg 52 [] (88 + lm.length + nt.length + domain.length + user.length + workstation.length) &&
  u32Field msg 60 == flags.toNat &&
  msg.length == 88 + lm.length + nt.length + domain.length + user.length + workstation.length

/-- MS-NLMP 2.2.1.2 CHALLENGE_MESSAGE built from its content; `gap0 gap1 gap2` are arbitrary bytes a
    server may leave before, between and after the two payload fields.  The Version field is present
    (8 bytes) and meaningful only under NTLMSSP_NEGOTIATE_VERSION. -/
def buildChallengeMax (c : Challenge) (gap0 gap1 gap2 : Bytes) (tnMax tiMax : Nat) : Bytes :=
  let tnOff := 56 + gap0.length
  let tiOff := tnOff + c.targetName.length + gap1.length
  signature ++ natLe 4 2 ++
  natLe 2 c.targetName.length ++ natLe 2 tnMax ++ natLe 4 tnOff ++
  natLe 4 c.flags.toNat ++ c.serverChallenge ++ c.reserved ++
  natLe 2 c.targetInfo.length ++ natLe 2 tiMax ++ natLe 4 tiOff ++
  c.version ++ gap0 ++ c.targetName ++ gap1 ++ c.targetInfo ++ gap2

/-- the usual sender: each `MaxLen` "SHOULD be set to the value of" its `Len` (2.2.1.2); a receiver MUST ignore it,
    which is why `buildChallengeMax` leaves both free -/
def buildChallenge (c : Challenge) (gap0 gap1 gap2 : Bytes) : Bytes :=
  buildChallengeMax c gap0 gap1 gap2 c.targetName.length c.targetInfo.length

/-- what a CHALLENGE can carry: 8-byte challenge / reserved / version, fields below 64 KiB, offsets
    below 4 GiB, and an all-zero Version unless NTLMSSP_NEGOTIATE_VERSION is set -/
def WellFormed (c : Challenge) (gap0 gap1 : Bytes) : Prop :=
  c.serverChallenge.length = 8 ∧ c.reserved.length = 8 ∧ c.version.length = 8 ∧
  c.targetName.length < 65536 ∧ c.targetInfo.length < 65536 ∧
  56 + gap0.length + c.targetName.length + gap1.length < 4294967296 ∧
  (c.flags &&& F_VERSION = 0 → c.version = zeros 8)

/-- MS-NLMP 2.2.2.1: AV_PAIR list, terminated by MsvAvEOL -/
def encodeAv (pairs : List (UInt16 × Bytes)) : Bytes :=
  pairs.flatMap (fun p => natLe 2 p.1.toNat ++ natLe 2 p.2.length ++ p.2) ++ [0, 0, 0, 0]

/-- the value a list of pairs gives to an id: the last occurrence -/
def avLookup (pairs : List (UInt16 × Bytes)) (k : UInt16) : Option Bytes :=
  (pairs.reverse.find? (fun p => p.1 = k)).map (·.2)

def mapLookup (m : AvMap) (k : UInt16) : Option Bytes := (m.find? (fun p => p.1 = k)).map (·.2)

/-- the Go map a list of pairs builds up, as an association list: assignments in order -/
def avMap (pairs : List (UInt16 × Bytes)) : AvMap := pairs.foldl (fun acc p => avInsert p.1 p.2 acc) []

/-- strictly increasing keys (so the association list is a canonical form of the map) -/
def Sorted (m : AvMap) : Prop := m.Pairwise (fun a b => a.1 < b.1)

/-- the least number of octets that hold `n` (at least one) -/
def octets (n : Nat) : Nat := if _h : n < 256 then 1 else octets (n / 256) + 1
decreasing_by omega

/-- X.690 §8.1.3: definite length octets (short form below 128, otherwise long form with the minimal
    number of octets, as DER requires) -/
def derLength (n : Nat) : Bytes :=
  if n < 128 then [UInt8.ofNat n] else UInt8.ofNat (128 + octets n) :: natBe (octets n) n

/-- X.690 §8.1.3 reading of definite length octets at the head of a byte string -/
def decodeLength (b : Bytes) : Option (Nat × Bytes) :=
  match b with
  | [] => none
  | l :: rest =>
    if l.toNat < 128 then some (l.toNat, rest)
    else
      let k := l.toNat - 128
      if k = 0 ∨ rest.length < k then none else some (beNat (rest.take k), rest.drop k)

def der (tag : UInt8) (content : Bytes) : Bytes := tag :: derLength content.length ++ content

/-- RFC 2743 §3.1 framing (`[APPLICATION 0]`, mechanism OID 1.3.6.1.5.5.2) around the DER of
    `NegTokenInit ::= SEQUENCE { mechTypes [0] MechTypeList, mechToken [2] OCTET STRING OPTIONAL }`
    offering the single mechanism NTLMSSP 1.3.6.1.4.1.311.2.2.10 -/
def gssInit (t : Option Bytes) : Bytes :=
  der 0x60 (spnegoOidTLV ++
    der 0x30 (der 0xA0 (der 0x30 ntlmOidTLV) ++
      (match t with | none => [] | some t => der 0xA2 (der 0x04 t))))

/-- MS-NLMP 2.2.1: `Len` and `MaxLen` of a field descriptor are 16-bit numbers — a message exists only for fields
    shorter than 64 KiB; a builder has to refuse anything longer -/
def fieldsFit (fields : List Bytes) : Bool := fields.all (fun f => decide (f.length < 65536))

end Spec

/-! ## Known findings (executable predicates) -/

/-- an empty token (nil: omitted from the NegTokenInit; empty: written as an empty OCTET STRING) is
    reported as "no NTLM token found" by the extraction -/
def KnownBad_emptyToken (t : Option Bytes) : Bool := (t.getD []).isEmpty

end Manticore.C08
